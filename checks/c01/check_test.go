package c01

import (
	"fmt"
	"os"
	"sort"
	"strings"
	"testing"

	"pgregory.net/rapid"

	"verif/internal/corpus"
	"verif/internal/dcegen"
	"verif/internal/drv"
	"verif/internal/progen"
)

var ev *drv.Evidence

func TestMain(m *testing.M) { drv.TestMain(m, func() *drv.Evidence { return ev }) }

const rule = "rapid-generated single-goroutine programs (progen: assignments of all forms, op-assign, inc/dec on index/selector/deref targets, if chains with init, expression/tagless/type switches with fallthrough and break, three for forms, range over slice/string/map, labelled break/continue, forward and bounded backward goto, closures over outer and loop variables, methods, method values/expressions, interface calls, variadics, named types, shadowing, deferred closures with recover, struct/array copies, sized-integer arithmetic and conversions, generics) ending in normal return, explicit panic, run-time error or deadlock; several scenarios per bundle, each run in its own process in both worlds; oracle: same trace lines and same way of ending as the native build, no compiler error, node --check accepts the output. Non-trivial scenario: >=5 trace lines and >=3 distinct statement kinds beyond plain assignment; distinct by source text. The hand-written corpus programs are included as fixed cases; the reachability-unit programs of the dead-code check (dcegen: initialisers nobody reads, calls through named function types, interface method expressions, nil interfaces, dynamic type tests) run against the native build as well."

var features = progen.Features{Generics: true, Ending: true, DeadCode: true, Hostile: true}

type bundle struct {
	scs   []progen.Scenario
	files map[string]string
}

func genBundle(seed, k int) bundle {
	scs := rapid.Custom(func(rt *rapid.T) []progen.Scenario {
		var out []progen.Scenario
		for i := 0; i < k; i++ {
			out = append(out, progen.Gen(rt, fmt.Sprintf("S%d_", i), features))
		}
		return out
	}).Example(seed)
	// drop scenarios the generator got wrong (counted; must stay rare)
	var good []progen.Scenario
	for _, s := range scs {
		files := progen.Bundle([]progen.Scenario{s}, features)
		for k, v := range drv.RtFiles() {
			files[k] = v
		}
		if err := progen.TypeCheck(files); err != nil {
			ev.Count("discarded_invalid_scenarios", 1)
			if os.Getenv("VERIF_DEBUG") != "" {
				fmt.Println("DISCARD:", err)
			}
			continue
		}
		good = append(good, s)
	}
	ev.Count("generated_scenarios", int64(len(scs)))
	return bundle{good, progen.Bundle(good, features)}
}

func TestCheck(t *testing.T) {
	ev = drv.NewEvidence("C01", "exploration", rule)
	nBundles, k := 10, 24
	if drv.Thorough() {
		nBundles, k = 170, 24
	}
	// fixed corpus
	for _, p := range corpus.All() {
		runCorpus(p)
	}
	for _, f := range drv.OpenFindings("C01") {
		replayFinding(f)
	}
	// reachability-unit programs (generated for the dead-code check) against the native build
	nUnits := 12
	if drv.Thorough() {
		nUnits = 300
	}
	drv.Parallel(nUnits, func(i int) {
		u := rapid.Custom(dcegen.Gen).Example(drv.Seed()*9001 + i)
		runCorpus(corpus.Program{Name: fmt.Sprintf("units%d %v", i, u.Kinds), Files: u.SingleFile()})
	})
	bundles := make([]bundle, nBundles)
	drv.ParallelN(4, nBundles, func(i int) { bundles[i] = genBundle(drv.Seed()*1009+i, k) })
	gen := ev.Evals()
	_ = gen
	drv.Parallel(nBundles, func(i int) { runBundle(bundles[i]) })
	h := ev
	_ = h
}

func runCorpus(p corpus.Program) {
	c := drv.NewCase("c01c_", p.Files, true)
	defer c.Remove()
	res := drv.RunBoth(c, drv.BuildOpts{}, [][]string{{}}, drv.NodeOpts{}, true)
	if res.NatErr != nil {
		drv.Infra("corpus %s: native build failed: %v", p.Name, res.NatErr)
	}
	ev.Case("corpus:"+p.Name, true)
	if res.JSBuildErr != nil {
		ev.Violation(fmt.Sprintf("corpus program %s: GopherJS build failed: %v", p.Name, res.JSBuildErr), c.ReproFiles())
		return
	}
	if !sameOutcome(res.JS[0], res.Native[0]) {
		// known finding C01-initorder: the lines printed by independent initialisers may come in
		// another order than under the reference toolchain; everything else must agree
		if f := drv.MatchRow("C01", "initorder"); f != nil {
			js, nat := res.JS[0], res.Native[0]
			js.Trace, nat.Trace = sortInitLines(js.Trace), sortInitLines(nat.Trace)
			if sameOutcome(js, nat) {
				ev.Known(f)
				return
			}
		}
		ev.Violation(fmt.Sprintf("corpus program %s: %s", p.Name, drv.FirstDiff(res.JS[0], res.Native[0])), c.ReproFiles())
	}
}

func sameOutcome(js, nat drv.Outcome) bool {
	if js.End != nat.End || strings.Join(js.Trace, "\n") != strings.Join(nat.Trace, "\n") {
		return false
	}
	if nat.End == "panic" && drv.NormPanicMsg(js.Msg) != drv.NormPanicMsg(nat.Msg) {
		return false
	}
	return true
}

func runBundle(b bundle) {
	if len(b.scs) == 0 {
		return
	}
	c := drv.NewCase("c01_", b.files, true)
	defer c.Remove()
	var argvs [][]string
	for i := range b.scs {
		argvs = append(argvs, []string{fmt.Sprint(i)})
	}
	res := drv.RunBoth(c, drv.BuildOpts{}, argvs, drv.NodeOpts{}, true)
	if res.NatErr != nil {
		drv.Infra("bundle does not build natively although every scenario type-checks: %v", res.NatErr)
	}
	if res.JSBuildErr != nil {
		// find the scenario(s) that make the compiler fail
		reported := false
		for _, s := range b.scs {
			one := progen.Bundle([]progen.Scenario{s}, features)
			cs := drv.NewCase("c01s_", one, true)
			_, _, err := cs.BuildJS(drv.BuildOpts{}, "out")
			if err != nil {
				ev.Violation(fmt.Sprintf("GopherJS rejects or mis-emits a valid program (scenario %s): %v", s.Prefix, err), cs.ReproFiles())
				reported = true
			}
			cs.Remove()
			if reported {
				break
			}
		}
		if !reported {
			ev.Violation("GopherJS build of a bundle failed: "+res.JSBuildErr.Error(), c.ReproFiles())
		}
		return
	}
	for i, s := range b.scs {
		js, nat := res.JS[i], res.Native[i]
		if nat.End == "timeout" || nat.End == "crash" {
			drv.Infra("native run of scenario %s ended %s: %s", s.Prefix, nat.End, nat.Stderr)
		}
		kinds := 0
		for _, k := range s.Kinds {
			if k != "assign" && k != "trace" && !strings.HasPrefix(k, "ending:") {
				kinds++
			}
			ev.Count("kind:"+k, 1)
		}
		nt := len(nat.Trace) >= 5 && kinds >= 3
		ev.Case("scenario:"+s.Src, nt)
		ev.Count("end:"+nat.End, 1)
		if sameOutcome(js, nat) {
			continue
		}
		one := progen.Bundle([]progen.Scenario{s}, features)
		for k, v := range drv.RtFiles() {
			one[k] = v
		}
		one["gopherjs.txt"] = js.String() + "\n" + js.Stderr
		one["native.txt"] = nat.String()
		one["argv.txt"] = "0\n"
		ev.Violation(fmt.Sprintf("scenario %s behaves differently: %s (ends gopherjs %s %q, native %s %q)", s.Prefix, drv.FirstDiff(js, nat), js.End, drv.NormPanicMsg(js.Msg), nat.End, drv.NormPanicMsg(nat.Msg)), one)
	}
	if len(b.scs) > 0 {
		lines := strings.Split(b.scs[0].Src, "\n")
		if len(lines) > 40 {
			lines = lines[:40]
		}
		sort.Strings(b.scs[0].Kinds)
		ev.Sample(map[string]any{"kinds": b.scs[0].Kinds, "source_head": lines})
	}
}

// replayFinding re-runs the stored program of an open known finding.
func replayFinding(f *drv.Finding) {
	if f.Replay == "" {
		return
	}
	files := drv.ReadReplayDir(f.Replay)
	prog := map[string]string{}
	for k, v := range files {
		if strings.HasSuffix(k, ".go") {
			prog[k] = v
		}
	}
	if len(prog) == 0 {
		return
	}
	c := drv.NewCase("c01r_", prog, false)
	defer c.Remove()
	res := drv.RunBoth(c, drv.BuildOpts{}, [][]string{{"0"}}, drv.NodeOpts{}, false)
	if res.NatErr != nil || res.JSBuildErr != nil {
		drv.Infra("known finding %s no longer builds: %v %v", f.ID, res.NatErr, res.JSBuildErr)
	}
	ev.Case("known:"+f.ID, true)
	if !sameOutcome(res.JS[0], res.Native[0]) {
		ev.Known(f)
	}
}

// sortInitLines sorts the lines printed by package-level initialisers of the unit programs among
// themselves, leaving every other line in place.
func sortInitLines(trace []string) []string {
	out := append([]string{}, trace...)
	var idx []int
	var lines []string
	for i, l := range out {
		if strings.Contains(l, " side effect ") || strings.HasSuffix(l, " called") {
			idx = append(idx, i)
			lines = append(lines, l)
		}
	}
	sort.Strings(lines)
	for k, i := range idx {
		out[i] = lines[k]
	}
	return out
}
