package c02

import (
	"fmt"
	"strings"
	"testing"

	"pgregory.net/rapid"

	"verif/internal/drv"
	"verif/internal/progen"
)

var ev *drv.Evidence

func TestMain(m *testing.M) { drv.TestMain(m, func() *drv.Evidence { return ev }) }

const rule = "rapid-generated programs (progen) in which statement boundaries and integer sub-expressions are suspension sites: yield(id) / y(id, e) suspend the goroutine (a receive from a channel closed by a helper goroutine) exactly when bit id of a run-time mask is set, so one build serves every subset of sites; sites occur in loop bodies, switch/if branches, closures, deferred closures (also while a recovered panic unwinds), methods, recursive helper functions, generic code, right operands of && and ||, arguments. Oracles: (1) the trace is identical for the empty mask, the full mask and rapid-drawn subsets (single sites, all sites of one function, random); (2) it equals the trace of the same program text built with non-blocking yield functions (direct compilation form); (3) it equals the native run. Non-trivial run: at least one suspension actually happened (counted by the program); distinct by (source text, mask)."

var features = progen.Features{Yield: true, Generics: true, Ending: true}

func TestCheck(t *testing.T) {
	ev = drv.NewEvidence("C02", "exploration", rule)
	nBundles, k, nMasks := 6, 14, 6
	if drv.Thorough() {
		nBundles, k, nMasks = 50, 16, 10
	}
	type bundle struct {
		scs   []progen.Scenario
		masks [][]string
	}
	bundles := make([]bundle, nBundles)
	drv.ParallelN(4, nBundles, func(i int) {
		b := rapid.Custom(func(rt *rapid.T) bundle {
			var out bundle
			for j := 0; j < k; j++ {
				s := progen.Gen(rt, fmt.Sprintf("S%d_", j), features)
				out.scs = append(out.scs, s)
				n := s.Sites
				ms := []string{"", strings.Repeat("1", n)}
				for m := 0; m < nMasks && n > 0; m++ {
					switch rapid.IntRange(0, 2).Draw(rt, "maskkind") {
					case 0: // a single site
						x := rapid.IntRange(0, n-1).Draw(rt, "site")
						ms = append(ms, strings.Repeat("0", x)+"1"+strings.Repeat("0", n-x-1))
					case 1: // a contiguous range (all sites of one region)
						a := rapid.IntRange(0, n-1).Draw(rt, "from")
						bb := rapid.IntRange(a, n-1).Draw(rt, "to")
						ms = append(ms, strings.Repeat("0", a)+strings.Repeat("1", bb-a+1)+strings.Repeat("0", n-bb-1))
					default:
						var sb strings.Builder
						for x := 0; x < n; x++ {
							if rapid.Bool().Draw(rt, "bit") {
								sb.WriteByte('1')
							} else {
								sb.WriteByte('0')
							}
						}
						ms = append(ms, sb.String())
					}
				}
				// bits 200..209 select the suspension sites inside the shared helpers (methods, interface
				// methods, variadic and generic functions)
				for mi := range ms {
					pad := strings.Repeat("0", 200-len(ms[mi]))
					res := strings.Repeat("0", 10)
					switch {
					case mi == 1:
						res = strings.Repeat("1", 10)
					case mi >= 2:
						var sb strings.Builder
						for x := 0; x < 10; x++ {
							if rapid.IntRange(0, 2).Draw(rt, "rbit") == 0 {
								sb.WriteByte('1')
							} else {
								sb.WriteByte('0')
							}
						}
						res = sb.String()
					}
					if mi > 0 {
						ms[mi] = ms[mi] + pad + res
					}
				}
				out.masks = append(out.masks, ms)
			}
			return out
		}).Example(drv.Seed()*7001 + i)
		// drop invalid scenarios
		var good bundle
		for j, s := range b.scs {
			files := progen.Bundle([]progen.Scenario{s}, features)
			for kk, v := range drv.RtFiles() {
				files[kk] = v
			}
			if err := progen.TypeCheck(files); err != nil {
				ev.Count("discarded_invalid_scenarios", 1)
				continue
			}
			good.scs = append(good.scs, s)
			good.masks = append(good.masks, b.masks[j])
		}
		bundles[i] = good
	})
	drv.Parallel(nBundles, func(i int) { runBundle(bundles[i].scs, bundles[i].masks) })
}

func strip(o drv.Outcome) (trace string, susp string) {
	var keep []string
	for _, l := range o.Trace {
		if strings.HasPrefix(l, "#suspensions ") {
			susp = strings.TrimPrefix(l, "#suspensions ")
			continue
		}
		keep = append(keep, l)
	}
	return strings.Join(keep, "\n"), susp
}

func runBundle(scs []progen.Scenario, masks [][]string) {
	if len(scs) == 0 {
		return
	}
	files := progen.Bundle(scs, features)
	c := drv.NewCase("c02_", files, true)
	defer c.Remove()
	stubF := features
	stubF.YieldStub = true
	cs := drv.NewCase("c02s_", progen.Bundle(scs, stubF), true)
	defer cs.Remove()
	var argvs [][]string
	var owner []int
	for i := range scs {
		for _, m := range masks[i] {
			argvs = append(argvs, []string{fmt.Sprint(i), m})
			owner = append(owner, i)
		}
	}
	// native reference: one run per scenario (mask empty) plus the full mask
	var natArgv [][]string
	for i := range scs {
		natArgv = append(natArgv, []string{fmt.Sprint(i), ""}, []string{fmt.Sprint(i), masks[i][1]})
	}
	bin, err := c.BuildNative()
	if err != nil {
		drv.Infra("bundle does not build natively: %v", err)
	}
	jsPath, _, err := c.BuildJS(drv.BuildOpts{}, "out")
	if err != nil {
		if !drv.IsCompilerInternalError(err) {
			drv.Infra("bundle rejected (generator bug): %v", err)
		}
		ev.Violation("GopherJS build failed: "+err.Error(), c.ReproFiles())
		return
	}
	stubPath, _, err := cs.BuildJS(drv.BuildOpts{}, "stub")
	if err != nil {
		ev.Violation("GopherJS build of the yield-free variant failed: "+err.Error(), cs.ReproFiles())
		return
	}
	jsOut := make([]drv.Outcome, len(argvs))
	natOut := make([]drv.Outcome, len(natArgv))
	stubOut := make([]drv.Outcome, len(scs))
	drv.Parallel(len(argvs)+len(natArgv)+len(scs), func(i int) {
		switch {
		case i < len(argvs):
			jsOut[i] = drv.RunNode(jsPath, argvs[i], drv.NodeOpts{})
		case i < len(argvs)+len(natArgv):
			natOut[i-len(argvs)] = drv.RunNative(bin, natArgv[i-len(argvs)], 0)
		default:
			j := i - len(argvs) - len(natArgv)
			stubOut[j] = drv.RunNode(stubPath, []string{fmt.Sprint(j), ""}, drv.NodeOpts{})
		}
	})
	reported := map[int]bool{}
	report := func(i int, what string, extra map[string]string) {
		if reported[i] || len(reported) >= 3 {
			return
		}
		reported[i] = true
		one := progen.Bundle([]progen.Scenario{scs[i]}, features)
		for k, v := range drv.RtFiles() {
			one[k] = v
		}
		for k, v := range extra {
			one[k] = v
		}
		ev.Violation(fmt.Sprintf("scenario %s (%d yield sites): %s", scs[i].Prefix, scs[i].Sites, what), one)
	}
	for i := range scs {
		n0, _ := strip(natOut[2*i])
		n1, _ := strip(natOut[2*i+1])
		if natOut[2*i].End == "timeout" || natOut[2*i].End == "crash" {
			drv.Infra("native run ended %s: %s", natOut[2*i].End, natOut[2*i].Stderr)
		}
		if n0 != n1 || natOut[2*i].End != natOut[2*i+1].End {
			drv.Infra("the native runs of scenario %s differ between masks: the generated program is not schedule independent (generator bug)", scs[i].Prefix)
		}
		s0, _ := strip(stubOut[i])
		if s0 != n0 || stubOut[i].End != natOut[2*i].End {
			report(i, "the yield-free (direct form) build differs from the native run: "+drv.FirstDiff(stubOut[i], natOut[2*i]), map[string]string{"direct.txt": stubOut[i].String() + "\n" + stubOut[i].Stderr, "native.txt": natOut[2*i].String()})
		}
		for _, k := range scs[i].Kinds {
			ev.Count("kind:"+k, 1)
		}
	}
	for a := range argvs {
		i := owner[a]
		tr, susp := strip(jsOut[a])
		n0, _ := strip(natOut[2*i])
		ev.Case(scs[i].Src+"|"+argvs[a][1], susp != "" && susp != "0")
		ev.Count("node_runs", 1)
		if tr == n0 && jsOut[a].End == natOut[2*i].End && (jsOut[a].End != "panic" || drv.NormPanicMsg(jsOut[a].Msg) == drv.NormPanicMsg(natOut[2*i].Msg)) {
			continue
		}
		report(i, fmt.Sprintf("with suspension mask %q the program behaves differently from the reference (which is the same for every mask): %s (ends %s %q, reference %s %q)", argvs[a][1], drv.FirstDiff(jsOut[a], natOut[2*i]), jsOut[a].End, jsOut[a].Msg, natOut[2*i].End, natOut[2*i].Msg),
			map[string]string{"mask.txt": argvs[a][1], "argv.txt": "0 " + argvs[a][1], "gopherjs.txt": jsOut[a].String() + "\n" + jsOut[a].Stderr, "native.txt": natOut[2*i].String()})
	}
	ev.Sample(map[string]any{"sites": scs[0].Sites, "masks": masks[0], "kinds": scs[0].Kinds})
}
