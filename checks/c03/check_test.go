package c03

import (
	"fmt"
	"os"
	"path/filepath"
	"strings"
	"testing"

	"pgregory.net/rapid"

	"verif/internal/chanmodel"
	"verif/internal/drv"
)

var ev *drv.Evidence

func TestMain(m *testing.M) { drv.TestMain(m, func() *drv.Evidence { return ev }) }

const rule = "(a) rapid-generated configurations of 2-4 goroutines (main starts the others at drawn points) running scripts of 1-4 operations over 1-3 channels of capacity 0-2 or nil (plus an optional join channel): send, receive (one- and two-value), close, select with 1-3 send/receive cases with or without default, bounded range, len/cap, Gosched, Goexit; every operation prints one goroutine-tagged line (panics are recovered and printed). Each configuration is compiled once and run under Node with a preload that owns Math.random (pick among ready select cases), Date.now (4 ms time-slice break) and the timer queue (order of timer callbacks): the choice tree reported by the preload is enumerated depth first for three clock patterns up to a budget, then sampled. Oracle: chanmodel, an explicit-state model of Go channels written from the specification that admits every interleaving; the printed trace followed by the way the program ended (normal exit of main, or 'all goroutines are asleep') must be a member of the model's behaviours. The native build of the same configuration is run under three GOMAXPROCS values and must be a member too (otherwise the run stops as inconclusive). (b) rapid-generated Kahn process networks (every channel has one writer and one reader, blocking operations only, struct and array payloads, Gosched sprinkled in) whose output is schedule independent: compared with the native run under eight preload scripts. (c) five fixed scenarios for the last clause: with a Go function handed to JavaScript (global, argument, wrapper, MakeFunc) a program whose goroutines all block ends silently, without one it reports the deadlock. Non-trivial configuration: the model parks a goroutine in some execution and the scripts contain a close or a select; distinct by configuration text."

var shim string

type bundle struct {
	cfgs []chanmodel.Config
}

func bundleSource(cfgs []chanmodel.Config) string {
	var sb strings.Builder
	sb.WriteString("package main\n")
	sb.WriteString(chanmodel.Helpers)
	sb.WriteString("\n")
	for i := range cfgs {
		sb.WriteString(chanmodel.Source(&cfgs[i], fmt.Sprintf("k%d_", i)))
	}
	sb.WriteString("func main() {\n\tswitch argv(0) {\n")
	for i := range cfgs {
		fmt.Fprintf(&sb, "\tcase \"%d\":\n\t\tk%d_main()\n", i, i)
	}
	sb.WriteString("\t}\n}\n")
	return sb.String()
}

// choice is one entry of the preload's log.
type choice struct {
	kind   string // random | timers
	arity  int
	picked int
}

func readChoices(path string) []choice {
	b, err := os.ReadFile(path)
	if err != nil {
		return nil
	}
	var out []choice
	for _, l := range strings.Split(string(b), "\n") {
		var c choice
		if n, _ := fmt.Sscanf(l, "%s %d %d", &c.kind, &c.arity, &c.picked); n == 3 && (c.kind == "random" || c.kind == "timers") {
			out = append(out, c)
		}
	}
	return out
}

type script struct {
	picks []int // per choice point, in the order the run meets them
	clock string
}

func runJS(jsPath string, arg string, sc script, kinds []choice, logPath string) (drv.Outcome, []choice) {
	// split the picks into the two streams following the kinds seen so far; beyond them 0
	var rnd, tim []string
	for i, p := range sc.picks {
		k := "random"
		if i < len(kinds) {
			k = kinds[i].kind
		}
		if k == "random" {
			rnd = append(rnd, fmt.Sprint(p))
		} else {
			tim = append(tim, fmt.Sprint(p))
		}
	}
	os.Remove(logPath)
	o := drv.RunNode(jsPath, []string{arg}, drv.NodeOpts{Preload: shim, Env: []string{
		"VERIF_SCHED_RANDOM=" + strings.Join(rnd, ","),
		"VERIF_SCHED_TIMERS=" + strings.Join(tim, ","),
		"VERIF_SCHED_CLOCK=" + sc.clock,
		"VERIF_SCHED_LOG=" + logPath,
	}})
	return o, readChoices(logPath)
}

func checkConfig(cfg *chanmodel.Config, idx int, jsPath, bin string, label string, budget int, repro func() map[string]string) {
	m := chanmodel.New(cfg)
	sum := m.Explore(300000)
	desc := chanmodel.Describe(cfg)
	interesting := false
	for _, s := range cfg.Scripts {
		for _, op := range s {
			if op.Kind == chanmodel.OpClose || op.Kind == chanmodel.OpSelect {
				interesting = true
			}
		}
	}
	ev.Case("config:"+desc, sum.Parks && interesting && !sum.Truncated)
	ev.Count("model_states", int64(sum.States))
	if sum.Truncated {
		ev.Count("model_truncated", 1)
		return
	}
	if sum.CanDeadlock {
		ev.Count("configs_that_can_deadlock", 1)
	}
	if sum.CanExit {
		ev.Count("configs_that_can_exit", 1)
	}
	arg := fmt.Sprint(idx)
	// the model is validated against the native runtime first
	for _, procs := range []string{"1", "2", "4"} {
		nat := drv.RunNative(bin, []string{arg}, 0, "GOMAXPROCS="+procs)
		if nat.End != "exit0" && nat.End != "deadlock" {
			drv.Infra("native run of %s ended %s %q\n%s\n%s", label, nat.End, nat.Msg, desc, nat.Stderr)
		}
		if !m.Member(nat.Trace, nat.End) {
			drv.Infra("the reference model rejects a native trace (model wrong) for %s:\n%s\n%s\n--end %s", label, desc, strings.Join(nat.Trace, "\n"), nat.End)
		}
		ev.Count("native_traces_validated", 1)
	}
	logPath := filepath.Join(filepath.Dir(jsPath), fmt.Sprintf("sched_%d.log", idx))
	seenTrace := map[string]bool{}
	runs := 0
	for ci, clock := range []string{"", strings.Repeat("1", 400), strings.Repeat("0100110", 60)} {
		// depth-first enumeration of the choice tree for this clock pattern
		var picks []int
		var kinds []choice
		for runs < budget*(ci+1)/3+1 {
			o, seen := runJS(jsPath, arg, script{picks: picks, clock: clock}, kinds, logPath)
			runs++
			ev.Count("node_runs", 1)
			ev.Count("choice_points", int64(len(seen)))
			key := strings.Join(o.Trace, "\n") + "|" + o.End
			if !seenTrace[key] {
				seenTrace[key] = true
				ev.Count("distinct_traces", 1)
				bad := ""
				switch {
				case o.End != "exit0" && o.End != "deadlock":
					bad = fmt.Sprintf("the program ended %s %q", o.End, o.Msg)
				case !m.Member(o.Trace, o.End):
					bad = "the trace is not a behaviour of Go channels"
					if o.End == "deadlock" && !sum.CanDeadlock {
						bad = "deadlock reported although no execution of the configuration deadlocks"
					}
					if o.End == "exit0" && !sum.CanExit {
						bad = "the program ends normally although main can never return (a deadlock was missed)"
					}
				}
				ev.Count("model_states_membership", int64(m.States))
				if bad != "" {
					files := repro()
					files["config.txt"] = desc + "\n"
					files["gopherjs.txt"] = o.String() + "\n" + o.Stderr
					files["schedule.txt"] = fmt.Sprintf("argv %s\npicks %v\nclock pattern %d\nchoice points %v\n", arg, picks, ci, seen)
					ev.Violation(fmt.Sprintf("%s: %s\n  configuration: %s\n  trace: %s | end %s", label, bad, strings.ReplaceAll(desc, "\n", " "), strings.Join(o.Trace, " / "), o.End), files)
					return
				}
			}
			// next script: bump the last choice point that still has an untried alternative
			kinds = seen
			next := make([]int, len(seen))
			for i, c := range seen {
				next[i] = c.picked
			}
			i := len(next) - 1
			for i >= 0 && next[i]+1 >= seen[i].arity {
				i--
			}
			if i < 0 {
				break // tree exhausted for this clock pattern
			}
			next[i]++
			picks = next[:i+1]
			kinds = seen[:i+1]
		}
	}
	ev.Count("schedules_per_config_total", int64(runs))
	if idx == 0 {
		var traces []string
		for k := range seenTrace {
			traces = append(traces, k)
			if len(traces) == 2 {
				break
			}
		}
		ev.Sample(map[string]any{"configuration": desc, "model_states": sum.States, "schedules_run": runs, "observed_traces": traces})
	}
}

func TestCheck(t *testing.T) {
	ev = drv.NewEvidence("C03", "exploration", rule)
	ev.Assume("the reference model over-approximates every scheduler (any enabled step may fire); liveness is checked as termination: a run that ends normally must let main return in the model, a run that reports a deadlock must be a deadlock of the model")
	shim = filepath.Join(drv.VerifDir(), "js", "sched_shim.js")
	nCfg, perBundle, budget := 96, 8, 12
	if drv.Thorough() {
		nCfg, perBundle, budget = 500, 10, 24
	}
	var bundles [][]chanmodel.Config
	for i := 0; i < nCfg; i += perBundle {
		var b []chanmodel.Config
		for j := i; j < i+perBundle && j < nCfg; j++ {
			b = append(b, rapid.Custom(chanmodel.Gen).Example(drv.Seed()*11003+j))
		}
		bundles = append(bundles, b)
	}
	drv.Parallel(len(bundles), func(bi int) {
		b := bundles[bi]
		c := drv.NewCase("c03_", map[string]string{"main.go": bundleSource(b)}, true)
		defer c.Remove()
		jsPath, _, err := c.BuildJS(drv.BuildOpts{}, "out")
		bin, nerr := c.BuildNative()
		if nerr != nil {
			drv.Infra("configuration bundle does not build natively (generator bug): %v", nerr)
		}
		if err != nil {
			ev.Violation("GopherJS build failed: "+err.Error(), c.ReproFiles())
			return
		}
		drv.ParallelN(4, len(b), func(i int) {
			checkConfig(&b[i], i, jsPath, bin, fmt.Sprintf("bundle %d config %d", bi, i), budget, func() map[string]string {
				one := map[string]string{"main.go": bundleSource([]chanmodel.Config{b[i]})}
				for k, v := range drv.RtFiles() {
					one[k] = v
				}
				return one
			})
		})
	})
	networks(t)
	handedToJS()
}
