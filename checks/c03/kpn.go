package c03

import (
	"fmt"
	"strings"
	"testing"

	"pgregory.net/rapid"

	"verif/internal/drv"
)

// Kahn process networks: every channel has exactly one writer and one reader, processes only
// use blocking sends, receives and range, and every process is a deterministic function of the
// values it reads. The complete output (and whether the network ends or gets stuck on its
// bounded buffers) is then independent of the schedule, so the native run is the oracle.

type kpn struct {
	src      string
	procs    int
	unbuf    int
	kinds    map[string]int
	nstreams int
}

type kgen struct {
	rt    *rapid.T
	sb    strings.Builder // process functions
	wire  strings.Builder // body of the network function: channel creation and go statements
	open  []string        // streams that have a writer and no reader yet
	n     int
	id    string
	procs int
	unbuf int
	kinds map[string]int
}

func (g *kgen) newChan() string {
	g.n++
	name := fmt.Sprintf("c%d", g.n)
	capn := rapid.IntRange(0, 3).Draw(g.rt, "cap")
	if capn == 0 {
		g.unbuf++
	}
	fmt.Fprintf(&g.wire, "\t%s := make(chan msg, %d)\n", name, capn)
	return name
}

func (g *kgen) takeOpen() string {
	i := rapid.IntRange(0, len(g.open)-1).Draw(g.rt, "stream")
	s := g.open[i]
	g.open = append(g.open[:i], g.open[i+1:]...)
	return s
}

func (g *kgen) yield() string {
	if rapid.IntRange(0, 3).Draw(g.rt, "yield") == 0 {
		return "\t\truntime.Gosched()\n"
	}
	return ""
}

func (g *kgen) proc(kind string, body string, params string, args string) {
	g.procs++
	g.kinds[kind]++
	name := fmt.Sprintf("%sp%d", g.id, g.procs)
	fmt.Fprintf(&g.sb, "func %s(%s) {\n%s}\n\n", name, params, body)
	fmt.Fprintf(&g.wire, "\tgo %s(%s)\n", name, args)
}

func genKPN(rt *rapid.T, id string) kpn {
	g := &kgen{rt: rt, id: id, kinds: map[string]int{}}
	nsrc := rapid.IntRange(1, 3).Draw(rt, "nsources")
	for s := 0; s < nsrc; s++ {
		out := g.newChan()
		count := rapid.IntRange(3, 12).Draw(rt, "count")
		base := (s + 1) * 100
		// the sender changes its copy after the send: the receiver must not see that
		body := fmt.Sprintf("\tfor i := 0; i < %d; i++ {\n\t\tm := msg{id: %d + i, data: [2]int{i, i * i}, tag: \"s%d\"}\n\t\tout <- m\n\t\tm.data[0] = -1\n\t\tm.tag = \"changed\"\n%s\t}\n\tclose(out)\n", count, base, s, g.yield())
		g.proc("source", body, "out chan<- msg", out)
		g.open = append(g.open, out)
	}
	budget := rapid.IntRange(1, 6).Draw(rt, "nprocs")
	for k := 0; k < budget; k++ {
		switch op := rapid.IntRange(0, 6).Draw(rt, "proc"); {
		case op <= 1: // map
			in, out := g.takeOpen(), g.newChan()
			body := fmt.Sprintf("\tfor m := range in {\n\t\tm.id = m.id*%d + %d\n\t\tm.data[1] += m.data[0]\n\t\tm.tag += \"m\"\n%s\t\tout <- m\n\t}\n\tclose(out)\n", rapid.IntRange(1, 3).Draw(rt, "mul"), rapid.IntRange(0, 9).Draw(rt, "add"), g.yield())
			g.proc("map", body, "in <-chan msg, out chan<- msg", in+", "+out)
			g.open = append(g.open, out)
		case op == 2: // filter
			in, out := g.takeOpen(), g.newChan()
			body := fmt.Sprintf("\tfor m := range in {\n\t\tif m.id%%%d == 0 {\n\t\t\tcontinue\n\t\t}\n%s\t\tout <- m\n\t}\n\tclose(out)\n", rapid.IntRange(2, 4).Draw(rt, "mod"), g.yield())
			g.proc("filter", body, "in <-chan msg, out chan<- msg", in+", "+out)
			g.open = append(g.open, out)
		case op == 3: // split round robin
			in, o1, o2 := g.takeOpen(), g.newChan(), g.newChan()
			body := "\tk := 0\n\tfor m := range in {\n\t\tif k%2 == 0 {\n\t\t\to1 <- m\n\t\t} else {\n\t\t\to2 <- m\n\t\t}\n\t\tk++\n" + g.yield() + "\t}\n\tclose(o1)\n\tclose(o2)\n"
			g.proc("split", body, "in <-chan msg, o1, o2 chan<- msg", in+", "+o1+", "+o2)
			g.open = append(g.open, o1, o2)
		case op == 4: // duplicate through a pointer-free copy
			in, o1, o2 := g.takeOpen(), g.newChan(), g.newChan()
			body := "\tfor m := range in {\n\t\to1 <- m\n\t\tm.data[1]++\n\t\tm.tag += \"d\"\n\t\to2 <- m\n" + g.yield() + "\t}\n\tclose(o1)\n\tclose(o2)\n"
			g.proc("dup", body, "in <-chan msg, o1, o2 chan<- msg", in+", "+o1+", "+o2)
			g.open = append(g.open, o1, o2)
		case op == 5 && len(g.open) >= 2: // zip
			i1, i2, out := g.takeOpen(), g.takeOpen(), g.newChan()
			body := "\tfor {\n\t\ta, ok := <-i1\n\t\tif !ok {\n\t\t\tbreak\n\t\t}\n\t\tout <- a\n\t\tb, ok := <-i2\n\t\tif !ok {\n\t\t\tbreak\n\t\t}\n\t\tout <- b\n" + g.yield() + "\t}\n\tfor a := range i1 {\n\t\tout <- a\n\t}\n\tfor b := range i2 {\n\t\tout <- b\n\t}\n\tclose(out)\n"
			g.proc("zip", body, "i1, i2 <-chan msg, out chan<- msg", i1+", "+i2+", "+out)
			g.open = append(g.open, out)
		default: // batch: sums of k
			in, out := g.takeOpen(), g.newChan()
			kk := rapid.IntRange(2, 3).Draw(rt, "batch")
			body := fmt.Sprintf("\tvar acc msg\n\tn := 0\n\tfor m := range in {\n\t\tacc.id += m.id\n\t\tacc.data[0] += m.data[0]\n\t\tacc.data[1] += m.data[1]\n\t\tacc.tag += m.tag[:1]\n\t\tn++\n\t\tif n == %d {\n\t\t\tout <- acc\n\t\t\tacc, n = msg{}, 0\n\t\t}\n\t}\n\tif n > 0 {\n\t\tout <- acc\n\t}\n\tclose(out)\n", kk)
			g.proc("batch", body, "in <-chan msg, out chan<- msg", in+", "+out)
			g.open = append(g.open, out)
		}
	}
	// the sink reads the remaining streams one after the other
	var sink strings.Builder
	for _, s := range g.open {
		fmt.Fprintf(&sink, "\tfor m := range %s {\n\t\tout(\"%s \" + itoa(m.id) + \" \" + itoa(m.data[0]) + \",\" + itoa(m.data[1]) + \" \" + m.tag)\n\t}\n\tout(\"%s closed\")\n", s, s, s)
	}
	src := g.sb.String() + fmt.Sprintf("func %smain() {\n%s%s\tout(\"END\")\n}\n\n", id, g.wire.String(), sink.String())
	return kpn{src: src, procs: g.procs, unbuf: g.unbuf, kinds: g.kinds, nstreams: len(g.open)}
}

const kpnCommon = `package main

import "runtime"

var _ = runtime.Gosched

type msg struct {
	id   int
	data [2]int
	tag  string
}

`

func networks(t *testing.T) {
	n, perBundle, schedules := 24, 8, 8
	if drv.Thorough() {
		n, perBundle, schedules = 150, 10, 8
	}
	type job struct {
		nets []kpn
	}
	var jobs []job
	for i := 0; i < n; i += perBundle {
		var j job
		for k := i; k < i+perBundle && k < n; k++ {
			k := k
			j.nets = append(j.nets, rapid.Custom(func(rt *rapid.T) kpn { return genKPN(rt, fmt.Sprintf("n%d_", k%perBundle)) }).Example(drv.Seed()*13007+k))
		}
		jobs = append(jobs, j)
	}
	drv.Parallel(len(jobs), func(ji int) {
		j := jobs[ji]
		var sb strings.Builder
		sb.WriteString(kpnCommon)
		for _, nw := range j.nets {
			sb.WriteString(nw.src)
		}
		sb.WriteString("func main() {\n\tswitch argv(0) {\n")
		for i := range j.nets {
			fmt.Fprintf(&sb, "\tcase \"%d\":\n\t\tn%d_main()\n", i, i)
		}
		sb.WriteString("\t}\n}\n")
		c := drv.NewCase("c03n_", map[string]string{"main.go": sb.String()}, true)
		defer c.Remove()
		jsPath, _, err := c.BuildJS(drv.BuildOpts{}, "out")
		bin, nerr := c.BuildNative()
		if nerr != nil {
			drv.Infra("network bundle does not build natively (generator bug): %v", nerr)
		}
		if err != nil {
			ev.Violation("GopherJS build of a network bundle failed: "+err.Error(), c.ReproFiles())
			return
		}
		drv.ParallelN(4, len(j.nets), func(i int) {
			nw := j.nets[i]
			arg := fmt.Sprint(i)
			nat := drv.RunNative(bin, []string{arg}, 0)
			if nat.End != "exit0" && nat.End != "deadlock" {
				drv.Infra("native run of a network ended %s %q\n%s", nat.End, nat.Msg, nat.Stderr)
			}
			// determinacy is an assumption of the oracle: check it natively as well
			nat2 := drv.RunNative(bin, []string{arg}, 0, "GOMAXPROCS=1")
			if !nat.Same(nat2, false) {
				drv.Infra("a generated network is not determinate natively (generator bug): %s\n%s", drv.FirstDiff(nat, nat2), nw.src)
			}
			ev.Case("network:"+nw.src, nw.procs >= 4 && nw.unbuf >= 1)
			ev.Count("network_processes", int64(nw.procs))
			ev.Count("network_end:"+nat.End, 1)
			for k, v := range nw.kinds {
				ev.Count("process:"+k, int64(v))
			}
			for s := 0; s < schedules; s++ {
				var rnd []string
				clock := ""
				for k := 0; k < 200; k++ {
					rnd = append(rnd, fmt.Sprint((s*7+k*3)%5))
					if (k*(s+3)+s)%(s+2) == 0 && s > 0 {
						clock += "1"
					} else {
						clock += "0"
					}
				}
				js := drv.RunNode(jsPath, []string{arg}, drv.NodeOpts{Preload: shim, Env: []string{
					"VERIF_SCHED_RANDOM=", "VERIF_SCHED_TIMERS=" + strings.Join(rnd, ","), "VERIF_SCHED_CLOCK=" + clock, "VERIF_SCHED_LOG=",
				}})
				ev.Count("network_runs", 1)
				if js.Same(nat, false) {
					continue
				}
				files := map[string]string{"main.go": kpnCommon + strings.ReplaceAll(nw.src, fmt.Sprintf("n%d_", i), "n0_") + "func main() { n0_main() }\n"}
				for k, v := range drv.RtFiles() {
					files[k] = v
				}
				files["gopherjs.txt"] = js.String() + "\n" + js.Stderr
				files["native.txt"] = nat.String()
				files["schedule.txt"] = fmt.Sprintf("schedule %d\ntimers %s\nclock %s\n", s, strings.Join(rnd, ","), clock)
				ev.Violation(fmt.Sprintf("process network (bundle %d, network %d) under schedule %d differs from the native run: %s (ends gopherjs %s, native %s)", ji, i, s, drv.FirstDiff(js, nat), js.End, nat.End), files)
				return
			}
		})
	})
}

// handedToJS covers the last clause of the property: once a Go function was handed to
// JavaScript the runtime cannot know that nothing will ever call it, so "all goroutines are
// asleep" must not be reported; without such a function it must be.
func handedToJS() {
	type scen struct {
		name, body string
		deadlock   bool
	}
	scens := []scen{
		{"no function handed out", "", true},
		{"function stored in a global", "js.Global.Set(\"cb\", func() { out(\"called\") })", false},
		{"function passed as an argument", "js.Global.Get(\"Object\").Call(\"keys\", map[string]interface{}{\"f\": func() {}})", false},
		{"function inside a wrapper object", "js.Global.Set(\"w\", js.MakeWrapper(&svc{}))", false},
		{"MakeFunc result", "js.Global.Set(\"mf\", js.MakeFunc(func(this *js.Object, args []*js.Object) interface{} { return nil }))", false},
	}
	for _, sc := range scens {
		src := "package main\n\nimport \"github.com/gopherjs/gopherjs/js\"\n\nvar _ = js.Global\n\ntype svc struct{}\n\nfunc (s *svc) Ping() int { return 1 }\n\nfunc main() {\n\t" + sc.body + "\n\tout(\"blocking\")\n\tdone := make(chan int)\n\tgo func() {\n\t\tout(\"worker blocks too\")\n\t\t<-done\n\t}()\n\t<-done\n}\n"
		c := drv.NewCase("c03h_", map[string]string{"main.go": src}, true)
		jsPath, _, err := c.BuildJS(drv.BuildOpts{}, "out")
		if err != nil {
			ev.Violation("GopherJS build of the handed-to-JavaScript scenario failed: "+err.Error(), c.ReproFiles())
			c.Remove()
			continue
		}
		o := drv.RunNode(jsPath, nil, drv.NodeOpts{})
		ev.Case("handed-to-js:"+sc.name, true)
		ev.Count("handed_to_js_scenarios", 1)
		want := "exit0"
		if sc.deadlock {
			want = "deadlock"
		}
		if o.End != want || len(o.Trace) != 2 {
			files := c.ReproFiles()
			files["gopherjs.txt"] = o.String() + "\n" + o.Stderr
			ev.Violation(fmt.Sprintf("scenario %q: every goroutine is blocked for ever; expected the program to end as %s after two lines, got %s with %d lines", sc.name, want, o.End, len(o.Trace)), files)
		}
		c.Remove()
	}
}
