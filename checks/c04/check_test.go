package c04

import (
	"fmt"
	"strings"
	"testing"

	"pgregory.net/rapid"

	"verif/internal/corpus"
	"verif/internal/drv"
	"verif/internal/gengen"
)

var ev *drv.Evidence

func TestMain(m *testing.M) { drv.TestMain(m, func() *drv.Evidence { return ev }) }

const rule = "rapid-generated programs of 3-5 packages around generic code (gengen): generic functions, types and methods, instantiations reachable only through other generic code (F[T] -> G[[]T] -> H[map[string]T]), recursive generic types, types declared inside generic functions, generic code of one package instantiated by another with its own types and the other way round, per-instance arithmetic width, method dispatch through constraints (value and pointer receivers), identity probes (type switches, assertions, interface equality, map keys; the same instance built in two packages; different arguments distinct); each program printed line by line and compared with the native run; the progen generics feature and the generics corpus program add single-package coverage. Non-trivial program: >=3 distinct instantiation sites, at least one reached only transitively and one with a composite type argument; distinct by source text."

func TestCheck(t *testing.T) {
	ev = drv.NewEvidence("C04", "exploration", rule)
	n := 14
	if drv.Thorough() {
		n = 120
	}
	progs := make([]gengen.Program, n)
	for i := range progs {
		progs[i] = rapid.Custom(gengen.Gen).Example(drv.Seed()*4001 + i)
	}
	for _, p := range corpus.All() {
		if p.Name == "generics3" {
			progs = append(progs, gengen.Program{Files: p.Files, Packages: 3, Instantiation: 9, Transitive: true, Composite: true})
		}
	}
	for _, f := range drv.OpenFindings("C04") {
		if f.Replay == "" {
			continue
		}
		files := drv.ReadReplayDir(f.Replay)
		delete(files, "DESCRIPTION.txt")
		c := drv.NewCase("c04k_", files, false)
		res := drv.RunBoth(c, drv.BuildOpts{}, [][]string{{}}, drv.NodeOpts{}, true)
		if res.NatErr != nil {
			drv.Infra("stored program of %s does not build natively: %v", f.ID, res.NatErr)
		}
		if res.JSBuildErr != nil || !res.JS[0].Same(res.Native[0], false) {
			ev.Known(f)
		}
		c.Remove()
	}
	drv.Parallel(len(progs), func(i int) {
		p := progs[i]
		c := drv.NewCase("c04_", p.Files, true)
		defer c.Remove()
		res := drv.RunBoth(c, drv.BuildOpts{}, [][]string{{}}, drv.NodeOpts{}, true)
		if res.NatErr != nil {
			drv.Infra("generated program does not build natively (generator bug): %v", res.NatErr)
		}
		ev.Case("prog:"+p.Files["main.go"]+fmt.Sprint(len(p.Files)), p.Instantiation >= 3 && p.Transitive && p.Composite)
		ev.Count("packages", int64(p.Packages))
		ev.Count("instantiation_sites_in_main", int64(p.Instantiation))
		if res.JSBuildErr != nil {
			ev.Violation("GopherJS build failed: "+res.JSBuildErr.Error(), c.ReproFiles())
			return
		}
		js, nat := res.JS[0], res.Native[0]
		if nat.End != "exit0" {
			drv.Infra("native run ended %s %s\n%s", nat.End, nat.Msg, nat.Stderr)
		}
		if i == 0 {
			ev.Sample(nat.Trace)
		}
		if js.End == nat.End && strings.Join(js.Trace, "\n") == strings.Join(nat.Trace, "\n") {
			return
		}
		files := c.ReproFiles()
		files["gopherjs.txt"] = js.String() + "\n" + js.Stderr
		files["native.txt"] = nat.String()
		ev.Violation(fmt.Sprintf("generic program behaves differently: %s (ends gopherjs %s %q, native %s)", drv.FirstDiff(js, nat), js.End, js.Msg, nat.End), files)
	})
}
