package c05

import (
	"fmt"
	"strings"
	"testing"

	"pgregory.net/rapid"

	"verif/internal/corpus"
	"verif/internal/dcegen"
	"verif/internal/drv"
	"verif/internal/progen"
)

var ev *drv.Evidence

func TestMain(m *testing.M) { drv.TestMain(m, func() *drv.Evidence { return ev }) }

const rule = "rapid-generated programs (progen with interface calls, method values/expressions, embedded and generic code, deferred closures, package-level declarations and unreferenced look-alikes: same method names on an unused type, unused functions and variables) plus the hand-written corpus (linknames, dynamic dispatch across packages, side-effecting initialisers); each program is linked twice from the same sources: normally and with every declaration forced alive; both outputs run under Node and must print the same lines and end the same way, and neither may end in a JavaScript TypeError/ReferenceError. Non-trivial program: dead-code elimination removed something (the all-alive output is larger) and the scenario executes dynamic dispatch (interface call, method value/expression or type switch); distinct by source text."

var features = progen.Features{Generics: true, Ending: true, DeadCode: true}

func TestCheck(t *testing.T) {
	ev = drv.NewEvidence("C05", "exploration", rule)
	nBundles, k := 12, 16
	if drv.Thorough() {
		nBundles, k = 80, 16
	}
	for _, p := range corpus.All() {
		diff(p.Name, p.Files, [][]string{{}}, nil)
	}
	nUnits := 40
	if drv.Thorough() {
		nUnits = 300
	}
	units := make([]dcegen.Prog, nUnits)
	for i := range units {
		units[i] = rapid.Custom(dcegen.Gen).Example(drv.Seed()*9001 + i)
	}
	drv.Parallel(nUnits, func(i int) {
		for _, k := range units[i].Kinds {
			ev.Count("unit:"+k, 1)
		}
		diff(fmt.Sprintf("units%d %v", i, units[i].Kinds), units[i].Files, [][]string{{}}, nil)
	})
	type bundle struct {
		scs   []progen.Scenario
		files map[string]string
	}
	bundles := make([]bundle, nBundles)
	drv.ParallelN(4, nBundles, func(i int) {
		scs := rapid.Custom(func(rt *rapid.T) []progen.Scenario {
			var out []progen.Scenario
			for j := 0; j < k; j++ {
				out = append(out, progen.Gen(rt, fmt.Sprintf("S%d_", j), features))
			}
			return out
		}).Example(drv.Seed()*3001 + i)
		var good []progen.Scenario
		for _, s := range scs {
			files := progen.Bundle([]progen.Scenario{s}, features)
			for k, v := range drv.RtFiles() {
				files[k] = v
			}
			if err := progen.TypeCheck(files); err != nil {
				ev.Count("discarded_invalid_scenarios", 1)
				continue
			}
			good = append(good, s)
		}
		bundles[i] = bundle{good, progen.Bundle(good, features)}
	})
	drv.Parallel(nBundles, func(i int) {
		b := bundles[i]
		var argvs [][]string
		for j := range b.scs {
			argvs = append(argvs, []string{fmt.Sprint(j)})
		}
		diff(fmt.Sprintf("bundle%d", i), b.files, argvs, b.scs)
	})
}

func diff(name string, files map[string]string, argvs [][]string, scs []progen.Scenario) {
	c := drv.NewCase("c05_", files, true)
	defer c.Remove()
	normal, bn, err := c.BuildJS(drv.BuildOpts{}, "normal")
	if err != nil {
		if !drv.IsCompilerInternalError(err) {
			drv.Infra("%s does not compile (generator bug): %v", name, err)
		}
		ev.Violation(name+": build failed: "+err.Error(), c.ReproFiles())
		return
	}
	alive, ba, err := c.BuildJS(drv.BuildOpts{AllAlive: true}, "alive")
	if err != nil {
		ev.Violation(name+": linking with every declaration kept failed: "+err.Error(), c.ReproFiles())
		return
	}
	removed := len(ba.JS) > len(bn.JS)
	ev.Count("bytes_removed_by_dce", int64(len(ba.JS)-len(bn.JS)))
	outs := make([][2]drv.Outcome, len(argvs))
	drv.ParallelN(8, 2*len(argvs), func(i int) {
		if i%2 == 0 {
			outs[i/2][0] = drv.RunNode(normal, argvs[i/2], drv.NodeOpts{})
		} else {
			outs[i/2][1] = drv.RunNode(alive, argvs[i/2], drv.NodeOpts{})
		}
	})
	for i := range argvs {
		n, a := outs[i][0], outs[i][1]
		dyn := true
		key := name
		if scs != nil {
			s := scs[i]
			key = s.Src
			dyn = false
			for _, k := range s.Kinds {
				switch k {
				case "iface-call", "iface-switch", "method-value", "method-expr", "fn-value", "closure", "generic":
					dyn = true
				}
			}
		}
		ev.Case("prog:"+key, removed && dyn)
		same := n.End == a.End && strings.Join(n.Trace, "\n") == strings.Join(a.Trace, "\n") && n.Msg == a.Msg
		if same && n.End != "crash" {
			continue
		}
		rf := c.ReproFiles()
		if scs != nil {
			rf = progen.Bundle([]progen.Scenario{scs[i]}, features)
			for k, v := range drv.RtFiles() {
				rf[k] = v
			}
		}
		rf["with_dce.txt"] = n.String() + "\n" + n.Stderr
		rf["all_alive.txt"] = a.String() + "\n" + a.Stderr
		what := "behaves differently with dead-code elimination than with every declaration kept"
		if same {
			what = "ends in a JavaScript error in both links"
		}
		ev.Violation(fmt.Sprintf("%s scenario %d %s: %s (ends with DCE %s %q, all alive %s %q)", name, i, what, drv.FirstDiff(n, a), n.End, n.Msg, a.End, a.Msg), rf)
	}
	if scs != nil && len(scs) > 0 {
		ev.Sample(map[string]any{"kinds": scs[0].Kinds, "bytes_with_dce": len(bn.JS), "bytes_all_alive": len(ba.JS)})
	}
}
