package c06

import (
	"fmt"
	"math"
	"math/big"
	"strings"

	"pgregory.net/rapid"
)

type params struct {
	Seed     int
	NRandom  int // random operand pairs per type
	NNested  int // nested expressions per int type
	Full8    bool
	ConstN   int // constants per type in const-shape groups
	FoldedN  int
	OnlyType string
}

type program struct {
	Name  string
	Files map[string]string
}

func typeByName(n string) numType {
	for _, t := range intTypes {
		if t.Name == n {
			return t
		}
	}
	for _, t := range floatTypes {
		if t.Name == n {
			return t
		}
	}
	for _, t := range complexTypes {
		if t.Name == n {
			return t
		}
	}
	panic(n)
}

var shiftCountTypes = []string{"uint8", "uint16", "uint32", "uint64", "Uint", "int8", "int32", "int64", "Int"}

func shiftGrid(ct numType) []*big.Int {
	var out []*big.Int
	for _, s := range []string{"0", "1", "2", "7", "8", "9", "15", "16", "17", "31", "32", "33", "63", "64", "65", "127", "128", "255", "256", "65535", "65536", "2147483647", "2147483648", "4294967295", "4294967296", "4294967297", "9223372036854775807", "9223372036854775808", "18446744073709551615"} {
		v, _ := new(big.Int).SetString(s, 10)
		if ct.fits(v) {
			out = append(out, v)
		}
	}
	return out
}

func seedFor(seed int, name string) int {
	h := uint32(2166136261)
	for i := 0; i < len(name); i++ {
		h = (h ^ uint32(name[i])) * 16777619
	}
	return seed*7919 + int(h%100003)
}

// intProgram builds the table program of one integer type.
func intProgram(t numType, pr params) program {
	p := newProg()
	T := t.Name
	grid := intGrid(t, pr.Full8)
	small := smallIntGrid(t)
	p.table("GA", T, intLits(grid))
	p.table("GS", T, intLits(small))
	// random pairs / triples
	gen := rapid.SliceOfN(genIntOfType(t), 3*pr.NRandom, 3*pr.NRandom)
	rnd := gen.Example(seedFor(pr.Seed, T))
	p.table("RA", T, intLits(rnd[:pr.NRandom]))
	p.table("RB", T, intLits(rnd[pr.NRandom:2*pr.NRandom]))
	p.table("RC", T, intLits(rnd[2*pr.NRandom:]))
	fmt.Fprintf(&p.funcs, "func id_%s(x %s) %s { return x }\n\n", T, T, T)

	for _, op := range intArith {
		gz := op.Sym == "/" || op.Sym == "%"
		p.binGroup(t, op, "vv", "GA", "GA", "RA", "RB", gz)
		for _, sh := range []string{"field", "opassign", "elem", "slice", "call"} {
			ga := "GA"
			if t.Bits == 8 && pr.Full8 {
				ga = "GS"
			}
			p.binGroup(t, op, sh, ga, ga, "RA", "RB", gz)
		}
	}
	for _, op := range cmpOps {
		p.cmpGroup(t, op, "GA", "GA", "RA", "RB")
	}
	p.unaryGroup(t, "neg", "r = -a", "GA", "RA")
	p.unaryGroup(t, "not", "r = ^a", "GA", "RA")
	p.unaryGroup(t, "plus", "r = +a", "GA", "RA")
	p.unaryGroup(t, "inc", "r = a; r++", "GA", "RA")
	p.unaryGroup(t, "dec", "r = a; r--", "GA", "RA")
	p.unaryGroup(t, "incfield", "var s struct{ f "+T+" }; s.f = a; s.f++; r = s.f", "GA", "RA")
	p.unaryGroup(t, "decelem", "arr := [2]"+T+"{a, a}; arr[1]--; r = arr[1]", "GA", "RA")
	p.unaryGroup(t, "negneg", "r = -(-a)", "GA", "RA")
	// adjacent signs: the Go source has no parentheses, the JavaScript must not read -- / ++
	p.unaryGroup(t, "adjacent neg neg", "r = - -a", "GA", "RA")
	p.unaryGroup(t, "adjacent sub neg neg", "r = a - - -a", "GA", "RA")
	p.unaryGroup(t, "adjacent plus plus", "r = + +a + +a", "GA", "RA")
	p.unaryGroup(t, "adjacent neg plus neg", "r = -+-a", "GA", "RA")
	p.unaryGroup(t, "adjacent not not", "r = ^ ^a", "GA", "RA")
	p.unaryGroup(t, "adjacent neg conv neg", "r = -"+T+"(-a)", "GA", "RA")
	p.unaryGroup(t, "adjacent keeps operand", "b := a; r = - -b; r += b", "GA", "RA")
	p.unaryGroup(t, "double", "r = a + a", "GA", "RA")
	p.unaryGroup(t, "square", "r = a * a", "GA", "RA")

	// shifts with variable counts of every count type
	for _, ctn := range shiftCountTypes {
		ct := typeByName(ctn)
		tb := "SH_" + ctn
		p.table(tb, ctn, intLits(shiftGrid(ct)))
		for _, op := range shiftOps {
			p.shiftGroup(t, op, ct, "vv", "GA", tb)
			if ctn == "uint8" || ctn == "uint64" || ctn == "Int" {
				p.shiftGroup(t, op, ct, "opassign", "GS", tb)
			}
		}
	}

	// constant operand shapes
	consts := small
	if pr.ConstN > 0 && len(consts) > pr.ConstN {
		// keep the extremes and spread the rest
		step := float64(len(consts)-1) / float64(pr.ConstN-1)
		var sel []*big.Int
		for i := 0; i < pr.ConstN; i++ {
			sel = append(sel, consts[int(float64(i)*step+0.5)])
		}
		consts = sel
	}
	for _, op := range intArith {
		var right, left []string
		for _, c := range consts {
			lit := fmt.Sprintf("%s(%s)", T, c)
			if !((op.Sym == "/" || op.Sym == "%") && c.Sign() == 0) {
				right = append(right, fmt.Sprintf("g(a, %q, a %s %s)", "R"+c.String(), op.Sym, lit))
			}
			if op.Sym == "/" || op.Sym == "%" {
				left = append(left, fmt.Sprintf("if a != 0 { g(a, %q, %s %s a) }", "L"+c.String(), lit, op.Sym))
			} else {
				left = append(left, fmt.Sprintf("g(a, %q, %s %s a)", "L"+c.String(), lit, op.Sym))
			}
		}
		p.constGroup(t, fmt.Sprintf("%s %s const", T, op.Name), false, "GA", append(right, left...))
	}
	for _, op := range cmpOps {
		var st []string
		for _, c := range consts {
			st = append(st, fmt.Sprintf("g(a, %q, a %s %s(%s))", "R"+c.String(), op.Sym, T, c))
		}
		p.constGroup(t, fmt.Sprintf("%s %s const", T, op.Name), true, "GA", st)
	}
	for _, op := range shiftOps {
		var st []string
		for _, n := range []int{0, 1, 3, 7, 8, 9, 15, 16, 17, 24, 31, 32, 33, 40, 63, 64, 65, 100} {
			st = append(st, fmt.Sprintf("g(a, %q, a %s %d)", fmt.Sprint("N", n), op.Sym, n))
		}
		// constant left operand, variable count
		p.constGroup(t, fmt.Sprintf("%s %s constcount", T, op.Name), false, "GA", st)
		var st2 []string
		for _, c := range consts {
			st2 = append(st2, fmt.Sprintf("g(%s(s), %q, %s(%s) %s s)", T, "L"+c.String(), T, c, op.Sym))
		}
		// only counts that fit the type itself so that T(s) is an in-range conversion
		p.constGroupLoopVar(t, fmt.Sprintf("%s %s constleft", T, op.Name), "SH_small", st2)
	}

	// folded constant expressions (both operands constant, result in range)
	var folded []string
	nf := 0
	for _, op := range append(append([]binop{}, intArith...), shiftOps...) {
		for i, x := range small {
			for j, y := range small {
				if (i*31+j*17+len(op.Sym))%7 != 0 && !(i < 3 || j < 3) {
					continue
				}
				var r *big.Int
				switch op.Sym {
				case "+":
					r = new(big.Int).Add(x, y)
				case "-":
					r = new(big.Int).Sub(x, y)
				case "*":
					r = new(big.Int).Mul(x, y)
				case "/":
					if y.Sign() == 0 {
						continue
					}
					r = new(big.Int).Quo(x, y)
				case "%":
					if y.Sign() == 0 {
						continue
					}
					r = new(big.Int).Rem(x, y)
				case "<<":
					if y.Sign() < 0 || y.Cmp(big.NewInt(70)) > 0 {
						continue
					}
					r = new(big.Int).Lsh(x, uint(y.Int64()))
				case ">>":
					if y.Sign() < 0 || y.Cmp(big.NewInt(70)) > 0 {
						continue
					}
					r = new(big.Int).Rsh(x, uint(y.Int64()))
				default:
					r = big.NewInt(0) // bitwise ops never leave the range
				}
				if !t.fits(r) {
					continue
				}
				ys := fmt.Sprintf("%s(%s)", T, y)
				if op.Sym == "<<" || op.Sym == ">>" {
					ys = y.String()
				}
				folded = append(folded, fmt.Sprintf("g(%s(%s), %q, %s(%s) %s %s)", T, x, op.Name+" "+y.String(), T, x, op.Sym, ys))
				nf++
			}
		}
	}
	if pr.FoldedN > 0 && len(folded) > pr.FoldedN {
		folded = folded[:pr.FoldedN]
	}
	p.constGroup(t, T+" folded", false, "", folded)

	// literal emission: every grid value as a constant
	var lits []string
	for _, c := range grid {
		lits = append(lits, fmt.Sprintf("g(0, %q, %s(%s))", c.String(), T, c))
	}
	p.constGroup(t, T+" literal", false, "", lits)

	// nested random expressions
	exprs := rapid.SliceOfN(genNested(t), pr.NNested, pr.NNested).Example(seedFor(pr.Seed, T+"/nested"))
	for i, e := range exprs {
		p.nestedGroup(t, i, e, "GS", "RA", "RB", "RC")
	}

	js, nat := aliasFiles()
	return program{Name: T, Files: map[string]string{"main.go": p.sourceWithSmallShift(t), "alias_js.go": js, "alias_native.go": nat}}
}

// constGroupLoopVar is constGroup with the loop variable named s (shift counts).
func (p *prog) constGroupLoopVar(t numType, name, table string, perS []string) {
	var sb strings.Builder
	fmt.Fprintf(&sb, "\tg := func(a %s, c string, r %s) {\n", t.Name, t.Name)
	sb.WriteString("\t\t" + feed(t, "r") + "\n\t\td.str(c)\n")
	sb.WriteString("\t\tif a >= " + fmt.Sprint(t.Bits-1) + " || " + ntExpr(t, "r") + " {\n\t\t\tnt++\n\t\t}\n")
	row := `"R " + gname + " " + ` + render(t, "a") + ` + " " + c + " = " + ` + render(t, "r")
	sb.WriteString("\t\tif v || rows%97 == 0 {\n\t\t\tout(" + row + ")\n\t\t}\n\t\trows++\n\t}\n")
	fmt.Fprintf(&sb, "\tfor _, s := range %s {\n", table)
	for _, s := range perS {
		sb.WriteString("\t\t" + s + "\n")
	}
	sb.WriteString("\t}\n")
	p.group(name, sb.String())
}

func (p *prog) sourceWithSmallShift(t numType) string {
	// SH_small: shift counts as uint8 that are also valid values of T (0..100)
	p.table("SH_small", "uint8", "0, 1, 2, 7, 8, 9, 15, 16, 17, 31, 32, 33, 63, 64, 65, 100")
	return p.source()
}

// ---------- floats ----------

func floatProgram(pr params) program {
	p := newProg()
	g64 := f64Grid()
	g32 := f32Grid()
	p.table("GA64", "float64", f64Lits(g64))
	p.table("GA32", "float32", f32Lits(g32))
	n := pr.NRandom
	rb := rapid.SliceOfN(genF64Bits(), 2*n, 2*n).Example(seedFor(pr.Seed, "float64"))
	p.table("RA64", "float64", f64Lits(rb[:n]))
	p.table("RB64", "float64", f64Lits(rb[n:]))
	rb2 := rapid.SliceOfN(genF64Bits(), 2*n, 2*n).Example(seedFor(pr.Seed, "float32"))
	var r32 []uint32
	for _, b := range rb2 {
		f := float32(math.Float64frombits(b))
		x := math.Float32bits(f)
		if f != f {
			x = 0x7fc00001
		}
		r32 = append(r32, x)
	}
	p.table("RA32", "float32", f32Lits(r32[:n]))
	p.table("RB32", "float32", f32Lits(r32[n:]))
	p.funcs.WriteString("func id_float64(x float64) float64 { return x }\nfunc id_float32(x float32) float32 { return x }\n\n")
	for _, t := range floatTypes {
		sfx := fmt.Sprint(t.Bits)
		for _, op := range floatArith {
			for _, sh := range []string{"vv", "field", "opassign", "elem", "slice", "call"} {
				p.binGroup(t, op, sh, "GA"+sfx, "GA"+sfx, "RA"+sfx, "RB"+sfx, false)
			}
		}
		for _, op := range cmpOps {
			p.cmpGroup(t, op, "GA"+sfx, "GA"+sfx, "RA"+sfx, "RB"+sfx)
		}
		p.unaryGroup(t, "neg", "r = -a", "GA"+sfx, "RA"+sfx)
		p.unaryGroup(t, "plus", "r = +a", "GA"+sfx, "RA"+sfx)
		p.unaryGroup(t, "inc", "r = a; r++", "GA"+sfx, "RA"+sfx)
		p.unaryGroup(t, "dec", "r = a; r--", "GA"+sfx, "RA"+sfx)
		p.unaryGroup(t, "adjacent neg neg", "r = - -a", "GA"+sfx, "RA"+sfx)
		p.unaryGroup(t, "adjacent sub neg neg", "r = a - - -a", "GA"+sfx, "RA"+sfx)
		p.unaryGroup(t, "adjacent plus plus", "r = + +a + +a", "GA"+sfx, "RA"+sfx)
		p.unaryGroup(t, "adjacent neg plus neg", "r = -+-a", "GA"+sfx, "RA"+sfx)
		p.unaryGroup(t, "adjacent neg conv neg", "r = -float"+sfx+"(-a)", "GA"+sfx, "RA"+sfx)
		p.unaryGroup(t, "adjacent keeps operand", "b := a; r = - -b; r += b", "GA"+sfx, "RA"+sfx)
		p.unaryGroup(t, "fma-like", "r = a*a + a", "GA"+sfx, "RA"+sfx)
		p.unaryGroup(t, "tripleadd", "r = a + a + a", "GA"+sfx, "RA"+sfx)
		p.unaryGroup(t, "muldiv", "r = a * 3 / 7", "GA"+sfx, "RA"+sfx)
		// constants
		var cs []string
		grid := g64
		for _, b := range grid {
			f := math.Float64frombits(b)
			if t.Bits == 32 {
				f = float64(float32(f))
				if math.IsInf(f, 0) {
					continue
				}
			}
			lit := floatConstLit(f)
			if lit == "" {
				continue
			}
			cs = append(cs, lit)
		}
		if len(cs) > 24 {
			var sel []string
			for i := 0; i < 24; i++ {
				sel = append(sel, cs[i*len(cs)/24])
			}
			cs = sel
		}
		for _, op := range floatArith {
			var st []string
			for _, c := range cs {
				if op.Sym == "/" && (c == "0.0") {
					continue
				}
				st = append(st, fmt.Sprintf("g(a, %q, a %s %s(%s))", "R"+c, op.Sym, t.Name, c))
				st = append(st, fmt.Sprintf("g(a, %q, %s(%s) %s a)", "L"+c, t.Name, c, op.Sym))
			}
			p.constGroup(t, fmt.Sprintf("%s %s const", t.Name, op.Name), false, "GA"+sfx, st)
		}
		var lits []string
		for _, c := range cs {
			lits = append(lits, fmt.Sprintf("g(0, %q, %s(%s))", c, t.Name, c))
		}
		p.constGroup(t, t.Name+" literal", false, "", lits)
	}
	return program{Name: "floats", Files: map[string]string{"main.go": p.source()}}
}

// ---------- complex ----------

func complexProgram(pr params) program {
	p := newProg()
	parts := []float64{0, math.Copysign(0, -1), 1, -1, 0.5, -2.5, 3, 1e10, 1e-10, 16777217, 9007199254740993, math.MaxFloat32, 1e200, math.SmallestNonzeroFloat64, math.Inf(1), math.Inf(-1), math.NaN()}
	var c128, c64 []string
	for _, re := range parts {
		for _, im := range parts {
			rb, ib := math.Float64bits(re), math.Float64bits(im)
			if re != re {
				rb = 0x7ff8000000000001
			}
			if im != im {
				ib = 0x7ff8000000000001
			}
			c128 = append(c128, fmt.Sprintf("complex(fb(0x%016x), fb(0x%016x))", rb, ib))
			c64 = append(c64, fmt.Sprintf("complex(float32(fb(0x%016x)), float32(fb(0x%016x)))", rb, ib))
		}
	}
	p.table("GA128", "complex128", strings.Join(c128, ",\n\t"))
	p.table("GA64", "complex64", strings.Join(c64, ",\n\t"))
	n := pr.NRandom
	rb := rapid.SliceOfN(genF64Bits(), 4*n, 4*n).Example(seedFor(pr.Seed, "complex"))
	var ra, rbb, ra64, rb64 []string
	for i := 0; i < n; i++ {
		ra = append(ra, fmt.Sprintf("complex(fb(0x%016x), fb(0x%016x))", rb[4*i], rb[4*i+1]))
		rbb = append(rbb, fmt.Sprintf("complex(fb(0x%016x), fb(0x%016x))", rb[4*i+2], rb[4*i+3]))
		ra64 = append(ra64, fmt.Sprintf("complex(float32(fb(0x%016x)), float32(fb(0x%016x)))", rb[4*i], rb[4*i+1]))
		rb64 = append(rb64, fmt.Sprintf("complex(float32(fb(0x%016x)), float32(fb(0x%016x)))", rb[4*i+2], rb[4*i+3]))
	}
	p.table("RA128", "complex128", strings.Join(ra, ",\n\t"))
	p.table("RB128", "complex128", strings.Join(rbb, ",\n\t"))
	p.table("RA64", "complex64", strings.Join(ra64, ",\n\t"))
	p.table("RB64", "complex64", strings.Join(rb64, ",\n\t"))
	p.funcs.WriteString("func id_complex128(x complex128) complex128 { return x }\nfunc id_complex64(x complex64) complex64 { return x }\n\n")
	for _, t := range complexTypes {
		sfx := fmt.Sprint(t.Bits)
		for _, op := range []binop{{"+", "add"}, {"-", "sub"}, {"*", "mul"}} {
			for _, sh := range []string{"vv", "field", "opassign", "elem", "call"} {
				p.binGroup(t, op, sh, "GA"+sfx, "GA"+sfx, "RA"+sfx, "RB"+sfx, false)
			}
		}
		p.cmpGroup(t, binop{"==", "eq"}, "GA"+sfx, "GA"+sfx, "RA"+sfx, "RB"+sfx)
		p.cmpGroup(t, binop{"!=", "ne"}, "GA"+sfx, "GA"+sfx, "RA"+sfx, "RB"+sfx)
		p.unaryGroup(t, "neg", "r = -a", "GA"+sfx, "RA"+sfx)
		ft := "float64"
		if t.Bits == 64 {
			ft = "float32"
		}
		p.unaryGroup(t, "adjacent neg neg", "r = - -a", "GA"+sfx, "RA"+sfx)
		p.unaryGroup(t, "adjacent neg parts", "r = complex(- -real(a), - - -imag(a))", "GA"+sfx, "RA"+sfx)
		p.unaryGroup(t, "swap", "r = complex(imag(a), real(a))", "GA"+sfx, "RA"+sfx)
		p.unaryGroup(t, "conjbuild", "var re, im "+ft+" = real(a), -imag(a); r = complex(re, im)", "GA"+sfx, "RA"+sfx)
		p.unaryGroup(t, "timesi", "r = a * complex(0, 1)", "GA"+sfx, "RA"+sfx)
		p.unaryGroup(t, "plusconst", "r = a + (1.5 - 2i)", "GA"+sfx, "RA"+sfx)
		// division: rows are always printed and compared with a tolerance by the harness
		name := t.Name + " quo vv"
		var sb strings.Builder
		fmt.Fprintf(&sb, "\tf := func(a, b %s) {\n\t\tr := a / b\n\t\tif %s || %s {\n\t\t\tnt++\n\t\t}\n", t.Name, ntExpr(t, "a"), ntExpr(t, "b"))
		sb.WriteString("\t\tout(\"Q \" + gname + \" \" + " + render(t, "a") + " + \" \" + " + render(t, "b") + " + \" = \" + " + render(t, "r") + ")\n\t\trows++\n\t}\n")
		fmt.Fprintf(&sb, "\tfor _, a := range GA%s {\n\t\tfor _, b := range GA%s {\n\t\t\tf(a, b)\n\t\t}\n\t}\n\tfor i := range RA%s {\n\t\tf(RA%s[i], RB%s[i])\n\t}\n", sfx, sfx, sfx, sfx, sfx)
		p.group(name, sb.String())
	}
	// conversions between the complex types
	p.convGroup(complexTypes[1], complexTypes[0], "GA128", "RA128")
	p.convGroup(complexTypes[0], complexTypes[1], "GA64", "RA64")
	return program{Name: "complex", Files: map[string]string{"main.go": p.source()}}
}

// ---------- conversions ----------

// inRangeFloats returns float64 bit patterns whose truncation fits dst.
func inRangeFloats(dst numType, extra []uint64) []uint64 {
	seen := map[uint64]bool{}
	var out []uint64
	try := func(f float64) {
		if f != f || math.IsInf(f, 0) {
			return
		}
		tr := math.Trunc(f)
		bf := new(big.Float).SetFloat64(tr)
		bi, _ := bf.Int(nil)
		if !dst.fits(bi) {
			return
		}
		b := math.Float64bits(f)
		if !seen[b] {
			seen[b] = true
			out = append(out, b)
		}
	}
	for _, b := range f64Grid() {
		try(math.Float64frombits(b))
	}
	for _, b := range extra {
		try(math.Float64frombits(b))
	}
	for _, m := range intGrid(dst, false) {
		f, _ := new(big.Float).SetInt(m).Float64()
		for _, d := range []float64{0, 0.5, -0.5, 0.999, -0.999, 1, -1, 1.5, -1.5} {
			try(f + d)
		}
		try(math.Nextafter(f, math.Inf(1)))
		try(math.Nextafter(f, math.Inf(-1)))
	}
	return out
}

func convProgram(pr params) program {
	p := newProg()
	n := pr.NRandom
	for _, t := range intTypes {
		p.table("G_"+t.Name, t.Name, intLits(intGrid(t, pr.Full8)))
		rnd := rapid.SliceOfN(genIntOfType(t), n, n).Example(seedFor(pr.Seed, "conv/"+t.Name))
		p.table("R_"+t.Name, t.Name, intLits(rnd))
	}
	g64 := f64Grid()
	p.table("G_float64", "float64", f64Lits(g64))
	p.table("G_float32", "float32", f32Lits(f32Grid()))
	rf := rapid.SliceOfN(genF64Bits(), n, n).Example(seedFor(pr.Seed, "conv/float"))
	p.table("R_float64", "float64", f64Lits(rf))
	for _, s := range intTypes {
		for _, d := range intTypes {
			p.convGroup(s, d, "G_"+s.Name, "R_"+s.Name)
		}
		for _, d := range floatTypes {
			p.convGroup(s, d, "G_"+s.Name, "R_"+s.Name)
		}
	}
	p.convGroup(floatTypes[1], floatTypes[0], "G_float64", "R_float64")
	p.convGroup(floatTypes[0], floatTypes[1], "G_float32")
	p.convGroup(floatTypes[1], floatTypes[1], "G_float64")
	for _, d := range intTypes {
		in64 := inRangeFloats(d, rf)
		p.table("F64_"+d.Name, "float64", f64Lits(in64))
		p.convGroup(floatTypes[1], d, "F64_"+d.Name)
		// float32 sources: values exactly representable as float32 whose truncation fits
		seen := map[uint32]bool{}
		var in32 []uint32
		for _, b := range in64 {
			f := float32(math.Float64frombits(b))
			tr := math.Trunc(float64(f))
			bi, _ := new(big.Float).SetFloat64(tr).Int(nil)
			if math.IsInf(float64(f), 0) || !d.fits(bi) {
				continue
			}
			x := math.Float32bits(f)
			if !seen[x] {
				seen[x] = true
				in32 = append(in32, x)
			}
		}
		p.table("F32_"+d.Name, "float32", f32Lits(in32))
		p.convGroup(floatTypes[0], d, "F32_"+d.Name)
	}
	js, nat := aliasFiles()
	return program{Name: "conv", Files: map[string]string{"main.go": p.source(), "alias_js.go": js, "alias_native.go": nat}}
}
