package c06

import (
	"encoding/json"
	"fmt"
	"math"
	"os"
	"sort"
	"strconv"
	"strings"
	"sync"
	"testing"

	"verif/internal/drv"
)

var ev *drv.Evidence

func TestMain(m *testing.M) { drv.TestMain(m, func() *drv.Evidence { return ev }) }

const rule = "table programs: for every (type, operator, operand shape) group the cross product of a boundary grid (all 256 values for 8-bit types in the variable/variable shape) plus rapid-drawn operand pairs/triples and rapid-drawn nested expressions is evaluated under GopherJS+Node and natively; per-group digests and every 97th row are compared, mismatching groups are re-run row by row. A row is non-trivial when an operand or the result uses the top two bits of its type (wrap/sign/carry territory), is a special float (0, NaN, Inf, subnormal, >=2^24) or the shift count is >= width-1; rows are distinct by construction (deduplicated grids), random rows may repeat grid rows."

type progOut struct {
	g map[string][3]string // group → rows, nt, digest
	r map[string][]string  // group → sampled rows
	q map[string][]string  // group → tolerance rows
}

func parseOut(o drv.Outcome) progOut {
	po := progOut{g: map[string][3]string{}, r: map[string][]string{}, q: map[string][]string{}}
	for _, l := range o.Trace {
		switch {
		case strings.HasPrefix(l, "G "):
			f := strings.Fields(l)
			n := len(f)
			name := strings.Join(f[1:n-3], " ")
			po.g[name] = [3]string{f[n-3], f[n-2], f[n-1]}
		case strings.HasPrefix(l, "R "), strings.HasPrefix(l, "Q "):
			i := strings.Index(l, " = ")
			_ = i
			name := groupOfRow(l)
			if l[0] == 'R' {
				po.r[name] = append(po.r[name], l)
			} else {
				po.q[name] = append(po.q[name], l)
			}
		}
	}
	return po
}

var groupNames []string // longest first

func groupOfRow(l string) string {
	rest := l[2:]
	for _, g := range groupNames {
		if strings.HasPrefix(rest, g+" ") {
			return g
		}
	}
	return "?"
}

func rowKey(l string) string {
	if i := strings.Index(l, " = "); i >= 0 {
		return l[2:i]
	}
	return l
}

type violation struct {
	Program string `json:"program"`
	Group   string `json:"group"`
	Row     string `json:"row"`
	JS      string `json:"gopherjs"`
	Native  string `json:"native"`
	Seed    int    `json:"seed"`
	Params  params `json:"params"`
}

func TestCheck(t *testing.T) {
	ev = drv.NewEvidence("C06", "exploration", rule)
	pr := params{Seed: drv.Seed(), NRandom: 400, NNested: 10, Full8: true, ConstN: 10, FoldedN: 400}
	if drv.Thorough() {
		pr.NRandom = 20000
		pr.NNested = 60
		pr.ConstN = 0
		pr.FoldedN = 0
	}
	if rp := os.Getenv("VERIF_REPLAY"); rp != "" {
		replay(t, rp)
		return
	}
	// stored replays first
	for _, d := range drv.ReplayDirs("C06") {
		replayDir(t, d, true)
	}
	for _, f := range drv.OpenFindings("C06") {
		if f.Replay != "" {
			replayDir(t, f.Replay, true)
		}
	}
	runPrograms(t, allPrograms(pr), pr)
	helperFuzz(t)
}

func allPrograms(pr params) []program {
	var ps []program
	for _, ty := range intTypes {
		if pr.OnlyType != "" && pr.OnlyType != ty.Name {
			continue
		}
		ps = append(ps, intProgram(ty, pr))
	}
	if pr.OnlyType == "" || pr.OnlyType == "floats" {
		ps = append(ps, floatProgram(pr))
	}
	if pr.OnlyType == "" || pr.OnlyType == "complex" {
		ps = append(ps, complexProgram(pr))
	}
	if pr.OnlyType == "" || pr.OnlyType == "conv" {
		ps = append(ps, convProgram(pr))
	}
	return ps
}

var vioMu sync.Mutex
var vioCount int

func runPrograms(t *testing.T, ps []program, pr params) {
	var mu sync.Mutex
	drv.Parallel(len(ps), func(i int) {
		p := ps[i]
		c := drv.NewCase("c06_", p.Files, true)
		defer c.Remove()
		res := drv.RunBoth(c, drv.BuildOpts{}, [][]string{{"all"}}, drv.NodeOpts{Timeout: 30 * 60 * 1e9}, true)
		if res.NatErr != nil {
			drv.Infra("program %s: native build failed (generator bug): %v", p.Name, res.NatErr)
		}
		if res.JSBuildErr != nil {
			ev.Violation(fmt.Sprintf("program %s: GopherJS build failed: %v", p.Name, res.JSBuildErr), c.ReproFiles())
			return
		}
		js, nat := res.JS[0], res.Native[0]
		if nat.End != "exit0" {
			drv.Infra("program %s: native run ended %s %s", p.Name, nat.End, nat.Msg)
		}
		if js.End != "exit0" {
			ev.Violation(fmt.Sprintf("program %s: GopherJS run ended %s %q\n%s", p.Name, js.End, js.Msg, js.Stderr), c.ReproFiles())
			return
		}
		mu.Lock()
		// group names of this program for row attribution
		pn := parseGroupNames(nat)
		groupNames = pn
		pj, pnat := parseOut(js), parseOut(nat)
		mu.Unlock()
		var bad []string
		for _, g := range pn {
			gn, ok := pnat.g[g]
			if !ok {
				continue
			}
			rows, _ := strconv.ParseInt(gn[0], 10, 64)
			nt, _ := strconv.ParseInt(gn[1], 10, 64)
			ev.Bulk(rows, nt, p.Name)
			gj, ok := pj.g[g]
			same := ok && gj == gn && strings.Join(pj.r[g], "\n") == strings.Join(pnat.r[g], "\n")
			if len(pnat.q[g]) > 0 {
				if d := compareQuo(pj.q[g], pnat.q[g]); d != "" {
					reportRow(p, pr, g, d, c)
				}
				continue
			}
			if !same {
				bad = append(bad, g)
			}
		}
		if len(pj.g) != len(pnat.g) {
			ev.Violation(fmt.Sprintf("program %s: %d groups reported under GopherJS, %d natively", p.Name, len(pj.g), len(pnat.g)), c.ReproFiles())
		}
		if len(pnat.r) > 0 && i < 4 {
			for _, g := range pn {
				if len(pnat.r[g]) > 2 {
					ev.Sample(pnat.r[g][len(pnat.r[g])/2])
					break
				}
			}
		}
		// localise
		for _, g := range bad {
			vj := drv.RunNode(res.JSPath, []string{"verbose", g}, drv.NodeOpts{Timeout: 10 * 60 * 1e9})
			vn := drv.RunNative(c.Dir+"/native.bin", []string{"verbose", g}, 10*60*1e9)
			diffs := diffRows(vj.Trace, vn.Trace)
			if len(diffs) == 0 {
				reportRow(p, pr, g, fmt.Sprintf("digest mismatch without differing rows (js %v native %v; end %s/%s)", pj.g[g], pnat.g[g], vj.End, vn.End), c)
				continue
			}
			unknown := 0
			for _, d := range diffs {
				key := rowKey(d[1])
				if d[1] == "" {
					key = rowKey(d[0])
				}
				if f := drv.MatchRow("C06", key); f != nil {
					ev.Known(f)
					ev.Count("known_rows:"+f.ID, 1)
					continue
				}
				if unknown == 0 {
					reportRowJS(p, pr, g, key, d[0], d[1], c)
				}
				unknown++
			}
			if unknown > 1 {
				fmt.Printf("  (%d more differing rows in group %q)\n", unknown-1, g)
			}
		}
	})
	ev.Count("programs", int64(len(ps)))
}

func parseGroupNames(o drv.Outcome) []string {
	var names []string
	for _, l := range o.Trace {
		if strings.HasPrefix(l, "G ") {
			f := strings.Fields(l)
			names = append(names, strings.Join(f[1:len(f)-3], " "))
		}
	}
	sorted := append([]string{}, names...)
	sort.Slice(sorted, func(i, j int) bool { return len(sorted[i]) > len(sorted[j]) })
	return sorted
}

// diffRows pairs up verbose rows by position and returns differing (js, native) pairs.
func diffRows(js, nat []string) [][2]string {
	var out [][2]string
	n := len(js)
	if len(nat) > n {
		n = len(nat)
	}
	for i := 0; i < n; i++ {
		var a, b string
		if i < len(js) {
			a = js[i]
		}
		if i < len(nat) {
			b = nat[i]
		}
		if a != b {
			if strings.HasPrefix(a, "G ") && strings.HasPrefix(b, "G ") {
				continue
			}
			out = append(out, [2]string{a, b})
		}
	}
	return out
}

func reportRow(p program, pr params, g, what string, c *drv.Case) {
	reportRowJS(p, pr, g, what, "", "", c)
}

func reportRowJS(p program, pr params, g, row, js, nat string, c *drv.Case) {
	vioMu.Lock()
	vioCount++
	n := vioCount
	vioMu.Unlock()
	if n > maxVio() {
		return
	}
	v := violation{Program: p.Name, Group: g, Row: row, JS: js, Native: nat, Seed: pr.Seed, Params: pr}
	b, _ := json.MarshalIndent(v, "", " ")
	files := map[string]string{"case.json": string(b)}
	ev.Violation(fmt.Sprintf("C06 %s: group %q row %q: gopherjs %q, native %q", p.Name, g, row, js, nat), files)
}

// ---- complex division: tolerance comparison (DESIGN §4 C06) ----

func parseC(s string) (re, im float64, ok bool) {
	s = strings.TrimSuffix(strings.TrimPrefix(s, "("), ")")
	parts := strings.Split(s, ",")
	if len(parts) != 2 {
		return 0, 0, false
	}
	p := func(x string) float64 {
		if x == "NaN" {
			return math.NaN()
		}
		u, err := strconv.ParseUint(x, 16, 64)
		if err != nil {
			ok = false
		}
		if len(x) == 16 && u <= 0xffffffff && u != 0 {
			// float32 bit pattern rendered through u64hex(uint64(bits32))
			return float64(math.Float32frombits(uint32(u)))
		}
		return math.Float64frombits(u)
	}
	ok = true
	re, im = p(parts[0]), p(parts[1])
	return
}

func finite(f float64) bool { return !math.IsInf(f, 0) && f == f }

func closeEnough(a, b float64, is32 bool) bool {
	if a != a || b != b {
		return a != a && b != b
	}
	if a == b { // includes +0 == -0
		return true
	}
	if math.IsInf(a, 0) || math.IsInf(b, 0) {
		return false
	}
	if is32 {
		return math.Abs(a-b) <= math.Abs(float64(math.Nextafter32(float32(a), float32(math.Inf(1))))-a)*1.01
	}
	return math.Abs(a-b) <= math.Abs(math.Nextafter(a, math.Inf(1))-a)*1.01
}

// compareQuo compares complex division rows: bit-exact unless the divisor has |re|==|im|
// or a result part is zero; operands with Inf/NaN parts or a zero divisor are only required not to crash.
func compareQuo(js, nat []string) string {
	if len(js) != len(nat) {
		return fmt.Sprintf("complex division: %d rows under GopherJS, %d natively", len(js), len(nat))
	}
	for i := range nat {
		if js[i] == nat[i] {
			continue
		}
		fj, fn := strings.Fields(js[i]), strings.Fields(nat[i])
		if len(fj) != len(fn) || len(fn) < 6 {
			return "unparsable division row: " + js[i] + " / " + nat[i]
		}
		n := len(fn)
		is32 := strings.Contains(nat[i], "complex64")
		// operands must be the same text
		if strings.Join(fj[:n-1], " ") != strings.Join(fn[:n-1], " ") {
			return "complex division rows out of step: " + js[i] + " / " + nat[i]
		}
		ar, ai, _ := parseC(fn[n-4])
		br, bi, _ := parseC(fn[n-3])
		if is32 {
			ar, ai, _ = parseC32(fn[n-4])
			br, bi, _ = parseC32(fn[n-3])
		}
		if !finite(ar) || !finite(ai) || !finite(br) || !finite(bi) || (br == 0 && bi == 0) {
			continue // unspecified by the Go spec
		}
		var jr, ji, nr, ni float64
		if is32 {
			jr, ji, _ = parseC32(fj[n-1])
			nr, ni, _ = parseC32(fn[n-1])
		} else {
			jr, ji, _ = parseC(fj[n-1])
			nr, ni, _ = parseC(fn[n-1])
		}
		if !finite(nr) || !finite(ni) {
			// overflow in the reference algorithm: C99-style recovery differs legitimately
			continue
		}
		if closeEnough(jr, nr, is32) && closeEnough(ji, ni, is32) {
			continue
		}
		return fmt.Sprintf("%s: gopherjs %s native %s", rowKey(nat[i]), fj[n-1], fn[n-1])
	}
	return ""
}

func parseC32(s string) (re, im float64, ok bool) {
	s = strings.TrimSuffix(strings.TrimPrefix(s, "("), ")")
	parts := strings.Split(s, ",")
	if len(parts) != 2 {
		return 0, 0, false
	}
	p := func(x string) float64 {
		if x == "NaN" {
			return math.NaN()
		}
		u, _ := strconv.ParseUint(x, 16, 64)
		return float64(math.Float32frombits(uint32(u)))
	}
	return p(parts[0]), p(parts[1]), true
}

// ---- replay ----

func replay(t *testing.T, path string) {
	replayDir(t, path, false)
}

// replayDir re-evaluates a stored row. quiet: part of a normal run (known findings
// are reported as such, anything else as violation).
func replayDir(t *testing.T, dir string, quiet bool) {
	files := drv.ReadReplayDir(dir)
	cj, ok := files["case.json"]
	if !ok {
		return
	}
	var v violation
	if err := json.Unmarshal([]byte(cj), &v); err != nil {
		drv.Infra("bad replay %s: %v", dir, err)
	}
	pr := v.Params
	pr.OnlyType = v.Program
	ps := allPrograms(pr)
	if len(ps) != 1 {
		drv.Infra("replay %s: program %q not found", dir, v.Program)
	}
	p := ps[0]
	c := drv.NewCase("c06r_", p.Files, true)
	defer c.Remove()
	res := drv.RunBoth(c, drv.BuildOpts{}, [][]string{{"verbose", v.Group}}, drv.NodeOpts{}, false)
	if res.NatErr != nil {
		drv.Infra("replay: native build failed: %v", res.NatErr)
	}
	if res.JSBuildErr != nil {
		ev.Violation("replay "+dir+": GopherJS build failed: "+res.JSBuildErr.Error(), map[string]string{"case.json": cj})
		return
	}
	ev.Case("replay:"+dir, true)
	diffs := diffRows(res.JS[0].Trace, res.Native[0].Trace)
	for _, d := range diffs {
		key := rowKey(d[1])
		if f := drv.MatchRow("C06", key); f != nil {
			ev.Known(f)
			continue
		}
		ev.Violation(fmt.Sprintf("replay %s: group %q row %q: gopherjs %q native %q", dir, v.Group, key, d[0], d[1]), map[string]string{"case.json": cj})
		return
	}
	if !quiet {
		fmt.Printf("replay %s: %d differing rows\n", dir, len(diffs))
	}
}

func maxVio() int {
	if v, err := strconv.Atoi(os.Getenv("VERIF_MAXVIO")); err == nil {
		return v
	}
	return 12
}
