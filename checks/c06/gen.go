package c06

import (
	"fmt"
	"math"
	"math/big"
	"sort"
	"strconv"
	"strings"
)

// numType describes one numeric type of the table programs.
type numType struct {
	Name   string // name used in the program (Int/Uint/Uintptr are 32-bit aliases)
	Kind   byte   // 'i' signed, 'u' unsigned, 'f' float, 'c' complex
	Bits   int
	Alias  bool
	JSName string // js-side alias target
	NatNm  string // native alias target
}

var intTypes = []numType{
	{Name: "int8", Kind: 'i', Bits: 8}, {Name: "uint8", Kind: 'u', Bits: 8},
	{Name: "int16", Kind: 'i', Bits: 16}, {Name: "uint16", Kind: 'u', Bits: 16},
	{Name: "int32", Kind: 'i', Bits: 32}, {Name: "uint32", Kind: 'u', Bits: 32},
	{Name: "int64", Kind: 'i', Bits: 64}, {Name: "uint64", Kind: 'u', Bits: 64},
	{Name: "Int", Kind: 'i', Bits: 32, Alias: true, JSName: "int", NatNm: "int32"},
	{Name: "Uint", Kind: 'u', Bits: 32, Alias: true, JSName: "uint", NatNm: "uint32"},
	{Name: "Uintptr", Kind: 'u', Bits: 32, Alias: true, JSName: "uintptr", NatNm: "uint32"},
}

var floatTypes = []numType{{Name: "float32", Kind: 'f', Bits: 32}, {Name: "float64", Kind: 'f', Bits: 64}}
var complexTypes = []numType{{Name: "complex64", Kind: 'c', Bits: 64}, {Name: "complex128", Kind: 'c', Bits: 128}}

func (t numType) min() *big.Int {
	if t.Kind == 'u' {
		return big.NewInt(0)
	}
	return new(big.Int).Neg(new(big.Int).Lsh(big.NewInt(1), uint(t.Bits-1)))
}

func (t numType) max() *big.Int {
	if t.Kind == 'u' {
		return new(big.Int).Sub(new(big.Int).Lsh(big.NewInt(1), uint(t.Bits)), big.NewInt(1))
	}
	return new(big.Int).Sub(new(big.Int).Lsh(big.NewInt(1), uint(t.Bits-1)), big.NewInt(1))
}

func (t numType) fits(v *big.Int) bool { return v.Cmp(t.min()) >= 0 && v.Cmp(t.max()) <= 0 }

// wrap reduces v modulo 2^Bits into the type's range.
func (t numType) wrap(v *big.Int) *big.Int {
	m := new(big.Int).Lsh(big.NewInt(1), uint(t.Bits))
	r := new(big.Int).Mod(v, m)
	if t.Kind == 'i' && r.Cmp(t.max()) > 0 {
		r.Sub(r, m)
	}
	return r
}

// intGrid is the boundary grid of an integer type (full range for 8-bit types when full).
func intGrid(t numType, full bool) []*big.Int {
	set := map[string]*big.Int{}
	add := func(v *big.Int) {
		if t.fits(v) {
			set[v.String()] = new(big.Int).Set(v)
		}
	}
	if full && t.Bits == 8 {
		for v := t.min().Int64(); v <= t.max().Int64(); v++ {
			add(big.NewInt(v))
		}
	} else {
		for _, s := range []int64{0, 1, 2, 3, 5, 7, 10, 100, -1, -2, -3, -7, -100} {
			add(big.NewInt(s))
		}
		add(t.min())
		add(new(big.Int).Add(t.min(), big.NewInt(1)))
		add(t.max())
		add(new(big.Int).Sub(t.max(), big.NewInt(1)))
		for _, k := range []uint{7, 8, 15, 16, 24, 31, 32, 33, 52, 53, 62, 63} {
			p := new(big.Int).Lsh(big.NewInt(1), k)
			for _, d := range []int64{-1, 0, 1} {
				v := new(big.Int).Add(p, big.NewInt(d))
				add(v)
				add(new(big.Int).Neg(v))
			}
		}
		// alternating bit patterns, reinterpreted in the type
		for _, pat := range []string{"5555555555555555", "aaaaaaaaaaaaaaaa", "00ff00ff00ff00ff", "ff00ff00ff00ff00", "0123456789abcdef", "fedcba9876543210", "00000000ffffffff", "ffffffff00000000", "7fffffff80000000", "80000000ffffffff"} {
			v, _ := new(big.Int).SetString(pat, 16)
			add(t.wrap(v))
		}
	}
	var out []*big.Int
	for _, v := range set {
		out = append(out, v)
	}
	sort.Slice(out, func(i, j int) bool { return out[i].Cmp(out[j]) < 0 })
	return out
}

// smallIntGrid is a reduced grid for expensive shapes.
func smallIntGrid(t numType) []*big.Int {
	set := map[string]*big.Int{}
	add := func(v *big.Int) {
		if t.fits(v) {
			set[v.String()] = new(big.Int).Set(v)
		}
	}
	for _, s := range []int64{0, 1, 2, 3, 7, -1, -2, -7} {
		add(big.NewInt(s))
	}
	add(t.min())
	add(new(big.Int).Add(t.min(), big.NewInt(1)))
	add(t.max())
	add(new(big.Int).Sub(t.max(), big.NewInt(1)))
	h := uint(t.Bits / 2)
	for _, k := range []uint{h - 1, h, h + 1, uint(t.Bits - 2)} {
		p := new(big.Int).Lsh(big.NewInt(1), k)
		for _, d := range []int64{-1, 0, 1} {
			v := new(big.Int).Add(p, big.NewInt(d))
			add(v)
			add(new(big.Int).Neg(v))
		}
	}
	var out []*big.Int
	for _, v := range set {
		out = append(out, v)
	}
	sort.Slice(out, func(i, j int) bool { return out[i].Cmp(out[j]) < 0 })
	return out
}

func intLits(vs []*big.Int) string {
	var sb strings.Builder
	for i, v := range vs {
		if i > 0 {
			sb.WriteString(", ")
		}
		if i%16 == 15 {
			sb.WriteString("\n\t")
		}
		sb.WriteString(v.String())
	}
	return sb.String()
}

// float grids as bit patterns
func f64Grid() []uint64 {
	vals := []float64{0, math.Copysign(0, -1), 1, -1, 2, -2, 0.5, -0.5, 1.5, 2.5, -2.5, 3, 10, 0.1, -0.1, 1e-5, 1e10, -1e10, 1e100, 1e-100,
		math.SmallestNonzeroFloat64, -math.SmallestNonzeroFloat64, 2.2250738585072014e-308, 2.225073858507201e-308, math.MaxFloat64, -math.MaxFloat64,
		math.Inf(1), math.Inf(-1), math.NaN(), math.MaxFloat32, math.SmallestNonzeroFloat32, 1.401298464324817e-45 / 2,
		16777216, 16777217, 16777218, 16777219, 1 + 1.0/(1<<23), 1 + 1.0/(1<<24), 1 + 3.0/(1<<24), 1 + 1.0/(1<<25),
		2147483647, 2147483648, -2147483648, -2147483649, 4294967295, 4294967296, 4294967297,
		9007199254740991, 9007199254740992, 9007199254740993, 9007199254740994, 4503599627370496, 4503599627370496.5, 4503599627370497.5,
		9223372036854775807, -9223372036854775808, 18446744073709551615, 3.4028235677973366e+38, 3.4028234663852886e+38, 3.4028235e38 * 1.0000001,
		127, 128, -128, -129, 255, 256, 32767, 32768, -32768, 65535, 65536, 0.49999999999999994, 1e23, 123456789.125, math.Pi, -math.E,
	}
	seen := map[uint64]bool{}
	var out []uint64
	for _, v := range vals {
		b := math.Float64bits(v)
		if v != v {
			b = 0x7ff8000000000001
		}
		if !seen[b] {
			seen[b] = true
			out = append(out, b)
		}
	}
	return out
}

func f32Grid() []uint32 {
	seen := map[uint32]bool{}
	var out []uint32
	for _, b := range f64Grid() {
		f := float32(math.Float64frombits(b))
		x := math.Float32bits(f)
		if f != f {
			x = 0x7fc00001
		}
		if !seen[x] {
			seen[x] = true
			out = append(out, x)
		}
	}
	for _, x := range []uint32{0x00000001, 0x007fffff, 0x00800000, 0x7f7fffff, 0x3f800001, 0x3fffffff, 0x4b7fffff, 0x4b800000, 0x4effffff, 0x4f000000, 0x5f000000, 0x5effffff, 0xcf000000} {
		if !seen[x] {
			seen[x] = true
			out = append(out, x)
		}
	}
	return out
}

func f64Lits(bits []uint64) string {
	var sb strings.Builder
	for i, b := range bits {
		if i > 0 {
			sb.WriteString(", ")
		}
		if i%6 == 5 {
			sb.WriteString("\n\t")
		}
		fmt.Fprintf(&sb, "fb(0x%016x)", b)
	}
	return sb.String()
}

func f32Lits(bits []uint32) string {
	var sb strings.Builder
	for i, b := range bits {
		if i > 0 {
			sb.WriteString(", ")
		}
		if i%6 == 5 {
			sb.WriteString("\n\t")
		}
		fmt.Fprintf(&sb, "fb32(0x%08x)", b)
	}
	return sb.String()
}

// floatConstLit returns a Go constant literal denoting exactly the finite value.
func floatConstLit(f float64) string {
	if f == 0 && math.Signbit(f) {
		return "" // -0 is not expressible as a constant
	}
	if math.IsInf(f, 0) || f != f {
		return ""
	}
	s := strconv.FormatFloat(f, 'g', -1, 64)
	if !strings.ContainsAny(s, ".eE") {
		s += ".0"
	}
	return s
}

// group is one (type, operator, shape) unit: a function in the program that
// iterates its operand tables, feeds a digest and optionally prints rows.
type group struct {
	Name string
	Src  string // complete Go function `func NAME(d *digest32, v bool) (rows, nt int)`
}

const prologue = `package main

import "math"

var _ = math.Float64bits

type digest32 uint32

func (d *digest32) u32(x uint32) { *d = digest32((uint32(*d) ^ x) * 16777619) }
func (d *digest32) u64(x uint64) { d.u32(uint32(x)); d.u32(uint32(x >> 32)) }
func (d *digest32) b(x bool) {
	if x {
		d.u32(1)
	} else {
		d.u32(2)
	}
}
func (d *digest32) f(x float64) {
	if x != x {
		d.u32(0x7ff80001)
		return
	}
	d.u64(math.Float64bits(x))
}
func (d *digest32) f32(x float32) {
	if x != x {
		d.u32(0x7fc00001)
		return
	}
	// through float64: Float32bits would round a value that was never rounded to float32
	d.u64(math.Float64bits(float64(x)))
}
func (d *digest32) str(s string) {
	for i := 0; i < len(s); i++ {
		d.u32(uint32(s[i]))
	}
	d.u32(0xff)
}

// nz feeds the sign of a zero hiding behind an integer-typed value.
func (d *digest32) nz(f float64) {
	if f == 0 && 1/f < 0 {
		d.u32(0xdeadbeef)
	}
}

// nzs marks an integer that is a JavaScript negative zero.
func nzs(f float64) string {
	if f == 0 && 1/f < 0 {
		return "(negative-zero)"
	}
	return ""
}

func fb(b uint64) float64   { return math.Float64frombits(b) }
func fb32(b uint32) float32 { return math.Float32frombits(b) }

type grp struct {
	name string
	run  func(d *digest32, v bool) (int, int)
}

var groups []grp

func reg(name string, run func(d *digest32, v bool) (int, int)) { groups = append(groups, grp{name, run}) }

// divguard evaluates f and reports the class of a run-time panic.
func guard(f func()) (cls string) {
	defer func() {
		if r := recover(); r != nil {
			cls = classify(r)
		}
	}()
	f()
	return "ok"
}

func main() {
	mode := argv(0)
	want := argv(1)
	for _, g := range groups {
		if mode == "verbose" && g.name != want {
			continue
		}
		d := digest32(2166136261)
		rows, nt := g.run(&d, mode == "verbose")
		out("G " + g.name + " " + itoa(rows) + " " + itoa(nt) + " " + u64hex(uint64(d)))
	}
}
`

func aliasFiles() (js, nat string) {
	js = "//go:build js\n\npackage main\n\ntype (\n"
	nat = "//go:build !js\n\npackage main\n\ntype (\n"
	for _, t := range intTypes {
		if t.Alias {
			js += fmt.Sprintf("\t%s = %s\n", t.Name, t.JSName)
			nat += fmt.Sprintf("\t%s = %s\n", t.Name, t.NatNm)
		}
	}
	js += ")\n"
	nat += ")\n"
	return
}

// renderer of a typed value into the row text
func render(t numType, e string) string {
	switch t.Kind {
	case 'i':
		return "i64toa(int64(" + e + ")) + nzs(float64(" + e + "))"
	case 'u':
		return "u64toa(uint64(" + e + ")) + nzs(float64(" + e + "))"
	case 'f':
		if t.Bits == 32 {
			return "f32s(" + e + ")"
		}
		return "f64s(" + e + ")"
	case 'c':
		if t.Bits == 64 {
			return "c64s(" + e + ")"
		}
		return "c128s(" + e + ")"
	}
	return "\"?\""
}

// feed statement for a typed result
func feed(t numType, e string) string {
	switch t.Kind {
	case 'i', 'u':
		return "d.u64(uint64(" + e + ")); d.nz(float64(" + e + "))"
	case 'f':
		if t.Bits == 32 {
			return "d.f32(" + e + ")"
		}
		return "d.f(" + e + ")"
	case 'c':
		if t.Bits == 64 {
			return "d.f32(real(" + e + ")); d.f32(imag(" + e + "))"
		}
		return "d.f(real(" + e + ")); d.f(imag(" + e + "))"
	}
	return ""
}

// ntExpr is the non-triviality test of a value (uses the top two bits / is special).
func ntExpr(t numType, e string) string {
	switch t.Kind {
	case 'i':
		return fmt.Sprintf("(%s>>%d != 0 && %s>>%d != -1)", e, t.Bits-2, e, t.Bits-2)
	case 'u':
		return fmt.Sprintf("(%s>>%d != 0)", e, t.Bits-2)
	case 'f':
		return fmt.Sprintf("fspecial(float64(%s))", e)
	case 'c':
		return fmt.Sprintf("(fspecial(float64(real(%s))) || fspecial(float64(imag(%s))))", e, e)
	}
	return "false"
}

const fspecialSrc = `
func fspecial(f float64) bool {
	if f != f || f == 0 {
		return true
	}
	if f < 0 {
		f = -f
	}
	return f > 3.4e38 || f < 1.2e-38 || f >= 16777216
}
`
