package c06

import (
	"fmt"
	"math"
	"math/big"
	"strings"

	"pgregory.net/rapid"
)

type prog struct {
	tables strings.Builder
	funcs  strings.Builder
	inits  strings.Builder
	n      int
	names  map[string]bool
}

func newProg() *prog { return &prog{names: map[string]bool{}} }

func (p *prog) table(name, typ, lits string) {
	if p.names["T:"+name] {
		return
	}
	p.names["T:"+name] = true
	fmt.Fprintf(&p.tables, "var %s = []%s{%s}\n", name, typ, lits)
}

func (p *prog) group(name, body string) {
	if p.names[name] {
		panic("duplicate group " + name)
	}
	p.names[name] = true
	p.n++
	fn := fmt.Sprintf("g%d", p.n)
	fmt.Fprintf(&p.funcs, "func %s(d *digest32, v bool) (rows, nt int) {\n\tconst gname = %q\n%s\n\treturn\n}\n\n", fn, name, body)
	fmt.Fprintf(&p.inits, "\treg(%q, %s)\n", name, fn)
}

func (p *prog) source() string {
	return prologue + fspecialSrc + "\n" + p.tables.String() + "\n" + p.funcs.String() + "\nfunc init() {\n" + p.inits.String() + "}\n"
}

type binop struct{ Sym, Name string }

var intArith = []binop{{"+", "add"}, {"-", "sub"}, {"*", "mul"}, {"/", "quo"}, {"%", "rem"}, {"&", "and"}, {"|", "or"}, {"^", "xor"}, {"&^", "andnot"}}
var cmpOps = []binop{{"==", "eq"}, {"!=", "ne"}, {"<", "lt"}, {"<=", "le"}, {">", "gt"}, {">=", "ge"}}
var shiftOps = []binop{{"<<", "shl"}, {">>", "shr"}}
var floatArith = []binop{{"+", "add"}, {"-", "sub"}, {"*", "mul"}, {"/", "quo"}}

// rowTail is the common per-row bookkeeping.
func rowTail(t numType, rt numType, nops int, rIsBool bool, withCls bool) string {
	var sb strings.Builder
	if rIsBool {
		sb.WriteString("\t\td.b(r)\n")
	} else {
		sb.WriteString("\t\t" + feed(rt, "r") + "\n")
	}
	if withCls {
		sb.WriteString("\t\td.str(cls)\n")
	}
	conds := []string{ntExpr(t, "a")}
	if nops >= 2 {
		conds = append(conds, ntExpr(t, "b"))
	}
	if nops >= 3 {
		conds = append(conds, ntExpr(t, "c"))
	}
	if !rIsBool {
		conds = append(conds, ntExpr(rt, "r"))
	}
	sb.WriteString("\t\tif " + strings.Join(conds, " || ") + " {\n\t\t\tnt++\n\t\t}\n")
	row := `"R " + gname + " " + ` + render(t, "a")
	if nops >= 2 {
		row += ` + " " + ` + render(t, "b")
	}
	if nops >= 3 {
		row += ` + " " + ` + render(t, "c")
	}
	if rIsBool {
		row += ` + " = " + btoa(r)`
	} else {
		row += ` + " = " + ` + render(rt, "r")
	}
	if withCls {
		row += ` + " " + cls`
	}
	sb.WriteString("\t\tif v || rows%97 == 0 {\n\t\t\tout(" + row + ")\n\t\t}\n\t\trows++\n")
	return sb.String()
}

func computeShape(shape, T, sym string) string {
	switch shape {
	case "vv":
		return "r = a " + sym + " b"
	case "field":
		return "var s struct{ x, y, z " + T + " }; s.x = a; s.y = b; s.z = s.x " + sym + " s.y; r = s.z"
	case "opassign":
		return "r = a; r " + sym + "= b"
	case "elem":
		return "var arr [3]" + T + "; arr[1] = a; p := &arr[1]; *p " + sym + "= b; r = arr[1]"
	case "slice":
		return "sl := []" + T + "{a, b}; sl[0] " + sym + "= sl[1]; r = sl[0]"
	case "call":
		return "r = id_" + T + "(a) " + sym + " id_" + T + "(b)"
	}
	panic(shape)
}

// binGroup emits a binary group over table pairs (cross product of ga×gb plus zip of ra,rb).
func (p *prog) binGroup(t numType, op binop, shape, ga, gb, ra, rb string, guardZero bool) {
	name := fmt.Sprintf("%s %s %s", t.Name, op.Name, shape)
	comp := computeShape(shape, t.Name, op.Sym)
	var sb strings.Builder
	fmt.Fprintf(&sb, "\tf := func(a, b %s) {\n\t\tvar r %s\n", t.Name, t.Name)
	if guardZero {
		fmt.Fprintf(&sb, "\t\tcls := \"ok\"\n\t\tif b == 0 {\n\t\t\tcls = guard(func() { %s })\n\t\t} else {\n\t\t\t%s\n\t\t}\n", comp, comp)
	} else {
		fmt.Fprintf(&sb, "\t\t%s\n", comp)
	}
	sb.WriteString(rowTail(t, t, 2, false, guardZero))
	sb.WriteString("\t}\n")
	fmt.Fprintf(&sb, "\tfor _, a := range %s {\n\t\tfor _, b := range %s {\n\t\t\tf(a, b)\n\t\t}\n\t}\n", ga, gb)
	if ra != "" {
		fmt.Fprintf(&sb, "\tfor i := range %s {\n\t\tf(%s[i], %s[i])\n\t}\n", ra, ra, rb)
	}
	p.group(name, sb.String())
}

func (p *prog) cmpGroup(t numType, op binop, ga, gb, ra, rb string) {
	name := fmt.Sprintf("%s %s vv", t.Name, op.Name)
	var sb strings.Builder
	fmt.Fprintf(&sb, "\tf := func(a, b %s) {\n\t\tr := a %s b\n", t.Name, op.Sym)
	sb.WriteString(rowTail(t, t, 2, true, false))
	sb.WriteString("\t}\n")
	fmt.Fprintf(&sb, "\tfor _, a := range %s {\n\t\tfor _, b := range %s {\n\t\t\tf(a, b)\n\t\t}\n\t}\n", ga, gb)
	if ra != "" {
		fmt.Fprintf(&sb, "\tfor i := range %s {\n\t\tf(%s[i], %s[i])\n\t}\n", ra, ra, rb)
	}
	p.group(name, sb.String())
}

func (p *prog) unaryGroup(t numType, name, stmt, ga, ra string) {
	gname := fmt.Sprintf("%s %s", t.Name, name)
	var sb strings.Builder
	fmt.Fprintf(&sb, "\tf := func(a %s) {\n\t\tvar r %s\n\t\t%s\n", t.Name, t.Name, stmt)
	sb.WriteString(rowTail(t, t, 1, false, false))
	sb.WriteString("\t}\n")
	fmt.Fprintf(&sb, "\tfor _, a := range %s {\n\t\tf(a)\n\t}\n", ga)
	if ra != "" {
		fmt.Fprintf(&sb, "\tfor _, a := range %s {\n\t\tf(a)\n\t}\n", ra)
	}
	p.group(gname, sb.String())
}

// shiftGroup: a OP s with s of count type ct (variable count).
func (p *prog) shiftGroup(t numType, op binop, ct numType, shape, ga, gs string) {
	name := fmt.Sprintf("%s %s by-%s %s", t.Name, op.Name, ct.Name, shape)
	var comp string
	switch shape {
	case "vv":
		comp = "r = a " + op.Sym + " s"
	case "opassign":
		comp = "r = a; r " + op.Sym + "= s"
	}
	var sb strings.Builder
	fmt.Fprintf(&sb, "\tf := func(a %s, s %s) {\n\t\tvar r %s\n\t\t%s\n", t.Name, ct.Name, t.Name, comp)
	sb.WriteString("\t\t" + feed(t, "r") + "\n")
	sb.WriteString("\t\tif " + ntExpr(t, "a") + " || s >= " + fmt.Sprint(t.Bits-1) + " {\n\t\t\tnt++\n\t\t}\n")
	row := `"R " + gname + " " + ` + render(t, "a") + ` + " " + ` + render(ct, "s") + ` + " = " + ` + render(t, "r")
	sb.WriteString("\t\tif v || rows%97 == 0 {\n\t\t\tout(" + row + ")\n\t\t}\n\t\trows++\n\t}\n")
	fmt.Fprintf(&sb, "\tfor _, a := range %s {\n\t\tfor _, s := range %s {\n\t\t\tf(a, s)\n\t\t}\n\t}\n", ga, gs)
	p.group(name, sb.String())
}

// constGroup: statements with literal operands. stmts are complete `g(...)` calls built by the caller.
func (p *prog) constGroup(t numType, name string, rIsBool bool, loopTable string, perA []string) {
	var sb strings.Builder
	rt := t.Name
	if rIsBool {
		rt = "bool"
	}
	fmt.Fprintf(&sb, "\tg := func(a %s, c string, r %s) {\n", t.Name, rt)
	if rIsBool {
		sb.WriteString("\t\td.b(r)\n")
	} else {
		sb.WriteString("\t\t" + feed(t, "r") + "\n")
	}
	sb.WriteString("\t\td.str(c)\n")
	if rIsBool {
		sb.WriteString("\t\tif " + ntExpr(t, "a") + " {\n\t\t\tnt++\n\t\t}\n")
	} else {
		sb.WriteString("\t\tif " + ntExpr(t, "a") + " || " + ntExpr(t, "r") + " {\n\t\t\tnt++\n\t\t}\n")
	}
	row := `"R " + gname + " " + ` + render(t, "a") + ` + " " + c + " = " + `
	if rIsBool {
		row += "btoa(r)"
	} else {
		row += render(t, "r")
	}
	sb.WriteString("\t\tif v || rows%97 == 0 {\n\t\t\tout(" + row + ")\n\t\t}\n\t\trows++\n\t}\n")
	if loopTable != "" {
		fmt.Fprintf(&sb, "\tfor _, a := range %s {\n", loopTable)
		for _, s := range perA {
			sb.WriteString("\t\t" + s + "\n")
		}
		sb.WriteString("\t}\n")
	} else {
		fmt.Fprintf(&sb, "\tvar a %s\n\t_ = a\n", t.Name)
		for _, s := range perA {
			sb.WriteString("\t" + s + "\n")
		}
	}
	p.group(name, sb.String())
}

// convGroup: D(a) for all a of the source table.
func (p *prog) convGroup(src, dst numType, tables ...string) {
	name := fmt.Sprintf("conv %s->%s", src.Name, dst.Name)
	var sb strings.Builder
	fmt.Fprintf(&sb, "\tf := func(a %s) {\n\t\tr := %s(a)\n", src.Name, dst.Name)
	sb.WriteString("\t\t" + feed(dst, "r") + "\n")
	sb.WriteString("\t\tif " + ntExpr(src, "a") + " || " + ntExpr(dst, "r") + " {\n\t\t\tnt++\n\t\t}\n")
	row := `"R " + gname + " " + ` + render(src, "a") + ` + " = " + ` + render(dst, "r")
	sb.WriteString("\t\tif v || rows%97 == 0 {\n\t\t\tout(" + row + ")\n\t\t}\n\t\trows++\n\t}\n")
	for _, tb := range tables {
		fmt.Fprintf(&sb, "\tfor _, a := range %s {\n\t\tf(a)\n\t}\n", tb)
	}
	p.group(name, sb.String())
}

// nestedGroup: r = EXPR(a,b,c)
func (p *prog) nestedGroup(t numType, idx int, expr string, ga, ra, rb, rc string) {
	name := fmt.Sprintf("%s nested#%d", t.Name, idx)
	var sb strings.Builder
	fmt.Fprintf(&sb, "\t// %s\n\tf := func(a, b, c %s) {\n\t\tvar r %s\n\t\tr = %s\n", expr, t.Name, t.Name, expr)
	sb.WriteString(rowTail(t, t, 3, false, false))
	sb.WriteString("\t}\n")
	fmt.Fprintf(&sb, "\tfor _, a := range %s {\n\t\tfor _, b := range %s {\n\t\t\tfor _, c := range %s {\n\t\t\t\tf(a, b, c)\n\t\t\t}\n\t\t}\n\t}\n", ga, ga, ga)
	fmt.Fprintf(&sb, "\tfor i := range %s {\n\t\tf(%s[i], %s[i], %s[i])\n\t}\n", ra, ra, rb, rc)
	p.group(name, sb.String())
}

// ---------- random operands ----------

func genIntOfType(t numType) *rapid.Generator[*big.Int] {
	return rapid.Custom(func(rt *rapid.T) *big.Int {
		switch rapid.IntRange(0, 3).Draw(rt, "strategy") {
		case 0: // uniform bits
			v := new(big.Int).SetUint64(rapid.Uint64().Draw(rt, "bits"))
			return t.wrap(v)
		case 1: // near a power of two
			k := rapid.IntRange(0, t.Bits-1).Draw(rt, "k")
			d := rapid.Int64Range(-3, 3).Draw(rt, "d")
			v := new(big.Int).Lsh(big.NewInt(1), uint(k))
			v.Add(v, big.NewInt(d))
			if rapid.Bool().Draw(rt, "neg") {
				v.Neg(v)
			}
			return t.wrap(v)
		case 2: // small
			return t.wrap(big.NewInt(rapid.Int64Range(-300, 300).Draw(rt, "small")))
		default: // low half random, high half boundary-ish
			lo := rapid.Uint32().Draw(rt, "lo")
			hi := rapid.SampledFrom([]uint32{0, 1, 0x7fffffff, 0x80000000, 0xffffffff, 0xfffffffe}).Draw(rt, "hi")
			return t.wrap(new(big.Int).SetUint64(uint64(hi)<<32 | uint64(lo)))
		}
	})
}

func genF64Bits() *rapid.Generator[uint64] {
	return rapid.Custom(func(rt *rapid.T) uint64 {
		var f float64
		switch rapid.IntRange(0, 3).Draw(rt, "strategy") {
		case 0:
			b := rapid.Uint64().Draw(rt, "bits")
			f = math.Float64frombits(b)
		case 1:
			f = float64(rapid.Int64Range(-1<<40, 1<<40).Draw(rt, "i")) / float64(int64(1)<<uint(rapid.IntRange(0, 30).Draw(rt, "sh")))
		case 2:
			f = rapid.Float64().Draw(rt, "f")
		default:
			m := rapid.Uint64Range(0, 1<<52-1).Draw(rt, "m")
			e := rapid.SampledFrom([]uint64{0, 1, 1022, 1023, 1024, 1023 + 23, 1023 + 24, 1023 + 31, 1023 + 32, 1023 + 52, 1023 + 53, 1023 + 63, 1023 + 64, 1023 + 127, 1023 + 128, 1023 - 126, 1023 - 127, 1023 - 149, 1023 - 150, 2046}).Draw(rt, "e")
			s := rapid.Uint64Range(0, 1).Draw(rt, "s")
			f = math.Float64frombits(s<<63 | e<<52 | m)
		}
		if f != f {
			return 0x7ff8000000000001
		}
		return math.Float64bits(f)
	})
}

// genNested draws a random integer expression over a,b,c of type T. Sub-expressions
// never consist of constants only (a constant expression that overflows is a compile error).
func genNested(t numType) *rapid.Generator[string] {
	type ex struct {
		s string
		c bool
	}
	var gen func(rt *rapid.T, depth int) ex
	consts := smallIntGrid(t)
	vars := []string{"a", "b", "c"}
	nonConst := func(rt *rapid.T, e ex) ex {
		if e.c {
			return ex{rapid.SampledFrom(vars).Draw(rt, "var"), false}
		}
		return e
	}
	gen = func(rt *rapid.T, depth int) ex {
		if depth <= 0 || rapid.IntRange(0, 9).Draw(rt, "leaf") < 2 {
			switch k := rapid.IntRange(0, 3).Draw(rt, "leafkind"); k {
			case 0, 1, 2:
				return ex{vars[k], false}
			default:
				c := rapid.SampledFrom(consts).Draw(rt, "const")
				return ex{fmt.Sprintf("%s(%s)", t.Name, c.String()), true}
			}
		}
		switch k := rapid.IntRange(0, 13).Draw(rt, "op"); k {
		case 0, 1, 2, 3, 4, 5, 6:
			op := []string{"+", "-", "*", "&", "|", "^", "&^"}[k]
			x, y := gen(rt, depth-1), gen(rt, depth-1)
			if x.c && y.c {
				y = nonConst(rt, y)
			}
			return ex{"(" + x.s + " " + op + " " + y.s + ")", false}
		case 7, 8:
			op := []string{"/", "%"}[k-7]
			x, y := gen(rt, depth-1), nonConst(rt, gen(rt, depth-1))
			return ex{"(" + x.s + " " + op + " (" + y.s + " | 1))", false}
		case 9, 10:
			op := []string{"<<", ">>"}[k-9]
			x := nonConst(rt, gen(rt, depth-1))
			if rapid.Bool().Draw(rt, "constshift") {
				return ex{"(" + x.s + " " + op + " " + fmt.Sprint(rapid.IntRange(0, t.Bits+2).Draw(rt, "n")) + ")", false}
			}
			y := nonConst(rt, gen(rt, depth-1))
			return ex{"(" + x.s + " " + op + " (uint8(" + y.s + ") & 63))", false}
		case 11:
			return ex{"(-" + nonConst(rt, gen(rt, depth-1)).s + ")", false}
		case 12:
			return ex{"(^" + nonConst(rt, gen(rt, depth-1)).s + ")", false}
		default:
			other := rapid.SampledFrom([]string{"int8", "uint8", "int16", "uint16", "int32", "uint32", "int64", "uint64"}).Draw(rt, "via")
			return ex{t.Name + "(" + other + "(" + nonConst(rt, gen(rt, depth-1)).s + "))", false}
		}
	}
	return rapid.Custom(func(rt *rapid.T) string {
		e := gen(rt, rapid.IntRange(2, 4).Draw(rt, "depth"))
		return nonConst(rt, e).s
	})
}
