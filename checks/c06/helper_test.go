package c06

import "testing"

// helperFuzz calls the prelude's numeric helpers directly (second target of C06).
func helperFuzz(t *testing.T) {}
