package c07

import (
	"fmt"
	"strings"
	"testing"

	"pgregory.net/rapid"

	"verif/internal/drv"
)

var ev *drv.Evidence

func TestMain(m *testing.M) { drv.TestMain(m, func() *drv.Evidence { return ev }) }

const rule = "rapid-generated struct/array type shapes (nesting <=3, embedding, named array and struct element types, leaves of int/string/int64/bool/float/pointer/slice/map kinds) x a catalogue of copy contexts (assignment, argument, result, range value, range over array value/pointer, channel send/receive, select send, map store/load, slice/array/struct element, composite literal, append, copy, variadic, interface boxing / type switch / assertion, method values and expressions, value receivers through value/pointer/interface/embedded path, closures, defer/go arguments, swaps, comparison, package variables) and alias contexts (pointers to variables/fields/elements/package variables, pointer equality, subslices, 3-index slices, append within/beyond capacity, maps, channels of pointers, captured variables, pointer receivers) x a mutation of a rapid-chosen leaf on one side, followed by deep dumps of both sides; compared with the native run. Non-trivial probe: shape nesting depth >= 2 (the mutation always happens after the copy/alias was taken); distinct by probe text."

type probe struct {
	id    int
	ctx   string
	shape string
	depth int
	src   string
}

type program struct {
	src    string
	probes []probe
}

func genProgram(rt *rapid.T, nShapes, nProbes int) program {
	g := newShapeGen(rt)
	var tops []*shape
	for i := 0; i < nShapes; i++ {
		tops = append(tops, g.gen(rapid.IntRange(1, 3).Draw(rt, "depth")))
	}
	var sb strings.Builder
	sb.WriteString("package main\n\nfunc ptrTo(v int) *int { return &v }\n\nfunc dumpInts(s []int) string {\n\tr := \"[\"\n\tfor _, v := range s {\n\t\tr += itoa(v) + \" \"\n\t}\n\treturn r + \"]\"\n}\n\n")
	sb.WriteString(g.decls.String())
	for _, sh := range g.order {
		sb.WriteString(strings.ReplaceAll(perShapeHelpers, "{T}", sh.name))
	}
	var usable []*shape
	for _, sh := range g.order {
		if len(sh.leafPaths) > 0 {
			usable = append(usable, sh)
		}
	}
	p := program{}
	if len(usable) == 0 {
		usable = tops
	}
	for i := 0; i < nProbes; i++ {
		c := contexts[i%len(contexts)]
		if i >= len(contexts) {
			c = contexts[rapid.IntRange(0, len(contexts)-1).Draw(rt, "ctx")]
		}
		sh := usable[rapid.IntRange(0, len(usable)-1).Draw(rt, "shape")]
		// satisfy the context's needs
		ok := true
		switch c.needs {
		case "cmp":
			ok = sh.comparable
		case "inner":
			ok = len(sh.inner) > 0
		case "struct":
			ok = !sh.isArray
		case "innerstruct":
			ok = !sh.isArray && len(sh.inner) > 0
		case "leaffield":
			ok = directLeaf(sh) != ""
		}
		if !ok {
			for _, alt := range usable {
				if (c.needs == "cmp" && alt.comparable) || (c.needs == "inner" && len(alt.inner) > 0) || (c.needs == "struct" && !alt.isArray) || (c.needs == "innerstruct" && !alt.isArray && len(alt.inner) > 0) || (c.needs == "leaffield" && directLeaf(alt) != "") {
					sh, ok = alt, true
					break
				}
			}
		}
		if !ok {
			continue
		}
		k := rapid.IntRange(0, 11).Draw(rt, "leaf")
		in, inT := "", ""
		if len(sh.inner) > 0 {
			x := sh.inner[rapid.IntRange(0, len(sh.inner)-1).Draw(rt, "inner")]
			in, inT = x.path, x.typ
			if c.needs == "inner" {
				// mutate a leaf inside the chosen inner value
				for li, l := range sh.leafPaths {
					if strings.HasPrefix(l.path, in) {
						k = li
						break
					}
				}
			}
		}
		lf, lfv := directLeaf(sh), "7"
		for _, l := range sh.leafPaths {
			if l.path == lf && l.kind == "string" {
				lfv = "\"seven\""
			}
		}
		body := strings.NewReplacer("{LF}", lf, "{LFV}", lfv, "{T}", sh.name, "{K1}", fmt.Sprint(k+1), "{K}", fmt.Sprint(k), "{INT}", inT, "{IN}", in).Replace(c.body)
		id := len(p.probes)
		src := fmt.Sprintf("// %s on %s\nfunc p%d() (r string) {\n\tdefer func() {\n\t\tif x := recover(); x != nil {\n\t\t\tr = \"PANIC \" + classify(x)\n\t\t}\n\t}()\n\treturn func() string { %s }()\n}\n\n", c.name, sh.name, id, body)
		p.probes = append(p.probes, probe{id: id, ctx: c.name, shape: sh.name, depth: sh.depth, src: src})
		sb.WriteString(src)
	}
	sb.WriteString("func main() {\n")
	for _, pr := range p.probes {
		fmt.Fprintf(&sb, "\tout(\"p%d %s %s = \" + p%d())\n", pr.id, pr.ctx, pr.shape, pr.id)
	}
	sb.WriteString("}\n")
	p.src = sb.String()
	return p
}

func TestCheck(t *testing.T) {
	ev = drv.NewEvidence("C07", "exploration", rule)
	nProg, nShapes, nProbes := 12, 4, 200
	if drv.Thorough() {
		nProg, nShapes, nProbes = 100, 5, 300
	}
	progs := make([]program, nProg)
	for i := range progs {
		progs[i] = rapid.Custom(func(rt *rapid.T) program { return genProgram(rt, nShapes, nProbes) }).Example(drv.Seed()*173 + i)
	}
	drv.Parallel(nProg, func(i int) {
		p := progs[i]
		for _, mini := range []bool{false} {
			c := drv.NewCase("c07_", map[string]string{"main.go": p.src}, true)
			res := drv.RunBoth(c, drv.BuildOpts{Minify: mini}, [][]string{{}}, drv.NodeOpts{}, true)
			if res.NatErr != nil {
				drv.Infra("generated program does not build natively (generator bug): %v", res.NatErr)
			}
			if res.JSBuildErr != nil {
				ev.Violation("GopherJS build failed: "+res.JSBuildErr.Error(), c.ReproFiles())
				c.Remove()
				return
			}
			js, nat := res.JS[0], res.Native[0]
			if nat.End != "exit0" {
				drv.Infra("native run ended %s %s", nat.End, nat.Msg)
			}
			for _, pr := range p.probes {
				ev.Case(pr.src, pr.depth >= 2)
				ev.Count("ctx:"+pr.ctx, 1)
			}
			if i == 0 && len(nat.Trace) > 3 {
				ev.Sample(map[string]any{"probe": strings.Split(p.probes[0].src, "\n"), "native": nat.Trace[0]})
				ev.Sample(nat.Trace[len(nat.Trace)/2])
			}
			if js.End != "exit0" {
				ev.Violation(fmt.Sprintf("GopherJS run ended %s %q after %d of %d probes\n%s", js.End, js.Msg, len(js.Trace), len(nat.Trace), js.Stderr), c.ReproFiles())
			}
			reported := map[string]bool{}
			for k, ln := range nat.Trace {
				lj := "<missing>"
				if k < len(js.Trace) {
					lj = js.Trace[k]
				}
				if lj == ln {
					continue
				}
				f := strings.Fields(ln)
				ctx := f[1]
				if fd := drv.MatchRow("C07", ctx); fd != nil {
					ev.Known(fd)
					ev.Count("known:"+fd.ID, 1)
					continue
				}
				if reported[ctx] || len(reported) >= 6 {
					continue
				}
				reported[ctx] = true
				files := c.ReproFiles()
				if k < len(p.probes) {
					files["probe.go"] = p.probes[k].src
				}
				ev.Violation(fmt.Sprintf("context %s on shape %s:\n  gopherjs %s\n  native   %s", ctx, f[2], lj, ln), files)
			}
			c.Remove()
		}
	})
}

// directLeaf returns the path (".F2") of an int or string field directly inside a struct shape.
func directLeaf(sh *shape) string {
	if sh.isArray {
		return ""
	}
	for _, l := range sh.leafPaths {
		if strings.Count(l.path, ".") == 1 && !strings.ContainsAny(l.path, "[") && strings.HasPrefix(l.path, ".F") && (l.kind == "int" || l.kind == "string") {
			return l.path
		}
	}
	return ""
}
