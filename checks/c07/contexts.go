package c07

// helpers emitted once per shape ({T} = type name)
const perShapeHelpers = `
func id_{T}(x {T}) {T} { return x }

func argmut_{T}(x {T}, k int) string { mut_{T}(&x, k); return dump_{T}(x) }

func retderef_{T}(p *{T}) {T} { return *p }

func named_{T}(p *{T}) (r {T}) {
	r = *p
	return
}

func vari_{T}(xs ...{T}) []{T} { return xs }

type W_{T} struct {
	n int
	f {T}
}

type E_{T} struct {
	{T}
	z int
}

type EP_{T} struct {
	*{T}
	z int
}

type I_{T} interface {
	get() string
	setv(int) string
}

type PI_{T} interface{ setp(int) }

var g_{T} = new_{T}(9)

func d_{T}(x {T}) string { return dump_{T}(x) }
`

type context struct {
	name  string
	alias bool   // true: both sides must observe the mutation
	needs string // "", "cmp" (comparable), "inner", "struct" (non-array), "array"
	body  string
}

// Every body is the body of `func() string`; {T} type, {K}/{K1} leaf indexes, {IN}/{INT} path and type of a nested composite.
var contexts = []context{
	{"assign-mutate-src", false, "", `a := new_{T}(1); b := a; mut_{T}(&a, {K}); return d_{T}(a) + "|" + d_{T}(b)`},
	{"assign-mutate-dst", false, "", `a := new_{T}(1); var b {T} = a; mut_{T}(&b, {K}); return d_{T}(a) + "|" + d_{T}(b)`},
	{"assign-existing", false, "", `a, b := new_{T}(1), new_{T}(2); b = a; mut_{T}(&a, {K}); c := b; mut_{T}(&b, {K1}); return d_{T}(a) + "|" + d_{T}(b) + "|" + d_{T}(c)`},
	{"arg-callee-mutates", false, "", `a := new_{T}(1); r := argmut_{T}(a, {K}); return r + "|" + d_{T}(a)`},
	{"arg-result", false, "", `a := new_{T}(1); b := id_{T}(a); mut_{T}(&a, {K}); return d_{T}(a) + "|" + d_{T}(b)`},
	{"result-deref", false, "", `a := new_{T}(1); b := retderef_{T}(&a); mut_{T}(&a, {K}); return d_{T}(a) + "|" + d_{T}(b)`},
	{"named-result", false, "", `a := new_{T}(1); b := named_{T}(&a); mut_{T}(&b, {K}); return d_{T}(a) + "|" + d_{T}(b)`},
	{"range-slice-value", false, "", `s := []{T}{new_{T}(1), new_{T}(2)}; res := ""; for i, v := range s { mut_{T}(&s[i], {K}); mut_{T}(&v, {K1}); res += d_{T}(v) + ";" }; return res + d_{T}(s[0]) + d_{T}(s[1])`},
	{"range-array-value", false, "", `arr := [2]{T}{new_{T}(1), new_{T}(2)}; res := ""; for i, v := range arr { mut_{T}(&arr[1], {K}); res += itoa(i) + d_{T}(v) + ";" }; return res + d_{T}(arr[1])`},
	{"range-array-pointer", true, "", `arr := [2]{T}{new_{T}(1), new_{T}(2)}; res := ""; for i, v := range &arr { mut_{T}(&arr[1], {K}); res += itoa(i) + d_{T}(v) + ";" }; return res + d_{T}(arr[1])`},
	{"range-array-index-only", false, "", `arr := [2]{T}{new_{T}(1), new_{T}(2)}; res := ""; for i := range arr { mut_{T}(&arr[i], {K}); res += itoa(i) }; return res + d_{T}(arr[0]) + d_{T}(arr[1])`},
	{"chan-buffered", false, "", `ch := make(chan {T}, 1); a := new_{T}(1); ch <- a; mut_{T}(&a, {K}); b := <-ch; mut_{T}(&b, {K1}); return d_{T}(a) + "|" + d_{T}(b)`},
	{"chan-unbuffered", false, "", `ch := make(chan {T}); a := new_{T}(1); go func() { ch <- a }(); b := <-ch; mut_{T}(&b, {K}); return d_{T}(a) + "|" + d_{T}(b)`},
	{"select-send", false, "", `ch := make(chan {T}, 1); a := new_{T}(1); select { case ch <- a: mut_{T}(&a, {K}) }; var b {T}; select { case b = <-ch: }; return d_{T}(a) + "|" + d_{T}(b)`},
	{"map-store-load", false, "", `m := map[string]{T}{}; a := new_{T}(1); m["k"] = a; mut_{T}(&a, {K}); b := m["k"]; mut_{T}(&b, {K1}); return d_{T}(a) + "|" + d_{T}(b) + "|" + d_{T}(m["k"])`},
	{"map-commaok-range", false, "", `m := map[string]{T}{"k": new_{T}(1)}; b, ok := m["k"]; mut_{T}(&b, {K}); res := btoa(ok); for _, v := range m { mut_{T}(&v, {K1}); res += d_{T}(v) }; return res + "|" + d_{T}(b) + "|" + d_{T}(m["k"])`},
	{"slice-elem", false, "", `s := make([]{T}, 1); a := new_{T}(1); s[0] = a; mut_{T}(&a, {K}); b := s[0]; mut_{T}(&b, {K1}); return d_{T}(a) + "|" + d_{T}(b) + "|" + d_{T}(s[0])`},
	{"struct-field", false, "", `var w W_{T}; a := new_{T}(1); w.f = a; mut_{T}(&a, {K}); b := w.f; mut_{T}(&b, {K1}); w2 := w; mut_{T}(&w.f, {K}); return d_{T}(a) + "|" + d_{T}(b) + "|" + d_{T}(w.f) + "|" + d_{T}(w2.f)`},
	{"composite-literals", false, "", `a := new_{T}(1); s := []{T}{a}; ar := [1]{T}{a}; m := map[int]{T}{1: a}; w := W_{T}{f: a}; p := &W_{T}{f: a}; mut_{T}(&a, {K}); return d_{T}(a) + "|" + d_{T}(s[0]) + d_{T}(ar[0]) + d_{T}(m[1]) + d_{T}(w.f) + d_{T}(p.f)`},
	{"append", false, "", `var s []{T}; a := new_{T}(1); s = append(s, a); mut_{T}(&a, {K}); s2 := append(s, a); mut_{T}(&s[0], {K1}); return d_{T}(a) + "|" + d_{T}(s[0]) + "|" + d_{T}(s2[0]) + d_{T}(s2[1])`},
	{"append-spread", false, "", `src := []{T}{new_{T}(1), new_{T}(2)}; dst := append([]{T}(nil), src...); mut_{T}(&src[1], {K}); return d_{T}(src[1]) + "|" + d_{T}(dst[1])`},
	{"copy-builtin", false, "", `dst := make([]{T}, 1); src := []{T}{new_{T}(1)}; n := copy(dst, src); mut_{T}(&src[0], {K}); return itoa(n) + d_{T}(src[0]) + "|" + d_{T}(dst[0])`},
	{"copy-overlap", true, "", `s := []{T}{new_{T}(1), new_{T}(2), new_{T}(3)}; copy(s[1:], s[:2]); r1 := d_{T}(s[0]) + d_{T}(s[1]) + d_{T}(s[2]); copy(s[:2], s[1:]); return r1 + "|" + d_{T}(s[0]) + d_{T}(s[1]) + d_{T}(s[2])`},
	{"variadic-pack", false, "", `a := new_{T}(1); xs := vari_{T}(a); mut_{T}(&a, {K}); return d_{T}(a) + "|" + d_{T}(xs[0])`},
	{"variadic-spread", true, "", `s := []{T}{new_{T}(1)}; xs := vari_{T}(s...); mut_{T}(&s[0], {K}); return d_{T}(s[0]) + "|" + d_{T}(xs[0])`},
	{"iface-box-var", false, "", `a := new_{T}(1); var i interface{} = a; mut_{T}(&a, {K}); b := i.({T}); mut_{T}(&b, {K1}); c := i.({T}); return d_{T}(a) + "|" + d_{T}(b) + "|" + d_{T}(c)`},
	{"iface-box-slice", false, "", `a := new_{T}(1); is := []interface{}{a}; is = append(is, a); mut_{T}(&a, {K}); return d_{T}(a) + "|" + d_{T}(is[0].({T})) + d_{T}(is[1].({T}))`},
	{"iface-typeswitch", false, "", `a := new_{T}(1); var i interface{} = a; res := ""; switch v := i.(type) { case {T}: mut_{T}(&v, {K}); res = d_{T}(v) }; mut_{T}(&a, {K1}); return res + "|" + d_{T}(i.({T})) + "|" + d_{T}(a)`},
	{"iface-copy-iface", false, "", `a := new_{T}(1); var i interface{} = a; j := i; b := j.({T}); mut_{T}(&b, {K}); return d_{T}(i.({T})) + "|" + d_{T}(j.({T})) + "|" + d_{T}(b) + btoa(false)`},
	{"iface-arg", false, "", `a := new_{T}(1); f := func(i interface{}) interface{} { return i }; r := f(a); mut_{T}(&a, {K}); return d_{T}(a) + "|" + d_{T}(r.({T}))`},
	{"method-value", false, "", `a := new_{T}(1); f := a.get; mut_{T}(&a, {K}); return f() + "|" + d_{T}(a)`},
	{"method-value-ptr", true, "", `a := new_{T}(1); g := a.setp; g({K}); return d_{T}(a)`},
	{"method-expr", false, "", `a := new_{T}(1); f := {T}.setv; r := f(a, {K}); h := (*{T}).setp; h(&a, {K1}); return r + "|" + d_{T}(a)`},
	{"value-receiver", false, "", `a := new_{T}(1); r := a.setv({K}); pa := &a; r2 := pa.setv({K1}); return r + "|" + r2 + "|" + d_{T}(a)`},
	{"value-receiver-iface", false, "", `a := new_{T}(1); var i I_{T} = a; r := i.setv({K}); mut_{T}(&a, {K1}); return r + "|" + i.get() + "|" + d_{T}(a)`},
	{"value-receiver-iface-holds-pointer", false, "", `a := new_{T}(1); var i I_{T} = &a; r := i.setv({K}); r2 := i.setv({K1}); return r + "|" + r2 + "|" + i.get() + "|" + d_{T}(a)`},
	{"value-receiver-iface-holds-pointer-mval", false, "", `a := new_{T}(1); var i I_{T} = &a; f := i.setv; mut_{T}(&a, {K1}); r := f({K}); return r + "|" + d_{T}(a)`},
	{"value-receiver-iface-mexpr", false, "", `a := new_{T}(1); f := I_{T}.setv; r := f(&a, {K}); r2 := f(a, {K1}); return r + "|" + r2 + "|" + d_{T}(a)`},
	{"ptr-receiver-iface", true, "", `a := new_{T}(1); var i PI_{T} = &a; i.setp({K}); return d_{T}(a)`},
	{"embedded-receivers", false, "struct", `e := E_{T}{{T}: new_{T}(1)}; r := e.setv({K}); before := d_{T}(e.{T}); e.setp({K1}); e2 := e; e2.setp({K}); return r + "|" + before + "|" + d_{T}(e.{T}) + "|" + d_{T}(e2.{T}) + "|" + e.get()`},
	{"closure-after-copy", false, "", `a := new_{T}(1); b := a; f := func() string { return d_{T}(b) }; mut_{T}(&a, {K}); return f() + "|" + d_{T}(a)`},
	{"closure-captures-var", true, "", `a := new_{T}(1); f := func() string { return d_{T}(a) }; g := func() { mut_{T}(&a, {K1}) }; mut_{T}(&a, {K}); g(); return f()`},
	{"deref-store", false, "", `p := new({T}); a := new_{T}(1); *p = a; mut_{T}(&a, {K}); b := *p; mut_{T}(p, {K1}); return d_{T}(a) + "|" + d_{T}(b) + "|" + d_{T}(*p)`},
	{"defer-arg", false, "", `a := new_{T}(1); res := ""; func() { defer func(x {T}) { res = d_{T}(x) }(a); mut_{T}(&a, {K}) }(); return res + "|" + d_{T}(a)`},
	{"go-arg", false, "", `a := new_{T}(1); done := make(chan string); go func(x {T}) { done <- d_{T}(x) }(a); mut_{T}(&a, {K}); return <-done + "|" + d_{T}(a)`},
	{"swap", false, "", `a, b := new_{T}(1), new_{T}(2); a, b = b, a; mut_{T}(&a, {K}); return d_{T}(a) + "|" + d_{T}(b)`},
	{"swap-elems", false, "", `s := []{T}{new_{T}(1), new_{T}(2)}; s[0], s[1] = s[1], s[0]; mut_{T}(&s[0], {K}); return d_{T}(s[0]) + "|" + d_{T}(s[1])`},
	{"compare", false, "cmp", `a := new_{T}(1); b := a; r1 := a == b; mut_{T}(&b, {K}); r2 := a == b; c := new_{T}(1); var i, j interface{} = a, c; return btoa(r1) + btoa(r2) + btoa(a == c) + btoa(i == j) + btoa(a != b)`},
	{"package-var", false, "", `g_{T} = new_{T}(3); b := g_{T}; mut_{T}(&g_{T}, {K}); c := g_{T}; mut_{T}(&c, {K1}); return d_{T}(b) + "|" + d_{T}(g_{T}) + "|" + d_{T}(c)`},
	{"package-var-pointer", true, "", `g_{T} = new_{T}(3); p := &g_{T}; mut_{T}(p, {K}); q := &g_{T}; return d_{T}(g_{T}) + btoa(p == q)`},
	{"embedded-pointer-promoted-address", true, "innerstruct", `a, b := new_{T}(1), new_{T}(2); e := EP_{T}{{T}: &a}; pin := &e{IN}; e.{T} = &b; mut_{INT}(pin, 0); return d_{T}(a) + "|" + d_{T}(b) + btoa(pin == &a{IN}) + btoa(pin == &e{IN})`},
	{"embedded-pointer-leaf-address", true, "leaffield", `a, b := new_{T}(1), new_{T}(2); e := EP_{T}{{T}: &a}; pl := &e{LF}; e.{T} = &b; *pl = {LFV}; same := pl == &a{LF}; pl2 := &e{LF}; return d_{T}(a) + "|" + d_{T}(b) + btoa(same) + btoa(pl2 == &b{LF}) + btoa(pl == pl2)`},
	{"embedded-pointer-leaf-address-var", true, "leaffield", `a, b := new_{T}(1), new_{T}(2); pe := &EP_{T}{{T}: &a}; pl := &pe{LF}; pe.{T} = &b; *pl = {LFV}; return d_{T}(a) + "|" + d_{T}(b)`},
	{"embedded-pointer-method-value", true, "struct", `a, b := new_{T}(1), new_{T}(2); e := EP_{T}{{T}: &a}; f := e.setp; g := e.setv; e.{T} = &b; f({K}); r := g({K1}); return r + "|" + d_{T}(a) + "|" + d_{T}(b)`},
	{"embedded-pointer-copy", false, "struct", `a := new_{T}(1); e := EP_{T}{{T}: &a}; e2 := e; c := *e2.{T}; mut_{T}(e.{T}, {K}); return d_{T}(a) + "|" + d_{T}(*e2.{T}) + "|" + d_{T}(c)`},
	{"composite-positional", false, "", `a := new_{T}(1); w := W_{T}{3, a}; pw := &W_{T}{4, a}; mut_{T}(&a, {K}); mut_{T}(&w.f, {K1}); return d_{T}(a) + "|" + d_{T}(w.f) + "|" + d_{T}(pw.f)`},
	{"composite-positional-embedded", false, "struct", `a := new_{T}(1); e := E_{T}{a, 5}; arr := [2]{T}{a, a}; mut_{T}(&a, {K}); mut_{T}(&arr[1], {K1}); return d_{T}(a) + "|" + d_{T}(e.{T}) + "|" + d_{T}(arr[0]) + d_{T}(arr[1])`},
	{"elem-pointer-of-subslice", true, "", `base := []int{10, 20, 30, 40, 50}; sub := base[2:]; p := &sub[1]; *p = 41; q := &base[1:][1:][0]; *q += 5; names := []string{"a", "b", "c", "d"}; ps := &names[1:3][1]; *ps = "C"; type num int8; ns := []num{1, 2, 3, 4}; pn := &ns[2:][1]; *pn = 44; return itoa(base[0]) + "," + itoa(base[1]) + "," + itoa(base[2]) + "," + itoa(base[3]) + "," + itoa(base[4]) + " " + names[0] + names[1] + names[2] + names[3] + " " + itoa(int(ns[3])) + btoa(p == &base[3]) + btoa(pn == &ns[3]) + d_{T}(new_{T}(1))`},
	{"inner-copy", false, "inner", `a := new_{T}(1); in := a{IN}; mut_{T}(&a, {K}); a2 := a; a2{IN} = in; return d_{INT}(in) + "|" + d_{T}(a) + "|" + d_{T}(a2)`},
	{"inner-pointer", true, "inner", `a := new_{T}(1); pin := &a{IN}; b := a; mut_{T}(&a, {K}); mut_{INT}(pin, 0); return d_{INT}(*pin) + "|" + d_{T}(a) + "|" + d_{T}(b) + btoa(pin == &a{IN})`},
	{"pointer-alias", true, "", `a := new_{T}(1); p := &a; q := p; mut_{T}(p, {K}); mut_{T}(q, {K1}); return d_{T}(a) + btoa(p == q) + btoa(p == &a)`},
	{"pointer-to-elem", true, "", `s := []{T}{new_{T}(1), new_{T}(2)}; p := &s[1]; mut_{T}(p, {K}); r := d_{T}(s[1]); s = append(s, new_{T}(3)); mut_{T}(p, {K1}); return r + "|" + d_{T}(s[1]) + "|" + d_{T}(*p) + btoa(&s[0] == &s[0])`},
	{"subslice-shares", true, "", `s := make([]{T}, 3, 4); s[1] = new_{T}(1); t := s[1:3]; mut_{T}(&t[0], {K}); r := d_{T}(s[1]); u := append(t, new_{T}(5)); mut_{T}(&u[0], {K1}); return r + "|" + d_{T}(s[1]) + itoa(len(u)) + itoa(cap(t))`},
	{"subslice-3index", false, "", `s := make([]{T}, 3, 4); s[1] = new_{T}(1); t := s[1:2:2]; u := append(t, new_{T}(5)); mut_{T}(&u[0], {K}); return d_{T}(s[1]) + "|" + d_{T}(u[0]) + itoa(cap(t))`},
	{"array-slice-of", true, "", `arr := [2]{T}{new_{T}(1), new_{T}(2)}; sl := arr[:]; mut_{T}(&sl[0], {K}); pa := &arr; pa[1] = new_{T}(7); cp := *pa; mut_{T}(&cp[0], {K1}); return d_{T}(arr[0]) + d_{T}(arr[1]) + "|" + d_{T}(cp[0])`},
	{"map-of-pointers", true, "", `a := new_{T}(1); mp := map[string]*{T}{"k": &a}; m2 := mp; mut_{T}(m2["k"], {K}); return d_{T}(a) + btoa(mp["k"] == &a)`},
	{"map-alias", true, "", `m := map[string]{T}{"k": new_{T}(1)}; m2 := m; x := m2["k"]; mut_{T}(&x, {K}); m2["k"] = x; return d_{T}(m["k"]) + itoa(len(m))`},
	{"chan-of-pointers", true, "", `a := new_{T}(1); ch := make(chan *{T}, 1); ch <- &a; p := <-ch; mut_{T}(p, {K}); return d_{T}(a) + btoa(p == &a)`},
	{"struct-ptr-assign", false, "", `p1, p2 := &W_{T}{f: new_{T}(1)}, &W_{T}{f: new_{T}(2)}; *p2 = *p1; mut_{T}(&p1.f, {K}); return d_{T}(p1.f) + "|" + d_{T}(p2.f)`},
	{"array-of-arrays", false, "", `var m [2][2]{T}; m[0][1] = new_{T}(1); row := m[0]; mut_{T}(&m[0][1], {K}); m2 := m; mut_{T}(&m2[0][1], {K1}); return d_{T}(row[1]) + "|" + d_{T}(m[0][1]) + "|" + d_{T}(m2[0][1])`},
	{"return-struct-with-field", false, "", `w := W_{T}{f: new_{T}(1)}; f := func() W_{T} { return w }; x := f(); mut_{T}(&x.f, {K}); y := f().f; return d_{T}(w.f) + "|" + d_{T}(x.f) + "|" + d_{T}(y)`},
}
