package c07

import (
	"fmt"
	"strings"

	"pgregory.net/rapid"
)

// shape is a generated struct/array type with constructor, deep dump and mutation paths.
type shape struct {
	name       string
	comparable bool
	leafPaths  []leaf  // value leaves reachable without crossing a pointer, slice or map
	inner      []inner // nested struct/array sub-values (path + type)
	depth      int
	isArray    bool
	arrayLen   int
	elem       string // element type for arrays
	fields     []field
}

type leaf struct {
	path string // e.g. ".F0.F1[1]"
	kind string // int | string
}

type inner struct {
	path string
	typ  string
}

type field struct {
	name     string
	typ      string // Go type expression
	embedded bool
}

type shapeGen struct {
	rt     *rapid.T
	n      int
	decls  strings.Builder
	shapes map[string]*shape
	order  []*shape
}

func newShapeGen(rt *rapid.T) *shapeGen {
	return &shapeGen{rt: rt, shapes: map[string]*shape{}}
}

// basic leaf types: (type expr, new expr using seed variable s and offset k, dump expr for x, comparable)
type leafKind struct {
	typ, mk, dump string
	cmp           bool
	valueLeaf     string // "int"/"string" if a plain value leaf
}

var leafKinds = []leafKind{
	{"int", "s*100 + %d", "itoa(%s)", true, "int"},
	{"string", `"s" + itoa(s*100+%d)`, "%s", true, "string"},
	{"int64", "int64(s)*1000000007 + %d", "i64toa(%s)", true, ""},
	{"*int", "ptrTo(s*100 + %d)", `"*" + itoa(*%s)`, true, ""},
	{"[]int", "[]int{s, %d, 7}", "dumpInts(%s)", false, ""},
	{"map[string]int", `map[string]int{"k": s*100 + %d}`, `"map:" + itoa(%s["k"]) + "/" + itoa(len(%s))`, false, ""},
	{"bool", "(s+%d)%%2 == 0", "btoa(%s)", true, ""},
	{"float64", "float64(s) + %d.5", "f64s(%s)", true, ""},
}

// gen creates a composite type of nesting depth <= depth and returns its name.
func (g *shapeGen) gen(depth int) *shape {
	g.n++
	name := fmt.Sprintf("T%d", g.n)
	sh := &shape{name: name, comparable: true, depth: depth}
	// children first (they get smaller numbers... order of declaration is irrelevant in Go)
	if rapid.IntRange(0, 3).Draw(g.rt, "isarray") == 0 {
		sh.isArray = true
		sh.arrayLen = rapid.IntRange(1, 3).Draw(g.rt, "alen")
		et, eShape, lk := g.member(depth - 1)
		sh.elem = et
		for i := 0; i < sh.arrayLen; i++ {
			p := fmt.Sprintf("[%d]", i)
			g.addMember(sh, p, et, eShape, lk)
		}
		fmt.Fprintf(&g.decls, "type %s [%d]%s\n\n", name, sh.arrayLen, et)
		g.emitArrayFuncs(sh, eShape, lk)
	} else {
		nf := rapid.IntRange(1, 4).Draw(g.rt, "nfields")
		var fdecl []string
		type mem struct {
			es *shape
			lk *leafKind
		}
		var mems []mem
		for i := 0; i < nf; i++ {
			ft, fShape, lk := g.member(depth - 1)
			f := field{name: fmt.Sprintf("F%d", i), typ: ft}
			if fShape != nil && !fShape.isArray && i == 0 && rapid.IntRange(0, 2).Draw(g.rt, "embed") == 0 {
				f.embedded = true
				f.name = fShape.name
			}
			sh.fields = append(sh.fields, f)
			mems = append(mems, mem{fShape, lk})
			if f.embedded {
				fdecl = append(fdecl, "\t"+ft)
			} else {
				fdecl = append(fdecl, "\t"+f.name+" "+ft)
			}
			g.addMember(sh, "."+f.name, ft, fShape, lk)
		}
		fmt.Fprintf(&g.decls, "type %s struct {\n%s\n}\n\n", name, strings.Join(fdecl, "\n"))
		// constructor
		var mk, dump []string
		for i, f := range sh.fields {
			m := mems[i]
			if m.es != nil {
				mk = append(mk, fmt.Sprintf("%s: new_%s(s*3 + %d)", f.name, m.es.name, i+1))
				dump = append(dump, fmt.Sprintf("dump_%s(x.%s)", m.es.name, f.name))
			} else {
				mk = append(mk, f.name+": "+fmt.Sprintf(m.lk.mk, i))
				dump = append(dump, strings.ReplaceAll(m.lk.dump, "%s", "x."+f.name))
			}
		}
		fmt.Fprintf(&g.decls, "func new_%s(s int) %s {\n\treturn %s{%s}\n}\n\n", name, name, name, strings.Join(mk, ", "))
		fmt.Fprintf(&g.decls, "func dump_%s(x %s) string {\n\treturn \"{\" + %s + \"}\"\n}\n\n", name, name, strings.Join(dump, " + \",\" + "))
		// value-receiver and pointer-receiver methods used by the method contexts
		fmt.Fprintf(&g.decls, "func (x %s) get() string { return dump_%s(x) }\n\nfunc (x %s) setv(k int) string { mut_%s(&x, k); return dump_%s(x) }\n\nfunc (x *%s) setp(k int) { mut_%s(x, k) }\n\n", name, name, name, name, name, name, name)
	}
	g.emitMut(sh)
	g.shapes[name] = sh
	g.order = append(g.order, sh)
	return sh
}

func (g *shapeGen) emitArrayFuncs(sh *shape, es *shape, lk *leafKind) {
	var mk, dump []string
	for i := 0; i < sh.arrayLen; i++ {
		if es != nil {
			mk = append(mk, fmt.Sprintf("new_%s(s*3 + %d)", es.name, i+1))
			dump = append(dump, fmt.Sprintf("dump_%s(x[%d])", es.name, i))
		} else {
			mk = append(mk, fmt.Sprintf(lk.mk, i))
			dump = append(dump, strings.ReplaceAll(lk.dump, "%s", fmt.Sprintf("x[%d]", i)))
		}
	}
	fmt.Fprintf(&g.decls, "func new_%s(s int) %s {\n\treturn %s{%s}\n}\n\n", sh.name, sh.name, sh.name, strings.Join(mk, ", "))
	fmt.Fprintf(&g.decls, "func dump_%s(x %s) string {\n\treturn \"[\" + %s + \"]\"\n}\n\n", sh.name, sh.name, strings.Join(dump, " + \",\" + "))
	fmt.Fprintf(&g.decls, "func (x %s) get() string { return dump_%s(x) }\n\nfunc (x %s) setv(k int) string { mut_%s(&x, k); return dump_%s(x) }\n\nfunc (x *%s) setp(k int) { mut_%s(x, k) }\n\n", sh.name, sh.name, sh.name, sh.name, sh.name, sh.name, sh.name)
}

// member picks a field/element type: a nested shape or a leaf.
func (g *shapeGen) member(depth int) (typ string, sh *shape, lk *leafKind) {
	if depth > 0 && rapid.IntRange(0, 2).Draw(g.rt, "nested") > 0 {
		s := g.gen(depth)
		return s.name, s, nil
	}
	k := &leafKinds[rapid.IntRange(0, len(leafKinds)-1).Draw(g.rt, "leaf")]
	return k.typ, nil, k
}

func (g *shapeGen) addMember(sh *shape, path, typ string, es *shape, lk *leafKind) {
	if es != nil {
		sh.comparable = sh.comparable && es.comparable
		sh.inner = append(sh.inner, inner{path, es.name})
		for _, l := range es.leafPaths {
			sh.leafPaths = append(sh.leafPaths, leaf{path + l.path, l.kind})
		}
		for _, in := range es.inner {
			sh.inner = append(sh.inner, inner{path + in.path, in.typ})
		}
		return
	}
	sh.comparable = sh.comparable && lk.cmp
	if lk.valueLeaf != "" {
		sh.leafPaths = append(sh.leafPaths, leaf{path, lk.valueLeaf})
	}
}

// emitMut: mut_T(p *T, k int) changes the k-th value leaf (k modulo the number of leaves).
func (g *shapeGen) emitMut(sh *shape) {
	var sb strings.Builder
	fmt.Fprintf(&sb, "func mut_%s(p *%s, k int) {\n", sh.name, sh.name)
	if len(sh.leafPaths) == 0 {
		sb.WriteString("\t_ = k\n}\n\n")
		g.decls.WriteString(sb.String())
		return
	}
	fmt.Fprintf(&sb, "\tswitch k %% %d {\n", len(sh.leafPaths))
	for i, l := range sh.leafPaths {
		target := "p" + l.path
		if strings.HasPrefix(l.path, "[") {
			target = "(*p)" + l.path
		}
		if l.kind == "int" {
			fmt.Fprintf(&sb, "\tcase %d:\n\t\t%s = -(%s + 1)\n", i, target, target)
		} else {
			fmt.Fprintf(&sb, "\tcase %d:\n\t\t%s += \"!\"\n", i, target)
		}
	}
	sb.WriteString("\t}\n}\n\n")
	g.decls.WriteString(sb.String())
}
