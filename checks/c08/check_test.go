package c08

import (
	"fmt"
	"sort"
	"strings"
	"testing"

	"pgregory.net/rapid"

	"verif/internal/drv"
)

var ev *drv.Evidence

func TestMain(m *testing.M) { drv.TestMain(m, func() *drv.Evidence { return ev }) }

const rule = "(1) rapid-instantiated operation probes: every panicking operation of the property (index and slice bounds on slices/arrays/strings/array pointers with indexes of several integer types and magnitudes, nil map store, nil pointer field/method/deref, nil func, integer division by zero for every integer type, failed assertions, comparing uncomparable interface values, unhashable keys, make with negative/huge sizes, short slice-to-array conversions, close of nil/closed channel, send on closed channel, explicit panics of several value kinds) inside a function that logs 'pre', operand evaluation order, 'post' and the class of the recovered value (runtime.Error or not, keyword class); (2) rapid-generated call trees with deferred calls (arguments captured at the defer statement), recover directly / one call deeper / in a deferred method value, named results modified by defers, re-panic, panics inside deferred functions, recovered inner panics, Goexit, goroutines, wrapper frames, run as separate processes so that the end kind (exit, uncaught panic with message, deadlock) is observed. Oracle: native run. Non-trivial: a probe that panics, or a tree in which a panic is raised and at least one deferred call runs while panicking (detected from the trace); distinct by source text."

func TestCheck(t *testing.T) {
	ev = drv.NewEvidence("C08", "exploration", rule)
	nOpsProg, nOps, nTreeProg, nTrees := 4, 400, 3, 60
	if drv.Thorough() {
		nOpsProg, nOps, nTreeProg, nTrees = 20, 800, 20, 120
	}
	type job func()
	var jobs []job
	for i := 0; i < nOpsProg; i++ {
		i := i
		jobs = append(jobs, func() { runOps(i, nOps) })
	}
	for i := 0; i < nTreeProg; i++ {
		i := i
		jobs = append(jobs, func() { runTrees(i, nTrees) })
	}
	drv.Parallel(len(jobs), func(i int) { jobs[i]() })
}

func runOps(idx, n int) {
	probes := rapid.Custom(func(rt *rapid.T) []opProbe {
		if idx == 0 {
			return sweepOps(rt)
		}
		return genOps(rt, n)
	}).Example(drv.Seed()*97 + idx)
	src := opsSource(probes)
	c := drv.NewCase("c08o_", map[string]string{"main.go": src}, true)
	defer c.Remove()
	res := drv.RunBoth(c, drv.BuildOpts{}, [][]string{{}}, drv.NodeOpts{}, true)
	if res.NatErr != nil {
		drv.Infra("ops program does not build natively (generator bug): %v", res.NatErr)
	}
	if res.JSBuildErr != nil {
		ev.Violation("GopherJS build failed: "+res.JSBuildErr.Error(), c.ReproFiles())
		return
	}
	js, nat := res.JS[0], res.Native[0]
	if nat.End != "exit0" {
		drv.Infra("native ops run ended %s %s\n%s", nat.End, nat.Msg, nat.Stderr)
	}
	for i, p := range probes {
		nt := i < len(nat.Trace) && !strings.HasSuffix(nat.Trace[i], "|nil")
		ev.Case("op:"+p.label+"|"+p.decl, nt)
		ev.Count("op:"+strings.SplitN(p.label, " ", 2)[0], 1)
	}
	if idx == 0 && len(nat.Trace) > 2 {
		ev.Sample(map[string]string{"probe": probes[0].label, "native": nat.Trace[0]})
		ev.Sample(map[string]string{"probe": probes[1].label, "native": nat.Trace[1]})
	}
	if js.End != "exit0" {
		ev.Violation(fmt.Sprintf("GopherJS ops run ended %s %q after %d probes (probe %q)\n%s", js.End, js.Msg, len(js.Trace), label(probes, len(js.Trace)), js.Stderr), c.ReproFiles())
	}
	reported := map[string]bool{}
	for k, ln := range nat.Trace {
		lj := "<missing>"
		if k < len(js.Trace) {
			lj = js.Trace[k]
		}
		if k < len(probes) && unhashableOnly(probes[k]) {
			// hashing an unhashable key is only required to panic
			if (strings.HasSuffix(lj, "|nil")) == (strings.HasSuffix(ln, "|nil")) && strings.Contains(lj, "pre;") {
				continue
			}
		}
		if lj == ln {
			continue
		}
		lab := label(probes, k)
		if f := drv.MatchRow("C08", lab); f != nil {
			ev.Known(f)
			ev.Count("known:"+f.ID, 1)
			continue
		}
		kind := strings.SplitN(lab, " ", 2)[0]
		if reported[lab] || len(reported) >= 8 {
			continue
		}
		reported[lab] = true
		_ = kind
		files := map[string]string{"main.go": src, "probe.txt": lab + "\n" + probes[k].decl + "\n" + probes[k].op + "\n"}
		ev.Violation(fmt.Sprintf("operation probe %q:\n  gopherjs %s\n  native   %s", lab, lj, ln), files)
	}
}

func unhashableOnly(p opProbe) bool {
	return strings.HasPrefix(p.label, "uncomparable") && (strings.Contains(p.op, "h[") || strings.Contains(p.op, "delete(h"))
}

func label(ps []opProbe, k int) string {
	if k < len(ps) {
		return ps[k].label
	}
	return "?"
}

func runTrees(idx, n int) {
	type tree struct {
		src, entry string
		feats      map[string]bool
	}
	trees := rapid.Custom(func(rt *rapid.T) []tree {
		var out []tree
		for i := 0; i < n; i++ {
			s, e, f := genTree(rt, fmt.Sprintf("s%d_", i))
			out = append(out, tree{s, e, f})
		}
		return out
	}).Example(drv.Seed()*389 + idx)
	var sb strings.Builder
	sb.WriteString(treePrelude)
	for _, t := range trees {
		sb.WriteString(t.src)
	}
	sb.WriteString("func main() {\n\tswitch argv(0) {\n")
	for i, t := range trees {
		fmt.Fprintf(&sb, "\tcase \"%d\":\n\t\t%s()\n", i, t.entry)
	}
	sb.WriteString("\t}\n}\n")
	src := sb.String()
	c := drv.NewCase("c08t_", map[string]string{"main.go": src}, true)
	defer c.Remove()
	var argvs [][]string
	for i := range trees {
		argvs = append(argvs, []string{fmt.Sprint(i)})
	}
	res := drv.RunBoth(c, drv.BuildOpts{}, argvs, drv.NodeOpts{}, true)
	if res.NatErr != nil {
		drv.Infra("tree program does not build natively (generator bug): %v", res.NatErr)
	}
	if res.JSBuildErr != nil {
		ev.Violation("GopherJS build failed: "+res.JSBuildErr.Error(), c.ReproFiles())
		return
	}
	reported := 0
	for i, t := range trees {
		js, nat := res.JS[i], res.Native[i]
		if nat.End == "timeout" || nat.End == "crash" {
			drv.Infra("native tree run %d ended %s\n%s", i, nat.End, nat.Stderr)
		}
		whilePanicking := false
		tr := strings.Join(nat.Trace, "\n")
		if (strings.Contains(tr, "recover rt:") || strings.Contains(tr, "recover string:") || strings.Contains(tr, "recover error:") || nat.End == "panic") && strings.Contains(t.src, "defer") {
			whilePanicking = true
		}
		ev.Case("tree:"+t.src, whilePanicking)
		var fs []string
		for f := range t.feats {
			fs = append(fs, f)
		}
		sort.Strings(fs)
		for _, f := range fs {
			ev.Count("tree-feature:"+strings.TrimSpace(f), 1)
		}
		ev.Count("tree-end:"+nat.End, 1)
		same := js.End == nat.End && strings.Join(js.Trace, "\n") == tr
		if same && nat.End == "panic" && drv.NormPanicMsg(js.Msg) != drv.NormPanicMsg(nat.Msg) {
			same = false
		}
		if same {
			continue
		}
		if reported < 4 {
			files := map[string]string{"tree.go": t.src, "main.go": src, "scenario.txt": fmt.Sprint(i), "gopherjs.txt": js.String() + "\n" + js.Stderr, "native.txt": nat.String()}
			ev.Violation(fmt.Sprintf("defer/recover tree %d: %s (ends gopherjs %s %q, native %s %q)", i, drv.FirstDiff(js, nat), js.End, drv.NormPanicMsg(js.Msg), nat.End, drv.NormPanicMsg(nat.Msg)), files)
		}
		reported++
	}
	if idx == 0 {
		ev.Sample(map[string]any{"tree": strings.Split(trees[0].src, "\n"), "native_trace": res.Native[0].Trace, "native_end": res.Native[0].End})
	}
}
