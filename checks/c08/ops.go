package c08

import (
	"fmt"
	"strings"

	"pgregory.net/rapid"
)

// opProbe is one panicking-operation probe: a function body fragment plus a label.
type opProbe struct {
	label string
	decl  string // local declarations
	op    string // the statement under test (may use lg(n, v) logging operands)
}

const opsPrelude = `package main

type T struct {
	a int
	m map[string]int
	s []int
	p *T
}

func (t T) val() int   { return t.a }
func (t *T) ptr() int  { return t.a }
func (t *T) nop() int  { return 7 }

type I interface{ M() int }
type J interface{ N() }
type impl struct{ x int }

func (i impl) M() int { return i.x }

type myErr struct{ c int }

func (e myErr) Error() string { return "myErr" + itoa(e.c) }

var trace string

// lg logs the evaluation of an operand and returns it.
func lg(n int, v int) int { trace += "<" + itoa(n) + ">"; return v }
func lgs(n int, v []int) []int { trace += "<" + itoa(n) + ">"; return v }
func lgm(n int, v map[string]int) map[string]int { trace += "<" + itoa(n) + ">"; return v }

var sink int
var sinkS string
var sinkB bool
var sinkAny interface{}

func use(v int) { sink += v }
`

func ints(vs ...int64) []string {
	var out []string
	for _, v := range vs {
		out = append(out, fmt.Sprint(v))
	}
	return out
}

// genOps draws n probes.
func genOps(rt *rapid.T, n int) []opProbe {
	var out []opProbe
	pick := func(label string, xs []string) string { return rapid.SampledFrom(xs).Draw(rt, label) }
	for len(out) < n {
		out = append(out, genOp(rt, rapid.IntRange(0, 27).Draw(rt, "opkind"), pick)...)
	}
	return out
}

// sweepOps visits every kind with a pick that cycles through each variant list, so that every
// listed variant occurs at least once per run (the other draws stay random).
func sweepOps(rt *rapid.T) []opProbe {
	var out []opProbe
	for k := 0; k <= 27; k++ {
		pos := map[string]int{}
		pick := func(label string, xs []string) string {
			// pass after pass through the list, every pass rotated by a label-specific shift so
			// that lists of equal length do not stay in lockstep
			h := 0
			for _, c := range label {
				h = h*31 + int(c)
			}
			p := pos[label]
			x := xs[(p+(p/len(xs))*(1+h%5))%len(xs)]
			pos[label]++
			return x
		}
		for it := 0; it < 48; it++ {
			out = append(out, genOp(rt, k, pick)...)
		}
	}
	return out
}

// genOp draws the probes of one kind.
func genOp(rt *rapid.T, k int, pick func(label string, xs []string) string) []opProbe {
	var out []opProbe
	idx32 := []string{"-1", "0", "1", "2", "3", "4", "5", "2147483647", "-2147483648"}
	idxTypes := []string{"int", "int8", "int64", "uint", "uint64", "uint8"}
	{
		switch k {
		case 0, 1: // index of slice / array / string / pointer to array with a variable index
			cont := pick("cont", []string{"sl", "arr", "str", "parr", "nilsl", "sub"})
			it := pick("ityp", idxTypes)
			iv := pick("ival", idx32)
			if strings.HasPrefix(it, "u") && strings.HasPrefix(iv, "-") {
				iv = "200"
			}
			if it == "int8" || it == "uint8" {
				iv = pick("ival8", []string{"0", "2", "3", "4", "100"})
				if it == "int8" && rapid.Bool().Draw(rt, "neg8") {
					iv = "-1"
				}
			}
			if (it == "int64" || it == "uint64") && rapid.IntRange(0, 2).Draw(rt, "huge") == 0 {
				iv = pick("ihuge", []string{"4294967296", "4294967297", "1099511627776", "9223372036854775807"})
			}
			decl := "sl := []int{10, 20, 30}; arr := [3]int{10, 20, 30}; str := \"abc\"; parr := &arr; var nilsl []int; sub := sl[:2]; _, _, _, _, _, _ = sl, arr, str, parr, nilsl, sub; i := " + it + "(" + iv + ")"
			if rapid.Bool().Draw(rt, "write") && cont != "str" {
				out = append(out, opProbe{fmt.Sprintf("index-write %s[%s(%s)]", cont, it, iv), decl, cont + "[i] = 5"})
			} else {
				conv := "use(int(" + cont + "[i]))"
				out = append(out, opProbe{fmt.Sprintf("index-read %s[%s(%s)]", cont, it, iv), decl, conv})
			}
		case 2, 3: // slice expressions
			cont := pick("cont", []string{"sl", "arr", "str", "parr", "sub"})
			lo := pick("lo", []string{"-1", "0", "1", "2", "3", "4", "5"})
			hi := pick("hi", []string{"-1", "0", "1", "2", "3", "4", "5", "6"})
			decl := "sl := make([]int, 3, 5); arr := [3]int{1, 2, 3}; str := \"abc\"; parr := &arr; sub := sl[1:2]; _, _, _, _, _ = sl, arr, str, parr, sub; lo, hi, mx := " + lo + ", " + hi + ", " + pick("max", []string{"0", "2", "3", "5", "6"}) + "; _, _, _ = lo, hi, mx"
			switch rapid.IntRange(0, 3).Draw(rt, "form") {
			case 0:
				out = append(out, opProbe{fmt.Sprintf("slice %s[%s:%s]", cont, lo, hi), decl, "use(len(" + cont + "[lo:hi]))"})
			case 1:
				out = append(out, opProbe{fmt.Sprintf("slice %s[%s:]", cont, lo), decl, "use(len(" + cont + "[lo:]))"})
			case 2:
				out = append(out, opProbe{fmt.Sprintf("slice %s[:%s]", cont, hi), decl, "use(len(" + cont + "[:hi]))"})
			default:
				if cont == "str" {
					cont = "sl"
				}
				out = append(out, opProbe{fmt.Sprintf("slice3 %s[%s:%s:mx]", cont, lo, hi), decl, "use(cap(" + cont + "[lo:hi:mx]))"})
			}
		case 4: // nil map
			decl := "var m map[string]int; var t T; mm := map[string]map[string]int{}; _, _, _ = m, t, mm"
			op := pick("nilmap", []string{`m["k"] = lg(1, 1)`, `t.m["k"] = 1`, `mm["a"]["b"] = 1`, `m["k"]++`, `m["k"] += 2`, `use(m["k"])`, `delete(m, "k")`, `use(len(m))`, `for range m { use(1) }`})
			out = append(out, opProbe{"nil-map " + op, decl, op})
		case 5, 6: // nil pointers
			decl := "var p *T; var pp **T; q := &T{}; var pi *int; var parr *[3]int; _, _, _, _, _ = p, pp, q, pi, parr"
			op := pick("nilptr", []string{"use(p.a)", "p.a = lg(1, 3)", "use(p.val())", "use(p.ptr())", "use(p.nop())", "use(q.p.a)", "use(*pi)", "*pi = 4", "use((*pp).a)", "use(parr[1])", "parr[1] = 2", "use(len(parr[:]))", "use(len(parr))", "for i := range parr { use(i) }", "for _, v := range parr { use(v) }", "x := *p; use(x.a)", "f := p.val; use(f())", "g := p.ptr; use(g())", "use(len(q.s))", "use(len(p.s))"})
			out = append(out, opProbe{"nil-pointer " + op, decl, op})
		case 7: // nil func
			decl := "var f func(int) int; var t struct{ g func() }; _, _ = f, t"
			op := pick("nilfunc", []string{"use(f(lg(1, 2)))", "t.g()", "defer f(1)", "go t.g()"})
			if strings.HasPrefix(op, "go ") {
				return nil // a nil func in a go statement crashes the whole program in Go
			}
			out = append(out, opProbe{"nil-func " + op, decl, op})
		case 8, 9: // integer division
			ty := pick("divtype", []string{"int", "int8", "int16", "int32", "int64", "uint", "uint8", "uint16", "uint32", "uint64", "uintptr"})
			d := pick("divisor", []string{"0", "0", "1", "3"})
			op := pick("divop", []string{"use(int(a / b))", "use(int(a % b))", "a /= b; use(int(a))", "a %= b; use(int(a))", "use(int(" + ty + "(lg(1, 7)) / " + ty + "(lg(2, " + d + "))))"})
			// the dividend matters too: 0/0, the most negative value and -1 take other paths than 7/0
			n := pick("dividend", []string{"7", "0", "1", "100", "0"})
			if !strings.HasPrefix(ty, "u") {
				n = pick("sdividend", []string{"7", "0", "-7", "-1", "0", "1"})
			}
			op = strings.Replace(op, "lg(1, 7)", "lg(1, "+n+")", 1)
			out = append(out, opProbe{fmt.Sprintf("div %s(%s) by %s: %s", ty, n, d, op), "a, b := " + ty + "(" + n + "), " + ty + "(" + d + "); _, _ = a, b", op})
		case 10, 11: // type assertions
			decl := "var e interface{} = impl{3}; var n interface{}; var i I = impl{4}; var ni I; var es interface{} = \"s\"; _, _, _, _, _ = e, n, i, ni, es"
			op := pick("assert", []string{"use(e.(int))", "use(e.(impl).x)", "use(e.(I).M())", "e.(J).N()", "use(n.(int))", "use(n.(I).M())", "use(i.(impl).x)", "i.(J).N()", "use(ni.(I).M())", "use(ni.(impl).x)", "sinkS = es.(string)", "use(es.(int))", "v, ok := e.(int); use(v); sinkB = ok", "v, ok := n.(I); sinkAny = v; sinkB = ok", "use(ni.M())", "sinkS = e.(interface{ String() string }).String()", "use(len(e.([]int)))", "use(e.(*impl).x)"})
			out = append(out, opProbe{"assert " + op, decl, op})
		case 12, 13: // comparing uncomparable / unhashable
			decl := "var a, b interface{} = []int{1}, []int{1}; var c, d interface{} = map[string]int{}, 1; var f, g interface{} = func() {}, struct{ s []int }{}; h := map[interface{}]int{}; var arr1, arr2 interface{} = [1][]int{}, [1][]int{}; _, _, _, _, _, _, _, _, _ = a, b, c, d, f, g, h, arr1, arr2"
			op := pick("uncmp", []string{"sinkB = a == b", "sinkB = a != b", "sinkB = c == d", "sinkB = c == c", "sinkB = f == f", "sinkB = g == g", "sinkB = a == d", "h[a] = 1", "use(h[c])", "delete(h, f)", "_, sinkB = h[g]", "sinkB = arr1 == arr2", "switch a { case b: use(1) }", "sinkB = d == d", "h[d] = 2; use(h[d])"})
			out = append(out, opProbe{"uncomparable " + op, decl, op})
		case 14, 15: // make
			nt := pick("maketype", []string{"int", "int64", "uint64", "int8"})
			nv := pick("makelen", []string{"-1", "0", "3", "-5"})
			if strings.HasPrefix(nt, "u") {
				nv = pick("makelenu", []string{"0", "3"})
			}
			if nt == "int64" || nt == "uint64" {
				nv = pick("makelen64", []string{"-1", "3", "4611686018427387904", "9223372036854775807", "1152921504606846976"})
				if nt == "uint64" && nv == "-1" {
					nv = "18446744073709551615"
				}
			}
			op := pick("makeop", []string{"use(len(make([]int, n)))", "use(cap(make([]int, 0, n)))", "use(len(make([]int, 2, c)))", "use(cap(make(chan int, n)))", "use(len(make([]byte, n, n)))"})
			out = append(out, opProbe{fmt.Sprintf("make n=%s(%s): %s", nt, nv, op), "n := " + nt + "(" + nv + "); c := 1; _, _ = n, c", op})
		case 16: // slice to array conversions
			decl := "s := []int{1, 2, 3}; var ns []int; e := []int{}; big := make([]int, 6); short := big[:2]; mid := big[1:3:5]; _, _, _, _, _, _ = s, ns, e, big, short, mid"
			op := pick("s2a", []string{"a := [3]int(s); use(a[2])", "a := [4]int(s); use(a[0])", "a := [2]int(s); use(a[1])", "p := (*[4]int)(s); use(p[0])", "p := (*[3]int)(s); p[0] = 9; use(s[0])", "p := (*[0]int)(ns); sinkB = p == nil", "p := (*[0]int)(e); sinkB = p == nil", "a := [0]int(ns); use(len(a))", "p := (*[1]int)(ns); use(p[0])", "a := [1]int(s[3:]); use(a[0])",
				// shorter than the array but with enough capacity: the length decides
				"p := (*[3]int)(short); p[2] = 7; use(big[2])", "p := (*[6]int)(short); use(p[5])", "a := [3]int(short); use(a[2])", "p := (*[2]int)(short); p[1] = 5; use(big[1])",
				"p := (*[3]int)(mid); use(p[2])", "p := (*[4]int)(mid); use(p[3])", "p := (*[2]int)(mid); p[0] = 4; use(big[1])", "a := [4]int(mid); use(a[3])", "p := (*[0]int)(short[:0]); sinkB = p != nil"})
			out = append(out, opProbe{"slice-to-array " + op, decl, op})
		case 17, 18: // channels
			decl := "var nc chan int; c := make(chan int, 1); cl := make(chan int, 1); close(cl); _, _, _ = nc, c, cl"
			op := pick("chanop", []string{"close(nc)", "close(cl)", "cl <- lg(1, 1)", "close(c); close(c)", "c <- 1; close(c); use(<-c); use(<-c)", "v, ok := <-cl; use(v); sinkB = ok", "select { case cl <- 1: use(1) }", "select { case cl <- 1: use(1); default: use(2) }", "close(c); select { case c <- 1: default: }", "select { case v := <-nc: use(v); default: use(3) }", "use(len(nc) + cap(nc))", "for v := range cl { use(v) }"})
			out = append(out, opProbe{"chan " + op, decl, op})
		case 19, 20: // explicit panics keep their value
			op := pick("panicval", []string{`panic("boom")`, `panic(myErr{3})`, `panic(error(myErr{4}))`, `panic(42)`, `panic(&T{a: 1})`, `var e error; panic(e)`, `panic(lg(1, 2) + lg(2, 3))`, `panic(impl{9})`, `panic(3.5)`, `panic([]int{1})`})
			out = append(out, opProbe{"panic " + op, "", op})
		case 21: // evaluation order around a panicking index
			decl := "sl := []int{1, 2, 3}; m := map[string]int{}; var nm map[string]int; _, _, _ = sl, m, nm"
			op := pick("order", []string{"sl[lg(1, 5)] = lg(2, 9)", "lgs(1, sl)[lg(2, 7)] = lg(3, 1)", "lgm(1, nm)[\"k\"] = lg(2, 1)", "sl[lg(1, 0)], sl[lg(2, 9)] = lg(3, 4), lg(4, 5)", "use(lg(1, 1) / lg(2, 0))", "use(lg(1, 8) + sl[lg(2, 3)])", "x := []int{lg(1, 1), sl[lg(2, 4)]}; use(x[0])"})
			out = append(out, opProbe{"order " + op, decl, op})
		case 22: // conversions / strings that must not panic
			op := pick("nopanic", []string{"s := \"abc\"; use(len(s[3:]))", "var s []int; use(len(s[0:0]))", "var s []int; s = append(s, 1); use(s[0])", "var m map[string]int; v, ok := m[\"k\"]; use(v); sinkB = ok", "var p *T; sinkB = p == nil", "var f func(); sinkB = f == nil", "var i interface{}; _, ok := i.(int); sinkB = ok", "a := [3]int{}; i := 2; use(a[i])", "s := make([]int, 0); use(len(s[:0:0]))", "var c chan int; sinkB = c == nil"})
			out = append(out, opProbe{"nopanic " + op, "", op})
		case 23: // copy / append edge cases
			op := pick("copyappend", []string{"var d []int; use(copy(d, []int{1}))", "d := make([]int, 2); use(copy(d, \"\"[:0]) + 0)", "var s []int; s = append(s[:0], s...); use(len(s))", "s := []int{1}; s = append(s[:1], s[:1]...); use(s[1])", "b := []byte(\"ab\"); use(copy(b, \"xyz\")); use(int(b[1]))"})
			op = strings.Replace(op, `copy(d, ""[:0])`, `copy(d, []int(nil))`, 1)
			out = append(out, opProbe{"copyappend " + op, "", op})
		case 24: // nested struct / array nil paths
			decl := "type N struct{ in *T; arr [2]*T }; var n N; pn := &n; var npn *N; _, _, _ = n, pn, npn"
			op := pick("nested", []string{"use(n.in.a)", "use(pn.in.a)", "use(n.arr[1].a)", "use(npn.arr[0].a)", "n.arr[lg(1, 1)].a = 2", "use(len(npn.arr))", "sinkB = npn.in == nil"})
			out = append(out, opProbe{"nested-nil " + op, decl, op})
		case 25: // method values and interface calls on nil
			decl := "var i I; var pi *impl; var ip I = pi; _, _, _ = i, pi, ip"
			op := pick("nilcall", []string{"use(i.M())", "f := i.M; use(f())", "use(ip.M())", "g := ip.M; use(g())", "use(pi.M())", "h := I.M; use(h(i))", "sinkB = ip == nil", "sinkB = i == nil", "f := i.M; lg(1, 1); use(f())", "g := ip.M; lg(1, 1); use(g())", "var e struct{ I }; f := e.M; lg(1, 1); use(f())", "var e struct{ I }; lg(1, 1); use(e.M())", "h := I.M; lg(1, 1); use(h(i))", "f := pi.M; lg(1, 1); use(f())"})
			out = append(out, opProbe{"nil-call " + op, decl, op})
		case 26: // string conversions and indexing with constants in range, variable out of range
			decl := "s := \"héllo\"; b := []byte(s); rs := []rune(s); j := len(s); _, _, _, _ = s, b, rs, j"
			op := pick("strops", []string{"use(int(s[j]))", "use(int(s[j-1]))", "use(int(b[j]))", "use(int(rs[j]))", "use(int(rs[len(rs)-1]))", "use(len(s[j:]))", "use(len(s[j+1:]))", "use(len(s[:j+1]))", "use(len(s[2:1+j-j]))"})
			out = append(out, opProbe{"string " + op, decl, op})
		default: // shifts: negative counts are a documented difference, only non-negative ones here
			op := pick("shift", []string{"n := 70; use(1 << uint(n))", "var n uint8 = 200; use(int(int32(1) << n))", "n := 31; use(int(int32(-1) >> uint(n)))", "n := 0; use(8 >> uint(n))"})
			out = append(out, opProbe{"shift " + op, "", op})
		}
	}
	return out
}

// source renders the probes as functions p<i>() string.
func opsSource(ps []opProbe) string {
	var sb strings.Builder
	sb.WriteString(opsPrelude)
	for i, p := range ps {
		fmt.Fprintf(&sb, "\n// %s\nfunc p%d() (r string) {\n\ttrace = \"\"\n\tdefer func() {\n\t\tr += trace + \"|\" + classify(recover())\n\t}()\n\tr = \"pre;\"\n", p.label, i)
		if p.decl != "" {
			sb.WriteString("\t" + p.decl + "\n")
		}
		sb.WriteString("\t" + p.op + "\n\tr += \"post;\"\n\treturn\n}\n")
	}
	sb.WriteString("\nfunc main() {\n")
	for i, p := range ps {
		fmt.Fprintf(&sb, "\tout(\"p%d \" + %q + \" = \" + p%d())\n", i, strings.SplitN(p.label, " ", 2)[0], i)
	}
	sb.WriteString("}\n")
	return sb.String()
}
