package c08

import (
	"fmt"
	"strings"

	"pgregory.net/rapid"
)

// A tree scenario is a set of functions f0..fn (fi may only call fj with j > i) whose bodies mix
// defers, recovers at different depths, panics, run-time errors, Goexit and goroutines.

const treePrelude = `package main

import "runtime"

var _ = runtime.Gosched

// no tree prints more than a few hundred lines: a program that goes on printing is stopped
func init() { outLimit = 20000 }

type T struct{ a int }

type myErr struct{ c int }

func (e myErr) Error() string { return "myErr" + itoa(e.c) }

type rec struct{ tag string }

// recoverHere is deferred directly (as a method value): recover is called by the deferred function itself.
func (r rec) recoverHere() { out(r.tag + " method-recover " + classify(recover())) }

// helper is called BY a deferred function: recover must return nil here.
func helperRecover(tag string) { out(tag + " deeper-recover " + classify(recover())) }

func logi(tag string, v int) { out(tag + " " + itoa(v)) }

func boom(kind int) {
	switch kind {
	case 0:
		var m map[string]int
		m["k"] = 1
	case 1:
		s := []int{1}
		i := 5
		out(itoa(s[i]))
	case 2:
		z := 0
		out(itoa(1 / z))
	default:
		var p *T
		out(itoa(p.a))
	}
}
`

type treeGen struct {
	rt *rapid.T
	sb strings.Builder
	id string // scenario prefix
	n  int
}

func (g *treeGen) pick(label string, xs []string) string {
	return rapid.SampledFrom(xs).Draw(g.rt, label)
}

// genFunc emits function <id>f<i>; it may call functions with larger indexes.
func (g *treeGen) genFunc(i, total, depth int) {
	name := fmt.Sprintf("%sf%d", g.id, i)
	fmt.Fprintf(&g.sb, "func %s() (res int) {\n\tout(\"%s enter\")\n\tx := %d\n\t_ = x\n", name, name, i*10)
	nstmt := rapid.IntRange(1, 6).Draw(g.rt, "nstmt")
	for s := 0; s < nstmt; s++ {
		tag := fmt.Sprintf("%s.%d", name, s)
		switch k := rapid.IntRange(0, 25).Draw(g.rt, "stmt"); k {
		case 24, 25: // a resumption point in the function body: later panics and deferred calls happen in a resumed function
			fmt.Fprintf(&g.sb, "\truntime.Gosched()\n\tx += 3\n\tout(\"%s resumed \" + itoa(x))\n", tag)
		case 0, 1: // deferred call with arguments captured now
			fmt.Fprintf(&g.sb, "\tdefer logi(\"%s defer-arg\", x)\n\tx += 7\n", tag)
		case 2, 3, 4: // direct recover in a deferred closure
			action := g.pick("action", []string{"", "res = 100 + res", "panic(r)", "panic(\"replaced-" + tag + "\")", "if r != nil { res = -1 }", "out(\"second \" + classify(recover()))"})
			guard := ""
			if action == "panic(r)" {
				guard = "if r != nil { panic(r) }"
				action = ""
			}
			fmt.Fprintf(&g.sb, "\tdefer func() {\n\t\tr := recover()\n\t\tout(\"%s recover \" + classify(r))\n\t\t%s\n\t\t%s\n\t}()\n", tag, action, guard)
		case 5: // recover one call deeper: must not stop the panic
			fmt.Fprintf(&g.sb, "\tdefer func() {\n\t\thelperRecover(\"%s\")\n\t}()\n", tag)
		case 6: // deferred method value: counts as called directly
			fmt.Fprintf(&g.sb, "\tdefer rec{\"%s\"}.recoverHere()\n", tag)
		case 20: // a deferred function that suspends
			fmt.Fprintf(&g.sb, "\tdefer func() {\n\t\truntime.Gosched()\n\t\tout(\"%s defer-yield\")\n\t}()\n", tag)
		case 21: // a deferred function that suspends and then panics
			fmt.Fprintf(&g.sb, "\tdefer func() {\n\t\truntime.Gosched()\n\t\tout(\"%s defer-yield-panics\")\n\t\tpanic(\"from-yield-defer-%s\")\n\t}()\n", tag, tag)
		case 7, 22: // a deferred function that panics itself
			fmt.Fprintf(&g.sb, "\tdefer func() {\n\t\tout(\"%s defer-panics\")\n\t\tpanic(\"from-defer-%s\")\n\t}()\n", tag, tag)
		case 8: // inner panic recovered inside the deferred function
			fmt.Fprintf(&g.sb, "\tdefer func() {\n\t\tdefer func() {\n\t\t\tout(\"%s inner \" + classify(recover()))\n\t\t}()\n\t\tpanic(\"inner-%s\")\n\t}()\n", tag, tag)
		case 9: // modify the named result
			fmt.Fprintf(&g.sb, "\tdefer func() {\n\t\tres = res*2 + 1\n\t\tout(\"%s defer-res \" + itoa(res))\n\t}()\n", tag)
		case 10, 11: // call a later function
			if i+1 < total && depth > 0 {
				j := rapid.IntRange(i+1, total-1).Draw(g.rt, "callee")
				fmt.Fprintf(&g.sb, "\tres += %sf%d()\n\tout(\"%s after-call \" + itoa(res))\n", g.id, j, tag)
			} else {
				fmt.Fprintf(&g.sb, "\tres += 3\n")
			}
		case 12: // explicit panic
			v := g.pick("pv", []string{"\"p-" + tag + "\"", "myErr{" + fmt.Sprint(i) + "}", "error(myErr{7})"})
			fmt.Fprintf(&g.sb, "\tif x >= 0 {\n\t\tpanic(%s)\n\t}\n", v)
		case 13: // run-time error
			fmt.Fprintf(&g.sb, "\tboom(%d)\n", rapid.IntRange(0, 3).Draw(g.rt, "boom"))
		case 14: // early return with a value
			fmt.Fprintf(&g.sb, "\tif x > 1000000 {\n\t\treturn 5\n\t}\n\tres += 1\n")
		case 15: // goroutine that recovers its own panic, joined
			if i+1 < total && depth > 0 {
				j := rapid.IntRange(i+1, total-1).Draw(g.rt, "gcallee")
				fmt.Fprintf(&g.sb, "\t{\n\t\tdone := make(chan int)\n\t\tgo func() {\n\t\t\tv := -1\n\t\t\tdefer func() {\n\t\t\t\tout(\"%s goroutine-recover \" + classify(recover()))\n\t\t\t\tdone <- v\n\t\t\t}()\n\t\t\tv = %sf%d()\n\t\t}()\n\t\tres += <-done\n\t}\n", tag, g.id, j)
			}
		case 16: // Goexit in a joined goroutine: deferred calls run, recover returns nil
			fmt.Fprintf(&g.sb, "\t{\n\t\tdone := make(chan bool)\n\t\tgo func() {\n\t\t\tdefer func() { done <- true }()\n\t\t\tdefer func() { out(\"%s goexit-recover \" + classify(recover())) }()\n\t\t\tdefer logi(\"%s goexit-defer\", x)\n\t\t\truntime.Goexit()\n\t\t\tout(\"unreachable\")\n\t\t}()\n\t\t<-done\n\t}\n", tag, tag)
		case 17: // defer in a loop: LIFO order
			fmt.Fprintf(&g.sb, "\tfor k := 0; k < 3; k++ {\n\t\tdefer logi(\"%s loop-defer\", k+x)\n\t}\n", tag)
		case 18: // a frame that recovers for its callee and returns normally
			if i+1 < total && depth > 0 {
				j := rapid.IntRange(i+1, total-1).Draw(g.rt, "wcallee")
				fmt.Fprintf(&g.sb, "\tres += func() (r int) {\n\t\tdefer func() {\n\t\t\tif e := recover(); e != nil {\n\t\t\t\tout(\"%s wrapper-recover \" + classify(e))\n\t\t\t\tr = 77\n\t\t\t}\n\t\t}()\n\t\treturn %sf%d()\n\t}()\n", tag, g.id, j)
			}
		default: // recover when not panicking / outside defer
			fmt.Fprintf(&g.sb, "\tout(\"%s plain-recover \" + classify(recover()))\n", tag)
		}
	}
	fmt.Fprintf(&g.sb, "\tout(\"%s exit \" + itoa(res))\n\treturn res + 1\n}\n\n", name)
}

// genTree emits one scenario and returns the name of its entry function.
func genTree(rt *rapid.T, id string) (src string, entry string, feats map[string]bool) {
	g := &treeGen{rt: rt, id: id}
	total := rapid.IntRange(1, 4).Draw(rt, "nfuncs")
	for i := 0; i < total; i++ {
		g.genFunc(i, total, 3)
	}
	mode := rapid.SampledFrom([]string{"plain", "plain", "plain", "guarded", "guarded-twice", "guarded-twice", "goroutine-uncaught", "main-goexit"}).Draw(rt, "mode")
	entry = id + "main"
	fmt.Fprintf(&g.sb, "func %s() {\n", entry)
	switch mode {
	case "plain":
		fmt.Fprintf(&g.sb, "\tout(\"result \" + itoa(%sf0()))\n", id)
	case "guarded":
		fmt.Fprintf(&g.sb, "\tdefer func() { out(\"main-recover \" + classify(recover())) }()\n\tout(\"result \" + itoa(%sf0()))\n", id)
	case "guarded-twice":
		// the same tree twice in one process: state left behind by the first run shows in the second
		fmt.Fprintf(&g.sb, "\tfor round := 0; round < 2; round++ {\n\t\tfunc() {\n\t\t\tdefer func() { out(\"main-recover \" + classify(recover())) }()\n\t\t\tout(\"result \" + itoa(%sf0()))\n\t\t}()\n\t}\n", id)
	case "goroutine-uncaught":
		fmt.Fprintf(&g.sb, "\tgo func() { out(\"result \" + itoa(%sf0())) }()\n\t<-make(chan int)\n", id)
	case "main-goexit":
		fmt.Fprintf(&g.sb, "\tdefer out(\"main-deferred\")\n\tout(\"result \" + itoa(%sf0()))\n\truntime.Goexit()\n", id)
	}
	g.sb.WriteString("\tout(\"END\")\n}\n\n")
	src = g.sb.String()
	feats = map[string]bool{}
	for _, k := range []string{"recover ", "deeper-recover", "method-recover", "defer-panics", "defer-yield", "inner ", "defer-res", "goroutine-recover", "goexit", "loop-defer", "wrapper-recover", "panic(", "boom("} {
		if strings.Contains(src, k) {
			feats[k] = true
		}
	}
	feats["mode:"+mode] = true
	return
}
