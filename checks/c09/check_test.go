package c09

import (
	"fmt"
	"strings"
	"testing"

	"pgregory.net/rapid"

	"verif/internal/drv"
)

var ev *drv.Evidence

func TestMain(m *testing.M) { drv.TestMain(m, func() *drv.Evidence { return ev }) }

const rule = "rapid-generated families of 4-9 named types (struct / int / slice underlying types, value and pointer embedding to depth 3 with shadowing, value and pointer receivers, exported and unexported method names) and 3-6 interfaces (with embedded interfaces); for EVERY (dynamic value, interface) and (dynamic value, concrete type) pair: comma-ok assertion, single-value assertion (panic class), calls through the interface with receiver logging and a deep dump afterwards, type-switch position over a rapid-ordered case list, interface equality for all value pairs, use as map[interface{}] key; static selectors through embedded paths, method values and method expressions for every method in the go/types method sets; fixed probes for equally named local types, identical unnamed struct types across packages, struct{A} vs struct{A A}, unexported field/method names from different packages. Oracle: native run. Non-trivial family: >=1 embedding edge, >=1 interface with >=2 methods and >=1 type whose value and pointer method sets differ; distinct by source text."

type program struct {
	files      map[string]string
	nontrivial bool
	nprobes    int
}

func genProgram(rt *rapid.T) program {
	f := genFamily(rt)
	decl := f.declSource()
	c, err := f.check(decl)
	if err != nil {
		drv.Infra("generated family does not type-check (generator bug): %v\n%s", err, decl)
	}
	var sb strings.Builder
	sb.WriteString("package main\n\nimport (\n\t\"ROOT/other\"\n\tother2 \"ROOT/sub/other\"\n)\n\nvar log string\n\nfunc try(f func()) (r string) {\n\tdefer func() {\n\t\tif x := recover(); x != nil {\n\t\t\tr = classify(x)\n\t\t}\n\t}()\n\tf()\n\treturn \"ok\"\n}\n\n")
	sb.WriteString(decl)
	// values: value and pointer of every type, plus nil pointers and nil interface
	sb.WriteString("func values() []interface{} {\n\tvar vs []interface{}\n")
	nv := 0
	for i, t := range f.types {
		fmt.Fprintf(&sb, "\t{\n\t\ta, b := mk%s(%d), mk%s(%d)\n\t\tvs = append(vs, a, &b, (*%s)(nil))\n\t}\n", t.name, i+1, t.name, i+1, t.name)
		nv += 3
	}
	sb.WriteString("\tvs = append(vs, nil)\n\treturn vs\n}\n\n")
	nv++
	// per-interface assertion + calls
	for _, d := range f.ifaces {
		ms := ifaceMethods(f, d)
		fmt.Fprintf(&sb, "func as%s(v interface{}) string {\n\ti, ok := v.(%s)\n\tif !ok {\n\t\treturn \"no \" + try(func() { _ = v.(%s) })\n\t}\n\tr := \"yes\"\n", d.name, d.name, d.name)
		for _, m := range ms {
			fmt.Fprintf(&sb, "\tlog = \"\"\n\tr += \" \" + try(func() { r += \" %s=\" + itoa(i.%s()) }) + log\n", m, m)
		}
		// method value bound through the interface, called after the calls above
		fmt.Fprintf(&sb, "\tlog = \"\"\n\tr += \" mv:\" + try(func() { f := i.%s; r += itoa(f()) }) + log\n", ms[0])
		sb.WriteString("\treturn r\n}\n\n")
	}
	// type switch with a rapid-drawn case order
	var cases []string
	for _, t := range f.types {
		cases = append(cases, t.name, "*"+t.name)
	}
	for _, d := range f.ifaces {
		cases = append(cases, d.name)
	}
	perm := rapid.Permutation(cases).Draw(rt, "caseorder")
	sb.WriteString("func sw(v interface{}) string {\n\tswitch v.(type) {\n\tcase nil:\n\t\treturn \"nil\"\n")
	for _, cs := range perm {
		fmt.Fprintf(&sb, "\tcase %s:\n\t\treturn %q\n", cs, cs)
	}
	sb.WriteString("\t}\n\treturn \"default\"\n}\n\n")
	// concrete assertions
	sb.WriteString("func concrete(v interface{}) string {\n\tr := \"\"\n")
	for _, t := range f.types {
		fmt.Fprintf(&sb, "\tif _, ok := v.(%s); ok {\n\t\tr += \" %s\"\n\t}\n\tif _, ok := v.(*%s); ok {\n\t\tr += \" *%s\"\n\t}\n", t.name, t.name, t.name, t.name)
	}
	sb.WriteString("\treturn r\n}\n\n")
	// static selectors
	nstatic := 0
	sb.WriteString("func statics() {\n")
	diff := false
	for _, t := range f.types {
		vs, ps := c.methodSet(t.name, false), c.methodSet(t.name, true)
		if len(vs) != len(ps) {
			diff = true
		}
		for _, m := range ps {
			inV := false
			for _, x := range vs {
				if x == m {
					inV = true
				}
			}
			nstatic++
			// call on an addressable variable (always allowed for methods of *T), then through a pointer, a method value and a method expression
			fmt.Fprintf(&sb, "\t{\n\t\ts := mk%s(7)\n\t\tlog = \"\"\n\t\tr := try(func() { x := s.%s(); log += \"=\" + itoa(x) })\n\t\tout(\"static %s.%s var \" + r + log + \" after \" + dump%s(s))\n", t.name, m, t.name, m, t.name)
			fmt.Fprintf(&sb, "\t\tp := &s\n\t\tlog = \"\"\n\t\tr = try(func() { x := p.%s(); log += \"=\" + itoa(x) })\n\t\tout(\"static %s.%s ptr \" + r + log + \" after \" + dump%s(s))\n", m, t.name, m, t.name)
			fmt.Fprintf(&sb, "\t\tlog = \"\"\n\t\tr = try(func() { f := s.%s; s = mk%s(8); x := f(); log += \"=\" + itoa(x) })\n\t\tout(\"static %s.%s mval \" + r + log + \" after \" + dump%s(s))\n", m, t.name, t.name, m, t.name)
			fmt.Fprintf(&sb, "\t\tlog = \"\"\n\t\tr = try(func() { f := (*%s).%s; x := f(&s); log += \"=\" + itoa(x) })\n\t\tout(\"static %s.%s pexpr \" + r + log + \" after \" + dump%s(s))\n", t.name, m, t.name, m, t.name)
			if inV {
				fmt.Fprintf(&sb, "\t\tlog = \"\"\n\t\tr = try(func() { f := %s.%s; x := f(s); log += \"=\" + itoa(x) })\n\t\tout(\"static %s.%s vexpr \" + r + log + \" after \" + dump%s(s))\n", t.name, m, t.name, m, t.name)
				fmt.Fprintf(&sb, "\t\tlog = \"\"\n\t\tr = try(func() { x := mk%s(9).%s(); log += \"=\" + itoa(x) })\n\t\tout(\"static %s.%s temp \" + r + log)\n", t.name, m, t.name, m)
			}
			sb.WriteString("\t}\n")
		}
	}
	sb.WriteString("}\n\n")
	sb.WriteString(fixedProbes)
	// main
	sb.WriteString("func main() {\n\tn := len(values())\n\tfor k := 0; k < n; k++ {\n")
	for _, d := range f.ifaces {
		fmt.Fprintf(&sb, "\t\t{\n\t\t\tv := values()[k]\n\t\t\tr := as%s(v)\n\t\t\tout(\"v\" + itoa(k) + \" %s \" + r + \" after \" + dumpAny(v))\n\t\t}\n", d.name, d.name)
	}
	sb.WriteString("\t\tout(\"v\" + itoa(k) + \" switch \" + sw(values()[k]) + \" concrete\" + concrete(values()[k]))\n\t}\n")
	sb.WriteString("\tvs := values()\n\tws := values()\n\tfor a := range vs {\n\t\tline := \"eq v\" + itoa(a) + \":\"\n\t\tfor b := range ws {\n\t\t\tr := \"\"\n\t\t\tc := try(func() {\n\t\t\t\tif vs[a] == ws[b] {\n\t\t\t\t\tr = \"T\"\n\t\t\t\t} else {\n\t\t\t\t\tr = \"f\"\n\t\t\t\t}\n\t\t\t})\n\t\t\tif c != \"ok\" {\n\t\t\t\tr = \"P\"\n\t\t\t}\n\t\t\tline += r\n\t\t}\n\t\tout(line)\n\t}\n")
	sb.WriteString("\tm := map[interface{}]int{}\n\tfor k, v := range vs {\n\t\tv := v\n\t\tk := k\n\t\tif try(func() { m[v] = k }) != \"ok\" {\n\t\t\tout(\"key v\" + itoa(k) + \" unhashable\")\n\t\t}\n\t}\n\tline := \"keys \" + itoa(len(m)) + \":\"\n\tfor _, v := range ws {\n\t\tv := v\n\t\tr := -2\n\t\ttry(func() {\n\t\t\tif x, ok := m[v]; ok {\n\t\t\t\tr = x\n\t\t\t} else {\n\t\t\t\tr = -1\n\t\t\t}\n\t\t})\n\t\tline += \" \" + itoa(r)\n\t}\n\tout(line)\n\tstatics()\n\tfixed()\n}\n")
	nt := diff
	hasEmbed, has2 := false, false
	for _, t := range f.types {
		if len(t.embeds) > 0 {
			hasEmbed = true
		}
	}
	for _, d := range f.ifaces {
		if len(ifaceMethods(f, d)) >= 2 {
			has2 = true
		}
	}
	return program{files: map[string]string{"main.go": sb.String(), "other/other.go": otherPkg, "sub/other/other.go": other2Pkg}, nontrivial: nt && hasEmbed && has2, nprobes: nv*(len(f.ifaces)+1) + nv*nv + nstatic*5}
}

func ifaceMethods(f family, d idef) []string {
	seen := map[string]bool{}
	var out []string
	var walk func(d idef)
	walk = func(d idef) {
		for _, e := range d.embeds {
			for _, x := range f.ifaces {
				if x.name == e {
					walk(x)
				}
			}
		}
		for _, m := range d.methods {
			if !seen[m] {
				seen[m] = true
				out = append(out, m)
			}
		}
	}
	walk(d)
	return out
}

const otherPkg = `package other

type Pair struct {
	A int
	B string
}

type hidden struct{ v int }

func (L) M1() int { return 1 }

func (h hidden) u3() int { return 33 }
func (h hidden) M0() int { return 30 }

// U3er can only be implemented inside this package: u3 is unexported here.
type U3er interface{ u3() int }

func Hidden() interface{} { return hidden{1} }

// Sealed has an unexported method: only types of this package implement it, also when
// another package embeds Sealed in its own interfaces.
type Sealed interface {
	Name() string
	seal() int
}

type V struct{ N int }

func (V) Name() string { return "other.V" }
func (V) seal() int    { return 1 }

type PV struct{ N int }

func (*PV) Name() string { return "other.PV" }
func (*PV) seal() int    { return 2 }

func IsSealed(v interface{}) bool { _, ok := v.(Sealed); return ok }

func IsSealedLit(v interface{}) bool {
	_, ok := v.(interface {
		Name() string
		seal() int
	})
	return ok
}

func SealOf(s Sealed) int { return s.seal() }

func IsU3er(v interface{}) bool { _, ok := v.(U3er); return ok }

func AnonStruct() interface{}   { return struct {
	A int
	B string
}{1, "x"} }
func AnonUnexported() interface{} { return struct{ a int }{1} }
func AnonSlice() interface{}    { return []map[string][2]int{} }
func AnonFunc() interface{}     { return func(int, ...string) bool { return true } }
func AnonChan() interface{}     { return make(<-chan int) }
func AnonTagged() interface{}   { return struct {
	A int ` + "`k:\"v\"`" + `
}{1} }

type L struct{ v int }

func NamedL() interface{} { return L{1} }

func IsAnonStruct(v interface{}) bool {
	_, ok := v.(struct {
		A int
		B string
	})
	return ok
}
`

const other2Pkg = `package other

// A second package that is also called "other": its types print exactly like those of ROOT/other.
type Pair struct {
	A int
	B string
}

type L struct{ v int }

func (L) M0() int { return 2 }

func NamedL() interface{} { return L{1} }
`

const fixedProbes = `
type A struct{ x int }

type L struct{ v int }

type localU3 struct{}

func (localU3) u3() int { return 1 }

func mkLocal1() (interface{}, func(interface{}) bool) {
	type L struct{ v int }
	return L{1}, func(x interface{}) bool { _, ok := x.(L); return ok }
}

func mkLocal2() (interface{}, func(interface{}) bool) {
	type L struct{ v int }
	return L{1}, func(x interface{}) bool { _, ok := x.(L); return ok }
}

type impl0 struct{}

func (impl0) M0() int { return 0 }

// equally named local types, only one of which implements interface{ M0() int }
func mkX1() interface{} {
	type X struct{ impl0 }
	return X{}
}

func mkX2() interface{} {
	type X struct{ v int }
	return X{}
}

func mkX3() interface{} {
	type X struct {
		impl0
		v int
	}
	return &X{}
}

func hasM0(v interface{}) string {
	_, ok := v.(interface{ M0() int })
	return btoa(ok)
}

func hasM1(v interface{}) string {
	_, ok := v.(interface{ M1() int })
	return btoa(ok)
}

type embedsA struct{ A }
type fieldA struct{ A A }

// interfaces of this package that inherit another package's unexported method
type wideSealed interface {
	other.Sealed
	Extra() int
}

type sameSealed interface{ other.Sealed }

type wrapV struct {
	other.V
	k int
}

func (wrapV) Extra() int { return 9 }

type wrapPV struct{ *other.PV }

// fake has its own unexported method called seal: that is a different method
type fake struct{}

func (fake) Name() string { return "fake" }
func (fake) seal() int    { return 99 }
func (fake) Extra() int   { return 98 }

func sealedProbe(tag string, v interface{}) string {
	_, a := v.(other.Sealed)
	_, b := v.(sameSealed)
	_, c := v.(wideSealed)
	_, d := v.(interface{ other.Sealed })
	_, e := v.(interface {
		Name() string
		seal() int
	})
	r := tag + ":" + btoa(a) + btoa(b) + btoa(c) + btoa(d) + btoa(e) + btoa(other.IsSealed(v)) + btoa(other.IsSealedLit(v))
	if s, ok := v.(sameSealed); ok {
		r += "=" + itoa(other.SealOf(s)) + s.Name()
	}
	switch v.(type) {
	case wideSealed:
		r += "/wide"
	case other.Sealed:
		r += "/sealed"
	case interface{ seal() int }:
		r += "/local-seal"
	default:
		r += "/none"
	}
	return r
}

func fixed() {
	l1, is1 := mkLocal1()
	l2, is2 := mkLocal2()
	var l3 interface{} = L{1}
	l4 := other.NamedL()
	out("local types: " + btoa(is1(l1)) + btoa(is1(l2)) + btoa(is2(l1)) + btoa(is2(l2)) + btoa(is1(l3)) + btoa(is2(l4)) + " eq " + btoa(l1 == l2) + btoa(l1 == l3) + btoa(l3 == l4) + btoa(l1 == l1))
	out("same name, different method sets: " + hasM0(mkX2()) + hasM0(mkX1()) + hasM0(mkX3()) + hasM0(mkX2()) + " " + hasM0(other2.NamedL()) + hasM0(other.NamedL()) + hasM1(other2.NamedL()) + hasM1(other.NamedL()) + " " + try(func() { _ = mkX2().(interface{ M0() int }) }) + " " + try(func() { _ = mkX1().(interface{ M0() int }) }))
	var p1, p2 interface{} = other.Pair{A: 1}, other2.Pair{A: 1}
	_, okP1 := p1.(other.Pair)
	_, okP2 := p2.(other.Pair)
	_, okP3 := p2.(other2.Pair)
	out("same package name, different paths: " + btoa(okP1) + btoa(okP2) + btoa(okP3) + btoa(p1 == p2) + " switch " + func() string {
		switch p2.(type) {
		case other.Pair:
			return "other.Pair"
		case other2.Pair:
			return "other2.Pair"
		}
		return "none"
	}())
	mk := map[interface{}]int{p1: 1, p2: 2, mkX1(): 3, mkX2(): 4}
	out("as keys: " + itoa(len(mk)) + " " + itoa(mk[p1]) + itoa(mk[p2]))
	_, okA := l3.(L)
	_, okB := l4.(L)
	_, okC := l4.(other.L)
	_, okD := l1.(L)
	out("named L: " + btoa(okA) + btoa(okB) + btoa(okC) + btoa(okD))
	var e1 interface{} = struct{ A }{}
	var e2 interface{} = struct{ A A }{}
	_, ok1 := e1.(struct{ A })
	_, ok2 := e1.(struct{ A A })
	_, ok3 := e2.(struct{ A })
	_, ok4 := e2.(struct{ A A })
	_, ok5 := e1.(embedsA)
	out("embedded vs named field: " + btoa(ok1) + btoa(ok2) + btoa(ok3) + btoa(ok4) + btoa(ok5) + " eq " + btoa(e1 == e2))
	an := other.AnonStruct()
	_, ok6 := an.(struct {
		A int
		B string
	})
	_, ok7 := an.(other.Pair)
	_, ok8 := an.(struct {
		B string
		A int
	})
	var mine interface{} = struct {
		A int
		B string
	}{1, "x"}
	out("identical unnamed struct across packages: " + btoa(ok6) + btoa(ok7) + btoa(ok8) + btoa(other.IsAnonStruct(mine)) + " eq " + btoa(an == mine))
	au := other.AnonUnexported()
	_, ok9 := au.(struct{ a int })
	out("unexported field from another package: " + btoa(ok9) + btoa(au == interface{}(struct{ a int }{1})))
	_, ok10 := other.AnonSlice().([]map[string][2]int)
	_, ok11 := other.AnonSlice().([]map[string][3]int)
	_, ok12 := other.AnonFunc().(func(int, ...string) bool)
	_, ok13 := other.AnonFunc().(func(int, []string) bool)
	_, ok14 := other.AnonChan().(<-chan int)
	_, ok15 := other.AnonChan().(chan int)
	_, ok16 := other.AnonTagged().(struct{ A int })
	_, ok17 := other.AnonTagged().(struct {
		A int ` + "`k:\"v\"`" + `
	})
	out("composite identity: " + btoa(ok10) + btoa(ok11) + btoa(ok12) + btoa(ok13) + btoa(ok14) + btoa(ok15) + btoa(ok16) + btoa(ok17))
	h := other.Hidden()
	_, ok18 := h.(interface{ u3() int })
	_, ok19 := h.(interface{ M0() int })
	out("unexported method across packages: " + btoa(ok18) + btoa(ok19) + btoa(other.IsU3er(h)) + btoa(other.IsU3er(localU3{})))
	out("sealed interfaces: " + sealedProbe("V", other.V{1}) + " " + sealedProbe("*V", &other.V{1}) + " " + sealedProbe("PV", other.PV{1}) + " " + sealedProbe("*PV", &other.PV{1}) + " " + sealedProbe("wrapV", wrapV{}) + " " + sealedProbe("wrapPV", wrapPV{&other.PV{}}) + " " + sealedProbe("fake", fake{}) + " " + sealedProbe("nil", nil))
	var sv1 interface{} = sameSealed(other.V{1})
	var sv2 interface{} = other.Sealed(other.V{1})
	out("sealed values: " + btoa(sv1 == sv2) + btoa(interface{}(wrapV{}) == interface{}(wrapV{})))
}
`

func TestCheck(t *testing.T) {
	ev = drv.NewEvidence("C09", "exploration", rule)
	nProg := 12
	if drv.Thorough() {
		nProg = 120
	}
	progs := make([]program, nProg)
	for i := range progs {
		progs[i] = rapid.Custom(genProgram).Example(drv.Seed()*157 + i)
	}
	drv.Parallel(nProg, func(i int) {
		p := progs[i]
		c := drv.NewCase("c09_", p.files, true)
		defer c.Remove()
		res := drv.RunBoth(c, drv.BuildOpts{}, [][]string{{}}, drv.NodeOpts{}, true)
		if res.NatErr != nil {
			drv.Infra("generated program does not build natively (generator bug): %v", res.NatErr)
		}
		if res.JSBuildErr != nil {
			ev.Violation("GopherJS build failed: "+res.JSBuildErr.Error(), c.ReproFiles())
			return
		}
		js, nat := res.JS[0], res.Native[0]
		if nat.End != "exit0" {
			drv.Infra("native run ended %s %s\n%s", nat.End, nat.Msg, nat.Stderr)
		}
		ev.Case("family:"+p.files["main.go"], p.nontrivial)
		ev.Count("probes", int64(p.nprobes))
		ev.Count("trace_lines", int64(len(nat.Trace)))
		if i == 0 && len(nat.Trace) > 10 {
			ev.Sample(nat.Trace[:6])
			ev.Sample(nat.Trace[len(nat.Trace)-4:])
		}
		if js.End != "exit0" {
			ev.Violation(fmt.Sprintf("GopherJS run ended %s %q after %d lines\n%s", js.End, js.Msg, len(js.Trace), js.Stderr), c.ReproFiles())
		}
		reported := map[string]bool{}
		for k, ln := range nat.Trace {
			lj := "<missing>"
			if k < len(js.Trace) {
				lj = js.Trace[k]
			}
			if lj == ln {
				continue
			}
			kind := strings.SplitN(ln, " ", 2)[0]
			if strings.HasPrefix(kind, "v") {
				kind = "value-probe " + strings.Fields(ln)[1]
			}
			if f := drv.MatchRow("C09", strings.SplitN(ln, ":", 2)[0]); f != nil {
				ev.Known(f)
				continue
			}
			if reported[kind] || len(reported) >= 5 {
				continue
			}
			reported[kind] = true
			files := c.ReproFiles()
			files["gopherjs.txt"] = strings.Join(js.Trace, "\n")
			files["native.txt"] = strings.Join(nat.Trace, "\n")
			ev.Violation(fmt.Sprintf("dynamic type probe differs:\n  gopherjs %s\n  native   %s", lj, ln), files)
		}
	})
}
