package c09

import (
	"fmt"
	"go/ast"
	"go/importer"
	"go/parser"
	"go/token"
	"go/types"
	"sort"
	"strings"

	"pgregory.net/rapid"

	"verif/internal/drv"
)

type embed struct {
	typ   string
	ptr   bool
	iface bool // an embedded interface; nilval: left nil by the constructor
	nilv  bool
}

type mdef struct {
	name    string
	ptrRecv bool
	bump    int // which statement form changes the receiver (struct types)
}

// structBumps are ways of writing to the receiver's field: whether a value receiver has to
// be copied is decided by looking for such writes.
var structBumps = []string{
	"r.v += 100",
	"r.v++",
	"r.v, _ = r.v+100, 0",
	"_, r.v = 0, r.v+100",
	"p := &r.v\n\t*p += 100",
	"func() { r.v += 100 }()",
	"for i := range [1]int{} {\n\t\tr.v += 100 + i\n\t}",
	"r.v = r.v + 100",
	"var ok bool\n\tr.v, ok = map[int]int{1: r.v + 100}[1]\n\t_ = ok",
	"r.v--",
}

type tdef struct {
	name    string
	kind    string // struct | int | slice | func
	embeds  []embed
	methods []mdef
}

type idef struct {
	name    string
	embeds  []string
	methods []string
}

type family struct {
	types  []tdef
	ifaces []idef
}

var methodPool = []string{"M0", "M1", "M2", "u3", "u4", "double", "delete"} // the last two are reserved words in JavaScript

func genFamily(rt *rapid.T) family {
	var f family
	ni := rapid.IntRange(3, 6).Draw(rt, "nifaces")
	for i := 0; i < ni; i++ {
		d := idef{name: fmt.Sprintf("I%d", i)}
		if i > 0 && rapid.IntRange(0, 2).Draw(rt, "iembed") == 0 {
			d.embeds = append(d.embeds, f.ifaces[rapid.IntRange(0, i-1).Draw(rt, "iemb")].name)
		}
		nm := rapid.IntRange(1, 3).Draw(rt, "inm")
		seen := map[string]bool{}
		for m := 0; m < nm; m++ {
			name := rapid.SampledFrom(methodPool).Draw(rt, "imname")
			if !seen[name] {
				seen[name] = true
				d.methods = append(d.methods, name)
			}
		}
		f.ifaces = append(f.ifaces, d)
	}
	bumpSeq := rapid.IntRange(0, len(structBumps)-1).Draw(rt, "bumpsalt")
	nt := rapid.IntRange(4, 9).Draw(rt, "ntypes")
	for i := 0; i < nt; i++ {
		t := tdef{name: fmt.Sprintf("T%d", i)}
		t.kind = rapid.SampledFrom([]string{"struct", "struct", "struct", "int", "slice"}).Draw(rt, "kind")
		if t.kind == "struct" {
			seen := map[string]bool{}
			if i > 0 {
				ne := rapid.IntRange(0, 2).Draw(rt, "nembed")
				for e := 0; e < ne; e++ {
					j := rapid.IntRange(0, i-1).Draw(rt, "embedded")
					et := f.types[j]
					if seen[et.name] {
						continue
					}
					seen[et.name] = true
					ptr := rapid.Bool().Draw(rt, "embedptr")
					t.embeds = append(t.embeds, embed{typ: et.name, ptr: ptr})
				}
			}
			// embedded interfaces promote their methods too
			if rapid.IntRange(0, 2).Draw(rt, "embediface") == 0 {
				d := f.ifaces[rapid.IntRange(0, ni-1).Draw(rt, "embeddediface")]
				t.embeds = append(t.embeds, embed{typ: d.name, iface: true, nilv: rapid.IntRange(0, 3).Draw(rt, "nilv") == 0})
			}
		}
		nm := rapid.IntRange(0, 3).Draw(rt, "nmethods")
		seen := map[string]bool{}
		for m := 0; m < nm; m++ {
			name := rapid.SampledFrom(methodPool).Draw(rt, "mname")
			if seen[name] {
				continue
			}
			seen[name] = true
			// the write forms are handed out round robin (rapid's draws favour small values)
			bumpSeq++
			t.methods = append(t.methods, mdef{name, rapid.Bool().Draw(rt, "ptrrecv"), bumpSeq % len(structBumps)})
		}
		f.types = append(f.types, t)
	}
	return f
}

func (f family) byName(n string) *tdef {
	for i := range f.types {
		if f.types[i].name == n {
			return &f.types[i]
		}
	}
	return nil
}

// declSource emits type, method, constructor and dump declarations.
func (f family) declSource() string {
	var sb strings.Builder
	for _, t := range f.types {
		switch t.kind {
		case "struct":
			sb.WriteString("type " + t.name + " struct {\n\tv int\n")
			for _, e := range t.embeds {
				if e.ptr {
					sb.WriteString("\t*" + e.typ + "\n")
				} else {
					sb.WriteString("\t" + e.typ + "\n")
				}
			}
			sb.WriteString("}\n\n")
		case "int":
			sb.WriteString("type " + t.name + " int\n\n")
		case "slice":
			sb.WriteString("type " + t.name + " []int\n\n")
		}
		for _, m := range t.methods {
			recv := "r " + t.name
			if m.ptrRecv {
				recv = "r *" + t.name
			}
			var bump, self string
			switch t.kind {
			case "struct":
				bump, self = structBumps[m.bump], "itoa(r.v)"
			case "int":
				if m.ptrRecv {
					bump, self = "*r += 100", "itoa(int(*r))"
				} else {
					bump, self = "r += 100", "itoa(int(r))"
				}
			case "slice":
				if m.ptrRecv {
					bump, self = "(*r)[0] += 100", "itoa((*r)[0])"
				} else {
					bump, self = "r[0] += 100", "itoa(r[0])"
				}
			}
			fmt.Fprintf(&sb, "func (%s) %s() int {\n\tlog += \"[%s.%s recv=\" + %s + \"]\"\n\t%s\n\treturn %d\n}\n\n", recv, m.name, t.name, m.name, self, bump, len(t.name)*7+len(m.name))
		}
		// constructor
		switch t.kind {
		case "struct":
			fmt.Fprintf(&sb, "func mk%s(s int) %s {\n\tx := %s{v: s}\n", t.name, t.name, t.name)
			for k, e := range t.embeds {
				if e.iface {
					if !e.nilv {
						fmt.Fprintf(&sb, "\tx.%s = implAll{v: s*10 + %d}\n", e.typ, k+1)
					}
				} else if e.ptr {
					fmt.Fprintf(&sb, "\t{\n\t\te := mk%s(s*10 + %d)\n\t\tx.%s = &e\n\t}\n", e.typ, k+1, e.typ)
				} else {
					fmt.Fprintf(&sb, "\tx.%s = mk%s(s*10 + %d)\n", e.typ, e.typ, k+1)
				}
			}
			sb.WriteString("\treturn x\n}\n\n")
			fmt.Fprintf(&sb, "func dump%s(x %s) string {\n\ts := \"%s{\" + itoa(x.v)\n", t.name, t.name, t.name)
			for _, e := range t.embeds {
				if e.iface {
					fmt.Fprintf(&sb, "\ts += \" \" + dumpAny(x.%s)\n", e.typ)
				} else if e.ptr {
					fmt.Fprintf(&sb, "\tif x.%s == nil {\n\t\ts += \" nil\"\n\t} else {\n\t\ts += \" *\" + dump%s(*x.%s)\n\t}\n", e.typ, e.typ, e.typ)
				} else {
					fmt.Fprintf(&sb, "\ts += \" \" + dump%s(x.%s)\n", e.typ, e.typ)
				}
			}
			sb.WriteString("\treturn s + \"}\"\n}\n\n")
		case "int":
			fmt.Fprintf(&sb, "func mk%s(s int) %s { return %s(s) }\n\nfunc dump%s(x %s) string { return \"%s(\" + itoa(int(x)) + \")\" }\n\n", t.name, t.name, t.name, t.name, t.name, t.name)
		case "slice":
			fmt.Fprintf(&sb, "func mk%s(s int) %s { return %s{s, 2} }\n\nfunc dump%s(x %s) string { return \"%s[\" + itoa(x[0]) + \"]\" }\n\n", t.name, t.name, t.name, t.name, t.name, t.name)
		}
	}
	for _, d := range f.ifaces {
		sb.WriteString("type " + d.name + " interface {\n")
		for _, e := range d.embeds {
			sb.WriteString("\t" + e + "\n")
		}
		for _, m := range d.methods {
			sb.WriteString("\t" + m + "() int\n")
		}
		sb.WriteString("}\n\n")
	}
	// a type that implements every interface of the family (value receivers), for embedded interface fields
	sb.WriteString("type implAll struct{ v int }\n\n")
	for _, m := range methodPool {
		fmt.Fprintf(&sb, "func (r implAll) %s() int {\n\tlog += \"[implAll.%s recv=\" + itoa(r.v) + \"]\"\n\tr.v += 100\n\treturn %d\n}\n\n", m, m, 500+len(m))
	}
	// dumpAny
	sb.WriteString("func dumpAny(v interface{}) string {\n\tswitch x := v.(type) {\n\tcase nil:\n\t\treturn \"nil\"\n\tcase implAll:\n\t\treturn \"implAll(\" + itoa(x.v) + \")\"\n")
	for _, t := range f.types {
		fmt.Fprintf(&sb, "\tcase %s:\n\t\treturn dump%s(x)\n\tcase *%s:\n\t\tif x == nil {\n\t\t\treturn \"(*%s)(nil)\"\n\t\t}\n\t\treturn \"&\" + dump%s(*x)\n", t.name, t.name, t.name, t.name, t.name)
	}
	sb.WriteString("\t}\n\treturn \"?\"\n}\n\n")
	return sb.String()
}

// checked is the go/types view of the family, used to generate only valid static selectors.
type checked struct {
	pkg   *types.Package
	named map[string]*types.Named
}

func (f family) check(src string) (*checked, error) {
	fset := token.NewFileSet()
	var files []*ast.File
	all := map[string]string{"decl.go": "package main\n\nvar log string\n\n" + src}
	for k, v := range drv.RtFiles() {
		if k == "glue_js.go" {
			continue
		}
		all[k] = v
	}
	keys := make([]string, 0, len(all))
	for k := range all {
		keys = append(keys, k)
	}
	sort.Strings(keys)
	for _, k := range keys {
		af, err := parser.ParseFile(fset, k, all[k], 0)
		if err != nil {
			return nil, err
		}
		files = append(files, af)
	}
	conf := types.Config{Importer: importer.ForCompiler(fset, "source", nil)}
	pkg, err := conf.Check("main", fset, files, nil)
	if err != nil {
		return nil, err
	}
	c := &checked{pkg: pkg, named: map[string]*types.Named{}}
	for _, t := range f.types {
		c.named[t.name] = pkg.Scope().Lookup(t.name).Type().(*types.Named)
	}
	return c, nil
}

// methodSet returns the method names in the method set of T (ptr=false) or *T (ptr=true).
func (c *checked) methodSet(name string, ptr bool) []string {
	var t types.Type = c.named[name]
	if ptr {
		t = types.NewPointer(t)
	}
	ms := types.NewMethodSet(t)
	var out []string
	for i := 0; i < ms.Len(); i++ {
		out = append(out, ms.At(i).Obj().Name())
	}
	sort.Strings(out)
	return out
}
