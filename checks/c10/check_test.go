package c10

import (
	"fmt"
	"os"
	"path"
	"sort"
	"strings"
	"sync"
	"testing"

	"pgregory.net/rapid"

	"verif/internal/drv"
)

var ev *drv.Evidence

func TestMain(m *testing.M) { drv.TestMain(m, func() *drv.Evidence { return ev }) }

const rule = "rapid-generated programs of 3-8 packages (trace package, import DAG of 2-6 library packages with drawn names, main): 1-3 files per package with names whose byte order, case and digits disagree with the listing order, package variables whose initialisers depend on other variables against declaration order and across files (directly, through functions, call chains, value/pointer methods, method expressions and values, closures, function variables, generic functions, imported variables and functions; interface calls as non-dependencies), pairs from one call, blank and grouped variables, several init functions per file, initialisers and init functions that suspend (Gosched, unbuffered and buffered rendezvous with a new goroutine), goroutines parked during initialisation and released by main.main, go:linkname references to functions, value methods and pointer methods in packages that are imported by, import, or are unrelated to the referencing package (receiver declared with the real type or with a local mirror type), called from initialisers, init functions and main.main. Oracle: the program prints one tagged line per initialisation event; the GopherJS trace must consist of one contiguous block per package, every block after the blocks of all imported packages, main last and main.main after main's own initialisation; every block must equal the block of a native build of a mirror tree whose files are renamed so that the native (ascending) file order equals the file order observed in the GopherJS run; the observed order of any two file names must be the same wherever the pair occurs in the run; every linkname call line must be followed by the line of the implementation it names. Invalid directives (on a variable, in a file that does not import unsafe, on a function with a body) are derived from the same programs and must make the build return an ordinary error. Non-trivial program: >=3 library packages, >=1 initialiser dependency that points to a file processed later, >=2 init functions in one package; distinct by source text."

type block struct {
	tag   string
	lines []string
}

// blocks splits a trace into maximal runs of lines owned by one package.
func blocks(trace []string) []block {
	var out []block
	for _, l := range trace {
		tag := ""
		if strings.HasPrefix(l, "[") {
			if i := strings.Index(l, "] "); i > 0 {
				tag = l[1:i]
			}
		}
		if tag == "" || (len(out) > 0 && out[len(out)-1].tag == tag) {
			if len(out) == 0 {
				out = append(out, block{tag: "?"})
			}
			out[len(out)-1].lines = append(out[len(out)-1].lines, l)
			continue
		}
		out = append(out, block{tag: tag, lines: []string{l}})
	}
	return out
}

// structure checks the block sequence against the import graph.
func structure(p *Program, bs []block) (byPkg map[string][]string, problem string) {
	byPkg = map[string][]string{}
	pos := map[string]int{}
	for i, b := range bs {
		if _, dup := byPkg[b.tag]; dup {
			return byPkg, fmt.Sprintf("lines of package %s appear in two separate places (first at block %d, again at block %d: %q): a package is initialised once and nothing else runs until it is done", b.tag, pos[b.tag], i, b.lines[0])
		}
		byPkg[b.tag] = b.lines
		pos[b.tag] = i
	}
	for _, name := range append([]string{"tr"}, p.Pkgs...) {
		if _, ok := byPkg[name]; !ok {
			return byPkg, fmt.Sprintf("package %s never initialised", name)
		}
	}
	for _, name := range p.Pkgs {
		for _, imp := range append([]string{"tr"}, p.Imports[name]...) {
			if pos[imp] > pos[name] {
				return byPkg, fmt.Sprintf("package %s is initialised before its import %s", name, imp)
			}
		}
	}
	if pos["main"] != len(bs)-1 {
		return byPkg, fmt.Sprintf("package main is not the last block (%s follows)", bs[len(bs)-1].tag)
	}
	return byPkg, ""
}

// fileOrder extracts the order of the "file <name>" marker lines of a package block.
func fileOrder(lines []string, tag string) []string {
	var out []string
	prefix := "[" + tag + "] file "
	for _, l := range lines {
		if strings.HasPrefix(l, prefix) {
			out = append(out, strings.TrimPrefix(l, prefix))
		}
	}
	return out
}

// linkLines checks that each linkname call line is followed by the implementation it names.
func linkLines(trace []string) string {
	for i, l := range trace {
		if !strings.HasPrefix(l, "[") || !strings.Contains(l, "] call ") {
			continue
		}
		want := l[strings.Index(l, " -> ")+4:]
		if i+1 >= len(trace) || !strings.HasPrefix(trace[i+1], "  impl "+want+" ") {
			next := "<end of trace>"
			if i+1 < len(trace) {
				next = trace[i+1]
			}
			return fmt.Sprintf("linkname call %q reached %q", strings.TrimSpace(l), strings.TrimSpace(next))
		}
	}
	return ""
}

// mirror renames the files of every package so that ascending name order equals order[pkg].
func mirror(p *Program, order map[string][]string) map[string]string {
	out := map[string]string{}
	rename := map[string]string{}
	for pkg, names := range order {
		dir := pkg + "/"
		if pkg == "main" {
			dir = ""
		}
		for i, n := range names {
			rename[dir+n] = fmt.Sprintf("%sm%02d.go", dir, i)
		}
	}
	for k, v := range p.Files {
		if nk, ok := rename[k]; ok {
			out[nk] = v
		} else {
			out[k] = v
		}
	}
	return out
}

var (
	pairMu sync.Mutex
	pairs  = map[[2]string]string{} // (x,y): x was processed before y, seen in case
	orders = map[string]int{}
)

func notePairs(names []string, where string) string {
	pairMu.Lock()
	defer pairMu.Unlock()
	for i := range names {
		for j := i + 1; j < len(names); j++ {
			if w, ok := pairs[[2]string{names[j], names[i]}]; ok {
				return fmt.Sprintf("file %s is processed before %s in %s but after it in %s: the order does not depend on the names only", names[i], names[j], where, w)
			}
			pairs[[2]string{names[i], names[j]}] = where
			switch {
			case names[i] > names[j]:
				orders["descending"]++
			default:
				orders["ascending"]++
			}
		}
	}
	return ""
}

func runProgram(p *Program, label string) {
	c := drv.NewCase("c10_", p.Files, false)
	defer c.Remove()
	fail := func(desc string, extra map[string]string) {
		files := c.ReproFiles()
		for k, v := range extra {
			files[k] = v
		}
		ev.Violation(label+": "+desc, files)
	}
	jsPath, _, err := c.BuildJS(drv.BuildOpts{}, "out")
	if err != nil {
		if _, nerr := c.BuildNative(); nerr != nil {
			drv.Infra("generated program does not build natively (generator bug): %v", nerr)
		}
		fail("GopherJS build failed: "+err.Error(), nil)
		return
	}
	js := drv.RunNode(jsPath, nil, drv.NodeOpts{})
	bs := blocks(js.Trace)
	byPkg, problem := structure(p, bs)
	order := map[string][]string{}
	complete := true
	for _, name := range p.Pkgs {
		order[name] = fileOrder(byPkg[name], name)
		if len(order[name]) != len(p.PkgFiles[name]) {
			complete = false
		}
	}
	if !complete {
		// fall back to the listing order so that the native reference can still be shown
		for _, name := range p.Pkgs {
			order[name] = append([]string{}, p.PkgFiles[name]...)
			sort.Sort(sort.Reverse(sort.StringSlice(order[name])))
		}
	}
	m := drv.NewCase("c10m_", mirror(p, order), false)
	defer m.Remove()
	bin, nerr := m.BuildNative()
	if nerr != nil {
		drv.Infra("generated program does not build natively (generator bug): %v", nerr)
	}
	nat := drv.RunNative(bin, nil, 0)
	if nat.End != "exit0" {
		drv.Infra("native run of a generated program ended %s %s\n%s", nat.End, nat.Msg, nat.Stderr)
	}
	nbs := blocks(nat.Trace)
	nby, nproblem := structure(p, nbs)
	if nproblem != "" {
		drv.Infra("native trace does not have the expected structure (harness bug): %s\n%s", nproblem, strings.Join(nat.Trace, "\n"))
	}
	// evidence
	against := false
	for _, d := range p.CrossDeps {
		o := order[d.Pkg]
		if idx(o, d.ToFile) > idx(o, d.FromFile) {
			against = true
		}
	}
	ev.Case("prog:"+drv.Hash(fmt.Sprint(p.Files)), len(p.Pkgs) >= 4 && against && p.MaxInits >= 2)
	ev.Count("packages", int64(len(p.Pkgs)+1))
	ev.Count("suspending_initialisers_or_inits", int64(p.Suspends))
	for _, e := range p.Links {
		ev.Count("linkname:"+e.Kind+":"+e.Relation+fmt.Sprintf(":mirror=%v", e.Mirror), 1)
	}
	for k, v := range p.Kinds {
		ev.Count("dep:"+k, int64(v))
	}
	extra := map[string]string{"gopherjs.txt": js.String() + "\n" + js.Stderr, "native_mirror.txt": nat.String()}
	if js.End != "exit0" {
		fail(fmt.Sprintf("GopherJS run ended %s %q; native run of the mirror ends normally (%s)", js.End, js.Msg, drv.FirstDiff(js, nat)), extra)
		return
	}
	if problem != "" {
		fail(problem, extra)
		return
	}
	if !complete {
		fail("not every file's first init function ran exactly once", extra)
		return
	}
	for _, name := range p.Pkgs {
		if msg := notePairs(order[name], label+"/"+name); msg != "" {
			fail(msg, extra)
			return
		}
	}
	for _, name := range append([]string{"tr"}, p.Pkgs...) {
		a, b := byPkg[name], nby[name]
		if strings.Join(a, "\n") != strings.Join(b, "\n") {
			fail(fmt.Sprintf("package %s initialises differently from the native build with the same file order %v: %s", name, order[name], drv.FirstDiff(drv.Outcome{Trace: a, End: "x"}, drv.Outcome{Trace: b, End: "x"})), extra)
			return
		}
	}
	if msg := linkLines(js.Trace); msg != "" {
		fail(msg, extra)
		return
	}
	if label == "gen0" {
		ev.Sample(js.Trace)
	}
}

func idx(xs []string, x string) int {
	for i, y := range xs {
		if y == x {
			return i
		}
	}
	return -1
}

// invalidVariants derives programs with one unsupported directive each.
func invalidVariants(p *Program) map[string]map[string]string {
	out := map[string]map[string]string{}
	clone := func() map[string]string {
		m := map[string]string{}
		for k, v := range p.Files {
			m[k] = v
		}
		return m
	}
	// on a variable
	{
		m := clone()
		lib := p.Pkgs[0]
		target := p.Pkgs[len(p.Pkgs)-2]
		if target == lib {
			target = "tr"
		}
		m[lib+"/lkvar.go"] = "package " + lib + "\n\nimport _ \"unsafe\"\n\n//go:linkname lkvar ROOT/" + target + ".V0\nvar lkvar int\n"
		out["variable"] = m
	}
	if len(p.Links) > 0 {
		e := p.Links[0]
		src := p.Files[e.File]
		{
			m := clone()
			m[e.File] = strings.Replace(src, "import _ \"unsafe\"\n", "", 1)
			out["no-unsafe-import"] = m
		}
		{
			m := clone()
			lines := strings.Split(src, "\n")
			for i, l := range lines {
				if strings.HasPrefix(l, "func "+e.RefSym+"(") {
					lines[i] = l + " { return 0 }"
				}
			}
			m[e.File] = strings.Join(lines, "\n")
			out["local-body"] = m
		}
	}
	return out
}

func runInvalid(p *Program, label string) {
	vs := invalidVariants(p)
	for _, kind := range drv.SortedKeys(vs) {
		files := vs[kind]
		c := drv.NewCase("c10i_", files, false)
		_, err := drv.Compile(c.Dir, drv.BuildOpts{})
		ev.Count("invalid:"+kind, 1)
		switch {
		case err == nil:
			ev.Violation(fmt.Sprintf("%s: go:linkname %s is accepted by the build", label, kind), c.ReproFiles())
		case drv.IsCompilerInternalError(err):
			ev.Violation(fmt.Sprintf("%s: go:linkname %s crashes the compiler instead of being rejected: %v", label, kind, err), c.ReproFiles())
		}
		c.Remove()
	}
}

func TestCheck(t *testing.T) {
	ev = drv.NewEvidence("C10", "exploration", rule)
	ev.Assume("the relative order in which independent packages are initialised is not part of the property (Go >= 1.21 sorts by import path, GopherJS walks imports depth first); only blocks per package and the partial order are compared")
	if dir := os.Getenv("VERIF_REPLAY"); dir != "" {
		files := drv.ReadReplayDir(dir)
		p := programFromFiles(files)
		runProgram(p, "replay")
		return
	}
	n := 48
	if drv.Thorough() {
		n = 250
	}
	progs := make([]Program, n)
	for i := range progs {
		progs[i] = rapid.Custom(Gen).Example(drv.Seed()*7001 + i)
	}
	drv.Parallel(n, func(i int) {
		runProgram(&progs[i], fmt.Sprintf("gen%d", i))
		if i%2 == 0 {
			runInvalid(&progs[i], fmt.Sprintf("gen%d", i))
		}
	})
	pairMu.Lock()
	ev.Set("file_name_pairs_observed", len(pairs))
	ev.Set("file_order_pairs_by_direction", fmt.Sprint(orders))
	pairMu.Unlock()
}

// programFromFiles rebuilds the graph facts of a stored program from its sources.
func programFromFiles(files map[string]string) *Program {
	p := &Program{Files: map[string]string{}, Imports: map[string][]string{}, PkgFiles: map[string][]string{}}
	pk := map[string]bool{}
	for k, v := range files {
		if !strings.HasSuffix(k, ".go") && !strings.HasSuffix(k, ".s") {
			continue
		}
		p.Files[k] = v
		if !strings.HasSuffix(k, ".go") {
			continue
		}
		dir := path.Dir(k)
		name := dir
		if dir == "." {
			name = "main"
		}
		if name == "tr" {
			continue
		}
		pk[name] = true
		p.PkgFiles[name] = append(p.PkgFiles[name], path.Base(k))
		for _, l := range strings.Split(v, "\n") {
			l = strings.TrimSpace(l)
			l = strings.TrimPrefix(l, "import ")
			l = strings.TrimPrefix(l, "_ ")
			if strings.HasPrefix(l, "\"ROOT/") && strings.HasSuffix(l, "\"") {
				imp := strings.TrimSuffix(strings.TrimPrefix(l, "\"ROOT/"), "\"")
				if imp != "tr" && idx(p.Imports[name], imp) < 0 {
					p.Imports[name] = append(p.Imports[name], imp)
				}
			}
		}
	}
	for name := range pk {
		if name != "main" {
			p.Pkgs = append(p.Pkgs, name)
		}
	}
	sort.Strings(p.Pkgs)
	p.Pkgs = append(p.Pkgs, "main")
	return p
}
