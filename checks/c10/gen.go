package c10

import (
	"fmt"
	"sort"
	"strings"

	"pgregory.net/rapid"
)

// A generated program is a tree of packages: ROOT/tr (trace helpers), 2-6 library packages
// and the main package in the root directory.

const trSrc = `package tr

import "runtime"

func Itoa(n int) string {
	if n == 0 {
		return "0"
	}
	neg := n < 0
	if neg {
		n = -n
	}
	var b [24]byte
	i := len(b)
	for n > 0 {
		i--
		b[i] = byte('0' + n%10)
		n /= 10
	}
	s := string(b[i:])
	if neg {
		s = "-" + s
	}
	return s
}

// Log prints a line owned by the package that is being initialised.
func Log(pkg, s string) { println("[" + pkg + "] " + s) }

// Raw prints a line that belongs to whatever block is open.
func Raw(s string) { println("  " + s) }

var flip int

// Yield suspends the calling goroutine in one of three ways.
func Yield() {
	flip++
	switch flip % 3 {
	case 0:
		runtime.Gosched()
	case 1:
		c := make(chan int)
		go func() { c <- 1 }()
		<-c
	default:
		c := make(chan int, 1)
		go func() {
			runtime.Gosched()
			c <- 1
		}()
		<-c
	}
}

func Mix(base int, deps ...int) int {
	s := base
	for _, d := range deps {
		s = (s*31 + d) % 65521
	}
	return s
}

func V(pkg, name string, base int, deps ...int) int {
	v := Mix(base, deps...)
	Log(pkg, "var "+name+" = "+Itoa(v))
	return v
}

// VY is V with a suspension before and after the trace line.
func VY(pkg, name string, base int, deps ...int) int {
	Yield()
	v := Mix(base, deps...)
	Log(pkg, "var "+name+" = "+Itoa(v)+" (suspending)")
	Yield()
	return v
}

func V2(pkg, n1, n2 string, base int, deps ...int) (int, int) {
	v := Mix(base, deps...)
	Log(pkg, "vars "+n1+", "+n2+" = "+Itoa(v)+", "+Itoa(v+1))
	return v, v + 1
}

var (
	gate = make(chan string)
	done = make(chan int)
	parked bool
)

// Park starts a goroutine during initialisation that stays blocked until main.main releases it.
func Park(tag string) {
	if parked {
		return
	}
	parked = true
	go func() {
		who := <-gate
		Raw("parked goroutine of " + tag + " released by " + who)
		done <- 1
	}()
}

func Release(who string) {
	if !parked {
		return
	}
	gate <- who
	<-done
}

var initialised = V("tr", "tr.initialised", 1)

func init() { Log("tr", "init tr") }
`

var pkgNamePool = []string{"pa", "pb", "pc", "pd", "pe", "pf", "pg"}

var fileNamePool = []string{"a.go", "b.go", "c.go", "B.go", "z9.go", "z10.go", "m_x.go", "m-x.go", "aa.go", "Zz.go"}

type depKind int

const (
	dDirect depKind = iota
	dFunc
	dChain
	dMethod
	dMethodExpr
	dPtrMethod
	dMethodValue
	dClosure
	dFuncVar
	dGeneric
	dIface
	dImportVar
	dImportFunc
	dLink
	dCounter
	nDepKinds
)

type fileB struct {
	name    string
	decls   []string
	imports map[string]bool // import paths (without ROOT/ for std)
	unsafe  bool
	inits   int
}

type pkgB struct {
	name       string
	path       string // ROOT/<name> or "" for main
	imports    []int  // indexes into prog.pkgs
	files      []*fileB
	nvars      int
	varFile    []int // file index of var i
	varRank    []int
	hseq       int
	hasLink    bool
	hasCounter bool
}

// CrossDep is an initialiser dependency between two variables of one package that are
// declared in different files.
type CrossDep struct{ Pkg, FromFile, ToFile string }

type LinkEdge struct {
	Ref, Impl string // package names
	Kind      string // func | val | ptr
	Relation  string // imports | imported-by | unrelated
	Mirror    bool   // reference declares the receiver with a local type of identical shape
	RefSym    string
	ImplSym   string
	File      string // file of the directive, relative to the root
	Exported  bool   // the body-less function is exported and called from main as well
}

type Program struct {
	Files     map[string]string
	Pkgs      []string            // package names, main last
	Imports   map[string][]string // package name -> imported package names (tr excluded)
	PkgFiles  map[string][]string // package name -> file names
	CrossDeps []CrossDep
	MaxInits  int // max number of init functions in one package
	Links     []LinkEdge
	Suspends  int
	Kinds     map[string]int
}

type gen struct {
	rt   *rapid.T
	pkgs []*pkgB
	prog *Program
}

func (g *gen) intn(label string, lo, hi int) int { return rapid.IntRange(lo, hi).Draw(g.rt, label) }
func (g *gen) chance(label string, pct int) bool { return g.intn(label, 0, 99) < pct }

func (p *pkgB) tag() string { return p.name }

func (p *pkgB) varName(i int) string { return fmt.Sprintf("V%d", i) }

func (f *fileB) add(g *gen, decl string) {
	// the marker init stays first; everything else lands at a drawn position
	pos := 1
	if len(f.decls) > 1 {
		pos = g.intn("declpos", 1, len(f.decls))
	}
	f.decls = append(f.decls, "")
	copy(f.decls[pos+1:], f.decls[pos:])
	f.decls[pos] = decl
}

func (g *gen) pickFile(p *pkgB) (int, *fileB) {
	i := g.intn("file", 0, len(p.files)-1)
	return i, p.files[i]
}

func (g *gen) imported(p *pkgB, q *pkgB) bool {
	for _, j := range p.imports {
		if g.pkgs[j] == q {
			return true
		}
	}
	return false
}

// reaches reports whether p imports q transitively.
func (g *gen) reaches(p, q *pkgB) bool {
	for _, j := range p.imports {
		if g.pkgs[j] == q || g.reaches(g.pkgs[j], q) {
			return true
		}
	}
	return false
}

// Gen draws a program.
func Gen(rt *rapid.T) Program {
	g := &gen{rt: rt, prog: &Program{Files: map[string]string{}, Imports: map[string][]string{}, PkgFiles: map[string][]string{}, Kinds: map[string]int{}}}
	n := g.intn("npkgs", 2, 6)
	names := rapid.Permutation(pkgNamePool).Draw(rt, "pkgnames")[:n]
	for i := 0; i < n; i++ {
		g.pkgs = append(g.pkgs, &pkgB{name: names[i], path: "ROOT/" + names[i]})
	}
	g.pkgs = append(g.pkgs, &pkgB{name: "main"})
	// import DAG: package i may import packages with a larger index
	importedBy := make([]int, n)
	for i := 0; i < n; i++ {
		for j := i + 1; j < n; j++ {
			if g.chance("imports", 45) {
				g.pkgs[i].imports = append(g.pkgs[i].imports, j)
				importedBy[j]++
			}
		}
	}
	mainP := g.pkgs[n]
	for i := 0; i < n; i++ {
		if importedBy[i] == 0 || g.chance("mainimports", 30) {
			mainP.imports = append(mainP.imports, i)
		}
	}
	// files
	for _, p := range g.pkgs {
		nf := g.intn("nfiles", 1, 3)
		fn := rapid.Permutation(fileNamePool).Draw(rt, "filenames")[:nf]
		for _, name := range fn {
			f := &fileB{name: name, imports: map[string]bool{"ROOT/tr": true}}
			f.decls = append(f.decls, fmt.Sprintf("func init() { tr.Log(%q, \"file %s\") }", p.tag(), name))
			f.inits++
			p.files = append(p.files, f)
		}
	}
	// variables, in reverse package order so that imported packages are complete first
	for i := n; i >= 0; i-- {
		g.genVars(g.pkgs[i])
	}
	g.genLinks()
	for _, p := range g.pkgs {
		g.genInits(p)
	}
	g.genMain(mainP)
	g.render()
	return *g.prog
}

func (g *gen) genVars(p *pkgB) {
	p.nvars = g.intn("nvars", 2, 7)
	rank := rapid.Permutation(seq(p.nvars)).Draw(g.rt, "ranks")
	p.varRank = rank
	p.varFile = make([]int, p.nvars)
	for v := 0; v < p.nvars; v++ {
		p.varFile[v], _ = g.pickFile(p)
	}
	// forms are drawn first: a pair shares one declaration (and therefore one file)
	skip := map[int]bool{}
	forms := make([]int, p.nvars)
	for v := 0; v < p.nvars; v++ {
		forms[v] = g.intn("varform", 0, 9)
		if skip[v] || forms[v] != 7 {
			continue
		}
		if v+1 < p.nvars && rank[v+1] > rank[v] {
			skip[v+1] = true
			p.varFile[v+1] = p.varFile[v]
		} else {
			forms[v] = 0
		}
	}
	for v := 0; v < p.nvars; v++ {
		if skip[v] {
			continue
		}
		f := p.files[p.varFile[v]]
		var deps []string
		nd := g.intn("ndeps", 0, 3)
		for d := 0; d < nd; d++ {
			if e := g.genDep(p, v, f); e != "" {
				deps = append(deps, e)
			}
		}
		args := fmt.Sprintf("%q, %q, %d", p.tag(), p.tag()+"."+p.varName(v), 3+v)
		if len(deps) > 0 {
			args += ", " + strings.Join(deps, ", ")
		}
		switch form := forms[v]; {
		case form <= 4:
			f.add(g, fmt.Sprintf("var %s = tr.V(%s)", p.varName(v), args))
		case form <= 6:
			g.prog.Suspends++
			f.add(g, fmt.Sprintf("var %s = tr.VY(%s)", p.varName(v), args))
		case form == 7:
			// two variables from one call; the partner has a higher rank, so nothing v
			// depends on can depend on the partner
			args2 := fmt.Sprintf("%q, %q, %q, %d", p.tag(), p.tag()+"."+p.varName(v), p.tag()+"."+p.varName(v+1), 3+v)
			if len(deps) > 0 {
				args2 += ", " + strings.Join(deps, ", ")
			}
			f.add(g, fmt.Sprintf("var %s, %s = tr.V2(%s)", p.varName(v), p.varName(v+1), args2))
		case form == 8:
			// grouped declaration with a blank variable
			f.add(g, fmt.Sprintf("var (\n\t_ = tr.V(%q, %q, %d)\n\t%s = tr.V(%s)\n)", p.tag(), p.tag()+"._before_"+p.varName(v), 90+v, p.varName(v), args))
		default:
			f.add(g, fmt.Sprintf("var %s int = tr.V(%s)", p.varName(v), args))
		}
	}
}

func seq(n int) []int {
	s := make([]int, n)
	for i := range s {
		s[i] = i
	}
	return s
}

// genDep returns an expression of type int that makes variable v of p depend on something
// that must be initialised earlier; helper declarations are added to drawn files.
func (g *gen) genDep(p *pkgB, v int, from *fileB) string {
	k := depKind(g.intn("depkind", 0, int(nDepKinds)-1))
	if k == dLink {
		return "" // added by genLinks
	}
	if k == dCounter {
		// variables declared without an initialiser hold their zero value before any
		// initialiser runs; initialisers write them through these functions
		g.prog.Kinds["zero-valued"]++
		if !p.hasCounter {
			p.hasCounter = true
			_, cf := g.pickFile(p)
			cf.add(g, "var counter int\n\nvar table [3]int\n\nvar names []string\n\nfunc bump(tag string) int {\n\tcounter++\n\ttable[counter%3] += counter\n\tnames = append(names, tag)\n\treturn counter*100 + table[counter%3] + len(names)\n}")
		}
		return fmt.Sprintf("bump(%q)", p.varName(v))
	}
	if k == dImportVar || k == dImportFunc {
		if len(p.imports) == 0 {
			return ""
		}
		q := g.pkgs[p.imports[g.intn("imp", 0, len(p.imports)-1)]]
		w := g.intn("impvar", 0, q.nvars-1)
		from.imports[q.path] = true
		g.prog.Kinds["import"]++
		if k == dImportVar {
			return q.name + "." + q.varName(w)
		}
		return q.name + ".Get" + q.varName(w) + "()"
	}
	// a same-package target; the interface form may name any variable (no static dependency)
	var cands []int
	for w := 0; w < p.nvars; w++ {
		if w != v && (p.varRank[w] < p.varRank[v] || k == dIface) {
			cands = append(cands, w)
		}
	}
	if len(cands) == 0 {
		return ""
	}
	w := cands[g.intn("target", 0, len(cands)-1)]
	target := p.varName(w)
	hi, hf := g.pickFile(p)
	p.hseq++
	h := fmt.Sprintf("h%d", p.hseq)
	note := func(helperFile int) {
		if k != dIface {
			if p.varFile[w] != p.varFile[v] {
				g.prog.CrossDeps = append(g.prog.CrossDeps, CrossDep{p.name, p.files[p.varFile[v]].name, p.files[p.varFile[w]].name})
			}
		}
	}
	note(hi)
	switch k {
	case dDirect:
		g.prog.Kinds["direct"]++
		return target
	case dFunc:
		g.prog.Kinds["func"]++
		hf.add(g, fmt.Sprintf("func %s() int { return %s + 1 }", h, target))
		return h + "()"
	case dChain:
		g.prog.Kinds["chain"]++
		_, hf2 := g.pickFile(p)
		hf.add(g, fmt.Sprintf("func %s() int { return %sb() * 2 }", h, h))
		hf2.add(g, fmt.Sprintf("func %sb() int {\n\tif %s > 0 {\n\t\treturn %s\n\t}\n\treturn -1\n}", h, target, target))
		return h + "()"
	case dMethod:
		g.prog.Kinds["method"]++
		hf.add(g, fmt.Sprintf("type t%s struct{ k int }\n\nfunc (r t%s) get() int { return %s + r.k }", h, h, target))
		return fmt.Sprintf("t%s{k: 2}.get()", h)
	case dMethodExpr:
		g.prog.Kinds["methodexpr"]++
		hf.add(g, fmt.Sprintf("type t%s struct{ k int }\n\nfunc (r t%s) get() int { return %s + r.k }", h, h, target))
		return fmt.Sprintf("t%s.get(t%s{k: 3})", h, h)
	case dPtrMethod:
		g.prog.Kinds["ptrmethod"]++
		hf.add(g, fmt.Sprintf("type t%s struct{ k int }\n\nfunc (r *t%s) get() int { return %s + r.k }", h, h, target))
		return fmt.Sprintf("(&t%s{k: 4}).get()", h)
	case dMethodValue:
		g.prog.Kinds["methodvalue"]++
		hf.add(g, fmt.Sprintf("type t%s struct{ k int }\n\nfunc (r t%s) get() int { return %s + r.k }", h, h, target))
		return fmt.Sprintf("func() int { f := t%s{k: 5}.get; return f() }()", h)
	case dClosure:
		g.prog.Kinds["closure"]++
		return fmt.Sprintf("func() int { return %s + 6 }()", target)
	case dFuncVar:
		g.prog.Kinds["funcvar"]++
		hf.add(g, fmt.Sprintf("var %s = func() int { return %s + 7 }", h, target))
		return h + "()"
	case dGeneric:
		g.prog.Kinds["generic"]++
		hf.add(g, fmt.Sprintf("func %s[T any](x T) int { _ = x; return %s + 8 }", h, target))
		if g.chance("explicit", 50) {
			return h + "[string](\"\")"
		}
		return h + "(0)"
	case dIface:
		// a method reached through an interface value is not a dependency: the variables stay in
		// declaration order. The target may not be initialised yet, so its value is not used
		// (what an uninitialised package variable holds is not this property's subject).
		g.prog.Kinds["iface-hidden"]++
		hf.add(g, fmt.Sprintf("type i%s interface{ get() int }\n\ntype t%s struct{}\n\nfunc (t%s) get() int {\n\t_ = %s\n\treturn 9\n}\n\nvar %s i%s = t%s{}", h, h, h, target, h, h, h))
		return h + ".get()"
	}
	return ""
}

func (g *gen) genLinks() {
	n := len(g.pkgs) - 1
	ne := g.intn("nlinks", 0, 3)
	for e := 0; e < ne; e++ {
		impl := g.pkgs[g.intn("implpkg", 0, n-1)]
		ref := g.pkgs[g.intn("refpkg", 0, n)]
		if ref == impl {
			continue
		}
		kind := rapid.SampledFrom([]string{"func", "val", "ptr"}).Draw(g.rt, "linkkind")
		rel := "unrelated"
		if g.reaches(ref, impl) {
			rel = "imports"
		} else if g.reaches(impl, ref) {
			rel = "imported-by"
		}
		id := fmt.Sprintf("%d", e)
		edge := LinkEdge{Ref: ref.name, Impl: impl.name, Kind: kind, Relation: rel}
		_, implF := g.pickFile(impl)
		_, refF := g.pickFile(ref)
		refF.unsafe = true
		ref.hasLink = true
		tname := "lT" + id
		useReal := kind != "func" && g.imported(ref, impl) && g.chance("realtype", 50)
		if useReal {
			tname = "LT" + id
		}
		edge.Mirror = kind != "func" && !useReal
		var wrapper, directive string
		switch kind {
		case "func":
			edge.ImplSym = "ROOT/" + impl.name + ".hidden" + id
			implF.add(g, fmt.Sprintf("func hidden%s(x int) int {\n\ttr.Raw(\"impl %s.hidden%s x=\" + tr.Itoa(x))\n\treturn x*3 + 1\n}", id, impl.name, id))
			rn := "ref" + id
			if ref.name != "main" && g.chance("exportedref", 50) {
				// an exported reference is also called directly from another package
				rn = "Ref" + id
				edge.Exported = true
			}
			directive = fmt.Sprintf("//go:linkname %s %s\nfunc %s(x int) int", rn, edge.ImplSym, rn)
			wrapper = fmt.Sprintf("\tr := %s(x)\n", rn)
		case "val":
			edge.ImplSym = "ROOT/" + impl.name + "." + tname + ".lval" + id
			implF.add(g, fmt.Sprintf("type %s struct{ A, B int }\n\nfunc (t %s) lval%s(x int) int {\n\ttr.Raw(\"impl %s.%s.lval%s A=\" + tr.Itoa(t.A) + \" B=\" + tr.Itoa(t.B) + \" x=\" + tr.Itoa(x))\n\tt.A += 1000\n\treturn t.A*7 + t.B + x\n}", tname, tname, id, impl.name, tname, id))
			rt := "mT" + id
			if useReal {
				rt = impl.name + "." + tname
				refF.imports[impl.path] = true
			} else {
				refF.add(g, fmt.Sprintf("type mT%s struct{ A, B int }", id))
			}
			directive = fmt.Sprintf("//go:linkname ref%s %s\nfunc ref%s(t %s, x int) int", id, edge.ImplSym, id, rt)
			wrapper = fmt.Sprintf("\tt := %s{A: x, B: 2}\n\tr := ref%s(t, x)\n\tr = r*10 + t.A\n", rt, id)
		case "ptr":
			edge.ImplSym = "ROOT/" + impl.name + ".(*" + tname + ").lptr" + id
			implF.add(g, fmt.Sprintf("type %s struct{ A, B int }\n\nfunc (t *%s) lptr%s(x int) int {\n\ttr.Raw(\"impl %s.(*%s).lptr%s A=\" + tr.Itoa(t.A) + \" B=\" + tr.Itoa(t.B) + \" x=\" + tr.Itoa(x))\n\tt.A += x\n\treturn t.A + t.B\n}", tname, tname, id, impl.name, tname, id))
			rt := "mT" + id
			if useReal {
				rt = impl.name + "." + tname
				refF.imports[impl.path] = true
			} else {
				refF.add(g, fmt.Sprintf("type mT%s struct{ A, B int }", id))
			}
			directive = fmt.Sprintf("//go:linkname ref%s %s\nfunc ref%s(t *%s, x int) int", id, edge.ImplSym, id, rt)
			wrapper = fmt.Sprintf("\tt := &%s{A: x, B: 2}\n\tr := ref%s(t, x)\n\tr = r*10 + t.A\n", rt, id)
		}
		edge.RefSym = "ref" + id
		if edge.Exported {
			edge.RefSym = "Ref" + id
		}
		edge.File = refF.name
		if ref.name != "main" {
			edge.File = ref.name + "/" + refF.name
		}
		refF.add(g, directive)
		_, wf := g.pickFile(ref)
		if useReal {
			wf.imports[impl.path] = true
		}
		wf.add(g, fmt.Sprintf("func Lk%s(who string, x int) int {\n\ttr.Log(who, \"call %s.ref%s -> %s\")\n%s\ttr.Raw(\"ret \" + tr.Itoa(r))\n\treturn r\n}", id, ref.name, id, strings.TrimPrefix(edge.ImplSym, "ROOT/"), wrapper))
		// a variable of the referencing package initialised through the link
		if g.chance("linkvar", 50) {
			_, vf := g.pickFile(ref)
			vf.add(g, fmt.Sprintf("var viaLink%s = tr.V(%q, %q, 50, Lk%s(%q, %d))", id, ref.tag(), ref.tag()+".viaLink"+id, id, ref.tag(), e+2))
		}
		g.prog.Links = append(g.prog.Links, edge)
	}
}

func (g *gen) genInits(p *pkgB) {
	for _, f := range p.files {
		ni := g.intn("ninits", 0, 2)
		for k := 0; k < ni; k++ {
			f.inits++
			var body strings.Builder
			vals := []string{}
			for w := 0; w < p.nvars; w++ {
				if g.chance("initreads", 40) {
					vals = append(vals, p.varName(w))
				}
			}
			sum := "0"
			if len(vals) > 0 {
				sum = "tr.Mix(1, " + strings.Join(vals, ", ") + ")"
			}
			if g.chance("inityield", 35) {
				g.prog.Suspends++
				body.WriteString("\ttr.Yield()\n")
			}
			if p.hasCounter {
				sum = "tr.Mix(" + sum + ", counter, table[0], table[1], table[2], len(names))"
			}
			fmt.Fprintf(&body, "\ttr.Log(%q, \"init %s#%d sees \" + tr.Itoa(%s))\n", p.tag(), f.name, f.inits, sum)
			switch g.intn("initextra", 0, 9) {
			case 0, 1:
				g.prog.Suspends++
				body.WriteString("\ttr.Yield()\n")
				fmt.Fprintf(&body, "\ttr.Log(%q, \"init %s#%d resumed\")\n", p.tag(), f.name, f.inits)
			case 2:
				g.prog.Suspends++
				fmt.Fprintf(&body, "\tc := make(chan int)\n\tgo func() {\n\t\ttr.Log(%q, \"goroutine of init %s#%d\")\n\t\tc <- 1\n\t}()\n\t<-c\n", p.tag(), f.name, f.inits)
			case 3:
				fmt.Fprintf(&body, "\t%s = tr.V(%q, %q, 70, %s)\n", p.varName(0), p.tag(), p.tag()+"."+p.varName(0)+"(reassigned)", p.varName(0))
			case 4:
				fmt.Fprintf(&body, "\ttr.Park(%q)\n", p.tag())
			case 5:
				for _, e := range g.prog.Links {
					if e.Ref == p.name {
						fmt.Fprintf(&body, "\tLk%s(%q, 9)\n", strings.TrimPrefix(strings.TrimPrefix(e.RefSym, "ref"), "Ref"), p.tag())
						break
					}
				}
			}
			f.add(g, "func init() {\n"+body.String()+"}")
		}
	}
	// accessors used by importers
	for w := 0; w < p.nvars; w++ {
		_, f := g.pickFile(p)
		f.add(g, fmt.Sprintf("func Get%s() int { return %s }", p.varName(w), p.varName(w)))
	}
}

func (g *gen) genMain(p *pkgB) {
	var body strings.Builder
	body.WriteString("\ttr.Log(\"main\", \"main.main starts\")\n")
	f := p.files[0]
	for _, j := range p.imports {
		q := g.pkgs[j]
		f.imports[q.path] = true
		fmt.Fprintf(&body, "\ttr.Log(\"main\", \"%s has \" + tr.Itoa(tr.Mix(1", q.name)
		for w := 0; w < q.nvars; w++ {
			fmt.Fprintf(&body, ", %s.%s", q.name, q.varName(w))
		}
		body.WriteString(")))\n")
	}
	for _, e := range g.prog.Links {
		id := strings.TrimPrefix(strings.TrimPrefix(e.RefSym, "ref"), "Ref")
		if e.Ref == "main" {
			fmt.Fprintf(&body, "\tLk%s(\"main\", 4)\n", id)
		} else {
			f.imports["ROOT/"+e.Ref] = true
			fmt.Fprintf(&body, "\t%s.Lk%s(\"main\", 4)\n", e.Ref, id)
			if e.Exported {
				fmt.Fprintf(&body, "\ttr.Log(\"main\", \"call %s.%s -> %s\")\n\ttr.Raw(\"ret \" + tr.Itoa(%s.%s(6)))\n\tfv%s := %s.%s\n\ttr.Raw(\"ret \" + tr.Itoa(fv%s(8)))\n", e.Ref, e.RefSym, strings.TrimPrefix(e.ImplSym, "ROOT/"), e.Ref, e.RefSym, id, e.Ref, e.RefSym, id)
			}
		}
	}
	body.WriteString("\ttr.Release(\"main.main\")\n\ttr.Log(\"main\", \"main.main ends\")\n")
	f.decls = append(f.decls, "func main() {\n"+body.String()+"}")
}

func (g *gen) render() {
	g.prog.Files["tr/tr.go"] = trSrc
	for _, p := range g.pkgs {
		dir := p.name + "/"
		if p.name == "main" {
			dir = ""
		}
		g.prog.Pkgs = append(g.prog.Pkgs, p.name)
		inits := 0
		imps := map[string]bool{}
		used := map[string]bool{}
		for _, f := range p.files {
			for ip := range f.imports {
				used[ip] = true
			}
		}
		// every package of the DAG is linked in: declared imports that no file uses become blank imports
		for _, j := range p.imports {
			if q := g.pkgs[j]; !used[q.path] {
				p.files[len(p.files)-1].imports["_ "+q.path] = true
			}
		}
		for _, f := range p.files {
			inits += f.inits
			var sb strings.Builder
			sb.WriteString("package " + p.name + "\n\n")
			var paths []string
			for ip := range f.imports {
				paths = append(paths, ip)
				if ip != "ROOT/tr" {
					imps[strings.TrimPrefix(strings.TrimPrefix(ip, "_ "), "ROOT/")] = true
				}
			}
			sort.Strings(paths)
			sb.WriteString("import (\n")
			for _, ip := range paths {
				if strings.HasPrefix(ip, "_ ") {
					sb.WriteString("\t_ \"" + ip[2:] + "\"\n")
				} else {
					sb.WriteString("\t\"" + ip + "\"\n")
				}
			}
			sb.WriteString(")\n\n")
			if f.unsafe {
				sb.WriteString("import _ \"unsafe\"\n\n")
			}
			sb.WriteString(strings.Join(f.decls, "\n\n"))
			sb.WriteString("\n")
			g.prog.Files[dir+f.name] = sb.String()
			g.prog.PkgFiles[p.name] = append(g.prog.PkgFiles[p.name], f.name)
		}
		for q := range imps {
			g.prog.Imports[p.name] = append(g.prog.Imports[p.name], q)
		}
		sort.Strings(g.prog.Imports[p.name])
		if p.hasLink {
			g.prog.Files[dir+"stub.s"] = ""
		}
		if inits > g.prog.MaxInits {
			g.prog.MaxInits = inits
		}
	}
}
