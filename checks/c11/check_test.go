package c11

import (
	"fmt"
	"math"
	"sort"
	"strconv"
	"strings"
	"testing"
	"unicode/utf16"

	"pgregory.net/rapid"

	"verif/internal/drv"
)

var ev *drv.Evidence

func TestMain(m *testing.M) { drv.TestMain(m, func() *drv.Evidence { return ev }) }

const rule = "rapid-generated (Go type, value) pairs over the documented conversion table (bool, all integer widths in range, int64/uint64 within +-2^53, float32/64 incl. NaN, +-0, +-Inf, subnormals, valid Unicode strings incl. non-BMP and NUL, numeric slices and arrays, other slices, string-keyed maps, structs with exported and unexported fields, nil values, interfaces holding these, nested composites) pushed through every path (call argument, property Set/Get, array SetIndex/Index, return value of an exposed function, New) and described on the JavaScript side by a fixed structural describe function (typeof, constructor, Object.is, UTF-16 code units, typed-array class, sorted keys); the expectation is computed by the harness from the js package documentation; the value read back with Interface() is described on the Go side and must give the same string; typed accessors, exposed functions with converted arguments/results, MakeFunc, MakeWrapper, tagged struct fields wrapping a js.Object, function identity and the blocking-callback guard are fixed scenario families with generated values. Non-trivial probe: value is not the zero value and exercises a non-default branch (non-ASCII string, 64-bit integer, float special, typed array, nested composite, nil); distinct by (type, value) text."

// ---------- value model ----------

type val struct {
	typ  string // Go type expression
	lit  string // Go expression
	desc string // expected canonical description
	nt   bool
	decl string // extra declarations
	// jsobj: the value is a *js.Object or leads to one through first fields / interfaces; a struct
	// "containing a *js.Object field" is passed as the content of that field (package js doc)
	jsobj bool
}

func numDesc(f float64) string {
	if f != f {
		return "num:NaN"
	}
	return fmt.Sprintf("num:%016x", math.Float64bits(f))
}

func strDesc(s string) string {
	u := utf16.Encode([]rune(s))
	parts := make([]string, len(u))
	for i, c := range u {
		parts[i] = strconv.FormatUint(uint64(c), 16)
	}
	return "str:" + strings.Join(parts, ".")
}

func keyDesc(s string) string { return strDesc(s)[4:] }

type vgen struct {
	rt    *rapid.T
	n     int
	decls strings.Builder
}

var intKinds = []struct {
	name     string
	min, max int64
	arr      string
}{
	{"int8", -128, 127, "Int8Array"}, {"int16", -32768, 32767, "Int16Array"}, {"int32", math.MinInt32, math.MaxInt32, "Int32Array"}, {"int", math.MinInt32, math.MaxInt32, "Int32Array"},
	{"uint8", 0, 255, "Uint8Array"}, {"uint16", 0, 65535, "Uint16Array"}, {"uint32", 0, math.MaxUint32, "Uint32Array"}, {"uint", 0, math.MaxUint32, "Uint32Array"},
	{"int64", -(1 << 53), 1 << 53, ""}, {"uint64", 0, 1 << 53, ""}, {"uintptr", 0, math.MaxUint32, ""},
}

func (g *vgen) intVal(k int) val {
	ik := intKinds[k]
	var v int64
	switch rapid.IntRange(0, 3).Draw(g.rt, "intsel") {
	case 0:
		v = rapid.SampledFrom([]int64{0, 1, ik.min, ik.max, ik.max - 1, ik.min + 1}).Draw(g.rt, "ibound")
	case 1:
		v = rapid.Int64Range(ik.min, ik.max).Draw(g.rt, "iany")
	default:
		v = rapid.Int64Range(-100, 100).Draw(g.rt, "ismall")
		if v < ik.min {
			v = -v
		}
	}
	if v < ik.min {
		v = ik.min
	}
	if v > ik.max {
		v = ik.max
	}
	return val{typ: ik.name, lit: fmt.Sprintf("%s(%d)", ik.name, v), desc: numDesc(float64(v)), nt: v != 0 && (ik.name == "int64" || ik.name == "uint64" || v == ik.min || v == ik.max)}
}

var floatSpecials = []float64{0, math.Copysign(0, -1), 1, -1.5, math.Inf(1), math.Inf(-1), math.NaN(), math.SmallestNonzeroFloat64, math.MaxFloat64, 16777217, 0.1, 1e21, 1e-7, 123456789.125}

func floatLit(f float64, typ string) string {
	switch {
	case f != f:
		return typ + "(math.NaN())"
	case math.IsInf(f, 1):
		return typ + "(math.Inf(1))"
	case math.IsInf(f, -1):
		return typ + "(math.Inf(-1))"
	case f == 0 && math.Signbit(f):
		return typ + "(math.Copysign(0, -1))"
	}
	return fmt.Sprintf("%s(math.Float64frombits(0x%016x))", typ, math.Float64bits(f))
}

func (g *vgen) floatVal(bits int) val {
	var f float64
	if rapid.Bool().Draw(g.rt, "fspecial") {
		f = rapid.SampledFrom(floatSpecials).Draw(g.rt, "fs")
	} else {
		f = rapid.Float64().Draw(g.rt, "f")
	}
	typ := "float64"
	if bits == 32 {
		typ = "float32"
		f = float64(float32(f))
	}
	return val{typ: typ, lit: floatLit(f, typ), desc: numDesc(f), nt: f != f || f == 0 && math.Signbit(f) || math.IsInf(f, 0) || math.Abs(f) < 1e-300 && f != 0}
}

func goStr(s string) string { return strconv.QuoteToASCII(s) }

func (g *vgen) strVal() val {
	var s string
	switch rapid.IntRange(0, 3).Draw(g.rt, "strsel") {
	case 0:
		s = rapid.SampledFrom([]string{"", "a", "hello", "\x00", "a\x00b", "é", "世界", "😀", "a😀b\U0010FFFF", "\U0010FC00\U0010FBFF", "\U0010FFFE!", "\U000FFFFF\U00100000", "\uFFFD", "\u2028\u2029", "\"quoted\\\"", "\U00010000", "\uD7FF\uE000"}).Draw(g.rt, "sfixed")
	default:
		s = rapid.StringN(0, 12, -1).Draw(g.rt, "s")
	}
	nt := false
	for _, r := range s {
		if r > 0x7f || r == 0 {
			nt = true
		}
	}
	return val{typ: "string", lit: goStr(s), desc: strDesc(s), nt: nt}
}

func (g *vgen) scalar() val {
	switch k := rapid.IntRange(0, 15).Draw(g.rt, "scalar"); {
	case k == 0:
		b := rapid.Bool().Draw(g.rt, "b")
		return val{typ: "bool", lit: fmt.Sprint(b), desc: fmt.Sprintf("bool:%v", b), nt: b}
	case k <= 11:
		return g.intVal(k - 1)
	case k == 12:
		return g.floatVal(32)
	case k == 13:
		return g.floatVal(64)
	default:
		return g.strVal()
	}
}

func (g *vgen) value(depth int) val {
	k := rapid.IntRange(0, 11).Draw(g.rt, "kind")
	if depth <= 0 && k > 5 {
		k = 0
	}
	switch k {
	default:
		return g.scalar()
	case 4: // typed numeric slice / array
		ki := rapid.IntRange(0, 7).Draw(g.rt, "numkind")
		useFloat := rapid.IntRange(0, 4).Draw(g.rt, "floatarr") == 0
		n := rapid.IntRange(0, 5).Draw(g.rt, "n")
		var lits, descs []string
		elemT, arr := intKinds[ki].name, intKinds[ki].arr
		for i := 0; i < n; i++ {
			var e val
			if useFloat {
				e = g.floatVal(64)
			} else {
				e = g.intVal(ki)
			}
			lits = append(lits, e.lit)
			descs = append(descs, e.desc)
		}
		if useFloat {
			elemT, arr = "float64", "Float64Array"
		}
		if rapid.Bool().Draw(g.rt, "asarray") && n > 0 {
			return val{typ: fmt.Sprintf("[%d]%s", n, elemT), lit: fmt.Sprintf("[%d]%s{%s}", n, elemT, strings.Join(lits, ", ")), desc: arr + "[" + strings.Join(descs, ",") + "]", nt: true}
		}
		switch rapid.IntRange(0, 3).Draw(g.rt, "window") {
		case 0:
			// a window into a larger backing array: offset and spare capacity must not show
			pad := rapid.IntRange(1, 3).Draw(g.rt, "pad")
			all := append(append(append([]string{}, make([]string, 0)...), repeat("1", pad)...), lits...)
			all = append(all, repeat("1", rapid.IntRange(0, 2).Draw(g.rt, "tailpad"))...)
			return val{typ: "[]" + elemT, lit: fmt.Sprintf("[]%s{%s}[%d:%d]", elemT, strings.Join(all, ", "), pad, pad+n), desc: arr + "[" + strings.Join(descs, ",") + "]", nt: true}
		case 1:
			// three-index slice of an array value
			pad := rapid.IntRange(0, 2).Draw(g.rt, "pad3")
			all := append(repeat("1", pad), lits...)
			all = append(all, "1")
			return val{typ: "[]" + elemT, lit: fmt.Sprintf("(&[%d]%s{%s})[%d:%d:%d]", len(all), elemT, strings.Join(all, ", "), pad, pad+n, pad+n), desc: arr + "[" + strings.Join(descs, ",") + "]", nt: true}
		}
		return val{typ: "[]" + elemT, lit: fmt.Sprintf("[]%s{%s}", elemT, strings.Join(lits, ", ")), desc: arr + "[" + strings.Join(descs, ",") + "]", nt: true}
	case 5: // nil values
		t := rapid.SampledFrom([]string{"[]int", "[]string", "map[string]int", "*js.Object", "interface{}", "func()", "*int", "[]interface{}"}).Draw(g.rt, "niltype")
		lit := "(" + t + ")(nil)"
		return val{typ: t, lit: lit, desc: "null", nt: true, jsobj: t == "*js.Object"}
	case 6, 7: // other slices (homogeneous element type)
		e0 := g.value(depth - 1)
		if strings.HasPrefix(e0.typ, "int") || strings.HasPrefix(e0.typ, "uint") || strings.HasPrefix(e0.typ, "float") {
			// numeric element types become typed arrays (covered above); use strings here
			e0 = g.strVal()
		}
		if e0.desc == "null" {
			e0 = g.strVal()
		}
		n := rapid.IntRange(0, 4).Draw(g.rt, "n")
		lits, descs := []string{}, []string{}
		for i := 0; i < n; i++ {
			lits = append(lits, e0.lit)
			descs = append(descs, e0.desc)
		}
		return val{typ: "[]" + e0.typ, lit: fmt.Sprintf("[]%s{%s}", e0.typ, strings.Join(lits, ", ")), desc: "Array[" + strings.Join(descs, ",") + "]", nt: true, decl: e0.decl}
	case 8: // []interface{} with mixed elements
		n := rapid.IntRange(0, 4).Draw(g.rt, "n")
		lits, descs := []string{}, []string{}
		decl := ""
		for i := 0; i < n; i++ {
			e := g.value(depth - 1)
			lits = append(lits, e.lit)
			descs = append(descs, e.desc)
			decl += e.decl
		}
		return val{typ: "[]interface{}", lit: "[]interface{}{" + strings.Join(lits, ", ") + "}", desc: "Array[" + strings.Join(descs, ",") + "]", nt: true, decl: decl}
	case 9: // map[string]T
		e := g.value(depth - 1)
		if e.desc == "null" {
			e = g.scalar()
		}
		n := rapid.IntRange(0, 4).Draw(g.rt, "n")
		m := map[string]bool{}
		var keys []string
		for i := 0; i < n; i++ {
			k := rapid.SampledFrom([]string{"a", "b", "key with space", "é", "0", "__proto__x", "constructor", "", "😀", "length"}).Draw(g.rt, "mapkey")
			if !m[k] {
				m[k] = true
				keys = append(keys, k)
			}
		}
		var lits []string
		for _, k := range keys {
			lits = append(lits, goStr(k)+": "+e.lit)
		}
		sort.Slice(keys, func(i, j int) bool { return keyDesc(keys[i]) < keyDesc(keys[j]) })
		var descs []string
		for _, k := range keys {
			descs = append(descs, keyDesc(k)+"="+e.desc)
		}
		return val{typ: "map[string]" + e.typ, lit: fmt.Sprintf("map[string]%s{%s}", e.typ, strings.Join(lits, ", ")), desc: "Object{" + strings.Join(descs, ",") + "}", nt: true, decl: e.decl}
	case 10: // struct with exported and unexported fields
		g.n++
		name := fmt.Sprintf("ST%d", g.n)
		a, b, c := g.value(depth-1), g.scalar(), g.value(depth-1)
		decl := a.decl + c.decl + fmt.Sprintf("type %s struct {\n\tAlpha %s\n\thidden %s\n\tGamma %s\n}\n\n", name, a.typ, b.typ, c.typ)
		type kv struct{ k, d string }
		fs := []kv{{"Alpha", a.desc}, {"Gamma", c.desc}}
		sort.Slice(fs, func(i, j int) bool { return keyDesc(fs[i].k) < keyDesc(fs[j].k) })
		desc := "Object{" + keyDesc(fs[0].k) + "=" + fs[0].d + "," + keyDesc(fs[1].k) + "=" + fs[1].d + "}"
		if a.jsobj {
			// wrapper struct: only the content of the leading *js.Object is passed
			desc = a.desc
		}
		return val{typ: name, lit: fmt.Sprintf("%s{Alpha: %s, hidden: %s, Gamma: %s}", name, a.lit, b.lit, c.lit), desc: desc, nt: true, decl: decl, jsobj: a.jsobj}
	case 11: // interface holding a value
		e := g.value(depth - 1)
		return val{typ: "interface{}", lit: "interface{}(" + e.lit + ")", desc: e.desc, nt: e.nt, decl: e.decl, jsobj: e.jsobj}
	}
}

// ---------- program ----------

const describeJS = `(function describe(v) {
  function num(x) {
    if (x !== x) return "num:NaN";
    var b = new BigUint64Array(new Float64Array([x]).buffer)[0];
    return "num:" + b.toString(16).padStart(16, "0");
  }
  function units(s) {
    var p = [];
    for (var i = 0; i < s.length; i++) p.push(s.charCodeAt(i).toString(16));
    return p.join(".");
  }
  if (v === null) return "null";
  if (v === undefined) return "undefined";
  var t = typeof v;
  if (t === "boolean") return "bool:" + v;
  if (t === "number") return num(v);
  if (t === "string") return "str:" + units(v);
  if (t === "function") return "function";
  if (ArrayBuffer.isView(v)) return v.constructor.name + "[" + Array.prototype.map.call(v, num).join(",") + "]";
  if (Array.isArray(v)) return "Array[" + v.map(describe).join(",") + "]";
  if (v instanceof Date) return "Date";
  if (t === "object") {
    var ks = Object.keys(v).map(function (k) { return [units(k), k]; });
    ks.sort(function (a, b) { return a[0] < b[0] ? -1 : a[0] > b[0] ? 1 : 0; });
    return "Object{" + ks.map(function (e) { return e[0] + "=" + describe(v[e[1]]); }).join(",") + "}";
  }
  return "?" + t;
})`

const progHead = `package main

import (
	"math"
	"unicode/utf16"

	"github.com/gopherjs/gopherjs/js"
)

var _ = math.NaN

var describe *js.Object

func hex(u uint64) string {
	if u == 0 {
		return "0"
	}
	s := ""
	for u > 0 {
		s = string("0123456789abcdef"[u&15]) + s
		u >>= 4
	}
	return s
}

func hex16(u uint64) string {
	s := hex(u)
	for len(s) < 16 {
		s = "0" + s
	}
	return s
}

func units(s string) string {
	u := utf16.Encode([]rune(s))
	r := ""
	for i, c := range u {
		if i > 0 {
			r += "."
		}
		r += hex(uint64(c))
	}
	return r
}

func num(f float64) string {
	if f != f {
		return "num:NaN"
	}
	return "num:" + hex16(math.Float64bits(f))
}

func join(p []string) string {
	r := ""
	for i, s := range p {
		if i > 0 {
			r += ","
		}
		r += s
	}
	return r
}

// goDescribe renders a value read back from JavaScript with Interface().
func goDescribe(x interface{}) string {
	switch v := x.(type) {
	case nil:
		return "null"
	case bool:
		if v {
			return "bool:true"
		}
		return "bool:false"
	case float64:
		return num(v)
	case string:
		return "str:" + units(v)
	case []int8:
		var p []string
		for _, e := range v {
			p = append(p, num(float64(e)))
		}
		return "Int8Array[" + join(p) + "]"
	case []int16:
		var p []string
		for _, e := range v {
			p = append(p, num(float64(e)))
		}
		return "Int16Array[" + join(p) + "]"
	case []int:
		var p []string
		for _, e := range v {
			p = append(p, num(float64(e)))
		}
		return "Int32Array[" + join(p) + "]"
	case []uint8:
		var p []string
		for _, e := range v {
			p = append(p, num(float64(e)))
		}
		return "Uint8Array[" + join(p) + "]"
	case []uint16:
		var p []string
		for _, e := range v {
			p = append(p, num(float64(e)))
		}
		return "Uint16Array[" + join(p) + "]"
	case []uint:
		var p []string
		for _, e := range v {
			p = append(p, num(float64(e)))
		}
		return "Uint32Array[" + join(p) + "]"
	case []float32:
		var p []string
		for _, e := range v {
			p = append(p, num(float64(e)))
		}
		return "Float32Array[" + join(p) + "]"
	case []float64:
		var p []string
		for _, e := range v {
			p = append(p, num(e))
		}
		return "Float64Array[" + join(p) + "]"
	case []interface{}:
		var p []string
		for _, e := range v {
			p = append(p, goDescribe(e))
		}
		return "Array[" + join(p) + "]"
	case map[string]interface{}:
		var ks []string
		for k := range v {
			ks = append(ks, k)
		}
		for i := 0; i < len(ks); i++ {
			for j := i + 1; j < len(ks); j++ {
				if units(ks[j]) < units(ks[i]) {
					ks[i], ks[j] = ks[j], ks[i]
				}
			}
		}
		var p []string
		for _, k := range ks {
			p = append(p, units(k)+"="+goDescribe(v[k]))
		}
		return "Object{" + join(p) + "}"
	case func(...interface{}) *js.Object:
		return "function"
	case *js.Object:
		return "jsobject"
	}
	return "?go"
}

func d(o *js.Object) string { return describe.Invoke(o).String() }

func setup() {
	describe = js.Global.Call("eval", DESCRIBE)
}
`

type probe struct {
	v val
}

func genProgram(rt *rapid.T, n int) (src string, expect []string, vals []val) {
	g := &vgen{rt: rt}
	var body strings.Builder
	for i := 0; i < n; i++ {
		v := g.value(rapid.IntRange(0, 2).Draw(rt, "depth"))
		vals = append(vals, v)
		g.decls.WriteString(v.decl)
		fmt.Fprintf(&body, "func p%d() {\n\tv := %s\n", i, v.lit)
		fmt.Fprintf(&body, "\tout(\"P%d arg \" + describe.Invoke(v).String())\n", i)
		fmt.Fprintf(&body, "\to := js.Global.Get(\"Object\").New()\n\to.Set(\"p\", v)\n\tout(\"P%d prop \" + d(o.Get(\"p\")))\n", i)
		fmt.Fprintf(&body, "\tarr := js.Global.Get(\"Array\").New()\n\tarr.SetIndex(2, v)\n\tout(\"P%d index \" + d(arr.Index(2)) + \" \" + d(arr.Get(\"length\")))\n", i)
		fmt.Fprintf(&body, "\tjs.Global.Set(\"retf\", func() %s { return v })\n\tout(\"P%d ret \" + d(js.Global.Call(\"retf\")))\n", v.typ, i)
		fmt.Fprintf(&body, "\tout(\"P%d call \" + d(js.Global.Get(\"Array\").Call(\"of\", 1, v).Index(1)))\n", i)
		fmt.Fprintf(&body, "\tout(\"P%d back \" + goDescribe(o.Get(\"p\").Interface()))\n", i)
		fmt.Fprintf(&body, "\to.Set(\"q\", o.Get(\"p\").Interface())\n\tout(\"P%d again \" + d(o.Get(\"q\")))\n", i)
		fmt.Fprintf(&body, "}\n\n")
		backDesc := v.desc
		for _, p := range []string{"arg", "prop"} {
			expect = append(expect, fmt.Sprintf("P%d %s %s", i, p, v.desc))
		}
		expect = append(expect, fmt.Sprintf("P%d index %s %s", i, v.desc, numDesc(3)))
		expect = append(expect, fmt.Sprintf("P%d ret %s", i, v.desc), fmt.Sprintf("P%d call %s", i, v.desc))
		expect = append(expect, fmt.Sprintf("P%d back %s", i, backDesc), fmt.Sprintf("P%d again %s", i, backDesc))
	}
	var main strings.Builder
	main.WriteString("func main() {\n\tsetup()\n")
	for i := 0; i < n; i++ {
		fmt.Fprintf(&main, "\tp%d()\n", i)
	}
	main.WriteString("\tscenarios()\n}\n")
	src = strings.Replace(progHead, "DESCRIBE", strconv.Quote(describeJS), 1) + "\n" + g.decls.String() + "\n" + body.String() + main.String()
	return
}

// ---------- fixed scenario families (with generated values) ----------

func genScenarios(rt *rapid.T) (src string, expect []string) {
	var sb strings.Builder
	sb.WriteString("type wrapped struct {\n\t*js.Object\n\tN   int     `js:\"n\"`\n\tS   string  `js:\"s\"`\n\tF   float64 `js:\"some-key\"`\n\tB   bool    `js:\"b\"`\n\tXs  []int32 `js:\"xs\"`\n\tU64 uint64  `js:\"u64\"`\n\tAdd func(int) int `js:\"add\"`\n}\n\ntype svc struct{ base int }\n\nfunc (s *svc) Add(a int, b float64) float64 { return float64(s.base+a) + b }\nfunc (s *svc) Name(prefix string, n ...int) string {\n\tr := prefix\n\tfor _, x := range n {\n\t\tr += \"/\" + string(rune('0'+x))\n\t}\n\treturn r\n}\nfunc (s *svc) Pair() (int, string) { return s.base, \"p\" }\n\n")
	sb.WriteString("func ev(src string) *js.Object { return js.Global.Call(\"eval\", src) }\n\nfunc scenarios() {\n")
	n := rapid.IntRange(-1000, 1000).Draw(rt, "n")
	s := rapid.SampledFrom([]string{"", "x", "héllo", "😀!", "a\x00b"}).Draw(rt, "s")
	f := rapid.SampledFrom([]float64{0.5, -2.25, 1e100, 3}).Draw(rt, "f")
	u64 := rapid.Uint64Range(0, 1<<53).Draw(rt, "u64")
	xs := rapid.SliceOfN(rapid.Int32(), 0, 4).Draw(rt, "xs")
	var xl, xd []string
	for _, x := range xs {
		xl = append(xl, fmt.Sprint(x))
		xd = append(xd, numDesc(float64(x)))
	}
	// struct wrapping a js.Object: field access goes to the JavaScript object
	fmt.Fprintf(&sb, "\tw := &wrapped{Object: js.Global.Get(\"Object\").New()}\n\tw.N = %d\n\tw.S = %s\n\tw.F = %v\n\tw.B = true\n\tw.Xs = []int32{%s}\n\tw.U64 = %d\n", n, goStr(s), f, strings.Join(xl, ", "), u64)
	sb.WriteString("\tout(\"W obj \" + d(w.Object))\n")
	type kv struct{ k, d string }
	fs := []kv{{"n", numDesc(float64(n))}, {"s", strDesc(s)}, {"some-key", numDesc(f)}, {"b", "bool:true"}, {"xs", "Int32Array[" + strings.Join(xd, ",") + "]"}, {"u64", numDesc(float64(u64))}}
	sort.Slice(fs, func(i, j int) bool { return keyDesc(fs[i].k) < keyDesc(fs[j].k) })
	var parts []string
	for _, e := range fs {
		parts = append(parts, keyDesc(e.k)+"="+e.d)
	}
	expect = append(expect, "W obj Object{"+strings.Join(parts, ",")+"}")
	sb.WriteString("\tw.Object.Set(\"n\", 77)\n\tw.Object.Set(\"s\", \"from-js\")\n\tout(\"W read \" + itoa(w.N) + \" \" + w.S + \" \" + itoa(len(w.Xs)))\n")
	expect = append(expect, fmt.Sprintf("W read 77 from-js %d", len(xs)))
	sb.WriteString("\tout(\"W pass \" + d(ev(\"(function(o){ return o.n + 1; })\").Invoke(w)))\n")
	expect = append(expect, "W pass "+numDesc(78))
	// a function-typed field read as a value stays a method of the wrapped object (this)
	sb.WriteString("\tw.Object.Set(\"add\", ev(\"(function(d){ this.n = this.n + d; return this.n; })\"))\n\tfv := w.Add\n\tr1 := fv(5)\n\tn1 := w.N\n\tr2 := w.Add(1)\n\tout(\"W func \" + itoa(r1) + \" \" + itoa(n1) + \" \" + itoa(r2) + \" \" + itoa(w.N))\n\tw.Object.Delete(\"add\")\n")
	expect = append(expect, "W func 82 82 83 83")
	// typed accessors
	a := rapid.Int32().Draw(rt, "acc")
	fmt.Fprintf(&sb, "\tacc := ev(\"({i: %d, f: 2.75, s: 'str', t: true, z: 0, big: 9007199254740991, neg: -9007199254740991, e: '', n: null, arr: [1, 2, 3]})\")\n", a)
	sb.WriteString("\tout(\"A \" + itoa(acc.Get(\"i\").Int()) + \" \" + num(acc.Get(\"f\").Float()) + \" \" + acc.Get(\"s\").String() + \" \" + btoa(acc.Get(\"t\").Bool()) + btoa(acc.Get(\"z\").Bool()) + btoa(acc.Get(\"e\").Bool()) + btoa(acc.Get(\"s\").Bool()) + \" \" + i64toa(acc.Get(\"big\").Int64()) + \" \" + u64toa(acc.Get(\"big\").Uint64()) + \" \" + i64toa(acc.Get(\"neg\").Int64()) + \" \" + itoa(acc.Get(\"f\").Int()) + \" \" + itoa(acc.Get(\"arr\").Length()) + \" \" + itoa(acc.Get(\"arr\").Index(2).Int()) + \" \" + btoa(acc.Get(\"n\") == nil) + btoa(acc.Get(\"missing\") == js.Undefined))\n")
	expect = append(expect, fmt.Sprintf("A %d %s str truefalsefalsetrue 9007199254740991 9007199254740991 -9007199254740991 2 3 3 truetrue", a, numDesc(2.75)))
	sb.WriteString("\tacc.Delete(\"i\")\n\tout(\"A del \" + btoa(acc.Get(\"i\") == js.Undefined) + \" \" + itoa(len(js.Keys(acc))))\n")
	expect = append(expect, "A del true 9")
	// exposed function with converted arguments and results
	sb.WriteString("\tjs.Global.Set(\"gofn\", func(a int, s string, f float64, b bool, xs []int32, m map[string]interface{}, any interface{}, rest ...string) (int, string) {\n\t\tout(\"F args \" + itoa(a) + \" \" + units(s) + \" \" + num(f) + \" \" + btoa(b) + \" \" + itoa(len(xs)) + \" \" + goDescribe(m[\"k\"]) + \" \" + goDescribe(any) + \" \" + itoa(len(rest)))\n\t\treturn a + len(rest), s + \"!\"\n\t})\n")
	fmt.Fprintf(&sb, "\tout(\"F res \" + d(ev(\"gofn(%d, %s, 1.5, true, new Int32Array([1,2,3]), {k: [1, 'two']}, {x: null}, 'r1', 'r2')\")))\n", n, jsStr(s))
	expect = append(expect, fmt.Sprintf("F args %d %s %s true 3 Array[%s,%s] Object{78=null} 2", n, keyDesc(s), numDesc(1.5), numDesc(1), strDesc("two")))
	expect = append(expect, fmt.Sprintf("F res Array[%s,%s]", numDesc(float64(n+2)), strDesc(s+"!")))
	// typed internalisation: every numeric kind at its boundaries through a parameter, a struct
	// field, a map value, a slice element and a variadic parameter of an exposed function
	type kindVals struct {
		kind string
		vals []string // JavaScript literals
		f32  bool
	}
	table := []kindVals{
		{"int8", []string{"-128", "-1", "0", "127"}, false},
		{"int16", []string{"-32768", "-1", "32767", "255"}, false},
		{"int32", []string{"-2147483648", "2147483647", "-1", "65536"}, false},
		{"int", []string{"-2147483648", "2147483647", "0", "-65537"}, false},
		{"uint8", []string{"0", "127", "128", "255"}, false},
		{"uint16", []string{"0", "32767", "32768", "65535"}, false},
		{"uint32", []string{"0", "2147483647", "2147483648", "4294967295"}, false},
		{"uint", []string{"1", "2147483648", "4294967295", "65535"}, false},
		{"uintptr", []string{"0", "2147483648", "4294967295"}, false},
		{"int64", []string{"-9007199254740991", "9007199254740991", "-1", "4294967296", "-4294967297"}, false},
		{"uint64", []string{"0", "9007199254740991", "4294967295", "4294967296"}, false},
		{"float32", []string{"1.5", "0.1", "-0", "1e38", "16777217"}, true},
		{"float64", []string{"0.1", "-0", "1e308", "5e-324", "-2.5"}, false},
	}
	for _, kv := range table {
		k := kv.kind
		fmt.Fprintf(&sb, "\tjs.Global.Set(\"echo_%[1]s\", func(x %[1]s, s struct{ P %[1]s }, m map[string]%[1]s, xs []%[1]s, rest ...%[1]s) []interface{} {\n\t\treturn []interface{}{x, s.P, m[\"k\"], xs[0], rest[0], x == s.P && x == m[\"k\"] && x == xs[0] && x == rest[0]}\n\t})\n", k)
		v := kv.vals[rapid.IntRange(0, len(kv.vals)-1).Draw(rt, "tv"+k)]
		for _, v := range append([]string{v}, kv.vals...) {
			fmt.Fprintf(&sb, "\tout(\"T %[1]s %[2]s \" + d(ev(\"echo_%[1]s(%[2]s, {P: %[2]s}, {k: %[2]s}, [%[2]s], %[2]s)\")))\n", k, v)
			f, _ := strconv.ParseFloat(v, 64)
			if kv.f32 {
				f = float64(float32(f))
			}
			nd := numDesc(f)
			expect = append(expect, fmt.Sprintf("T %s %s Array[%s,%s,%s,%s,%s,bool:true]", k, v, nd, nd, nd, nd, nd))
		}
	}
	// function identity
	sb.WriteString("\tfn := func(x int) int { return x * 2 }\n\tido := js.Global.Get(\"Object\").New()\n\tido.Set(\"a\", fn)\n\tido.Set(\"b\", fn)\n\tout(\"I same \" + d(ev(\"(function(o){ return o.a === o.b && o.a(21) === 42; })\").Invoke(ido)))\n")
	expect = append(expect, "I same bool:true")
	// MakeFunc
	sb.WriteString("\tmf := js.MakeFunc(func(this *js.Object, args []*js.Object) interface{} {\n\t\treturn map[string]interface{}{\"n\": len(args), \"first\": args[0].Int() + 1, \"self\": this.Get(\"tag\").String()}\n\t})\n\tholder := js.Global.Get(\"Object\").New()\n\tholder.Set(\"tag\", \"T\")\n\tholder.Set(\"m\", mf)\n\tout(\"M \" + d(ev(\"(function(h){ return h.m(41, 'x'); })\").Invoke(holder)))\n")
	expect = append(expect, "M Object{"+keyDesc("first")+"="+numDesc(42)+","+keyDesc("n")+"="+numDesc(2)+","+keyDesc("self")+"="+strDesc("T")+"}")
	// MakeWrapper
	base := rapid.IntRange(0, 50).Draw(rt, "base")
	fmt.Fprintf(&sb, "\twr := js.MakeWrapper(&svc{base: %d})\n\tout(\"K \" + d(ev(\"(function(w){ return [w.Add(2, 0.5), w.Name('n', 1, 2), w.Pair()]; })\").Invoke(wr)))\n", base)
	expect = append(expect, fmt.Sprintf("K Array[%s,%s,Array[%s,%s]]", numDesc(float64(base+2)+0.5), strDesc("n/1/2"), numDesc(float64(base)), strDesc("p")))
	// New
	sb.WriteString("\tdt := js.Global.Get(\"Array\").New(3)\n\tout(\"N \" + itoa(dt.Length()) + \" \" + d(js.Global.Get(\"String\").New(\"ab\").Call(\"toUpperCase\")))\n")
	expect = append(expect, "N 3 "+strDesc("AB"))
	// blocking inside a JavaScript callback fails with the documented error and leaves the scheduler intact
	sb.WriteString("\tc := make(chan int)\n\treport := make(chan string, 1)\n\tjs.Global.Set(\"blocker\", func() int { return <-c })\n\tjs.Global.Set(\"report\", func(m string) { report <- m })\n\tev(\"setTimeout(function(){ try { blocker(); report('no error'); } catch (e) { report(String(e && e.message || e)); } }, 0)\")\n\tmsg := <-report\n\tout(\"B \" + btoa(contains(msg, \"cannot block in JavaScript callback\")))\n")
	expect = append(expect, "B true")
	sb.WriteString("\tdone := make(chan string)\n\tping, pong := make(chan int), make(chan int)\n\tgo func() {\n\t\tfor v := range ping {\n\t\t\tpong <- v + 1\n\t\t}\n\t\tdone <- \"closed\"\n\t}()\n\tsum := 0\n\tfor i := 0; i < 3; i++ {\n\t\tping <- i\n\t\tsum += <-pong\n\t}\n\tclose(ping)\n\tout(\"B after \" + itoa(sum) + \" \" + <-done)\n")
	expect = append(expect, "B after 6 closed")
	sb.WriteString("}\n")
	return sb.String(), expect
}

func jsStr(s string) string {
	var sb strings.Builder
	sb.WriteString("'")
	for _, u := range utf16.Encode([]rune(s)) {
		fmt.Fprintf(&sb, "\\\\u%04x", u)
	}
	sb.WriteString("'")
	return sb.String()
}

func TestCheck(t *testing.T) {
	ev = drv.NewEvidence("C11", "exploration", rule)
	ev.Assume("the expectation for each value is derived from the conversion table in the js package documentation; only documented conversions have expectations")
	nProg, nProbe := 24, 150
	if drv.Thorough() {
		nProg, nProbe = 200, 200
	}
	type prog struct {
		src    string
		expect []string
		vals   []val
	}
	progs := make([]prog, nProg)
	for i := range progs {
		progs[i] = rapid.Custom(func(rt *rapid.T) prog {
			src, exp, vals := genProgram(rt, nProbe)
			s2, e2 := genScenarios(rt)
			return prog{src + "\n" + s2, append(exp, e2...), vals}
		}).Example(drv.Seed()*211 + i)
	}
	drv.Parallel(nProg, func(i int) {
		p := progs[i]
		for _, mini := range []bool{false, true} {
			c := drv.NewCase("c11_", map[string]string{"main.go": p.src}, true)
			jsPath, _, err := c.BuildJS(drv.BuildOpts{Minify: mini}, "out")
			if err != nil {
				if !drv.IsCompilerInternalError(err) {
					drv.Infra("generated program rejected (generator bug): %v", err)
				}
				ev.Violation("GopherJS build failed: "+err.Error(), c.ReproFiles())
				c.Remove()
				return
			}
			o := drv.RunNode(jsPath, nil, drv.NodeOpts{})
			if !mini {
				for _, v := range p.vals {
					ev.Case(v.typ+"|"+v.lit, v.nt)
				}
				ev.Count("probe_lines", int64(len(p.expect)))
			}
			reported := 0
			for k, want := range p.expect {
				got := "<missing>"
				if k < len(o.Trace) {
					got = o.Trace[k]
				}
				if got == want {
					continue
				}
				if reported < 3 {
					what := want
					if f := strings.Fields(want); len(f) > 0 && strings.HasPrefix(f[0], "P") {
						if idx, err := strconv.Atoi(f[0][1:]); err == nil && idx < len(p.vals) {
							what = fmt.Sprintf("value %s of type %s, path %s", p.vals[idx].lit, p.vals[idx].typ, f[1])
						}
					}
					ev.Violation(fmt.Sprintf("minify=%v: %s:\n  got      %s\n  expected %s", mini, what, got, want), map[string]string{"main.go": p.src, "got.txt": strings.Join(o.Trace, "\n"), "expected.txt": strings.Join(p.expect, "\n"), "stderr.txt": o.Stderr})
				}
				reported++
			}
			if o.End != "exit0" && reported == 0 {
				ev.Violation(fmt.Sprintf("program ended %s %q\n%s", o.End, o.Msg, o.Stderr), c.ReproFiles())
			}
			c.Remove()
		}
		if i == 0 {
			ev.Sample(map[string]string{"type": p.vals[0].typ, "value": p.vals[0].lit, "expected_description": p.vals[0].desc})
			ev.Sample(map[string]string{"type": p.vals[1].typ, "value": p.vals[1].lit, "expected_description": p.vals[1].desc})
		}
	})
}

func repeat(x string, n int) []string {
	out := make([]string, n)
	for i := range out {
		out[i] = x
	}
	return out
}
