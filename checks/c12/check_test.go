package c12

import (
	"bytes"
	"fmt"
	"go/ast"
	"go/importer"
	"go/parser"
	"go/printer"
	"go/token"
	"go/types"
	"os"
	"path/filepath"
	"sort"
	"strings"
	"testing"

	gbuild "github.com/gopherjs/gopherjs/build"
	"pgregory.net/rapid"

	"verif/internal/drv"
)

var ev *drv.Evidence

func TestMain(m *testing.M) { drv.TestMain(m, func() *drv.Evidence { return ev }) }

const rule = "rapid-generated (original files, overlay files) pairs of one package: funcs (plain, generic, bodyless+linkname), methods on value/pointer/generic receivers, var/const specs (single, multi-name with values, from one call, typed, grouped, iota groups), type specs (single, grouped, generic), init functions, imports (plain, renamed, blank, dot, unsafe, sync), directives keep-original/purge/override-signature on declarations and specs in // and /* */ form; merged by the real augmentation code (verif hook) and compared, file by file and in order, with an independent implementation of the documented rules working on declaration records; the merged package must type-check with go/types. Non-trivial pair: >=1 directive and a multi-name spec that is only partly overridden or an import that becomes unused. Fixed corpus (reported separately): every natives package that exists in the GOROOT through the real parseAndAugment. Distinct by content hash."

func printNode(fset *token.FileSet, n any) string {
	var b bytes.Buffer
	printer.Fprint(&b, fset, n)
	return b.String()
}

// actualFile extracts the records of a merged file (after printing and re-parsing it).
func actualFile(name, src string) (expFile, error) {
	fset := token.NewFileSet()
	f, err := parser.ParseFile(fset, name, src, parser.ParseComments)
	if err != nil {
		return expFile{}, err
	}
	ef := expFile{Name: name}
	for _, i := range f.Imports {
		n := ""
		if i.Name != nil {
			n = i.Name.Name
		}
		ef.Imports = append(ef.Imports, n+" "+strings.Trim(i.Path.Value, "\""))
	}
	sort.Strings(ef.Imports)
	fingerprint := func(body *ast.BlockStmt) string {
		if body == nil {
			return "<none>"
		}
		fp := "?"
		ast.Inspect(body, func(n ast.Node) bool {
			if l, ok := n.(*ast.BasicLit); ok && l.Kind == token.STRING && strings.HasPrefix(l.Value, "\"fp:") && fp == "?" {
				fp = strings.Trim(l.Value, "\"")
			}
			return true
		})
		return fp
	}
	for _, d := range f.Decls {
		switch d := d.(type) {
		case *ast.FuncDecl:
			recv := ""
			if d.Recv != nil && len(d.Recv.List) > 0 {
				recv = norm(printNode(fset, d.Recv.List[0].Type))
			}
			sig := printNode(fset, d.Type)
			sig = strings.TrimPrefix(sig, "func")
			ef.Records = append(ef.Records, fmt.Sprintf("func recv=%s name=%s sig=%s body=%s", recv, d.Name.Name, norm(sig), fingerprint(d.Body)))
		case *ast.GenDecl:
			for _, s := range d.Specs {
				switch s := s.(type) {
				case *ast.TypeSpec:
					tp := ""
					if s.TypeParams != nil {
						tp = "[" + strings.TrimSuffix(strings.TrimPrefix(printNode(fset, s.TypeParams), "("), ")") + "]"
						// field lists print without brackets
						var parts []string
						for _, fl := range s.TypeParams.List {
							var ns []string
							for _, n := range fl.Names {
								ns = append(ns, n.Name)
							}
							parts = append(parts, strings.Join(ns, ",")+printNode(fset, fl.Type))
						}
						tp = "[" + strings.Join(parts, ",") + "]"
					}
					ef.Records = append(ef.Records, fmt.Sprintf("type %s%s = %s", s.Name.Name, norm(tp), norm(printNode(fset, s.Type))))
				case *ast.ValueSpec:
					tok := "var"
					if d.Tok == token.CONST {
						tok = "const"
					}
					var names, vals []string
					for _, n := range s.Names {
						names = append(names, n.Name)
					}
					for _, v := range s.Values {
						vals = append(vals, norm(printNode(fset, v)))
					}
					typ := ""
					if s.Type != nil {
						typ = norm(printNode(fset, s.Type))
					}
					ef.Records = append(ef.Records, fmt.Sprintf("%s names=%s type=%s values=%s", tok, strings.Join(names, ","), typ, strings.Join(vals, ",")))
				}
			}
		}
	}
	return ef, nil
}

var stdImporter = importer.ForCompiler(token.NewFileSet(), "source", nil)

type imp struct{ nosync *types.Package }

func (i *imp) Import(path string) (*types.Package, error) {
	if path == "github.com/gopherjs/gopherjs/nosync" {
		if i.nosync != nil {
			return i.nosync, nil
		}
		fset := token.NewFileSet()
		ents, _ := os.ReadDir(filepath.Join(drv.RepoDir(), "nosync"))
		var files []*ast.File
		for _, e := range ents {
			if strings.HasSuffix(e.Name(), ".go") && !strings.HasSuffix(e.Name(), "_test.go") {
				f, err := parser.ParseFile(fset, filepath.Join(drv.RepoDir(), "nosync", e.Name()), nil, 0)
				if err != nil {
					return nil, err
				}
				files = append(files, f)
			}
		}
		conf := types.Config{Importer: stdImporter}
		p, err := conf.Check(path, fset, files, nil)
		if err != nil {
			return nil, err
		}
		i.nosync = p
		return p, nil
	}
	return stdImporter.Import(path)
}

var theImporter = &imp{}

func typeCheck(pkgPath string, fset *token.FileSet, files []*ast.File) error {
	var first error
	conf := types.Config{Importer: theImporter, Error: func(err error) {
		if first == nil {
			first = err
		}
	}}
	conf.Check(pkgPath, fset, files, nil)
	return first
}

func pairFiles(p pair) map[string]string {
	m := map[string]string{"importpath.txt": p.ImportPath + "\n"}
	for _, f := range p.Orig {
		m["original/"+f.Name] = f.source("pkg")
	}
	for _, f := range p.Over {
		m["overlay/"+f.Name] = f.source("pkg")
	}
	return m
}

func nontrivial(p pair) bool {
	hasDir := false
	ov := collectOverrides(p)
	for _, f := range p.Over {
		for _, d := range f.Decls {
			if d.Directive != "" {
				hasDir = true
			}
			for _, s := range d.Specs {
				if s.Directive != "" {
					hasDir = true
				}
			}
		}
	}
	partly := false
	for _, f := range p.Orig {
		for _, d := range f.Decls {
			if d.Kind != kVar && d.Kind != kConst {
				continue
			}
			for _, s := range d.Specs {
				n := 0
				for _, nm := range s.Names {
					if _, ok := ov[nm.Name]; ok {
						n++
					}
				}
				if n > 0 && n < len(s.Names) {
					partly = true
				}
			}
		}
	}
	unusedImport := false
	exp := merge(p)
	for i, f := range append(append([]file{}, p.Over...), p.Orig...) {
		named := 0
		for _, im := range f.Imports {
			if im.Name != "_" && im.Name != "." {
				named++
			}
		}
		keptNamed := 0
		for _, im := range exp[i].Imports {
			if !strings.HasPrefix(im, "_ ") && !strings.HasPrefix(im, ". ") {
				keptNamed++
			}
		}
		if keptNamed < named {
			unusedImport = true
		}
	}
	return hasDir && (partly || unusedImport)
}

func checkPair(rt *rapid.T) *drv.Fail {
	p := genPair(rt)
	files := pairFiles(p)
	nt := nontrivial(p)
	if ev.Case("pair:"+drv.Hash(fmt.Sprint(files)), nt) {
		ev.Count("pairs", 1)
		if nt {
			ev.Count("pairs_nontrivial", 1)
			ev.Sample(files)
		}
	}
	fset := token.NewFileSet()
	parse := func(fs []file, sub string) ([]*ast.File, error) {
		var out []*ast.File
		for _, f := range fs {
			af, err := parser.ParseFile(fset, "/src/"+p.ImportPath+"/"+f.Name, f.source("pkg"), parser.ParseComments)
			if err != nil {
				return nil, fmt.Errorf("%s/%s: %v", sub, f.Name, err)
			}
			out = append(out, af)
		}
		return out, nil
	}
	orig, err := parse(p.Orig, "original")
	if err != nil {
		drv.Infra("generator produced unparsable source: %v", err)
	}
	over, err := parse(p.Over, "overlay")
	if err != nil {
		drv.Infra("generator produced unparsable source: %v", err)
	}
	// inputs must be a consistent pair: the original package alone type-checks
	if terr := typeCheck(p.ImportPath, fset, orig); terr != nil {
		ev.Count("discarded_inconsistent_original", 1)
		if os.Getenv("VERIF_DEBUG") != "" {
			fmt.Println("DISCARD original:", terr)
		}
		return nil
	}
	var merged []*ast.File
	var perr any
	func() {
		defer func() { perr = recover() }()
		merged = gbuild.VerifAugment(p.ImportPath, over, orig)
	}()
	if perr != nil {
		return drv.Failf(files, "augmentation panicked: %v", perr)
	}
	exp := merge(p)
	if len(merged) != len(exp) {
		return drv.Failf(files, "merged package has %d files, expected %d", len(merged), len(exp))
	}
	var reparsed []*ast.File
	rfset := token.NewFileSet()
	for i, mf := range merged {
		src := printNode(fset, mf)
		files["merged/"+exp[i].Name] = src
		act, err := actualFile(exp[i].Name, src)
		if err != nil {
			return drv.Failf(files, "merged file %s does not parse: %v", exp[i].Name, err)
		}
		if strings.Join(act.Records, "\n") != strings.Join(exp[i].Records, "\n") {
			return drv.Failf(files, "file %s: declarations after the merge:\n  %s\nexpected from the documented rules:\n  %s", exp[i].Name, strings.Join(act.Records, "\n  "), strings.Join(exp[i].Records, "\n  "))
		}
		if strings.Join(act.Imports, "|") != strings.Join(exp[i].Imports, "|") {
			return drv.Failf(files, "file %s: imports after the merge %q, expected %q", exp[i].Name, act.Imports, exp[i].Imports)
		}
		rf, _ := parser.ParseFile(rfset, exp[i].Name, src, parser.ParseComments)
		reparsed = append(reparsed, rf)
	}
	if terr := typeCheck(p.ImportPath, rfset, reparsed); terr != nil {
		return drv.Failf(files, "the merged package does not type-check: %v", terr)
	}
	return nil
}

// nativesCorpus runs the real parseAndAugment over every natives package present in the GOROOT.
func nativesCorpus() {
	root := filepath.Join(drv.RepoDir(), "compiler", "natives", "src")
	var pkgs []string
	filepath.Walk(root, func(p string, info os.FileInfo, err error) error {
		if err == nil && info.IsDir() {
			rel, _ := filepath.Rel(root, p)
			if rel != "." {
				pkgs = append(pkgs, filepath.ToSlash(rel))
			}
		}
		return nil
	})
	xctx := gbuild.NewBuildContext("", nil)
	n, parsed := 0, 0
	for _, ip := range pkgs {
		pkg, err := xctx.Import(ip, "", 0)
		if err != nil {
			continue
		}
		fset := token.NewFileSet()
		var files []*ast.File
		var perr any
		func() {
			defer func() { perr = recover() }()
			files, _, err = gbuild.VerifParseAndAugment(xctx, pkg, false, fset)
		}()
		if perr != nil {
			ev.Violation(fmt.Sprintf("parseAndAugment panicked for %s: %v", ip, perr), map[string]string{"package.txt": ip})
			continue
		}
		if err != nil {
			continue
		}
		n++
		// every merged file must print and re-parse, and no declaration key may be defined twice
		seen := map[string]string{}
		for _, f := range files {
			src := printNode(fset, f)
			if _, err := parser.ParseFile(token.NewFileSet(), "x.go", src, 0); err != nil {
				ev.Violation(fmt.Sprintf("natives corpus %s: merged file %s does not re-parse: %v", ip, fset.File(f.Pos()).Name(), err), map[string]string{"package.txt": ip})
				continue
			}
			parsed++
			for _, d := range f.Decls {
				var keys []string
				switch d := d.(type) {
				case *ast.FuncDecl:
					if (d.Name.Name == "init" && d.Recv == nil) || d.Name.Name == "_" {
						continue
					}
					k := d.Name.Name
					if d.Recv != nil && len(d.Recv.List) > 0 {
						k = norm(strings.TrimLeft(printNode(fset, d.Recv.List[0].Type), "*")) + "." + k
						if i := strings.Index(k, "["); i >= 0 {
							k = k[:i] + k[strings.Index(k, "]")+1:]
						}
					}
					keys = append(keys, k)
				case *ast.GenDecl:
					for _, s := range d.Specs {
						switch s := s.(type) {
						case *ast.TypeSpec:
							keys = append(keys, s.Name.Name)
						case *ast.ValueSpec:
							for _, nm := range s.Names {
								if nm.Name != "_" {
									keys = append(keys, nm.Name)
								}
							}
						}
					}
				}
				for _, k := range keys {
					fn := fset.File(f.Pos()).Name()
					if prev, dup := seen[k]; dup {
						ev.Violation(fmt.Sprintf("natives corpus %s: %s is declared twice after the merge (%s and %s)", ip, k, prev, fn), map[string]string{"package.txt": ip})
					}
					seen[k] = fn
				}
			}
		}
	}
	ev.Set("natives_packages_merged_fixed_corpus", n)
	ev.Set("natives_files_reparsed_fixed_corpus", parsed)
}

func TestCheck(t *testing.T) {
	ev = drv.NewEvidence("C12", "exploration", rule)
	ev.Assume("go/parser, go/printer and go/types are trusted; std packages are imported from GOROOT source for the type check")
	n := 12000
	if drv.Thorough() {
		n = 150000
	}
	drv.RapidCheck(t, ev, "merge", n, checkPair)
	nativesCorpus()
}
