package c12

import (
	"fmt"
	"sort"
	"strings"

	"pgregory.net/rapid"
)

// The generator works on declaration records; source text is produced from them and the
// expected result (mergespec.go) is computed from the records alone.

type declKind int

const (
	kFunc declKind = iota
	kMethod
	kType
	kVar
	kConst
	kInit
)

// valueName is one name of a var/const spec.
type valueName struct {
	Name  string
	Value string // "" when the spec has no per-name value
}

type spec struct {
	// functions / methods
	Name      string
	Recv      string // receiver base type name ("" for functions)
	RecvPtr   bool
	RecvArgs  string   // "[X]" for generic receivers
	TParams   string   // "[X any]" for generic funcs / types
	Sig       string   // "(a int) string"
	Body      string   // fingerprint text placed in the body; "" = bodyless
	Uses      []string // import names used by the body
	SigUses   []string // import names used by the signature only
	Directive string   // "", keep-original, purge, override-signature
	DirStyle  int      // 0: // comment, 1: /* */ comment
	Linkname  string   // non-empty: bodyless function carrying a //go:linkname line

	// types
	TypeDef string // text after the name, e.g. "struct{ F int }"

	// values
	Names    []valueName
	FromCall string // non-empty: all names are initialised from this one multi-value call
	Typ      string // optional declared type
	Embed    string // non-empty: //go:embed pattern on the spec
}

type decl struct {
	Kind      declKind
	Grouped   bool   // GenDecl with parentheses
	Specs     []spec // one for funcs; >=1 for GenDecls
	Directive string // directive on the GenDecl itself (purge)
}

type importSpec struct {
	Name string // "", "_", ".", or explicit name
	Path string
}

func (i importSpec) local() string {
	if i.Name != "" {
		return i.Name
	}
	p := i.Path
	if j := strings.LastIndex(p, "/"); j >= 0 {
		p = p[j+1:]
	}
	return p
}

type file struct {
	Name    string
	Imports []importSpec
	Decls   []decl
}

type pair struct {
	ImportPath string
	Orig       []file
	Over       []file
}

func dirComment(d string, style int) string {
	if d == "" {
		return ""
	}
	if style == 1 {
		return "/*gopherjs:" + d + "*/\n"
	}
	return "//gopherjs:" + d + "\n"
}

func (s spec) funcSource() string {
	var sb strings.Builder
	if s.Linkname != "" {
		sb.WriteString("//go:linkname " + s.Name + " " + s.Linkname + "\n")
	}
	sb.WriteString(dirComment(s.Directive, s.DirStyle))
	sb.WriteString("func ")
	if s.Recv != "" {
		star := ""
		if s.RecvPtr {
			star = "*"
		}
		sb.WriteString("(r " + star + s.Recv + s.RecvArgs + ") ")
	}
	sb.WriteString(s.Name + s.TParams + s.Sig)
	if s.Body == "" {
		sb.WriteString("\n")
		return sb.String()
	}
	sb.WriteString(" {\n\t_ = \"" + s.Body + "\"\n")
	for _, u := range s.Uses {
		sb.WriteString("\t" + useStmt(u) + "\n")
	}
	sb.WriteString(returnFor(s.Sig))
	sb.WriteString("}\n")
	return sb.String()
}

func returnFor(sig string) string {
	switch {
	case strings.HasSuffix(sig, ") string"):
		return "\treturn \"\"\n"
	case strings.HasSuffix(sig, ") int"):
		return "\treturn 0\n"
	case strings.HasSuffix(sig, "(string, int)"):
		return "\treturn \"\", 0\n"
	case strings.HasSuffix(sig, ") any"):
		return "\treturn nil\n"
	}
	return ""
}

// useStmt is a statement that references the import with the given local name.
func useStmt(name string) string {
	switch name {
	case "strings":
		return "_ = strings.ToUpper(\"x\")"
	case "str":
		return "_ = str.Itoa(1)"
	case "unsafe":
		return "_ = unsafe.Sizeof(0)"
	case "sync":
		return "var mu sync.Mutex; mu.Lock()"
	case "utf8":
		return "_ = utf8.RuneLen('x')"
	case "bits":
		return "_ = bits.Len(3)"
	case "Sqrt": // through the dot import of math
		return "_ = Sqrt(2)"
	}
	return "_ = " + name + ".X"
}

func (d decl) source() string {
	switch d.Kind {
	case kFunc, kMethod, kInit:
		return d.Specs[0].funcSource()
	}
	tok := map[declKind]string{kType: "type", kVar: "var", kConst: "const"}[d.Kind]
	var sb strings.Builder
	sb.WriteString(dirComment(d.Directive, 0))
	specSrc := func(s spec) string {
		var b strings.Builder
		if s.Embed != "" {
			b.WriteString("//go:embed " + s.Embed + "\n")
		}
		b.WriteString(dirComment(s.Directive, s.DirStyle))
		if d.Kind == kType {
			b.WriteString(s.Name + s.TParams + " " + s.TypeDef)
			return b.String()
		}
		var names, vals []string
		for _, n := range s.Names {
			names = append(names, n.Name)
			if n.Value != "" {
				vals = append(vals, n.Value)
			}
		}
		b.WriteString(strings.Join(names, ", "))
		if s.Typ != "" {
			b.WriteString(" " + s.Typ)
		}
		if s.FromCall != "" {
			b.WriteString(" = " + s.FromCall)
		} else if len(vals) > 0 {
			b.WriteString(" = " + strings.Join(vals, ", "))
		}
		return b.String()
	}
	if d.Grouped {
		sb.WriteString(tok + " (\n")
		for _, s := range d.Specs {
			for _, l := range strings.Split(specSrc(s), "\n") {
				sb.WriteString("\t" + l + "\n")
			}
		}
		sb.WriteString(")\n")
	} else {
		src := specSrc(d.Specs[0])
		// directives of an ungrouped spec sit above the keyword
		lines := strings.Split(src, "\n")
		for _, l := range lines[:len(lines)-1] {
			sb.WriteString(l + "\n")
		}
		sb.WriteString(tok + " " + lines[len(lines)-1] + "\n")
	}
	return sb.String()
}

func (f file) source(pkg string) string {
	var sb strings.Builder
	sb.WriteString("package " + pkg + "\n\n")
	if len(f.Imports) > 0 {
		sb.WriteString("import (\n")
		for _, i := range f.Imports {
			if i.Name != "" {
				sb.WriteString("\t" + i.Name + " ")
			} else {
				sb.WriteString("\t")
			}
			sb.WriteString("\"" + i.Path + "\"\n")
		}
		sb.WriteString(")\n\n")
	}
	for _, d := range f.Decls {
		sb.WriteString(d.source())
		sb.WriteString("\n")
	}
	return sb.String()
}

// compatibleSig returns a different signature under which a body written for sig still type-checks.
func compatibleSig(sig string) string {
	switch {
	case strings.HasSuffix(sig, "(string, int)"):
		return "(q any) (any, any)"
	case strings.HasSuffix(sig, ") string"), strings.HasSuffix(sig, ") int"):
		return "(q any) any"
	}
	return "(q any)"
}

// fixImports drops named imports nobody uses and gives a dot import a permanent blank user.
func fixImports(f *file) {
	used := map[string]bool{}
	for _, d := range f.Decls {
		for _, s := range d.Specs {
			for _, u := range s.Uses {
				used[u] = true
			}
			for _, u := range s.SigUses {
				used[u] = true
			}
		}
	}
	var keep []importSpec
	dot := false
	for _, i := range f.Imports {
		switch {
		case i.Name == "_":
			keep = append(keep, i)
		case i.Name == ".":
			keep = append(keep, i)
			dot = true
		case used[i.local()]:
			keep = append(keep, i)
		}
	}
	f.Imports = keep
	if dot {
		f.Decls = append(f.Decls, decl{Kind: kVar, Specs: []spec{{Names: []valueName{{"_", "Sqrt(2)"}}}}})
	}
}

// ---------- random generation ----------

type symtab struct {
	funcs   []string // original function names
	types   []string // original type names (generic ones listed in generic)
	generic map[string]bool
	methods map[string][]string // type -> method names
	values  []string            // original var/const names
	fspec   map[string]spec     // function / method key -> original declaration
}

var importPool = []importSpec{{"", "strings"}, {"str", "strconv"}, {"", "unicode/utf8"}, {"", "math/bits"}}

func genPair(rt *rapid.T) pair {
	p := pair{ImportPath: rapid.SampledFrom([]string{"example/pkg", "regexp", "time", "strings"}).Draw(rt, "importPath")}
	sym := symtab{generic: map[string]bool{}, methods: map[string][]string{}, fspec: map[string]spec{}}
	nOrig := rapid.IntRange(1, 3).Draw(rt, "norig")
	fp := 0
	nextFP := func(side string) string { fp++; return fmt.Sprintf("fp:%s:%d", side, fp) }
	usedNames := map[string]bool{}
	fresh := func(prefix string) string {
		for i := 0; ; i++ {
			n := fmt.Sprintf("%s%d", prefix, i)
			if !usedNames[n] {
				usedNames[n] = true
				return n
			}
		}
	}
	genImports := func(label string, allowSync bool) []importSpec {
		var is []importSpec
		for _, ip := range importPool {
			if rapid.IntRange(0, 2).Draw(rt, label+"imp") == 0 {
				is = append(is, ip)
			}
		}
		switch rapid.IntRange(0, 5).Draw(rt, label+"unsafe") {
		case 0:
			is = append(is, importSpec{"_", "unsafe"})
		case 1:
			is = append(is, importSpec{"", "unsafe"})
		}
		if rapid.IntRange(0, 4).Draw(rt, label+"dot") == 0 {
			is = append(is, importSpec{".", "math"})
		}
		if allowSync && rapid.IntRange(0, 3).Draw(rt, label+"sync") == 0 {
			is = append(is, importSpec{"", "sync"})
		}
		return is
	}
	pickUses := func(f *file, label string) []string {
		var uses []string
		for _, i := range f.Imports {
			if i.Name == "_" {
				continue
			}
			if rapid.IntRange(0, 2).Draw(rt, label+"use") == 0 {
				if i.Name == "." {
					uses = append(uses, "Sqrt")
				} else {
					uses = append(uses, i.local())
				}
			}
		}
		return uses
	}
	sigs := []string{"() string", "(a int) string", "(a, b int) int", "() (string, int)", "()"}
	// ----- original files -----
	for fi := 0; fi < nOrig; fi++ {
		f := file{Name: fmt.Sprintf("orig%d.go", fi)}
		f.Imports = genImports("o", true)
		nd := rapid.IntRange(1, 7).Draw(rt, "ndecls")
		for di := 0; di < nd; di++ {
			switch rapid.IntRange(0, 7).Draw(rt, "dkind") {
			case 0, 1: // function
				s := spec{Name: fresh("f"), Sig: rapid.SampledFrom(sigs).Draw(rt, "sig"), Body: nextFP("o")}
				if rapid.IntRange(0, 3).Draw(rt, "generic") == 0 {
					s.TParams = "[X any]"
					s.Sig = "(x X) string"
				}
				s.Uses = pickUses(&f, "f")
				// a signature that refers to an imported type (possibly the only use of that import)
				if s.TParams == "" && rapid.IntRange(0, 3).Draw(rt, "sigimport") == 0 {
					for _, im := range f.Imports {
						switch im.local() {
						case "strings":
							s.Sig, s.SigUses = "(b *strings.Builder) string", []string{"strings"}
						case "str":
							s.Sig, s.SigUses = "(e *str.NumError) string", []string{"str"}
						case "sync":
							s.Sig, s.SigUses = "(pm *sync.Mutex) string", []string{"sync"}
						}
					}
				}
				sym.fspec[s.Name] = s
				sym.funcs = append(sym.funcs, s.Name)
				f.Decls = append(f.Decls, decl{Kind: kFunc, Specs: []spec{s}})
			case 2: // type (+ methods)
				grouped := rapid.IntRange(0, 2).Draw(rt, "tgroup") == 0
				n := 1
				if grouped {
					n = rapid.IntRange(1, 3).Draw(rt, "ntypes")
				}
				d := decl{Kind: kType, Grouped: grouped}
				var names []string
				for i := 0; i < n; i++ {
					s := spec{Name: fresh("T"), TypeDef: rapid.SampledFrom([]string{"struct{ F int }", "int", "struct{}", "[]string"}).Draw(rt, "tdef")}
					if rapid.IntRange(0, 3).Draw(rt, "tgeneric") == 0 {
						s.TParams = "[X any]"
						s.TypeDef = "struct{ V X }"
						sym.generic[s.Name] = true
					}
					sym.types = append(sym.types, s.Name)
					names = append(names, s.Name)
					d.Specs = append(d.Specs, s)
				}
				f.Decls = append(f.Decls, d)
				for _, tn := range names {
					for mi := 0; mi < rapid.IntRange(0, 3).Draw(rt, "nmeth"); mi++ {
						m := spec{Name: methodName(mi), Recv: tn, RecvPtr: rapid.Bool().Draw(rt, "ptr"), Sig: rapid.SampledFrom(sigs).Draw(rt, "msig"), Body: nextFP("o")}
						if sym.generic[tn] {
							m.RecvArgs = "[X]"
						}
						m.Uses = pickUses(&f, "m")
						sym.fspec[tn+"."+m.Name] = m
						sym.methods[tn] = append(sym.methods[tn], m.Name)
						f.Decls = append(f.Decls, decl{Kind: kMethod, Specs: []spec{m}})
					}
				}
			case 3, 4: // var
				d := decl{Kind: kVar, Grouped: rapid.IntRange(0, 2).Draw(rt, "vgroup") == 0}
				ns := 1
				if d.Grouped {
					ns = rapid.IntRange(1, 3).Draw(rt, "nvspecs")
				}
				for si := 0; si < ns; si++ {
					s := spec{}
					switch rapid.IntRange(0, 3).Draw(rt, "vform") {
					case 0: // single with value
						n := fresh("v")
						s.Names = []valueName{{n, "\"" + nextFP("o") + "\""}}
					case 1: // multi-name with values
						for k := 0; k < rapid.IntRange(2, 3).Draw(rt, "nn"); k++ {
							s.Names = append(s.Names, valueName{fresh("v"), "\"" + nextFP("o") + "\""})
						}
					case 2: // multi-name from one call
						s.Names = []valueName{{fresh("v"), ""}, {fresh("v"), ""}}
						s.FromCall = "pairFn()"
					default: // typed without value
						for k := 0; k < rapid.IntRange(1, 2).Draw(rt, "nn"); k++ {
							s.Names = append(s.Names, valueName{fresh("v"), ""})
						}
						s.Typ = "string"
					}
					for _, n := range s.Names {
						sym.values = append(sym.values, n.Name)
					}
					d.Specs = append(d.Specs, s)
				}
				f.Decls = append(f.Decls, d)
			case 5: // const
				d := decl{Kind: kConst, Grouped: rapid.IntRange(0, 1).Draw(rt, "cgroup") == 0}
				if d.Grouped {
					iota := rapid.Bool().Draw(rt, "iota")
					n := rapid.IntRange(2, 4).Draw(rt, "nconst")
					for k := 0; k < n; k++ {
						nm := fresh("c")
						s := spec{}
						switch {
						case iota && k == 0:
							s.Names = []valueName{{nm, "iota * 10"}}
						case iota:
							s.Names = []valueName{{nm, ""}} // implicit repetition
						default:
							s.Names = []valueName{{nm, fmt.Sprintf("%d", 100+k)}}
						}
						sym.values = append(sym.values, nm)
						d.Specs = append(d.Specs, s)
					}
				} else {
					nm := fresh("c")
					d.Specs = []spec{{Names: []valueName{{nm, "\"" + nextFP("o") + "\""}}}}
					sym.values = append(sym.values, nm)
				}
				f.Decls = append(f.Decls, d)
			case 6: // init, or a blank declaration (which nothing can override)
				switch rapid.IntRange(0, 3).Draw(rt, "blankkind") {
				case 0:
					s := spec{Name: "_", Sig: "()", Body: nextFP("o")}
					s.Uses = pickUses(&f, "bf")
					f.Decls = append(f.Decls, decl{Kind: kInit, Specs: []spec{s}})
					continue
				case 1:
					f.Decls = append(f.Decls, decl{Kind: kVar, Specs: []spec{{Names: []valueName{{"_", "\"" + nextFP("o") + "\""}}}}})
					continue
				}
				s := spec{Name: "init", Sig: "()", Body: nextFP("o")}
				s.Uses = pickUses(&f, "i")
				f.Decls = append(f.Decls, decl{Kind: kInit, Specs: []spec{s}})
			default: // linknamed bodyless function (needs unsafe)
				has := false
				for _, i := range f.Imports {
					if i.Path == "unsafe" {
						has = true
					}
				}
				if !has {
					f.Imports = append(f.Imports, importSpec{"_", "unsafe"})
				}
				s := spec{Name: fresh("f"), Sig: "(a int) string", Linkname: "strings.foo"}
				sym.fspec[s.Name] = s
				sym.funcs = append(sym.funcs, s.Name)
				f.Decls = append(f.Decls, decl{Kind: kFunc, Specs: []spec{s}})
			}
		}
		fixImports(&f)
		p.Orig = append(p.Orig, f)
	}
	// helper needed by "from call" specs lives in its own never-overridden original file
	p.Orig = append(p.Orig, file{Name: "orig_helper.go", Decls: []decl{{Kind: kFunc, Specs: []spec{{Name: "pairFn", Sig: "() (string, int)", Body: "fp:helper"}}}}})

	// ----- overlay files -----
	nOver := rapid.IntRange(1, 2).Draw(rt, "nover")
	sort.Strings(sym.values)
	takenF, takenT, takenV := map[string]bool{}, map[string]bool{}, map[string]bool{}
	takenM := map[string]bool{}
	for fi := 0; fi < nOver; fi++ {
		f := file{Name: fmt.Sprintf("over%d.go", fi)}
		f.Imports = genImports("v", false)
		nd := rapid.IntRange(1, 6).Draw(rt, "nodecls")
		for di := 0; di < nd; di++ {
			switch rapid.IntRange(0, 6).Draw(rt, "okind") {
			case 0, 1: // function override / new function
				name := ""
				if len(sym.funcs) > 0 && rapid.IntRange(0, 3).Draw(rt, "newf") > 0 {
					name = rapid.SampledFrom(sym.funcs).Draw(rt, "ofn")
				}
				if name == "" || takenF[name] {
					name = fresh("f")
				}
				takenF[name] = true
				s := spec{Name: name, Sig: rapid.SampledFrom(sigs).Draw(rt, "osig"), Body: nextFP("v")}
				s.Directive = rapid.SampledFrom([]string{"", "", "keep-original", "purge", "override-signature"}).Draw(rt, "fdir")
				s.DirStyle = rapid.IntRange(0, 1).Draw(rt, "dstyle")
				if s.Directive == "override-signature" {
					s.Body = ""
					s.Sig = compatibleSig(sym.fspec[name].Sig)
				}
				if s.Directive == "purge" && rapid.Bool().Draw(rt, "bodyless") {
					s.Body = ""
				}
				if s.Body != "" {
					s.Uses = pickUses(&f, "of")
				}
				f.Decls = append(f.Decls, decl{Kind: kFunc, Specs: []spec{s}})
			case 2: // method override
				if len(sym.types) == 0 {
					continue
				}
				tn := rapid.SampledFrom(sym.types).Draw(rt, "omt")
				mn := methodName(rapid.IntRange(0, 3).Draw(rt, "omn"))
				if takenM[tn+"."+mn] || takenT[tn] {
					continue
				}
				takenM[tn+"."+mn] = true
				m := spec{Name: mn, Recv: tn, RecvPtr: rapid.Bool().Draw(rt, "optr"), Sig: rapid.SampledFrom(sigs).Draw(rt, "omsig"), Body: nextFP("v")}
				if sym.generic[tn] {
					m.RecvArgs = "[X]"
				}
				m.Directive = rapid.SampledFrom([]string{"", "", "keep-original", "purge", "override-signature"}).Draw(rt, "mdir")
				if m.Directive == "override-signature" {
					m.Body = ""
					m.Sig = compatibleSig(sym.fspec[tn+"."+mn].Sig)
					if o, ok := sym.fspec[tn+"."+mn]; ok {
						m.RecvPtr = o.RecvPtr
					}
				}
				if m.Body != "" {
					m.Uses = pickUses(&f, "om")
				}
				f.Decls = append(f.Decls, decl{Kind: kMethod, Specs: []spec{m}})
			case 3: // type override / purge
				if len(sym.types) == 0 {
					continue
				}
				grouped := rapid.IntRange(0, 2).Draw(rt, "otgroup") == 0
				d := decl{Kind: kType, Grouped: grouped}
				n := 1
				if grouped {
					n = rapid.IntRange(1, 2).Draw(rt, "ont")
					if rapid.IntRange(0, 3).Draw(rt, "declpurge") == 0 {
						d.Directive = "purge"
					}
				}
				for i := 0; i < n; i++ {
					tn := rapid.SampledFrom(sym.types).Draw(rt, "otn")
					if takenT[tn] {
						continue
					}
					conflict := false
					for k := range takenM {
						if strings.HasPrefix(k, tn+".") {
							conflict = true
						}
					}
					if conflict {
						continue
					}
					takenT[tn] = true
					s := spec{Name: tn, TypeDef: "struct{ G string }"}
					if sym.generic[tn] {
						s.TParams = "[X any]"
						s.TypeDef = "struct{ W X }"
					}
					if rapid.IntRange(0, 2).Draw(rt, "tpurge") == 0 {
						s.Directive = "purge"
						s.DirStyle = rapid.IntRange(0, 1).Draw(rt, "tdstyle")
					}
					d.Specs = append(d.Specs, s)
				}
				if len(d.Specs) > 0 {
					if !d.Grouped && d.Specs[0].Directive != "" {
						// ungrouped: directive text is emitted above the keyword
					}
					f.Decls = append(f.Decls, d)
				}
			case 4, 5: // value override
				if len(sym.values) == 0 {
					continue
				}
				isConst := func(n string) bool { return strings.HasPrefix(n, "c") }
				first := rapid.SampledFrom(sym.values).Draw(rt, "ovn")
				if takenV[first] {
					continue
				}
				kind := kVar
				if isConst(first) {
					kind = kConst
				}
				d := decl{Kind: kind, Grouped: rapid.Bool().Draw(rt, "ovgroup")}
				s := spec{Names: []valueName{{first, "\"" + nextFP("v") + "\""}}}
				takenV[first] = true
				if rapid.Bool().Draw(rt, "two") {
					second := rapid.SampledFrom(sym.values).Draw(rt, "ovn2")
					if !takenV[second] && isConst(second) == isConst(first) {
						takenV[second] = true
						s.Names = append(s.Names, valueName{second, "\"" + nextFP("v") + "\""})
					}
				}
				if rapid.IntRange(0, 3).Draw(rt, "vpurge") == 0 {
					s.Directive = "purge"
				}
				d.Specs = []spec{s}
				if d.Grouped && rapid.IntRange(0, 4).Draw(rt, "vdeclpurge") == 0 {
					d.Directive = "purge"
				}
				f.Decls = append(f.Decls, d)
			default: // init in the overlay, or blank declarations
				switch rapid.IntRange(0, 3).Draw(rt, "oblank") {
				case 0:
					f.Decls = append(f.Decls, decl{Kind: kInit, Specs: []spec{{Name: "_", Sig: "()", Body: nextFP("v")}}})
					continue
				case 1:
					f.Decls = append(f.Decls, decl{Kind: kType, Specs: []spec{{Name: "_", TypeDef: "struct{ Z int }"}}})
					continue
				}
				s := spec{Name: "init", Sig: "()", Body: nextFP("v")}
				s.Uses = pickUses(&f, "oi")
				f.Decls = append(f.Decls, decl{Kind: kInit, Specs: []spec{s}})
			}
		}
		fixImports(&f)
		p.Over = append(p.Over, f)
	}
	return p
}

// methodName: the third method of a type is called init - a legal method name that must not be
// confused with the package-level init functions (which are never overridden).
func methodName(i int) string {
	if i == 2 {
		return "init"
	}
	return fmt.Sprintf("m%d", i)
}
