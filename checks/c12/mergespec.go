package c12

import (
	"fmt"
	"sort"
	"strings"
)

// mergespec: an independent implementation of the overlay-merge rules (DESIGN.md
// Appendix B), written from doc/pargma.md, the parseAndAugment doc comment and the
// property statement. It works on declaration records, not on ASTs.

type overrideFlags struct {
	keep, purge, sig bool
	sigSpec          *spec // overlay declaration providing the new signature
	isType           bool
}

type expFile struct {
	Name    string
	Imports []string // "name path", sorted
	Records []string // ordered
}

func funcKey(s spec) string {
	if s.Recv != "" {
		return s.Recv + "." + s.Name
	}
	return s.Name
}

func norm(s string) string {
	return strings.Join(strings.Fields(s), "")
}

func funcRecord(s spec) string {
	recv := ""
	if s.Recv != "" {
		if s.RecvPtr {
			recv = "*"
		}
		recv += s.Recv + s.RecvArgs
	}
	body := s.Body
	if body == "" {
		body = "<none>"
	}
	return fmt.Sprintf("func recv=%s name=%s sig=%s body=%s", norm(recv), s.Name, norm(s.TParams+s.Sig), body)
}

func typeRecord(s spec) string {
	return fmt.Sprintf("type %s%s = %s", s.Name, norm(s.TParams), norm(s.TypeDef))
}

func valueRecord(kind declKind, s spec) string {
	tok := "var"
	if kind == kConst {
		tok = "const"
	}
	var names, vals []string
	for _, n := range s.Names {
		names = append(names, n.Name)
		if n.Value != "" {
			vals = append(vals, norm(n.Value))
		}
	}
	if s.FromCall != "" {
		vals = []string{norm(s.FromCall)}
	}
	return fmt.Sprintf("%s names=%s type=%s values=%s", tok, strings.Join(names, ","), s.Typ, strings.Join(vals, ","))
}

// collectOverrides gathers the keys declared in overlay files with their directive flags.
func collectOverrides(p pair) map[string]*overrideFlags {
	o := map[string]*overrideFlags{}
	for fi := range p.Over {
		for di := range p.Over[fi].Decls {
			d := &p.Over[fi].Decls[di]
			for si := range d.Specs {
				s := &d.Specs[si]
				switch d.Kind {
				case kFunc, kMethod:
					f := &overrideFlags{keep: s.Directive == "keep-original", purge: s.Directive == "purge", sig: s.Directive == "override-signature"}
					if f.sig {
						f.sigSpec = s
					}
					o[funcKey(*s)] = f
				case kType:
					o[s.Name] = &overrideFlags{purge: s.Directive == "purge" || d.Directive == "purge", isType: true}
				case kVar, kConst:
					for _, n := range s.Names {
						o[n.Name] = &overrideFlags{purge: s.Directive == "purge" || d.Directive == "purge"}
					}
				}
			}
		}
	}
	delete(o, "init")
	delete(o, "_") // the blank identifier names nothing that could be overridden
	return o
}

func usedImports(uses map[string]bool, f file, linknameLeft bool, anyDeclLeft bool, lost bool) []string {
	var out []string
	if !lost {
		// a file that lost nothing keeps its imports untouched
		for _, i := range f.Imports {
			out = append(out, i.Name+" "+i.Path)
		}
		sort.Strings(out)
		return out
	}
	if !anyDeclLeft {
		return nil // a file left with imports only loses them all
	}
	for _, i := range f.Imports {
		switch {
		case i.Name == "_" || i.Name == ".":
			out = append(out, i.Name+" "+i.Path)
		case uses[i.local()]:
			out = append(out, i.Name+" "+i.Path)
		case i.Path == "unsafe" && linknameLeft:
			out = append(out, "_ "+i.Path) // kept for the directive, as a blank import
		}
	}
	sort.Strings(out)
	return out
}

// merge computes the expected result.
func merge(p pair) []expFile {
	ov := collectOverrides(p)
	syncToNosync := false
	switch p.ImportPath {
	case "crypto/rand", "encoding/gob", "encoding/json", "expvar", "go/token", "log", "math/big", "math/rand", "regexp", "time":
		syncToNosync = true
	}
	var out []expFile
	// 1. overlay files: everything except purged declarations/specs and signature-only functions
	for _, f := range p.Over {
		ef := expFile{Name: f.Name}
		uses := map[string]bool{}
		left, lost := false, false
		for _, d := range f.Decls {
			for _, s := range d.Specs {
				if s.Directive == "purge" || s.Directive == "override-signature" || d.Directive == "purge" {
					lost = true
				}
				switch d.Kind {
				case kFunc, kMethod, kInit:
					if s.Directive == "purge" || s.Directive == "override-signature" {
						continue
					}
					ef.Records = append(ef.Records, funcRecord(s))
					for _, u := range s.Uses {
						uses[u] = true
					}
					left = true
				case kType:
					if s.Directive == "purge" || d.Directive == "purge" {
						continue
					}
					ef.Records = append(ef.Records, typeRecord(s))
					left = true
				case kVar, kConst:
					if s.Directive == "purge" || d.Directive == "purge" {
						continue
					}
					ef.Records = append(ef.Records, valueRecord(d.Kind, s))
					if strings.Contains(valueRecord(d.Kind, s), "Sqrt") {
						uses["Sqrt"] = true
					}
					left = true
				}
			}
		}
		ef.Imports = usedImports(uses, f, false, left, lost)
		out = append(out, ef)
	}
	// 2. original files
	for _, f := range p.Orig {
		ef := expFile{Name: f.Name}
		uses := map[string]bool{}
		left, linknameLeft, lost := false, false, false
		keepFunc := func(s spec) {
			ef.Records = append(ef.Records, funcRecord(s))
			for _, u := range s.Uses {
				uses[u] = true
			}
			for _, u := range s.SigUses {
				uses[u] = true
			}
			if s.Linkname != "" {
				linknameLeft = true
			}
			left = true
		}
		for _, d := range f.Decls {
			for _, s := range d.Specs {
				switch d.Kind {
				case kInit:
					keepFunc(s)
				case kFunc, kMethod:
					fl, ok := ov[funcKey(s)]
					if ok && !fl.isType {
						lost = true
						if !fl.keep && !fl.sig {
							continue // replaced (or purged)
						}
						ns := s
						if fl.keep {
							ns.Name = "_gopherjs_original_" + s.Name
						}
						if fl.sig {
							ns.Recv, ns.RecvPtr, ns.RecvArgs = fl.sigSpec.Recv, fl.sigSpec.RecvPtr, fl.sigSpec.RecvArgs
							ns.TParams, ns.Sig = fl.sigSpec.TParams, fl.sigSpec.Sig
							ns.SigUses = nil // the new signature refers to no import
						}
						keepFunc(ns)
						continue
					}
					if d.Kind == kMethod {
						if tf, ok := ov[s.Recv]; ok && tf.purge && tf.isType {
							lost = true
							continue // method of a purged type
						}
					}
					keepFunc(s)
				case kType:
					if _, ok := ov[s.Name]; ok {
						lost = true
						continue
					}
					ef.Records = append(ef.Records, typeRecord(s))
					left = true
				case kVar, kConst:
					perName := s.FromCall == "" && s.Names[0].Value != "" // as many values as names
					// A slot of a multi-spec const group defines iota and the implicit repetition
					// of its neighbours: "unrelated declarations ... and their initial values are
					// untouched" forces the slot to stay, with the overridden name blanked.
					constSlot := d.Kind == kConst && d.Grouped && len(d.Specs) > 1 && positional(d)
					ns := s
					ns.Names = nil
					if perName && !constSlot {
						for _, n := range s.Names {
							if _, ok := ov[n.Name]; ok {
								lost = true
								continue
							}
							ns.Names = append(ns.Names, n)
						}
						if len(ns.Names) == 0 {
							continue
						}
					} else {
						blank := 0
						for _, n := range s.Names {
							if _, ok := ov[n.Name]; ok {
								n.Name = "_"
							}
							if n.Name == "_" {
								blank++
							}
							ns.Names = append(ns.Names, n)
						}
						if blank == len(ns.Names) && !constSlot && anyOverridden(s, ov) {
							lost = true
							continue
						}
					}
					rec := valueRecord(d.Kind, ns)
					ef.Records = append(ef.Records, rec)
					if strings.Contains(rec, "Sqrt") {
						uses["Sqrt"] = true
					}
					left = true
				}
			}
		}
		ef.Imports = usedImports(uses, f, linknameLeft, left, lost)
		if syncToNosync {
			for i, imp := range ef.Imports {
				if imp == " sync" {
					ef.Imports[i] = "sync github.com/gopherjs/gopherjs/nosync"
				}
			}
			sort.Strings(ef.Imports)
		}
		out = append(out, ef)
	}
	return out
}

func anyOverridden(s spec, ov map[string]*overrideFlags) bool {
	for _, n := range s.Names {
		if _, ok := ov[n.Name]; ok {
			return true
		}
	}
	return false
}

// positional reports whether the specs of a const group depend on their position
// (iota or implicit repetition of the previous expression).
func positional(d decl) bool {
	for _, s := range d.Specs {
		for _, n := range s.Names {
			if n.Value == "" || strings.Contains(n.Value, "iota") {
				return true
			}
		}
	}
	return false
}
