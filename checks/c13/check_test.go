package c13

import (
	"fmt"
	"math"
	"sort"
	"strconv"
	"strings"
	"testing"

	"pgregory.net/rapid"

	"verif/internal/drv"
)

var ev *drv.Evidence

func TestMain(m *testing.M) { drv.TestMain(m, func() *drv.Evidence { return ev }) }

const rule = "table programs compared with the native run: (1) math functions whose results are exactly defined (rounding, sign, bit pattern, remainder, scaling, decomposition, classification, Sqrt, Hypot, FMA, Nextafter) over a boundary grid (incl. values around 2^31, 2^32, 2^52, 2^53, 2^63, halves, subnormals), grid x grid for binary functions, and rapid-drawn bit patterns - compared bit for bit with NaN canonicalised; (2) the JavaScript-delegating transcendental functions on a special-value grid, compared only where the native result is NaN, +-Inf, +-0, +-1, an argument or a multiple of pi/4 (documented special cases); (3) every function of math/bits incl. panics of Div; (4) unicode case mapping, folding and Is* predicates for every rune 0..0x10FFFF plus out-of-range samples; (5) rapid-generated sequential histories over sync/atomic functions, typed values and Value; (6) rapid-generated histories over Mutex/RWMutex/WaitGroup/Once/Map/Pool where the native side uses the real sync package and contended operations (predicted by a model) must panic under GopherJS. Non-trivial: row with a special/boundary argument (counted in-program for tables as rows of the grid part) or history with a contended operation; distinct by construction / content hash."

type groupOut struct {
	rows   int64
	digest string
	sample []string
}

func parseGroups(o drv.Outcome) (map[string]*groupOut, []string) {
	m := map[string]*groupOut{}
	var order []string
	var names []string
	for _, l := range o.Trace {
		if strings.HasPrefix(l, "G ") {
			f := strings.Fields(l)
			names = append(names, strings.Join(f[1:len(f)-2], " "))
		}
	}
	sort.Slice(names, func(i, j int) bool { return len(names[i]) > len(names[j]) })
	for _, l := range o.Trace {
		switch {
		case strings.HasPrefix(l, "G "):
			f := strings.Fields(l)
			n := strings.Join(f[1:len(f)-2], " ")
			g := m[n]
			if g == nil {
				g = &groupOut{}
				m[n] = g
			}
			g.rows, _ = strconv.ParseInt(f[len(f)-2], 10, 64)
			g.digest = f[len(f)-1]
			order = append(order, n)
		case strings.HasPrefix(l, "R "):
			for _, n := range names {
				if strings.HasPrefix(l[2:], n+" ") {
					g := m[n]
					if g == nil {
						g = &groupOut{}
						m[n] = g
					}
					g.sample = append(g.sample, l)
					break
				}
			}
		}
	}
	return m, order
}

// runGroups builds a group-style table program in both worlds and compares it; mismatching groups are re-run row by row.
func runGroups(name string, files map[string]string, gridRows func(string) int64) {
	c := drv.NewCase("c13_", files, true)
	defer c.Remove()
	res := drv.RunBoth(c, drv.BuildOpts{}, [][]string{{"all"}}, drv.NodeOpts{Timeout: 20 * 60 * 1e9}, true)
	if res.NatErr != nil {
		drv.Infra("%s: native build failed: %v", name, res.NatErr)
	}
	if res.JSBuildErr != nil {
		ev.Violation(name+": GopherJS build failed: "+res.JSBuildErr.Error(), c.ReproFiles())
		return
	}
	js, nat := res.JS[0], res.Native[0]
	if nat.End != "exit0" {
		drv.Infra("%s: native run ended %s %s", name, nat.End, nat.Msg)
	}
	if js.End != "exit0" {
		ev.Violation(fmt.Sprintf("%s: GopherJS run ended %s %q\n%s", name, js.End, js.Msg, js.Stderr), c.ReproFiles())
		return
	}
	gj, _ := parseGroups(js)
	gn, order := parseGroups(nat)
	for _, g := range order {
		n := gn[g]
		ev.Bulk(n.rows, gridRows(g), name)
		j := gj[g]
		if j != nil && j.digest == n.digest && j.rows == n.rows && strings.Join(j.sample, "\n") == strings.Join(n.sample, "\n") {
			continue
		}
		vj := drv.RunNode(res.JSPath, []string{"verbose", g}, drv.NodeOpts{Timeout: 10 * 60 * 1e9})
		vn := drv.RunNative(c.Dir+"/native.bin", []string{"verbose", g}, 10*60*1e9)
		unknown := 0
		total := 0
		for k := range vn.Trace {
			a := ""
			if k < len(vj.Trace) {
				a = vj.Trace[k]
			}
			b := vn.Trace[k]
			if a == b || strings.HasPrefix(b, "G ") {
				continue
			}
			total++
			key := b
			if i := strings.Index(b, " = "); i >= 0 {
				key = b[2:i]
			}
			if f := drv.MatchRow("C13", key); f != nil {
				ev.Known(f)
				continue
			}
			if unknown == 0 {
				ev.Violation(fmt.Sprintf("%s: row %q: gopherjs %q, native %q", name, key, a, b), map[string]string{"row.txt": key + "\ngopherjs: " + a + "\nnative:   " + b + "\n", "main.go": files["main.go"]})
			}
			unknown++
		}
		if total == 0 {
			ev.Violation(fmt.Sprintf("%s: group %q digests differ (%v vs %v) but no row differs", name, g, j, n), map[string]string{"main.go": files["main.go"]})
		}
		if unknown > 1 {
			fmt.Printf("  (%d more differing rows in group %q)\n", unknown-1, g)
		}
	}
	if len(order) > 0 {
		g := gn[order[len(order)/2]]
		if len(g.sample) > 0 {
			ev.Sample(g.sample[len(g.sample)/2])
		}
	}
}

func bitsOf(s string) (float64, bool) {
	if s == "NaN" {
		return math.NaN(), true
	}
	u, err := strconv.ParseUint(s, 16, 64)
	if err != nil {
		return 0, false
	}
	return math.Float64frombits(u), true
}

// specialResult reports whether a native result is one of the documented special-case forms.
func specialResult(r float64, args []float64) bool {
	if r != r || math.IsInf(r, 0) || r == 0 || r == 1 || r == -1 {
		return true
	}
	for _, a := range args {
		if r == a && a == a {
			return true
		}
	}
	return false
}

func piMultiple(r float64) bool {
	for k := -4; k <= 4; k++ {
		if k == 0 {
			continue
		}
		want := float64(k) * math.Pi / 4
		if math.Abs(r-want) <= math.Abs(math.Nextafter(want, math.Inf(1))-want)*1.01 {
			return true
		}
	}
	return false
}

func checkSpecial() {
	files := specialMathProgram()
	c := drv.NewCase("c13s_", files, true)
	defer c.Remove()
	res := drv.RunBoth(c, drv.BuildOpts{}, [][]string{{}}, drv.NodeOpts{}, true)
	if res.NatErr != nil {
		drv.Infra("special: native build failed: %v", res.NatErr)
	}
	if res.JSBuildErr != nil {
		ev.Violation("special-case program: GopherJS build failed: "+res.JSBuildErr.Error(), c.ReproFiles())
		return
	}
	js, nat := res.JS[0], res.Native[0]
	if js.End != "exit0" || nat.End != "exit0" || len(js.Trace) != len(nat.Trace) {
		ev.Violation(fmt.Sprintf("special-case program: ends %s/%s with %d/%d rows\n%s", js.End, nat.End, len(js.Trace), len(nat.Trace), js.Stderr), c.ReproFiles())
		return
	}
	compared, skipped := int64(0), int64(0)
	reported := 0
	for i, ln := range nat.Trace {
		lj := js.Trace[i]
		fn := strings.Fields(ln)
		fj := strings.Fields(lj)
		eq := -1
		for k, w := range fn {
			if w == "=" {
				eq = k
			}
		}
		if eq < 0 || len(fj) != len(fn) || strings.Join(fj[:eq], " ") != strings.Join(fn[:eq], " ") {
			ev.Violation("special-case rows out of step: "+lj+" / "+ln, nil)
			return
		}
		var args []float64
		for _, w := range fn[2:eq] {
			v, _ := bitsOf(w)
			args = append(args, v)
		}
		rn, _ := bitsOf(fn[eq+1])
		rj, _ := bitsOf(fj[eq+1])
		exact := specialResult(rn, args)
		// multiples of pi/4 are documented results only for arguments that are zero or infinite
		// (e.g. Go's own Atan2(-5e-324, -2) returns +Pi through an underflowing quotient)
		zeroOrInf := false
		for _, a := range args {
			if a == 0 || math.IsInf(a, 0) {
				zeroOrInf = true
			}
		}
		pi := !exact && zeroOrInf && piMultiple(rn)
		if !exact && !pi {
			skipped++
			continue
		}
		compared++
		ok := false
		switch {
		case rn != rn:
			ok = rj != rj
		case exact:
			ok = math.Float64bits(rn) == math.Float64bits(rj)
		case pi:
			ok = math.Abs(rn-rj) <= math.Abs(math.Nextafter(rn, math.Inf(1))-rn)*1.01
		}
		if ok && len(fn) > eq+2 { // Lgamma sign
			ok = fn[eq+2] == fj[eq+2]
		}
		if !ok {
			key := strings.Join(fn[1:eq], " ")
			if f := drv.MatchRow("C13", key); f != nil {
				ev.Known(f)
				continue
			}
			if reported < 5 {
				ev.Violation(fmt.Sprintf("documented special case %s: gopherjs %s (%v), native %s (%v)", key, fj[eq+1], rj, fn[eq+1], rn), map[string]string{"row.txt": lj + "\n" + ln + "\n"})
			}
			reported++
		}
	}
	ev.Bulk(compared, compared, "special-cases")
	ev.Count("special_rows_skipped_ordinary_result", skipped)
}

func checkUnicode() {
	c := drv.NewCase("c13u_", map[string]string{"main.go": unicodeProgram}, true)
	defer c.Remove()
	const parts = 8
	var argvs [][]string
	for i := 0; i < parts; i++ {
		argvs = append(argvs, []string{"all", strconv.Itoa(i), strconv.Itoa(parts)})
	}
	res := drv.RunBoth(c, drv.BuildOpts{}, argvs, drv.NodeOpts{Timeout: 20 * 60 * 1e9}, true)
	if res.NatErr != nil {
		drv.Infra("unicode: native build failed: %v", res.NatErr)
	}
	if res.JSBuildErr != nil {
		ev.Violation("unicode program: GopherJS build failed: "+res.JSBuildErr.Error(), c.ReproFiles())
		return
	}
	for i := range argvs {
		js, nat := res.JS[i], res.Native[i]
		if js.End != "exit0" || nat.End != "exit0" {
			ev.Violation(fmt.Sprintf("unicode program part %d: ends %s/%s\n%s", i, js.End, nat.End, js.Stderr), c.ReproFiles())
			continue
		}
		blocks := int64(0)
		for k, ln := range nat.Trace {
			if strings.HasPrefix(ln, "U ") {
				blocks++
			}
			lj := ""
			if k < len(js.Trace) {
				lj = js.Trace[k]
			}
			if lj == ln {
				continue
			}
			f := strings.Fields(ln)
			desc := fmt.Sprintf("unicode.%s: gopherjs %q native %q", f[1], lj, ln)
			rf := map[string]string{"row.txt": lj + "\n" + ln + "\n"}
			if f[0] == "U" {
				vj := drv.RunNode(res.JSPath, []string{"block", f[1], f[2]}, drv.NodeOpts{})
				vn := drv.RunNative(c.Dir+"/native.bin", []string{"block", f[1], f[2]}, 0)
				desc += "; " + drv.FirstDiff(vj, vn)
			}
			ev.Violation(desc, rf)
			break
		}
		ev.Bulk(blocks*4096, blocks*4096, "unicode")
	}
	ev.SetExhaustive("unicode case mapping, SimpleFold and Is* predicates for every rune 0..0x10FFFF")
}

func checkHistories(name string, files map[string]string, nontrivial []bool, nHist int) {
	c := drv.NewCase("c13h_", files, true)
	defer c.Remove()
	res := drv.RunBoth(c, drv.BuildOpts{}, [][]string{{}}, drv.NodeOpts{}, true)
	if res.NatErr != nil {
		drv.Infra("%s: native build failed (generator bug): %v", name, res.NatErr)
	}
	if res.JSBuildErr != nil {
		ev.Violation(name+": GopherJS build failed: "+res.JSBuildErr.Error(), c.ReproFiles())
		return
	}
	js, nat := res.JS[0], res.Native[0]
	if nat.End != "exit0" {
		drv.Infra("%s: native run ended %s %s\n%s", name, nat.End, nat.Msg, nat.Stderr)
	}
	byH := func(o drv.Outcome) map[string][]string {
		m := map[string][]string{}
		for _, l := range o.Trace {
			m[strings.SplitN(l, " ", 2)[0]] = append(m[strings.SplitN(l, " ", 2)[0]], l)
		}
		return m
	}
	mj, mn := byH(js), byH(nat)
	reported := 0
	for h := 0; h < nHist; h++ {
		k := fmt.Sprintf("h%d", h)
		nt := true
		if nontrivial != nil {
			nt = nontrivial[h]
		}
		ev.Case(name+":"+drv.Hash(strings.Join(mn[k], "\n"), fmt.Sprint(h)), nt)
		if strings.Join(mj[k], "\n") == strings.Join(mn[k], "\n") {
			continue
		}
		if reported < 3 {
			ev.Violation(fmt.Sprintf("%s history %s: %s", name, k, drv.FirstDiff(drv.Outcome{Trace: mj[k]}, drv.Outcome{Trace: mn[k]})), map[string]string{"main.go": files["main.go"], "gopherjs.txt": strings.Join(mj[k], "\n"), "native.txt": strings.Join(mn[k], "\n")})
		}
		reported++
	}
	if js.End != "exit0" {
		ev.Violation(fmt.Sprintf("%s: GopherJS run ended %s %q\n%s", name, js.End, js.Msg, js.Stderr), c.ReproFiles())
	}
	if len(nat.Trace) > 6 {
		ev.Sample(nat.Trace[:6])
	}
}

func TestCheck(t *testing.T) {
	ev = drv.NewEvidence("C13", "exploration", rule)
	nRandom, nHist := 3000, 400
	if drv.Thorough() {
		nRandom, nHist = 60000, 6000
	}
	seed := drv.Seed()
	gridMath := int64(len(f64GridBits()))
	jobs := []func(){
		func() {
			runGroups("math-exact", exactMathProgram(seed, nRandom), func(g string) int64 {
				switch g {
				case "math.Copysign", "math.Max", "math.Min", "math.Dim", "math.Mod", "math.Remainder", "math.Hypot", "math.Nextafter", "math.FMA":
					return gridMath * gridMath
				case "math.Ldexp":
					return gridMath * 34
				}
				return gridMath
			})
		},
		func() { runGroups("math/bits", bitsProgram(seed+1, nRandom), func(g string) int64 { return 25 }) },
		checkSpecial,
		checkUnicode,
		func() {
			src := rapid.Custom(func(rt *rapid.T) string { return atomicProgram(rt, nHist) }).Example(seed + 2)
			checkHistories("sync/atomic", map[string]string{"main.go": src}, nil, nHist)
		},
		func() {
			type out struct {
				src  string
				cont []bool
			}
			o := rapid.Custom(func(rt *rapid.T) out { s, c := nosyncProgram(rt, nHist); return out{s, c} }).Example(seed + 3)
			checkHistories("nosync", map[string]string{"main.go": o.src, "sync_js.go": nosyncJS, "sync_native.go": nosyncNative}, o.cont, nHist)
		},
	}
	drv.Parallel(len(jobs), func(i int) { jobs[i]() })
}
