package c13

import (
	"fmt"
	"math"
	"strings"

	"pgregory.net/rapid"
)

func f64GridBits() []uint64 {
	vals := []float64{0, math.Copysign(0, -1), 1, -1, 2, -2, 0.5, -0.5, 1.5, -1.5, 2.5, -2.5, 3.5, 0.49999999999999994, -0.49999999999999994, 0.1, -0.1, 3, 10, 1e-5, 1e10, -1e10, 1e100, 1e-100, 1e300, -1e300,
		math.SmallestNonzeroFloat64, -math.SmallestNonzeroFloat64, 2.2250738585072014e-308, 2.225073858507201e-308, math.MaxFloat64, -math.MaxFloat64, math.Inf(1), math.Inf(-1), math.NaN(),
		2147483647, 2147483647.5, 2147483648, 2147483648.5, -2147483648, -2147483648.5, -2147483649, 4294967295, 4294967295.5, 4294967296, 4294967296.5, 4294967297, -4294967296.5, 1e10 + 0.5, -3.7e12, 123456789012.75,
		4503599627370495.5, 4503599627370496, 4503599627370496.5, 4503599627370497.5, -4503599627370495.5, 9007199254740991, 9007199254740992, 9007199254740993, -9007199254740991,
		9223372036854775807, -9223372036854775808, 18446744073709551615, 1e19, 16777216, 16777217, math.MaxFloat32, math.SmallestNonzeroFloat32, math.Pi, -math.E, 1e23, 7.5, -7.5, 6.5, 5e-324 * 3, 1023, 1024, -1074}
	seen := map[uint64]bool{}
	var out []uint64
	for _, v := range vals {
		b := math.Float64bits(v)
		if v != v {
			b = 0x7ff8000000000001
		}
		if !seen[b] {
			seen[b] = true
			out = append(out, b)
		}
	}
	return out
}

func genF64() *rapid.Generator[uint64] {
	return rapid.Custom(func(rt *rapid.T) uint64 {
		var f float64
		switch rapid.IntRange(0, 3).Draw(rt, "s") {
		case 0:
			f = math.Float64frombits(rapid.Uint64().Draw(rt, "bits"))
		case 1:
			f = float64(rapid.Int64Range(-1<<53, 1<<53).Draw(rt, "i")) / float64(int64(1)<<uint(rapid.IntRange(0, 12).Draw(rt, "sh")))
		case 2:
			f = rapid.Float64().Draw(rt, "f")
		default:
			m := rapid.Uint64Range(0, 1<<52-1).Draw(rt, "m")
			e := rapid.SampledFrom([]uint64{0, 1, 1022, 1023, 1024, 1023 + 30, 1023 + 31, 1023 + 32, 1023 + 51, 1023 + 52, 1023 + 53, 1023 + 62, 1023 + 63, 1023 + 64, 2046}).Draw(rt, "e")
			s := rapid.Uint64Range(0, 1).Draw(rt, "sg")
			f = math.Float64frombits(s<<63 | e<<52 | m)
		}
		if f != f {
			return 0x7ff8000000000001
		}
		return math.Float64bits(f)
	})
}

func bitsLits(b []uint64) string {
	var sb strings.Builder
	for i, x := range b {
		if i%6 == 0 {
			sb.WriteString("\n\t")
		}
		fmt.Fprintf(&sb, "fb(0x%016x), ", x)
	}
	return sb.String()
}

const mathPrologue = `package main

import (
	"math"
	"math/bits"
)

var _ = bits.Len
var _ = math.Abs

type d32 uint32

func (d *d32) u(x uint32)  { *d = d32((uint32(*d) ^ x) * 16777619) }
func (d *d32) u64(x uint64) { d.u(uint32(x)); d.u(uint32(x >> 32)) }
func (d *d32) f(x float64) {
	if x != x {
		d.u(0x7ff80001)
		return
	}
	d.u64(math.Float64bits(x))
}
func (d *d32) b(x bool) {
	if x {
		d.u(1)
	} else {
		d.u(2)
	}
}
func (d *d32) s(s string) {
	for i := 0; i < len(s); i++ {
		d.u(uint32(s[i]))
	}
	d.u(0xff)
}

func fb(b uint64) float64 { return math.Float64frombits(b) }

type grp struct {
	name string
	run  func(d *d32, v bool) int
}

var groups []grp

func reg(name string, run func(d *d32, v bool) int) { groups = append(groups, grp{name, run}) }

func guard(f func()) (cls string) {
	defer func() {
		if r := recover(); r != nil {
			cls = classify(r)
		}
	}()
	f()
	return "ok"
}

func main() {
	mode, want := argv(0), argv(1)
	for _, g := range groups {
		if mode == "verbose" && g.name != want {
			continue
		}
		d := d32(2166136261)
		n := g.run(&d, mode == "verbose")
		out("G " + g.name + " " + itoa(n) + " " + u64hex(uint64(d)))
	}
}
`

type mp struct {
	sb strings.Builder
	n  int
}

func (p *mp) group(name, body string) {
	p.n++
	fmt.Fprintf(&p.sb, "func g%d(d *d32, v bool) (rows int) {\n\tconst gname = %q\n%s\treturn\n}\n\nfunc init() { reg(%q, g%d) }\n\n", p.n, name, body, name, p.n)
}

func rowOut(args, res string) string {
	return "\t\tif v || rows%97 == 0 {\n\t\t\tout(\"R \" + gname + \" \" + " + args + " + \" = \" + " + res + ")\n\t\t}\n\t\trows++\n"
}

// exactMathProgram: functions whose results must be bit-identical to upstream Go.
func exactMathProgram(seed, nRandom int) map[string]string {
	p := &mp{}
	grid := f64GridBits()
	rnd := rapid.SliceOfN(genF64(), 2*nRandom, 2*nRandom).Example(seed)
	p.sb.WriteString("var GA = []float64{" + bitsLits(grid) + "\n}\n\nvar RA = []float64{" + bitsLits(rnd[:nRandom]) + "\n}\n\nvar RB = []float64{" + bitsLits(rnd[nRandom:]) + "\n}\n\n")
	p.sb.WriteString("var EXPS = []int{0, 1, -1, 2, 10, -10, 52, 53, -52, -53, 1022, 1023, 1024, 1025, -1021, -1022, -1023, -1024, -1025, -1073, -1074, -1075, -1076, 2000, -2000, 2047, 2098, -2098, 100000, -100000, 1 << 30, -(1 << 30)} // |exp| stays far from the 32-bit int limits (documented int width difference)\n\n")
	one := func(name, call, feed, render string) {
		body := "\tf := func(a float64) {\n\t\t" + call + "\n\t\t" + feed + "\n" + rowOut("f64s(a)", render) + "\t}\n\tfor _, a := range GA {\n\t\tf(a)\n\t}\n\tfor _, a := range RA {\n\t\tf(a)\n\t}\n\tfor _, a := range RB {\n\t\tf(a)\n\t}\n"
		p.group(name, body)
	}
	for _, fn := range []string{"Ceil", "Floor", "Trunc", "Abs", "Sqrt", "Round", "RoundToEven", "Logb"} {
		one("math."+fn, "r := math."+fn+"(a)", "d.f(r)", "f64s(r)")
	}
	one("math.Signbit", "r := math.Signbit(a)", "d.b(r)", "btoa(r)")
	one("math.IsNaN", "r := math.IsNaN(a)", "d.b(r)", "btoa(r)")
	one("math.IsInf", "r0, r1, r2 := math.IsInf(a, 0), math.IsInf(a, 1), math.IsInf(a, -1)", "d.b(r0); d.b(r1); d.b(r2)", "btoa(r0) + btoa(r1) + btoa(r2)")
	one("math.Modf", "ip, fp := math.Modf(a)", "d.f(ip); d.f(fp)", "f64s(ip) + \" \" + f64s(fp)")
	one("math.Frexp", "fr, ex := math.Frexp(a)", "d.f(fr); d.u(uint32(ex))", "f64s(fr) + \" \" + itoa(ex)")
	one("math.Float64bits", "r := math.Float64bits(a); back := math.Float64frombits(r)", "if a == a { d.u64(r) }; d.f(back)", "f64s(back)")
	one("math.Float32bits", "f32 := float32(a); r := math.Float32bits(f32); back := math.Float32frombits(r)", "if a == a { d.u(r) }; d.f(float64(back))", "f32s(back)")
	one("math.Ilogb", "r := 0; if a == a && a != 0 && !math.IsInf(a, 0) { r = math.Ilogb(a) }", "d.u(uint32(r))", "itoa(r)")
	one("math.Nextafter", "r1, r2 := math.Nextafter(a, math.Inf(1)), math.Nextafter(a, math.Inf(-1))", "d.f(r1); d.f(r2)", "f64s(r1) + \" \" + f64s(r2)")
	one("math.Inf/NaN", "r1, r2, r3 := math.Inf(1), math.Inf(-1), math.NaN(); _ = a", "d.f(r1); d.f(r2); d.f(r3)", "f64s(r1) + f64s(r2) + f64s(r3)")
	// Ldexp over the exponent table
	p.group("math.Ldexp", "\tf := func(a float64, e int) {\n\t\tr := math.Ldexp(a, e)\n\t\td.f(r)\n"+rowOut("f64s(a) + \" \" + itoa(e)", "f64s(r)")+"\t}\n\tfor _, a := range GA {\n\t\tfor _, e := range EXPS {\n\t\t\tf(a, e)\n\t\t}\n\t}\n\tfor i, a := range RA {\n\t\tf(a, EXPS[i%len(EXPS)])\n\t\tf(a, int(int32(math.Float64bits(RB[i]))>>20))\n\t}\n")
	two := func(name, call string) {
		body := "\tf := func(a, b float64) {\n\t\t" + call + "\n\t\td.f(r)\n" + rowOut("f64s(a) + \" \" + f64s(b)", "f64s(r)") + "\t}\n\tfor _, a := range GA {\n\t\tfor _, b := range GA {\n\t\t\tf(a, b)\n\t\t}\n\t}\n\tfor i := range RA {\n\t\tf(RA[i], RB[i])\n\t\tf(RA[i], GA[i%len(GA)])\n\t\tf(GA[i%len(GA)], RB[i])\n\t}\n"
		p.group(name, body)
	}
	for _, fn := range []string{"Copysign", "Max", "Min", "Dim", "Mod", "Remainder", "Hypot", "Nextafter"} {
		two("math."+fn, "r := math."+fn+"(a, b)")
	}
	two("math.FMA", "r := math.FMA(a, b, a)")
	return map[string]string{"main.go": mathPrologue + "\n" + p.sb.String()}
}

// specialMathProgram prints every row of the JavaScript-delegating functions on the special-value grid.
func specialMathProgram() map[string]string {
	var sb strings.Builder
	sb.WriteString("package main\n\nimport \"math\"\n\nvar S = []float64{0, math.Copysign(0, -1), 1, -1, 2, -2, 0.5, -0.5, 3, -3, 4, -4, 1.5, math.Inf(1), math.Inf(-1), math.NaN(), math.MaxFloat64, -math.MaxFloat64, math.SmallestNonzeroFloat64, -math.SmallestNonzeroFloat64, 1e308, 1e-308, 1000, -1000, 1e16, -1e16, 9007199254740993, 1e300}\n\nfunc main() {\n")
	for _, fn := range []string{"Acos", "Acosh", "Asin", "Asinh", "Atan", "Atanh", "Cbrt", "Cos", "Cosh", "Erf", "Erfc", "Erfinv", "Exp", "Exp2", "Expm1", "Gamma", "J0", "J1", "Y0", "Y1", "Log", "Log10", "Log1p", "Log2", "Sin", "Sinh", "Tan", "Tanh"} {
		fmt.Fprintf(&sb, "\tfor _, a := range S {\n\t\tout(\"T %s \" + f64s(a) + \" = \" + f64s(math.%s(a)))\n\t}\n", fn, fn)
	}
	sb.WriteString("\tfor _, a := range S {\n\t\ts, c := math.Sincos(a)\n\t\tout(\"T SincosS \" + f64s(a) + \" = \" + f64s(s))\n\t\tout(\"T SincosC \" + f64s(a) + \" = \" + f64s(c))\n\t\tlg, sg := math.Lgamma(a)\n\t\tout(\"T Lgamma \" + f64s(a) + \" = \" + f64s(lg) + \" \" + itoa(sg))\n\t}\n")
	for _, fn := range []string{"Atan2", "Pow"} {
		fmt.Fprintf(&sb, "\tfor _, a := range S {\n\t\tfor _, b := range S {\n\t\t\tout(\"T %s \" + f64s(a) + \" \" + f64s(b) + \" = \" + f64s(math.%s(a, b)))\n\t\t}\n\t}\n", fn, fn)
	}
	sb.WriteString("\tfor _, a := range S {\n\t\tfor _, n := range []int{0, 1, 2, -1, 5} {\n\t\t\tout(\"T Jn\" + itoa(n) + \" \" + f64s(a) + \" = \" + f64s(math.Jn(n, a)))\n\t\t\tout(\"T Pow10_\" + itoa(n) + \" \" + f64s(a) + \" = \" + f64s(math.Pow10(n*60)))\n\t\t}\n\t}\n")
	sb.WriteString("}\n")
	return map[string]string{"main.go": sb.String()}
}

// bitsProgram covers every function of math/bits.
func bitsProgram(seed, nRandom int) map[string]string {
	p := &mp{}
	u64grid := []uint64{0, 1, 2, 3, 7, 8, 0xff, 0x100, 0xffff, 0x10000, 0x7fffffff, 0x80000000, 0xffffffff, 0x100000000, 0x100000001, 0xffffffff00000000, 0x7fffffffffffffff, 0x8000000000000000, 0xffffffffffffffff, 0x5555555555555555, 0xaaaaaaaaaaaaaaaa, 0x0123456789abcdef, 0xfedcba9876543210, 0x00000001ffffffff, 0xfffffffe00000001}
	rnd := rapid.SliceOfN(rapid.Uint64(), 3*nRandom, 3*nRandom).Example(seed)
	lits := func(v []uint64) string {
		var sb strings.Builder
		for i, x := range v {
			if i%6 == 0 {
				sb.WriteString("\n\t")
			}
			fmt.Fprintf(&sb, "0x%x, ", x)
		}
		return sb.String()
	}
	p.sb.WriteString("var GU = []uint64{" + lits(u64grid) + "\n}\n\nvar RU = []uint64{" + lits(rnd[:nRandom]) + "\n}\n\nvar RV = []uint64{" + lits(rnd[nRandom:2*nRandom]) + "\n}\n\nvar RW = []uint64{" + lits(rnd[2*nRandom:]) + "\n}\n\n")
	one := func(name, call, feed, render string) {
		body := "\tf := func(a uint64) {\n\t\t" + call + "\n\t\t" + feed + "\n" + rowOut("u64hex(a)", render) + "\t}\n\tfor _, a := range GU {\n\t\tf(a)\n\t}\n\tfor _, a := range RU {\n\t\tf(a)\n\t}\n"
		p.group(name, body)
	}
	for _, w := range []string{"8", "16", "32", "64"} { // the uint variants differ by the documented 32-bit width of uint
		T := "uint" + w
		for _, fn := range []string{"LeadingZeros", "TrailingZeros", "OnesCount", "Len"} {
			one("bits."+fn+w, "r := bits."+fn+w+"("+T+"(a))", "d.u(uint32(r))", "itoa(r)")
		}
		one("bits.Reverse"+w, "r := bits.Reverse"+w+"("+T+"(a))", "d.u64(uint64(r))", "u64hex(uint64(r))")
		if w != "8" {
			one("bits.ReverseBytes"+w, "r := bits.ReverseBytes"+w+"("+T+"(a))", "d.u64(uint64(r))", "u64hex(uint64(r))")
		}
		// rotate
		body := "\tf := func(a uint64, k int) {\n\t\tr := bits.RotateLeft" + w + "(" + T + "(a), k)\n\t\td.u64(uint64(r))\n" + rowOut("u64hex(a) + \" \" + itoa(k)", "u64hex(uint64(r))") + "\t}\n\tfor _, a := range GU {\n\t\tfor _, k := range []int{0, 1, -1, 7, 8, 31, 32, 33, 63, 64, 65, -63, -64, -65, 1000, -1000} {\n\t\t\tf(a, k)\n\t\t}\n\t}\n\tfor i, a := range RU {\n\t\tf(a, int(int8(RV[i])))\n\t}\n"
		p.group("bits.RotateLeft"+w, body)
	}
	three := func(name, T, call, feed, render string, guarded bool) {
		c := call
		if guarded {
			c = "cls := guard(func() { " + call + " })\n\t\td.s(cls)"
			render += " + \" \" + cls"
		}
		body := "\tf := func(x, y, z uint64) {\n\t\tvar r1, r2 " + T + "\n\t\ta, b, c := " + T + "(x), " + T + "(y), " + T + "(z)\n\t\t_, _, _ = a, b, c\n\t\t" + c + "\n\t\t" + feed + "\n" + rowOut("u64hex(x) + \" \" + u64hex(y) + \" \" + u64hex(z)", render) + "\t}\n\tfor _, x := range GU {\n\t\tfor _, y := range GU {\n\t\t\tfor _, z := range []uint64{0, 1, 2, 0xffffffff, 0xffffffffffffffff, 0x80000000, 3} {\n\t\t\t\tf(x, y, z)\n\t\t\t}\n\t\t}\n\t}\n\tfor i := range RU {\n\t\tf(RU[i], RV[i], RW[i])\n\t\tf(RU[i]>>uint(RW[i]&63), RV[i], RW[i]>>uint(RU[i]&63))\n\t\tf(RU[i]&(RW[i]-1), RV[i], RW[i])\n\t}\n"
		p.group(name, body)
	}
	for _, w := range []string{"32", "64"} {
		T := "uint" + w
		three("bits.Add"+w, T, "r1, r2 = bits.Add"+w+"(a, b, c&1)", "d.u64(uint64(r1)); d.u64(uint64(r2))", "u64hex(uint64(r1)) + \" \" + u64hex(uint64(r2))", false)
		three("bits.Sub"+w, T, "r1, r2 = bits.Sub"+w+"(a, b, c&1)", "d.u64(uint64(r1)); d.u64(uint64(r2))", "u64hex(uint64(r1)) + \" \" + u64hex(uint64(r2))", false)
		three("bits.Mul"+w, T, "r1, r2 = bits.Mul"+w+"(a, b)", "d.u64(uint64(r1)); d.u64(uint64(r2))", "u64hex(uint64(r1)) + \" \" + u64hex(uint64(r2))", false)
		three("bits.Div"+w, T, "r1, r2 = bits.Div"+w+"(a, b, c)", "d.u64(uint64(r1)); d.u64(uint64(r2))", "u64hex(uint64(r1)) + \" \" + u64hex(uint64(r2))", true)
		three("bits.Rem"+w, T, "r1 = bits.Rem"+w+"(a, b, c)", "d.u64(uint64(r1)); d.u64(uint64(r2))", "u64hex(uint64(r1))", true)
	}
	return map[string]string{"main.go": mathPrologue + "\n" + p.sb.String()}
}
