package c13

import (
	"fmt"
	"strings"

	"pgregory.net/rapid"
)

// unicodeProgram digests case mapping, folding and the Is* predicates for every rune, per block of 4096.
const unicodeProgram = `package main

import "unicode"

type d32 uint32

func (d *d32) u(x uint32) { *d = d32((uint32(*d) ^ x) * 16777619) }

type fn struct {
	name string
	f    func(r rune) uint32
}

func b2u(b bool) uint32 {
	if b {
		return 1
	}
	return 0
}

var fns = []fn{
	{"ToUpper", func(r rune) uint32 { return uint32(unicode.ToUpper(r)) }},
	{"ToLower", func(r rune) uint32 { return uint32(unicode.ToLower(r)) }},
	{"ToTitle", func(r rune) uint32 { return uint32(unicode.ToTitle(r)) }},
	{"To3", func(r rune) uint32 {
		return uint32(unicode.To(unicode.UpperCase, r)) ^ uint32(unicode.To(unicode.LowerCase, r))<<1 ^ uint32(unicode.To(unicode.TitleCase, r))<<2 ^ uint32(unicode.To(7, r))<<3
	}},
	{"SimpleFold", func(r rune) uint32 { return uint32(unicode.SimpleFold(r)) }},
	{"TurkishUpper", func(r rune) uint32 { return uint32(unicode.TurkishCase.ToUpper(r)) }},
	{"TurkishLower", func(r rune) uint32 { return uint32(unicode.TurkishCase.ToLower(r)) }},
	{"TurkishTitle", func(r rune) uint32 { return uint32(unicode.TurkishCase.ToTitle(r)) }},
	{"IsLetter", func(r rune) uint32 { return b2u(unicode.IsLetter(r)) }},
	{"IsUpper", func(r rune) uint32 { return b2u(unicode.IsUpper(r)) }},
	{"IsLower", func(r rune) uint32 { return b2u(unicode.IsLower(r)) }},
	{"IsTitle", func(r rune) uint32 { return b2u(unicode.IsTitle(r)) }},
	{"IsDigit", func(r rune) uint32 { return b2u(unicode.IsDigit(r)) }},
	{"IsNumber", func(r rune) uint32 { return b2u(unicode.IsNumber(r)) }},
	{"IsSpace", func(r rune) uint32 { return b2u(unicode.IsSpace(r)) }},
	{"IsPunct", func(r rune) uint32 { return b2u(unicode.IsPunct(r)) }},
	{"IsControl", func(r rune) uint32 { return b2u(unicode.IsControl(r)) }},
	{"IsGraphic", func(r rune) uint32 { return b2u(unicode.IsGraphic(r)) }},
	{"IsPrint", func(r rune) uint32 { return b2u(unicode.IsPrint(r)) }},
	{"IsSymbol", func(r rune) uint32 { return b2u(unicode.IsSymbol(r)) }},
	{"IsMark", func(r rune) uint32 { return b2u(unicode.IsMark(r)) }},
	{"InHan", func(r rune) uint32 { return b2u(unicode.Is(unicode.Han, r)) ^ b2u(unicode.In(r, unicode.Latin, unicode.Greek))<<1 }},
}

var extras = []rune{-1, -2, -0x80000000, 0x110000, 0x110001, 0x7fffffff, 0x200000, -65}

func atoi(s string) int {
	n := 0
	for i := 0; i < len(s); i++ {
		n = n*10 + int(s[i]-'0')
	}
	return n
}

func main() {
	part, parts := atoi(argv(1)), atoi(argv(2))
	switch argv(0) {
	case "all":
		for i, f := range fns {
			if i%parts != part {
				continue
			}
			for blk := 0; blk < 0x110000/4096; blk++ {
				d := d32(2166136261)
				for r := rune(blk * 4096); r < rune(blk*4096+4096); r++ {
					d.u(f.f(r))
				}
				out("U " + f.name + " " + itoa(blk) + " " + u64hex(uint64(d)))
			}
			for _, r := range extras {
				out("X " + f.name + " " + itoa(int(r)) + " " + itoa(int(int32(f.f(r)))))
			}
		}
	case "block":
		blk := atoi(argv(2))
		for _, f := range fns {
			if f.name != argv(1) {
				continue
			}
			for r := rune(blk * 4096); r < rune(blk*4096+4096); r++ {
				out("R " + f.name + " " + itoa(int(r)) + " " + itoa(int(int32(f.f(r)))))
			}
		}
	}
}
`

// ---------- sync/atomic ----------

func atomicProgram(rt *rapid.T, nHist int) string {
	var sb strings.Builder
	sb.WriteString("package main\n\nimport \"sync/atomic\"\n\ntype box struct{ n int }\n\nvar b0, b1 = &box{1}, &box{2}\n\n// name and render are top-level functions on purpose: a call through a function value is treated as\n// possibly blocking and is then evaluated before non-blocking calls to its left (known finding C01-evalorder).\nfunc name(x *box) string {\n\tswitch x {\n\tcase nil:\n\t\treturn \"nil\"\n\tcase b0:\n\t\treturn \"b0\"\n\tcase b1:\n\t\treturn \"b1\"\n\t}\n\treturn \"?\"\n}\n\nfunc render(x interface{}) string {\n\tswitch y := x.(type) {\n\tcase nil:\n\t\treturn \"nil\"\n\tcase int:\n\t\treturn \"int:\" + itoa(y)\n\tcase string:\n\t\treturn \"string:\" + y\n\tcase []int:\n\t\treturn \"slice:\" + itoa(len(y))\n\t}\n\treturn \"?\"\n}\n\nfunc try(f func()) (r string) {\n\tdefer func() {\n\t\tif x := recover(); x != nil {\n\t\t\tr = \"panic\"\n\t\t}\n\t}()\n\tf()\n\treturn \"ok\"\n}\n\n")
	intVals := map[string][]string{
		"int32":   {"0", "1", "-1", "2147483647", "-2147483648", "65536", "7"},
		"uint32":  {"0", "1", "4294967295", "2147483648", "65536", "7"},
		"int64":   {"0", "1", "-1", "9223372036854775807", "-9223372036854775808", "4294967296", "4294967295", "-4294967296", "7"},
		"uint64":  {"0", "1", "18446744073709551615", "9223372036854775808", "4294967296", "4294967295", "7"},
		"uintptr": {"0", "1", "100000", "65536", "7"}, // kept small: uintptr is 32 bits wide only under GopherJS
	}
	fnSuffix := map[string]string{"int32": "Int32", "uint32": "Uint32", "int64": "Int64", "uint64": "Uint64", "uintptr": "Uintptr"}
	render := map[string]string{"int32": "i64toa(int64(%s))", "uint32": "u64toa(uint64(%s))", "int64": "i64toa(%s)", "uint64": "u64toa(%s)", "uintptr": "u64toa(uint64(%s))"}
	types := []string{"int32", "uint32", "int64", "uint64", "uintptr"}
	for h := 0; h < nHist; h++ {
		fmt.Fprintf(&sb, "func h%d() {\n", h)
		kind := rapid.IntRange(0, 4).Draw(rt, "kind")
		line := func(s int, what, val string) {
			fmt.Fprintf(&sb, "\tout(\"h%d s%d %s \" + %s)\n", h, s, what, val)
		}
		n := rapid.IntRange(3, 12).Draw(rt, "nsteps")
		switch kind {
		case 0, 1: // plain functions on a variable
			T := rapid.SampledFrom(types).Draw(rt, "T")
			S := fnSuffix[T]
			rv := func(e string) string { return fmt.Sprintf(render[T], e) }
			fmt.Fprintf(&sb, "\tvar x %s\n\tvar s struct {\n\t\tpad int8\n\t\tv   %s\n\t}\n\t_ = s\n\t_ = x\n", T, T)
			target := rapid.SampledFrom([]string{"&x", "&s.v"}).Draw(rt, "target")
			for s := 1; s <= n; s++ {
				v := rapid.SampledFrom(intVals[T]).Draw(rt, "v")
				v2 := rapid.SampledFrom(intVals[T]).Draw(rt, "v2")
				switch rapid.IntRange(0, 4).Draw(rt, "op") {
				case 0:
					line(s, "add", rv(fmt.Sprintf("atomic.Add%s(%s, %s(%s))", S, target, T, v)))
				case 1:
					fmt.Fprintf(&sb, "\tatomic.Store%s(%s, %s)\n", S, target, v)
					line(s, "store-load", rv(fmt.Sprintf("atomic.Load%s(%s)", S, target)))
				case 2:
					line(s, "swap", rv(fmt.Sprintf("atomic.Swap%s(%s, %s)", S, target, v)))
				case 3:
					line(s, "cas", fmt.Sprintf("btoa(atomic.CompareAndSwap%s(%s, %s, %s)) + \" \" + %s", S, target, v, v2, rv(fmt.Sprintf("atomic.Load%s(%s)", S, target))))
				default:
					line(s, "cas-cur", fmt.Sprintf("btoa(atomic.CompareAndSwap%s(%s, atomic.Load%s(%s), %s)) + \" \" + %s", S, target, S, target, v2, rv(fmt.Sprintf("atomic.Load%s(%s)", S, target))))
				}
			}
		case 2: // typed values
			T := rapid.SampledFrom(types).Draw(rt, "T")
			S := fnSuffix[T]
			rv := func(e string) string { return fmt.Sprintf(render[T], e) }
			fmt.Fprintf(&sb, "\tvar x atomic.%s\n", S)
			for s := 1; s <= n; s++ {
				v := rapid.SampledFrom(intVals[T]).Draw(rt, "v")
				v2 := rapid.SampledFrom(intVals[T]).Draw(rt, "v2")
				switch rapid.IntRange(0, 3).Draw(rt, "op") {
				case 0:
					line(s, "Add", rv(fmt.Sprintf("x.Add(%s)", v)))
				case 1:
					fmt.Fprintf(&sb, "\tx.Store(%s)\n", v)
					line(s, "Store-Load", rv("x.Load()"))
				case 2:
					line(s, "Swap", rv(fmt.Sprintf("x.Swap(%s)", v)))
				default:
					line(s, "CAS", fmt.Sprintf("btoa(x.CompareAndSwap(%s, %s)) + \" \" + %s", v, v2, rv("x.Load()")))
				}
			}
		case 3: // Bool and Pointer
			sb.WriteString("\tvar b atomic.Bool\n\tvar p atomic.Pointer[box]\n\t_, _ = b.Load(), p.Load()\n")
			ptrs := []string{"nil", "b0", "b1"}
			for s := 1; s <= n; s++ {
				bv := rapid.SampledFrom([]string{"true", "false"}).Draw(rt, "bv")
				bv2 := rapid.SampledFrom([]string{"true", "false"}).Draw(rt, "bv2")
				pv := rapid.SampledFrom(ptrs).Draw(rt, "pv")
				pv2 := rapid.SampledFrom(ptrs).Draw(rt, "pv2")
				switch rapid.IntRange(0, 5).Draw(rt, "op") {
				case 0:
					fmt.Fprintf(&sb, "\tb.Store(%s)\n", bv)
					line(s, "bstore", "btoa(b.Load())")
				case 1:
					line(s, "bswap", fmt.Sprintf("btoa(b.Swap(%s)) + btoa(b.Load())", bv))
				case 2:
					line(s, "bcas", fmt.Sprintf("btoa(b.CompareAndSwap(%s, %s)) + btoa(b.Load())", bv, bv2))
				case 3:
					fmt.Fprintf(&sb, "\tp.Store(%s)\n", pv)
					line(s, "pstore", "name(p.Load())")
				case 4:
					line(s, "pswap", fmt.Sprintf("name(p.Swap(%s)) + name(p.Load())", pv))
				default:
					line(s, "pcas", fmt.Sprintf("btoa(p.CompareAndSwap(%s, %s)) + name(p.Load())", pv, pv2))
				}
			}
		default: // atomic.Value
			sb.WriteString("\tvar v atomic.Value\n")
			vals := []string{"1", "2", "\"a\"", "\"b\"", "nil", "[]int{1}", "[]int(nil)"}
			for s := 1; s <= n; s++ {
				a := rapid.SampledFrom(vals).Draw(rt, "a")
				b := rapid.SampledFrom(vals).Draw(rt, "b")
				switch rapid.IntRange(0, 3).Draw(rt, "op") {
				case 0:
					line(s, "Store", fmt.Sprintf("try(func() { v.Store(%s) }) + \" \" + render(v.Load())", a))
				case 1:
					line(s, "Load", "render(v.Load())")
				case 2:
					fmt.Fprintf(&sb, "\t{\n\t\tvar old interface{}\n\t\tr := try(func() { old = v.Swap(%s) })\n\t\tout(\"h%d s%d Swap \" + r + \" \" + render(old) + \" \" + render(v.Load()))\n\t}\n", a, h, s)
				default:
					fmt.Fprintf(&sb, "\t{\n\t\tswapped := false\n\t\tr := try(func() { swapped = v.CompareAndSwap(%s, %s) })\n\t\tout(\"h%d s%d CAS \" + r + \" \" + btoa(swapped) + \" \" + render(v.Load()))\n\t}\n", a, b, h, s)
				}
			}
		}
		sb.WriteString("}\n\n")
	}
	sb.WriteString("func main() {\n")
	for h := 0; h < nHist; h++ {
		fmt.Fprintf(&sb, "\tif r := try(h%d); r != \"ok\" {\n\t\tout(\"h%d PANIC\")\n\t}\n", h, h)
	}
	sb.WriteString("}\n")
	return sb.String()
}

// ---------- nosync ----------

const nosyncJS = "//go:build js\n\npackage main\n\nimport sync \"github.com/gopherjs/gopherjs/nosync\"\n\nconst isJS = true\n\ntype (\n\tMutex = sync.Mutex\n\tRWMutex = sync.RWMutex\n\tWaitGroup = sync.WaitGroup\n\tOnce = sync.Once\n\tMap = sync.Map\n\tPool = sync.Pool\n)\n"
const nosyncNative = "//go:build !js\n\npackage main\n\nimport \"sync\"\n\nconst isJS = false\n\ntype (\n\tMutex = sync.Mutex\n\tRWMutex = sync.RWMutex\n\tWaitGroup = sync.WaitGroup\n\tOnce = sync.Once\n\tMap = sync.Map\n\tPool = sync.Pool\n)\n"

// nosyncProgram generates sequential histories. Operations that would block (or crash fatally)
// with the real sync package are "contended": they run only under GopherJS, where the model
// predicts a panic; the native side prints the predicted outcome.
func nosyncProgram(rt *rapid.T, nHist int) (src string, contended []bool) {
	var sb strings.Builder
	sb.WriteString("package main\n\nfunc try(f func()) (r string) {\n\tdefer func() {\n\t\tif x := recover(); x != nil {\n\t\t\tr = \"panic\"\n\t\t}\n\t}()\n\tf()\n\treturn \"ok\"\n}\n\n// contendedOp runs f only on the nosync side; the real sync package would block forever or die.\nfunc contendedOp(f func()) string {\n\tif isJS {\n\t\treturn try(f)\n\t}\n\treturn \"panic\"\n}\n\n")
	for h := 0; h < nHist; h++ {
		fmt.Fprintf(&sb, "func h%d() {\n", h)
		n := rapid.IntRange(3, 14).Draw(rt, "nsteps")
		cont := false
		line := func(s int, what, val string) {
			fmt.Fprintf(&sb, "\tout(\"h%d s%d %s \" + %s)\n", h, s, what, val)
		}
		switch rapid.IntRange(0, 5).Draw(rt, "prim") {
		case 0: // Mutex
			sb.WriteString("\tvar mu Mutex\n")
			locked := false
			for s := 1; s <= n; s++ {
				switch rapid.IntRange(0, 1).Draw(rt, "op") {
				case 0:
					if locked {
						cont = true
						line(s, "Lock(contended)", "contendedOp(func() { mu.Lock() })")
					} else {
						line(s, "Lock", "try(func() { mu.Lock() })")
						locked = true
					}
				default:
					if !locked {
						cont = true
						line(s, "Unlock(unlocked)", "contendedOp(func() { mu.Unlock() })")
					} else {
						line(s, "Unlock", "try(func() { mu.Unlock() })")
						locked = false
					}
				}
			}
		case 1: // RWMutex
			sb.WriteString("\tvar mu RWMutex\n")
			w, r := false, 0
			for s := 1; s <= n; s++ {
				switch rapid.IntRange(0, 3).Draw(rt, "op") {
				case 0:
					if w || r > 0 {
						cont = true
						line(s, "Lock(contended)", "contendedOp(func() { mu.Lock() })")
					} else {
						line(s, "Lock", "try(func() { mu.Lock() })")
						w = true
					}
				case 1:
					if !w {
						cont = true
						line(s, "Unlock(unlocked)", "contendedOp(func() { mu.Unlock() })")
					} else {
						line(s, "Unlock", "try(func() { mu.Unlock() })")
						w = false
					}
				case 2:
					if w {
						cont = true
						line(s, "RLock(contended)", "contendedOp(func() { mu.RLock() })")
					} else {
						line(s, "RLock", "try(func() { mu.RLock() })")
						r++
					}
				default:
					if r == 0 {
						cont = true
						line(s, "RUnlock(unlocked)", "contendedOp(func() { mu.RUnlock() })")
					} else {
						line(s, "RUnlock", "try(func() { mu.RUnlock() })")
						r--
					}
				}
			}
		case 2: // WaitGroup
			sb.WriteString("\tvar wg WaitGroup\n")
			c := 0
			dead := false
			for s := 1; s <= n && !dead; s++ {
				switch rapid.IntRange(0, 2).Draw(rt, "op") {
				case 0:
					d := rapid.IntRange(-2, 3).Draw(rt, "delta")
					line(s, fmt.Sprintf("Add(%d)", d), fmt.Sprintf("try(func() { wg.Add(%d) })", d))
					c += d
					if c < 0 {
						dead = true // both panic; the state afterwards is unspecified
					}
				case 1:
					line(s, "Done", "try(func() { wg.Done() })")
					c--
					if c < 0 {
						dead = true
					}
				default:
					if c != 0 {
						cont = true
						line(s, "Wait(contended)", "contendedOp(func() { wg.Wait() })")
					} else {
						line(s, "Wait", "try(func() { wg.Wait() })")
					}
				}
			}
		case 3: // Once
			sb.WriteString("\tvar once Once\n\tcount := 0\n")
			for s := 1; s <= n; s++ {
				switch rapid.IntRange(0, 3).Draw(rt, "op") {
				case 0, 1:
					line(s, "Do", "try(func() { once.Do(func() { count++ }) }) + \" \" + itoa(count)")
				case 2:
					line(s, "Do(panics)", "try(func() { once.Do(func() { count += 10; panic(\"x\") }) }) + \" \" + itoa(count)")
				default:
					// re-entrant Do deadlocks with sync.Once once the outer call really runs f
					cont = true
					line(s, "Do(reentrant)", "contendedOp(func() { ran := false; once.Do(func() { ran = true; once.Do(func() { count += 100 }) }); if !ran { panic(\"already done: no re-entrancy\") } }) + \" \" + itoa(count%100)")
					// after this step the two worlds may disagree on whether once is done: stop the history
					s = n
				}
			}
		case 4: // Map
			sb.WriteString("\tvar m Map\n\trender := func(x interface{}) string {\n\t\tswitch y := x.(type) {\n\t\tcase nil:\n\t\t\treturn \"nil\"\n\t\tcase int:\n\t\t\treturn itoa(y)\n\t\tcase string:\n\t\t\treturn y\n\t\t}\n\t\treturn \"?\"\n\t}\n\t_ = render\n")
			keys := []string{"1", "2", "\"1\"", "\"k\"", "int8(1)", "[2]int{1, 2}", "nil"}
			for s := 1; s <= n; s++ {
				k := rapid.SampledFrom(keys).Draw(rt, "k")
				v := rapid.SampledFrom([]string{"10", "20", "\"v\"", "nil"}).Draw(rt, "v")
				switch rapid.IntRange(0, 5).Draw(rt, "op") {
				case 0, 1:
					fmt.Fprintf(&sb, "\tm.Store(%s, %s)\n", k, v)
					line(s, "Store", "\"\"")
				case 2:
					fmt.Fprintf(&sb, "\t{\n\t\tv, ok := m.Load(%s)\n\t\tout(\"h%d s%d Load \" + render(v) + \" \" + btoa(ok))\n\t}\n", k, h, s)
				case 3:
					fmt.Fprintf(&sb, "\t{\n\t\tv, loaded := m.LoadOrStore(%s, %s)\n\t\tout(\"h%d s%d LoadOrStore \" + render(v) + \" \" + btoa(loaded))\n\t}\n", k, v, h, s)
				case 4:
					fmt.Fprintf(&sb, "\tm.Delete(%s)\n", k)
					line(s, "Delete", "\"\"")
				default:
					fmt.Fprintf(&sb, "\t{\n\t\tcnt, sum := 0, 0\n\t\tm.Range(func(k, v interface{}) bool {\n\t\t\tcnt++\n\t\t\tif n, ok := v.(int); ok {\n\t\t\t\tsum += n\n\t\t\t}\n\t\t\treturn true\n\t\t})\n\t\tstopped := 0\n\t\tm.Range(func(k, v interface{}) bool { stopped++; return false })\n\t\tout(\"h%d s%d Range \" + itoa(cnt) + \" \" + itoa(sum) + \" \" + itoa(stopped))\n\t}\n", h, s)
				}
			}
			sb.WriteString("\tout(\"" + fmt.Sprintf("h%d", h) + " unhashable \" + try(func() { m.Store([]int{1}, 1) }))\n")
		default: // Pool: validity predicate (sync.Pool may drop or reorder items)
			withNew := rapid.Bool().Draw(rt, "withNew")
			sb.WriteString("\tvar p Pool\n\tfresh := 0\n\t_ = fresh\n\toutstanding := map[int]bool{}\n\t_ = outstanding\n")
			if withNew {
				sb.WriteString("\tp.New = func() interface{} { fresh++; return 1000 + fresh }\n")
			}
			next := 1
			for s := 1; s <= n; s++ {
				if rapid.Bool().Draw(rt, "put") {
					fmt.Fprintf(&sb, "\tp.Put(%d)\n\toutstanding[%d] = true\n", next, next)
					next++
				} else if rapid.IntRange(0, 5).Draw(rt, "putnil") == 0 {
					sb.WriteString("\tp.Put(nil)\n")
				} else {
					fmt.Fprintf(&sb, "\t{\n\t\tx := p.Get()\n\t\tverdict := \"bad\"\n\t\tswitch v := x.(type) {\n\t\tcase nil:\n\t\t\tif %v {\n\t\t\t\tverdict = \"ok\"\n\t\t\t}\n\t\tcase int:\n\t\t\tif outstanding[v] {\n\t\t\t\tdelete(outstanding, v)\n\t\t\t\tverdict = \"ok\"\n\t\t\t} else if v == 1000+fresh && %v {\n\t\t\t\tverdict = \"ok\"\n\t\t\t}\n\t\t}\n\t\tout(\"h%d s%d Get \" + verdict)\n\t}\n", !withNew, withNew, h, s)
				}
			}
		}
		sb.WriteString("}\n\n")
		contended = append(contended, cont)
	}
	sb.WriteString("func main() {\n")
	for h := 0; h < nHist; h++ {
		fmt.Fprintf(&sb, "\tif r := try(h%d); r != \"ok\" {\n\t\tout(\"h%d PANIC\")\n\t}\n", h, h)
	}
	sb.WriteString("}\n")
	return sb.String(), contended
}
