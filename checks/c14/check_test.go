package c14

import (
	"fmt"
	"os"
	"strconv"
	"strings"
	"testing"
	"unicode/utf8"

	"pgregory.net/rapid"

	"verif/internal/drv"
)

var ev *drv.Evidence

func TestMain(m *testing.M) { drv.TestMain(m, func() *drv.Evidence { return ev }) }

const rule = "in-program enumeration of all byte strings of length <=4 over the boundary alphabet {00 41 7F 80 8F 90 9F A0 BF C0 C2 DF E0 ED EF F0 F4 F5 FF} (137,561 strings) plus rapid-drawn byte strings up to 64 bytes baked in as literals; per string: len, every index, every slice pair, range (index, rune), []rune and back, []byte and back, copy/append from string, concatenation and comparison with the previous string, map insertion, switch; string(rune) for every rune -1..0x110000 and integer extremes; generated literals (interpreted, raw, constant-folded) in plain and minified builds. Oracle: native run (digests, then per-string rows on mismatch). A string is non-trivial if it contains a byte >=0x80 or a control byte; strings are distinct by construction."

const progSrc = `package main

type d32 uint32

// defined rune and byte types: their slices convert to and from strings like []rune and []byte
type Code rune
type Codes []Code
type Octet byte
type Octets []Octet

func (d *d32) u(x uint32) { *d = d32((uint32(*d) ^ x) * 16777619) }
func (d *d32) s(s string) {
	for i := 0; i < len(s); i++ {
		d.u(uint32(s[i]))
	}
	d.u(0x100 + uint32(len(s)))
}

var alphabet = []byte{0x00, 0x41, 0x7F, 0x80, 0x8F, 0x90, 0x9F, 0xA0, 0xBF, 0xC0, 0xC2, 0xDF, 0xE0, 0xED, 0xEF, 0xF0, 0xF4, 0xF5, 0xFF}

var detail bool

func note(k string, v string) {
	if detail {
		out("  " + k + " " + v)
	}
}

func runes(rs []rune) string {
	s := ""
	for _, r := range rs {
		s += itoa(int(r)) + ","
	}
	return s
}

// probe runs every string operation on s and feeds the results into d.
func probe(d *d32, prev, s string, m map[string]int) {
	d.u(uint32(len(s)))
	note("len", itoa(len(s)))
	for i := 0; i < len(s); i++ {
		d.u(uint32(s[i]))
	}
	for i := 0; i <= len(s); i++ {
		for j := i; j <= len(s); j++ {
			sub := s[i:j]
			d.s(sub)
			if detail {
				note("slice "+itoa(i)+":"+itoa(j), q(sub))
			}
		}
	}
	if len(s) > 0 {
		d.s(s[1:])
		d.s(s[:len(s)-1])
	}
	n := 0
	for i, r := range s {
		d.u(uint32(i))
		d.u(uint32(r))
		n++
		if detail {
			note("range", itoa(i)+" "+itoa(int(r)))
		}
	}
	d.u(uint32(n))
	cnt := 0
	for range s {
		cnt++
	}
	d.u(uint32(cnt))
	rs := []rune(s)
	d.u(uint32(len(rs)))
	for _, r := range rs {
		d.u(uint32(r))
	}
	note("runes", runes(rs))
	back := string(rs)
	d.s(back)
	note("string(runes)", q(back))
	// slices of defined rune and byte types convert like []rune and []byte
	cs := []Code(s)
	d.u(uint32(len(cs)))
	for i := range cs {
		cs[i] ^= 0
	}
	d.s(string(cs))
	d.s(string(Codes(cs)))
	note("string([]Code)", q(string(cs)))
	os := Octets(s)
	d.u(uint32(len(os)))
	d.s(string(os))
	d.s(string([]Octet(os)))
	bs := []byte(s)
	d.u(uint32(len(bs)))
	if string(bs) != s {
		d.u(0xbad)
		note("bytes", "round trip differs")
	}
	bs2 := append([]byte("x"), s...)
	d.s(string(bs2))
	buf := make([]byte, 3)
	c := copy(buf, s)
	d.u(uint32(c))
	d.s(string(buf[:c]))
	cat := prev + s
	d.s(cat)
	d.u(uint32(len(cat)))
	note("concat", q(cat))
	cmp := uint32(0)
	if prev < s {
		cmp |= 1
	}
	if prev <= s {
		cmp |= 2
	}
	if prev == s {
		cmp |= 4
	}
	if prev >= s {
		cmp |= 8
	}
	if prev > s {
		cmp |= 16
	}
	if prev != s {
		cmp |= 32
	}
	d.u(cmp)
	note("cmp", itoa(int(cmp)))
	m[s]++
	m[back]++
	d.u(uint32(len(m)))
	note("maplen", itoa(len(m)))
	sw := 0
	switch s {
	case "":
		sw = 1
	case "A":
		sw = 2
	case "\x80":
		sw = 3
	case "\xc2\x80":
		sw = 4
	case "\xef\xbf\xbd":
		sw = 5
	case "A\x00":
		sw = 6
	default:
		sw = 7
	}
	d.u(uint32(sw))
	var sb []byte
	for i := len(s) - 1; i >= 0; i-- {
		sb = append(sb, s[i])
	}
	rev := string(sb)
	d.s(rev + s)
	var ifc interface{} = s
	if ifc.(string) != s || ifc != interface{}(s) {
		d.u(0xbad2)
	}
}

func enumerate(shard, shards int, verbose bool, only string) {
	d := d32(2166136261)
	m := map[string]int{}
	prev := ""
	count, nt := 0, 0
	var rec func(prefix []byte, depth int)
	idx := 0
	rec = func(prefix []byte, depth int) {
		s := string(prefix)
		mine := idx%shards == shard
		idx++
		if mine {
			if only != "" {
				if q(s) == only {
					detail = true
					out("DETAIL " + q(s) + " prev " + q(prev))
					probe(&d, prev, s, m)
					detail = false
				}
			} else {
				before := d
				probe(&d, prev, s, m)
				if verbose {
					out("S " + q(s) + " " + u64hex(uint64(d^before)))
				}
			}
			count++
			for i := 0; i < len(s); i++ {
				if s[i] >= 0x80 || s[i] < 0x20 {
					nt++
					break
				}
			}
			prev = s
		}
		if depth == 4 {
			return
		}
		for _, b := range alphabet {
			rec(append(prefix, b), depth+1)
		}
	}
	rec(nil, 0)
	out("ENUM " + itoa(shard) + " " + itoa(count) + " " + itoa(nt) + " " + itoa(len(m)) + " " + u64hex(uint64(d)))
}

func runesAll() {
	d := d32(2166136261)
	n := 0
	for r := -1; r <= 0x110000; r++ {
		s := string(rune(r))
		d.s(s)
		n++
		if r%4099 == 0 || (r >= 0xD7F0 && r <= 0xE010) || r < 2 || r > 0x10FFF0 || (r >= 0x7E && r <= 0x82) || (r >= 0x7FE && r <= 0x802) || (r >= 0xFFFE && r <= 0x10002) {
			out("RUNE " + itoa(r) + " " + q(s))
		}
	}
	for _, x := range []int64{-1 << 63, -1 << 31, 1<<31 - 1, 1 << 31, 1<<63 - 1, -2, 0x7fffffff, 0xfffd, 0x10ffff, 0x110000} {
		out("RUNE64 " + i64toa(x) + " " + q(string(rune(int32(x)))))
	}
	for _, x := range []uint8{0, 65, 127, 128, 255} {
		out("RUNEU8 " + itoa(int(x)) + " " + q(string(rune(x))))
	}
	for _, x := range []int32{-1 << 31, -1, 0, 0xd800, 0xdfff, 0xe000, 1<<31 - 1} {
		out("RUNE32 " + itoa(int(x)) + " " + q(string(x)))
	}
	out("RUNES " + itoa(n) + " " + u64hex(uint64(d)))
}

func randoms(verbose bool) {
	d := d32(2166136261)
	m := map[string]int{}
	prev := ""
	for _, s := range randomStrings {
		before := d
		probe(&d, prev, s, m)
		if verbose {
			out("S " + q(s) + " " + u64hex(uint64(d^before)))
		}
		prev = s
	}
	out("RAND " + itoa(len(randomStrings)) + " " + itoa(len(m)) + " " + u64hex(uint64(d)))
}

func main() {
	switch argv(0) {
	case "enum":
		sh, n := 0, 1
		for i := 0; i < len(argv(1)); i++ {
			sh = sh*10 + int(argv(1)[i]-'0')
		}
		for i := 0; i < len(argv(2)); i++ {
			n = n*10 + int(argv(2)[i]-'0')
		}
		if argv(2) != "" {
			n -= 1 // started from 1
			n = 0
			for i := 0; i < len(argv(2)); i++ {
				n = n*10 + int(argv(2)[i]-'0')
			}
		}
		enumerate(sh, n, argv(3) == "verbose", argv(4))
	case "runes":
		runesAll()
	case "rand":
		randoms(argv(1) == "verbose")
	case "literals":
		literals()
	}
}
`

func goQuoteBytes(b []byte) string {
	var sb strings.Builder
	sb.WriteByte('"')
	for _, c := range b {
		switch {
		case c == '"' || c == '\\':
			sb.WriteByte('\\')
			sb.WriteByte(c)
		case c >= 0x20 && c < 0x7f:
			sb.WriteByte(c)
		default:
			fmt.Fprintf(&sb, "\\x%02x", c)
		}
	}
	sb.WriteByte('"')
	return sb.String()
}

func genByteString() *rapid.Generator[[]byte] {
	frag := rapid.SampledFrom([]string{"a", "Z", "\x00", "\x7f", "\x80", "\xbf", "\xc0", "\xc2\x80", "\xdf\xbf", "\xe0\x80\x80", "\xe0\xa0\x80", "\xed\x9f\xbf", "\xed\xa0\x80", "\xed\xbf\xbf", "\xee\x80\x80", "\xef\xbf\xbd", "\xef\xbf\xbf", "\xf0\x80\x80\x80", "\xf0\x90\x80\x80", "\xf4\x8f\xbf\xbf", "\xf4\x90\x80\x80", "\xf5", "\xff", "世", "😀", "é", "\xe4\xb8", "\xf0\x9f\x98", " ", "\"", "\\", "\n", "\b", " ", " ", "*/", "//", "</script>", "$", "`"})
	return rapid.Custom(func(rt *rapid.T) []byte {
		if rapid.Bool().Draw(rt, "raw") {
			return rapid.SliceOfN(rapid.Byte(), 0, 64).Draw(rt, "bytes")
		}
		parts := rapid.SliceOfN(frag, 0, 16).Draw(rt, "frags")
		return []byte(strings.Join(parts, ""))
	})
}

// literal forms
func literalSource(lits [][]byte) string {
	var sb strings.Builder
	sb.WriteString("package main\n\nfunc literals() {\n")
	for i, b := range lits {
		s := string(b)
		// interpreted literal with \x escapes
		fmt.Fprintf(&sb, "\tout(\"L%d a \" + itoa(len(%s)) + \" \" + q(%s))\n", i, goQuoteBytes(b), goQuoteBytes(b))
		// strconv.Quote style (unicode escapes, valid UTF-8 only)
		if utf8.Valid(b) {
			fmt.Fprintf(&sb, "\tout(\"L%d b \" + q(%s))\n", i, strconv.Quote(s))
			fmt.Fprintf(&sb, "\tout(\"L%d u \" + q(%s))\n", i, strconv.QuoteToASCII(s))
			// literal with the characters written directly (only printable ones are valid in source)
			if strconv.CanBackquote(s) {
				fmt.Fprintf(&sb, "\tout(\"L%d r \" + q(`%s`))\n", i, s)
			}
		}
		// constant folding
		if len(b) >= 2 {
			h := len(b) / 2
			fmt.Fprintf(&sb, "\tconst c%d = %s + %s\n\tout(\"L%d c \" + itoa(len(c%d)) + q(c%d) + q(c%d[%d:]))\n", i, goQuoteBytes(b[:h]), goQuoteBytes(b[h:]), i, i, i, i, h)
		}
		// as map key literal, struct field and switch case
		fmt.Fprintf(&sb, "\tout(\"L%d m \" + itoa(map[string]int{%s: %d}[%s]))\n", i, goQuoteBytes(b), i+1, goQuoteBytes(b))
	}
	sb.WriteString("}\n")
	return sb.String()
}

func TestCheck(t *testing.T) {
	ev = drv.NewEvidence("C14", "exploration", rule)
	nRand, nLit := 10000, 800
	if drv.Thorough() {
		nRand, nLit = 60000, 6000
	}
	_ = os.Getenv
	rs := rapid.SliceOfN(genByteString(), nRand, nRand).Example(drv.Seed())
	lits := rapid.SliceOfN(genByteString(), nLit, nLit).Example(drv.Seed() + 1)
	var sb strings.Builder
	sb.WriteString("package main\n\nvar randomStrings = []string{\n")
	ntRand := 0
	for _, b := range rs {
		sb.WriteString("\t" + goQuoteBytes(b) + ",\n")
		for _, c := range b {
			if c >= 0x80 || c < 0x20 {
				ntRand++
				break
			}
		}
	}
	sb.WriteString("}\n")
	files := map[string]string{"main.go": progSrc, "rand.go": sb.String(), "lits.go": literalSource(lits)}
	c := drv.NewCase("c14_", files, true)
	defer c.Remove()
	const shards = 12
	var argvs [][]string
	for i := 0; i < shards; i++ {
		argvs = append(argvs, []string{"enum", strconv.Itoa(i), strconv.Itoa(shards)})
	}
	argvs = append(argvs, []string{"runes"}, []string{"rand"}, []string{"literals"})
	res := drv.RunBoth(c, drv.BuildOpts{}, argvs, drv.NodeOpts{Timeout: 20 * 60 * 1e9}, true)
	if res.NatErr != nil {
		drv.Infra("native build failed: %v", res.NatErr)
	}
	if res.JSBuildErr != nil {
		ev.Violation("GopherJS build failed: "+res.JSBuildErr.Error(), c.ReproFiles())
		return
	}
	// minified build for the literal part
	minPath, _, err := c.BuildJS(drv.BuildOpts{Minify: true}, "min")
	if err != nil {
		ev.Violation("minified GopherJS build failed: "+err.Error(), c.ReproFiles())
		return
	}
	report := func(what string, files map[string]string) { ev.Violation(what, files) }
	for i, a := range argvs {
		js, nat := res.JS[i], res.Native[i]
		if nat.End != "exit0" {
			drv.Infra("native run %v ended %s %s", a, nat.End, nat.Msg)
		}
		if js.End != "exit0" {
			report(fmt.Sprintf("run %v ended %s %q under GopherJS\n%s", a, js.End, js.Msg, js.Stderr), map[string]string{"argv.txt": strings.Join(a, " ")})
			continue
		}
		switch a[0] {
		case "enum":
			f := strings.Fields(nat.Trace[len(nat.Trace)-1])
			cnt, _ := strconv.ParseInt(f[2], 10, 64)
			ntc, _ := strconv.ParseInt(f[3], 10, 64)
			ev.Bulk(cnt, ntc, "enum")
		case "rand":
			ev.Bulk(int64(len(rs)), int64(ntRand), "random")
		case "runes":
			ev.Bulk(0x110002, 0x110002-128, "runes")
		case "literals":
			ev.Bulk(int64(len(nat.Trace)), int64(len(nat.Trace)), "literals")
		}
		if js.Same(nat, false) {
			continue
		}
		// localise
		switch a[0] {
		case "enum", "rand":
			va := append(append([]string{}, a...), "verbose")
			if a[0] == "rand" {
				va = []string{"rand", "verbose"}
			}
			vj := drv.RunNode(res.JSPath, va, drv.NodeOpts{Timeout: 20 * 60 * 1e9})
			vn := drv.RunNative(c.Dir+"/native.bin", va, 20*60*1e9)
			first := ""
			for k := range vn.Trace {
				if k >= len(vj.Trace) || vj.Trace[k] != vn.Trace[k] {
					first = vn.Trace[k]
					break
				}
			}
			desc := fmt.Sprintf("%v: digests differ; first differing string row: %s", a, first)
			rf := map[string]string{"argv.txt": strings.Join(a, " "), "row.txt": first}
			if a[0] == "enum" && strings.HasPrefix(first, "S ") {
				str := strings.Fields(first)[1]
				da := append(append([]string{}, a...), "", str)
				dj := drv.RunNode(res.JSPath, da, drv.NodeOpts{})
				dn := drv.RunNative(c.Dir+"/native.bin", da, 0)
				desc += "\n" + drv.FirstDiff(dj, dn)
				rf["detail_gopherjs.txt"] = strings.Join(dj.Trace, "\n")
				rf["detail_native.txt"] = strings.Join(dn.Trace, "\n")
			}
			report(desc, rf)
		default:
			report(fmt.Sprintf("%v: %s", a, drv.FirstDiff(js, nat)), map[string]string{"argv.txt": strings.Join(a, " "), "gopherjs.txt": strings.Join(js.Trace, "\n"), "native.txt": strings.Join(nat.Trace, "\n")})
		}
	}
	// literals under minification
	mj := drv.RunNode(minPath, []string{"literals"}, drv.NodeOpts{})
	nat := res.Native[len(argvs)-1]
	ev.Bulk(int64(len(nat.Trace)), int64(len(nat.Trace)), "literals-minified")
	if !mj.Same(nat, false) {
		report("literals in the minified build: "+drv.FirstDiff(mj, nat), map[string]string{"lits.go": files["lits.go"]})
	}
	ev.SetExhaustive("all byte strings of length <= 4 over the 19-byte boundary alphabet; string(rune) for every rune -1..0x110000")
	ev.Sample("literal row: " + nat.Trace[0])
	ev.Sample(goQuoteBytes(rs[len(rs)/2]))
	ev.Sample(goQuoteBytes(lits[len(lits)/3]))
}
