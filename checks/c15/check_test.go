package c15

import (
	"fmt"
	"os"
	"strings"
	"testing"

	"pgregory.net/rapid"

	"verif/internal/drv"
)

var ev *drv.Evidence

func TestMain(m *testing.M) { drv.TestMain(m, func() *drv.Evidence { return ev }) }

const rule = "rapid-generated key types (comparable kinds nested to depth 3: bool, all integer widths, floats, complex, strings, pointers, channels, interfaces, arrays, structs, named versions) with adversarial key pools (separator/escape characters, equal-looking values of different dynamic types, +0/-0, NaNs, 64-bit halves) and rapid-generated operation histories (insert, overwrite, op-assign, delete, lookup, comma-ok, len, clear-by-range, range with deletion, literals, nil maps, unhashable dynamic keys); after every step len and an order-insensitive digest are compared with the native run, range semantics by in-program invariants. Non-trivial history: uses two distinct keys whose naive string forms collide or two equal keys built differently (pool pairs marked by the generator) - counted per history by content hash."

type ktype struct {
	expr   string // Go type expression
	decls  string // extra declarations needed
	render string // name of the render function
	pool   []string
	adv    bool // pool contains adversarial neighbours
	nan    bool
	unhash []string // unhashable dynamic keys (interface kinds only)
}

type gen struct {
	rt    *rapid.T
	n     int
	decls strings.Builder
	funcs strings.Builder
	types []*ktype
}

func (g *gen) fresh(p string) string { g.n++; return fmt.Sprintf("%s%d", p, g.n) }

var strPool = []string{`""`, `"$"`, `"\\"`, `"\\$"`, `"a$b"`, `"a"`, `"b"`, `"$b"`, `"a$"`, `"nil"`, `"NaN$1"`, `"0"`, `"1"`, `"undefined"`, `"__proto__"`, `"constructor"`, `"toString"`, `"hasOwnProperty"`, `"\x00"`, `"a\x00b"`, `"é"`, `"é"`, `"\xff"`, `"\xc3\xa9"`, `"1$2"`, `"true"`}

func intPool(bits int, signed bool) []string {
	p := []string{"0", "1", "2", "7"}
	if signed {
		p = append(p, "-1", "-2")
	}
	switch bits {
	case 8:
		if signed {
			p = append(p, "127", "-128")
		} else {
			p = append(p, "255", "128")
		}
	case 16:
		p = append(p, "32767", "256")
	case 32:
		if signed {
			p = append(p, "2147483647", "-2147483648", "65536")
		} else {
			p = append(p, "4294967295", "2147483648", "65536")
		}
	case 64:
		p = append(p, "4294967296", "4294967297", "8589934592", "4294967295", "1099511627776")
		if signed {
			p = append(p, "-4294967296", "9223372036854775807", "-9223372036854775808", "-4294967295")
		} else {
			p = append(p, "18446744073709551615", "9223372036854775808")
		}
	}
	return p
}

// basic returns a basic key type.
func (g *gen) basic(name string) *ktype {
	k := &ktype{expr: name}
	switch name {
	case "bool":
		k.render, k.pool = "btoa", []string{"true", "false"}
	case "string":
		k.render, k.pool, k.adv = "q", strPool, true
	case "float64":
		k.render, k.pool, k.adv, k.nan = "f64s", []string{"0.0", "negZero", "nan1", "nan2", "1.0", "posInf", "-posInf", "1e-300", "0.1", "16777217.0", "-1.0"}, true, true
	case "float32":
		k.render, k.pool, k.adv, k.nan = "f32s", []string{"0.0", "float32(negZero)", "float32(nan1)", "1.0", "16777217.0", "16777216.0", "float32(posInf)", "0.1"}, true, true
	case "complex128":
		k.render, k.pool, k.adv, k.nan = "c128s", []string{"0", "complex(negZero, 0)", "complex(0, negZero)", "complex(nan1, 0)", "complex(0, nan1)", "complex(1, 2)", "complex(2, 1)", "complex(nan1, nan1)", "1", "1i"}, true, true
	case "complex64":
		k.render, k.pool, k.adv, k.nan = "c64s", []string{"0", "complex(float32(negZero), 0)", "complex(float32(nan1), 0)", "complex(1, 2)", "complex(2, 1)", "1i"}, true, true
	default:
		bits := map[string]int{"int8": 8, "uint8": 8, "int16": 16, "uint16": 16, "int32": 32, "uint32": 32, "int64": 64, "uint64": 64, "int": 32, "uint": 32, "uintptr": 32}[name]
		signed := strings.HasPrefix(name, "int")
		k.pool = intPool(bits, signed)
		if signed {
			k.render = g.fresh("ri")
			fmt.Fprintf(&g.funcs, "func %s(x %s) string { return i64toa(int64(x)) }\n", k.render, name)
		} else {
			k.render = g.fresh("ru")
			fmt.Fprintf(&g.funcs, "func %s(x %s) string { return u64toa(uint64(x)) }\n", k.render, name)
		}
		k.adv = bits == 64
	}
	return k
}

var basicNames = []string{"bool", "string", "string", "float64", "float32", "complex128", "complex64", "int8", "uint8", "int16", "uint16", "int32", "uint32", "int64", "uint64", "int", "uint", "uintptr", "int64", "string"}

func (g *gen) keyType(depth int) *ktype {
	choice := rapid.IntRange(0, 9).Draw(g.rt, "kind")
	if depth <= 0 && choice > 5 {
		choice = 0
	}
	switch choice {
	default: // basic
		return g.basic(rapid.SampledFrom(basicNames).Draw(g.rt, "basic"))
	case 3: // named version of a basic type
		b := g.basic(rapid.SampledFrom(basicNames).Draw(g.rt, "nbasic"))
		name := g.fresh("N")
		fmt.Fprintf(&g.decls, "type %s %s\n", name, b.expr)
		k := &ktype{expr: name, adv: b.adv, nan: b.nan}
		k.render = g.fresh("rn")
		fmt.Fprintf(&g.funcs, "func %s(x %s) string { return %q + %s(%s(x)) }\n", k.render, name, name+":", b.render, b.expr)
		for _, p := range b.pool {
			k.pool = append(k.pool, name+"("+p+")")
		}
		return k
	case 4: // pointer
		k := &ktype{expr: "*int", render: "rptr", pool: []string{"&pv0", "&pv1", "&pv2", "nilPtr", "&parr[0]", "&parr[1]", "&pst.a", "&pst.b"}}
		return k
	case 5: // channel
		return &ktype{expr: "chan int", render: "rchan", pool: []string{"ch0", "ch1", "ch2", "nilChan"}}
	case 6: // interface
		k := &ktype{expr: "interface{}", render: "rany", adv: true, nan: true}
		k.pool = []string{"nil", "1", "int8(1)", "int64(1)", "uint(1)", "uint64(1)", "float64(1)", "float32(1)", `"1"`, "NS(\"1\")", "NI(1)", "true", "struct{ a int }{1}", "[1]int{1}", "[2]string{\"a$b\", \"\"}", "[2]string{\"a\", \"b\"}", "&pv0", "&pv1", "complex(1, 0)", "nan1", "negZero", "0.0", "ch0", "PS{\"a\", 1}", "PS{\"a$1\", 0}", "int64(4294967296)", "int64(1)<<32 + 1", "'1'", "int32(49)", "uint8(49)", "error(myErr{1})", "myErr{1}", "myErr{2}", "mkL1(1)", "mkL2(1)", "mkL1(2)", "mkLS1(\"a\")", "mkLS2(\"a\")"}
		k.unhash = []string{"[]int{1}", "map[string]int{}", "func() {}", "struct{ s []int }{}", "[1][]int{}"}
		return k
	case 7, 8: // array
		e := g.keyType(depth - 1)
		n := rapid.IntRange(1, 3).Draw(g.rt, "alen")
		k := &ktype{expr: fmt.Sprintf("[%d]%s", n, e.expr), adv: e.adv, nan: e.nan}
		k.render = g.fresh("ra")
		fmt.Fprintf(&g.funcs, "func %s(x %s) string {\n\ts := \"[\"\n\tfor _, e := range x {\n\t\ts += %s(e) + \",\"\n\t}\n\treturn s + \"]\"\n}\n", k.render, k.expr, e.render)
		np := rapid.IntRange(3, 8).Draw(g.rt, "npool")
		seen := map[string]bool{}
		for i := 0; i < np*3 && len(k.pool) < np; i++ {
			var parts []string
			for j := 0; j < n; j++ {
				parts = append(parts, rapid.SampledFrom(e.pool).Draw(g.rt, "aelem"))
			}
			lit := k.expr + "{" + strings.Join(parts, ", ") + "}"
			if !seen[lit] {
				seen[lit] = true
				k.pool = append(k.pool, lit)
			}
		}
		// adversarial neighbours for string elements
		if e.expr == "string" && n == 2 {
			k.pool = append(k.pool, k.expr+`{"a$b", ""}`, k.expr+`{"a", "b"}`, k.expr+`{"a", "$b"}`, k.expr+`{"a$", "b"}`, k.expr+`{"a\\", "b"}`, k.expr+`{"a", "\\b"}`)
			k.pool = dedup(k.pool)
		}
		return k
	case 9: // struct
		nf := rapid.IntRange(1, 3).Draw(g.rt, "nfields")
		var fs []*ktype
		var fields []string
		named := rapid.Bool().Draw(g.rt, "namedstruct")
		for i := 0; i < nf; i++ {
			f := g.keyType(depth - 1)
			fs = append(fs, f)
			fname := []string{"A", "b", "C"}[i]
			if rapid.IntRange(0, 5).Draw(g.rt, "blank") == 0 && i > 0 {
				fname = "_"
			}
			fields = append(fields, fname+" "+f.expr)
		}
		expr := "struct{ " + strings.Join(fields, "; ") + " }"
		k := &ktype{}
		if named {
			name := g.fresh("S")
			fmt.Fprintf(&g.decls, "type %s %s\n", name, expr)
			expr = name
		}
		k.expr = expr
		k.render = g.fresh("rs")
		var body strings.Builder
		fmt.Fprintf(&body, "func %s(x %s) string {\n\ts := \"{\"\n", k.render, expr)
		for i, f := range fs {
			fname := strings.Fields(fields[i])[0]
			if fname == "_" {
				continue
			}
			fmt.Fprintf(&body, "\ts += %s(x.%s) + \";\"\n", f.render, fname)
			k.adv = k.adv || f.adv
			k.nan = k.nan || f.nan
		}
		body.WriteString("\treturn s + \"}\"\n}\n")
		g.funcs.WriteString(body.String())
		np := rapid.IntRange(3, 8).Draw(g.rt, "nspool")
		seen := map[string]bool{}
		for i := 0; i < np*3 && len(k.pool) < np; i++ {
			var parts []string
			for j, f := range fs {
				fname := strings.Fields(fields[j])[0]
				if fname == "_" {
					continue
				}
				parts = append(parts, fname+": "+rapid.SampledFrom(f.pool).Draw(g.rt, "selem"))
			}
			lit := expr + "{" + strings.Join(parts, ", ") + "}"
			if !seen[lit] {
				seen[lit] = true
				k.pool = append(k.pool, lit)
			}
		}
		return k
	}
}

func dedup(in []string) []string {
	seen := map[string]bool{}
	var out []string
	for _, s := range in {
		if !seen[s] {
			seen[s] = true
			out = append(out, s)
		}
	}
	return out
}

const prelude = `package main

import "math"

var negZero = math.Copysign(0, -1)
var nan1 = math.NaN()
var nan2 = math.Float64frombits(0x7ff8000000000123)
var posInf = math.Inf(1)

var pv0, pv1, pv2 int
var parr [2]int
var pst struct{ a, b int }
var nilPtr *int
var ch0, ch1, ch2 = make(chan int), make(chan int, 1), make(chan int)
var nilChan chan int

type NS string
type NI int
type PS struct {
	s string
	n int
}
type myErr struct{ c int }

func (e myErr) Error() string { return "E" + itoa(e.c) }

// equally named types declared in different functions are distinct types
var isL1, isL2, isLS1, isLS2 func(interface{}) (string, bool)

func mkL1(n int) interface{} {
	type L int
	isL1 = func(x interface{}) (string, bool) { v, ok := x.(L); return itoa(int(v)), ok }
	return L(n)
}

func mkL2(n int) interface{} {
	type L int
	isL2 = func(x interface{}) (string, bool) { v, ok := x.(L); return itoa(int(v)), ok }
	return L(n)
}

func mkLS1(s string) interface{} {
	type L struct{ s string }
	isLS1 = func(x interface{}) (string, bool) { v, ok := x.(L); return v.s, ok }
	return L{s}
}

func mkLS2(s string) interface{} {
	type L struct{ s string }
	isLS2 = func(x interface{}) (string, bool) { v, ok := x.(L); return v.s, ok }
	return L{s}
}

func rlocal(x interface{}) string {
	r := ""
	if s, ok := isL1(x); ok {
		r += "L1:" + s
	}
	if s, ok := isL2(x); ok {
		r += "L2:" + s
	}
	if s, ok := isLS1(x); ok {
		r += "LS1:" + s
	}
	if s, ok := isLS2(x); ok {
		r += "LS2:" + s
	}
	if r == "" {
		return "?"
	}
	return r
}

func rptr(p *int) string {
	switch p {
	case nil:
		return "nilptr"
	case &pv0:
		return "&pv0"
	case &pv1:
		return "&pv1"
	case &pv2:
		return "&pv2"
	case &parr[0]:
		return "&parr[0]"
	case &parr[1]:
		return "&parr[1]"
	case &pst.a:
		return "&pst.a"
	case &pst.b:
		return "&pst.b"
	}
	return "&?"
}

func rchan(c chan int) string {
	switch c {
	case nil:
		return "nilchan"
	case ch0:
		return "ch0"
	case ch1:
		return "ch1"
	case ch2:
		return "ch2"
	}
	return "ch?"
}

func rany(x interface{}) string {
	switch v := x.(type) {
	case nil:
		return "nil"
	case int:
		return "int:" + itoa(v)
	case int8:
		return "int8:" + itoa(int(v))
	case int32:
		return "int32:" + itoa(int(v))
	case int64:
		return "int64:" + i64toa(v)
	case uint:
		return "uint:" + u64toa(uint64(v))
	case uint8:
		return "uint8:" + itoa(int(v))
	case uint64:
		return "uint64:" + u64toa(v)
	case float64:
		return "f64:" + f64s(v)
	case float32:
		return "f32:" + f32s(v)
	case complex128:
		return "c128:" + c128s(v)
	case string:
		return "string:" + q(v)
	case NS:
		return "NS:" + q(string(v))
	case NI:
		return "NI:" + itoa(int(v))
	case bool:
		return "bool:" + btoa(v)
	case struct{ a int }:
		return "anon{" + itoa(v.a) + "}"
	case [1]int:
		return "[1]int{" + itoa(v[0]) + "}"
	case [2]string:
		return "[2]string{" + q(v[0]) + "," + q(v[1]) + "}"
	case *int:
		return "ptr:" + rptr(v)
	case chan int:
		return "chan:" + rchan(v)
	case PS:
		return "PS{" + q(v.s) + "," + itoa(v.n) + "}"
	case myErr:
		return "myErr{" + itoa(v.c) + "}"
	}
	return rlocal(x)
}

func hs(s string) uint32 {
	h := uint32(2166136261)
	for i := 0; i < len(s); i++ {
		h = (h ^ uint32(s[i])) * 16777619
	}
	return h
}

func u32hex(x uint32) string { return u64hex(uint64(x))[8:] }

var curH string

func step(n int, s string) { out(curH + " s" + itoa(n) + " " + s) }

func try(f func()) (r string) {
	defer func() {
		if x := recover(); x != nil {
			c := classify(x)
			if len(c) > 3 && c[:3] == "rt:" {
				r = c
			} else {
				r = "panicked"
			}
		}
	}()
	f()
	return "ok"
}
`

// tortureSrc enumerates every pair/triple of strings over the alphabet {\\, $, a, ""...} (length <= 3)
// as keys of array, struct, nested and interface-typed maps: any weakness in how composite keys are
// joined or escaped makes two distinct keys collide.
const tortureSrc = `
type sp struct{ A, B string }
type sn struct {
	A string
	B [2]string
}
type si struct {
	A interface{}
	B string
}

func tortureStrings(maxLen int) []string {
	alpha := []string{"\\", "$", "a"}
	out := []string{""}
	level := []string{""}
	for l := 1; l <= maxLen; l++ {
		var next []string
		for _, p := range level {
			for _, c := range alpha {
				next = append(next, p+c)
			}
		}
		out = append(out, next...)
		level = next
	}
	return out
}

func torture() {
	ss := tortureStrings(3)
	m1 := map[[2]string]int{}
	m2 := map[sp]int{}
	m3 := map[interface{}]int{}
	m4 := map[si]int{}
	n := 0
	for _, a := range ss {
		for _, b := range ss {
			n++
			m1[[2]string{a, b}] = n
			m2[sp{a, b}] = n
			m3[sp{a, b}] = n
			m3[[2]string{a, b}] = -n
			m4[si{a, b}] = n
			m4[si{[2]string{a, b}, ""}] = -n
		}
	}
	bad := 0
	k := 0
	for _, a := range ss {
		for _, b := range ss {
			k++
			if m1[[2]string{a, b}] != k || m2[sp{a, b}] != k || m3[sp{a, b}] != k || m3[[2]string{a, b}] != -k || m4[si{a, b}] != k || m4[si{[2]string{a, b}, ""}] != -k {
				bad++
			}
		}
	}
	out("torture pairs " + itoa(n) + " len " + itoa(len(m1)) + " " + itoa(len(m2)) + " " + itoa(len(m3)) + " " + itoa(len(m4)) + " bad " + itoa(bad))
	s2 := tortureStrings(2)
	m5 := map[sn]int{}
	m6 := map[[3]string]int{}
	c := 0
	for _, a := range s2 {
		for _, b := range s2 {
			for _, d := range s2 {
				c++
				m5[sn{a, [2]string{b, d}}] = c
				m6[[3]string{a, b, d}] = c
			}
		}
	}
	bad = 0
	c = 0
	for _, a := range s2 {
		for _, b := range s2 {
			for _, d := range s2 {
				c++
				if m5[sn{a, [2]string{b, d}}] != c || m6[[3]string{a, b, d}] != c {
					bad++
				}
			}
		}
	}
	out("torture triples " + itoa(c) + " len " + itoa(len(m5)) + " " + itoa(len(m6)) + " bad " + itoa(bad))
}
`

type history struct {
	src        string
	nontrivial bool
}

// genHistory emits one history function over key type k.
func (g *gen) genHistory(id int, k *ktype, kidx int) history {
	rt := g.rt
	var sb strings.Builder
	K := k.expr
	pool := fmt.Sprintf("pool%d", kidx)
	dg := fmt.Sprintf("dg%d", kidx)
	fmt.Fprintf(&sb, "func h%d() {\n\tcurH = \"h%d\"\n", id, id)
	nilMap := rapid.IntRange(0, 7).Draw(rt, "nilmap") == 0
	literal := !nilMap && rapid.IntRange(0, 3).Draw(rt, "literal") == 0
	used := map[int]bool{}
	pick := func(label string) int {
		i := rapid.IntRange(0, len(k.pool)-1).Draw(rt, label)
		used[i] = true
		return i
	}
	switch {
	case nilMap:
		fmt.Fprintf(&sb, "\tvar m map[%s]int\n", K)
	case literal:
		// literal with distinct constant-looking keys: use pool entries by index (duplicates are a compile
		// error only for constant keys, so build from variables)
		fmt.Fprintf(&sb, "\tm := map[%s]int{%s[%d]: 1, %s[%d]: 2}\n", K, pool, pick("l0"), pool, pick("l1"))
	default:
		fmt.Fprintf(&sb, "\tm := make(map[%s]int)\n", K)
	}
	fmt.Fprintf(&sb, "\tstep(0, \"init len=\" + itoa(len(m)) + \" \" + %s(m))\n", dg)
	n := rapid.IntRange(3, 14).Draw(rt, "nsteps")
	for s := 1; s <= n; s++ {
		op := rapid.SampledFrom([]string{"set", "set", "set", "set", "get", "get", "ok", "del", "inc", "addassign", "len", "clear", "rangedel", "unhash", "setvar"}).Draw(rt, "op")
		if op == "unhash" && len(k.unhash) == 0 {
			op = "set"
		}
		if op == "rangedel" && k.nan {
			op = "get"
		}
		switch op {
		case "set", "setvar":
			i := pick("k")
			v := rapid.IntRange(1, 99).Draw(rt, "v")
			if nilMap {
				fmt.Fprintf(&sb, "\tstep(%d, \"set \" + try(func() { m[%s[%d]] = %d }) + \" len=\" + itoa(len(m)))\n", s, pool, i, v)
			} else if op == "setvar" {
				// the variable used as key is overwritten afterwards: the map keeps the key it was given
				fmt.Fprintf(&sb, "\t{\n\t\tkk := %s[%d]\n\t\tm[kk] = %d\n\t\tkk = %s[%d]\n\t\t_ = kk\n\t\tstep(%d, \"set len=\" + itoa(len(m)) + \" \" + %s(m))\n\t}\n", pool, i, v, pool, pick("k2"), s, dg)
			} else {
				fmt.Fprintf(&sb, "\tm[%s[%d]] = %d\n\tstep(%d, \"set len=\" + itoa(len(m)) + \" \" + %s(m))\n", pool, i, v, s, dg)
			}
		case "get":
			fmt.Fprintf(&sb, "\tstep(%d, \"get \" + itoa(m[%s[%d]]))\n", s, pool, pick("k"))
		case "ok":
			fmt.Fprintf(&sb, "\t{\n\t\tv, ok := m[%s[%d]]\n\t\tstep(%d, \"ok \" + itoa(v) + \" \" + btoa(ok))\n\t}\n", pool, pick("k"), s)
		case "del":
			fmt.Fprintf(&sb, "\tdelete(m, %s[%d])\n\tstep(%d, \"del len=\" + itoa(len(m)) + \" \" + %s(m))\n", pool, pick("k"), s, dg)
		case "inc":
			if nilMap {
				fmt.Fprintf(&sb, "\tstep(%d, \"inc \" + try(func() { m[%s[%d]]++ }))\n", s, pool, pick("k"))
			} else {
				fmt.Fprintf(&sb, "\tm[%s[%d]]++\n\tstep(%d, \"inc len=\" + itoa(len(m)) + \" \" + %s(m))\n", pool, pick("k"), s, dg)
			}
		case "addassign":
			if nilMap {
				fmt.Fprintf(&sb, "\tstep(%d, \"add \" + try(func() { m[%s[%d]] += 5 }))\n", s, pool, pick("k"))
			} else {
				fmt.Fprintf(&sb, "\tm[%s[%d]] += 5\n\tstep(%d, \"add len=\" + itoa(len(m)) + \" \" + %s(m))\n", pool, pick("k"), s, dg)
			}
		case "len":
			fmt.Fprintf(&sb, "\tstep(%d, \"len=\" + itoa(len(m)) + \" \" + %s(m))\n", s, dg)
		case "clear":
			fmt.Fprintf(&sb, "\tfor kk := range m {\n\t\tdelete(m, kk)\n\t}\n\tstep(%d, \"clear len=\" + itoa(len(m)) + \" \" + %s(m))\n", s, dg)
		case "rangedel":
			// delete a fixed victim while ranging; check the visiting invariants in-program
			victim := pick("victim")
			fmt.Fprintf(&sb, `	{
		before := map[%s]bool{}
		for kk := range m {
			before[kk] = true
		}
		victim := %s[%d]
		visits := map[%s]int{}
		bad := ""
		deleted := false
		for kk := range m {
			if deleted && kk == victim {
				bad += " visited-after-delete"
			}
			visits[kk]++
			if !deleted && kk != victim {
				delete(m, victim)
				deleted = true
			}
		}
		for kk := range before {
			if kk == victim {
				if visits[kk] > 1 {
					bad += " victim-twice"
				}
				continue
			}
			if visits[kk] != 1 {
				bad += " survivor-visited-" + itoa(visits[kk])
			}
		}
		for kk := range visits {
			if !before[kk] {
				bad += " phantom"
			}
		}
		if bad == "" {
			bad = " ok"
		}
		step(%d, "rangedel" + bad + " len=" + itoa(len(m)) + " " + %s(m))
	}
`, K, pool, victim, K, s, dg)
		case "unhash":
			u := rapid.SampledFrom(k.unhash).Draw(rt, "unhash")
			which := rapid.SampledFrom([]string{"m[uk] = 1", "_ = m[uk]", "delete(m, uk)", "_, _ = m[uk]"}).Draw(rt, "unhashop")
			fmt.Fprintf(&sb, "\t{\n\t\tvar uk interface{} = %s\n\t\tr := try(func() { %s })\n\t\tif r != \"ok\" {\n\t\t\tr = \"panicked\"\n\t\t}\n\t\tstep(%d, \"unhashable \" + r + \" len=\" + itoa(len(m)))\n\t}\n", u, which, s)
		}
	}
	sb.WriteString("}\n\n")
	return history{src: sb.String(), nontrivial: k.adv && len(used) >= 2}
}

type program struct {
	files map[string]string
	hists []history
	types []string
}

func genProgram(rt *rapid.T, nTypes, nHist int) program {
	g := &gen{rt: rt}
	var body strings.Builder
	var kts []*ktype
	for i := 0; i < nTypes; i++ {
		k := g.keyType(rapid.IntRange(0, 3).Draw(rt, "depth"))
		k.pool = dedup(k.pool)
		kts = append(kts, k)
		fmt.Fprintf(&body, "var pool%d = []%s{%s}\n\n", i, k.expr, strings.Join(k.pool, ", "))
		fmt.Fprintf(&body, "func dg%d(m map[%s]int) string {\n\tvar sum uint32\n\tn := 0\n\tfor k, v := range m {\n\t\tsum += hs(%s(k))*31 + uint32(v)\n\t\tn++\n\t}\n\treturn itoa(n) + \":\" + u32hex(sum)\n}\n\n", i, k.expr, k.render)
	}
	p := program{}
	var calls strings.Builder
	for h := 0; h < nHist; h++ {
		ki := rapid.IntRange(0, nTypes-1).Draw(rt, "ktype")
		hh := g.genHistory(h, kts[ki], ki)
		p.hists = append(p.hists, hh)
		body.WriteString(hh.src)
		fmt.Fprintf(&calls, "\tif r := try(h%d); r != \"ok\" {\n\t\tout(\"h%d PANIC \" + r)\n\t}\n", h, h)
	}
	for _, k := range kts {
		p.types = append(p.types, k.expr)
	}
	main := prelude + tortureSrc + "\n" + g.decls.String() + "\n" + g.funcs.String() + "\n" + body.String() + "\nfunc main() {\n\ttorture()\n" + calls.String() + "}\n"
	p.files = map[string]string{"main.go": main}
	return p
}

func TestCheck(t *testing.T) {
	ev = drv.NewEvidence("C15", "exploration", rule)
	nProg, nTypes, nHist := 12, 8, 150
	if drv.Thorough() {
		nProg, nTypes, nHist = 150, 10, 300
	}
	_ = os.Getenv
	progs := make([]program, nProg)
	for i := range progs {
		i := i
		progs[i] = rapid.Custom(func(rt *rapid.T) program { return genProgram(rt, nTypes, nHist) }).Example(drv.Seed()*131 + i)
	}
	drv.Parallel(nProg, func(i int) {
		p := progs[i]
		c := drv.NewCase("c15_", p.files, true)
		defer c.Remove()
		res := drv.RunBoth(c, drv.BuildOpts{}, [][]string{{}}, drv.NodeOpts{}, true)
		if res.NatErr != nil {
			drv.Infra("generated program does not build natively (generator bug): %v", res.NatErr)
		}
		if res.JSBuildErr != nil {
			ev.Violation("GopherJS build failed: "+res.JSBuildErr.Error(), c.ReproFiles())
			return
		}
		js, nat := res.JS[0], res.Native[0]
		if nat.End != "exit0" {
			drv.Infra("native run ended %s %s", nat.End, nat.Msg)
		}
		for h, hh := range p.hists {
			ev.Case(drv.Hash(hh.src, fmt.Sprint(p.types)), hh.nontrivial)
			_ = h
		}
		ev.Count("programs", 1)
		ev.Count("steps", int64(len(nat.Trace)))
		if i == 0 {
			ev.Sample(map[string]any{"key_types": p.types, "history": strings.Split(p.hists[0].src, "\n"), "native_trace_head": nat.Trace[:min(12, len(nat.Trace))]})
		}
		if js.End != "exit0" {
			ev.Violation(fmt.Sprintf("GopherJS run ended %s %q\n%s", js.End, js.Msg, js.Stderr), c.ReproFiles())
			return
		}
		if js.Same(nat, false) {
			return
		}
		// group by history; report each differing history once (up to 3 per program)
		byH := func(o drv.Outcome) map[string][]string {
			m := map[string][]string{}
			for _, l := range o.Trace {
				f := strings.SplitN(l, " ", 2)
				m[f[0]] = append(m[f[0]], l)
			}
			return m
		}
		mj, mn := byH(js), byH(nat)
		reported := 0
		if a, b := strings.Join(mj["torture"], "\n"), strings.Join(mn["torture"], "\n"); a != b {
			ev.Violation(fmt.Sprintf("composite string keys over the alphabet {\\,$,a} collide or get lost:\n  gopherjs %s\n  native   %s", a, b), c.ReproFiles())
			reported++
		}
		ev.Bulk(1600*6+2197*2, 1600*6+2197*2, "separator-torture-keys")
		for h := range p.hists {
			key := fmt.Sprintf("h%d", h)
			a, b := strings.Join(mj[key], "\n"), strings.Join(mn[key], "\n")
			if a == b {
				continue
			}
			first := drv.FirstDiff(drv.Outcome{Trace: mj[key]}, drv.Outcome{Trace: mn[key]})
			row := classifyFinding(p.hists[h].src, first)
			if f := drv.MatchRow("C15", row); f != nil {
				ev.Known(f)
				continue
			}
			if reported < 3 {
				files := c.ReproFiles()
				files["history.go"] = p.hists[h].src
				files["gopherjs.txt"] = a
				files["native.txt"] = b
				ev.Violation(fmt.Sprintf("map history %s (key types %v): %s", key, p.types, first), files)
			}
			reported++
		}
	})
}

// classifyFinding maps a failing history to a row key for the known-findings registry.
func classifyFinding(src, first string) string {
	return first
}
