package c16

import (
	"fmt"
	"strings"
	"testing"

	"pgregory.net/rapid"

	"verif/internal/corpus"
	"verif/internal/drv"
	"verif/internal/progen"
)

var ev *drv.Evidence

func TestMain(m *testing.M) { drv.TestMain(m, func() *drv.Evidence { return ev }) }

const rule = "rapid-generated programs (progen with identifier pressure: 30/60/120/710 variables in one scope crossing the 26- and 702-name boundaries, closures over minified names, shadowing, labels, hostile string literals with quotes, backslashes, comment-like text, control bytes and non-ASCII, adjacent unary/binary minus, generics) plus the hand-written corpus, each built with and without minification from the same sources; both outputs must pass node --check and every scenario must print the same lines and end the same way under Node. Non-trivial scenario: more than 26 names in one scope, a hostile literal or an adjacent sign pair (reported by the generator); distinct by source text."

var features = progen.Features{Generics: true, Ending: true, ManyNames: true, Hostile: true, DeadCode: true}

func TestCheck(t *testing.T) {
	ev = drv.NewEvidence("C16", "exploration", rule)
	nBundles, k := 10, 16
	if drv.Thorough() {
		nBundles, k = 120, 16
	}
	for _, p := range corpus.All() {
		diff(p.Name, p.Files, [][]string{{}}, nil)
	}
	type bundle struct {
		scs   []progen.Scenario
		files map[string]string
	}
	bundles := make([]bundle, nBundles)
	drv.ParallelN(4, nBundles, func(i int) {
		scs := rapid.Custom(func(rt *rapid.T) []progen.Scenario {
			var out []progen.Scenario
			for j := 0; j < k; j++ {
				out = append(out, progen.Gen(rt, fmt.Sprintf("S%d_", j), features))
			}
			return out
		}).Example(drv.Seed()*2003 + i)
		var good []progen.Scenario
		for _, s := range scs {
			files := progen.Bundle([]progen.Scenario{s}, features)
			for k, v := range drv.RtFiles() {
				files[k] = v
			}
			if err := progen.TypeCheck(files); err != nil {
				ev.Count("discarded_invalid_scenarios", 1)
				continue
			}
			good = append(good, s)
		}
		bundles[i] = bundle{good, progen.Bundle(good, features)}
	})
	drv.Parallel(nBundles, func(i int) {
		b := bundles[i]
		var argvs [][]string
		for j := range b.scs {
			argvs = append(argvs, []string{fmt.Sprint(j)})
		}
		diff(fmt.Sprintf("bundle%d", i), b.files, argvs, b.scs)
	})
}

func diff(name string, files map[string]string, argvs [][]string, scs []progen.Scenario) {
	c := drv.NewCase("c16_", files, true)
	defer c.Remove()
	plain, _, err := c.BuildJS(drv.BuildOpts{}, "plain")
	if err != nil {
		if !drv.IsCompilerInternalError(err) {
			drv.Infra("%s does not compile (generator bug): %v", name, err)
		}
		ev.Violation(name+": plain build failed: "+err.Error(), c.ReproFiles())
		return
	}
	mini, _, err := c.BuildJS(drv.BuildOpts{Minify: true}, "mini")
	if err != nil {
		ev.Violation(name+": minified build failed although the plain build succeeds: "+err.Error(), c.ReproFiles())
		return
	}
	if err := drv.CheckSyntax(mini); err != nil {
		ev.Violation(name+": minified output is not valid JavaScript: "+err.Error(), c.ReproFiles())
		return
	}
	if err := drv.CheckSyntax(plain); err != nil {
		ev.Violation(name+": plain output is not valid JavaScript: "+err.Error(), c.ReproFiles())
		return
	}
	outs := make([][2]drv.Outcome, len(argvs))
	drv.ParallelN(8, 2*len(argvs), func(i int) {
		if i%2 == 0 {
			outs[i/2][0] = drv.RunNode(plain, argvs[i/2], drv.NodeOpts{})
		} else {
			outs[i/2][1] = drv.RunNode(mini, argvs[i/2], drv.NodeOpts{})
		}
	})
	for i := range argvs {
		p, m := outs[i][0], outs[i][1]
		nt := true
		key := name
		if scs != nil {
			s := scs[i]
			key = s.Src
			nt = false
			for _, k := range s.Kinds {
				ev.Count("kind:"+k, 1)
				if strings.HasPrefix(k, "many-names") {
					nt = true
				}
			}
			if strings.Contains(s.Src, "- -") || strings.Contains(s.Src, `\"`) || strings.Contains(s.Src, "/*") || strings.Contains(s.Src, "\\\\") {
				nt = true
			}
		}
		ev.Case("prog:"+key, nt)
		if p.End == "timeout" || m.End == "timeout" {
			drv.Infra("%s: timeout", name)
		}
		same := p.End == m.End && strings.Join(p.Trace, "\n") == strings.Join(m.Trace, "\n") && p.Msg == m.Msg
		if same {
			continue
		}
		rf := c.ReproFiles()
		if scs != nil {
			rf = progen.Bundle([]progen.Scenario{scs[i]}, features)
			for k, v := range drv.RtFiles() {
				rf[k] = v
			}
		}
		rf["plain.txt"] = p.String() + "\n" + p.Stderr
		rf["minified.txt"] = m.String() + "\n" + m.Stderr
		ev.Violation(fmt.Sprintf("%s scenario %d: minified build behaves differently: %s (ends plain %s %q, minified %s %q)", name, i, drv.FirstDiff(m, p), p.End, p.Msg, m.End, m.Msg), rf)
	}
	if scs != nil && len(scs) > 0 {
		ev.Sample(map[string]any{"kinds": scs[0].Kinds, "lines": scs[0].Lines})
	}
}
