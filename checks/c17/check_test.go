package c17

import (
	"bytes"
	"crypto/sha256"
	"encoding/hex"
	"fmt"
	"os"
	"path/filepath"
	"sort"
	"strings"
	"testing"

	gbuild "github.com/gopherjs/gopherjs/build"
	"github.com/gopherjs/gopherjs/compiler"
	"pgregory.net/rapid"

	"verif/internal/corpus"
	"verif/internal/drv"
	"verif/internal/gengen"
	"verif/internal/progen"
)

var ev *drv.Evidence

func TestMain(m *testing.M) { drv.TestMain(m, func() *drv.Evidence { return ev }) }

const rule = "rapid-generated multi-package generic programs (gengen: 3-5 packages, generic code instantiating other packages' generics with several argument lists, anonymous types, closures), progen bundles and the hand-written corpus; every program is built repeatedly: N fresh in-process sessions (Go randomises every map iteration, so each build sees different map orders), plain / minified / with source map, fresh compiler processes through the command line tool, the main package's files listed on the command line in rapid-drawn permutations, and after an unrelated program in the same session; oracle: sha256 of the JavaScript (and of the source map) is identical within each (program, options) class. Non-trivial program: >=3 packages with generic code that instantiates another package's generics with >=2 distinct argument lists; distinct by source text."

func sha(b []byte) string { h := sha256.Sum256(b); return hex.EncodeToString(h[:8]) }

type prog struct {
	name  string
	files map[string]string
	nt    bool
}

func TestCheck(t *testing.T) {
	ev = drv.NewEvidence("C17", "exploration", rule)
	ev.Assume("a single ordering race that shows with probability p per build is missed with probability (1-p)^n; n is reported as builds_per_class")
	nGen, nRepeat, nCLI := 10, 12, 3
	if drv.Thorough() {
		nGen, nRepeat, nCLI = 60, 24, 6
	}
	ev.Set("builds_per_class", nRepeat)
	var progs []prog
	for i := 0; i < nGen; i++ {
		p := rapid.Custom(gengen.Gen).Example(drv.Seed()*5003 + i)
		progs = append(progs, prog{fmt.Sprintf("gengen%d", i), p.Files, p.Packages >= 3 && p.Instantiation >= 2})
	}
	for _, p := range corpus.All() {
		progs = append(progs, prog{"corpus/" + p.Name, p.Files, len(p.Files) >= 3})
	}
	f := progen.Features{Generics: true, DeadCode: true, Hostile: true, ManyNames: true}
	for i := 0; i < 2; i++ {
		scs := rapid.Custom(func(rt *rapid.T) []progen.Scenario {
			var out []progen.Scenario
			for j := 0; j < 8; j++ {
				out = append(out, progen.Gen(rt, fmt.Sprintf("S%d_", j), f))
			}
			return out
		}).Example(drv.Seed()*6007 + i)
		var good []progen.Scenario
		for _, s := range scs {
			files := progen.Bundle([]progen.Scenario{s}, f)
			for k, v := range drv.RtFiles() {
				files[k] = v
			}
			if progen.TypeCheck(files) == nil {
				good = append(good, s)
			}
		}
		progs = append(progs, prog{fmt.Sprintf("progen%d", i), progen.Bundle(good, f), false})
	}
	// a main package whose files each hold independent initialised variables and methods of one
	// type: whatever order the files are listed in, the output is the same
	fileOrder := prog{"fileorder", map[string]string{
		"main.go": "package main\n\ntype T struct{ n int }\n\nvar m = reg(\"m\")\n\nvar order string\n\nfunc reg(s string) int {\n\torder += s\n\treturn len(order)\n}\n\nfunc (t T) Main() int { return t.n }\n\nfunc main() {\n\tvar i interface{} = T{a + b + m}\n\t_, ok := i.(interface {\n\t\tA() int\n\t\tB() int\n\t\tMain() int\n\t})\n\tout(order + btoa(ok))\n}\n",
		"a.go":    "package main\n\nvar a = reg(\"a\")\n\nfunc (t T) A() int { return t.n + 1 }\n\nfunc init() { order += \"(init a)\" }\n",
		"b.go":    "package main\n\nvar b = reg(\"b\")\n\nfunc (t T) B() int { return t.n + 2 }\n\nfunc init() { order += \"(init b)\" }\n",
	}, true}
	progs = append(progs, fileOrder)
	cliBuilds(fileOrder, 6)
	drv.Parallel(len(progs), func(i int) { repeatBuilds(progs[i], nRepeat) })
	// command line: fresh processes and file-list permutations (fewer, they are slow)
	for i, p := range progs {
		if i%4 == 0 {
			cliBuilds(p, nCLI)
		}
	}
	sessionHistory(progs)
}

func repeatBuilds(p prog, n int) {
	c := drv.NewCase("c17_", p.files, true)
	defer c.Remove()
	ev.Case("prog:"+p.name+fmt.Sprint(p.files), p.nt)
	for _, o := range []drv.BuildOpts{{}, {Minify: true}, {SourceMap: true}} {
		hashes := map[string]int{}
		var first, other []byte
		for k := 0; k < n; k++ {
			b, err := drv.Compile(c.Dir, o)
			if err != nil {
				if !drv.IsCompilerInternalError(err) {
					drv.Infra("%s does not compile (generator bug): %v", p.name, err)
				}
				ev.Violation(p.name+": build failed: "+err.Error(), c.ReproFiles())
				return
			}
			h := sha(b.JS) + "/" + sha(b.Map)
			if len(hashes) == 0 {
				first = b.JS
			} else if hashes[h] == 0 && other == nil {
				other = b.JS
			}
			hashes[h]++
			ev.Count("builds", 1)
		}
		if len(hashes) == 1 && !o.Minify && !o.SourceMap && strings.HasSuffix(p.name, "0") {
			for h := range hashes {
				ev.Sample(map[string]any{"program": p.name, "files": drv.SortedKeys(p.files), "builds": n, "sha256_prefix_js/map": h})
			}
		}
		if len(hashes) > 1 {
			if f := findingFor(p, "repeat"); f != nil {
				ev.Known(f)
				continue
			}
			files := c.ReproFiles()
			files["first_difference.txt"] = firstDiff(first, other)
			ev.Violation(fmt.Sprintf("%s (minify=%v sourcemap=%v): %d builds of identical sources gave %d different outputs %v; %s", p.name, o.Minify, o.SourceMap, n, len(hashes), hashes, files["first_difference.txt"]), files)
		}
	}
}

func firstDiff(a, b []byte) string {
	la, lb := bytes.Split(a, []byte("\n")), bytes.Split(b, []byte("\n"))
	for i := 0; i < len(la) && i < len(lb); i++ {
		if !bytes.Equal(la[i], lb[i]) {
			x, y := string(la[i]), string(lb[i])
			if len(x) > 300 {
				x = x[:300]
			}
			if len(y) > 300 {
				y = y[:300]
			}
			return fmt.Sprintf("first differing line %d:\n  %s\n  %s", i+1, x, y)
		}
	}
	return fmt.Sprintf("lengths %d vs %d", len(a), len(b))
}

func findingFor(p prog, kind string) *drv.Finding { return drv.MatchRow("C17", kind+":"+p.name) }

// cliBuilds builds through the command line tool in fresh processes, with the directory form and with
// the main package's files listed in permuted order.
func cliBuilds(p prog, n int) {
	id := drv.NewID("c17c_")
	dir := filepath.Join(drv.Scratch(), id)
	files := map[string]string{"go.mod": "module " + id + "\n\ngo 1.20\n"}
	all := map[string]string{}
	for k, v := range drv.RtFiles() {
		all[k] = v
	}
	for k, v := range p.files {
		all[k] = v
	}
	var mainFiles []string
	for k, v := range all {
		files[k] = strings.ReplaceAll(v, "ROOT/", id+"/")
		if !strings.Contains(k, "/") && strings.HasSuffix(k, ".go") && k != "glue_native.go" {
			mainFiles = append(mainFiles, k)
		}
	}
	sort.Strings(mainFiles)
	drv.WriteTree(dir, files)
	defer os.RemoveAll(dir)
	env := drv.NativeEnv("GOPHERJS_SKIP_VERSION_CHECK=true")
	build := func(out string, args ...string) []byte {
		a := append([]string{"build", "-o", out}, args...)
		_, se, code, to := drv.RunCmd(10*60*1e9, env, dir, drv.CLI(), a...)
		if to || code != 0 {
			ev.Violation(fmt.Sprintf("%s: gopherjs %v failed: %s", p.name, a, se), files)
			return nil
		}
		b, _ := os.ReadFile(filepath.Join(dir, out))
		m, _ := os.ReadFile(filepath.Join(dir, out+".map"))
		return append(b, m...)
	}
	hashes := map[string]int{}
	for k := 0; k < n; k++ {
		if b := build("dir.js", "."); b != nil {
			hashes[sha(b)]++
		}
		ev.Count("cli_builds", 1)
	}
	if len(hashes) > 1 {
		ev.Violation(fmt.Sprintf("%s: %d fresh compiler processes gave %d different outputs %v", p.name, n, len(hashes), hashes), files)
	}
	// file list permutations
	perms := rapid.SliceOfN(rapid.Permutation(mainFiles), n, n).Example(drv.Seed() + len(p.name))
	hashes = map[string]int{}
	var orders []string
	for _, perm := range perms {
		if b := build("files.js", perm...); b != nil {
			hashes[sha(b)]++
			orders = append(orders, strings.Join(perm, " "))
		}
		ev.Count("cli_filelist_builds", 1)
	}
	if len(hashes) > 1 {
		files["orders.txt"] = strings.Join(orders, "\n")
		ev.Violation(fmt.Sprintf("%s: listing the same files in different orders gave %d different outputs %v", p.name, len(hashes), hashes), files)
	}
}

// sessionHistory builds a second main package after a first one in the same session; both import
// the same library package and instantiate its generics with different type arguments. The output
// for the second program must equal the one of a fresh session (and must run).
const secondMain = `package main

import "ROOT/base"

type onlyHere struct{ q [3]bool }

func main() {
	println(base.Name[[3]bool]() + base.Name[onlyHere]() + base.MakeBox(uint16(7)).Kind() + base.Deep(int64(1)) + base.Describe(base.Local(onlyHere{})))
	l := &base.List[onlyHere]{}
	println(l.Len(), base.Add(int8(100), int8(100)), len(base.Map([]onlyHere{{}}, func(o onlyHere) base.Pair[string, onlyHere] { return base.Pair[string, onlyHere]{"k", o} })))
}
`

func sessionHistory(progs []prog) {
	n := 0
	for _, a := range progs {
		if !strings.HasPrefix(a.name, "gengen") || n >= 6 {
			continue
		}
		files := map[string]string{"cmd/b/main.go": secondMain}
		for k, v := range a.files {
			files[k] = v
		}
		c := drv.NewCase("c17h_", files, true)
		dirB := filepath.Join(c.Dir, "cmd", "b")
		fresh, err := drv.Compile(dirB, drv.BuildOpts{})
		if err != nil {
			drv.Infra("second main does not compile: %v", err)
		}
		js, err := buildTwo(c.Dir, dirB)
		n++
		ev.Count("session_history_pairs", 1)
		ev.Case("history:"+a.name, true)
		bad := ""
		if err != nil {
			bad = "fails: " + err.Error()
		} else if !bytes.Equal(js, fresh.JS) {
			bad = "differs from a fresh build; " + firstDiff(fresh.JS, js)
			os.WriteFile(filepath.Join(c.Dir, "second.js"), js, 0o644)
			o := drv.RunNode(filepath.Join(c.Dir, "second.js"), nil, drv.NodeOpts{})
			bad += fmt.Sprintf("; the second program then ends %s %q", o.End, o.Msg)
		}
		if bad != "" {
			if f := drv.MatchRow("C17", "history"); f != nil {
				ev.Known(f)
			} else {
				ev.Violation(fmt.Sprintf("history:%s: building a second main package after the first one in the same session %s", a.name, bad), c.ReproFiles())
			}
		}
		c.Remove()
	}
}

func buildTwo(dirA, dirB string) (js []byte, err error) {
	defer func() {
		if r := recover(); r != nil {
			err = fmt.Errorf("compiler panic: %v", r)
		}
	}()
	s, err := gbuild.NewSession(&gbuild.Options{NoCache: true, Quiet: true})
	if err != nil {
		return nil, err
	}
	pa, err := s.XContext().Import(".", dirA, 0)
	if err != nil {
		return nil, err
	}
	if _, err := s.BuildProject(pa); err != nil {
		return nil, fmt.Errorf("first program: %v", err)
	}
	pb, err := s.XContext().Import(".", dirB, 0)
	if err != nil {
		return nil, err
	}
	ar, err := s.BuildProject(pb)
	if err != nil {
		return nil, err
	}
	deps, err := compiler.ImportDependencies(ar, s.ImportResolverFor(""))
	if err != nil {
		return nil, err
	}
	var buf bytes.Buffer
	if err := compiler.WriteProgramCode(deps, compiler.DefaultFilter(&buf), s.GoRelease()); err != nil {
		return nil, err
	}
	return buf.Bytes(), nil
}
