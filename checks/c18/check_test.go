package c18

import (
	"fmt"
	"go/build"
	"go/build/constraint"
	"os"
	"os/exec"
	"path/filepath"
	"sort"
	"strings"
	"testing"

	gbuild "github.com/gopherjs/gopherjs/build"
	"pgregory.net/rapid"

	"verif/internal/drv"
)

var ev *drv.Evidence

func TestMain(m *testing.M) { drv.TestMain(m, func() *drv.Evidence { return ev }) }

const rule = "rapid-generated package directories (3-10 files) with random //go:build expressions (depth<=4 over the documented tag vocabulary), legacy // +build lines, file-name suffixes, cgo files and .inc.js files, combined with random -tags sets; the selected GoFiles/JSFiles of the GopherJS build context are compared with an independent evaluator (go/build/constraint parser + tag predicate and file-name rule written from the documentation); a subset is compiled and run so that every selected file registers itself. Standard-library packages of the GOROOT are checked with the same evaluator under GOOS=js GOARCH=wasm. Non-trivial directory: >=1 included and >=1 excluded file whose expression has >=2 operators and a negation. Distinct by content hash."

var alwaysOn = map[string]bool{"js": true, "ecmascript": true, "gc": true, "gopherjs": true, "netgo": true, "purego": true, "math_big_pure_go": true}

var vocabulary = []string{"js", "ecmascript", "wasm", "linux", "darwin", "windows", "amd64", "arm64", "386", "gc", "gccgo", "cgo", "unix", "gopherjs", "netgo", "purego", "math_big_pure_go",
	"go1.1", "go1.12", "go1.18", "go1.19", "go1.20", "go1.21", "go1.22", "go1.23", "ignore", "t1", "t2", "t3", "t4", "android", "ios", "race", "msan", "appengine", "goexperiment.arenas", "boringcrypto", "osusergo", "nethttpomithttp2"}

var userTagPool = []string{"t1", "t2", "t3", "t4", "wasm", "linux", "cgo", "go1.21", "ignore", "unix"}

// tagTrue is the documented tag predicate for user packages.
func tagTrue(tag string, user map[string]bool, std bool) bool {
	if user[tag] {
		return true
	}
	if std {
		switch tag {
		case "js", "wasm", "gc", "gopherjs", "netgo", "purego", "math_big_pure_go":
			return true
		}
	} else if alwaysOn[tag] {
		return true
	}
	if strings.HasPrefix(tag, "go1.") {
		var n int
		if _, err := fmt.Sscanf(tag, "go1.%d", &n); err == nil && fmt.Sprintf("go1.%d", n) == tag {
			return n >= 1 && n <= 20
		}
	}
	return false
}

var knownOS = map[string]bool{"aix": true, "android": true, "darwin": true, "dragonfly": true, "freebsd": true, "hurd": true, "illumos": true, "ios": true, "js": true, "linux": true, "nacl": true, "netbsd": true, "openbsd": true, "plan9": true, "solaris": true, "wasip1": true, "windows": true, "zos": true}
var knownArch = map[string]bool{"386": true, "amd64": true, "amd64p32": true, "arm": true, "armbe": true, "arm64": true, "arm64be": true, "loong64": true, "mips": true, "mipsle": true, "mips64": true, "mips64le": true, "mips64p32": true, "mips64p32le": true, "ppc": true, "ppc64": true, "ppc64le": true, "riscv": true, "riscv64": true, "s390": true, "s390x": true, "sparc": true, "sparc64": true, "wasm": true}

// suffixOK transcribes the go/build file name rule.
func suffixOK(name string, user map[string]bool, std bool) bool {
	name = strings.TrimSuffix(name, ".go")
	name = strings.TrimSuffix(name, "_test")
	i := strings.Index(name, "_")
	if i < 0 {
		return true
	}
	name = name[i:] // ignore everything before first _
	l := strings.Split(name, "_")
	n := len(l)
	match := func(tag string) bool { return tagTrue(tag, user, std) }
	if n >= 2 && knownOS[l[n-2]] && knownArch[l[n-1]] {
		return match(l[n-2]) && match(l[n-1])
	}
	if n >= 1 && (knownOS[l[n-1]] || knownArch[l[n-1]]) {
		return match(l[n-1])
	}
	return true
}

type gofile struct {
	Name   string
	Expr   string // //go:build expression ("" = none)
	Legacy string // // +build line content ("" = none); only used when Expr == ""
	Cgo    bool
	Pkg    string
}

func (f gofile) source(id string) string {
	var sb strings.Builder
	if f.Expr != "" {
		sb.WriteString("//go:build " + f.Expr + "\n\n")
	} else if f.Legacy != "" {
		sb.WriteString("// +build " + f.Legacy + "\n\n")
	}
	sb.WriteString("package " + f.Pkg + "\n\n")
	if f.Cgo {
		sb.WriteString("import \"C\"\n\n")
	}
	if !strings.HasSuffix(f.Name, "_test.go") {
		fmt.Fprintf(&sb, "func init() { register(%q) }\n", f.Name)
	}
	return sb.String()
}

func genExpr(rt *rapid.T, depth int) (string, int, bool) {
	if depth <= 0 || rapid.IntRange(0, 3).Draw(rt, "leaf") == 0 {
		return rapid.SampledFrom(vocabulary).Draw(rt, "tag"), 0, false
	}
	switch rapid.IntRange(0, 2).Draw(rt, "op") {
	case 0:
		e, n, _ := genExpr(rt, depth-1)
		if strings.ContainsAny(e, "&|") || strings.HasPrefix(e, "!") {
			e = "(" + e + ")"
		}
		return "!" + e, n + 1, true
	case 1:
		a, n1, g1 := genExpr(rt, depth-1)
		b, n2, g2 := genExpr(rt, depth-1)
		if strings.Contains(a, "||") {
			a = "(" + a + ")"
		}
		if strings.Contains(b, "||") {
			b = "(" + b + ")"
		}
		return a + " && " + b, n1 + n2 + 1, g1 || g2
	default:
		a, n1, g1 := genExpr(rt, depth-1)
		b, n2, g2 := genExpr(rt, depth-1)
		return a + " || " + b, n1 + n2 + 1, g1 || g2
	}
}

func genLegacy(rt *rapid.T) string {
	// space = OR, comma = AND, ! = NOT
	var opts []string
	for i := 0; i < rapid.IntRange(1, 3).Draw(rt, "nor"); i++ {
		var terms []string
		for j := 0; j < rapid.IntRange(1, 3).Draw(rt, "nand"); j++ {
			t := rapid.SampledFrom(vocabulary).Draw(rt, "tag")
			if rapid.IntRange(0, 3).Draw(rt, "neg") == 0 {
				t = "!" + t
			}
			terms = append(terms, t)
		}
		opts = append(opts, strings.Join(terms, ","))
	}
	return strings.Join(opts, " ")
}

type dirCase struct {
	Files   []gofile
	JSFiles []string
	Tags    []string
}

var suffixes = []string{"", "", "", "_js", "_wasm", "_js_wasm", "_linux", "_amd64", "_ecmascript", "_js_ecmascript", "_linux_amd64", "_windows", "_unix", "_js_test", "_test", "_gopherjs", "_darwin_arm64", "_x_js", "_js_x"}

func genDir(rt *rapid.T) dirCase { return genDirTags(rt, userTagPool) }

func genDirTags(rt *rapid.T, tagPool []string) dirCase {
	var d dirCase
	n := rapid.IntRange(3, 10).Draw(rt, "nfiles")
	seen := map[string]bool{}
	for i := 0; i < n; i++ {
		base := rapid.SampledFrom([]string{"a", "b", "file", "js", "linux", "x1", "impl", "wasm", "zz"}).Draw(rt, "base")
		name := base + rapid.SampledFrom(suffixes).Draw(rt, "suffix") + ".go"
		if seen[name] {
			name = fmt.Sprintf("f%d_%s", i, name)
			// keep the prefix free of os/arch words: everything before the first _ is ignored anyway
		}
		seen[name] = true
		f := gofile{Name: name, Pkg: "main"}
		switch rapid.IntRange(0, 5).Draw(rt, "constraint") {
		case 0:
		case 1:
			f.Legacy = genLegacy(rt)
		default:
			f.Expr, _, _ = genExpr(rt, rapid.IntRange(1, 4).Draw(rt, "depth"))
		}
		f.Cgo = rapid.IntRange(0, 9).Draw(rt, "cgo") == 0 && !strings.HasSuffix(name, "_test.go")
		d.Files = append(d.Files, f)
	}
	for i := 0; i < rapid.IntRange(0, 3).Draw(rt, "njs"); i++ {
		nm := rapid.SampledFrom([]string{"lib.inc.js", "_hidden.inc.js", ".dot.inc.js", "other_linux.inc.js", "z.inc.js", "plain.js", "x_wasm.inc.js", "lib.v2.inc.js", "vendor-1.2.min.inc.js", "a.b.c.inc.js", "inc.js.txt", "notinc.jsx"}).Draw(rt, "js")
		dup := false
		for _, e := range d.JSFiles {
			if e == nm {
				dup = true
			}
		}
		if !dup {
			d.JSFiles = append(d.JSFiles, nm)
		}
	}
	nt := rapid.IntRange(0, 3).Draw(rt, "ntags")
	for i := 0; i < nt; i++ {
		d.Tags = append(d.Tags, rapid.SampledFrom(tagPool).Draw(rt, "utag"))
	}
	return d
}

func evalLegacy(line string, user map[string]bool) bool {
	for _, opt := range strings.Fields(line) {
		ok := true
		for _, t := range strings.Split(opt, ",") {
			neg := strings.HasPrefix(t, "!")
			v := tagTrue(strings.TrimPrefix(t, "!"), user, false)
			if neg {
				v = !v
			}
			ok = ok && v
		}
		if ok {
			return true
		}
	}
	return false
}

// expected evaluates the documented selection rules.
func (d dirCase) expected() (goFiles, jsFiles []string, interesting bool) {
	user := map[string]bool{}
	for _, t := range d.Tags {
		user[t] = true
	}
	inc, exc := false, false
	for _, f := range d.Files {
		ok := suffixOK(f.Name, user, false)
		complexNeg := false
		if f.Expr != "" {
			x, err := constraint.Parse("//go:build " + f.Expr)
			if err != nil {
				panic(err)
			}
			ok = ok && x.Eval(func(tag string) bool { return tagTrue(tag, user, false) })
			complexNeg = strings.Count(f.Expr, "&&")+strings.Count(f.Expr, "||")+strings.Count(f.Expr, "!") >= 2 && strings.Contains(f.Expr, "!")
		} else if f.Legacy != "" {
			ok = ok && evalLegacy(f.Legacy, user)
		}
		if f.Cgo {
			ok = false
		}
		if strings.HasSuffix(f.Name, "_test.go") {
			continue // test files are never part of GoFiles
		}
		if ok {
			goFiles = append(goFiles, f.Name)
			if complexNeg {
				inc = true
			}
		} else if complexNeg {
			exc = true
		}
	}
	for _, j := range d.JSFiles {
		if strings.HasSuffix(j, ".inc.js") && j[0] != '_' && j[0] != '.' {
			jsFiles = append(jsFiles, j)
		}
	}
	sort.Strings(goFiles)
	sort.Strings(jsFiles)
	return goFiles, jsFiles, inc && exc
}

func (d dirCase) files() map[string]string {
	m := map[string]string{}
	for _, f := range d.Files {
		m[f.Name] = f.source("")
	}
	for _, j := range d.JSFiles {
		m[j] = "$global.incjsLoaded = ($global.incjsLoaded || \"\") + \" " + j + "\";\n"
	}
	m["tags.txt"] = strings.Join(d.Tags, ",") + "\n"
	return m
}

func checkDir(rt *rapid.T) *drv.Fail {
	d := genDir(rt)
	files := d.files()
	wantGo, wantJS, interesting := d.expected()
	id := drv.NewID("c18_")
	dir := filepath.Join(drv.GopathSrc(), id)
	drv.WriteTree(dir, files)
	defer os.RemoveAll(dir)
	key := drv.Hash(fmt.Sprint(files))
	if ev.Case("dir:"+key, interesting) {
		ev.Count("dirs", 1)
		if interesting {
			ev.Count("dirs_nontrivial", 1)
			ev.Sample(map[string]any{"files": d.Files, "js": d.JSFiles, "tags": d.Tags, "selected": wantGo})
		}
		if len(d.Tags) > 0 {
			ev.Count("dirs_with_user_tags", 1)
		}
	}
	xctx := gbuild.NewBuildContext("", d.Tags)
	pkg, err := xctx.Import(".", dir, 0)
	var gotGo, gotJS []string
	if err != nil {
		if _, ok := err.(*build.NoGoError); !ok {
			return drv.Failf(files, "Import failed: %v", err)
		}
		if pkg != nil {
			gotGo = append(gotGo, pkg.GoFiles...)
		}
	} else {
		gotGo = append(gotGo, pkg.GoFiles...)
		for _, j := range pkg.JSFiles {
			gotJS = append(gotJS, filepath.Base(j.Path))
		}
		if len(pkg.CgoFiles) > 0 {
			return drv.Failf(files, "cgo files selected: %v", pkg.CgoFiles)
		}
	}
	sort.Strings(gotGo)
	sort.Strings(gotJS)
	if strings.Join(gotGo, " ") != strings.Join(wantGo, " ") {
		return drv.Failf(files, "tags %v: selected Go files %v, documented rules give %v", d.Tags, gotGo, wantGo)
	}
	if err == nil && strings.Join(gotJS, " ") != strings.Join(wantJS, " ") {
		return drv.Failf(files, "tags %v: selected .inc.js files %v, expected %v", d.Tags, gotJS, wantJS)
	}
	return nil
}

// run-time path: compile and run; every selected file registers itself.
func checkRun(rt *rapid.T) *drv.Fail {
	// only tags that do not also select foreign files of the standard library
	d := genDirTags(rt, []string{"t1", "t2", "t3", "t4"})
	// make sure a main function exists in an always selected file
	d.Files = append(d.Files, gofile{Name: "zmain.go", Pkg: "main"})
	files := d.files()
	files["zmain.go"] = `package main

import "github.com/gopherjs/gopherjs/js"

var registered []string

func register(n string) { registered = append(registered, n) }

func main() {
	for i := 0; i < len(registered); i++ {
		for j := i + 1; j < len(registered); j++ {
			if registered[j] < registered[i] {
				registered[i], registered[j] = registered[j], registered[i]
			}
		}
	}
	for _, r := range registered {
		println("go " + r)
	}
	if v := js.Global.Get("incjsLoaded"); v != js.Undefined {
		println("js" + v.String())
	}
}
`
	wantGo, wantJS, interesting := d.expected()
	c := drv.NewCase("c18r_", files, false)
	defer c.Remove()
	ev.Case("run:"+drv.Hash(fmt.Sprint(files)), interesting)
	ev.Count("run_cases", 1)
	jsPath, _, err := c.BuildJS(drv.BuildOpts{Tags: d.Tags}, "out")
	if err != nil {
		return drv.Failf(files, "tags %v: build failed: %v", d.Tags, err)
	}
	o := drv.RunNode(jsPath, nil, drv.NodeOpts{})
	if o.End != "exit0" {
		return drv.Failf(files, "run ended %s %s\n%s", o.End, o.Msg, o.Stderr)
	}
	var want []string
	for _, g := range wantGo {
		if g != "zmain.go" {
			want = append(want, "go "+g)
		}
	}
	// .inc.js files are loaded in directory order
	if len(wantJS) > 0 {
		want = append(want, "js "+strings.Join(wantJS, " "))
	}
	if strings.Join(o.Trace, "\n") != strings.Join(want, "\n") {
		return drv.Failf(files, "tags %v: files taking part in the build:\n%s\nexpected:\n%s", d.Tags, strings.Join(o.Trace, "\n"), strings.Join(want, "\n"))
	}
	return nil
}

// command-line path: a main package importing a second user package, both with constrained files,
// built with the gopherjs CLI and --tags; every selected file of both packages registers itself.
func checkCLI(rt *rapid.T) *drv.Fail {
	tagPool := []string{"t1", "t2", "t3", "t4"}
	dm := genDirTags(rt, tagPool)
	dd := genDirTags(rt, tagPool)
	dd.Tags = dm.Tags
	dd.JSFiles, dm.JSFiles = nil, nil
	id := drv.NewID("c18c_")
	files := map[string]string{"go.mod": "module " + id + "\n\ngo 1.20\n"}
	for _, f := range dm.Files {
		f.Pkg = "main"
		if strings.HasSuffix(f.Name, "_test.go") {
			continue
		}
		files[f.Name] = strings.Replace(f.source(""), "register(", "reg.Register(\"main/\" + ", 1)
		if !f.Cgo {
			files[f.Name] = strings.Replace(files[f.Name], "package main\n", "package main\n\nimport \""+id+"/reg\"\n", 1)
		} else {
			files[f.Name] = strings.Replace(files[f.Name], "import \"C\"", "import \"C\"\nimport \""+id+"/reg\"", 1)
		}
	}
	for _, f := range dd.Files {
		f.Pkg = "dep"
		if strings.HasSuffix(f.Name, "_test.go") {
			continue
		}
		src := strings.Replace(f.source(""), "register(", "reg.Register(\"dep/\" + ", 1)
		if !f.Cgo {
			src = strings.Replace(src, "package dep\n", "package dep\n\nimport \""+id+"/reg\"\n", 1)
		} else {
			src = strings.Replace(src, "import \"C\"", "import \"C\"\nimport \""+id+"/reg\"", 1)
		}
		files["dep/"+f.Name] = src
	}
	files["dep/zdep.go"] = "package dep\n\nfunc Touch() {}\n"
	files["reg/reg.go"] = "package reg\n\nvar Names []string\n\nfunc Register(n string) { Names = append(Names, n) }\n"
	files["zmain.go"] = "package main\n\nimport (\n\t\"" + id + "/dep\"\n\t\"" + id + "/reg\"\n)\n\nfunc main() {\n\tdep.Touch()\n\tn := reg.Names\n\tfor i := 0; i < len(n); i++ {\n\t\tfor j := i + 1; j < len(n); j++ {\n\t\t\tif n[j] < n[i] {\n\t\t\t\tn[i], n[j] = n[j], n[i]\n\t\t\t}\n\t\t}\n\t}\n\tfor _, x := range n {\n\t\tprintln(x)\n\t}\n}\n"
	dir := filepath.Join(drv.Scratch(), id)
	drv.WriteTree(dir, files)
	defer os.RemoveAll(dir)
	wm, _, i1 := dm.expected()
	wd, _, i2 := dd.expected()
	var want []string
	for _, g := range wd {
		want = append(want, "dep/"+g)
	}
	for _, g := range wm {
		want = append(want, "main/"+g)
	}
	sort.Strings(want)
	ev.Case("cli:"+drv.Hash(fmt.Sprint(files)), i1 || i2)
	ev.Count("cli_cases", 1)
	args := []string{"build", "-o", "out.js"}
	if len(dm.Tags) > 0 {
		args = append(args, "--tags", strings.Join(dm.Tags, " "))
	}
	args = append(args, ".")
	_, se, code, to := drv.RunCmd(5*60*1e9, drv.NativeEnv("GOPHERJS_SKIP_VERSION_CHECK=true"), dir, drv.CLI(), args...)
	if to {
		drv.Infra("gopherjs CLI timed out")
	}
	if code != 0 {
		return drv.Failf(files, "gopherjs %v failed: %s", args, se)
	}
	o := drv.RunNode(filepath.Join(dir, "out.js"), nil, drv.NodeOpts{})
	if o.End != "exit0" {
		return drv.Failf(files, "program built by the CLI ended %s %s\n%s", o.End, o.Msg, o.Stderr)
	}
	if strings.Join(o.Trace, "\n") != strings.Join(want, "\n") {
		return drv.Failf(files, "gopherjs build --tags %q: files taking part in the build:\n%s\nexpected:\n%s", strings.Join(dm.Tags, " "), strings.Join(o.Trace, "\n"), strings.Join(want, "\n"))
	}
	return nil
}

// ---------- standard library corpus ----------

func goroot() string {
	out, err := exec.Command("go", "env", "GOROOT").Output()
	if err != nil {
		drv.Infra("go env: %v", err)
	}
	return strings.TrimSpace(string(out))
}

func stdCorpus() {
	root := filepath.Join(goroot(), "src")
	if r, err := filepath.EvalSymlinks(root); err == nil {
		root = r
	}
	xctx := gbuild.NewBuildContext("", nil)
	user := map[string]bool{}
	var pkgs []string
	filepath.Walk(root, func(p string, info os.FileInfo, err error) error {
		if err != nil || !info.IsDir() {
			return nil
		}
		b := info.Name()
		if b == "testdata" || b == "vendor" || b == "cmd" || b == "internal" && false || strings.HasPrefix(b, "_") || strings.HasPrefix(b, ".") {
			return filepath.SkipDir
		}
		rel, _ := filepath.Rel(root, p)
		if rel != "." {
			pkgs = append(pkgs, filepath.ToSlash(rel))
		}
		return nil
	})
	checked := 0
	for _, ip := range pkgs {
		switch ip {
		case "runtime", "runtime/pprof", "sync", "syscall/js": // documented post-load tweaks
			continue
		}
		ents, _ := os.ReadDir(filepath.Join(root, ip))
		var want []string
		for _, e := range ents {
			n := e.Name()
			if e.IsDir() || !strings.HasSuffix(n, ".go") || strings.HasSuffix(n, "_test.go") || n[0] == '_' || n[0] == '.' {
				continue
			}
			data, _ := os.ReadFile(filepath.Join(root, ip, n))
			ok := suffixOK(n, user, true)
			expr, cgo, ignore := headerConstraint(string(data))
			if ignore {
				continue
			}
			if expr != nil {
				ok = ok && expr.Eval(func(tag string) bool { return tagTrue(tag, user, true) })
			}
			if cgo {
				ok = false
			}
			if ok {
				want = append(want, n)
			}
		}
		pkg, err := xctx.Import(ip, "", 0)
		var got []string
		if err != nil {
			if _, ok := err.(*build.NoGoError); !ok {
				ev.Count("std_import_errors", 1)
				if os.Getenv("VERIF_DEBUG") != "" {
					fmt.Println("std import", ip, err)
				}
				continue // not importable (e.g. directories without packages)
			}
		}
		if pkg != nil {
			got = append(got, pkg.GoFiles...)
		}
		sort.Strings(got)
		sort.Strings(want)
		checked++
		if strings.Join(got, " ") != strings.Join(want, " ") {
			ev.Violation(fmt.Sprintf("standard library package %s: selected %v, js/wasm rules give %v", ip, got, want), map[string]string{"package.txt": ip + "\n"})
			return
		}
	}
	ev.Set("stdlib_packages_checked_fixed_corpus", checked)
}

// headerConstraint extracts the //go:build expression of a file header.
func headerConstraint(src string) (expr constraint.Expr, cgo bool, ignore bool) {
	lines := strings.Split(src, "\n")
	var plus []string
	for _, l := range lines {
		t := strings.TrimSpace(l)
		if strings.HasPrefix(t, "package ") {
			break
		}
		if constraint.IsGoBuild(t) {
			x, err := constraint.Parse(t)
			if err == nil {
				expr = x
			}
		} else if constraint.IsPlusBuild(t) {
			plus = append(plus, t)
		}
	}
	if expr == nil && len(plus) > 0 {
		for _, p := range plus {
			x, err := constraint.Parse(p)
			if err != nil {
				continue
			}
			if expr == nil {
				expr = x
			} else {
				expr = &constraint.AndExpr{X: expr, Y: x}
			}
		}
	}
	for _, l := range lines {
		t := strings.TrimSpace(l)
		if t == `import "C"` {
			cgo = true
		}
		if strings.HasPrefix(t, "func ") {
			break
		}
	}
	return expr, cgo, false
}

func TestCheck(t *testing.T) {
	ev = drv.NewEvidence("C18", "exploration", rule)
	ev.Assume("go/build/constraint is used to parse expressions; the tag predicate and the file-name rule are independent transcriptions of the documentation")
	nDirs, nRun, nCLI := 6000, 40, 25
	if drv.Thorough() {
		nDirs, nRun, nCLI = 200000, 1500, 600
	}
	if rp := os.Getenv("VERIF_REPLAY"); rp != "" {
		fmt.Println("C18 replays are re-generated from the seed printed in DESCRIPTION.txt; run the quick tier")
	}
	drv.RapidCheck(t, ev, "select", nDirs, checkDir)
	drv.RapidCheck(t, ev, "run", nRun, checkRun)
	drv.RapidCheck(t, ev, "cli", nCLI, checkCLI)
	stdCorpus()
}
