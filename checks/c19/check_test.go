package c19

import (
	"bytes"
	"fmt"
	"go/token"
	"os"
	"regexp"
	"strconv"
	"strings"
	"testing"

	"github.com/gopherjs/gopherjs/compiler"
	"pgregory.net/rapid"

	"verif/internal/corpus"
	"verif/internal/drv"
	"verif/internal/smap"
)

var ev *drv.Evidence

func TestMain(m *testing.M) { drv.TestMain(m, func() *drv.Evidence { return ev }) }

const rule = "(a) rapid-generated streams of code chunks (ASCII, newlines, multi-byte UTF-8, empty) interleaved with position and identifier hints produced by the real encoder, written through the source-map filter under rapid-drawn chunkings that never split a hint, with mapping on and off, raw and after whitespace removal; oracle: reference scan (output = input minus hints; mapping i = line/column of hint i in that output; original line from the synthetic FileSet), chunking invariance, decoded map in range. Non-trivial stream: >=2 hints separated by a newline and a chunk boundary adjacent to a hint. (b) generated throw-site programs and the corpus, plain and minified: no hint byte in the output, output identical with and without mapping, every mapping in range of the generated file and of the named source file, Node stack frames resolved through the map hit the throwing statement's lines. Non-trivial program: >=1 user frame resolved. Cases are distinct by content hash."

// ---------- (a) streams ----------

type item struct {
	code  []byte // nil for hints
	hint  []byte
	pos   token.Pos
	name  string // original name for identifier hints
	ident string
}

type stream struct {
	items []item
	fset  *token.FileSet
	files []*token.File
}

func genStream(rt *rapid.T) *stream {
	s := &stream{fset: token.NewFileSet()}
	nf := rapid.IntRange(1, 3).Draw(rt, "nfiles")
	for i := 0; i < nf; i++ {
		size := rapid.IntRange(10, 400).Draw(rt, "size")
		name := fmt.Sprintf("/gopath/src/pkg%d/file%d.go", i, i)
		if i == 1 {
			name = "/goroot/src/fmt/print.go"
		}
		f := s.fset.AddFile(name, -1, size)
		// line table
		off := 0
		for {
			off += rapid.IntRange(1, 40).Draw(rt, "linelen")
			if off >= size {
				break
			}
			f.AddLine(off)
		}
		s.files = append(s.files, f)
	}
	n := rapid.IntRange(1, 14).Draw(rt, "nitems")
	alphabet := []string{"a", "b", "x", "$", "_", "0", "9", " ", "  ", "\t", "\n", "\n\n", ";", "{", "}", "(", ")", "=", "+", "-", ".", ",", "é", "世", "😀", "\"", "\\", "/", "*", "'", "`", "\r", "\x00", "\x7f", "var ", "function", "return "}
	for i := 0; i < n; i++ {
		switch rapid.IntRange(0, 4).Draw(rt, "kind") {
		case 0, 1:
			parts := rapid.SliceOfN(rapid.SampledFrom(alphabet), 0, 8).Draw(rt, "code")
			s.items = append(s.items, item{code: []byte(strings.Join(parts, ""))})
		case 2, 3:
			f := rapid.SampledFrom(s.files).Draw(rt, "file")
			pos := f.Pos(rapid.IntRange(0, f.Size()).Draw(rt, "off"))
			s.items = append(s.items, item{hint: compiler.VerifPosHint(pos), pos: pos})
		default:
			f := rapid.SampledFrom(s.files).Draw(rt, "file")
			pos := f.Pos(rapid.IntRange(0, f.Size()).Draw(rt, "off"))
			id := rapid.SampledFrom([]string{"a", "$x", "foo_1", "T$1"}).Draw(rt, "ident")
			orig := rapid.SampledFrom([]string{"a", "x", "Foo", "método", "", strings.Repeat("long", 70), strings.Repeat("n", 255), strings.Repeat("é", 130)}).Draw(rt, "orig")
			s.items = append(s.items, item{hint: compiler.VerifIdentHint(id, orig, pos), pos: pos, name: orig, ident: id})
		}
	}
	return s
}

func (s *stream) bytes() []byte {
	var b []byte
	for _, it := range s.items {
		if it.hint != nil {
			b = append(b, it.hint...)
		} else {
			b = append(b, it.code...)
		}
	}
	return b
}

type expMapping struct {
	line, col int // zero-based generated position (bytes)
	pos       token.Position
	name      string
}

// reference: clean output and expected mappings by a plain scan.
func (s *stream) reference() (clean []byte, maps []expMapping) {
	line, col := 0, 0
	for _, it := range s.items {
		if it.hint != nil {
			maps = append(maps, expMapping{line, col, s.fset.Position(it.pos), it.name})
			continue
		}
		clean = append(clean, it.code...)
		for _, c := range it.code {
			if c == '\n' {
				line++
				col = 0
			} else {
				col++
			}
		}
	}
	return
}

// cutPoints draws chunk boundaries that never fall inside a hint.
func (s *stream) chunks(rt *rapid.T) (chunks [][]byte, adjacent bool) {
	var legal []int // byte offsets where a cut is allowed
	var hintEdges = map[int]bool{}
	off := 0
	for _, it := range s.items {
		if it.hint != nil {
			hintEdges[off] = true
			off += len(it.hint)
			hintEdges[off] = true
			legal = append(legal, off)
		} else {
			for i := 1; i <= len(it.code); i++ {
				legal = append(legal, off+i)
			}
			off += len(it.code)
		}
	}
	all := s.bytes()
	cuts := map[int]bool{}
	if len(legal) > 0 {
		k := rapid.IntRange(0, 6).Draw(rt, "ncuts")
		for i := 0; i < k; i++ {
			c := rapid.SampledFrom(legal).Draw(rt, "cut")
			cuts[c] = true
			if hintEdges[c] {
				adjacent = true
			}
		}
		if rapid.Bool().Draw(rt, "cutAtEveryHint") {
			for e := range hintEdges {
				if e > 0 && e < len(all) {
					cuts[e] = true
					adjacent = true
				}
			}
		}
	}
	prev := 0
	for i := 1; i < len(all); i++ {
		if cuts[i] {
			chunks = append(chunks, all[prev:i])
			prev = i
		}
	}
	chunks = append(chunks, all[prev:])
	if rapid.Bool().Draw(rt, "emptyWrites") {
		chunks = append([][]byte{{}}, chunks...)
		chunks = append(chunks, []byte{})
	}
	return
}

func runFilter(fset *token.FileSet, chunks [][]byte, mapping bool) (out []byte, mp []byte, err error) {
	defer func() {
		if r := recover(); r != nil {
			err = fmt.Errorf("filter panicked: %v", r)
		}
	}()
	var buf bytes.Buffer
	f := compiler.VerifFilter(&buf, fset, mapping)
	for _, c := range chunks {
		n, werr := f.Write(c)
		if werr != nil {
			return nil, nil, werr
		}
		if n != len(c) {
			return nil, nil, fmt.Errorf("Write returned %d for a %d-byte chunk", n, len(c))
		}
	}
	if mapping {
		var mb bytes.Buffer
		if err := f.WriteMappingTo(&mb); err != nil {
			return nil, nil, err
		}
		mp = mb.Bytes()
	}
	return buf.Bytes(), mp, nil
}

func normalizeName(fn string) string {
	switch {
	case strings.HasPrefix(fn, "/gopath/src/"):
		return strings.TrimPrefix(fn, "/gopath/src/")
	case strings.HasPrefix(fn, "/goroot/src/"):
		return strings.TrimPrefix(fn, "/goroot/src/")
	}
	return fn
}

func streamFiles(s *stream, chunks [][]byte) map[string]string {
	var sb strings.Builder
	for i, c := range chunks {
		fmt.Fprintf(&sb, "chunk %d: %q\n", i, c)
	}
	var ib strings.Builder
	for _, it := range s.items {
		if it.hint != nil {
			fmt.Fprintf(&ib, "HINT pos=%v ident=%q orig=%q bytes=%q\n", s.fset.Position(it.pos), it.ident, it.name, it.hint)
		} else {
			fmt.Fprintf(&ib, "CODE %q\n", it.code)
		}
	}
	return map[string]string{"chunks.txt": sb.String(), "items.txt": ib.String()}
}

func checkStream(rt *rapid.T) *drv.Fail {
	s := genStream(rt)
	chunks, adjacent := s.chunks(rt)
	files := streamFiles(s, chunks)
	clean, exp := s.reference()
	nontrivial := false
	if len(exp) >= 2 && adjacent {
		for i := 1; i < len(exp); i++ {
			if exp[i].line != exp[i-1].line {
				nontrivial = true
			}
		}
	}
	if ev.Case("stream:"+drv.Hash(files["chunks.txt"]), nontrivial) {
		ev.Count("streams", 1)
		if nontrivial {
			ev.Count("streams_nontrivial", 1)
			ev.Sample(strings.Split(files["chunks.txt"], "\n"))
		}
		ev.Count("hints", int64(len(exp)))
	}
	// 1. mapping disabled: hints stripped, nothing else changed
	out0, _, err := runFilter(s.fset, chunks, false)
	if err != nil {
		return drv.Failf(files, "without mapping: %v", err)
	}
	if !bytes.Equal(out0, clean) {
		return drv.Failf(files, "without mapping: output %q, expected the code minus hints %q", out0, clean)
	}
	// 2. mapping enabled
	out1, mp, err := runFilter(s.fset, chunks, true)
	if err != nil {
		return drv.Failf(files, "with mapping: %v", err)
	}
	if !bytes.Equal(out1, clean) {
		return drv.Failf(files, "with mapping: output %q, expected %q", out1, clean)
	}
	if bytes.IndexByte(out1, '\b') >= 0 {
		return drv.Failf(files, "output contains a hint byte")
	}
	m, err := smap.Parse(mp)
	if err != nil {
		return drv.Failf(files, "emitted source map does not parse: %v\n%s", err, mp)
	}
	if f := compareMappings(m, exp, clean, s); f != "" {
		files["map.json"] = string(mp)
		return drv.Failf(files, "%s", f)
	}
	// 3. one single write gives the same result (chunking invariance)
	outS, mpS, err := runFilter(s.fset, [][]byte{s.bytes()}, true)
	if err != nil {
		return drv.Failf(files, "single write: %v", err)
	}
	if !bytes.Equal(outS, out1) || !bytes.Equal(mpS, mp) {
		return drv.Failf(files, "chunking changes the result: single write gives %q / %s, chunked %q / %s", outS, mpS, out1, mp)
	}
	return nil
}

func compareMappings(m *smap.Map, exp []expMapping, clean []byte, s *stream) string {
	// expected, in the order the map stores them (sorted by generated position, stable)
	lines := bytes.Split(clean, []byte("\n"))
	if len(m.Segs) != len(exp) {
		return fmt.Sprintf("%d mappings emitted for %d hints", len(m.Segs), len(exp))
	}
	// multiset comparison per generated position
	type key struct{ l, c int }
	want := map[key][]expMapping{}
	for _, e := range exp {
		want[key{e.line, e.col}] = append(want[key{e.line, e.col}], e)
	}
	for _, sg := range m.Segs {
		if sg.GenLine >= len(lines) || sg.GenCol > len(lines[sg.GenLine]) {
			return fmt.Sprintf("mapping at generated %d:%d is outside the generated text (%d lines)", sg.GenLine, sg.GenCol, len(lines))
		}
		k := key{sg.GenLine, sg.GenCol}
		cands := want[k]
		if len(cands) == 0 {
			return fmt.Sprintf("mapping at generated line %d column %d (zero-based) does not correspond to any hint position; expected positions: %v", sg.GenLine, sg.GenCol, expKeys(exp))
		}
		found := -1
		for i, e := range cands {
			if !e.pos.IsValid() {
				if !sg.HasSrc {
					found = i
					break
				}
				continue
			}
			if !sg.HasSrc || sg.Src >= len(m.Sources) {
				continue
			}
			if strings.TrimPrefix(m.Sources[sg.Src], "/") != normalizeName(e.pos.Filename) {
				continue
			}
			if sg.OrigLine != e.pos.Line-1 {
				continue
			}
			if sg.OrigCol != e.pos.Column && sg.OrigCol != e.pos.Column-1 {
				continue
			}
			if e.name != "" && (!sg.HasName || m.Names[sg.Name] != e.name) {
				continue
			}
			found = i
			break
		}
		if found < 0 {
			src := "<none>"
			if sg.HasSrc && sg.Src < len(m.Sources) {
				src = m.Sources[sg.Src]
			}
			return fmt.Sprintf("mapping at generated %d:%d points to %s:%d:%d, expected one of %v", sg.GenLine, sg.GenCol, src, sg.OrigLine+1, sg.OrigCol, cands)
		}
		want[k] = append(cands[:found], cands[found+1:]...)
		// the original line must exist in the named file
		if sg.HasSrc {
			for _, f := range s.files {
				if normalizeName(f.Name()) == strings.TrimPrefix(m.Sources[sg.Src], "/") && sg.OrigLine+1 > f.LineCount() {
					return fmt.Sprintf("mapping names line %d of %s which has %d lines", sg.OrigLine+1, f.Name(), f.LineCount())
				}
			}
		}
	}
	return ""
}

func expKeys(exp []expMapping) string {
	var s []string
	for _, e := range exp {
		s = append(s, fmt.Sprintf("%d:%d", e.line, e.col))
	}
	return strings.Join(s, " ")
}

// ---------- (a2) whitespace removal keeps hints ----------

type tok struct {
	text string
	kind byte // i ident/number, p punctuation, s string, c comment, w whitespace, h hint
}

func genTokens(rt *rapid.T, fset *token.FileSet, f *token.File) []tok {
	n := rapid.IntRange(1, 30).Draw(rt, "ntok")
	var toks []tok
	for i := 0; i < n; i++ {
		switch rapid.IntRange(0, 9).Draw(rt, "tk") {
		case 0, 1:
			toks = append(toks, tok{rapid.SampledFrom([]string{"a", "b1", "$x", "_y", "var", "return", "function", "in", "new", "0", "12", "x$"}).Draw(rt, "id"), 'i'})
		case 2, 3:
			p := rapid.SampledFrom([]string{"+", "-", "=", "(", ")", "{", "}", ";", ",", ".", "<", ">", "!", "&&", "||", "?", ":", "===", "[", "]", "/", "*", "--", "-"}).Draw(rt, "p")
			// never build a comment opener out of separate tokens ("a / *b" is not JavaScript);
			// whitespace and hints in between do not separate them after minification
			for k := len(toks) - 1; k >= 0; k-- {
				if toks[k].kind == 'w' || toks[k].kind == 'h' || toks[k].kind == 'c' {
					continue
				}
				if strings.HasSuffix(toks[k].text, "/") && (p == "*" || p == "/") {
					p = ";"
				}
				break
			}
			toks = append(toks, tok{p, 'p'})
		case 4:
			parts := rapid.SliceOfN(rapid.SampledFrom([]string{"a", " ", "  ", "\\\"", "\\\\", "//", "/*", "*/", "\\n", "-", "- -", "'", "x", "\\u0008", "\t"}), 0, 6).Draw(rt, "str")
			toks = append(toks, tok{"\"" + strings.Join(parts, "") + "\"", 's'})
		case 5:
			parts := rapid.SliceOfN(rapid.SampledFrom([]string{"a", " ", "\n", "\"", "*", "/ ", "//", "x"}), 0, 5).Draw(rt, "cmt")
			c := strings.Join(parts, "")
			c = strings.ReplaceAll(c, "*/", "* /")
			if len(toks) > 0 && strings.HasSuffix(toks[len(toks)-1].text, "/") {
				toks = append(toks, tok{" ", 'w'})
			}
			toks = append(toks, tok{"/*" + c + "*/", 'c'})
		case 6, 7:
			toks = append(toks, tok{rapid.SampledFrom([]string{" ", "  ", "\n", "\t", "\n\t", " \n "}).Draw(rt, "ws"), 'w'})
		default:
			pos := f.Pos(rapid.IntRange(0, f.Size()).Draw(rt, "off"))
			if rapid.Bool().Draw(rt, "identhint") {
				toks = append(toks, tok{string(compiler.VerifIdentHint("v", rapid.SampledFrom([]string{"orig", strings.Repeat("orig", 80)}).Draw(rt, "hintname"), pos)) + "v", 'h'})
			} else {
				toks = append(toks, tok{string(compiler.VerifPosHint(pos)), 'h'})
			}
		}
	}
	toks = append(toks, tok{";", 'p'}, tok{"\n", 'w'}, tok{"}", 'p'})
	// a '/' punctuation directly followed by a comment or '*' would read as something else
	return toks
}

var hintRe = regexp.MustCompile(`(?s)\x08..`)

// extractHints returns the hints of a byte stream in order and the stream without them.
func extractHints(b []byte) (hints [][]byte, rest []byte, err error) {
	for len(b) > 0 {
		i := bytes.IndexByte(b, '\b')
		if i < 0 {
			rest = append(rest, b...)
			break
		}
		rest = append(rest, b[:i]...)
		if len(b) < i+3 {
			return nil, nil, fmt.Errorf("truncated hint header")
		}
		n := int(b[i+1])<<8 | int(b[i+2])
		if len(b) < i+3+n {
			return nil, nil, fmt.Errorf("truncated hint payload")
		}
		hints = append(hints, b[i:i+3+n])
		rest = append(rest, "\x01"...) // marker: hint position relative to tokens
		b = b[i+3+n:]
	}
	return
}

// squash removes whitespace outside string literals and comments (reference scanner).
func squash(b []byte) string {
	var out []byte
	for i := 0; i < len(b); {
		c := b[i]
		switch {
		case c == '"':
			j := i + 1
			for j < len(b) && b[j] != '"' {
				if b[j] == '\\' {
					j++
				}
				j++
			}
			out = append(out, b[i:min(j+1, len(b))]...)
			i = j + 1
		case c == '/' && i+1 < len(b) && b[i+1] == '*':
			j := bytes.Index(b[i+2:], []byte("*/"))
			if j < 0 {
				i = len(b)
			} else {
				i = i + 2 + j + 2
			}
		case c == ' ' || c == '\t' || c == '\n':
			i++
		default:
			out = append(out, c)
			i++
		}
	}
	return string(out)
}

func checkMinify(rt *rapid.T) *drv.Fail {
	fset := token.NewFileSet()
	f := fset.AddFile("/gopath/src/p/f.go", -1, 200)
	for off := 10; off < 200; off += 10 {
		f.AddLine(off)
	}
	toks := genTokens(rt, fset, f)
	var in []byte
	nh := 0
	for _, t := range toks {
		in = append(in, t.text...)
		if t.kind == 'h' {
			nh++
		}
	}
	files := map[string]string{"input.txt": fmt.Sprintf("%q\n", in)}
	ev.Case("min:"+drv.Hash(string(in)), nh >= 2)
	ev.Count("minify_streams", 1)
	var out []byte
	var perr any
	func() {
		defer func() { perr = recover() }()
		out = compiler.VerifRemoveWhitespace(append([]byte{}, in...), true)
	}()
	if perr != nil {
		return drv.Failf(files, "removeWhitespace panicked on compiler-shaped code: %v", perr)
	}
	files["output.txt"] = fmt.Sprintf("%q\n", out)
	hi, ri, err1 := extractHints(in)
	ho, ro, err2 := extractHints(out)
	if err1 != nil || err2 != nil {
		return drv.Failf(files, "hint structure broken by whitespace removal: %v %v", err1, err2)
	}
	if len(hi) != len(ho) {
		return drv.Failf(files, "whitespace removal changed the number of hints from %d to %d", len(hi), len(ho))
	}
	for i := range hi {
		if !bytes.Equal(hi[i], ho[i]) {
			return drv.Failf(files, "hint %d altered by whitespace removal", i)
		}
	}
	if a, b := squash(ri), squash(ro); a != b {
		return drv.Failf(files, "whitespace removal changed tokens, string contents or hint placement:\n in: %q\nout: %q", a, b)
	}
	// non-minifying mode is the identity
	if same := compiler.VerifRemoveWhitespace(append([]byte{}, in...), false); !bytes.Equal(same, in) {
		return drv.Failf(files, "removeWhitespace(minify=false) is not the identity")
	}
	// and the filtered result of the minified stream carries the same mappings count
	_, mp, err := runFilter(fset, [][]byte{out}, true)
	if err != nil {
		return drv.Failf(files, "filter on minified stream: %v", err)
	}
	m, err := smap.Parse(mp)
	if err != nil || len(m.Segs) != nh {
		return drv.Failf(files, "minified stream yields %v mappings for %d hints (err %v)", m, nh, err)
	}
	return nil
}

// ---------- (b) programs ----------

type site struct {
	name       string
	first, end int // lines of the throwing statement (1-based, inclusive)
}

// genThrowProgram builds a program with throw sites on known lines.
func genThrowProgram(rt *rapid.T) (src string, sites []site) {
	var sb strings.Builder
	line := 1
	w := func(s string) {
		sb.WriteString(s)
		line += strings.Count(s, "\n")
	}
	w("package main\n\nimport \"runtime\"\n\nvar _ = runtime.Gosched\n\ntype T struct{ m map[string]int; s []int }\n\ntype G[X any] struct{ v []X }\n\n")
	filler := func() {
		n := rapid.IntRange(0, 3).Draw(rt, "filler")
		for i := 0; i < n; i++ {
			switch rapid.IntRange(0, 3).Draw(rt, "fk") {
			case 0:
				w("\tx++\n")
			case 1:
				w("\tif x > 100 {\n\t\tx = 0\n\t}\n")
			case 2:
				w("\t// comment line\n\n")
			default:
				w("\tfor i := 0; i < 2; i++ {\n\t\tx += i\n\t}\n")
			}
		}
	}
	throwStmt := func(indent string) (string, int) {
		switch rapid.IntRange(0, 16).Draw(rt, "throw") {
		case 7:
			return indent + "x += t.s[x+7]\n", 1
		case 8:
			return indent + "x -= x / zero\n", 1
		case 9:
			return indent + "t.s[0] *= x / zero\n", 1
		case 10:
			return indent + "x /= zero\n", 1
		case 11:
			return indent + "var y = t.s[x+9]\n" + indent + "x = y\n", 1
		case 12:
			return indent + "if t.s[x+5] > 0 {\n" + indent + "\tx++\n" + indent + "}\n", 1
		case 13:
			return indent + "switch t.s[x+5] {\n" + indent + "case 1:\n" + indent + "\tx++\n" + indent + "}\n", 1
		case 14:
			return indent + "for _, v := range t.s[x+5:] {\n" + indent + "\tx += v\n" + indent + "}\n", 1
		case 15:
			return indent + "x, zero = t.s[x+5], x\n", 1
		case 16:
			return indent + "for i := 0; i < 2; i += t.s[x+5] {\n" + indent + "\tx++\n" + indent + "}\n", 1
		case 0:
			return indent + "panic(\"boom\")\n", 1
		case 1:
			return indent + "t.m[\"k\"] = x\n", 1
		case 2:
			return indent + "x = t.s[x+5]\n", 1
		case 3:
			return indent + "x = x / zero\n", 1
		case 4:
			return indent + "x = add(x,\n" + indent + "\tt.s[x+7],\n" + indent + "\t3)\n", 3
		case 5:
			return indent + "var p *T; x = len(p.s)\n", 1
		default:
			return indent + "x = intf(any(x).(string))\n", 1
		}
	}
	n := rapid.IntRange(2, 6).Draw(rt, "nsites")
	var calls []string
	for i := 0; i < n; i++ {
		kind := rapid.IntRange(0, 7).Draw(rt, "sitekind")
		name := fmt.Sprintf("site%d", i)
		if rapid.IntRange(0, 5).Draw(rt, "longname") == 0 {
			// identifier hints carry the name: very long names need more than one length byte
			name += "_" + strings.Repeat("veryLongName", rapid.IntRange(8, 24).Draw(rt, "namelen"))
		}
		blocking := rapid.Bool().Draw(rt, "blocking")
		gos := ""
		if blocking {
			gos = "\truntime.Gosched()\n"
		}
		switch kind {
		case 0: // plain function
			w(fmt.Sprintf("func %s(t *T, x int) int {\n%s", name, gos))
			filler()
			st, nl := throwStmt("\t")
			sites = append(sites, site{name, line, line + nl - 1})
			w(st)
			filler()
			w("\treturn x\n}\n\n")
			calls = append(calls, fmt.Sprintf("%s(t, 1)", name))
		case 1: // method
			w(fmt.Sprintf("func (t *T) %s(x int) int {\n%s", name, gos))
			filler()
			st, nl := throwStmt("\t")
			sites = append(sites, site{name, line, line + nl - 1})
			w(st)
			w("\treturn x\n}\n\n")
			calls = append(calls, fmt.Sprintf("t.%s(1)", name))
		case 2: // closure
			w(fmt.Sprintf("func %s(t *T, x int) int {\n", name))
			filler()
			w("\tf := func() int {\n" + strings.ReplaceAll(gos, "\t", "\t\t"))
			st, nl := throwStmt("\t\t")
			sites = append(sites, site{name, line, line + nl - 1})
			w(st)
			w("\t\treturn x\n\t}\n")
			filler()
			w("\treturn f()\n}\n\n")
			calls = append(calls, fmt.Sprintf("%s(t, 1)", name))
		case 3: // generic function
			w(fmt.Sprintf("func %s[X any](t *T, x int, g G[X]) int {\n%s", name, gos))
			filler()
			st, nl := throwStmt("\t")
			sites = append(sites, site{name, line, line + nl - 1})
			w(st)
			w("\treturn x + len(g.v)\n}\n\n")
			calls = append(calls, fmt.Sprintf("%s(t, 1, G[string]{})", name))
		case 6, 7: // the throwing statement is a return with operands in a function with named results
			if kind == 6 {
				w(fmt.Sprintf("func %s(t *T, x int) (q int, ok bool) {\n%s", name, gos))
			} else {
				w(fmt.Sprintf("func %s(\n\tt *T,\n\tx int,\n) (\n\tq int,\n\tok bool,\n) {\n%s", name, gos))
			}
			filler()
			sites = append(sites, site{name, line, line})
			w(rapid.SampledFrom([]string{"\treturn t.s[x+5], true\n", "\treturn x / zero, zero == 0\n", "\treturn add(x, t.s[x+7], 3), false\n"}).Draw(rt, "retthrow"))
			w("}\n\n")
			calls = append(calls, fmt.Sprintf("fst(%s(t, 1))", name))
		case 4: // inside a loop and switch
			w(fmt.Sprintf("func %s(t *T, x int) int {\n%s", name, gos))
			w("\tfor i := 0; i < 3; i++ {\n\t\tswitch {\n\t\tcase i == 1:\n")
			st, nl := throwStmt("\t\t\t")
			sites = append(sites, site{name, line, line + nl - 1})
			w(st)
			w("\t\tdefault:\n\t\t\tx++\n\t\t}\n\t}\n\treturn x\n}\n\n")
			calls = append(calls, fmt.Sprintf("%s(t, 1)", name))
		default: // deferred function
			w(fmt.Sprintf("func %s(t *T, x int) (r int) {\n", name))
			w("\tdefer func() {\n" + strings.ReplaceAll(gos, "\t", "\t\t"))
			st, nl := throwStmt("\t\t")
			sites = append(sites, site{name, line, line + nl - 1})
			w(st)
			w("\t\tr = x\n\t}()\n")
			filler()
			w("\treturn x\n}\n\n")
			calls = append(calls, fmt.Sprintf("%s(t, 1)", name))
		}
	}
	w("var zero int\n\nfunc add(a, b, c int) int { return a + b + c }\nfunc fst(a int, b bool) int { return a }\nfunc boolf() bool { return zero == 0 }\nfunc intf(s string) int { return len(s) }\n\n")
	w("func main() {\n\tt := &T{s: []int{1, 2}}\n\tswitch argv(0) {\n")
	for i, c := range calls {
		w(fmt.Sprintf("\tcase \"%d\":\n\t\tout(itoa(%s))\n", i, c))
	}
	w("\t}\n}\n")
	return sb.String(), sites
}

var frameRe = regexp.MustCompile(`\(?(?:file://)?([^\s()]+\.js):(\d+):(\d+)\)?$`)

func checkProgramFiles(name string, files map[string]string, sites []site, minify bool) *drv.Fail {
	c := drv.NewCase("c19_", files, true)
	defer c.Remove()
	repro := c.ReproFiles()
	jsNoMap, _, err := c.BuildJS(drv.BuildOpts{Minify: minify}, "plain")
	if err != nil {
		if !drv.IsCompilerInternalError(err) {
			drv.Infra("generated program rejected (generator bug): %v", err)
		}
		return drv.Failf(repro, "%s: build failed: %v", name, err)
	}
	jsPath, b, err := c.BuildJS(drv.BuildOpts{Minify: minify, SourceMap: true}, "out")
	if err != nil {
		return drv.Failf(repro, "%s: build with source map failed: %v", name, err)
	}
	plain, _ := os.ReadFile(jsNoMap)
	if bytes.IndexByte(b.JS, '\b') >= 0 || bytes.IndexByte(plain, '\b') >= 0 {
		return drv.Failf(repro, "%s (minify=%v): emitted JavaScript contains a source-map hint byte", name, minify)
	}
	// With mapping enabled the prelude is re-printed by esbuild; the compiled packages
	// (everything from the first package on) must be byte-identical.
	pa, pb := pkgSection(plain), pkgSection(b.JS)
	if pa == nil || pb == nil {
		ev.Count("pkg_section_not_found", 1)
	} else if !bytes.Equal(pa, pb) {
		return drv.Failf(repro, "%s (minify=%v): compiled package code differs between a build with and without mapping (%d vs %d bytes)", name, minify, len(pb), len(pa))
	}
	m, err := smap.Parse(b.Map)
	if err != nil {
		return drv.Failf(repro, "%s: source map does not parse: %v", name, err)
	}
	jsLines := bytes.Split(b.JS, []byte("\n"))
	lineCounts := map[string]int{}
	for _, sg := range m.Segs {
		if sg.GenLine >= len(jsLines) || sg.GenCol > len(jsLines[sg.GenLine]) {
			return drv.Failf(repro, "%s (minify=%v): mapping at generated %d:%d is outside the %d-line output", name, minify, sg.GenLine+1, sg.GenCol, len(jsLines))
		}
		if !sg.HasSrc {
			continue
		}
		if sg.Src < 0 || sg.Src >= len(m.Sources) {
			return drv.Failf(repro, "%s: mapping refers to source index %d of %d", name, sg.Src, len(m.Sources))
		}
		src := strings.TrimPrefix(m.Sources[sg.Src], "/")
		n, ok := lineCounts[src]
		if !ok {
			n = sourceLines(src, c)
			lineCounts[src] = n
		}
		if n > 0 && (sg.OrigLine < 0 || sg.OrigLine+1 > n) {
			return drv.Failf(repro, "%s (minify=%v): mapping at generated %d:%d refers to line %d of %s, which has %d lines", name, minify, sg.GenLine+1, sg.GenCol, sg.OrigLine+1, src, n)
		}
		if n == 0 {
			return drv.Failf(repro, "%s (minify=%v): mapping at generated %d:%d names the source %q, which exists neither under GOPATH, GOROOT, the natives nor the prelude", name, minify, sg.GenLine+1, sg.GenCol, m.Sources[sg.Src])
		}
	}
	ev.Count("mappings_checked", int64(len(m.Segs)))
	// throw sites
	resolved := 0
	for i, st := range sites {
		o := drv.RunNode(jsPath, []string{strconv.Itoa(i)}, drv.NodeOpts{})
		if o.End != "panic" {
			return drv.Failf(repro, "%s: site %s did not panic under Node (end %s %q)", name, st.name, o.End, o.Msg)
		}
		got := ""
		for _, l := range strings.Split(o.Stderr, "\n") {
			l = strings.TrimSpace(l)
			if !strings.HasPrefix(l, "at ") {
				continue
			}
			mm := frameRe.FindStringSubmatch(l)
			if mm == nil {
				continue
			}
			ln, _ := strconv.Atoi(mm[2])
			col, _ := strconv.Atoi(mm[3])
			sg := m.Lookup(ln-1, col-1)
			if sg == nil || !sg.HasSrc {
				continue
			}
			src := strings.TrimPrefix(m.Sources[sg.Src], "/")
			if strings.HasSuffix(src, "/main.go") && strings.HasPrefix(src, c.ID) {
				got = fmt.Sprintf("%d", sg.OrigLine+1)
				if sg.OrigLine+1 < st.first || sg.OrigLine+1 > st.end {
					return drv.Failf(repro, "%s (minify=%v): the innermost user frame of %s (%s) resolves to main.go:%d, but the throwing statement spans lines %d-%d", name, minify, st.name, l, sg.OrigLine+1, st.first, st.end)
				}
				resolved++
				break
			}
		}
		if got == "" {
			return drv.Failf(repro, "%s (minify=%v): no stack frame of %s resolves into main.go\n%s", name, minify, st.name, o.Stderr)
		}
	}
	key := drv.Hash(name, fmt.Sprint(minify), files["main.go"])
	ev.Case("prog:"+key, resolved >= 1 || sites == nil)
	ev.Count("frames_resolved", int64(resolved))
	return nil
}

func pkgSection(js []byte) []byte {
	i := bytes.Index(js, []byte("\n$packages[\""))
	if i < 0 {
		return nil
	}
	return js[i:]
}

// sourceLines counts the lines of a source named in the map (0 if it cannot be located).
func sourceLines(src string, c *drv.Case) int {
	cands := []string{
		drv.GopathSrc() + "/" + src,
		goroot() + "/src/" + src,
		drv.RepoDir() + "/compiler/prelude/" + src,
		drv.RepoDir() + "/" + strings.TrimPrefix(src, "github.com/gopherjs/gopherjs/"),
	}
	// overlay files are mapped as <pkgdir>/gopherjs__<name>
	if i := strings.Index(src, "gopherjs__"); i >= 0 {
		cands = append(cands, drv.RepoDir()+"/compiler/natives/src/"+src[:i]+src[i+len("gopherjs__"):])
	}
	for _, p := range cands {
		if b, err := os.ReadFile(p); err == nil {
			return bytes.Count(b, []byte("\n")) + 1
		}
	}
	return 0
}

var gorootCache string

func goroot() string {
	if gorootCache == "" {
		gorootCache = strings.TrimSpace(runOut("go", "env", "GOROOT"))
	}
	return gorootCache
}

func TestCheck(t *testing.T) {
	ev = drv.NewEvidence("C19", "exploration", rule)
	ev.Assume("generated columns are compared in bytes (the unit the filter counts); UTF-16 column conventions are not asserted")
	nStreams, nMin, nProgs := 20000, 20000, 60
	if drv.Thorough() {
		nStreams, nMin, nProgs = 300000, 300000, 400
	}
	if rp := os.Getenv("VERIF_REPLAY"); rp != "" {
		replay(rp)
		return
	}
	for _, d := range drv.ReplayDirs("C19") {
		replay(d)
	}
	drv.RapidCheck(t, ev, "streams", nStreams, checkStream)
	drv.RapidCheck(t, ev, "minify-streams", nMin, checkMinify)
	for _, p := range corpus.All() {
		for _, mini := range []bool{false, true} {
			if f := checkProgramFiles("corpus/"+p.Name, p.Files, nil, mini); f != nil {
				ev.Violation(f.Desc, f.Files)
			}
		}
	}
	drv.RapidCheck(t, ev, "throw-sites", nProgs, func(rt *rapid.T) *drv.Fail {
		src, sites := genThrowProgram(rt)
		mini := rapid.Bool().Draw(rt, "minify")
		f := checkProgramFiles("throw", map[string]string{"main.go": src}, sites, mini)
		if f != nil {
			var sb strings.Builder
			for _, s := range sites {
				fmt.Fprintf(&sb, "%s %d %d\n", s.name, s.first, s.end)
			}
			f.Files["sites.txt"] = sb.String()
			f.Files["minify.txt"] = fmt.Sprint(mini)
		}
		return f
	})
}

func replay(dir string) {
	files := drv.ReadReplayDir(dir)
	src, ok := files["main.go"]
	if !ok {
		return
	}
	var sites []site
	for _, l := range strings.Split(files["sites.txt"], "\n") {
		f := strings.Fields(l)
		if len(f) == 3 {
			a, _ := strconv.Atoi(f[1])
			b, _ := strconv.Atoi(f[2])
			sites = append(sites, site{f[0], a, b})
		}
	}
	mini := strings.TrimSpace(files["minify.txt"]) == "true"
	prog := map[string]string{}
	for k, v := range files {
		if strings.HasSuffix(k, ".go") && k != "rt.go" && !strings.HasPrefix(k, "glue_") {
			prog[k] = v
		}
	}
	_ = src
	if f := checkProgramFiles("replay "+dir, prog, sites, mini); f != nil {
		ev.Violation(f.Desc, f.Files)
	}
}
