package c19

import (
	"os/exec"

	"verif/internal/drv"
)

func runOut(name string, args ...string) string {
	out, err := exec.Command(name, args...).Output()
	if err != nil {
		drv.Infra("%s: %v", name, err)
	}
	return string(out)
}
