package c20

import (
	"bytes"
	"fmt"
	"go/ast"
	"go/parser"
	"go/printer"
	"go/token"
	"os"
	"os/exec"
	"path/filepath"
	"reflect"
	"sort"
	"strconv"
	"strings"
	"testing"
	"time"

	"github.com/gopherjs/gopherjs/build/cache"
	"github.com/gopherjs/gopherjs/compiler/sources"
	"pgregory.net/rapid"

	"verif/internal/corpus"
	"verif/internal/drv"
)

var ev *drv.Evidence

func TestMain(m *testing.M) {
	if os.Getenv("VERIF_C20_HELPER") != "" {
		helperMain()
		return
	}
	drv.TestMain(m, func() *drv.Evidence { return ev })
}

const rule = "rapid state machine over Store/Load/Damage/Clear against an in-memory model keyed by (GOOS,GOARCH,GOROOT,GOPATH,BuildTags,Version,import path); configurations are drawn from small pools so that pairs differing in exactly one field are frequent; damage = every truncation length, bit flips, overwrites, appended bytes, empty file, directory in place; crash points = SIGKILL injected by strace at the N-th openat/write/close/renameat/mkdirat of a Store; content round trips: gob round trip of parsed GOROOT/repo/generated files and end-to-end JS equality for programs. Non-trivial history: contains a Load under a configuration differing in exactly one field from a stored one, or a damage strictly inside the gzip stream; non-trivial damage case: offset inside the stream; all cases distinct by content hash. Session level: rapid-generated histories of edits and builds of a small project (main package, library package, loose files built with BuildFiles), every build run with the shared on-disk cache installed into the session through the verif hook and again without any cache; the two outputs must be identical."

// ---------- test payload ----------

type blob struct {
	Name  string
	Data  []byte
	Parts []string
}

func (b *blob) Write(encode func(any) error) error {
	if err := encode(b.Name); err != nil {
		return err
	}
	if err := encode(b.Data); err != nil {
		return err
	}
	return encode(b.Parts)
}

func (b *blob) Read(decode func(any) error) error {
	if err := decode(&b.Name); err != nil {
		return err
	}
	if err := decode(&b.Data); err != nil {
		return err
	}
	return decode(&b.Parts)
}

func (b *blob) equal(o *blob) bool {
	return b.Name == o.Name && bytes.Equal(b.Data, o.Data) && strings.Join(b.Parts, "\x00") == strings.Join(o.Parts, "\x00") && len(b.Parts) == len(o.Parts)
}

// ---------- configuration pools ----------

type config struct {
	GOOS, GOARCH, GOROOT, GOPATH string
	Tags                         []string
	Version                      string
	Tested                       string
}

func (c config) cache() *cache.BuildCache {
	return &cache.BuildCache{GOOS: c.GOOS, GOARCH: c.GOARCH, GOROOT: c.GOROOT, GOPATH: c.GOPATH, BuildTags: c.Tags, Version: c.Version, TestedPackage: c.Tested}
}

// key is the model's notion of "same build configuration" (TestedPackage is not part of it).
func (c config) key() string {
	return fmt.Sprintf("%q|%q|%q|%q|%q|%q", c.GOOS, c.GOARCH, c.GOROOT, c.GOPATH, c.Tags, c.Version)
}

func (c config) diffFields(o config) int {
	n := 0
	if c.GOOS != o.GOOS {
		n++
	}
	if c.GOARCH != o.GOARCH {
		n++
	}
	if c.GOROOT != o.GOROOT {
		n++
	}
	if c.GOPATH != o.GOPATH {
		n++
	}
	if fmt.Sprintf("%q", c.Tags) != fmt.Sprintf("%q", o.Tags) {
		n++
	}
	if c.Version != o.Version {
		n++
	}
	return n
}

var (
	poolGOOS    = []string{"js", "linux", "j", "jslinux"}
	poolGOARCH  = []string{"ecmascript", "wasm", "ecma", "script"}
	poolGOROOT  = []string{"/usr/go", "/usr/go2", "/usr", "/usr/go/x"}
	poolGOPATH  = []string{"/home/g", "/home/g2", "/home", "/home/g:/home/g2"}
	poolTags    = [][]string{nil, {"a"}, {"a", "b"}, {"b", "a"}, {"ab"}, {"a", "b", "c"}, {"a b"}, {"a\", \"b"}}
	poolVersion = []string{"1.20.0", "1.20.1", "1.20", "1.20.0+go1.20"}
	poolPaths   = []string{"p", "p/q", "p_test", "pq", "p/q_test", "q", "example.com/x/y", "p/q/r", "p_test_test", "q_test"}
	poolTested  = []string{"", "", "p", "p/q", "q", "p_test", "p/q_test"} // a tested package may itself be called x_test
)

func genConfig(rt *rapid.T, label string) config {
	return config{
		GOOS: rapid.SampledFrom(poolGOOS[:2]).Draw(rt, label+"GOOS"), GOARCH: rapid.SampledFrom(poolGOARCH[:2]).Draw(rt, label+"GOARCH"),
		GOROOT: rapid.SampledFrom(poolGOROOT[:2]).Draw(rt, label+"GOROOT"), GOPATH: rapid.SampledFrom(poolGOPATH[:2]).Draw(rt, label+"GOPATH"),
		Tags: rapid.SampledFrom(poolTags[:4]).Draw(rt, label+"Tags"), Version: rapid.SampledFrom(poolVersion[:2]).Draw(rt, label+"Version"),
		Tested: rapid.SampledFrom(poolTested).Draw(rt, label+"Tested"),
	}
}

// mutateOne changes exactly one field of c to another pool value (possibly prefix-related).
func mutateOne(rt *rapid.T, c config) config {
	pick := func(pool []string, cur string, l string) string {
		for {
			v := rapid.SampledFrom(pool).Draw(rt, l)
			if v != cur {
				return v
			}
		}
	}
	switch rapid.IntRange(0, 5).Draw(rt, "field") {
	case 0:
		c.GOOS = pick(poolGOOS, c.GOOS, "v")
	case 1:
		c.GOARCH = pick(poolGOARCH, c.GOARCH, "v")
	case 2:
		c.GOROOT = pick(poolGOROOT, c.GOROOT, "v")
	case 3:
		c.GOPATH = pick(poolGOPATH, c.GOPATH, "v")
	case 4:
		for {
			v := rapid.SampledFrom(poolTags).Draw(rt, "v")
			if fmt.Sprintf("%q", v) != fmt.Sprintf("%q", c.Tags) {
				c.Tags = v
				break
			}
		}
	default:
		c.Version = pick(poolVersion, c.Version, "v")
	}
	return c
}

func genTime(rt *rapid.T, label string) time.Time {
	base := int64(1700000000)
	sec := base + rapid.Int64Range(-2, 2).Draw(rt, label+"sec")
	nsec := rapid.SampledFrom([]int64{0, 1, 999999999, 500000000}).Draw(rt, label+"nsec")
	tm := time.Unix(sec, nsec)
	switch rapid.IntRange(0, 2).Draw(rt, label+"zone") {
	case 1:
		tm = tm.UTC()
	case 2:
		tm = tm.In(time.FixedZone("X", 3600*5))
	}
	return tm
}

func genBlob(rt *rapid.T) *blob {
	b := &blob{Name: rapid.StringN(0, 12, -1).Draw(rt, "name")}
	switch rapid.IntRange(0, 3).Draw(rt, "datakind") {
	case 0:
		b.Data = rapid.SliceOfN(rapid.Byte(), 0, 64).Draw(rt, "data")
	case 1:
		n := rapid.IntRange(100, 3000).Draw(rt, "n")
		seed := rapid.Uint32().Draw(rt, "seed")
		b.Data = make([]byte, n)
		x := seed | 1
		for i := range b.Data { // incompressible-ish
			x ^= x << 13
			x ^= x >> 17
			x ^= x << 5
			b.Data[i] = byte(x)
		}
	case 2:
		n := rapid.IntRange(100, 4000).Draw(rt, "n")
		b.Data = bytes.Repeat([]byte("func f() { return x + y }\n"), n/26+1)[:n]
	}
	b.Parts = rapid.SliceOfN(rapid.StringN(0, 8, -1), 0, 4).Draw(rt, "parts")
	return b
}

type entry struct {
	cfg       config
	path      string
	buildTime time.Time
	content   *blob
	damaged   bool
}

func cachedFiles() []string {
	root := filepath.Join(os.Getenv("XDG_CACHE_HOME"), "gopherjs", "build_cache")
	var out []string
	filepath.Walk(root, func(p string, info os.FileInfo, err error) error {
		if err == nil && !info.IsDir() {
			out = append(out, p)
		}
		return nil
	})
	sort.Strings(out)
	return out
}

func safeLoad(bc *cache.BuildCache, c cache.Cacheable, path string, tm time.Time) (hit bool, panicked any) {
	defer func() {
		if r := recover(); r != nil {
			panicked = r
		}
	}()
	return bc.Load(c, path, tm), nil
}

func safeStore(bc *cache.BuildCache, c cache.Cacheable, path string, tm time.Time) (ok bool, panicked any) {
	defer func() {
		if r := recover(); r != nil {
			panicked = r
		}
	}()
	return bc.Store(c, path, tm), nil
}

// ---------- the state machine ----------

func TestCheck(t *testing.T) {
	ev = drv.NewEvidence("C20", "fault_enumeration", rule)
	ev.Assume("os.UserCacheDir honours XDG_CACHE_HOME (the cache root is redirected into the scratch directory)")
	ev.Assume("SIGKILL injected by strace stands for a process crash; power loss (un-fsynced rename) is out of scope")
	if os.Getenv("XDG_CACHE_HOME") == "" {
		drv.Infra("XDG_CACHE_HOME not set")
	}
	nHist, nDamage, nCrash, nFiles := 1500, 12, 1, 250
	if drv.Thorough() {
		nHist, nDamage, nCrash, nFiles = 20000, 200, 12, 6000
	}
	if rp := os.Getenv("VERIF_REPLAY"); rp != "" {
		replayDir(rp)
		return
	}
	for _, d := range drv.ReplayDirs("C20") {
		replayDir(d)
	}
	stateMachine(t, nHist)
	damageSweep(t, nDamage)
	astRoundTrip(t, nFiles)
	endToEnd(t)
	crashPoints(t, nCrash)
	nSess := 12
	if drv.Thorough() {
		nSess = 150
	}
	drv.RapidCheck(t, ev, "session", nSess, sessionHistory)
}

func describeHist(h []string) map[string]string {
	return map[string]string{"history.txt": strings.Join(h, "\n") + "\n"}
}

func stateMachine(t *testing.T, checks int) {
	drv.RapidCheck(t, ev, "history", checks, func(rt *rapid.T) *drv.Fail {
		cache.Clear()
		model := map[string]*entry{} // key: cfg.key()+"\x00"+path
		var stored []config
		var hist []string
		var fail *drv.Fail
		oneFieldLoad, sawHit, sawStale, sawTested := false, false, false, false
		mk := func(c config, p string) string { return c.key() + "\x00" + p }
		steps := rapid.IntRange(2, 14).Draw(rt, "steps")
		for i := 0; i < steps && fail == nil; i++ {
			switch rapid.SampledFrom([]string{"store", "store", "load", "load", "load1", "load1", "clear"}).Draw(rt, "action") {
			case "store":
				c := genConfig(rt, "")
				if len(stored) > 0 && rapid.Bool().Draw(rt, "reuse") {
					c = rapid.SampledFrom(stored).Draw(rt, "cfg")
					c.Tested = rapid.SampledFrom(poolTested).Draw(rt, "tested")
				}
				p := rapid.SampledFrom(poolPaths).Draw(rt, "path")
				tm := genTime(rt, "bt")
				b := genBlob(rt)
				hist = append(hist, fmt.Sprintf("store cfg=%+v path=%q buildTime=%v blob=%q/%d bytes", c, p, tm.UnixNano(), b.Name, len(b.Data)))
				ok, pn := safeStore(c.cache(), b, p, tm)
				if pn != nil {
					fail = drv.Failf(describeHist(hist), "Store panicked: %v", pn)
					break
				}
				isTested := c.Tested != "" && (p == c.Tested || p == c.Tested+"_test")
				if isTested {
					sawTested = true
					if ok {
						fail = drv.Failf(describeHist(hist), "Store accepted the package under test %q (TestedPackage=%q)", p, c.Tested)
					}
					break
				}
				if !ok {
					fail = drv.Failf(describeHist(hist), "Store failed for %q without any fault injected", p)
					break
				}
				model[mk(c, p)] = &entry{cfg: c, path: p, buildTime: tm, content: b}
				stored = append(stored, c)
			case "load", "load1":
				var c config
				p := rapid.SampledFrom(poolPaths).Draw(rt, "path")
				if len(stored) > 0 {
					c = rapid.SampledFrom(stored).Draw(rt, "cfg")
					c.Tested = rapid.SampledFrom(poolTested).Draw(rt, "tested")
					if rapid.IntRange(0, 2).Draw(rt, "mut") > 0 {
						c2 := mutateOne(rt, c)
						c = c2
						oneFieldLoad = true
					}
					// bias towards paths that were stored
					if rapid.Bool().Draw(rt, "storedpath") {
						var ps []string
						for _, e := range model {
							ps = append(ps, e.path)
						}
						sort.Strings(ps)
						if len(ps) > 0 {
							p = rapid.SampledFrom(ps).Draw(rt, "spath")
						}
					}
				} else {
					c = genConfig(rt, "")
				}
				tm := genTime(rt, "mt")
				var got blob
				hit, pn := safeLoad(c.cache(), &got, p, tm)
				hist = append(hist, fmt.Sprintf("load cfg=%+v path=%q srcModTime=%v -> hit=%v", c, p, tm.UnixNano(), hit))
				if pn != nil {
					fail = drv.Failf(describeHist(hist), "Load panicked: %v", pn)
					break
				}
				e := model[mk(c, p)]
				isTested := c.Tested != "" && (p == c.Tested || p == c.Tested+"_test")
				want := e != nil && !tm.After(e.buildTime) && !isTested
				if e != nil && tm.After(e.buildTime) {
					sawStale = true
				}
				if isTested {
					sawTested = true
				}
				if hit && !want {
					why := "no entry was stored under this import path and configuration"
					if e != nil && isTested {
						why = "the package under test must never be served from the cache"
					} else if e != nil {
						why = "the entry is older than the sources"
					}
					fail = drv.Failf(describeHist(hist), "Load hit but %s (got blob %q)", why, got.Name)
					break
				}
				if !hit && want {
					fail = drv.Failf(describeHist(hist), "Load missed a valid, fresh, undamaged entry stored under the same key")
					break
				}
				if hit {
					sawHit = true
					if !got.equal(e.content) {
						fail = drv.Failf(describeHist(hist), "Load returned different content than stored (got %q/%d bytes want %q/%d bytes)", got.Name, len(got.Data), e.content.Name, len(e.content.Data))
					}
				}
			case "clear":
				hist = append(hist, "clear")
				cache.Clear()
				model = map[string]*entry{}
			}
		}
		key := drv.Hash(hist...)
		if ev.Case("hist:"+key, oneFieldLoad) {
			if oneFieldLoad {
				ev.Count("history_with_one_field_diff_load", 1)
			}
			if sawHit {
				ev.Count("history_with_hit", 1)
			}
			if sawStale {
				ev.Count("history_with_stale_entry", 1)
			}
			if sawTested {
				ev.Count("history_with_tested_package", 1)
			}
			if oneFieldLoad && sawHit {
				ev.Sample(hist)
			}
		}
		return fail
	})
}

// ---------- damage ----------

func damageSweep(t *testing.T, entries int) {
	gen := rapid.Custom(func(rt *rapid.T) *blob { return genBlob(rt) })
	for n := 0; n < entries; n++ {
		cache.Clear()
		b := gen.Example(drv.Seed()*1000 + n)
		c := config{GOOS: "js", GOARCH: "ecmascript", GOROOT: "/usr/go", GOPATH: "/home/g", Version: "v"}
		other := &blob{Name: "other-package", Data: []byte("other")}
		tm := time.Unix(1700000000, 0)
		if ok, _ := safeStore(c.cache(), other, "other", tm); !ok {
			drv.Infra("store failed")
		}
		before := cachedFiles()
		if ok, _ := safeStore(c.cache(), b, "victim", tm); !ok {
			drv.Infra("store failed")
		}
		var file string
		for _, f := range cachedFiles() {
			found := false
			for _, g := range before {
				if f == g {
					found = true
				}
			}
			if !found {
				file = f
			}
		}
		if file == "" {
			drv.Infra("cannot find stored cache file")
		}
		orig, _ := os.ReadFile(file)
		check := func(kind string, data []byte, isDir bool) {
			os.RemoveAll(file)
			if isDir {
				os.MkdirAll(file, 0o755)
			} else {
				os.WriteFile(file, data, 0o644)
			}
			var got blob
			hit, pn := safeLoad(c.cache(), &got, "victim", tm)
			inside := !isDir && len(data) > 10 && kind != "append"
			ev.Case("damage:"+drv.Hash(kind, string(data), string(orig)), inside)
			ev.Count("damage:"+strings.SplitN(kind, "@", 2)[0], 1)
			files := map[string]string{"original.bin": string(orig), "damaged.bin": string(data), "kind.txt": kind + "\n"}
			if pn != nil {
				ev.Violation(fmt.Sprintf("damage %s of a %d-byte cache file: Load panicked: %v", kind, len(orig), pn), files)
				return
			}
			if hit && !got.equal(b) {
				ev.Violation(fmt.Sprintf("damage %s of a %d-byte cache file: Load reported a hit with altered content (name %q, %d data bytes; stored %q, %d)", kind, len(orig), got.Name, len(got.Data), b.Name, len(b.Data)), files)
			}
			// the neighbouring entry must be unaffected
			var o blob
			if h, _ := safeLoad(c.cache(), &o, "other", tm); !h || !o.equal(other) {
				ev.Violation(fmt.Sprintf("damage %s: unrelated entry affected", kind), files)
			}
		}
		// every truncation point (files <= 8 KiB: all; larger: 256 evenly spread + the ends)
		step := 1
		if len(orig) > 8192 {
			step = len(orig) / 256
		}
		for l := 0; l < len(orig); l += step {
			check(fmt.Sprintf("truncate@%d", l), orig[:l], false)
			if ev.Violations() > 3 {
				return
			}
		}
		for l := len(orig) - 12; l < len(orig); l++ {
			if l > 0 {
				check(fmt.Sprintf("truncate@%d", l), orig[:l], false)
			}
		}
		// bit flips / overwrites at rapid-drawn positions, plus all positions in header and trailer
		type dmg struct {
			Pos int
			Bit uint
			Val byte
		}
		dg := rapid.SliceOfN(rapid.Custom(func(rt *rapid.T) dmg {
			return dmg{rapid.IntRange(0, len(orig)-1).Draw(rt, "pos"), uint(rapid.IntRange(0, 7).Draw(rt, "bit")), rapid.Byte().Draw(rt, "val")}
		}), 150, 150).Example(drv.Seed()*77 + n)
		for p := 0; p < len(orig) && p < 12; p++ {
			dg = append(dg, dmg{p, uint(p % 8), 0xff})
		}
		for p := len(orig) - 8; p < len(orig); p++ {
			if p >= 0 {
				dg = append(dg, dmg{p, uint(p % 8), 0x00})
			}
		}
		for _, d := range dg {
			x := append([]byte{}, orig...)
			x[d.Pos] ^= 1 << d.Bit
			check(fmt.Sprintf("bitflip@%d.%d", d.Pos, d.Bit), x, false)
			y := append([]byte{}, orig...)
			if y[d.Pos] != d.Val {
				y[d.Pos] = d.Val
				check(fmt.Sprintf("overwrite@%d=%02x", d.Pos, d.Val), y, false)
			}
			if ev.Violations() > 3 {
				return
			}
		}
		check("append", append(append([]byte{}, orig...), []byte("garbage\x1f\x8b\x08garbage")...), false)
		check("empty", nil, false)
		check("directory", nil, true)
		os.RemoveAll(file)
	}
	ev.SetExhaustive("every truncation length of each damaged cache file (files <= 8 KiB)")
}

func mustRead(files []string) []byte {
	if len(files) == 0 {
		return nil
	}
	b, _ := os.ReadFile(files[0])
	return b
}

// ---------- AST round trip ----------

func collectGoFiles(limit int) []string {
	var files []string
	roots := []string{filepath.Join(drv.RepoDir(), "compiler"), filepath.Join(drv.RepoDir(), "build"), filepath.Join(drv.RepoDir(), "tests"), filepath.Join(goroot(), "src")}
	for _, r := range roots {
		if rr, err := filepath.EvalSymlinks(r); err == nil {
			r = rr
		}
		filepath.Walk(r, func(p string, info os.FileInfo, err error) error {
			if err != nil {
				return nil
			}
			if info.IsDir() && (info.Name() == "testdata" || info.Name() == "vendor") {
				return filepath.SkipDir
			}
			if strings.HasSuffix(p, ".go") {
				files = append(files, p)
			}
			return nil
		})
	}
	sort.Strings(files)
	// deterministic spread
	if len(files) > limit {
		var sel []string
		for i := 0; i < limit; i++ {
			sel = append(sel, files[(i*len(files)/limit+drv.Seed())%len(files)])
		}
		files = sel
	}
	return files
}

func goroot() string {
	out, err := exec.Command("go", "env", "GOROOT").Output()
	if err != nil {
		drv.Infra("go env GOROOT: %v", err)
	}
	return strings.TrimSpace(string(out))
}

func printFile(fset *token.FileSet, f *ast.File) string {
	var buf bytes.Buffer
	// print declarations only (free-floating comments are documented as not preserved)
	cp := *f
	cp.Comments = nil
	cp.Doc = nil
	printer.Fprint(&buf, fset, &cp)
	return buf.String()
}

func nodeKinds(f *ast.File, kinds map[string]bool) {
	ast.Inspect(f, func(n ast.Node) bool {
		if n != nil {
			kinds[reflect.TypeOf(n).String()] = true
		}
		return true
	})
}

func astRoundTrip(t *testing.T, n int) {
	files := collectGoFiles(n)
	kinds := map[string]bool{}
	c := config{GOOS: "js", GOARCH: "ecmascript", GOROOT: "/r", GOPATH: "/p", Version: "rt"}
	bc := c.cache()
	// groups of 5 files per Sources
	for i := 0; i < len(files); i += 5 {
		fset := token.NewFileSet()
		var fs []*ast.File
		var names []string
		for _, p := range files[i:min(i+5, len(files))] {
			f, err := parser.ParseFile(fset, p, nil, parser.ParseComments)
			if err != nil {
				continue
			}
			fs = append(fs, f)
			names = append(names, p)
			nodeKinds(f, kinds)
		}
		if len(fs) == 0 {
			continue
		}
		src := &sources.Sources{ImportPath: "rt/pkg" + strconv.Itoa(i), Dir: "/some/dir", Files: fs, FileSet: fset}
		var want []string
		for _, f := range fs {
			want = append(want, printFile(fset, f))
		}
		tm := time.Unix(1700000000, 0)
		if ok, pn := safeStore(bc, src, src.ImportPath, tm); !ok || pn != nil {
			ev.Violation(fmt.Sprintf("Store of parsed files %v failed (panic=%v)", names, pn), map[string]string{"files.txt": strings.Join(names, "\n")})
			continue
		}
		got := &sources.Sources{}
		hit, pn := safeLoad(bc, got, src.ImportPath, tm)
		if !hit || pn != nil {
			ev.Violation(fmt.Sprintf("Load of just stored parsed files %v missed (panic=%v)", names, pn), map[string]string{"files.txt": strings.Join(names, "\n")})
			continue
		}
		if got.ImportPath != src.ImportPath || got.Dir != src.Dir || len(got.Files) != len(fs) {
			ev.Violation("restored Sources differ in ImportPath/Dir/file count", map[string]string{"files.txt": strings.Join(names, "\n")})
			continue
		}
		for j, f := range got.Files {
			gs := printFile(got.FileSet, f)
			nt := strings.Count(want[j], "\n") > 50
			ev.Case("ast:"+drv.Hash(want[j]), nt)
			if gs != want[j] {
				ev.Violation(fmt.Sprintf("file %s prints differently after the cache round trip", names[j]), map[string]string{"file.txt": names[j], "want.go": want[j], "got.go": gs})
				break
			}
			// positions survive: the position of every declaration resolves to the same file:line
			for k, d := range f.Decls {
				a, b := got.FileSet.Position(d.Pos()), fset.Position(fs[j].Decls[k].Pos())
				if a.Filename != b.Filename || a.Line != b.Line || a.Column != b.Column {
					ev.Violation(fmt.Sprintf("file %s: declaration %d position %v became %v", names[j], k, b, a), map[string]string{"file.txt": names[j]})
					break
				}
			}
			// directive comments attached to declarations survive (they drive linkname/embed/pragmas)
			wd, gd := directives(fs[j]), directives(f)
			if wd != gd {
				ev.Violation(fmt.Sprintf("file %s: compiler directives in comments changed by the round trip:\nwant %q\ngot  %q", names[j], wd, gd), map[string]string{"file.txt": names[j], "want.txt": wd, "got.txt": gd})
			}
		}
	}
	var ks []string
	for k := range kinds {
		ks = append(ks, k)
	}
	sort.Strings(ks)
	ev.Set("ast_node_kinds_round_tripped", ks)
}

// directives lists //go: and //gopherjs: comments of a file (all comment groups).
func directives(f *ast.File) string {
	var out []string
	for _, cg := range f.Comments {
		for _, c := range cg.List {
			if strings.HasPrefix(c.Text, "//go:linkname ") || strings.HasPrefix(c.Text, "//go:embed ") || strings.HasPrefix(c.Text, "//gopherjs:") {
				out = append(out, c.Text)
			}
		}
	}
	sort.Strings(out)
	return strings.Join(out, "\n")
}

// ---------- end-to-end JS equality ----------

func endToEnd(t *testing.T) {
	c := config{GOOS: "js", GOARCH: "ecmascript", GOROOT: "/r", GOPATH: "/p", Version: "e2e"}
	bc := c.cache()
	for _, p := range corpus.All() {
		for _, minify := range []bool{false, true} {
			cs := drv.NewCase("c20_", p.Files, true)
			fresh, root, s, err := drv.LoadSources(cs.Dir, drv.BuildOpts{Minify: minify})
			if err != nil {
				drv.Infra("corpus program %s does not load: %v", p.Name, err)
			}
			want, err := drv.CompileSources(fresh, root, minify, s.GoRelease())
			if err != nil {
				drv.Infra("corpus program %s does not compile: %v", p.Name, err)
			}
			again, root2, _, err := drv.LoadSources(cs.Dir, drv.BuildOpts{Minify: minify})
			if err != nil {
				drv.Infra("reload: %v", err)
			}
			var restored []*sources.Sources
			tm := time.Now()
			for _, src := range again {
				if ok, pn := safeStore(bc, src, src.ImportPath, tm); !ok || pn != nil {
					ev.Violation(fmt.Sprintf("Store of package %q failed (panic %v)", src.ImportPath, pn), cs.ReproFiles())
					return
				}
				r := &sources.Sources{}
				if hit, pn := safeLoad(bc, r, src.ImportPath, tm.Add(-time.Second)); !hit || pn != nil {
					ev.Violation(fmt.Sprintf("Load of package %q missed right after Store (panic %v)", src.ImportPath, pn), cs.ReproFiles())
					return
				}
				restored = append(restored, r)
			}
			got, err := drv.CompileSources(restored, root2, minify, s.GoRelease())
			ev.Case(fmt.Sprintf("e2e:%s:%v", p.Name, minify), true)
			ev.Count("e2e_programs", 1)
			ev.Count("e2e_packages", int64(len(restored)))
			if err != nil {
				ev.Violation(fmt.Sprintf("program %s (minify=%v): packages restored from the cache do not compile: %v", p.Name, minify, err), cs.ReproFiles())
			} else if !bytes.Equal(got, want) {
				ev.Violation(fmt.Sprintf("program %s (minify=%v): JavaScript built from cache-restored packages differs from the one built from source (%d vs %d bytes)", p.Name, minify, len(got), len(want)), cs.ReproFiles())
			}
			cs.Remove()
		}
	}
}

// ---------- crash points ----------

const helperOld = "OLD-CONTENT"
const helperNew = "NEW-CONTENT"

func helperBlob(tag string, n int) *blob {
	b := &blob{Name: tag, Parts: []string{tag, tag}}
	b.Data = make([]byte, n)
	x := uint32(12345)
	for i := range b.Data {
		x ^= x << 13
		x ^= x >> 17
		x ^= x << 5
		b.Data[i] = byte(x)
	}
	return b
}

var helperCfg = config{GOOS: "js", GOARCH: "ecmascript", GOROOT: "/r", GOPATH: "/p", Version: "crash"}

// helperMain runs in the strace'd child: one Store of the new content.
func helperMain() {
	n, _ := strconv.Atoi(os.Getenv("VERIF_C20_SIZE"))
	ok := helperCfg.cache().Store(helperBlob(helperNew, n), "victim", time.Unix(1700000100, 0))
	if !ok {
		os.Exit(3)
	}
	os.Exit(0)
}

func crashPoints(t *testing.T, rounds int) {
	if _, err := exec.LookPath("strace"); err != nil {
		drv.Infra("strace not available")
	}
	exe, _ := os.Executable()
	tm := time.Unix(1700000000, 0)
	sizes := []int{300000, 2000, 1200000, 70000}
	kills := 0
	for round := 0; round < rounds*2; round++ {
		withOld := round%2 == 1
		size := sizes[(round/2)%len(sizes)]
		for _, sc := range []string{"write", "openat", "close", "renameat", "mkdirat", "fchmodat", "fcntl", "unlinkat"} {
			for n := 1; n < 400; n++ {
				cache.Clear()
				old := helperBlob(helperOld, 5000)
				if withOld {
					if ok, _ := safeStore(helperCfg.cache(), old, "victim", tm); !ok {
						drv.Infra("store old failed")
					}
				}
				cmd := exec.Command("strace", "-f", "-qq", "-o", "/dev/null", "-e", "trace="+sc, "-e", fmt.Sprintf("inject=%s:signal=SIGKILL:when=%d", sc, n), exe)
				cmd.Env = append(os.Environ(), "VERIF_C20_HELPER=1", "VERIF_C20_SIZE="+strconv.Itoa(size))
				out, err := cmd.CombinedOutput()
				killed := err != nil
				if err != nil {
					if ee, ok := err.(*exec.ExitError); ok && ee.ExitCode() == 3 {
						drv.Infra("helper Store failed without kill: %s", out)
					}
				}
				var got blob
				hit, pn := safeLoad(helperCfg.cache(), &got, "victim", tm)
				desc := fmt.Sprintf("SIGKILL at %s #%d of Store (payload %d bytes, old entry present: %v)", sc, n, size, withOld)
				files := map[string]string{"crash.txt": desc + "\n"}
				if killed {
					kills++
					ev.Case("crash:"+desc, true)
					ev.Count("kill:"+sc, 1)
				}
				switch {
				case pn != nil:
					ev.Violation(desc+": Load panicked: "+fmt.Sprint(pn), files)
				case hit && got.equal(helperBlob(helperNew, size)):
				case hit && withOld && got.equal(old):
				case hit:
					ev.Violation(desc+": Load returned a partial or foreign package ("+got.Name+", "+strconv.Itoa(len(got.Data))+" bytes)", files)
				case !hit && !killed:
					ev.Violation(desc+": Store completed but Load misses", files)
				}
				if !killed {
					break // the N-th call does not exist: enumeration of this syscall is complete
				}
				if ev.Violations() > 3 {
					return
				}
			}
		}
	}
	ev.Count("kills_total", int64(kills))
	if kills < 10 {
		drv.Infra("strace injection produced only %d kills", kills)
	}
	ev.Sample(fmt.Sprintf("crash enumeration: %d SIGKILL points over write/openat/close/renameat/mkdirat/... of Store", kills))
}

// ---------- replay ----------

func replayDir(dir string) {
	files := drv.ReadReplayDir(dir)
	if d, ok := files["damaged.bin"]; ok {
		// damage replay: store nothing, place the damaged file where the victim entry lives
		cache.Clear()
		c := config{GOOS: "js", GOARCH: "ecmascript", GOROOT: "/usr/go", GOPATH: "/home/g", Version: "v"}
		tm := time.Unix(1700000000, 0)
		var orig blob
		// recover the original content by loading the original file
		safeStore(c.cache(), &blob{Name: "x"}, "victim", tm)
		fs := cachedFiles()
		if len(fs) != 1 {
			drv.Infra("replay: unexpected cache layout")
		}
		os.WriteFile(fs[0], []byte(files["original.bin"]), 0o644)
		if hit, _ := safeLoad(c.cache(), &orig, "victim", tm); !hit {
			drv.Infra("replay: original file does not load")
		}
		os.WriteFile(fs[0], []byte(d), 0o644)
		var got blob
		hit, pn := safeLoad(c.cache(), &got, "victim", tm)
		ev.Case("replay:"+dir, true)
		if pn != nil || (hit && !got.equal(&orig)) {
			ev.Violation(fmt.Sprintf("replay %s (%s): hit=%v panic=%v with altered content", dir, strings.TrimSpace(files["kind.txt"]), hit, pn), files)
		}
	}
}
