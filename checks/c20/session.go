package c20

import (
	"bytes"
	"fmt"
	"os"
	"path/filepath"
	"strings"
	"time"

	gbuild "github.com/gopherjs/gopherjs/build"
	"github.com/gopherjs/gopherjs/build/cache"
	"github.com/gopherjs/gopherjs/compiler"
	"pgregory.net/rapid"

	"verif/internal/drv"
)

// Session level: the cache is switched off in NewSession in this tree, so a cache is installed
// through the verif hook. A history of edits and builds of a small project (a main package,
// a library package, loose single-file programs built with BuildFiles) is run twice per build:
// with the shared on-disk cache and without any cache. The two outputs must be identical:
// whatever the session restores from the cache has to be what its sources say now.

func newSession(withCache bool) (*gbuild.Session, error) {
	s, err := gbuild.NewSession(&gbuild.Options{NoCache: true, Quiet: true})
	if err != nil {
		return nil, err
	}
	if withCache {
		env := s.XContext().Env()
		gbuild.VerifSetCache(s, &cache.BuildCache{
			GOOS: env.GOOS, GOARCH: env.GOARCH, GOROOT: env.GOROOT, GOPATH: env.GOPATH,
			BuildTags: append([]string{}, env.BuildTags...), Version: compiler.Version,
		})
	}
	return s, nil
}

func buildProject(dir string, withCache bool) (js []byte, err error) {
	defer func() {
		if r := recover(); r != nil {
			err = fmt.Errorf("compiler panic: %v", r)
		}
	}()
	s, err := newSession(withCache)
	if err != nil {
		return nil, err
	}
	pkg, err := s.XContext().Import(".", dir, 0)
	if err != nil {
		return nil, err
	}
	archive, err := s.BuildProject(pkg)
	if err != nil {
		return nil, err
	}
	deps, err := compiler.ImportDependencies(archive, s.ImportResolverFor(""))
	if err != nil {
		return nil, err
	}
	var buf bytes.Buffer
	if err := compiler.WriteProgramCode(deps, compiler.DefaultFilter(&buf), s.GoRelease()); err != nil {
		return nil, err
	}
	return buf.Bytes(), nil
}

func buildLoose(file string, withCache bool) (js []byte, err error) {
	defer func() {
		if r := recover(); r != nil {
			err = fmt.Errorf("compiler panic: %v", r)
		}
	}()
	s, err := newSession(withCache)
	if err != nil {
		return nil, err
	}
	out := file + fmt.Sprintf(".%v.js", withCache)
	if err := s.BuildFiles([]string{file}, out, filepath.Dir(file)); err != nil {
		return nil, err
	}
	defer os.Remove(out)
	return os.ReadFile(out)
}

func sessionHistory(rt *rapid.T) *drv.Fail {
	id := drv.NewID("c20s_")
	dir := filepath.Join(drv.GopathSrc(), id)
	defer os.RemoveAll(dir)
	files := map[string]string{}
	write := func(rel, src string) {
		files[rel] = src
		p := filepath.Join(dir, rel)
		os.MkdirAll(filepath.Dir(p), 0o755)
		if err := os.WriteFile(p, []byte(src), 0o644); err != nil {
			drv.Infra("write %s: %v", p, err)
		}
	}
	libSrc := func(k int) string {
		return fmt.Sprintf("package lib\n\nconst Version = %d\n\nfunc Msg() string { return \"lib version %d\" }\n", k, k)
	}
	mainSrc := func(k int) string {
		return fmt.Sprintf("package main\n\nimport \"%s/lib\"\n\nfunc main() { println(\"main %d\", lib.Msg(), lib.Version) }\n", id, k)
	}
	looseSrc := func(name string, k int) string {
		return fmt.Sprintf("package main\n\nfunc main() { println(\"hello from %s generation %d\") }\n", name, k)
	}
	gen := 0
	write("lib/lib.go", libSrc(gen))
	write("main.go", mainSrc(gen))
	write("loose/a.go", looseSrc("a", gen))
	write("loose/b.go", looseSrc("b", gen))
	var hist []string
	fail := func(format string, a ...any) *drv.Fail {
		f := map[string]string{"history.txt": strings.Join(hist, "\n") + "\n"}
		for k, v := range files {
			f[k] = strings.ReplaceAll(v, id+"/", "ROOT/")
		}
		return drv.Failf(f, format, a...)
	}
	n := rapid.IntRange(3, 10).Draw(rt, "steps")
	builds := 0
	for step := 0; step < n; step++ {
		switch op := rapid.IntRange(0, 6).Draw(rt, "op"); op {
		case 0:
			gen++
			time.Sleep(3 * time.Millisecond) // a later modification time than any cache entry
			write("lib/lib.go", libSrc(gen))
			hist = append(hist, fmt.Sprintf("edit lib/lib.go -> version %d", gen))
		case 1:
			gen++
			time.Sleep(3 * time.Millisecond)
			write("main.go", mainSrc(gen))
			hist = append(hist, fmt.Sprintf("edit main.go -> %d", gen))
		case 2:
			gen++
			time.Sleep(3 * time.Millisecond)
			name := rapid.SampledFrom([]string{"a", "b"}).Draw(rt, "loosefile")
			write("loose/"+name+".go", looseSrc(name, gen))
			hist = append(hist, fmt.Sprintf("edit loose/%s.go -> %d", name, gen))
		case 3, 4:
			hist = append(hist, "build the project with and without the cache")
			withC, err1 := buildProject(dir, true)
			noC, err2 := buildProject(dir, false)
			builds++
			if err1 != nil || err2 != nil {
				return fail("project build failed (with cache: %v, without: %v)", err1, err2)
			}
			if !bytes.Equal(withC, noC) {
				return fail("the project built with the cache differs from the build without it after: %s (%s)", hist[len(hist)-2:], firstDiffLine(withC, noC))
			}
		default:
			name := rapid.SampledFrom([]string{"a", "b"}).Draw(rt, "loosebuild")
			hist = append(hist, "build loose/"+name+".go with and without the cache")
			file := filepath.Join(dir, "loose", name+".go")
			withC, err1 := buildLoose(file, true)
			noC, err2 := buildLoose(file, false)
			builds++
			if err1 != nil || err2 != nil {
				return fail("BuildFiles failed (with cache: %v, without: %v)", err1, err2)
			}
			if !bytes.Equal(withC, noC) {
				return fail("loose file %s.go built with the cache differs from the build without it (%s)", name, firstDiffLine(withC, noC))
			}
		}
	}
	ev.Case("session-history:"+strings.Join(hist, ";"), builds >= 2 && gen >= 1)
	ev.Count("session_builds", int64(builds))
	return nil
}

func firstDiffLine(a, b []byte) string {
	la, lb := strings.Split(string(a), "\n"), strings.Split(string(b), "\n")
	for i := 0; i < len(la) && i < len(lb); i++ {
		if la[i] != lb[i] {
			x, y := la[i], lb[i]
			if len(x) > 160 {
				x = x[:160]
			}
			if len(y) > 160 {
				y = y[:160]
			}
			return fmt.Sprintf("line %d: %q vs %q", i+1, x, y)
		}
	}
	return fmt.Sprintf("%d vs %d lines", len(la), len(lb))
}
