// Package chanmodel is a reference model of Go channels, select, close and goroutine
// termination, written from the language specification (DESIGN.md, Appendix A). It decides
// whether an observed trace of goroutine-tagged log lines, followed by the observed way the
// program ended, can be produced by some execution of a configuration.
package chanmodel

import (
	"fmt"
	"strings"
)

type OpKind int

const (
	OpSend OpKind = iota
	OpRecv
	OpRecv2
	OpClose
	OpSelect
	OpRange
	OpLen
	OpGosched
	OpGoexit
	OpGo
)

// Case is one communication clause of a select.
type Case struct {
	Send bool
	Ch   int
	Val  int
}

// Op is one operation of a goroutine's script.
type Op struct {
	Kind    OpKind
	Ch      int
	Val     int
	Cases   []Case
	Default bool
	Bound   int // OpRange: at most Bound values are taken
	G       int // OpGo: the goroutine that is started
}

type ChanSpec struct {
	Cap int
	Nil bool
}

// Config is a set of channels and one script per goroutine; Scripts[0] is main.
type Config struct {
	Chans   []ChanSpec
	Scripts [][]Op
}

const (
	stNotStarted = iota
	stRunning    // about to execute the operation at pc
	stParked     // waiting inside the operation at pc
	stLogging    // the operation is complete, its log line has not been printed yet
	stDone
)

type gstate struct {
	status  int
	pc      int
	count   int    // values taken by the range loop at pc
	pending string // line to print
	stay    bool   // after printing, execute the operation at pc again (range)
	exit    bool   // after printing, the goroutine is done (Goexit, end of script)
}

type cstate struct {
	buf    []int
	closed bool
}

type state struct {
	gs  []gstate
	cs  []cstate
	ret bool // main has returned (not merely left through Goexit)
}

func (s *state) clone() *state {
	n := &state{gs: append([]gstate(nil), s.gs...), cs: make([]cstate, len(s.cs)), ret: s.ret}
	for i, c := range s.cs {
		n.cs[i] = cstate{buf: append([]int(nil), c.buf...), closed: c.closed}
	}
	return n
}

func (s *state) key() string {
	var sb strings.Builder
	for _, g := range s.gs {
		fmt.Fprintf(&sb, "%d.%d.%d.%s.%v.%v|", g.status, g.pc, g.count, g.pending, g.stay, g.exit)
	}
	for _, c := range s.cs {
		fmt.Fprintf(&sb, "%v%v|", c.buf, c.closed)
	}
	if s.ret {
		sb.WriteString("R")
	}
	return sb.String()
}

// succ is a successor state; line is the log line printed by the step ("" for a silent step).
type succ struct {
	st   *state
	line string
}

type offer struct {
	idx  int // select case index, -1 for a plain operation
	send bool
	ch   int
	val  int
}

// Model explores a configuration.
type Model struct {
	cfg    *Config
	States int // distinct (state, position) pairs visited by the last query
}

func New(cfg *Config) *Model { return &Model{cfg: cfg} }

func (m *Model) initial() *state {
	s := &state{gs: make([]gstate, len(m.cfg.Scripts)), cs: make([]cstate, len(m.cfg.Chans))}
	s.gs[0].status = stRunning
	return s
}

func (m *Model) offers(g int, pc int) (offs []offer, hasDefault bool) {
	op := m.cfg.Scripts[g][pc]
	switch op.Kind {
	case OpSend:
		return []offer{{-1, true, op.Ch, op.Val}}, false
	case OpRecv, OpRecv2, OpRange:
		return []offer{{-1, false, op.Ch, 0}}, false
	case OpSelect:
		for i, c := range op.Cases {
			offs = append(offs, offer{i, c.Send, c.Ch, c.Val})
		}
		return offs, op.Default
	}
	return nil, false
}

// Line formats: shared with the program printer (progsrc.go).
func lineSend(g int, o offer, ok bool) string {
	res := "ok"
	if !ok {
		res = "panic:closed"
		if o.idx >= 0 {
			// a panicking select does not tell which case it took
			return fmt.Sprintf("g%d select panic:closed", g)
		}
	}
	if o.idx >= 0 {
		return fmt.Sprintf("g%d select case%d send c%d %d %s", g, o.idx, o.ch, o.val, res)
	}
	return fmt.Sprintf("g%d send c%d %d %s", g, o.ch, o.val, res)
}

// complete finishes the communication operation of goroutine g (running or parked at pc) with a
// result and moves it to the logging state.
func (m *Model) complete(s *state, g int, o offer, val int, ok bool) {
	gs := &s.gs[g]
	op := m.cfg.Scripts[g][gs.pc]
	gs.status = stLogging
	gs.stay, gs.exit = false, false
	switch {
	case o.send:
		gs.pending = lineSend(g, o, ok)
	case op.Kind == OpRecv:
		gs.pending = fmt.Sprintf("g%d recv c%d = %d", g, o.ch, val)
	case op.Kind == OpRecv2:
		gs.pending = fmt.Sprintf("g%d recv2 c%d = %d %v", g, o.ch, val, ok)
	case op.Kind == OpRange:
		if ok {
			gs.count++
			gs.pending = fmt.Sprintf("g%d range c%d = %d", g, o.ch, val)
			gs.stay = true
		} else {
			gs.pending = fmt.Sprintf("g%d range c%d end closed", g, o.ch)
			gs.count = 0
		}
	case op.Kind == OpSelect:
		gs.pending = fmt.Sprintf("g%d select case%d recv c%d = %d %v", g, o.idx, o.ch, val, ok)
	}
}

// parkedOn lists the parked goroutines (other than g) that offer the given direction on channel ch.
func (m *Model) parkedOn(s *state, g, ch int, send bool) []struct {
	h int
	o offer
} {
	var out []struct {
		h int
		o offer
	}
	for h := range s.gs {
		if h == g || s.gs[h].status != stParked {
			continue
		}
		offs, _ := m.offers(h, s.gs[h].pc)
		for _, o := range offs {
			// every matching case of a waiting select is a candidate
			if o.ch == ch && o.send == send && !m.cfg.Chans[o.ch].Nil {
				out = append(out, struct {
					h int
					o offer
				}{h, o})
			}
		}
	}
	return out
}

// execute returns the successors of the running goroutine g executing its operation.
func (m *Model) execute(s *state, g int) []succ {
	gs := s.gs[g]
	script := m.cfg.Scripts[g]
	if gs.pc >= len(script) {
		n := s.clone()
		n.gs[g].status, n.gs[g].pending, n.gs[g].exit = stLogging, fmt.Sprintf("g%d end", g), true
		n.gs[g].pc = len(script) + 1 // marks "returned" for the log step
		return []succ{{n, ""}}
	}
	op := script[gs.pc]
	simple := func(line string, f func(n *state)) []succ {
		n := s.clone()
		if f != nil {
			f(n)
		}
		n.gs[g].status, n.gs[g].pending, n.gs[g].stay, n.gs[g].exit = stLogging, line, false, false
		return []succ{{n, ""}}
	}
	switch op.Kind {
	case OpGosched:
		return simple(fmt.Sprintf("g%d gosched", g), nil)
	case OpGoexit:
		n := s.clone()
		n.gs[g].status, n.gs[g].pending, n.gs[g].exit = stLogging, fmt.Sprintf("g%d goexit deferred", g), true
		return []succ{{n, ""}}
	case OpGo:
		return simple(fmt.Sprintf("g%d go g%d", g, op.G), func(n *state) {
			if n.gs[op.G].status == stNotStarted {
				n.gs[op.G].status = stRunning
			}
		})
	case OpLen:
		l, c := 0, 0
		if !m.cfg.Chans[op.Ch].Nil {
			l, c = len(s.cs[op.Ch].buf), m.cfg.Chans[op.Ch].Cap
		}
		return simple(fmt.Sprintf("g%d len c%d = %d cap %d", g, op.Ch, l, c), nil)
	case OpClose:
		if m.cfg.Chans[op.Ch].Nil {
			return simple(fmt.Sprintf("g%d close c%d panic:nil", g, op.Ch), nil)
		}
		if s.cs[op.Ch].closed {
			return simple(fmt.Sprintf("g%d close c%d panic:closed", g, op.Ch), nil)
		}
		// every goroutine waiting on the channel wakes up: receivers with the zero value,
		// senders with a panic; a select waiting with several cases on this channel may
		// take any of them
		type cand struct {
			h int
			o offer
		}
		byG := map[int][]cand{}
		var order []int
		for _, send := range []bool{false, true} {
			for _, p := range m.parkedOn(s, g, op.Ch, send) {
				if _, ok := byG[p.h]; !ok {
					order = append(order, p.h)
				}
				byG[p.h] = append(byG[p.h], cand{p.h, p.o})
			}
		}
		var out []succ
		var rec func(i int, n *state)
		rec = func(i int, n *state) {
			if i == len(order) {
				n.cs[op.Ch].closed = true
				n.gs[g].status, n.gs[g].pending, n.gs[g].stay, n.gs[g].exit = stLogging, fmt.Sprintf("g%d close c%d ok", g, op.Ch), false, false
				out = append(out, succ{n, ""})
				return
			}
			for _, c := range byG[order[i]] {
				nn := n.clone()
				m.complete(nn, c.h, c.o, 0, false)
				rec(i+1, nn)
			}
		}
		rec(0, s.clone())
		return out
	case OpRange:
		if gs.count >= op.Bound {
			return simple(fmt.Sprintf("g%d range c%d end bound", g, op.Ch), func(n *state) { n.gs[g].count = 0 })
		}
	}
	// communication
	offs, hasDefault := m.offers(g, gs.pc)
	var out []succ
	for _, o := range offs {
		if m.cfg.Chans[o.ch].Nil {
			continue
		}
		c := s.cs[o.ch]
		if o.send {
			if c.closed {
				n := s.clone()
				m.complete(n, g, o, 0, false)
				out = append(out, succ{n, ""})
				continue
			}
			if ps := m.parkedOn(s, g, o.ch, false); len(ps) > 0 {
				for _, p := range ps {
					n := s.clone()
					m.complete(n, p.h, p.o, o.val, true)
					m.complete(n, g, o, 0, true)
					out = append(out, succ{n, ""})
				}
				continue
			}
			if len(c.buf) < m.cfg.Chans[o.ch].Cap {
				n := s.clone()
				n.cs[o.ch].buf = append(n.cs[o.ch].buf, o.val)
				m.complete(n, g, o, 0, true)
				out = append(out, succ{n, ""})
			}
			continue
		}
		// receive
		if len(c.buf) > 0 {
			v := c.buf[0]
			ps := m.parkedOn(s, g, o.ch, true)
			if len(ps) == 0 {
				n := s.clone()
				n.cs[o.ch].buf = n.cs[o.ch].buf[1:]
				m.complete(n, g, o, v, true)
				out = append(out, succ{n, ""})
			}
			for _, p := range ps {
				// a sender waiting for room moves its value into the buffer
				n := s.clone()
				n.cs[o.ch].buf = append(n.cs[o.ch].buf[1:], p.o.val)
				m.complete(n, p.h, p.o, 0, true)
				m.complete(n, g, o, v, true)
				out = append(out, succ{n, ""})
			}
			continue
		}
		if ps := m.parkedOn(s, g, o.ch, true); len(ps) > 0 {
			for _, p := range ps {
				n := s.clone()
				m.complete(n, p.h, p.o, 0, true)
				m.complete(n, g, o, p.o.val, true)
				out = append(out, succ{n, ""})
			}
			continue
		}
		if c.closed {
			n := s.clone()
			m.complete(n, g, o, 0, false)
			out = append(out, succ{n, ""})
		}
	}
	if len(out) > 0 {
		return out
	}
	if hasDefault {
		return simple(fmt.Sprintf("g%d select default", g), nil)
	}
	n := s.clone()
	n.gs[g].status = stParked
	return []succ{{n, ""}}
}

// steps returns every transition enabled in s.
func (m *Model) steps(s *state) []succ {
	var out []succ
	for g := range s.gs {
		switch s.gs[g].status {
		case stRunning:
			out = append(out, m.execute(s, g)...)
		case stLogging:
			n := s.clone()
			gs := &n.gs[g]
			line := gs.pending
			gs.pending = ""
			switch {
			case gs.exit:
				gs.status = stDone
				if g == 0 && gs.pc == len(m.cfg.Scripts[0])+1 {
					n.ret = true
				}
			case gs.stay:
				gs.status = stRunning
			default:
				gs.status = stRunning
				gs.pc++
			}
			gs.stay, gs.exit = false, false
			out = append(out, succ{n, line})
		}
	}
	return out
}

func (m *Model) mainDone(s *state) bool { return s.ret }

// Member reports whether the trace followed by the end kind ("exit0" or "deadlock") is producible.
// For exit0 the program ends when main has returned; whatever the other goroutines still print
// before the process is gone is accepted as long as the model allows it.
func (m *Model) Member(trace []string, end string) bool {
	seen := map[string]bool{}
	m.States = 0
	var dfs func(s *state, pos int) bool
	dfs = func(s *state, pos int) bool {
		k := fmt.Sprintf("%d#%s", pos, s.key())
		if seen[k] {
			return false
		}
		seen[k] = true
		m.States++
		if m.States > 2000000 {
			return false
		}
		st := m.steps(s)
		if pos == len(trace) {
			switch end {
			case "exit0":
				if m.mainDone(s) {
					return true
				}
			case "deadlock":
				if len(st) == 0 && !m.mainDone(s) {
					return true
				}
			}
		}
		for _, x := range st {
			if x.line == "" {
				if dfs(x.st, pos) {
					return true
				}
			} else if pos < len(trace) && trace[pos] == x.line {
				if dfs(x.st, pos+1) {
					return true
				}
			}
		}
		return false
	}
	return dfs(m.initial(), 0)
}

// Summary describes the reachable behaviour of a configuration.
type Summary struct {
	States      int
	CanExit     bool // some execution lets main return
	CanDeadlock bool // some execution ends with every goroutine asleep and main unfinished
	Parks       bool // some execution parks a goroutine
	Truncated   bool
}

// Explore visits every reachable state (up to limit).
func (m *Model) Explore(limit int) Summary {
	var sum Summary
	seen := map[string]bool{}
	stack := []*state{m.initial()}
	for len(stack) > 0 {
		s := stack[len(stack)-1]
		stack = stack[:len(stack)-1]
		k := s.key()
		if seen[k] {
			continue
		}
		seen[k] = true
		sum.States++
		if sum.States >= limit {
			sum.Truncated = true
			break
		}
		for _, g := range s.gs {
			if g.status == stParked {
				sum.Parks = true
			}
		}
		st := m.steps(s)
		if m.mainDone(s) {
			sum.CanExit = true
		} else if len(st) == 0 {
			sum.CanDeadlock = true
		}
		for _, x := range st {
			stack = append(stack, x.st)
		}
	}
	return sum
}
