package chanmodel

import (
	"fmt"
	"strings"

	"pgregory.net/rapid"
)

// Source renders a configuration as Go declarations; every name carries the prefix so that
// several configurations fit into one main package. The entry point is <prefix>main().
// The program prints exactly the lines the model predicts (model.go: line formats).
func Source(cfg *Config, prefix string) string {
	var sb strings.Builder
	for i, c := range cfg.Chans {
		if c.Nil {
			fmt.Fprintf(&sb, "var %sc%d chan int\n", prefix, i)
		} else {
			fmt.Fprintf(&sb, "var %sc%d = make(chan int, %d)\n", prefix, i, c.Cap)
		}
	}
	sb.WriteString("\n")
	for g, script := range cfg.Scripts {
		name := fmt.Sprintf("%sg%d", prefix, g)
		if g == 0 {
			name = prefix + "main"
		}
		fmt.Fprintf(&sb, "func %s() {\n", name)
		for _, op := range script {
			ch := fmt.Sprintf("%sc%d", prefix, op.Ch)
			switch op.Kind {
			case OpSend:
				fmt.Fprintf(&sb, "\tfunc() {\n\t\tdefer func() {\n\t\t\tif r := recover(); r != nil {\n\t\t\t\tout(\"g%d send c%d %d panic:\" + chanPanic(r))\n\t\t\t}\n\t\t}()\n\t\t%s <- %d\n\t\tout(\"g%d send c%d %d ok\")\n\t}()\n", g, op.Ch, op.Val, ch, op.Val, g, op.Ch, op.Val)
			case OpRecv:
				fmt.Fprintf(&sb, "\t{\n\t\tv := <-%s\n\t\tout(\"g%d recv c%d = \" + itoa(v))\n\t}\n", ch, g, op.Ch)
			case OpRecv2:
				fmt.Fprintf(&sb, "\t{\n\t\tv, ok := <-%s\n\t\tout(\"g%d recv2 c%d = \" + itoa(v) + \" \" + btoa(ok))\n\t}\n", ch, g, op.Ch)
			case OpClose:
				fmt.Fprintf(&sb, "\tfunc() {\n\t\tdefer func() {\n\t\t\tif r := recover(); r != nil {\n\t\t\t\tout(\"g%d close c%d panic:\" + chanPanic(r))\n\t\t\t}\n\t\t}()\n\t\tclose(%s)\n\t\tout(\"g%d close c%d ok\")\n\t}()\n", g, op.Ch, ch, g, op.Ch)
			case OpSelect:
				fmt.Fprintf(&sb, "\tfunc() {\n\t\tdefer func() {\n\t\t\tif r := recover(); r != nil {\n\t\t\t\tout(\"g%d select panic:\" + chanPanic(r))\n\t\t\t}\n\t\t}()\n\t\tselect {\n", g)
				for i, c := range op.Cases {
					cch := fmt.Sprintf("%sc%d", prefix, c.Ch)
					if c.Send {
						fmt.Fprintf(&sb, "\t\tcase %s <- %d:\n\t\t\tout(\"g%d select case%d send c%d %d ok\")\n", cch, c.Val, g, i, c.Ch, c.Val)
					} else {
						fmt.Fprintf(&sb, "\t\tcase v, ok := <-%s:\n\t\t\tout(\"g%d select case%d recv c%d = \" + itoa(v) + \" \" + btoa(ok))\n", cch, g, i, c.Ch)
					}
				}
				if op.Default {
					fmt.Fprintf(&sb, "\t\tdefault:\n\t\t\tout(\"g%d select default\")\n", g)
				}
				sb.WriteString("\t\t}\n\t}()\n")
			case OpRange:
				fmt.Fprintf(&sb, "\t{\n\t\tn := 0\n\t\tfor v := range %s {\n\t\t\tout(\"g%d range c%d = \" + itoa(v))\n\t\t\tn++\n\t\t\tif n == %d {\n\t\t\t\tbreak\n\t\t\t}\n\t\t}\n\t\tif n == %d {\n\t\t\tout(\"g%d range c%d end bound\")\n\t\t} else {\n\t\t\tout(\"g%d range c%d end closed\")\n\t\t}\n\t}\n", ch, g, op.Ch, op.Bound, op.Bound, g, op.Ch, g, op.Ch)
			case OpLen:
				fmt.Fprintf(&sb, "\tout(\"g%d len c%d = \" + itoa(len(%s)) + \" cap \" + itoa(cap(%s)))\n", g, op.Ch, ch, ch)
			case OpGosched:
				fmt.Fprintf(&sb, "\truntime.Gosched()\n\tout(\"g%d gosched\")\n", g)
			case OpGoexit:
				fmt.Fprintf(&sb, "\tfunc() {\n\t\tdefer out(\"g%d goexit deferred\")\n\t\truntime.Goexit()\n\t}()\n", g)
			case OpGo:
				fmt.Fprintf(&sb, "\tgo %sg%d()\n\tout(\"g%d go g%d\")\n", prefix, op.G, g, op.G)
			}
		}
		fmt.Fprintf(&sb, "\tout(\"g%d end\")\n}\n\n", g)
	}
	return sb.String()
}

// Helpers is shared by all configurations of a bundle (rt.go provides out, itoa, btoa, contains).
const Helpers = `
import "runtime"

// chanPanic names the run-time error of a channel operation.
func chanPanic(r interface{}) string {
	e, ok := r.(runtime.Error)
	if !ok {
		return "not-a-runtime-error"
	}
	switch s := e.Error(); {
	case contains(s, "close of nil channel"):
		return "nil"
	case contains(s, "send on closed channel"), contains(s, "close of closed channel"):
		return "closed"
	default:
		return "?" + s
	}
}
`

// Describe renders a configuration for reports.
func Describe(cfg *Config) string {
	var sb strings.Builder
	for i, c := range cfg.Chans {
		if c.Nil {
			fmt.Fprintf(&sb, "c%d nil; ", i)
		} else {
			fmt.Fprintf(&sb, "c%d cap %d; ", i, c.Cap)
		}
	}
	for g, script := range cfg.Scripts {
		fmt.Fprintf(&sb, "\n  g%d:", g)
		for _, op := range script {
			switch op.Kind {
			case OpSend:
				fmt.Fprintf(&sb, " c%d<-%d", op.Ch, op.Val)
			case OpRecv:
				fmt.Fprintf(&sb, " <-c%d", op.Ch)
			case OpRecv2:
				fmt.Fprintf(&sb, " ,ok<-c%d", op.Ch)
			case OpClose:
				fmt.Fprintf(&sb, " close(c%d)", op.Ch)
			case OpSelect:
				sb.WriteString(" select{")
				for _, c := range op.Cases {
					if c.Send {
						fmt.Fprintf(&sb, "c%d<-%d;", c.Ch, c.Val)
					} else {
						fmt.Fprintf(&sb, "<-c%d;", c.Ch)
					}
				}
				if op.Default {
					sb.WriteString("default")
				}
				sb.WriteString("}")
			case OpRange:
				fmt.Fprintf(&sb, " range(c%d,%d)", op.Ch, op.Bound)
			case OpLen:
				fmt.Fprintf(&sb, " len(c%d)", op.Ch)
			case OpGosched:
				sb.WriteString(" gosched")
			case OpGoexit:
				sb.WriteString(" goexit")
			case OpGo:
				fmt.Fprintf(&sb, " go(g%d)", op.G)
			}
		}
	}
	return sb.String()
}

// Gen draws a small configuration.
func Gen(rt *rapid.T) Config {
	var cfg Config
	nc := rapid.IntRange(1, 3).Draw(rt, "nchans")
	for i := 0; i < nc; i++ {
		cfg.Chans = append(cfg.Chans, ChanSpec{Cap: rapid.IntRange(0, 2).Draw(rt, "cap"), Nil: rapid.IntRange(0, 9).Draw(rt, "nil") == 0})
	}
	ch := func() int { return rapid.IntRange(0, nc-1).Draw(rt, "ch") }
	val := 0
	nextVal := func() int { val++; return val }
	ng := rapid.IntRange(2, 4).Draw(rt, "ngoroutines")
	join := rapid.IntRange(0, 2).Draw(rt, "join") > 0
	joinCh := -1
	if join {
		joinCh = len(cfg.Chans)
		cfg.Chans = append(cfg.Chans, ChanSpec{Cap: rapid.IntRange(0, ng-1).Draw(rt, "joincap")})
	}
	// two construction styles: free scripts (most of them block somewhere) and paired scripts
	// (every send has a matching receive somewhere, so executions get far)
	paired := rapid.IntRange(0, 2).Draw(rt, "paired") > 0
	pre := make([][]Op, ng)
	if paired {
		ncomm := rapid.IntRange(1, 6).Draw(rt, "ncomm")
		for k := 0; k < ncomm; k++ {
			c := ch()
			gs := rapid.IntRange(0, ng-1).Draw(rt, "sender")
			gr := rapid.IntRange(0, ng-2).Draw(rt, "receiver")
			if gr >= gs {
				gr++
			}
			v := nextVal()
			switch rapid.IntRange(0, 3).Draw(rt, "sendform") {
			case 0:
				other := Case{Send: rapid.Bool().Draw(rt, "othersend"), Ch: ch()}
				if other.Send {
					other.Val = nextVal()
				}
				cases := []Case{{Send: true, Ch: c, Val: v}, other}
				if rapid.Bool().Draw(rt, "swapcases") {
					cases[0], cases[1] = cases[1], cases[0]
				}
				pre[gs] = append(pre[gs], Op{Kind: OpSelect, Cases: cases})
			case 1:
				pre[gs] = append(pre[gs], Op{Kind: OpSelect, Cases: []Case{{Send: true, Ch: c, Val: v}}})
			default:
				pre[gs] = append(pre[gs], Op{Kind: OpSend, Ch: c, Val: v})
			}
			switch rapid.IntRange(0, 5).Draw(rt, "recvform") {
			case 0:
				pre[gr] = append(pre[gr], Op{Kind: OpRecv2, Ch: c})
			case 1:
				pre[gr] = append(pre[gr], Op{Kind: OpSelect, Cases: []Case{{Ch: c}}})
			case 2:
				pre[gr] = append(pre[gr], Op{Kind: OpSelect, Cases: []Case{{Ch: ch()}, {Ch: c}}})
			case 3:
				pre[gr] = append(pre[gr], Op{Kind: OpRange, Ch: c, Bound: rapid.IntRange(1, 2).Draw(rt, "pbound")})
			default:
				pre[gr] = append(pre[gr], Op{Kind: OpRecv, Ch: c})
			}
			if rapid.IntRange(0, 4).Draw(rt, "closeafter") == 0 {
				who := rapid.IntRange(0, ng-1).Draw(rt, "closer")
				pre[who] = append(pre[who], Op{Kind: OpClose, Ch: c})
			}
		}
	}
	// a third style: a crowd of goroutines waiting in the same direction on one channel (plain
	// operations and selects mixed), then main closes the channel or serves them one by one
	crowd := !paired && ng >= 3 && rapid.IntRange(0, 1).Draw(rt, "crowd") == 0
	if crowd {
		paired = true // no free-style operations in front
		c := ch()
		recvCrowd := rapid.Bool().Draw(rt, "crowdrecv")
		for g := 1; g < ng; g++ {
			var op Op
			switch form := rapid.IntRange(0, 3).Draw(rt, "crowdform"); {
			case form <= 1:
				cases := []Case{{Send: !recvCrowd, Ch: c}}
				if form == 1 {
					cases = append(cases, Case{Send: rapid.Bool().Draw(rt, "crowdother"), Ch: ch()})
					if rapid.Bool().Draw(rt, "crowdswap") {
						cases[0], cases[1] = cases[1], cases[0]
					}
				}
				for i := range cases {
					if cases[i].Send {
						cases[i].Val = nextVal()
					}
				}
				op = Op{Kind: OpSelect, Cases: cases}
			case recvCrowd && form == 2:
				op = Op{Kind: OpRecv2, Ch: c}
			case recvCrowd:
				op = Op{Kind: OpRange, Ch: c, Bound: rapid.IntRange(1, 2).Draw(rt, "crowdbound")}
			default:
				op = Op{Kind: OpSend, Ch: c, Val: nextVal()}
			}
			pre[g] = append(pre[g], op)
		}
		for k := rapid.IntRange(1, 3).Draw(rt, "crowdyield"); k > 0; k-- {
			pre[0] = append(pre[0], Op{Kind: OpGosched})
		}
		switch rapid.IntRange(0, 2).Draw(rt, "crowdend") {
		case 0:
			pre[0] = append(pre[0], Op{Kind: OpClose, Ch: c})
		case 1:
			for g := 1; g < ng; g++ {
				if recvCrowd {
					pre[0] = append(pre[0], Op{Kind: OpSend, Ch: c, Val: nextVal()})
				} else {
					pre[0] = append(pre[0], Op{Kind: OpRecv2, Ch: c})
				}
			}
		default:
			if recvCrowd {
				pre[0] = append(pre[0], Op{Kind: OpSend, Ch: c, Val: nextVal()})
			} else {
				pre[0] = append(pre[0], Op{Kind: OpRecv, Ch: c})
			}
			pre[0] = append(pre[0], Op{Kind: OpClose, Ch: c})
		}
	}
	// a fourth style: a producer overfills a buffered channel and parks; the consumer takes
	// fewer values than are buffered and then waits for something only the producer will do
	if !paired && rapid.IntRange(0, 2).Draw(rt, "overflow") == 0 {
		paired = true
		c := ch()
		cfg.Chans[c].Nil = false
		if cfg.Chans[c].Cap == 0 {
			cfg.Chans[c].Cap = rapid.IntRange(1, 2).Draw(rt, "overflowcap")
		}
		sync := len(cfg.Chans)
		cfg.Chans = append(cfg.Chans, ChanSpec{Cap: 0})
		nsend := cfg.Chans[c].Cap + rapid.IntRange(1, 2).Draw(rt, "overflowextra")
		for k := 0; k < nsend; k++ {
			pre[1] = append(pre[1], Op{Kind: OpSend, Ch: c, Val: nextVal()})
		}
		pre[1] = append(pre[1], Op{Kind: OpSend, Ch: sync, Val: nextVal()})
		for k := rapid.IntRange(0, 2).Draw(rt, "overflowyield"); k > 0; k-- {
			pre[0] = append(pre[0], Op{Kind: OpGosched})
		}
		ntake := rapid.IntRange(1, nsend-cfg.Chans[c].Cap).Draw(rt, "overflowtake")
		for k := 0; k < ntake; k++ {
			if rapid.Bool().Draw(rt, "overflowsel") {
				pre[0] = append(pre[0], Op{Kind: OpSelect, Cases: []Case{{Ch: c}}})
			} else {
				pre[0] = append(pre[0], Op{Kind: OpRecv2, Ch: c})
			}
		}
		if ntake < nsend-cfg.Chans[c].Cap {
			// the producer still needs room: a helper drains the rest
			if ng >= 3 {
				pre[2] = append(pre[2], Op{Kind: OpRange, Ch: c, Bound: nsend - ntake})
			} else {
				pre[0] = append(pre[0], Op{Kind: OpRange, Ch: c, Bound: nsend - ntake - cfg.Chans[c].Cap})
			}
		}
		pre[0] = append(pre[0], Op{Kind: OpRecv, Ch: sync})
	}
	for g := 0; g < ng; g++ {
		script := pre[g]
		n := rapid.IntRange(1, 4).Draw(rt, "nops")
		if paired {
			n = rapid.IntRange(0, 1).Draw(rt, "nextra")
		}
		for i := 0; i < n; i++ {
			switch k := rapid.IntRange(0, 18).Draw(rt, "op"); {
			case k <= 3:
				script = append(script, Op{Kind: OpSend, Ch: ch(), Val: nextVal()})
			case k <= 6:
				script = append(script, Op{Kind: OpRecv, Ch: ch()})
			case k <= 8:
				script = append(script, Op{Kind: OpRecv2, Ch: ch()})
			case k <= 10:
				script = append(script, Op{Kind: OpClose, Ch: ch()})
			case k <= 14:
				op := Op{Kind: OpSelect, Default: rapid.IntRange(0, 2).Draw(rt, "default") == 0}
				ncase := rapid.IntRange(1, 3).Draw(rt, "ncases")
				for c := 0; c < ncase; c++ {
					cs := Case{Send: rapid.Bool().Draw(rt, "casesend"), Ch: ch()}
					if cs.Send {
						cs.Val = nextVal()
					}
					op.Cases = append(op.Cases, cs)
				}
				script = append(script, op)
			case k == 15:
				script = append(script, Op{Kind: OpRange, Ch: ch(), Bound: rapid.IntRange(1, 3).Draw(rt, "bound")})
			case k == 16:
				script = append(script, Op{Kind: OpLen, Ch: ch()})
			case k == 17:
				script = append(script, Op{Kind: OpGosched})
			default:
				if i == n-1 && rapid.IntRange(0, 1).Draw(rt, "goexit") == 0 {
					script = append(script, Op{Kind: OpGoexit})
				} else {
					script = append(script, Op{Kind: OpGosched})
				}
			}
		}
		if join && g > 0 && (len(script) == 0 || script[len(script)-1].Kind != OpGoexit) {
			script = append(script, Op{Kind: OpSend, Ch: joinCh, Val: 90 + g})
		}
		cfg.Scripts = append(cfg.Scripts, script)
	}
	// main starts the other goroutines at drawn positions and optionally waits for them
	main := cfg.Scripts[0]
	for g := 1; g < ng; g++ {
		pos := rapid.IntRange(0, len(main)).Draw(rt, "gopos")
		if crowd || paired || rapid.IntRange(0, 1).Draw(rt, "goearly") == 0 {
			pos = 0
		}
		if len(main) > 0 && main[len(main)-1].Kind == OpGoexit && pos == len(main) {
			pos = len(main) - 1
		}
		main = append(main[:pos], append([]Op{{Kind: OpGo, G: g}}, main[pos:]...)...)
	}
	if join {
		end := len(main)
		if end > 0 && main[end-1].Kind == OpGoexit {
			end--
		}
		var waits []Op
		for g := 1; g < ng; g++ {
			waits = append(waits, Op{Kind: OpRecv, Ch: joinCh})
		}
		main = append(main[:end], append(waits, main[end:]...)...)
	}
	cfg.Scripts[0] = main
	return cfg
}
