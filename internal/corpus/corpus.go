// Package corpus holds a few hand-written multi-feature programs. They seed the
// checks that accept arbitrary program directories (C05, C16, C17, C19, C20)
// next to the generated programs.
package corpus

// Program is a file tree of a main package; ROOT/ is replaced by the case id.
type Program struct {
	Name  string
	Files map[string]string
}

// All returns the corpus.
func All() []Program {
	return []Program{
		{Name: "basic", Files: map[string]string{"main.go": basicMain}},
		{Name: "generics3", Files: map[string]string{"main.go": genMain, "lib/lib.go": genLib, "mid/mid.go": genMid}},
		{Name: "conc", Files: map[string]string{"main.go": concMain}},
		{Name: "dispatch", Files: map[string]string{"main.go": dispMain, "shapes/shapes.go": dispShapes}},
		{Name: "linkname", Files: map[string]string{"main.go": linkMain, "impl/impl.go": linkImpl}},
	}
}

const basicMain = `package main

type point struct{ x, y int }

func (p point) add(q point) point { return point{p.x + q.x, p.y + q.y} }
func (p *point) scale(k int)      { p.x *= k; p.y *= k }

type stack []int

func (s *stack) push(v int) { *s = append(*s, v) }
func (s *stack) pop() int {
	old := *s
	v := old[len(old)-1]
	*s = old[:len(old)-1]
	return v
}

var table = map[string][]int{"a": {1, 2, 3}, "b": {4}, "c": nil}

func fib(n int) int {
	if n < 2 {
		return n
	}
	return fib(n-1) + fib(n-2)
}

func kindOf(v interface{}) string {
	switch x := v.(type) {
	case nil:
		return "nil"
	case int:
		return "int " + itoa(x)
	case string:
		return "string " + x
	case point:
		return "point " + itoa(x.x) + "," + itoa(x.y)
	case *point:
		return "ptr"
	case error:
		return "error " + x.Error()
	}
	return "other"
}

type myErr struct{ code int }

func (e myErr) Error() string { return "E" + itoa(e.code) }

func safeDiv(a, b int) (r int, err error) {
	defer func() {
		if x := recover(); x != nil {
			err = myErr{42}
		}
	}()
	return a / b, nil
}

func main() {
	p := point{1, 2}
	q := p.add(point{10, 20})
	q.scale(3)
	out(itoa(q.x) + " " + itoa(q.y))
	var s stack
	for i := 0; i < 5; i++ {
		s.push(i * i)
	}
	sum := 0
	for len(s) > 0 {
		sum = sum*3 + s.pop()
	}
	out("sum " + itoa(sum))
	keys := []string{"a", "b", "c", "d"}
	for _, k := range keys {
		v, ok := table[k]
		out(k + " " + itoa(len(v)) + " " + btoa(ok))
	}
	out("fib " + itoa(fib(15)))
	for _, v := range []interface{}{nil, 7, "x", p, &p, myErr{3}, 1.5} {
		out(kindOf(v))
	}
	r, err := safeDiv(7, 0)
	out(itoa(r) + " " + err.Error())
	r, err = safeDiv(7, 2)
	out(itoa(r) + " " + btoa(err == nil))
outer:
	for i := 0; i < 4; i++ {
		for j := 0; j < 4; j++ {
			switch {
			case j == 2:
				continue outer
			case i == 3:
				break outer
			}
			out("ij " + itoa(i) + itoa(j))
		}
	}
	fs := []func() int{}
	for i := 0; i < 3; i++ {
		i := i
		fs = append(fs, func() int { i += 10; return i })
	}
	for _, f := range fs {
		out("clo " + itoa(f()) + " " + itoa(f()))
	}
	str := "h\xffllo, 世界!"
	for i, c := range str {
		out(itoa(i) + ":" + itoa(int(c)))
	}
	arr := [3][2]int{{1, 2}, {3, 4}, {5, 6}}
	brr := arr
	brr[1][1] = 99
	out(itoa(arr[1][1]) + " " + itoa(brr[1][1]))
	var i8 int8 = 127
	i8++
	var u16 uint16 = 3
	u16 -= 5
	out(itoa(int(i8)) + " " + itoa(int(u16)))
	x := int64(1) << 40
	out(i64toa(x*x>>20) + " " + u64toa(uint64(x)*12345))
}
`

const genLib = `package lib

type Number interface {
	~int | ~int8 | ~int64 | ~float32 | ~float64
}

type Pair[K comparable, V any] struct {
	Key K
	Val V
}

type List[T any] struct {
	items []T
}

func (l *List[T]) Push(v T) { l.items = append(l.items, v) }
func (l *List[T]) Len() int { return len(l.items) }
func (l *List[T]) Each(f func(int, T)) {
	for i, v := range l.items {
		f(i, v)
	}
}

func Map[T, U any](xs []T, f func(T) U) []U {
	out := make([]U, 0, len(xs))
	for _, x := range xs {
		out = append(out, f(x))
	}
	return out
}

func Sum[T Number](xs []T) T {
	var s T
	for _, x := range xs {
		s += x
	}
	return s
}

func Mk[T any](v T) *List[T] {
	l := &List[T]{}
	l.Push(v)
	return l
}

func Zero[T any]() T { var z T; return z }

func Pairs[K comparable, V any](m map[K]V, order []K) []Pair[K, V] {
	var ps []Pair[K, V]
	for _, k := range order {
		ps = append(ps, Pair[K, V]{k, m[k]})
	}
	return ps
}
`

const genMid = `package mid

import "ROOT/lib"

type Small int8

func Wrap[T any](v T) *lib.List[[]T] { return lib.Mk([]T{v, v}) }

func SumSmall(n int) Small {
	xs := make([]Small, n)
	for i := range xs {
		xs[i] = Small(i * 9)
	}
	return lib.Sum(xs)
}

func Nested[T comparable](a, b T) map[lib.Pair[T, bool]]int {
	return map[lib.Pair[T, bool]]int{{a, a == b}: 1, {b, true}: 2}
}
`

const genMain = `package main

import (
	"ROOT/lib"
	"ROOT/mid"
)

type celsius float32

type named struct{ n string }

func describe(v interface{}) string {
	switch v.(type) {
	case *lib.List[int]:
		return "list[int]"
	case *lib.List[string]:
		return "list[string]"
	case *lib.List[[]int]:
		return "list[[]int]"
	case *lib.List[[]named]:
		return "list[[]named]"
	case lib.Pair[string, int]:
		return "pair[string,int]"
	case lib.Pair[int, string]:
		return "pair[int,string]"
	}
	return "?"
}

func main() {
	out(itoa(lib.Sum([]int{1, 2, 3})))
	out(itoa(int(lib.Sum([]int8{100, 100}))))
	out(f32s(float32(lib.Sum([]celsius{0.1, 0.2, 16777216}))))
	out(itoa(int(mid.SumSmall(6))))
	l := mid.Wrap(7)
	l.Each(func(i int, v []int) { out(itoa(i) + ":" + itoa(len(v)) + ":" + itoa(v[1])) })
	ln := mid.Wrap(named{"q"})
	for _, v := range []interface{}{lib.Mk(1), lib.Mk("s"), l, ln, lib.Pair[string, int]{"a", 1}, lib.Pair[int, string]{1, "a"}} {
		out(describe(v))
	}
	strs := lib.Map([]int{1, 2, 3}, func(i int) string { return itoa(i * i) })
	out(strs[0] + strs[1] + strs[2])
	m := mid.Nested("x", "x")
	out(itoa(len(m)))
	m2 := mid.Nested(1, 2)
	out(itoa(len(m2)) + " " + itoa(m2[lib.Pair[int, bool]{1, false}]))
	out(itoa(lib.Zero[int]()) + q(lib.Zero[string]()) + btoa(lib.Zero[*int]() == nil))
	ps := lib.Pairs(map[string]int{"a": 1, "b": 2}, []string{"b", "a", "z"})
	for _, p := range ps {
		out(p.Key + "=" + itoa(p.Val))
	}
	var a interface{} = lib.Pair[string, int]{"k", 1}
	var b interface{} = lib.Pair[string, int]{"k", 1}
	var c interface{} = lib.Pair[string, int64]{"k", 1}
	out(btoa(a == b) + btoa(a == c))
}
`

const concMain = `package main

import "runtime"

type msg struct {
	id   int
	body [2]int
}

func producer(n int, c chan<- msg, done chan<- bool) {
	for i := 0; i < n; i++ {
		m := msg{i, [2]int{i, i * i}}
		c <- m
		m.body[0] = -1
	}
	close(c)
	done <- true
}

func stage(in <-chan msg, out chan<- int) {
	for m := range in {
		runtime.Gosched()
		out <- m.id*100 + m.body[1] + m.body[0]
	}
	close(out)
}

func worker(id int, res chan<- string) {
	defer func() {
		r := recover()
		res <- "w" + itoa(id) + " " + classify(r)
	}()
	if id%2 == 1 {
		var m map[string]int
		m["x"] = id
	}
	runtime.Gosched()
}

func main() {
	c := make(chan msg, 2)
	o := make(chan int)
	done := make(chan bool, 1)
	go producer(6, c, done)
	go stage(c, o)
	for v := range o {
		out("got " + itoa(v))
	}
	<-done
	res := make(chan string)
	for i := 0; i < 4; i++ {
		go worker(i, res)
	}
	got := map[string]bool{}
	for i := 0; i < 4; i++ {
		got[<-res] = true
	}
	for i := 0; i < 4; i++ {
		k := "w" + itoa(i) + " nil"
		if i%2 == 1 {
			k = "w" + itoa(i) + " rt:assignment to entry in nil map"
		}
		out(k + " " + btoa(got[k]))
	}
	sel := make(chan int, 1)
	var nilc chan int
	for i := 0; i < 3; i++ {
		select {
		case sel <- i:
			out("sent " + itoa(i))
		case v := <-sel:
			out("recv " + itoa(v))
		case <-nilc:
			out("never")
		}
	}
	select {
	case v, ok := <-o:
		out("closed " + itoa(v) + btoa(ok))
	default:
		out("default")
	}
}
`

const dispShapes = `package shapes

type Shape interface {
	Area() int
	name() string
}

type Rect struct{ W, H int }

func (r Rect) Area() int     { return r.W * r.H }
func (r Rect) name() string  { return "rect" }
func (r Rect) Unused() int   { return -1 }

type Sq struct {
	Rect
	tag string
}

func (s Sq) name() string { return "sq" + s.tag }

type Circle struct{ R int }

func (c *Circle) Area() int    { return 3 * c.R * c.R }
func (c *Circle) name() string { return "circle" }
func (c *Circle) Grow(n int)   { c.R += n }

func Name(s Shape) string { return s.name() }

func NewSq(n int) Sq { return Sq{Rect{n, n}, "!"} }

var Registry = register()

func register() map[string]func(int) Shape {
	return map[string]func(int) Shape{
		"sq":     func(n int) Shape { return NewSq(n) },
		"circle": func(n int) Shape { return &Circle{n} },
	}
}
`

const dispMain = `package main

import "ROOT/shapes"

type grower interface{ Grow(int) }

type logger struct{ lines []string }

func (l *logger) log(s string) { l.lines = append(l.lines, s) }

var lg = &logger{}

var initOrder = func() int { lg.log("init-var"); return 1 }()

func init() { lg.log("init-func") }

func main() {
	for _, l := range lg.lines {
		out(l)
	}
	for _, k := range []string{"sq", "circle"} {
		s := shapes.Registry[k](3)
		out(shapes.Name(s) + " " + itoa(s.Area()))
		if g, ok := s.(grower); ok {
			g.Grow(2)
			out("grown " + itoa(s.Area()))
		}
		if _, ok := s.(interface{ Unused() int }); ok {
			out("has Unused")
		}
	}
	f := shapes.Rect.Area
	g := (*shapes.Circle).Area
	h := shapes.NewSq(4).Area
	out(itoa(f(shapes.Rect{2, 5})) + " " + itoa(g(&shapes.Circle{2})) + " " + itoa(h()))
}
`

const linkImpl = `package impl

type Counter struct{ n int }

func (c *Counter) bump(by int) int { c.n += by; return c.n }

func (c Counter) peek() int { return c.n }

func hidden(a, b int) int { return a*10 + b }
`

const linkMain = `package main

import (
	_ "unsafe"

	"ROOT/impl"
)

//go:linkname hidden ROOT/impl.hidden
func hidden(a, b int) int

// The directive below is separated from its declaration by a blank line and
// other declarations, which the Go toolchain accepts.

//go:linkname bump ROOT/impl.(*Counter).bump

var unrelated = 3

func bump(c *impl.Counter, by int) int

//go:linkname peek ROOT/impl.Counter.peek
func peek(c impl.Counter) int

func main() {
	out(itoa(hidden(4, 2) + unrelated))
	c := &impl.Counter{}
	bump(c, 5)
	out(itoa(bump(c, 2)) + " " + itoa(peek(*c)))
}
`
