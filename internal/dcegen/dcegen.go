// Package dcegen generates programs for the dead-code elimination check (C05); C01 runs them
// against the native toolchain as well.
package dcegen

import (
	"fmt"
	"strings"

	"pgregory.net/rapid"
)

// dcegen draws programs out of "reachability units": small groups of declarations whose code
// is reached in one particular way (an initialiser nobody reads, a call through a named
// function type, an interface method expression, a method found only through a type switch,
// a nil interface whose type nothing else mentions, ...). Every unit prints what it observes;
// dead-code elimination must not change a single line.

// Prog is a generated program (files of the main package, rt.go and glue not included).
type Prog struct {
	Files map[string]string
	Kinds []string
}

type unitGen struct {
	rt   *rapid.T
	n    int
	pkg  string // "" for main, "lib." when the declarations live in package lib
	decl strings.Builder
	pre  strings.Builder // declarations placed directly in front of the unit function (same file)
	body strings.Builder // statements of the unit function
}

func (u *unitGen) pick(label string, xs []string) string {
	return rapid.SampledFrom(xs).Draw(u.rt, label)
}

// sideForms are initialiser expressions that call side<N>(tag) in a way the side-effect
// analysis has to see through. %[1]d is the unit number.
var sideForms = []struct{ name, decl, expr string }{
	{"plain", "", `side%[1]d("plain")`},
	{"named-func-type", "type F%[1]d func(string) int\n\nvar f%[1]d F%[1]d = side%[1]d\n", `f%[1]d("named-func-type")`},
	{"named-func-type-literal", "type F%[1]d func(string) int\n", `F%[1]d(side%[1]d)("named-func-type-literal")`},
	{"func-var", "var f%[1]d = side%[1]d\n", `f%[1]d("func-var")`},
	{"func-field", "var s%[1]d = struct{ f func(string) int }{side%[1]d}\n", `s%[1]d.f("func-field")`},
	{"named-func-field", "type F%[1]d func(string) int\n\nvar s%[1]d = struct{ f F%[1]d }{side%[1]d}\n", `s%[1]d.f("named-func-field")`},
	{"func-slice-elem", "var fs%[1]d = []func(string) int{side%[1]d}\n", `fs%[1]d[0]("func-slice-elem")`},
	{"func-map-elem", "type F%[1]d func(string) int\n\nvar fm%[1]d = map[string]F%[1]d{\"k\": side%[1]d}\n", `fm%[1]d["k"]("func-map-elem")`},
	{"method", "type T%[1]d struct{}\n\nfunc (T%[1]d) m(tag string) int { return side%[1]d(tag) }\n", `T%[1]d{}.m("method")`},
	{"ptr-method", "type T%[1]d struct{ k int }\n\nfunc (t *T%[1]d) m(tag string) int { return side%[1]d(tag) + t.k }\n", `(&T%[1]d{}).m("ptr-method")`},
	{"method-value", "type T%[1]d struct{}\n\nfunc (T%[1]d) m(tag string) int { return side%[1]d(tag) }\n\nvar mv%[1]d = T%[1]d{}.m\n", `mv%[1]d("method-value")`},
	{"method-expr", "type T%[1]d struct{}\n\nfunc (T%[1]d) m(tag string) int { return side%[1]d(tag) }\n", `T%[1]d.m(T%[1]d{}, "method-expr")`},
	{"iface-call", "type I%[1]d interface{ m(string) int }\n\ntype T%[1]d struct{}\n\nfunc (T%[1]d) m(tag string) int { return side%[1]d(tag) }\n\nvar i%[1]d I%[1]d = T%[1]d{}\n", `i%[1]d.m("iface-call")`},
	{"func-type-method", "type H%[1]d func(string) int\n\nfunc (h H%[1]d) call(tag string) int { return h(tag) }\n", `H%[1]d(side%[1]d).call("func-type-method")`},
	{"generic", "func g%[1]d[T any](x T, tag string) int { _ = x; return side%[1]d(tag) }\n", `g%[1]d(1.5, "generic")`},
	{"generic-explicit", "func g%[1]d[T any](tag string) int { var z T; _ = z; return side%[1]d(tag) }\n", `g%[1]d[[]string]("generic-explicit")`},
	{"closure-call", "", `func() int { return side%[1]d("closure-call") }()`},
	{"conversion", "", `int64(side%[1]d("conversion"))`},
	{"append-arg", "", `append([]int(nil), side%[1]d("append-arg"))`},
	{"slice-literal", "", `[]int{side%[1]d("slice-literal")}`},
	{"map-literal", "", `map[string]int{"k": side%[1]d("map-literal")}`},
	{"ptr-literal", "", `&struct{ a int }{side%[1]d("ptr-literal")}`},
	{"binary", "", `1 + side%[1]d("binary")`},
	{"unary", "", `-side%[1]d("unary")`},
	{"index", "", `[]int{7, 8, 9}[side%[1]d("index")]`},
	{"slice-expr", "", `[]int{7, 8, 9}[side%[1]d("slice-expr"):]`},
	{"selector-on-call", "func mk%[1]d(tag string) struct{ x int } { return struct{ x int }{side%[1]d(tag)} }\n", `mk%[1]d("selector-on-call").x`},
	{"type-assert", "", `any(side%[1]d("type-assert")).(int)`},
	{"len-of-call", "func sl%[1]d(tag string) []int { return make([]int, side%[1]d(tag)) }\n", `len(sl%[1]d("len-of-call"))`},
	{"paren-star", "func pp%[1]d(tag string) *int { v := side%[1]d(tag); return &v }\n", `*(pp%[1]d("paren-star"))`},
	{"receive", "var c%[1]d = func() chan int {\n\tc := make(chan int, 1)\n\tc <- side%[1]d(\"receive\")\n\treturn c\n}()\n", `<-c%[1]d`},
	{"complex-parts", "", `complex(float64(side%[1]d("complex-parts")), 0)`},
	{"string-concat", "func str%[1]d(tag string) string { side%[1]d(tag); return tag }\n", `"x" + str%[1]d("string-concat")`},
	{"and-and", "", `side%[1]d("and-and") > 0 && side%[1]d("and-and-2") > 0`},
}

func (u *unitGen) unusedInit() string {
	f := sideForms[rapid.IntRange(0, len(sideForms)-1).Draw(u.rt, "form")]
	fmt.Fprintf(&u.decl, "func side%[1]d(tag string) int {\n\tout(\"unit %[1]d side effect \" + tag)\n\tcount%[1]d++\n\treturn 1\n}\n\nvar count%[1]d int\n\n", u.n)
	if f.decl != "" {
		fmt.Fprintf(&u.decl, f.decl+"\n", u.n)
	}
	expr := fmt.Sprintf(f.expr, u.n)
	switch u.pick("holder", []string{"unused", "blank", "unused-pair", "unused-chain", "grouped", "typed"}) {
	case "unused":
		fmt.Fprintf(&u.decl, "var u%d = %s\n\n", u.n, expr)
	case "blank":
		fmt.Fprintf(&u.decl, "var _ = %s\n\n", expr)
	case "unused-pair":
		fmt.Fprintf(&u.decl, "var u%da, u%db = %s, 2\n\n", u.n, u.n, expr)
	case "unused-chain":
		fmt.Fprintf(&u.decl, "var w%d = %s\n\nvar u%d = w%d\n\n", u.n, expr, u.n, u.n)
	case "grouped":
		fmt.Fprintf(&u.decl, "var (\n\tx%d = 3\n\tu%d = %s\n)\n\n", u.n, u.n, expr)
	case "typed":
		fmt.Fprintf(&u.decl, "var u%d interface{} = %s\n\n", u.n, expr)
	}
	fmt.Fprintf(&u.body, "\tout(\"unit %d calls \" + itoa(count%d))\n", u.n, u.n)
	return "unused-init:" + f.name
}

func (u *unitGen) commaOk() string {
	form := u.pick("commaok", []string{"map", "assert", "recv", "call", "map-call"})
	use := u.pick("use", []string{"first", "second", "both", "none"})
	n := u.n
	switch form {
	case "map":
		fmt.Fprintf(&u.decl, "var m%[1]d = map[string]int{\"k\": 5}\n\nvar a%[1]d, b%[1]d = m%[1]d[\"k\"]\n\n", n)
	case "assert":
		fmt.Fprintf(&u.decl, "var x%[1]d interface{} = 5\n\nvar a%[1]d, b%[1]d = x%[1]d.(int)\n\n", n)
	case "recv":
		fmt.Fprintf(&u.decl, "var c%[1]d = func() chan int {\n\tc := make(chan int, 1)\n\tc <- 5\n\treturn c\n}()\n\nvar a%[1]d, b%[1]d = <-c%[1]d\n\n", n)
		fmt.Fprintf(&u.body, "\tout(\"unit %[1]d left in channel \" + itoa(len(c%[1]d)))\n", n)
	case "call":
		fmt.Fprintf(&u.decl, "func two%[1]d() (int, bool) {\n\tout(\"unit %[1]d two() called\")\n\treturn 5, true\n}\n\nvar a%[1]d, b%[1]d = two%[1]d()\n\n", n)
	case "map-call":
		fmt.Fprintf(&u.decl, "func key%[1]d() string {\n\tout(\"unit %[1]d key() called\")\n\treturn \"k\"\n}\n\nvar m%[1]d = map[string]int{\"k\": 5}\n\nvar a%[1]d, b%[1]d = m%[1]d[key%[1]d()]\n\n", n)
	}
	switch use {
	case "first":
		fmt.Fprintf(&u.body, "\tout(\"unit %[1]d first \" + itoa(a%[1]d))\n", n)
	case "second":
		fmt.Fprintf(&u.body, "\tout(\"unit %[1]d second \" + btoa(b%[1]d))\n", n)
	case "both":
		fmt.Fprintf(&u.body, "\tout(\"unit %[1]d both \" + itoa(a%[1]d) + btoa(b%[1]d))\n", n)
	default:
		fmt.Fprintf(&u.body, "\tout(\"unit %d uses neither\")\n", n)
	}
	return "comma-ok:" + form + ":" + use
}

func (u *unitGen) ifaceShapes() string {
	n := u.n
	meth := u.pick("methname", []string{"area", "Area", "m"})
	fmt.Fprintf(&u.decl, "type shape%[1]d interface{ %[2]s() int }\n\ntype circle%[1]d struct{ r int }\n\nfunc (c circle%[1]d) %[2]s() int { return 3 * c.r * c.r }\n\ntype square%[1]d struct{ s int }\n\nfunc (s *square%[1]d) %[2]s() int { return s.s * s.s }\n\n", n, meth)
	kind := u.pick("reach", []string{"method-expr", "method-value", "assert-to-iface", "type-switch", "embedded-iface", "generic-constraint", "slice-of-iface", "map-of-func", "defer", "go", "closure-capture"})
	switch kind {
	case "method-expr":
		fmt.Fprintf(&u.body, "\tf := shape%[1]d.%[2]s\n\tout(\"unit %[1]d \" + itoa(f(circle%[1]d{2}) + f(&square%[1]d{3})))\n", n, meth)
	case "method-value":
		fmt.Fprintf(&u.body, "\tvar s shape%[1]d = circle%[1]d{2}\n\tf := s.%[2]s\n\ts = &square%[1]d{3}\n\tg := s.%[2]s\n\tout(\"unit %[1]d \" + itoa(f() + g()))\n", n, meth)
	case "assert-to-iface":
		fmt.Fprintf(&u.body, "\tvar v interface{} = circle%[1]d{2}\n\tif s, ok := v.(shape%[1]d); ok {\n\t\tout(\"unit %[1]d \" + itoa(s.%[2]s()))\n\t}\n\tv = &square%[1]d{3}\n\tout(\"unit %[1]d \" + itoa(v.(shape%[1]d).%[2]s()))\n", n, meth)
	case "type-switch":
		fmt.Fprintf(&u.body, "\tfor _, v := range []interface{}{circle%[1]d{2}, &square%[1]d{3}, 7} {\n\t\tswitch x := v.(type) {\n\t\tcase shape%[1]d:\n\t\t\tout(\"unit %[1]d shape \" + itoa(x.%[2]s()))\n\t\tdefault:\n\t\t\tout(\"unit %[1]d other\")\n\t\t}\n\t}\n", n, meth)
	case "embedded-iface":
		fmt.Fprintf(&u.decl, "type holder%[1]d struct {\n\tshape%[1]d\n\ttag int\n}\n\n", n)
		fmt.Fprintf(&u.body, "\th := holder%[1]d{circle%[1]d{2}, 1}\n\tout(\"unit %[1]d \" + itoa(h.%[2]s()))\n\tvar s shape%[1]d = h\n\tout(\"unit %[1]d \" + itoa(s.%[2]s()))\n", n, meth)
	case "generic-constraint":
		fmt.Fprintf(&u.decl, "func total%[1]d[T shape%[1]d](xs ...T) int {\n\tt := 0\n\tfor _, x := range xs {\n\t\tt += x.%[2]s()\n\t}\n\treturn t\n}\n\n", n, meth)
		fmt.Fprintf(&u.body, "\tout(\"unit %[1]d \" + itoa(total%[1]d(circle%[1]d{1}, circle%[1]d{2}) + total%[1]d(&square%[1]d{3})))\n", n)
	case "slice-of-iface":
		fmt.Fprintf(&u.decl, "var shapes%[1]d = []shape%[1]d{circle%[1]d{2}, &square%[1]d{3}}\n\n", n)
		fmt.Fprintf(&u.body, "\tt := 0\n\tfor _, s := range shapes%[1]d {\n\t\tt += s.%[2]s()\n\t}\n\tout(\"unit %[1]d \" + itoa(t))\n", n, meth)
	case "map-of-func":
		fmt.Fprintf(&u.decl, "var table%[1]d = map[string]func() int{\"c\": circle%[1]d{2}.%[2]s, \"s\": (&square%[1]d{3}).%[2]s}\n\n", n, meth)
		fmt.Fprintf(&u.body, "\tkey := \"c\"\n\tif len(argv(0)) > 100 {\n\t\tkey = \"s\"\n\t}\n\tout(\"unit %[1]d \" + itoa(table%[1]d[key]() + table%[1]d[\"s\"]()))\n", n)
	case "defer":
		fmt.Fprintf(&u.body, "\tfunc() {\n\t\tvar s shape%[1]d = &square%[1]d{3}\n\t\tdefer func() { out(\"unit %[1]d deferred\") }()\n\t\tdefer s.%[2]s()\n\t}()\n\tout(\"unit %[1]d \" + itoa(circle%[1]d{2}.%[2]s()))\n", n, meth)
	case "go":
		fmt.Fprintf(&u.body, "\tdone := make(chan int)\n\tvar s shape%[1]d = circle%[1]d{2}\n\tgo func() { done <- s.%[2]s() }()\n\tout(\"unit %[1]d \" + itoa(<-done))\n\tp := &square%[1]d{3}\n\tout(\"unit %[1]d \" + itoa(p.%[2]s()))\n", n, meth)
	case "closure-capture":
		fmt.Fprintf(&u.body, "\tmk := func(s shape%[1]d) func() int { return func() int { return s.%[2]s() } }\n\tout(\"unit %[1]d \" + itoa(mk(circle%[1]d{2})() + mk(&square%[1]d{3})()))\n", n, meth)
	}
	return "iface:" + kind + ":" + meth
}

func (u *unitGen) nilIface() string {
	n := u.n
	mn := u.pick("nilmeth", []string{"m", "Measure"})
	kind := u.pick("nilkind", []string{"call", "method-value", "anonymous", "embedded", "result", "field", "after-assign-nil"})
	fmt.Fprintf(&u.decl, "type quiet%[1]d interface{ %[2]s() int }\n\n", n, mn)
	switch kind {
	case "call":
		fmt.Fprintf(&u.body, "\tvar i quiet%[1]d\n\tout(\"unit %[1]d \" + itoa(i.%[2]s()))\n", n, mn)
	case "method-value":
		fmt.Fprintf(&u.body, "\tvar i quiet%[1]d\n\tf := i.%[2]s\n\tout(\"unit %[1]d \" + itoa(f()))\n", n, mn)
	case "anonymous":
		fmt.Fprintf(&u.body, "\tvar i interface{ zz%[1]d() int }\n\tout(\"unit %[1]d \" + itoa(i.zz%[1]d()))\n", n)
	case "embedded":
		fmt.Fprintf(&u.body, "\tvar h struct {\n\t\tquiet%[1]d\n\t\tk int\n\t}\n\tout(\"unit %[1]d \" + itoa(h.%[2]s()))\n", n, mn)
	case "result":
		fmt.Fprintf(&u.decl, "func none%[1]d() quiet%[1]d { return nil }\n\n", n)
		fmt.Fprintf(&u.body, "\tout(\"unit %[1]d \" + itoa(none%[1]d().%[2]s()))\n", n, mn)
	case "field":
		fmt.Fprintf(&u.body, "\tvar h struct{ q quiet%[1]d }\n\tout(\"unit %[1]d \" + itoa(h.q.%[2]s()))\n", n, mn)
	case "after-assign-nil":
		fmt.Fprintf(&u.decl, "type impl%[1]d struct{}\n\nfunc (impl%[1]d) %[2]s() int { return 4 }\n\n", n, mn)
		fmt.Fprintf(&u.body, "\tvar i quiet%[1]d = impl%[1]d{}\n\tout(\"unit %[1]d \" + itoa(i.%[2]s()))\n\ti = nil\n\tout(\"unit %[1]d \" + itoa(i.%[2]s()))\n", n, mn)
	}
	// an unreachable function that calls the same method through the interface, declared first
	if rapid.Bool().Draw(u.rt, "deadcaller") {
		fmt.Fprintf(&u.pre, "func deadCaller%[1]d(q quiet%[1]d) int { return q.%[2]s() + 1 }\n\n", n, mn)
		kind += "+dead-caller-first"
	}
	return "nil-iface:" + kind + ":" + mn
}

func (u *unitGen) dynamicTypes() string {
	n := u.n
	kind := u.pick("dyn", []string{"any-equal", "map-any-key", "array-key", "assert-struct", "switch-many", "generic-type-method", "generic-through-generic", "ptr-promoted", "func-table", "method-expr-table", "local-type", "chan-of-struct", "generic-method-generic-arg", "generic-method-generic-arg"})
	switch kind {
	case "any-equal":
		fmt.Fprintf(&u.decl, "type pt%[1]d struct{ x, y int }\n\n", n)
		fmt.Fprintf(&u.body, "\tvar a, b interface{} = pt%[1]d{1, 2}, pt%[1]d{1, 2}\n\tout(\"unit %[1]d \" + btoa(a == b))\n", n)
	case "map-any-key":
		fmt.Fprintf(&u.decl, "type pt%[1]d struct {\n\tx int\n\ts string\n}\n\n", n)
		fmt.Fprintf(&u.body, "\tm := map[interface{}]int{pt%[1]d{1, \"a\"}: 5, 3: 6}\n\tout(\"unit %[1]d \" + itoa(m[pt%[1]d{1, \"a\"}] + m[3] + m[pt%[1]d{2, \"a\"}]))\n", n)
	case "array-key":
		fmt.Fprintf(&u.decl, "type ak%[1]d [2]int8\n\n", n)
		fmt.Fprintf(&u.body, "\tm := map[ak%[1]d]string{{1, 2}: \"x\"}\n\tout(\"unit %[1]d \" + m[ak%[1]d{1, 2}] + m[ak%[1]d{2, 1}])\n", n)
	case "assert-struct":
		fmt.Fprintf(&u.decl, "type rec%[1]d struct{ v int }\n\nfunc box%[1]d() interface{} { return rec%[1]d{9} }\n\n", n)
		fmt.Fprintf(&u.body, "\tr, ok := box%[1]d().(rec%[1]d)\n\tout(\"unit %[1]d \" + itoa(r.v) + btoa(ok))\n\t_, ok2 := box%[1]d().(*rec%[1]d)\n\tout(\"unit %[1]d \" + btoa(ok2))\n", n)
	case "switch-many":
		fmt.Fprintf(&u.decl, "type ka%[1]d int\n\ntype kb%[1]d string\n\ntype kc%[1]d []int\n\n", n)
		fmt.Fprintf(&u.body, "\tfor _, v := range []interface{}{ka%[1]d(1), kb%[1]d(\"b\"), kc%[1]d{1}, 1, \"b\"} {\n\t\tswitch v.(type) {\n\t\tcase ka%[1]d:\n\t\t\tout(\"unit %[1]d ka\")\n\t\tcase kb%[1]d, kc%[1]d:\n\t\t\tout(\"unit %[1]d kb/kc\")\n\t\tdefault:\n\t\t\tout(\"unit %[1]d plain\")\n\t\t}\n\t}\n", n)
	case "generic-type-method":
		fmt.Fprintf(&u.decl, "type box%[1]d[T any] struct{ v T }\n\nfunc (b box%[1]d[T]) get() T { return b.v }\n\ntype getter%[1]d[T any] interface{ get() T }\n\n", n)
		fmt.Fprintf(&u.body, "\tvar g getter%[1]d[int] = box%[1]d[int]{4}\n\tvar h getter%[1]d[string] = box%[1]d[string]{\"s\"}\n\tout(\"unit %[1]d \" + itoa(g.get()) + h.get())\n", n)
	case "generic-through-generic":
		fmt.Fprintf(&u.decl, "func inner%[1]d[T any](x T) []T { return []T{x, x} }\n\nfunc outer%[1]d[T any](x T) int { return len(inner%[1]d([]T{x})) + len(inner%[1]d(map[string]T{\"k\": x})) }\n\n", n)
		fmt.Fprintf(&u.body, "\tout(\"unit %[1]d \" + itoa(outer%[1]d(1) + outer%[1]d(\"s\")))\n", n)
	case "ptr-promoted":
		fmt.Fprintf(&u.decl, "type base%[1]d struct{ n int }\n\nfunc (b *base%[1]d) bump() int {\n\tb.n++\n\treturn b.n\n}\n\ntype wrap%[1]d struct {\n\t*base%[1]d\n\tk int\n}\n\ntype bumper%[1]d interface{ bump() int }\n\n", n)
		fmt.Fprintf(&u.body, "\tvar b bumper%[1]d = wrap%[1]d{&base%[1]d{1}, 2}\n\tout(\"unit %[1]d \" + itoa(b.bump()+b.bump()))\n", n)
	case "func-table":
		fmt.Fprintf(&u.decl, "func fa%[1]d() int { return 1 }\n\nfunc fb%[1]d() int { return 2 }\n\nfunc fc%[1]d() int { return 4 }\n\nvar table%[1]d = [...]func() int{fa%[1]d, fb%[1]d, fc%[1]d}\n\n", n)
		fmt.Fprintf(&u.body, "\tt := 0\n\tfor i := len(argv(0)); i < len(table%[1]d); i++ {\n\t\tt = t*10 + table%[1]d[i]()\n\t}\n\tout(\"unit %[1]d \" + itoa(t))\n", n)
	case "method-expr-table":
		fmt.Fprintf(&u.decl, "type calc%[1]d struct{ v int }\n\nfunc (c calc%[1]d) double() int { return c.v * 2 }\n\nfunc (c *calc%[1]d) inc() int {\n\tc.v++\n\treturn c.v\n}\n\n", n)
		fmt.Fprintf(&u.body, "\tf := calc%[1]d.double\n\tg := (*calc%[1]d).inc\n\tc := calc%[1]d{5}\n\tout(\"unit %[1]d \" + itoa(f(c)+g(&c)+c.v))\n", n)
	case "local-type":
		fmt.Fprintf(&u.body, "\ttype local struct{ a, b int }\n\tvar v interface{} = local{1, 2}\n\tl, ok := v.(local)\n\tout(\"unit %[1]d \" + itoa(l.a+l.b) + btoa(ok))\n", n)
	case "generic-method-generic-arg":
		// an unexported method of a generic type whose signature mentions another generic type
		// instantiated with the receiver's type parameter
		fmt.Fprintf(&u.decl, "type opt%[1]d[T any] struct{ v T }\n\ntype cache%[1]d[T any] struct{ items []T }\n\nfunc (c *cache%[1]d[T]) store(o opt%[1]d[T]) int {\n\tc.items = append(c.items, o.v)\n\treturn len(c.items)\n}\n\nfunc (c *cache%[1]d[T]) fill(os []opt%[1]d[T], m map[string]opt%[1]d[T]) int {\n\tfor _, o := range os {\n\t\tc.store(o)\n\t}\n\treturn len(c.items) + len(m)\n}\n\nfunc (c *cache%[1]d[T]) plain(v T) int { return len(c.items) * 10 }\n\ntype storer%[1]d[T any] interface {\n\tstore(opt%[1]d[T]) int\n\tfill([]opt%[1]d[T], map[string]opt%[1]d[T]) int\n}\n\n", n)
		fmt.Fprintf(&u.body, "\tc := &cache%[1]d[int]{}\n\tvar s storer%[1]d[int] = c\n\tr1 := s.store(opt%[1]d[int]{4})\n\tr2 := c.store(opt%[1]d[int]{5})\n\tr3 := c.plain(6)\n\tr4 := s.fill([]opt%[1]d[int]{{7}}, nil)\n\tout(\"unit %[1]d \" + itoa(r1+r2*10+r3*100+r4*1000))\n\td := &cache%[1]d[string]{}\n\tq1 := d.store(opt%[1]d[string]{\"x\"})\n\tq2 := d.fill(nil, map[string]opt%[1]d[string]{\"k\": {\"y\"}})\n\tout(\"unit %[1]d \" + itoa(q1+q2*10))\n", n)
	case "chan-of-struct":
		fmt.Fprintf(&u.decl, "type msg%[1]d struct {\n\tid   int\n\tbody [2]int\n}\n\n", n)
		fmt.Fprintf(&u.body, "\tc := make(chan msg%[1]d, 1)\n\tc <- msg%[1]d{1, [2]int{2, 3}}\n\tm := <-c\n\tout(\"unit %[1]d \" + itoa(m.id+m.body[1]))\n", n)
	}
	return "dynamic:" + kind
}

// lookAlikes adds declarations that nothing reaches and that resemble live ones.
func (u *unitGen) lookAlikes() string {
	n := u.n
	fmt.Fprintf(&u.decl, "type ghost%[1]d struct{ r int }\n\nfunc (g ghost%[1]d) area() int { return side_ghost%[1]d() }\n\nfunc (g ghost%[1]d) m() int { return 1 }\n\nfunc side_ghost%[1]d() int {\n\tout(\"unit %[1]d ghost code runs\")\n\treturn 0\n}\n\nfunc unusedFn%[1]d() int { return side_ghost%[1]d() }\n\nvar unusedPure%[1]d = 5 * 7\n\n", n)
	fmt.Fprintf(&u.body, "\tout(\"unit %d no ghost\")\n", n)
	return "look-alike"
}

func genUnit(rt *rapid.T, n int) (decl, fn, kind string) {
	u := &unitGen{rt: rt, n: n}
	switch rapid.IntRange(0, 9).Draw(rt, "unitkind") {
	case 0, 1, 2:
		kind = u.unusedInit()
	case 3:
		kind = u.commaOk()
	case 4, 5:
		kind = u.ifaceShapes()
	case 6:
		kind = u.nilIface()
	case 7, 8:
		kind = u.dynamicTypes()
	default:
		kind = u.lookAlikes()
	}
	fn = u.pre.String() + fmt.Sprintf("func unit%d() {\n\tdefer func() {\n\t\tif r := recover(); r != nil {\n\t\t\tout(\"unit %d panic \" + classify(r))\n\t\t}\n\t}()\n%s}\n\n", n, n, u.body.String())
	return u.decl.String(), fn, kind
}

// Gen draws a program of 3-10 units; units land in drawn files of the main package.
func Gen(rt *rapid.T) Prog {
	n := rapid.IntRange(3, 10).Draw(rt, "units")
	files := []string{"a_units.go", "b_units.go"}
	srcs := map[string]*strings.Builder{}
	for _, f := range files {
		srcs[f] = &strings.Builder{}
		srcs[f].WriteString("package main\n\n")
	}
	var mainB strings.Builder
	mainB.WriteString("package main\n\nfunc main() {\n")
	var kinds []string
	for i := 0; i < n; i++ {
		d, fn, k := genUnit(rt, i)
		kinds = append(kinds, k)
		srcs[rapid.SampledFrom(files).Draw(rt, "declfile")].WriteString(d)
		srcs[rapid.SampledFrom(files).Draw(rt, "fnfile")].WriteString(fn)
		fmt.Fprintf(&mainB, "\tunit%d()\n", i)
	}
	mainB.WriteString("\tout(\"END\")\n}\n")
	p := Prog{Files: map[string]string{"main.go": mainB.String()}, Kinds: kinds}
	for f, b := range srcs {
		p.Files[f] = b.String()
	}
	return p
}

// SingleFile returns the same declarations in one file: the order in which the files of a
// package are presented is the compiler's choice, so a differential run against another
// compiler must not depend on it.
func (p Prog) SingleFile() map[string]string {
	var sb strings.Builder
	sb.WriteString("package main\n\n")
	for _, f := range []string{"main.go", "a_units.go", "b_units.go"} {
		sb.WriteString(strings.TrimPrefix(p.Files[f], "package main\n"))
		sb.WriteString("\n")
	}
	return map[string]string{"main.go": sb.String()}
}
