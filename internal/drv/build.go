package drv

import (
	"bytes"
	"fmt"
	"os"
	"path/filepath"
	"runtime/debug"
	"sort"
	"strings"

	gbuild "github.com/gopherjs/gopherjs/build"
	"github.com/gopherjs/gopherjs/compiler"
)

// BuildOpts selects the GopherJS build variant.
type BuildOpts struct {
	Minify    bool
	Tags      []string
	AllAlive  bool // mark every declaration alive before linking (C05)
	SourceMap bool
}

// Built is the result of an in-process GopherJS build.
type Built struct {
	JS       []byte
	Map      []byte
	Deps     []*compiler.Archive
	Session  *gbuild.Session
	PkgFiles []string // GoFiles of the root package as selected by the build context
}

// CompilerPanic marks an error produced by a panic inside the compiler.
type CompilerPanic struct {
	Val   any
	Stack string
}

func (e *CompilerPanic) Error() string { return fmt.Sprintf("compiler panic: %v\n%s", e.Val, e.Stack) }

// WriteTree writes files (relative path → content) below root.
func WriteTree(root string, files map[string]string) {
	for name, content := range files {
		p := filepath.Join(root, name)
		if err := os.MkdirAll(filepath.Dir(p), 0o755); err != nil {
			Infra("mkdir: %v", err)
		}
		if err := os.WriteFile(p, []byte(content), 0o644); err != nil {
			Infra("write: %v", err)
		}
	}
}

// NewCaseDir creates $GOPATH/src/<id> with the given files plus a go.mod naming
// the module <id> (go 1.20) so that the same tree builds natively in module mode.
func NewCaseDir(prefix string, files map[string]string) (id, dir string) {
	id = NewID(prefix)
	dir = filepath.Join(GopathSrc(), id)
	WriteTree(dir, files)
	if _, ok := files["go.mod"]; !ok {
		WriteTree(dir, map[string]string{"go.mod": "module " + id + "\n\ngo 1.20\n"})
	}
	return id, dir
}

// Compile builds the main package in dir (which must live under $GOPATH/src)
// with GopherJS, in-process, in a fresh session.
func Compile(dir string, o BuildOpts) (b *Built, err error) {
	Init()
	defer func() {
		if r := recover(); r != nil {
			err = &CompilerPanic{Val: r, Stack: string(debug.Stack())}
			b = nil
		}
	}()
	opts := &gbuild.Options{Minify: o.Minify, BuildTags: o.Tags, NoCache: true, Quiet: true, CreateMapFile: o.SourceMap}
	s, err := gbuild.NewSession(opts)
	if err != nil {
		return nil, err
	}
	pkg, err := s.XContext().Import(".", dir, 0)
	if err != nil {
		return nil, err
	}
	files := append([]string{}, pkg.GoFiles...)
	archive, err := s.BuildProject(pkg)
	if err != nil {
		return nil, err
	}
	deps, err := compiler.ImportDependencies(archive, s.ImportResolverFor(""))
	if err != nil {
		return nil, err
	}
	if o.AllAlive {
		for _, a := range deps {
			for _, d := range a.Declarations {
				d.Dce().SetAsAlive()
			}
		}
	}
	var buf, mbuf bytes.Buffer
	f := compiler.DefaultFilter(&buf)
	if o.SourceMap {
		s.EnableMapping(f, "out.js")
	}
	if err := compiler.WriteProgramCode(deps, f, s.GoRelease()); err != nil {
		return nil, err
	}
	if o.SourceMap {
		if err := f.WriteMappingTo(&mbuf); err != nil {
			return nil, err
		}
	}
	return &Built{JS: buf.Bytes(), Map: mbuf.Bytes(), Deps: deps, Session: s, PkgFiles: files}, nil
}

// IsCompilerInternalError reports whether err is an internal compiler failure
// (as opposed to an ordinary diagnostic about the user's program).
func IsCompilerInternalError(err error) bool {
	if err == nil {
		return false
	}
	if _, ok := err.(*CompilerPanic); ok {
		return true
	}
	s := err.Error()
	return strings.Contains(s, "[compiler panic]") || strings.Contains(s, "internal compiler error") || strings.Contains(s, "runtime error:")
}

// SortedKeys returns the sorted keys of a string-keyed map.
func SortedKeys[V any](m map[string]V) []string {
	ks := make([]string, 0, len(m))
	for k := range m {
		ks = append(ks, k)
	}
	sort.Strings(ks)
	return ks
}
