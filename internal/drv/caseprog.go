package drv

import (
	"fmt"
	"os"
	"path/filepath"
	"strings"
)

// Case is a generated program tree living under $GOPATH/src/<ID>.
type Case struct {
	ID    string
	Dir   string
	Files map[string]string
}

// NewCase writes a program tree; rt.go and the argv glue are added to the root
// package unless the caller opts out with withRt=false.
func NewCase(prefix string, files map[string]string, withRt bool) *Case {
	all := map[string]string{}
	if withRt {
		for k, v := range RtFiles() {
			all[k] = v
		}
	}
	for k, v := range files {
		all[k] = v
	}
	id := NewID(prefix)
	// sub-packages refer to the module root as ROOT/
	for k, v := range all {
		all[k] = strings.ReplaceAll(v, "ROOT/", id+"/")
	}
	dir := filepath.Join(GopathSrc(), id)
	WriteTree(dir, all)
	if _, ok := all["go.mod"]; !ok {
		WriteTree(dir, map[string]string{"go.mod": "module " + id + "\n\ngo 1.20\n"})
	}
	return &Case{ID: id, Dir: dir, Files: all}
}

// BuildJS compiles the case with GopherJS and writes <name>.js (and .map).
func (c *Case) BuildJS(o BuildOpts, name string) (string, *Built, error) {
	b, err := Compile(c.Dir, o)
	if err != nil {
		return "", nil, err
	}
	p := filepath.Join(c.Dir, name+".js")
	js := b.JS
	if o.SourceMap {
		js = append(append([]byte{}, js...), []byte("//# sourceMappingURL="+name+".js.map\n")...)
		if err := os.WriteFile(p+".map", b.Map, 0o644); err != nil {
			Infra("write map: %v", err)
		}
	}
	if err := os.WriteFile(p, js, 0o644); err != nil {
		Infra("write js: %v", err)
	}
	return p, b, nil
}

// BuildNative builds the reference binary.
func (c *Case) BuildNative(tags ...string) (string, error) {
	return BuildNative(c.Dir, tags)
}

// Remove deletes the case directory.
func (c *Case) Remove() { os.RemoveAll(c.Dir) }

// ReproFiles returns the files of the case for a replay directory, with the
// unique id replaced by a stable placeholder.
func (c *Case) ReproFiles() map[string]string {
	out := map[string]string{}
	for k, v := range c.Files {
		out[k] = strings.ReplaceAll(v, c.ID+"/", "ROOT/")
	}
	return out
}

// DiffBoth builds a program in both worlds and runs every scenario (argv[0])
// in both; returns per-scenario outcomes. A GopherJS build error is returned as err;
// a native build error is an infrastructure problem unless nativeMayFail.
type BothResult struct {
	JS, Native []Outcome
	JSBuildErr error
	NatErr     error
	Built      *Built
	JSPath     string
}

// RunBoth compiles c with GopherJS (opts) and natively, then runs each argument
// vector in both worlds in parallel.
func RunBoth(c *Case, o BuildOpts, argvs [][]string, node NodeOpts, syntaxCheck bool) *BothResult {
	r := &BothResult{}
	var bin string
	done := make(chan struct{})
	go func() {
		defer close(done)
		bin, r.NatErr = c.BuildNative()
	}()
	r.JSPath, r.Built, r.JSBuildErr = c.BuildJS(o, "out")
	<-done
	if r.JSBuildErr != nil || r.NatErr != nil {
		return r
	}
	if syntaxCheck {
		if err := CheckSyntax(r.JSPath); err != nil {
			r.JSBuildErr = fmt.Errorf("emitted file is not valid JavaScript: %v", err)
			return r
		}
	}
	r.JS = make([]Outcome, len(argvs))
	r.Native = make([]Outcome, len(argvs))
	Parallel(2*len(argvs), func(i int) {
		if i%2 == 0 {
			r.JS[i/2] = RunNode(r.JSPath, argvs[i/2], node)
		} else {
			r.Native[i/2] = RunNative(bin, argvs[i/2], 0)
		}
	})
	return r
}
