// Package drv is the shared driver of all checks: in-process GopherJS builds,
// Node and native runners, outcome normalisation, evidence, known findings
// and replay storage.
package drv

import (
	"fmt"
	"net/http"
	"os"
	"path/filepath"
	"strconv"
	"sync"
	"sync/atomic"

	"github.com/gopherjs/gopherjs/compiler/gopherjspkg"
	"github.com/sirupsen/logrus"
)

// RepoDir is the gopherjs tree the harness was built from.
func RepoDir() string {
	if v := os.Getenv("VERIF_REPO"); v != "" {
		return v
	}
	return "/repo"
}

// VerifDir is the root of the verification tree (cwd of ./run).
func VerifDir() string {
	if v := os.Getenv("VERIF_DIR"); v != "" {
		return v
	}
	return "/verif"
}

// Tier is "quick" or "thorough".
func Tier() string {
	if v := os.Getenv("VERIF_TIER"); v == "thorough" {
		return "thorough"
	}
	return "quick"
}

// Thorough reports whether the thorough tier runs.
func Thorough() bool { return Tier() == "thorough" }

// Seed returns VERIF_SEED remapped to a non-zero value.
func Seed() int {
	v, _ := strconv.Atoi(os.Getenv("VERIF_SEED"))
	if v == 0 {
		v = 20260923
	}
	if v < 0 {
		v = -v
	}
	return v
}

var (
	initOnce sync.Once
	scratch  string
	gopath   string
	idSeq    atomic.Int64
)

// Init prepares the process: registers the gopherjs package FS, quiets logging,
// fixes the scratch directory. GOPATH / GO111MODULE must already be set by ./run
// (go/build reads them at package initialisation).
func Init() {
	initOnce.Do(func() {
		gopherjspkg.RegisterFS(http.Dir(RepoDir()))
		logrus.SetLevel(logrus.ErrorLevel)
		scratch = os.Getenv("VERIF_TMP")
		if scratch == "" {
			d, err := os.MkdirTemp("", "verif-")
			if err != nil {
				Infra("mktemp: %v", err)
			}
			scratch = d
		}
		gopath = os.Getenv("GOPATH")
		if gopath == "" || os.Getenv("GO111MODULE") != "off" {
			Infra("GOPATH/GO111MODULE=off must be set by ./run (GOPATH=%q GO111MODULE=%q)", gopath, os.Getenv("GO111MODULE"))
		}
		os.MkdirAll(filepath.Join(gopath, "src"), 0o755)
	})
}

// Scratch returns the per-run scratch directory.
func Scratch() string { Init(); return scratch }

// GopathSrc returns $GOPATH/src of the in-process builds.
func GopathSrc() string { Init(); return filepath.Join(gopath, "src") }

// NewID returns a unique import-path prefix for a case.
func NewID(prefix string) string {
	return fmt.Sprintf("%s%d_%d", prefix, os.Getpid(), idSeq.Add(1))
}

// Infra aborts the run with exit code 2 (never a violation).
func Infra(format string, a ...any) {
	fmt.Printf("INFRA: "+format+"\n", a...)
	infraFlag.Store(true)
	if ev := currentEvidence.Load(); ev != nil {
		ev.Note("infra: " + fmt.Sprintf(format, a...))
		ev.Write()
	}
	os.Exit(2)
}

var infraFlag atomic.Bool

type inconclusive struct{}

// Inconclusive gives up on the current case: a time budget was hit. The run goes on with the
// other cases and ends with exit code 2 unless one of them shows a violation.
func Inconclusive(format string, a ...any) {
	fmt.Printf("INFRA: inconclusive case: "+format+"\n", a...)
	infraFlag.Store(true)
	if ev := currentEvidence.Load(); ev != nil {
		ev.Note("inconclusive: " + fmt.Sprintf(format, a...))
	}
	panic(inconclusive{})
}
