package drv

import (
	"crypto/sha256"
	"encoding/hex"
	"encoding/json"
	"fmt"
	"os"
	"path/filepath"
	"sort"
	"strings"
	"sync"
	"sync/atomic"
	"time"
)

// Evidence accumulates what a run covered and writes evidence/<id>.json.
type Evidence struct {
	mu         sync.Mutex
	Property   string
	Level      string
	Rule       string
	start      time.Time
	evals      int64
	nontrivial map[string]struct{}
	seen       map[string]struct{}
	samples    []any
	maxSamples int
	hist       map[string]int64
	notes      []string
	assume     []string
	violations int
	extra      map[string]any
	exhaustive bool
	known      []string
}

var currentEvidence atomic.Pointer[Evidence]

// NewEvidence starts the evidence record of a check run.
func NewEvidence(property, level, rule string) *Evidence {
	ev := &Evidence{Property: property, Level: level, Rule: rule, start: time.Now(),
		nontrivial: map[string]struct{}{}, seen: map[string]struct{}{}, hist: map[string]int64{},
		extra: map[string]any{}, maxSamples: 5}
	currentEvidence.Store(ev)
	return ev
}

// Hash returns a short content hash.
func Hash(parts ...string) string {
	h := sha256.New()
	for _, p := range parts {
		h.Write([]byte(p))
		h.Write([]byte{0})
	}
	return hex.EncodeToString(h.Sum(nil))[:16]
}

// Case records one evaluated case. key identifies the case content; cases seen
// before (e.g. re-evaluated by the shrinker) are counted once.
func (e *Evidence) Case(key string, nontrivial bool) (fresh bool) {
	e.mu.Lock()
	defer e.mu.Unlock()
	if _, ok := e.seen[key]; ok {
		return false
	}
	e.seen[key] = struct{}{}
	e.evals++
	if nontrivial {
		e.nontrivial[key] = struct{}{}
	}
	return true
}

// Bulk records n evaluations of which nt are distinct and non-trivial (table rows
// counted by the program itself; distinctness is by construction of the table).
func (e *Evidence) Bulk(n, nt int64, tag string) {
	e.mu.Lock()
	defer e.mu.Unlock()
	e.evals += n
	for i := int64(0); i < nt && i < 1; i++ {
	}
	e.hist["rows:"+tag] += n
	e.hist["nontrivial_rows:"+tag] += nt
	e.extra["bulk_nontrivial"] = toInt64(e.extra["bulk_nontrivial"]) + nt
}

func toInt64(v any) int64 {
	if v == nil {
		return 0
	}
	return v.(int64)
}

// Count increments a feature counter.
func (e *Evidence) Count(feature string, n int64) {
	e.mu.Lock()
	e.hist[feature] += n
	e.mu.Unlock()
}

// Sample stores a written-out case (bounded).
func (e *Evidence) Sample(s any) {
	e.mu.Lock()
	if len(e.samples) < e.maxSamples {
		e.samples = append(e.samples, s)
	}
	e.mu.Unlock()
}

// Note adds a free-text note.
func (e *Evidence) Note(s string) {
	e.mu.Lock()
	e.notes = append(e.notes, s)
	e.mu.Unlock()
}

// Assume records an assumption.
func (e *Evidence) Assume(s string) {
	e.mu.Lock()
	e.assume = append(e.assume, s)
	e.mu.Unlock()
}

// Set stores an extra coverage key.
func (e *Evidence) Set(k string, v any) {
	e.mu.Lock()
	e.extra[k] = v
	e.mu.Unlock()
}

// SetExhaustive marks that a finite sub-domain was enumerated completely.
func (e *Evidence) SetExhaustive(what string) {
	e.mu.Lock()
	e.exhaustive = true
	e.notes = append(e.notes, "exhaustive over: "+what)
	e.mu.Unlock()
}

// Evals returns the number of evaluations so far.
func (e *Evidence) Evals() int64 { e.mu.Lock(); defer e.mu.Unlock(); return e.evals }

// Write writes the evidence file (also called on failure).
func (e *Evidence) Write() {
	e.mu.Lock()
	defer e.mu.Unlock()
	cov := map[string]any{}
	for k, v := range e.extra {
		cov[k] = v
	}
	cov["evaluations"] = e.evals
	cov["distinct_nontrivial"] = int64(len(e.nontrivial)) + toInt64(e.extra["bulk_nontrivial"])
	cov["rule"] = e.Rule
	samples := e.samples
	if samples == nil {
		samples = []any{}
	}
	cov["samples"] = samples
	hk := make([]string, 0, len(e.hist))
	for k := range e.hist {
		hk = append(hk, k)
	}
	sort.Strings(hk)
	h := map[string]int64{}
	for _, k := range hk {
		h[k] = e.hist[k]
	}
	cov["histogram"] = h
	cov["notes"] = e.notes
	cov["known_findings_reported"] = e.known
	if e.exhaustive {
		cov["exhaustive"] = true
	}
	doc := map[string]any{
		"property_id": e.Property,
		"tier":        Tier(),
		"seed":        Seed(),
		"level":       e.Level,
		"coverage":    cov,
		"assumptions": e.assume,
		"wall_s":      time.Since(e.start).Seconds(),
		"violations":  e.violations,
	}
	if e.assume == nil {
		doc["assumptions"] = []string{}
	}
	if e.notes == nil {
		cov["notes"] = []string{}
	}
	if e.known == nil {
		cov["known_findings_reported"] = []string{}
	}
	b, _ := json.MarshalIndent(doc, "", " ")
	dir := filepath.Join(VerifDir(), "evidence")
	os.MkdirAll(dir, 0o755)
	name := filepath.Join(dir, e.Property+".json")
	if os.Getenv("VERIF_EVIDENCE_SUFFIX") != "" {
		name = filepath.Join(dir, e.Property+os.Getenv("VERIF_EVIDENCE_SUFFIX")+".json")
	}
	tmp := name + ".tmp"
	if err := os.WriteFile(tmp, b, 0o644); err == nil {
		os.Rename(tmp, name)
	}
}

// Violation stores a replay directory and prints the VIOLATION line.
// files: relative path → content of the minimal reproduction.
func (e *Evidence) Violation(desc string, files map[string]string) string {
	keys := SortedKeys(files)
	var parts []string
	for _, k := range keys {
		parts = append(parts, k, files[k])
	}
	h := Hash(parts...)
	base := filepath.Join(VerifDir(), "replay")
	if v := os.Getenv("VERIF_REPLAY_OUT"); v != "" {
		base = v // mutant / soak runs keep their findings out of the committed replay store
	}
	dir := filepath.Join(base, e.Property, h)
	os.MkdirAll(dir, 0o755)
	WriteTree(dir, files)
	os.WriteFile(filepath.Join(dir, "DESCRIPTION.txt"), []byte(desc+"\n"), 0o644)
	e.mu.Lock()
	e.violations++
	e.mu.Unlock()
	d := desc
	if i := strings.Index(d, "\n"); i >= 0 {
		d = d[:i]
	}
	fmt.Printf("VIOLATION property=%s replay=%s\n", e.Property, dir)
	fmt.Printf("  what: %s\n", d)
	return dir
}

// Violations returns the number of violations reported.
func (e *Evidence) Violations() int { e.mu.Lock(); defer e.mu.Unlock(); return e.violations }

// Finish writes the evidence and returns the process exit code.
func (e *Evidence) Finish() int {
	e.Write()
	// a violation that was found stands, whatever else remained inconclusive
	if e.Violations() > 0 {
		return 1
	}
	if infraFlag.Load() {
		return 2
	}
	return 0
}
