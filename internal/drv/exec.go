package drv

import (
	"bytes"
	"errors"
	"context"
	"fmt"
	"os"
	"os/exec"
	"path/filepath"
	"runtime"
	"strings"
	"sync"
	"sync/atomic"
	"syscall"
	"time"
)

// Outcome is the normalised observation of one program run (Appendix D of DESIGN.md).
type Outcome struct {
	Trace  []string
	End    string // exit0 | panic | deadlock | crash | timeout
	Msg    string // first line of the panic message (for End==panic)
	Stderr string // raw stderr of node / tail of native stderr
	Code   int
}

func (o Outcome) String() string {
	s := strings.Join(o.Trace, "\n")
	if len(s) > 4000 {
		s = s[:2000] + "\n…\n" + s[len(s)-2000:]
	}
	return fmt.Sprintf("%s\n--end: %s %q (code %d)", s, o.End, o.Msg, o.Code)
}

// Same compares trace and end kind (and panic message when cmpMsg).
func (o Outcome) Same(p Outcome, cmpMsg bool) bool {
	if o.End != p.End || len(o.Trace) != len(p.Trace) {
		return false
	}
	for i := range o.Trace {
		if o.Trace[i] != p.Trace[i] {
			return false
		}
	}
	if cmpMsg && o.End == "panic" && o.Msg != p.Msg {
		return false
	}
	return true
}

// FirstDiff describes the first differing trace line.
func FirstDiff(a, b Outcome) string {
	n := len(a.Trace)
	if len(b.Trace) < n {
		n = len(b.Trace)
	}
	for i := 0; i < n; i++ {
		if a.Trace[i] != b.Trace[i] {
			return fmt.Sprintf("line %d: %q vs %q", i, a.Trace[i], b.Trace[i])
		}
	}
	if len(a.Trace) != len(b.Trace) {
		var extra string
		if len(a.Trace) > n {
			extra = a.Trace[n]
		} else {
			extra = b.Trace[n]
		}
		return fmt.Sprintf("trace length %d vs %d (first extra line %q)", len(a.Trace), len(b.Trace), extra)
	}
	return fmt.Sprintf("end %s %q vs %s %q", a.End, a.Msg, b.End, b.Msg)
}

func splitLines(s string) []string {
	s = strings.ReplaceAll(s, "\r\n", "\n")
	if s == "" {
		return nil
	}
	s = strings.TrimSuffix(s, "\n")
	return strings.Split(s, "\n")
}

func runCmd(timeout time.Duration, env []string, dir string, name string, args ...string) (stdout, stderr string, code int, timedOut bool) {
	ctx, cancel := context.WithTimeout(context.Background(), timeout)
	defer cancel()
	cmd := exec.CommandContext(ctx, name, args...)
	cmd.Dir = dir
	if env != nil {
		cmd.Env = env
	}
	cmd.SysProcAttr = &syscall.SysProcAttr{Setpgid: true}
	cmd.Cancel = func() error { return syscall.Kill(-cmd.Process.Pid, syscall.SIGKILL) }
	cmd.WaitDelay = 20 * time.Second
	var so, se bytes.Buffer
	cmd.Stdout = &so
	cmd.Stderr = &se
	err := cmd.Run()
	if ctx.Err() != nil {
		return so.String(), se.String(), -1, true
	}
	code = 0
	if err != nil {
		if ee, ok := err.(*exec.ExitError); ok {
			code = ee.ExitCode()
		} else if errors.Is(err, exec.ErrWaitDelay) {
			// the process is gone but its output could not be collected in time (busy machine):
			// treated like a time-out, the caller tries again
			return so.String(), se.String(), -1, true
		} else {
			Infra("cannot run %s: %v", name, err)
		}
	}
	return so.String(), se.String(), code, false
}

// NodeOpts tunes a Node run.
type NodeOpts struct {
	Preload string   // path of a script passed with -r
	Env     []string // extra environment
	Timeout time.Duration
	NodeArg []string
}

// RunNode executes a compiled program under Node and normalises the outcome.
func RunNode(jsPath string, args []string, o NodeOpts) Outcome {
	if o.Timeout == 0 {
		o.Timeout = 30 * time.Second
	}
	nargs := []string{"--stack-size=4000"}
	nargs = append(nargs, o.NodeArg...)
	if o.Preload != "" {
		nargs = append(nargs, "-r", o.Preload)
	}
	nargs = append(nargs, jsPath)
	nargs = append(nargs, args...)
	var env []string
	if o.Env != nil {
		env = append(os.Environ(), o.Env...)
	}
	so, se, code, to := runCmd(o.Timeout, env, filepath.Dir(jsPath), "node", nargs...)
	if to {
		// a time budget that is hit says nothing about the program (the machine may be busy):
		// one more attempt with a generous budget, then the run is inconclusive
		so, se, code, to = runCmd(6*o.Timeout, env, filepath.Dir(jsPath), "node", nargs...)
		if to && os.Getenv("VERIF_TIMEOUT_IS_OUTCOME") == "" {
			Inconclusive("node %s %v did not finish within %v (a busy machine or a program that hangs)", jsPath, args, 6*o.Timeout)
		}
	}
	out := Outcome{Trace: splitLines(so), Stderr: se, Code: code}
	switch {
	case to:
		out.End = "timeout"
	case code == 0:
		out.End = "exit0"
	case code == 2 && hasLinePrefix(se, "fatal error: all goroutines are asleep - deadlock"):
		out.End = "deadlock"
	default:
		out.End, out.Msg = classifyNodeFailure(se)
	}
	return out
}

func hasLinePrefix(s, prefix string) bool {
	for _, l := range splitLines(s) {
		if strings.HasPrefix(l, prefix) {
			return true
		}
	}
	return false
}

// classifyNodeFailure finds the thrown error line in Node's stderr. A Go panic
// surfaces as "Error: <msg>" (a $panic-wrapped value); JavaScript-level errors
// (TypeError, ReferenceError, SyntaxError, RangeError, InternalError) are never a
// legitimate Go outcome and are reported as crash.
func classifyNodeFailure(se string) (end, msg string) {
	lines := splitLines(se)
	for i, l := range lines {
		for _, k := range []string{"TypeError", "ReferenceError", "SyntaxError", "RangeError", "InternalError", "EvalError", "URIError"} {
			if strings.HasPrefix(l, k+":") || strings.HasPrefix(l, "Uncaught "+k) {
				return "crash", l
			}
		}
		if strings.HasPrefix(l, "Error: ") || l == "Error" {
			msg = strings.TrimPrefix(strings.TrimPrefix(l, "Error"), ": ")
			// multi-line messages: following lines up to the first "    at "
			for _, m := range lines[i+1:] {
				if strings.HasPrefix(m, "    at ") {
					break
				}
				msg += "\n" + m
			}
			return "panic", msg
		}
	}
	return "crash", strings.TrimSpace(se)
}

// CheckSyntax runs `node --check` on a file.
func CheckSyntax(jsPath string) error {
	_, se, code, to := runCmd(60*time.Second, nil, filepath.Dir(jsPath), "node", "--check", jsPath)
	if to {
		Infra("node --check timed out")
	}
	if code != 0 {
		return fmt.Errorf("node --check failed: %s", se)
	}
	return nil
}

// nativeEnv is the environment for reference-toolchain commands.
func nativeEnv(extra ...string) []string {
	var env []string
	for _, e := range os.Environ() {
		if strings.HasPrefix(e, "GOPATH=") || strings.HasPrefix(e, "GO111MODULE=") || strings.HasPrefix(e, "GOOS=") || strings.HasPrefix(e, "GOARCH=") || strings.HasPrefix(e, "GOFLAGS=") {
			continue
		}
		env = append(env, e)
	}
	env = append(env, "GO111MODULE=on", "GOFLAGS=-mod=mod", "GOPROXY=off", "GOSUMDB=off", "GOTOOLCHAIN=local", "CGO_ENABLED=0")
	return append(env, extra...)
}

// NativeEnv exposes the environment used for reference-toolchain commands.
func NativeEnv(extra ...string) []string { return nativeEnv(extra...) }

// RunCmd runs a command with a timeout and returns stdout, stderr and the exit code.
func RunCmd(timeout time.Duration, env []string, dir, name string, args ...string) (string, string, int, bool) {
	return runCmd(timeout, env, dir, name, args...)
}

var cliOnce sync.Once
var cliPath string

// CLI builds the gopherjs command line tool from the tree under test (once per process).
func CLI() string {
	cliOnce.Do(func() {
		out := filepath.Join(Scratch(), "gopherjs-cli")
		_, se, code, to := runCmd(20*time.Minute, nativeEnv(), RepoDir(), "go", "build", "-o", out, ".")
		if to || code != 0 {
			Infra("cannot build the gopherjs CLI from %s: %s", RepoDir(), se)
		}
		cliPath = out
	})
	return cliPath
}

// BuildNative builds the main package in dir with the reference toolchain.
func BuildNative(dir string, tags []string) (bin string, err error) {
	bin = filepath.Join(dir, "native.bin")
	args := []string{"build", "-o", bin}
	if len(tags) > 0 {
		args = append(args, "-tags", strings.Join(tags, ","))
	}
	args = append(args, ".")
	_, se, code, to := runCmd(10*time.Minute, nativeEnv(), dir, "go", args...)
	if to {
		Infra("native go build timed out in %s", dir)
	}
	if code != 0 {
		return "", fmt.Errorf("native build failed: %s", se)
	}
	return bin, nil
}

// RunNative executes a reference binary and normalises the outcome.
func RunNative(bin string, args []string, timeout time.Duration, extraEnv ...string) Outcome {
	if timeout == 0 {
		timeout = 30 * time.Second
	}
	env := append(os.Environ(), "GOTRACEBACK=single")
	env = append(env, extraEnv...)
	so, se, code, to := runCmd(timeout, env, filepath.Dir(bin), bin, args...)
	if to {
		so, se, code, to = runCmd(6*timeout, env, filepath.Dir(bin), bin, args...)
		if to {
			Inconclusive("native %s %v did not finish within %v", bin, args, 6*timeout)
		}
	}
	_ = so
	out := Outcome{Code: code}
	lines := splitLines(se)
	cut := len(lines)
	for i, l := range lines {
		if strings.HasPrefix(l, "panic: ") || strings.HasPrefix(l, "fatal error: ") || strings.HasPrefix(l, "goroutine ") || strings.HasPrefix(l, "[signal ") || strings.HasPrefix(l, "exit status") {
			cut = i
			break
		}
	}
	out.Trace = append([]string{}, lines[:cut]...)
	tail := strings.Join(lines[cut:], "\n")
	if len(tail) > 2000 {
		tail = tail[:2000]
	}
	out.Stderr = tail
	switch {
	case to:
		out.End = "timeout"
	case code == 0:
		out.End = "exit0"
	case cut < len(lines) && strings.HasPrefix(lines[cut], "fatal error: all goroutines are asleep"), cut < len(lines) && strings.HasPrefix(lines[cut], "fatal error: no goroutines (main called runtime.Goexit)"):
		out.End = "deadlock"
	case cut < len(lines) && strings.HasPrefix(lines[cut], "panic: "):
		out.End = "panic"
		// With nested panics Go prints "panic: first [recovered]" followed by indented
		// "\tpanic: second" lines; the last one is the panic that ended the program.
		start := cut
		for k := cut + 1; k < len(lines); k++ {
			if strings.HasPrefix(lines[k], "goroutine ") || strings.HasPrefix(lines[k], "[signal ") {
				break
			}
			if strings.HasPrefix(strings.TrimLeft(lines[k], "\t "), "panic: ") {
				start = k
			}
		}
		msg := strings.TrimPrefix(strings.TrimLeft(lines[start], "\t "), "panic: ")
		msg = strings.TrimSuffix(msg, " [recovered]")
		// multi-line panic messages continue until the blank line before "goroutine N"
		for _, m := range lines[start+1:] {
			if m == "" || strings.HasPrefix(m, "goroutine ") || strings.HasPrefix(m, "[signal ") {
				break
			}
			msg += "\n" + m
		}
		out.Msg = msg
	default:
		out.End = "crash"
		out.Msg = tail
	}
	return out
}

// NormPanicMsg maps a panic message of either world to a comparable form:
// the "runtime error: " prefix is dropped, Go's error-value decorations are removed
// and run-time error messages are reduced to their class keyword.
func NormPanicMsg(m string) string {
	if i := strings.Index(m, "\n"); i >= 0 {
		m = m[:i]
	}
	m = strings.TrimSpace(m)
	// Go prints error values of panics as the Error() text; for runtime.Error plainError values
	// there may be a trailing " [recovered]"; goexit etc. not relevant here.
	m = strings.TrimPrefix(m, "runtime error: ")
	for _, k := range RuntimeErrorClasses {
		if strings.Contains(m, k) {
			return "rt:" + k
		}
	}
	return m
}

// RuntimeErrorClasses are the keywords by which run-time error messages are compared.
var RuntimeErrorClasses = []string{
	"index out of range",
	"slice bounds out of range",
	"assignment to entry in nil map",
	"invalid memory address or nil pointer dereference",
	"integer divide by zero",
	"interface conversion",
	"comparing uncomparable",
	"hash of unhashable",
	"makeslice: len out of range",
	"makeslice: cap out of range",
	"makechan: size out of range",
	"cannot convert slice with length",
	"close of nil channel",
	"close of closed channel",
	"send on closed channel",
	"negative shift amount",
	"all goroutines are asleep",
}

// Parallel runs f(i) for i in [0,n) on up to NumCPU workers.
func Parallel(n int, f func(i int)) {
	ParallelN(runtime.NumCPU(), n, f)
}

var parallelDepth atomic.Int32

// ParallelN runs f(i) for i in [0,n) on up to w workers.
func ParallelN(w, n int, f func(i int)) {
	if w > n {
		w = n
	}
	if w < 1 {
		w = 1
	}
	// the outermost call (made by the test's own goroutine) swallows inconclusive cases, nested
	// calls hand them to the case that made them
	top := parallelDepth.Add(1) == 1
	defer parallelDepth.Add(-1)
	var skipped atomic.Bool
	defer func() {
		if skipped.Load() && !top {
			panic(inconclusive{})
		}
	}()
	var wg sync.WaitGroup
	ch := make(chan int)
	for k := 0; k < w; k++ {
		wg.Add(1)
		go func() {
			defer wg.Done()
			for i := range ch {
				func() {
					// a case that hit its time budget is skipped (the run ends as inconclusive
					// unless another case shows a violation)
					defer func() {
						if r := recover(); r != nil {
							if _, ok := r.(inconclusive); !ok {
								panic(r)
							}
							skipped.Store(true)
						}
					}()
					f(i)
				}()
			}
		}()
	}
	for i := 0; i < n; i++ {
		ch <- i
	}
	close(ch)
	wg.Wait()
}
