package drv

import (
	"bufio"
	"encoding/json"
	"fmt"
	"os"
	"path/filepath"
	"regexp"
	"strings"
	"sync"
)

// Finding is one line of known-findings.jsonl.
type Finding struct {
	Property string   `json:"property"`
	ID       string   `json:"id"`
	Status   string   `json:"status"` // open | fixed
	What     string   `json:"what"`
	Replay   string   `json:"replay,omitempty"` // directory below /verif
	Avoid    string   `json:"avoid,omitempty"`  // generator switch that excludes the shape
	Rows     []string `json:"rows,omitempty"`   // exact row keys (table checks)
	RowRe    string   `json:"row_re,omitempty"` // row key pattern (table checks)
	Commit   string   `json:"commit,omitempty"`
	re       *regexp.Regexp
}

var (
	findingsOnce sync.Once
	findings     []*Finding
)

func loadFindings() {
	findingsOnce.Do(func() {
		f, err := os.Open(filepath.Join(VerifDir(), "known-findings.jsonl"))
		if err != nil {
			return
		}
		defer f.Close()
		sc := bufio.NewScanner(f)
		sc.Buffer(make([]byte, 1<<20), 1<<20)
		for sc.Scan() {
			line := strings.TrimSpace(sc.Text())
			if line == "" || strings.HasPrefix(line, "#") {
				continue
			}
			if strings.HasPrefix(line, "fixed:") {
				continue // human-readable fixed entries suppress nothing
			}
			var fd Finding
			if err := json.Unmarshal([]byte(line), &fd); err != nil {
				Infra("known-findings.jsonl: %v in %q", err, line)
			}
			if fd.RowRe != "" {
				fd.re = regexp.MustCompile(fd.RowRe)
			}
			findings = append(findings, &fd)
		}
	})
}

// OpenFindings returns the open findings of a property.
func OpenFindings(property string) []*Finding {
	loadFindings()
	var out []*Finding
	for _, f := range findings {
		if f.Status == "open" && f.Property == property {
			out = append(out, f)
		}
	}
	return out
}

// Avoid reports whether an open finding (of any property) asks generators to
// stay clear of the named shape.
func Avoid(name string) bool {
	loadFindings()
	for _, f := range findings {
		if f.Status == "open" && f.Avoid == name {
			return true
		}
	}
	return false
}

// MatchRow returns the open finding of the property that lists this row key.
func MatchRow(property, row string) *Finding {
	for _, f := range OpenFindings(property) {
		for _, r := range f.Rows {
			if r == row {
				return f
			}
		}
		if f.re != nil && f.re.MatchString(row) {
			return f
		}
	}
	return nil
}

// Known prints the KNOWN-FINDING line (once per finding per run).
func (e *Evidence) Known(f *Finding) {
	e.mu.Lock()
	for _, k := range e.known {
		if k == f.ID {
			e.mu.Unlock()
			return
		}
	}
	e.known = append(e.known, f.ID)
	e.mu.Unlock()
	fmt.Printf("KNOWN-FINDING: property=%s %s (%s)\n", f.Property, f.What, f.ID)
}

// ReadReplayDir loads the files of a replay directory (relative to /verif).
func ReadReplayDir(rel string) map[string]string {
	root := rel
	if !filepath.IsAbs(root) {
		root = filepath.Join(VerifDir(), rel)
	}
	out := map[string]string{}
	filepath.Walk(root, func(p string, info os.FileInfo, err error) error {
		if err != nil || info.IsDir() {
			return nil
		}
		b, err := os.ReadFile(p)
		if err != nil {
			return nil
		}
		r, _ := filepath.Rel(root, p)
		out[r] = string(b)
		return nil
	})
	return out
}

// ReplayDirs lists the stored replay directories of a property.
func ReplayDirs(property string) []string {
	ents, _ := os.ReadDir(filepath.Join(VerifDir(), "replay", property))
	var out []string
	for _, e := range ents {
		if e.IsDir() {
			out = append(out, filepath.Join("replay", property, e.Name()))
		}
	}
	return out
}
