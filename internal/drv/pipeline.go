package drv

import (
	"bytes"
	"fmt"
	"go/types"
	"runtime/debug"

	gbuild "github.com/gopherjs/gopherjs/build"
	"github.com/gopherjs/gopherjs/compiler"
	"github.com/gopherjs/gopherjs/compiler/sources"
)

// LoadSources parses and augments the main package in dir and all its
// dependencies (not yet sorted, simplified or type-checked), sorted by import path.
func LoadSources(dir string, o BuildOpts) (all []*sources.Sources, rootPath string, s *gbuild.Session, err error) {
	Init()
	defer func() {
		if r := recover(); r != nil {
			err = &CompilerPanic{Val: r, Stack: string(debug.Stack())}
		}
	}()
	s, err = gbuild.NewSession(&gbuild.Options{Minify: o.Minify, BuildTags: o.Tags, NoCache: true, Quiet: true})
	if err != nil {
		return nil, "", nil, err
	}
	pkg, err := s.XContext().Import(".", dir, 0)
	if err != nil {
		return nil, "", nil, err
	}
	pkg.Imports = append(pkg.Imports, "runtime")
	root, err := s.LoadPackages(pkg)
	if err != nil {
		return nil, "", nil, err
	}
	return s.GetSortedSources(), root.ImportPath, s, nil
}

// CompileSources runs the exported compiler pipeline over a complete set of sources.
func CompileSources(all []*sources.Sources, rootPath string, minify bool, goRelease string) (js []byte, err error) {
	defer func() {
		if r := recover(); r != nil {
			err = &CompilerPanic{Val: r, Stack: string(debug.Stack())}
		}
	}()
	byPath := map[string]*sources.Sources{}
	for _, s := range all {
		byPath[s.ImportPath] = s
	}
	importer := func(path, srcDir string) (*sources.Sources, error) {
		if s, ok := byPath[path]; ok {
			return s, nil
		}
		return nil, fmt.Errorf("sources for %q not found", path)
	}
	tctx := types.NewContext()
	if err := compiler.PrepareAllSources(all, importer, tctx); err != nil {
		return nil, err
	}
	archives := map[string]*compiler.Archive{}
	for _, s := range all {
		a, err := compiler.Compile(s, tctx, minify)
		if err != nil {
			return nil, err
		}
		archives[s.ImportPath] = a
	}
	rootA, ok := archives[rootPath]
	if !ok {
		return nil, fmt.Errorf("root %q not compiled", rootPath)
	}
	deps, err := compiler.ImportDependencies(rootA, func(path string) (*compiler.Archive, error) {
		if a, ok := archives[path]; ok {
			return a, nil
		}
		return nil, fmt.Errorf("archive for %q not found", path)
	})
	if err != nil {
		return nil, err
	}
	var buf bytes.Buffer
	if err := compiler.WriteProgramCode(deps, compiler.DefaultFilter(&buf), goRelease); err != nil {
		return nil, err
	}
	return buf.Bytes(), nil
}
