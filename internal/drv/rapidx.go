package drv

import (
	"flag"
	"fmt"
	"os"
	"strconv"
	"testing"

	"pgregory.net/rapid"
)

// Fail is a failing case: description plus the files of a reproduction.
type Fail struct {
	Desc  string
	Files map[string]string
}

// Failf builds a Fail.
func Failf(files map[string]string, format string, a ...any) *Fail {
	return &Fail{Desc: fmt.Sprintf(format, a...), Files: files}
}

// RapidCheck runs prop under rapid with the run's seed and the given number of
// checks. The shrunk failing case (the last one rapid executes) is stored as a
// replay directory and reported as a VIOLATION. Returns true if the property held.
func RapidCheck(t *testing.T, ev *Evidence, name string, checks int, prop func(rt *rapid.T) *Fail) bool {
	var last *Fail
	flag.Set("rapid.checks", strconv.Itoa(checks))
	flag.Set("rapid.seed", strconv.Itoa(Seed()))
	flag.Set("rapid.nofailfile", "true")
	if v := os.Getenv("VERIF_SHRINKTIME"); v != "" {
		flag.Set("rapid.shrinktime", v)
	}
	ok := t.Run(name, func(t *testing.T) {
		rapid.Check(t, func(rt *rapid.T) {
			if f := prop(rt); f != nil {
				last = f
				rt.Fatalf("%s", f.Desc)
			}
		})
	})
	if !ok {
		if last == nil {
			fmt.Printf("INFRA: rapid check %s failed without a recorded case\n", name)
			infraFlag.Store(true)
			return false
		}
		files := last.Files
		if files == nil {
			files = map[string]string{}
		}
		ev.Violation(name+": "+last.Desc, files)
	}
	return ok
}

// TestMain is the common TestMain body of all check packages.
func TestMain(m *testing.M, ev func() *Evidence) {
	Init()
	code := m.Run()
	e := ev()
	if e == nil {
		fmt.Println("INFRA: check did not create evidence")
		os.Exit(2)
	}
	c := e.Finish()
	if c == 0 && code != 0 {
		fmt.Println("INFRA: test binary failed without a violation")
		c = 2
	}
	os.Exit(c)
}
