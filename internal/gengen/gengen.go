// Package gengen generates multi-package programs built around generic code: generic
// functions, types and methods, instantiations reachable only through other generic
// code, types declared inside generic functions, instances crossing packages in both
// directions of the import graph (a library instantiates its own generics for main and
// main instantiates library generics with library and main types), per-instance
// arithmetic width and method dispatch through constraints.
package gengen

import (
	"fmt"
	"strings"

	"pgregory.net/rapid"
)

// Program is a generated multi-package program (ROOT/ is the import path prefix).
type Program struct {
	Files         map[string]string
	Packages      int
	Instantiation int // explicit instantiation sites in main
	Transitive    bool
	Composite     bool
}

const basePkg = `package base

// Describe names the dynamic type of a value; every instantiation shows up differently.
func Describe(v interface{}) string {
	switch x := v.(type) {
	case nil:
		return "nil"
	case int:
		return "int"
	case int8:
		return "int8"
	case int16:
		return "int16"
	case int64:
		return "int64"
	case uint8:
		return "uint8"
	case float32:
		return "float32"
	case float64:
		return "float64"
	case string:
		return "string"
	case bool:
		return "bool"
	case []int:
		return "[]int"
	case []string:
		return "[]string"
	case [][]int:
		return "[][]int"
	case map[string]int:
		return "map[string]int"
	case map[string][]int:
		return "map[string][]int"
	case *int:
		return "*int"
	case [2]string:
		return "[2]string"
	case struct{ A int }:
		return "struct{A int}"
	case Named:
		return "base.Named"
	case []Named:
		return "[]base.Named"
	case Box[int]:
		return "Box[int]"
	case Box[string]:
		return "Box[string]"
	case Box[Named]:
		return "Box[Named]"
	case Box[[]int]:
		return "Box[[]int]"
	case Box[Box[int]]:
		return "Box[Box[int]]"
	case *Box[int]:
		return "*Box[int]"
	case Pair[string, int]:
		return "Pair[string,int]"
	case Pair[int, string]:
		return "Pair[int,string]"
	case Pair[string, Box[int]]:
		return "Pair[string,Box[int]]"
	case []Box[int]:
		return "[]Box[int]"
	case interface{ TypeTag() string }:
		return "tagged:" + x.TypeTag()
	}
	return "other"
}

type Named int

func (n Named) Str() string { return "Named!" }

type Box[T any] struct{ V T }

func (b Box[T]) Get() T          { return b.V }
func (b *Box[T]) Set(v T)        { b.V = v }
func (b Box[T]) Kind() string    { return "Box of " + Describe(b.V) }
func MakeBox[T any](v T) Box[T]  { return Box[T]{v} }

type Pair[K comparable, V any] struct {
	K K
	V V
}

func (p Pair[K, V]) Swap() Rev[V, K] { return Rev[V, K]{p.V, K2[K]{p.K}} }

type Rev[A, B any] struct {
	K A
	V K2[B]
}

type K2[K any] struct{ Inner K }

type List[T any] struct {
	Head T
	Next *List[T]
}

func (l *List[T]) Len() int {
	n := 0
	for ; l != nil; l = l.Next {
		n++
	}
	return n
}

func Zero[T any]() T {
	var z T
	return z
}

func Name[T any]() string { return Describe(Zero[T]()) }

// Deep reaches instantiations only through other generic code.
func Deep[T any](x T) string {
	return Name[[]T]() + "|" + Mid[map[string]T](nil)
}

func Mid[T any](x T) string {
	return Describe(x) + "/" + Name[Box[T]]()
}

type Num interface {
	~int8 | ~int16 | ~int | ~float32 | ~float64 | ~uint8
}

func Add[T Num](a, b T) T { return a + b }

func Scale[T Num](xs []T, k T) T {
	var s T
	for _, x := range xs {
		s += x * k
	}
	return s
}

type Strer interface{ Str() string }

func CallStr[T Strer](x T) string { return x.Str() }

// Local declares a type inside a generic function: one distinct type per instance.
func Local[T any](x T) interface{} {
	type loc struct{ v T }
	return loc{x}
}

func LocalTagged[T any](x T) interface{ TypeTag() string } {
	return tagged[T]{x}
}

type tagged[T any] struct{ v T }

func (t tagged[T]) TypeTag() string { return Describe(t.v) }

// Local2 and Local2Tag declare types inside functions with two type parameters: the
// instances for [A, B] and [B, A] (and for [A, A], [B, B]) are four different types.
func Local2[A, B any](a A, b B) interface{} {
	type pair struct {
		a A
		b B
	}
	return pair{a, b}
}

type tag2[A any] struct{}

func (tag2[A]) Tag() string {
	var z A
	return Describe(z)
}

func Local2Tag[A, B any]() interface{ Tag() string } {
	type w struct {
		tag2[A]
		b B
	}
	return w{}
}

// SwT switches on the type parameter itself and uses the variable bound by the clause.
func SwT[T comparable](v interface{}, want T) string {
	switch x := v.(type) {
	case T:
		m := map[T]int{want: 7}
		if x == want {
			return "T:same:" + Describe(x) + ":" + Describe(m[x] == 7)
		}
		return "T:other:" + Describe(x) + ":" + Describe(m[x] == 7)
	case []T:
		if len(x) > 0 && x[0] == want {
			return "[]T:first"
		}
		return "[]T"
	case *T:
		if x != nil && *x == want {
			return "*T:same"
		}
		return "*T"
	case nil:
		return "nil"
	}
	return "no"
}

type addable interface {
	~int | ~int8 | ~uint8 | ~float64 | ~string
}

// SwAdd does arithmetic with the bound variable of a type-parameter clause.
func SwAdd[T addable](v interface{}, add T) T {
	switch x := v.(type) {
	case T:
		return x + add
	}
	return add
}

// MakeRec builds an unnamed struct that mentions the type parameter and carries tags on some
// fields only: the instantiated type is identical to the same struct written out elsewhere.
func MakeRec[T any](v T) interface{} {
	return struct {
		ID   int
		Val  T ` + "`k:\"v\"`" + `
		Note string ` + "`json:\"note\"`" + `
	}{1, v, "n"}
}

// RunLit calls a method of its type argument from inside a function literal: whether the literal
// can suspend depends on the instantiation.
type Doer interface{ Do() string }

func RunLit[D Doer](d D) string {
	f := func() string { return d.Do() + "|after" }
	return f() + "|ret"
}

func Map[T, U any](xs []T, f func(T) U) []U {
	var out []U
	for _, x := range xs {
		out = append(out, f(x))
	}
	return out
}

func Keys[K comparable, V any](m map[K]V, order []K) []K {
	var ks []K
	for _, k := range order {
		if _, ok := m[k]; ok {
			ks = append(ks, k)
		}
	}
	return ks
}
`

type targ struct {
	expr string // Go type expression as seen from a package importing base as "base" (or inside base: see local())
	val  string // value expression
	cmp  bool
}

var targPool = []targ{
	{"int", "7", true}, {"int8", "int8(100)", true}, {"string", `"s"`, true}, {"float32", "float32(0.1)", true}, {"float64", "2.5", true},
	{"[]int", "[]int{1, 2}", false}, {"map[string]int", `map[string]int{"a": 1}`, false}, {"*int", "new(int)", true}, {"[2]string", `[2]string{"a", "b"}`, true},
	{"struct{ A int }", "struct{ A int }{3}", true}, {"base.Named", "base.Named(4)", true}, {"base.Box[int]", "base.Box[int]{5}", true}, {"base.Box[string]", `base.Box[string]{"q"}`, true},
	{"base.Pair[string, int]", `base.Pair[string, int]{"k", 1}`, true}, {"[]base.Named", "[]base.Named{1}", false}, {"base.Box[base.Box[int]]", "base.Box[base.Box[int]]{}", true}, {"bool", "true", true}, {"uint8", "uint8(200)", true}, {"int16", "int16(30000)", true},
}

// Gen draws a program with nlibs library packages between base and main.
func Gen(rt *rapid.T) Program {
	nlibs := rapid.IntRange(1, 3).Draw(rt, "nlibs")
	files := map[string]string{"base/base.go": basePkg}
	p := Program{Packages: nlibs + 2}
	var mainBody strings.Builder
	hubDecl := ""
	imports := []string{`"ROOT/base"`}
	line := 0
	emit := func(expr string) {
		line++
		fmt.Fprintf(&mainBody, "\tout(\"m%d \" + %s)\n", line, expr)
	}
	pickT := func(label string) targ { return rapid.SampledFrom(targPool).Draw(rt, label) }
	for l := 0; l < nlibs; l++ {
		name := fmt.Sprintf("lib%d", l)
		imports = append(imports, fmt.Sprintf(`"ROOT/%s"`, name))
		var sb strings.Builder
		fmt.Fprintf(&sb, "package %s\n\nimport \"ROOT/base\"\n\n", name)
		// a local named type with a method, used as a type argument across packages
		fmt.Fprintf(&sb, "type Own struct{ N int }\n\nfunc (o Own) Str() string { return \"%s.Own\" }\nfunc (o Own) TypeTag() string { return \"%s.Own\" }\n\n", name, name)
		// a generic function of this package that instantiates base generics with its own argument
		fmt.Fprintf(&sb, "func Wrap[T any](x T) string { return base.Deep(x) + \"~\" + base.Name[base.Pair[string, T]]() }\n\n")
		fmt.Fprintf(&sb, "func OwnBox() base.Box[Own] { return base.MakeBox(Own{%d}) }\n\n", l)
		fmt.Fprintf(&sb, "func BoxInt() interface{} { return base.MakeBox(%d) }\n\n", 41+l)
		fmt.Fprintf(&sb, "func LocalInt() interface{} { return base.Local(%d) }\n\n", 5)
		// Fan is only ever instantiated from generic code of another package (main.hub); every
		// library feeds its own instances of the base generics back into the base package
		fan := [][2]string{{"[]T{x}", "[]T"}, {"map[string]T{\"k\": x}", "map[string]T"}, {"&x", "*T"}, {"[2]T{x, x}", "[2]T"}, {"func() T { return x }", "func() T"}}[l%5]
		fmt.Fprintf(&sb, "func Fan[T any](x T) string {\n\treturn base.MakeBox(%s).Kind() + \"/\" + base.Name[base.Pair[string, %s]]() + \"/\" + base.LocalTagged(base.MakeBox(x)).TypeTag()\n}\n", fan[0], fan[1])
		nfun := rapid.IntRange(1, 4).Draw(rt, "nfun")
		for k := 0; k < nfun; k++ {
			t := pickT("libT")
			fn := fmt.Sprintf("Use%d", k)
			switch rapid.IntRange(0, 4).Draw(rt, "libkind") {
			case 0:
				fmt.Fprintf(&sb, "func %s() string { return base.Name[%s]() + \" \" + base.Deep(%s) }\n\n", fn, t.expr, t.val)
				p.Transitive = true
			case 1:
				fmt.Fprintf(&sb, "func %s() string { b := base.MakeBox(%s); return b.Kind() + \" \" + base.Describe(b.Get()) }\n\n", fn, t.val)
			case 2:
				fmt.Fprintf(&sb, "func %s() string { return base.Describe(base.Map([]%s{%s}, func(v %s) base.Box[%s] { return base.MakeBox(v) })) + Wrap(%s) }\n\n", fn, t.expr, t.val, t.expr, t.expr, t.val)
				p.Composite = true
				p.Transitive = true
			case 3:
				fmt.Fprintf(&sb, "func %s() string { l := &base.List[%s]{Head: %s}; l = &base.List[%s]{Next: l}; return base.Describe(l.Head) + string(rune('0'+l.Len())) }\n\n", fn, t.expr, t.val, t.expr)
			default:
				fmt.Fprintf(&sb, "func %s() string { p := base.Pair[string, %s]{\"k\", %s}; return base.Describe(p.Swap().K) + base.Describe(p.Swap().V.Inner) }\n\n", fn, t.expr, t.val)
				p.Composite = true
			}
			emit(fmt.Sprintf("%s.%s()", name, fn))
		}
		files[name+"/"+name+".go"] = sb.String()
		emit(fmt.Sprintf("base.Describe(%s.OwnBox()) + %s.OwnBox().Kind() + base.CallStr(%s.Own{})", name, name, name))
		emit(fmt.Sprintf("%s.Wrap(%s.Own{1}) + base.LocalTagged(%s.Own{}).TypeTag()", name, name, name))
	}
	// a second package whose import path ends like lib0's: both instantiate base generics from
	// ordinary code with different type arguments (package order must not depend on the last
	// path element only)
	files["alt/lib0/lib0.go"] = "package lib0\n\nimport \"ROOT/base\"\n\nfunc AltBox() interface{} { return base.MakeBox(int16(7)) }\n\nfunc AltPair() string { return base.Name[base.Pair[string, bool]]() + base.Name[base.Rev[int8, uint8]]() }\n"
	imports = append(imports, `altlib0 "ROOT/alt/lib0"`)
	emit("base.Describe(altlib0.AltBox()) + altlib0.AltPair() + base.Name[base.Pair[string, float32]]()")
	p.Packages++
	// hub instantiates the libraries' Fan functions from generic code only
	{
		var calls []string
		for l := 0; l < nlibs; l++ {
			calls = append(calls, fmt.Sprintf("lib%d.Fan(x)", l))
		}
		// packages whose generics are never instantiated from ordinary code: they get their
		// first instances while instances are propagated through generic code
		late := [][3]string{{"fana", "[]T{x}", "[]T"}, {"fanb", "map[string]T{\"k\": x}", "map[string]T"}, {"fanc", "&x", "*T"}, {"fand", "[2]T{x, x}", "[2]T"}}
		nlate := rapid.IntRange(2, 4).Draw(rt, "nlate")
		for _, lp := range late[:nlate] {
			files[lp[0]+"/"+lp[0]+".go"] = fmt.Sprintf("package %s\n\nimport \"ROOT/base\"\n\nfunc Of[T any](x T) string {\n\treturn base.MakeBox(%s).Kind() + \"/\" + base.Name[base.Pair[string, %s]]() + \"/\" + inner(base.MakeBox(x))\n}\n\nfunc inner[U any](u U) string { return base.LocalTagged(u).TypeTag() + base.Name[base.Rev[U, %s]]() }\n", lp[0], lp[1], lp[2], "string")
			imports = append(imports, fmt.Sprintf(`"ROOT/%s"`, lp[0]))
			calls = append(calls, lp[0]+".Of(x)")
		}
		p.Packages += nlate
		hubDecl = "func hub[T any](x T) string { return " + strings.Join(calls, " + \"|\" + ") + " }\n\n"
		emit("quickT() + \" \" + slowT() + \" \" + quickT()")
		emit("recProbe()")
		emit("hub(1) + \" \" + hub(\"s\")")
		emit("hub(base.Named(2)) + \" \" + hub([]int{1})")
	}
	// main-side instantiations
	// every probe kind at most once per program, in a drawn order (rapid favours small values,
	// independent draws would leave the later kinds almost unused)
	kindOrder := rapid.Permutation([]int{0, 1, 2, 3, 4, 5, 6, 7, 8, 9, 10, 11, 12, 13}).Draw(rt, "kindorder")
	n := rapid.IntRange(6, 14).Draw(rt, "ninst")
	for i := 0; i < n; i++ {
		t := pickT("mainT")
		p.Instantiation++
		switch kindOrder[i] {
		case 10:
			u := pickT("mainU2")
			emit(fmt.Sprintf("btoa(base.Local2(%s, %s) == base.Local2(%s, %s)) + btoa(base.Local2(%s, %s) == base.Local2(%s, %s)) + btoa(base.Local2(%s, %s) == base.Local2(%s, %s)) + base.Local2Tag[%s, %s]().Tag() + base.Local2Tag[%s, %s]().Tag() + itoa(len(map[interface{}]int{base.Local2(%s, %s): 1, base.Local2(%s, %s): 2, base.Local2(%s, %s): 3, base.Local2(%s, %s): 4}))",
				t.valCmp(), u.valCmp(), t.valCmp(), u.valCmp(),
				t.valCmp(), u.valCmp(), u.valCmp(), t.valCmp(),
				t.valCmp(), t.valCmp(), u.valCmp(), u.valCmp(),
				t.expr, u.expr, u.expr, t.expr,
				t.valCmp(), u.valCmp(), u.valCmp(), t.valCmp(), t.valCmp(), t.valCmp(), u.valCmp(), u.valCmp()))
			p.Composite = true
		case 11:
			emit("base.SwT[int](7, 7) + base.SwT[int](8, 7) + base.SwT[string](\"a\", \"a\") + base.SwT[string](7, \"a\") + base.SwT[float64](1.5, 1.5) + base.SwT[bool](true, false) + base.SwT[base.Named](base.Named(3), 3) + base.SwT[[2]int]([2]int{1, 2}, [2]int{1, 2}) + base.SwT[struct{ a int }](struct{ a int }{1}, struct{ a int }{1}) + base.SwT[int8]([]int8{5}, 5) + base.SwT[int64](int64(1)<<40, int64(1)<<40) + base.SwT[*int](nil, nil)")
		case 12:
			emit("itoa(base.SwAdd[int](40, 2)) + \" \" + itoa(int(base.SwAdd[int8](int8(100), 100))) + \" \" + itoa(int(base.SwAdd[uint8](uint8(200), 100))) + \" \" + f64s(base.SwAdd[float64](0.1, 0.2)) + \" \" + base.SwAdd[string](\"ab\", \"cd\") + \" \" + itoa(int(base.SwAdd[base.Named](base.Named(5), 6))) + \" \" + itoa(base.SwAdd[int](\"no\", 9))")
		case 13:
			te, tv := t.expr, t.val
			if !t.cmp {
				te, tv = "int", "1"
			}
			emit(fmt.Sprintf("base.SwT[%s](%s, %s) + base.SwT[%s](interface{}(nil), %s)", te, tv, tv, te, tv))
		case 0:
			emit(fmt.Sprintf("base.Name[%s]()", t.expr))
		case 1:
			emit(fmt.Sprintf("base.Deep(%s)", t.val))
			p.Transitive = true
		case 2:
			emit(fmt.Sprintf("base.MakeBox(%s).Kind()", t.val))
		case 3:
			emit("itoa(int(base.Add(int8(100), int8(100)))) + \" \" + itoa(int(base.Add(int16(100), int16(100)))) + \" \" + f32s(base.Add(float32(0.1), float32(0.2))) + \" \" + f64s(base.Add(0.1, 0.2)) + \" \" + itoa(int(base.Add(uint8(200), uint8(100)))) + \" \" + itoa(int(base.Scale([]int8{50, 60}, 3)))")
		case 4:
			emit("base.CallStr(base.Named(1)) + base.CallStr(mine{}) + base.CallStr(&ptrmine{})")
		case 5:
			u := pickT("mainU")
			emit(fmt.Sprintf("btoa(base.Local(%s) == base.Local(%s)) + btoa(base.Local(%s) == base.Local(%s)) + base.Describe(base.LocalTagged(%s))", t.valCmp(), t.valCmp(), t.valCmp(), u.valCmp(), t.val))
		case 6:
			emit(fmt.Sprintf("describeSwitch(base.MakeBox(%s)) + describeSwitch(base.Pair[string, %s]{}) + describeSwitch(lib0.BoxInt())", t.val, t.expr))
			p.Composite = true
		case 7:
			emit("btoa(interface{}(base.MakeBox(1)) == lib0.BoxInt()) + btoa(interface{}(base.MakeBox(41)) == lib0.BoxInt()) + btoa(lib0.LocalInt() == base.Local(5)) + btoa(interface{}(base.Box[int8]{41}) == lib0.BoxInt())")
		case 8:
			emit(fmt.Sprintf("itoa(len(base.Keys(map[%s]int{}, nil))) + itoa(len(base.Map([]%s{%s}, func(v %s) string { return base.Describe(v) })))", t.cmpExpr(), t.expr, t.val, t.expr))
		default:
			emit(fmt.Sprintf("mapKeys(base.MakeBox(%s), base.MakeBox(%s), lib0.BoxInt(), base.Local(1), base.Local(int8(1)), base.Local(1))", "1", "41"))
		}
	}
	var mb strings.Builder
	mb.WriteString("package main\n\nimport (\n")
	for _, im := range imports {
		mb.WriteString("\t" + im + "\n")
	}
	mb.WriteString(")\n\ntype mine struct{}\n\nfunc (mine) Str() string { return \"mine\" }\n\ntype ptrmine struct{ n int }\n\nfunc (p *ptrmine) Str() string { p.n++; return \"ptrmine\" }\n\n")
	mb.WriteString(hubDecl)
	mb.WriteString("// no generated program prints more than a few hundred lines\nfunc init() { outLimit = 5000 }\n\n")
	mb.WriteString("type quick struct{}\n\nfunc (quick) Do() string { return \"quick\" }\n\ntype sleeper struct{}\n\nfunc (sleeper) Do() string {\n\tc := make(chan string)\n\tgo func() { c <- \"slept\" }()\n\treturn <-c\n}\n\n// two local types with the same name, one per function\nfunc quickT() string {\n\ttype T struct{ quick }\n\treturn base.RunLit(T{})\n}\n\nfunc slowT() string {\n\ttype T struct{ sleeper }\n\treturn base.RunLit(T{})\n}\n\nfunc recProbe() string {\n\ttype R = struct {\n\t\tID   int\n\t\tVal  int `k:\"v\"`\n\t\tNote string `json:\"note\"`\n\t}\n\tv := base.MakeRec(7)\n\t_, ok := v.(R)\n\t_, ok2 := v.(struct {\n\t\tID   int `k:\"v\"`\n\t\tVal  int `json:\"note\"`\n\t\tNote string\n\t})\n\tm := map[interface{}]int{R{1, 7, \"n\"}: 5}\n\treturn btoa(ok) + btoa(ok2) + btoa(v == interface{}(R{1, 7, \"n\"})) + itoa(m[v])\n}\n\n")
	mb.WriteString("func describeSwitch(v interface{}) string {\n\tswitch v.(type) {\n\tcase base.Box[int]:\n\t\treturn \"[Box[int]]\"\n\tcase base.Box[string]:\n\t\treturn \"[Box[string]]\"\n\tcase base.Pair[string, int]:\n\t\treturn \"[Pair[string,int]]\"\n\tcase base.Pair[string, string]:\n\t\treturn \"[Pair[string,string]]\"\n\tcase base.Box[base.Named]:\n\t\treturn \"[Box[Named]]\"\n\t}\n\treturn \"[\" + base.Describe(v) + \"?]\"\n}\n\n")
	mb.WriteString("func mapKeys(vs ...interface{}) string {\n\tm := map[interface{}]int{}\n\tfor i, v := range vs {\n\t\tm[v] += i + 1\n\t}\n\tr := itoa(len(m))\n\tfor _, v := range vs {\n\t\tr += \",\" + itoa(m[v])\n\t}\n\treturn r\n}\n\n")
	mb.WriteString("func main() {\n" + mainBody.String() + "}\n")
	files["main.go"] = mb.String()
	return p2(p, files)
}

func p2(p Program, files map[string]string) Program { p.Files = files; return p }

func (t targ) valCmp() string {
	if t.cmp {
		return t.val
	}
	return "1"
}

func (t targ) cmpExpr() string {
	if t.cmp {
		return t.expr
	}
	return "string"
}
