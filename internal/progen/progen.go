// Package progen generates random, terminating, schedule-independent Go programs
// ("scenarios") from rapid draws. Every scenario is a set of top-level declarations with
// the prefix S<n>_ and an entry function S<n>_main(); all observable behaviour goes
// through out(<ASCII string>) from rt.go.
//
// Generation discipline (see DESIGN.md Appendix E): values of type int stay far inside
// 32 bits, divisors are non-zero, indexes are reduced modulo a positive length, loops have
// constant bounds, recursion carries a depth budget, and calls with side effects appear
// only as whole statements (known finding C01-evalorder: a non-blocking impure call to the
// left of a possibly blocking call in one expression is evaluated too late).
package progen

import (
	"fmt"
	"strings"

	"pgregory.net/rapid"
)

// Features switches optional generator parts.
type Features struct {
	Yield      bool // insert yield(id) / y(id, e) suspension sites (C02)
	YieldStub  bool // with Yield: emit non-blocking yield functions (the yield-free variant of the same text)
	Generics   bool // generic helper functions and types (C04)
	ManyNames  bool // identifier pressure: hundreds of variables in one scope (C16)
	Hostile    bool // hostile string literals, adjacent signs (C16)
	DeadCode   bool // unreferenced look-alike declarations (C05)
	Goroutines bool // deterministic goroutine use (joined through channels)
	Ending     bool // scenario may end in panic / run-time error / deadlock
}

// Scenario is one generated scenario.
type Scenario struct {
	Prefix string
	Src    string   // top-level declarations (no package clause)
	Entry  string   // entry function name
	Kinds  []string // statement kinds used (for the coverage histogram)
	Sites  int      // number of yield sites
	Lines  int
}

type gen struct {
	rt        *rapid.T
	f         Features
	pre       string
	sb        strings.Builder // function bodies being written
	top       strings.Builder // extra top-level decls
	kinds     map[string]bool
	depth     int
	nfun      int
	nlabel    int
	nsite     int
	budget    int
	funcs     []string // callable generated helper functions: name(int,int) int
	inLoop    int
	labels    []string // enclosing loop labels
	indent    int
	inClosure int // >0: inside a closure that may be stored in fn (no calls through fn)
	noYield   int // >0: inside a context where yield sites are not allowed (e.g. deferred closure with recover semantics kept simple)
}

func (g *gen) kind(k string)               { g.kinds[k] = true }
func (g *gen) ir(lo, hi int, l string) int { return rapid.IntRange(lo, hi).Draw(g.rt, l) }
func (g *gen) pick(l string, xs ...string) string {
	return rapid.SampledFrom(xs).Draw(g.rt, l)
}
func (g *gen) w(format string, a ...any) {
	g.sb.WriteString(strings.Repeat("\t", g.indent))
	fmt.Fprintf(&g.sb, format, a...)
	g.sb.WriteString("\n")
}

// ---- variables of a scenario function ----
// ints: i0..i3 (int, kept small), a0 int8, a1 uint8, a2 int16, a3 uint32, a4 int64, a5 uint64
// s0,s1 string; b0,b1 bool; f0 float64; sl []int; arr [4]int; m map[string]int; p P; pp *P; fn func(int) int; sh Shape

var intVars = []string{"i0", "i1", "i2", "i3"}
var sizedVars = []struct{ name, typ string }{{"a0", "int8"}, {"a1", "uint8"}, {"a2", "int16"}, {"a3", "uint32"}, {"a4", "int64"}, {"a5", "uint64"}}

// intExpr returns a pure expression of type int whose value stays small.
func (g *gen) intExpr(d int) string {
	if d <= 0 || g.ir(0, 9, "leaf") < 3 {
		switch g.ir(0, 7, "ileaf") {
		case 0, 1, 2:
			return rapid.SampledFrom(intVars).Draw(g.rt, "ivar")
		case 3:
			return fmt.Sprint(g.ir(-20, 99, "ilit"))
		case 4:
			return "len(sl)"
		case 5:
			return "arr[" + fmt.Sprint(g.ir(0, 3, "ai")) + "]"
		case 6:
			return "p.a"
		default:
			return "len(s0)"
		}
	}
	iop := g.ir(0, 12, "iop")
	if g.f.Yield && g.noYield == 0 && g.ir(0, 4, "yexpr") == 0 {
		iop = 12
	}
	switch iop {
	case 0:
		return "lim(" + g.intExpr(d-1) + " + " + g.intExpr(d-1) + ")"
	case 1:
		return "lim(" + g.intExpr(d-1) + " - " + g.intExpr(d-1) + ")"
	case 2:
		// both factors are reduced first: the product of two lim values would leave 32 bits
		return "lim((" + g.intExpr(d-1) + " % 4000) * (" + g.intExpr(d-1) + " % 4000))"
	case 3:
		return "(" + g.intExpr(d-1) + " / " + fmt.Sprint(g.ir(1, 9, "div")) + ")"
	case 4:
		return "(" + g.intExpr(d-1) + " % " + fmt.Sprint(g.ir(1, 9, "mod")) + ")"
	case 5:
		return "sl[ix(" + g.intExpr(d-1) + ", len(sl))]"
	case 6:
		return "arr[ix(" + g.intExpr(d-1) + ", 4)]"
	case 7:
		return "m[" + g.strExpr(d-1) + "]"
	case 8:
		return "int(" + g.sizedExpr(d-1, g.ir(0, 2, "sz")) + ")"
	case 9:
		return "(" + g.intExpr(d-1) + " & " + fmt.Sprint(g.ir(1, 255, "mask")) + ")"
	case 10:
		return "int(s0[ix(" + g.intExpr(d-1) + ", len(s0))])"
	case 11:
		if g.f.Hostile {
			switch g.ir(0, 2, "adjminus") {
			case 0:
				return "lim(" + g.intExpr(d-1) + " - -3)"
			case 1:
				return "lim(" + g.intExpr(d-1) + " - -i3)"
			}
			return "lim(" + g.intExpr(d-1) + " - -(" + g.intExpr(0) + "))"
		}
		return "lim(-" + g.intExpr(d-1) + ")"
	default:
		if g.f.Yield && g.noYield == 0 {
			g.nsite++
			g.kind("yield-expr")
			return fmt.Sprintf("y(%d, %s)", g.nsite-1, g.intExpr(d-1))
		}
		return "(" + g.intExpr(d-1) + " ^ " + fmt.Sprint(g.ir(0, 63, "x")) + ")"
	}
}

// sizedExpr returns an expression of the i-th sized type (wrap-around arithmetic).
func (g *gen) sizedExpr(d, i int) string {
	v := sizedVars[i]
	if d <= 0 || g.ir(0, 9, "sleaf") < 4 {
		if g.ir(0, 2, "slit") == 0 {
			// not a constant expression: constant folding of typed constants may overflow at compile time
			return fmt.Sprintf("(%s ^ %s(%d))", v.name, v.typ, g.ir(0, 120, "sl"))
		}
		return v.name
	}
	op := g.pick("sop", "+", "-", "*", "&", "|", "^")
	switch g.ir(0, 4, "sform") {
	case 0:
		return "(" + g.sizedExpr(d-1, i) + " " + op + " " + g.sizedExpr(d-1, i) + ")"
	case 1:
		return "(" + g.sizedExpr(d-1, i) + " << " + fmt.Sprint(g.ir(0, 9, "sh")) + ")"
	case 2:
		return "(" + g.sizedExpr(d-1, i) + " >> " + fmt.Sprint(g.ir(0, 9, "sh")) + ")"
	case 3:
		return v.typ + "(" + g.intExpr(d-1) + ")"
	default:
		j := g.ir(0, len(sizedVars)-1, "other")
		return v.typ + "(" + g.sizedExpr(d-1, j) + ")"
	}
}

var hostileStrings = []string{`"it's \"quoted\""`, `"back\\slash"`, `"/* not a comment */"`, `"// neither"`, `"a - -b"`, `"tab\there"`, `"new\nline"`, `"function var return"`, "`raw \\n \"q\" // x`", `"\x00nul"`, `"</script>"`, `"\u2028\u2029"`, `"é世😀"`, `"$"`, `"\b"`, `"a  b   c"`, `"C:\\"`, `"\\"`, `"odd\\\\\\"`, `"q\"uote : x"`, `" ;  } { "`, `"+ +  - -"`}

func (g *gen) strExpr(d int) string {
	if d <= 0 || g.ir(0, 9, "sleaf2") < 4 {
		switch g.ir(0, 4, "strleaf") {
		case 0:
			return "s0"
		case 1:
			return "s1"
		case 2:
			if g.f.Hostile {
				return rapid.SampledFrom(hostileStrings).Draw(g.rt, "hostile")
			}
			return g.pick("strlit", `"a"`, `"bc"`, `""`, `"k"`, `"xyz"`, `"é"`)
		case 3:
			return "p.b"
		default:
			return "itoa(" + g.intExpr(0) + ")"
		}
	}
	switch g.ir(0, 3, "strop") {
	case 0:
		return "cut(" + g.strExpr(d-1) + " + " + g.strExpr(d-1) + ")"
	case 1:
		return "sub(" + g.strExpr(d-1) + ", " + g.intExpr(d-1) + ")"
	case 2:
		return "itoa(" + g.intExpr(d-1) + ")"
	default:
		return "string(rune('a' + ix(" + g.intExpr(d-1) + ", 26)))"
	}
}

func (g *gen) boolExpr(d int) string {
	if d <= 0 || g.ir(0, 9, "bleaf") < 3 {
		switch g.ir(0, 3, "boolleaf") {
		case 0:
			return "b0"
		case 1:
			return "b1"
		case 2:
			return g.pick("blit", "true", "false")
		default:
			return g.intExpr(0) + " " + g.pick("cmp", "<", "<=", "==", "!=", ">", ">=") + " " + g.intExpr(0)
		}
	}
	switch g.ir(0, 5, "bop") {
	case 0:
		return "(" + g.boolExpr(d-1) + " && " + g.boolExpr(d-1) + ")"
	case 1:
		return "(" + g.boolExpr(d-1) + " || " + g.boolExpr(d-1) + ")"
	case 2:
		return "!(" + g.boolExpr(d-1) + ")"
	case 3:
		return g.intExpr(d-1) + " " + g.pick("cmp2", "<", "<=", "==", "!=", ">", ">=") + " " + g.intExpr(d-1)
	case 4:
		return g.strExpr(d-1) + " " + g.pick("scmp", "<", "==", "!=", ">=") + " " + g.strExpr(d-1)
	default:
		return "(" + g.sizedExpr(d-1, 1) + " < " + g.sizedExpr(d-1, 1) + ")"
	}
}

func (g *gen) trace(tag string) {
	g.w("out(%q + \" \" + itoa(i0) + \",\" + itoa(i1) + \",\" + itoa(i2) + \" \" + rtq(s0))", g.pre+tag)
}

func (g *gen) yieldStmt() {
	if g.f.Yield && g.noYield == 0 && g.ir(0, 1, "ys") == 0 {
		g.w("yield(%d)", g.nsite)
		g.nsite++
		g.kind("yield-stmt")
	}
}

// yieldStmtAlways places a suspension site (when the feature is on).
func (g *gen) yieldStmtAlways() {
	if g.f.Yield && g.noYield == 0 {
		g.w("yield(%d)", g.nsite)
		g.nsite++
		g.kind("yield-stmt")
	}
}

// block generates n statements.
func (g *gen) block(n int) {
	for i := 0; i < n && g.budget > 0; i++ {
		g.stmt()
		if i%2 == 1 {
			g.trace(fmt.Sprintf("b%d", g.budget))
		}
	}
}

func (g *gen) stmt() {
	g.budget--
	g.yieldStmt()
	max := 32
	if g.depth >= 3 {
		max = 9 // only simple statements when nested deeply
	}
	switch k := g.ir(0, max, "stmt"); k {
	case 0, 1:
		g.kind("assign")
		g.w("%s = %s", rapid.SampledFrom(intVars).Draw(g.rt, "lhs"), g.intExpr(3))
	case 2:
		g.kind("opassign")
		v := sizedVars[g.ir(0, len(sizedVars)-1, "sv")]
		g.w("%s %s= %s", v.name, g.pick("aop", "+", "-", "*", "^", "|", "&"), g.sizedExprByName(v.name, 2))
	case 3:
		g.kind("incdec")
		g.w("%s%s", g.pick("idt", "i0", "i1", "a0", "a1", "a3", "arr[1]", "p.a", "pp.a", "sl[0]", "m[\"k\"]"), g.pick("id", "++", "--"))
		g.w("i0, i1 = lim(i0), lim(i1)")
	case 4:
		g.kind("string-assign")
		if g.f.Hostile && g.ir(0, 2, "torture") == 0 {
			// several awkward literals next to each other in one function body
			g.kind("string-torture")
			h := func() string { return rapid.SampledFrom(hostileStrings).Draw(g.rt, "hostile3") }
			g.w("%s = cut(%s + %s + %s + %s)", g.pick("svar", "s0", "s1", "p.b"), h(), h(), h(), h())
		} else {
			g.w("%s = %s", g.pick("svar", "s0", "s1", "p.b"), g.strExpr(3))
		}
	case 5:
		g.kind("bool-assign")
		g.w("%s = %s", g.pick("bvar", "b0", "b1"), g.boolExpr(3))
	case 6:
		g.kind("swap")
		g.w("i0, i1, i2 = i2, i0, lim(i1+1)")
	case 7:
		g.kind("container-store")
		switch g.ir(0, 5, "cs") {
		case 0:
			g.w("sl[ix(%s, len(sl))] = %s", g.intExpr(2), g.intExpr(2))
		case 1:
			g.w("arr[ix(%s, 4)] = %s", g.intExpr(2), g.intExpr(2))
		case 2:
			g.w("m[%s] = %s", g.strExpr(1), g.intExpr(2))
		case 3:
			g.w("if len(sl) < 12 {\n%s\tsl = append(sl, %s)\n%s}", strings.Repeat("\t", g.indent), g.intExpr(2), strings.Repeat("\t", g.indent))
		case 4:
			g.w("delete(m, %s)", g.strExpr(1))
		default:
			g.w("p.c[ix(%s, 2)] = %s", g.intExpr(1), g.intExpr(2))
		}
	case 8:
		g.kind("trace")
		g.trace(fmt.Sprintf("t%d", g.budget))
	case 9:
		g.kind("float")
		if g.f.Hostile && g.ir(0, 1, "floatminus") == 0 {
			g.w("f0 = fclamp(f0 - -f0/4 - -1.5)")
		}
		g.w("f0 = fclamp(f0*%s + float64(%s)/%d.0)", g.pick("fm", "0.5", "1.25", "-0.75", "3"), g.intExpr(2), g.ir(1, 7, "fd"))
	case 10, 11:
		g.kind("if")
		g.depth++
		init := ""
		if g.ir(0, 2, "ifinit") == 0 {
			init = fmt.Sprintf("v := %s; ", g.intExpr(2))
			g.kind("if-init")
			g.w("if %sv > %d {", init, g.ir(-5, 40, "ifc"))
		} else {
			g.w("if %s {", g.boolExpr(3))
		}
		g.indent++
		g.block(g.ir(1, 3, "ifn"))
		g.indent--
		for e := g.ir(0, 2, "elif"); e > 0; e-- {
			g.kind("else-if")
			g.w("} else if %s {", g.boolExpr(2))
			g.indent++
			g.block(g.ir(1, 2, "elifn"))
			g.indent--
		}
		if g.ir(0, 1, "else") == 0 {
			g.w("} else {")
			g.indent++
			g.block(g.ir(1, 2, "elsen"))
			g.indent--
		}
		g.w("}")
		g.depth--
	case 12, 13:
		g.kind("for")
		g.depth++
		g.inLoop++
		lab := ""
		if g.ir(0, 2, "label") == 0 {
			g.nlabel++
			lab = fmt.Sprintf("L%d", g.nlabel)
			g.kind("label")
			g.w("%s:", lab)
		}
		g.labels = append(g.labels, lab)
		n := g.ir(1, 4, "forn")
		// the loop variable may be captured by a closure (one variable per loop in Go 1.20):
		// the closure and the loop must keep seeing the same variable across suspensions
		capture := g.ir(0, 2, "loopcapture") == 0
		tail := ""
		switch g.ir(0, 3, "forkind") {
		case 0:
			g.w("for k := 0; k < %d; k++ {", n+1)
			g.indent++
			g.w("i3 = lim(i3 + k)")
			if capture {
				g.kind("loopvar-capture")
				g.w("getk := func() int { return k }")
				tail = "i3 = lim(i3 + getk()*3 + k)"
				if g.ir(0, 2, "loopbump") == 0 {
					tail += "\n" + ind(g) + "if getk() == 1 {\n" + ind(g) + "\tk++\n" + ind(g) + "}"
				}
			}
		case 1:
			g.kind("range-slice")
			g.w("for k, v := range sl[:ix(%d, len(sl)+1)] {", n)
			g.indent++
			g.w("i3 = lim(i3 + k*v)")
			if capture {
				g.kind("loopvar-capture")
				g.w("getkv := func() int { return k*10 + v }")
				tail = "i3 = lim(i3 + getkv())"
			}
		case 2:
			g.kind("range-string")
			g.w("for k, r := range sub(s0, %d) {", n)
			g.indent++
			g.w("i3 = lim(i3 + k + int(r))")
		default:
			g.kind("for-cond")
			g.w("for c := %d; c > 0; c-- {", n)
			g.indent++
			g.w("i2 = lim(i2 + c)")
			if capture {
				g.kind("loopvar-capture")
				g.w("pc := &c")
				tail = "i2 = lim(i2 + *pc*5 + c)"
			}
		}
		if g.ir(0, 2, "bodycapture") == 0 && g.inClosure == 0 {
			// a variable of the loop body captured by a closure: one variable per iteration
			g.kind("loopbody-capture")
			g.w("bv := lim(i3 + 1)")
			g.w("fn = func(d int) int { bv++; return lim(bv + d) }")
			g.w("i3 = lim(i3 + fn(2) + bv)")
		}
		g.block(g.ir(1, 3, "forb"))
		if tail != "" {
			g.w("%s", tail)
		}
		if g.ir(0, 2, "brk") == 0 {
			g.loopExit()
		}
		if lab != "" {
			// a declared label must be used
			g.w("if i3 == -777777 {")
			g.w("\tcontinue %s", lab)
			g.w("}")
		}
		g.indent--
		g.w("}")
		g.labels = g.labels[:len(g.labels)-1]
		g.inLoop--
		g.depth--
	case 14:
		g.kind("range-map")
		g.w("{\n%s\tacc := 0\n%s\tfor k, v := range m {\n%s\t\tacc += len(k)*7 + v\n%s\t}\n%s\ti2 = lim(acc)\n%s}", ind(g), ind(g), ind(g), ind(g), ind(g), ind(g))
	case 15, 16:
		g.kind("switch")
		needDefault := false
		g.depth++
		if g.ir(0, 2, "swtag") == 0 {
			g.kind("switch-tagless")
			g.w("switch {")
			for c := g.ir(1, 3, "nc"); c > 0; c-- {
				g.w("case %s:", g.boolExpr(2))
				g.indent++
				g.block(g.ir(1, 2, "cn"))
				g.indent--
			}
		} else {
			init := ""
			if g.ir(0, 2, "swinit") == 0 {
				init = "w := " + g.intExpr(1) + "; "
				g.w("switch %slim(w + %s) %% 5 {", init, g.intExpr(2))
			} else {
				g.w("switch %s %% 5 {", g.intExpr(2))
			}
			used := map[int]bool{}
			needDefault = false
			nc := g.ir(1, 4, "nc2")
			for c := 0; c < nc; c++ {
				v := g.ir(-4, 4, "cv")
				if used[v] {
					continue
				}
				used[v] = true
				extra := ""
				if w := v + 10; g.ir(0, 3, "multi") == 0 {
					extra = fmt.Sprintf(", %d", w)
				}
				g.w("case %d%s:", v, extra)
				g.indent++
				g.block(g.ir(1, 2, "cn2"))
				if c < nc-1 && g.ir(0, 3, "ft") == 0 {
					g.kind("fallthrough")
					g.w("fallthrough")
					needDefault = true
				} else if g.inLoop > 0 && g.ir(0, 2, "swcont") == 0 {
					// an unlabelled continue inside a switch continues the loop around the switch
					g.kind("switch-continue")
					g.w("if %s {", g.boolExpr(1))
					g.w("\ti2 = lim(i2 + 1)")
					g.w("\tcontinue")
					g.w("}")
				} else if g.ir(0, 4, "swbrk") == 0 {
					g.kind("switch-break")
					g.w("if %s {", g.boolExpr(1))
					g.w("\tbreak")
					g.w("}")
					g.w("i1 = lim(i1 + 1)")
				}
				g.indent--
			}
		}
		if g.ir(0, 1, "def") == 0 || needDefault {
			g.w("default:")
			g.indent++
			g.block(1)
			g.indent--
		}
		g.w("}")
		g.depth--
	case 32:
		// a loop that suspends in its body around a switch that does not: continue and break inside
		// the switch act on the loop and on the switch
		g.kind("loop-switch-continue")
		g.w("for k := 0; k < %d; k++ {", g.ir(3, 5, "lscn"))
		g.indent++
		g.yieldStmtAlways()
		g.w("i3 = lim(i3 + k)")
		g.w("switch %s {", g.pick("lsctag", "k % 3", "(k + i0) % 3", "k & 1"))
		g.w("case 1:")
		g.w("\ti2 = lim(i2 + 10)")
		g.w("\tcontinue")
		g.w("case 2:")
		g.w("\ti2 = lim(i2 + 100)")
		g.w("\tif k > 1 {")
		g.w("\t\tbreak")
		g.w("\t}")
		g.w("\ti2 = lim(i2 + 1000)")
		g.w("default:")
		g.w("\ti1 = lim(i1 + 1)")
		g.w("}")
		g.w("i1 = lim(i1 + k*7)")
		if g.ir(0, 1, "lsctail") == 0 {
			g.yieldStmtAlways()
		}
		g.indent--
		g.w("}")
	case 31:
		// shifts by constant counts around the operand width, overlapping copies of struct elements
		g.kind("width-shift-overlap-copy")
		switch g.ir(0, 5, "wsform") {
		case 0:
			g.w("a3 = a3<<%d | %d", g.pick2("wsc", 31, 32, 33), g.ir(1, 9, "wsor"))
		case 1:
			g.w("a3 = a3 >> %d", g.pick2("wsc2", 31, 32, 33))
			g.w("a2 = a2 >> %d", g.pick2("wsc3", 15, 16, 17))
		case 2:
			g.w("a1 = a1 << %d", g.pick2("wsc4", 7, 8, 9))
			g.w("a0 = a0 >> %d", g.pick2("wsc5", 7, 8, 32))
		case 3:
			g.w("{\n%s\tps := []P{p, *pp, {a: 5}, {a: 6, c: [2]int{1, 2}}}\n%s\tcopy(ps[1:], ps[:3])\n%s\ti3 = lim(ps[0].a + ps[1].a*3 + ps[2].a*5 + ps[3].a*7 + ps[3].c[1])\n%s}", ind(g), ind(g), ind(g), ind(g))
		case 4:
			g.w("{\n%s\tps := []P{p, *pp, {a: 5}, {a: 6, c: [2]int{1, 2}}}\n%s\tcopy(ps, ps[1:])\n%s\tqs := append(ps[:1], ps[0:3]...)\n%s\ti3 = lim(ps[0].a + ps[1].a*3 + ps[2].a*5 + ps[3].a*7 + qs[1].a*11 + len(qs))\n%s}", ind(g), ind(g), ind(g), ind(g), ind(g))
		default:
			g.w("{\n%s\tas := [][2]int{{1, 2}, {3, 4}, {i0, 6}, {7, 8}}\n%s\tcopy(as[2:], as[1:])\n%s\ti3 = lim(as[0][0] + as[1][1]*3 + as[2][0]*5 + as[3][1]*7)\n%s}", ind(g), ind(g), ind(g), ind(g))
		}
	case 28:
		// operands of an index or selector target are evaluated exactly once by op-assignment
		// and inc/dec; nx/kx/getp count their calls. The right-hand sides are literals: no
		// second call shares the statement.
		g.kind("once-operand")
		switch g.ir(0, 9, "onceform") {
		case 0:
			g.w("if len(sl) > 0 {")
			g.w("\tsl[nx(len(sl))] %s= %d", g.pick("onceop", "+", "-", "*", "^", "|", "<<"), g.ir(1, 5, "oncev"))
			g.w("\tsl[0] = lim(sl[0])")
			g.w("}")
		case 1:
			g.w("arr[nx(4)]%s", g.pick("onceid", "++", "--"))
		case 2:
			g.w("m[kx()] %s= %d", g.pick("onceop2", "+", "-", "&^"), g.ir(1, 9, "oncev2"))
		case 3:
			g.w("m[kx()]%s", g.pick("onceid2", "++", "--"))
		case 4:
			g.w("getp(pp).a %s= %d", g.pick("onceop3", "+", "-", "^"), g.ir(1, 9, "oncev3"))
			g.w("pp.a = lim(pp.a)")
		case 5:
			g.w("getp(&p).c[nx(2)]%s", g.pick("onceid3", "++", "--"))
		case 6:
			g.w("*getpi(&i2) %s= %d", g.pick("onceop4", "+", "-", "|"), g.ir(1, 9, "oncev4"))
			g.w("i2 = lim(i2)")
		case 7:
			g.w("{\n%s\tgrid := [2][2]int{{1, 2}, {3, 4}}\n%s\tgrid[nx(2)][nx(2)] %s= %d\n%s\ti3 = lim(i3 + grid[0][0] + grid[0][1]*3 + grid[1][0]*5 + grid[1][1]*7)\n%s}", ind(g), ind(g), g.pick("onceop5", "+", "*", "<<"), g.ir(1, 3, "oncev5"), ind(g), ind(g))
		case 8:
			g.w("s0 = cut(s0)")
			g.w("{\n%s\tstrs := []string{s0, \"x\"}\n%s\tstrs[nx(2)] += \"+\"\n%s\ts0 = strs[0] + strs[1]\n%s}", ind(g), ind(g), ind(g), ind(g))
		default:
			g.w("{\n%s\tfs := []float64{f0, 1.5}\n%s\tfs[nx(2)] *= 2\n%s\tf0 = fclamp(fs[0] + fs[1])\n%s}", ind(g), ind(g), ind(g), ind(g))
		}
		g.w("out(%q + itoa(cn))", g.pre+"calls ")
	case 29, 30:
		// break inside type switches (and selects): it leaves the switch, never the loop around it
		g.kind("typeswitch-break")
		clauses := []string{"int", "string", "nil", "default"}
		brk := map[string]bool{}
		pattern := g.ir(0, 5, "brkpattern")
		switch pattern {
		case 0:
			brk["default"] = true
		case 1:
			brk["int"] = true
		case 2:
			brk["default"], brk["string"] = true, true
		case 3:
			brk["nil"] = true
		case 4:
			brk["default"], brk["int"], brk["nil"] = true, true, true
		}
		body := func(c string) string {
			if brk[c] {
				return fmt.Sprintf("\n%s\t\tif k%%2 == %d {\n%s\t\t\tbreak\n%s\t\t}", ind(g), g.ir(0, 1, "brkpar"), ind(g), ind(g))
			}
			return ""
		}
		bound := ""
		if g.ir(0, 1, "tsbound") == 0 {
			bound = "x := "
		}
		use := func(e string) string {
			if bound == "" {
				return "1"
			}
			return e
		}
		_ = clauses
		if g.ir(0, 3, "selectform") == 0 {
			g.w("{\n%s\tch := make(chan int, 2)\n%s\tch <- 5\n%s\tfor k := 0; k < 4; k++ {\n%s\t\tselect {\n%s\t\tcase v := <-ch:\n%s\t\t\ti1 = lim(i1 + v)%s\n%s\t\t\ti1 = lim(i1 + 100)\n%s\t\tdefault:%s\n%s\t\t\ti2 = lim(i2 + 10)\n%s\t\t}\n%s\t\ti3 = lim(i3 + 1)\n%s\t}\n%s}",
				ind(g), ind(g), ind(g), ind(g), ind(g), ind(g), strings.ReplaceAll(body("int"), "\t\t", "\t\t\t"), ind(g), ind(g), strings.ReplaceAll(body("default"), "\t\t", "\t\t\t"), ind(g), ind(g), ind(g), ind(g), ind(g))
		} else {
			g.w("for k, v := range []interface{}{i0, s0, nil, f0, 7, \"z\", nil} {")
			g.w("\tswitch %sv.(type) {", bound)
			g.w("\tcase int:%s", body("int"))
			g.w("\t\ti1 = lim(i1 + %s)", use("x"))
			g.w("\tcase string:%s", body("string"))
			g.w("\t\ti2 = lim(i2 + %s)", use("len(x)"))
			g.w("\tcase nil:%s", body("nil"))
			g.w("\t\ti2 = lim(i2 + 1000)")
			if pattern != 5 {
				g.w("\tdefault:%s", body("default"))
				g.w("\t\ti1 = lim(i1 - 3)")
				if bound != "" {
					g.w("\t\t_ = x")
				}
			} else if bound != "" {
				g.w("\tcase float64:")
				g.w("\t\t_ = x")
			}
			g.w("\t}")
			g.w("\ti3 = lim(i3 + k + 1)")
			g.w("}")
		}
	case 17:
		g.kind("closure")
		g.depth++
		g.w("{")
		g.indent++
		g.w("cl := func(d int) int {")
		g.indent++
		g.inClosure++
		saved := g.inLoop
		savedLabels := g.labels
		g.inLoop, g.labels = 0, nil
		g.block(g.ir(1, 2, "cln"))
		g.inLoop, g.labels = saved, savedLabels
		g.inClosure--
		g.w("i0 = lim(i0 + d)")
		g.w("return lim(i0 * 2)")
		g.indent--
		g.w("}")
		g.w("i1 = cl(%s)", g.intExpr(1))
		g.w("fn = cl")
		g.indent--
		g.w("}")
		g.depth--
	case 18:
		g.kind("call")
		if len(g.funcs) > 0 {
			g.w("i2 = %s(%s, %s)", rapid.SampledFrom(g.funcs).Draw(g.rt, "callee"), g.intExpr(1), g.intExpr(1))
		} else if g.inClosure == 0 {
			g.w("i2 = fn(%s)", g.intExpr(1))
		}
	case 19:
		g.kind("method")
		switch g.ir(0, 5, "mk") {
		case 0:
			g.w("i1 = p.sum(%s)", g.intExpr(1))
		case 1:
			g.w("pp.bump(%s)", g.intExpr(1))
		case 2:
			g.kind("method-value")
			g.w("{\n%s\tmv := p.sum\n%s\tp.a = lim(p.a + 1)\n%s\ti1 = mv(2)\n%s}", ind(g), ind(g), ind(g), ind(g))
		case 3:
			g.kind("method-expr")
			g.w("i1 = P.sum(p, %s)", g.intExpr(1))
		case 4:
			g.kind("iface-call")
			g.w("i0 = sh.Area(%s)", g.intExpr(1))
		default:
			g.kind("iface-switch")
			g.w("switch t := sh.(type) {\n%scase *P:\n%s\ti1 = lim(t.a + 1)\n%scase sq:\n%s\ti1 = int(t)\n%s}", ind(g), ind(g), ind(g), ind(g), ind(g))
		}
	case 20:
		g.kind("fn-value")
		if g.inClosure == 0 {
			g.w("i0 = fn(%s)", g.intExpr(1))
		}
	case 21:
		g.kind("shadow")
		g.depth++
		g.w("{")
		g.indent++
		g.w("i0 := lim(i0 + %d)", g.ir(1, 9, "sh"))
		g.w("s0 := s0 + \"~\"")
		g.block(g.ir(1, 2, "shn"))
		g.w("i3 = lim(i3 + i0 + len(s0))")
		g.indent--
		g.w("}")
		g.depth--
	case 22:
		g.kind("goto")
		g.nlabel++
		lab := fmt.Sprintf("G%d", g.nlabel)
		if g.ir(0, 1, "gdir") == 0 {
			// forward: skip a block
			g.w("if %s {", g.boolExpr(1))
			g.w("\tgoto %s", lab)
			g.w("}")
			g.w("i2 = lim(i2 + 5)")
			g.w("%s:", lab)
			g.w("i2 = lim(i2 + 1)")
		} else {
			g.kind("goto-back")
			g.w("{")
			g.indent++
			g.w("gc := 0")
			g.indent--
			g.w("%s:", lab)
			g.indent++
			g.w("gc++")
			g.w("i3 = lim(i3 + gc)")
			g.w("if gc < %d {", g.ir(1, 3, "gn"))
			g.w("\tgoto %s", lab)
			g.w("}")
			g.indent--
			g.w("}")
		}
	case 23:
		g.kind("defer")
		g.depth++
		g.w("func() {")
		g.indent++
		g.w("defer func() {")
		// suspension sites inside the deferred function: before recover, and after a recovered panic
		if g.f.Yield && g.noYield == 0 {
			g.w("\tyield(%d)", g.nsite)
			g.nsite++
			g.kind("yield-in-defer")
		}
		g.w("\ti1 = lim(i1 + 3)")
		g.w("\tif r := recover(); r != nil {")
		if g.f.Yield && g.noYield == 0 {
			g.w("\t\tyield(%d)", g.nsite)
			g.nsite++
		}
		g.w("\t\ts1 = cut(s1 + \"R\")")
		g.w("\t}")
		g.w("}()")
		saved, savedLabels := g.inLoop, g.labels
		g.inLoop, g.labels = 0, nil
		g.block(g.ir(1, 2, "dn"))
		g.inLoop, g.labels = saved, savedLabels
		if g.ir(0, 2, "dpanic") == 0 {
			g.kind("recovered-panic")
			g.w("if %s {", g.boolExpr(1))
			g.w("\tpanic(\"inner\")")
			g.w("}")
		}
		g.indent--
		g.w("}()")
		g.depth--
	case 24:
		g.kind("variadic")
		g.w("i2 = vsum(%s, %s)", g.intExpr(1), g.intExpr(1))
		g.w("i2 = lim(i2 + vsum(sl...) + vsum())")
	case 25:
		g.kind("struct-copy")
		g.w("{\n%s\tcp := p\n%s\tcp.a = lim(cp.a + 7)\n%s\tcp.c[1] = i0\n%s\tarr2 := arr\n%s\tarr2[0] = cp.a\n%s\ti3 = lim(p.a + cp.a + arr[0] + arr2[0] + p.c[1])\n%s}", ind(g), ind(g), ind(g), ind(g), ind(g), ind(g), ind(g))
	case 26:
		g.kind("conversion")
		g.w("a4 = int64(%s) * 4294967297", g.intExpr(1))
		g.w("a5 = uint64(a4) >> %d", g.ir(0, 40, "shv"))
		g.w("a0, a1, a2 = int8(a4), uint8(a5), int16(a4>>%d)", g.ir(0, 20, "shw"))
	default:
		g.kind("generic")
		if g.f.Generics {
			g.genericStmt()
		} else {
			g.w("i0 = lim(i0 ^ %d)", g.ir(0, 99, "gx"))
		}
	}
}

func ind(g *gen) string { return strings.Repeat("\t", g.indent) }

func (g *gen) sizedExprByName(name string, d int) string {
	for i, v := range sizedVars {
		if v.name == name {
			return g.sizedExpr(d, i)
		}
	}
	return name
}

func (g *gen) loopExit() {
	kind := g.pick("exit", "break", "continue")
	lab := ""
	if len(g.labels) > 0 {
		cands := []string{}
		for _, l := range g.labels {
			if l != "" {
				cands = append(cands, l)
			}
		}
		if len(cands) > 0 && g.ir(0, 1, "uselabel") == 0 {
			lab = " " + rapid.SampledFrom(cands).Draw(g.rt, "lab")
			g.kind("labelled-" + kind)
		}
	}
	g.kind(kind)
	g.w("if %s {", g.boolExpr(1))
	g.w("\t%s%s", kind, lab)
	g.w("}")
}

func (g *gen) genericStmt() {
	switch g.ir(0, 4, "gk") {
	case 0:
		g.w("i0 = lim(gmax(i0, %s))", g.intExpr(1))
		g.w("s0 = gmax(s0, %s)", g.strExpr(1))
	case 1:
		g.w("a0 = gsum([]int8{a0, %d, 100})", g.ir(0, 120, "g8"))
		g.w("f0 = fclamp(gsum([]float64{f0, 0.5}))")
	case 2:
		g.w("{\n%s\tst := gstack[int]{}\n%s\tst.push(i0)\n%s\tst.push(%s)\n%s\ti1 = lim(st.pop() + st.len())\n%s}", ind(g), ind(g), ind(g), g.intExpr(1), ind(g), ind(g))
	case 3:
		g.w("i2 = lim(len(gmap(sl, func(v int) string { return itoa(v) })) + len(gmap([]string{s0}, func(v string) int { return len(v) })))")
	default:
		g.w("{\n%s\tpr := gpair[string, int]{s0, i0}\n%s\tvar e interface{} = pr\n%s\tif _, ok := e.(gpair[string, int]); ok {\n%s\t\ti3 = lim(i3 + 1)\n%s\t}\n%s\tif _, ok := e.(gpair[int, string]); ok {\n%s\t\ti3 = -1\n%s\t}\n%s}", ind(g), ind(g), ind(g), ind(g), ind(g), ind(g), ind(g), ind(g), ind(g))
	}
}

// pick2 draws one of a few integers.
func (g *gen) pick2(label string, xs ...int) int {
	return xs[g.ir(0, len(xs)-1, label)]
}
