package progen

import (
	"fmt"
	"strings"

	"pgregory.net/rapid"
)

// Common returns the declarations shared by all scenarios of a bundle.
func Common(f Features) string {
	var sb strings.Builder
	common := commonDecls
	if !f.Yield {
		// without the yield feature the reserved sites disappear
		for i := 200; i < 210; i++ {
			common = strings.ReplaceAll(common, fmt.Sprintf("yield(%d); ", i), "")
		}
	}
	sb.WriteString(common)
	sb.WriteString(`
`)
	if f.Generics {
		sb.WriteString(`
type ordered interface {
	~int | ~int8 | ~int64 | ~float64 | ~string
}

func gmax[T ordered](a, b T) T {
	if a > b {
		return a
	}
	return b
}

type number interface {
	~int | ~int8 | ~int32 | ~float64
}

func gsum[T number](xs []T) T {
	var s T
	for _, x := range xs {
		s += x
	}
	return s
}

type gstack[T any] struct{ items []T }

func (s *gstack[T]) push(v T) { gyield(205); s.items = append(s.items, v) }
func (s *gstack[T]) pop() T {
	v := s.items[len(s.items)-1]
	s.items = s.items[:len(s.items)-1]
	return v
}
func (s *gstack[T]) len() int { return len(s.items) }

func gmap[T, U any](xs []T, f func(T) U) []U {
	gyield(206)
	var out []U
	for _, x := range xs {
		out = append(out, f(x))
	}
	return out
}

type gpair[K comparable, V any] struct {
	k K
	v V
}
`)
	}
	if f.Generics {
		if f.Yield {
			sb.WriteString("\nfunc gyield(id int) { yield(id) }\n")
		} else {
			sb.WriteString("\nfunc gyield(id int) {}\n")
		}
	}
	if f.Yield && f.YieldStub {
		sb.WriteString(`
var yieldMask string
var suspensions int

// yield-free variant: the same program text, but the yield functions cannot block, so every
// function is compiled in its direct (non-resumable) form.
func yield(id int) {
	if id%4 == 3 {
		ylib.Pass(id, 0)
	}
}

//go:linkname lpass ROOT/ylib.hidden
func lpass(id int, v int) int

func y(id int, v int) int {
	switch id % 4 {
	case 1:
		return ylib.Pass(id, v)
	case 2:
		return lpass(id, v)
	case 3:
		var d ylib.Passer = ylib.Doubler{N: v}
		return d.Half(id)
	}
	return v
}
`)
	} else if f.Yield {
		sb.WriteString(`
var yieldMask string
var suspensions int

func suspend() {
	suspensions++
	c := make(chan struct{})
	go func() { close(c) }()
	<-c
}

// yield suspends the goroutine at site id if the mask (argv[1]) selects it. Every fourth
// site suspends inside another package.
func yield(id int) {
	if id%4 == 3 {
		ylib.Pass(id, 0)
		return
	}
	if id < len(yieldMask) && yieldMask[id] == '1' {
		suspend()
	}
}

// lpass is ylib's unexported function, reached through go:linkname.
//
//go:linkname lpass ROOT/ylib.hidden
func lpass(id int, v int) int

// y is an expression site: in this package, in another package, behind a linkname, through
// an interface method of another package's type.
func y(id int, v int) int {
	switch id % 4 {
	case 1:
		return ylib.Pass(id, v)
	case 2:
		return lpass(id, v)
	case 3:
		var d ylib.Passer = ylib.Doubler{N: v}
		return d.Half(id)
	}
	yield(id)
	return v
}
`)
	}
	return sb.String()
}

// Gen draws one scenario.
func Gen(rt *rapid.T, prefix string, f Features) Scenario {
	g := &gen{rt: rt, f: f, pre: prefix, kinds: map[string]bool{}}
	size := rapid.IntRange(4, 40).Draw(rt, "size")
	// helper functions first (callable from the entry and from later helpers)
	nf := rapid.IntRange(0, 3).Draw(rt, "nfuncs")
	var out strings.Builder
	for i := 0; i < nf; i++ {
		name := fmt.Sprintf("%sf%d", prefix, i)
		g.sb.Reset()
		g.budget = rapid.IntRange(2, 10).Draw(rt, "fsize")
		g.indent = 1
		g.locals()
		g.w("i0, i1 = lim(x), lim(z)")
		if i == 0 || rapid.IntRange(0, 2).Draw(rt, "rec") > 0 {
			// bounded self recursion
			g.kind("recursion")
			g.w("if x > 0 && x < 6 {")
			g.w("\ti2 = %s(x-1, z+1)", name)
			g.w("}")
		}
		// some helpers return a plain variable that a deferred function changes (and then
		// suspends) after the return value has been fixed
		retVar := rapid.IntRange(0, 2).Draw(rt, "retvar") == 0
		if retVar {
			g.kind("return-var-defer")
			g.w("ret := 0")
			g.w("defer func() {")
			g.w("\tret = lim(ret + 7)")
			if g.f.Yield {
				g.w("\tyield(%d)", g.nsite)
				g.nsite++
				g.kind("yield-stmt")
			}
			g.w("\tret = lim(ret * 2)")
			g.w("\ti0 = lim(i0 + ret)")
			g.w("}()")
		}
		g.block(g.budget)
		if retVar {
			g.w("ret = lim(i0 + i1*3 + i2*5 + i3*7 + int(a0) + int(a1) + len(s0) + len(sl) + p.a)")
			g.w("return ret")
		} else {
			g.w("return lim(i0 + i1*3 + i2*5 + i3*7 + int(a0) + int(a1) + len(s0) + len(sl) + p.a)")
		}
		fmt.Fprintf(&out, "func %s(x, z int) int {\n%s}\n\n", name, g.sb.String())
		g.funcs = append(g.funcs, name)
	}
	g.sb.Reset()
	g.budget = size
	g.indent = 1
	g.locals()
	g.block(size)
	ending := "return"
	if f.Ending {
		ending = rapid.SampledFrom([]string{"return", "return", "return", "return", "panic-string", "panic-error", "runtime-error", "deadlock"}).Draw(rt, "ending")
	}
	g.dump()
	switch ending {
	case "panic-string":
		g.w("panic(\"scenario %s gives up\")", prefix)
	case "panic-error":
		g.w("panic(scenarioErr{i0})")
	case "runtime-error":
		g.w("sl[len(sl)+ix(i0, 3)] = 1")
	case "deadlock":
		g.w("<-make(chan int)")
	}
	g.kind("ending:" + ending)
	entry := prefix + "main"
	fmt.Fprintf(&out, "func %s() {\n%s}\n\n", entry, g.sb.String())
	if f.DeadCode {
		out.WriteString(deadCode(rt, prefix))
	}
	var kinds []string
	for k := range g.kinds {
		kinds = append(kinds, k)
	}
	src := out.String()
	return Scenario{Prefix: prefix, Src: src, Entry: entry, Kinds: kinds, Sites: g.nsite, Lines: strings.Count(src, "\n")}
}

func (g *gen) locals() {
	seed := g.ir(0, 50, "seed")
	g.w("i0, i1, i2, i3 := %d, %d, %d, %d", seed, seed*2+1, -seed, 7)
	g.w("var a0 int8 = %d", g.ir(-100, 100, "a0"))
	g.w("var a1 uint8 = %d", g.ir(0, 255, "a1"))
	g.w("var a2 int16 = %d", g.ir(-3000, 3000, "a2"))
	g.w("var a3 uint32 = %d", g.ir(0, 1<<30, "a3"))
	g.w("var a4 int64 = %d", g.ir(-1<<30, 1<<30, "a4"))
	g.w("var a5 uint64 = %d", g.ir(0, 1<<30, "a5"))
	strs := []string{`"go"`, `"héllo"`, `""`, `"abcdef"`}
	if g.f.Hostile {
		strs = hostileStrings
	}
	g.w("s0, s1 := %s, %s", rapid.SampledFrom(strs).Draw(g.rt, "s0"), rapid.SampledFrom(strs).Draw(g.rt, "s1"))
	g.w("b0, b1 := %v, false", seed%2 == 0)
	g.w("f0 := %d.25", seed)
	g.w("sl := []int{%d, 2, 3}", seed)
	g.w("arr := [4]int{1, %d, 3, 4}", seed)
	g.w("m := map[string]int{\"k\": %d, \"a\": 1}", seed)
	g.w("p := P{a: %d, b: \"pb\"}", seed)
	g.w("pp := &P{a: 1}")
	g.w("fn := func(v int) int { return lim(v*3 + 1) }")
	g.w("var sh Shape = %s", g.pick("shinit", "sq(3)", "pp", "&p"))
	g.w("_, _, _, _, _, _, _, _, _, _, _, _, _ = a2, a3, a4, a5, b1, f0, fn, sh, s1, b0, arr, m, pp")
	if g.f.ManyNames {
		n := rapid.SampledFrom([]int{30, 60, 120, 710}).Draw(g.rt, "manynames")
		var names, vals []string
		for i := 0; i < n; i++ {
			names = append(names, fmt.Sprintf("v%d", i))
			vals = append(vals, fmt.Sprint(i%97))
		}
		for i := 0; i < n; i += 20 {
			j := i + 20
			if j > n {
				j = n
			}
			g.w("%s := %s", strings.Join(names[i:j], ", "), strings.Join(vals[i:j], ", "))
		}
		g.w("i3 = lim(%s)", strings.Join(names, " + "))
		g.w("mk := func() int { return %s + %s + %s }", names[0], names[n/2], names[n-1])
		g.w("i2 = lim(mk())")
		g.kind(fmt.Sprintf("many-names-%d", n))
	}
}

func (g *gen) dump() {
	g.w("out(%q + itoa(i0) + \",\" + itoa(i1) + \",\" + itoa(i2) + \",\" + itoa(i3) + \" \" + itoa(int(a0)) + \",\" + itoa(int(a1)) + \",\" + itoa(int(a2)) + \",\" + u64toa(uint64(a3)) + \",\" + i64toa(a4) + \",\" + u64toa(a5))", g.pre+"ints ")
	g.w("out(%q + rtq(s0) + \" \" + rtq(s1) + \" \" + btoa(b0) + btoa(b1) + \" \" + f64s(f0))", g.pre+"strs ")
	// calls that may have side effects are evaluated in statements of their own: Go leaves the
	// order of variable reads relative to calls in one expression unspecified
	g.w("fnResult := fn(1)")
	g.w("shArea := sh.Area(2)")
	g.w("out(%q + itoa(len(sl)) + \":\" + itoa(vsum(sl...)) + \" \" + itoa(vsum(arr[:]...)) + \" \" + itoa(len(m)) + \":\" + itoa(m[\"k\"]) + \" \" + itoa(p.a) + rtq(p.b) + itoa(p.c[0]+p.c[1]) + \" \" + itoa(pp.a) + \" \" + itoa(fnResult) + \" \" + sh.name() + itoa(shArea))", g.pre+"data ")
}

// deadCode emits unreferenced look-alikes: same method names on an unused type, unused functions and variables.
func deadCode(rt *rapid.T, prefix string) string {
	n := rapid.IntRange(1, 3).Draw(rt, "ndead")
	var sb strings.Builder
	for i := 0; i < n; i++ {
		fmt.Fprintf(&sb, "type %sdead%d struct{ z int }\n\nfunc (d %sdead%d) Area(k int) int { return d.z * k }\nfunc (d %sdead%d) name() string { return \"dead\" }\nfunc (d *%sdead%d) bump(k int) { d.z += k }\n\nfunc %sunused%d(x int) int { return lim(x + %d) }\n\nvar %sdeadvar%d = %d\n\n", prefix, i, prefix, i, prefix, i, prefix, i, prefix, i, i, prefix, i, i)
	}
	return sb.String()
}

// ErrDecl is needed by scenarios ending in panic(error).
const ErrDecl = `
type scenarioErr struct{ code int }

func (e scenarioErr) Error() string { return "scenario error " + itoa(e.code) }
`

// Bundle assembles a main package from scenarios: argv(0) selects the scenario, argv(1) the yield mask.
func Bundle(scs []Scenario, f Features) map[string]string {
	var sb strings.Builder
	sb.WriteString("package main\n")
	if f.Yield {
		sb.WriteString("\nimport (\n\t\"ROOT/ylib\"\n\t_ \"unsafe\"\n)\n")
	}
	sb.WriteString(Common(f))
	sb.WriteString(ErrDecl)
	sb.WriteString("\nfunc main() {\n")
	if f.Yield {
		sb.WriteString("\tyieldMask = argv(1)\n\tylib.Mask = yieldMask\n")
	}
	sb.WriteString("\tswitch argv(0) {\n")
	for i, s := range scs {
		fmt.Fprintf(&sb, "\tcase \"%d\":\n\t\t%s()\n", i, s.Entry)
	}
	sb.WriteString("\t}\n")
	if f.Yield {
		sb.WriteString("\tout(\"#suspensions \" + itoa(suspensions+ylib.Suspensions))\n")
	}
	sb.WriteString("}\n")
	files := map[string]string{"main.go": sb.String()}
	if f.Yield {
		files["ylib/ylib.go"] = ylibSource(f.YieldStub)
		files["stub.s"] = "" // the native compiler accepts the body-less lpass only next to an assembly file
	}
	for i, s := range scs {
		files[fmt.Sprintf("s%03d.go", i)] = "package main\n\n" + s.Src
	}
	return files
}

const commonDecls = `
// rtq is rt.go's q under a name that generated locals never shadow.
func rtq(s string) string { return q(s) }

// lim keeps int values far inside 32 bits (the generator's soundness rule for int).
func lim(x int) int {
	x %= 100003
	return x
}

// ix reduces an index modulo a positive length.
func ix(i, n int) int {
	if n <= 0 {
		return 0
	}
	return ((i % n) + n) % n
}

func cut(s string) string {
	if len(s) > 24 {
		return s[len(s)-24:]
	}
	return s
}

func sub(s string, n int) string {
	if n < 0 {
		n = -n
	}
	if n > len(s) {
		n = len(s)
	}
	return s[:n]
}

// counted operand helpers: cn tells how often an operand of an assignment target was evaluated.
var cn int

func nx(n int) int {
	cn++
	if n <= 0 {
		return 0
	}
	return cn % n
}

func kx() string {
	cn++
	if cn%2 == 0 {
		return "k"
	}
	return "a"
}

func getp(q *P) *P {
	cn++
	return q
}

func getpi(q *int) *int {
	cn++
	return q
}

func fclamp(f float64) float64 {
	if f != f || f > 1e9 || f < -1e9 {
		return 1.5
	}
	return f
}

func vsum(xs ...int) int {
	yield(204); t := len(xs)
	for _, x := range xs {
		t = lim(t + x)
	}
	return t
}

type P struct {
	a int
	b string
	c [2]int
}

func (p P) sum(k int) int { yield(200); p.a += k; return lim(p.a + p.c[0] + p.c[1] + len(p.b)) }
func (p *P) bump(k int)   { yield(201); p.a = lim(p.a + k); p.c[1]++ }
func (p *P) Area(k int) int { yield(202); return lim(p.a * k) }
func (p *P) name() string { return "P" }

type sq int

func (s sq) Area(k int) int { yield(203); return lim(int(s) * int(s) + k) }
func (s sq) name() string   { return "sq" }

type Shape interface {
	Area(int) int
	name() string
}
`

// ylibSource is the second package of yield bundles: suspension sites behind a package
// boundary, a go:linkname reference and an interface method of a foreign type.
func ylibSource(stub bool) string {
	susp := `
func suspend() {
	Suspensions++
	c := make(chan struct{})
	go func() { close(c) }()
	<-c
}

func site(id int) {
	if id < len(Mask) && Mask[id] == '1' {
		suspend()
	}
}
`
	if stub {
		susp = "\nfunc site(id int) {}\n"
	}
	return `package ylib

var Mask string
var Suspensions int
` + susp + `
// Pass returns v, possibly after a suspension.
func Pass(id int, v int) int {
	site(id)
	return v
}

func hidden(id int, v int) int {
	w := v
	site(id)
	return w
}

type Passer interface{ Half(id int) int }

type Doubler struct{ N int }

// Half keeps a local alive across the suspension point.
func (d Doubler) Half(id int) int {
	n := d.N + 1
	site(id)
	return n - 1
}
`
}
