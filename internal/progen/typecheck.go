package progen

import (
	"go/ast"
	"go/importer"
	"go/parser"
	"go/token"
	"go/types"
	"sort"
	"strings"
	"sync"
)

var (
	tcMu  sync.Mutex
	tcImp types.Importer
	tcSet *token.FileSet
)

// TypeCheck type-checks a main package given as files (name -> source); it is used to
// discard scenarios the generator got wrong instead of blaming the compiler under test.
func TypeCheck(files map[string]string) error {
	tcMu.Lock()
	defer tcMu.Unlock()
	if tcImp == nil {
		tcSet = token.NewFileSet()
		tcImp = importer.ForCompiler(tcSet, "source", nil)
	}
	fset := tcSet
	var names []string
	sub := map[string][]string{} // files of sub-packages ("ylib/ylib.go"), imported as ROOT/<dir>
	for n := range files {
		if n == "glue_js.go" || len(n) < 3 || n[len(n)-3:] != ".go" {
			continue
		}
		if i := strings.LastIndex(n, "/"); i >= 0 {
			sub[n[:i]] = append(sub[n[:i]], n)
			continue
		}
		names = append(names, n)
	}
	sort.Strings(names)
	var afs []*ast.File
	for _, n := range names {
		af, err := parser.ParseFile(fset, n, files[n], 0)
		if err != nil {
			return err
		}
		afs = append(afs, af)
	}
	imp := &rootImporter{files: files, sub: sub, fset: fset}
	conf := types.Config{Importer: imp, Sizes: &types.StdSizes{WordSize: 4, MaxAlign: 8}, GoVersion: "go1.20"}
	_, err := conf.Check("main", fset, afs, nil)
	return err
}

// rootImporter resolves "ROOT/<dir>" to the sub-package files of the program and everything
// else through the source importer.
type rootImporter struct {
	files map[string]string
	sub   map[string][]string
	fset  *token.FileSet
}

var subCache = map[string]*types.Package{}

func (r *rootImporter) Import(path string) (*types.Package, error) {
	if !strings.HasPrefix(path, "ROOT/") {
		return tcImp.Import(path)
	}
	dir := strings.TrimPrefix(path, "ROOT/")
	names := append([]string{}, r.sub[dir]...)
	sort.Strings(names)
	key := path
	for _, n := range names {
		key += "\x00" + r.files[n]
	}
	if p, ok := subCache[key]; ok {
		return p, nil
	}
	var afs []*ast.File
	for _, n := range names {
		af, err := parser.ParseFile(r.fset, n, r.files[n], 0)
		if err != nil {
			return nil, err
		}
		afs = append(afs, af)
	}
	conf := types.Config{Importer: r, Sizes: &types.StdSizes{WordSize: 4, MaxAlign: 8}, GoVersion: "go1.20"}
	p, err := conf.Check(path, r.fset, afs, nil)
	if err == nil {
		subCache[key] = p
	}
	return p, err
}
