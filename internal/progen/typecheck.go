package progen

import (
	"go/ast"
	"go/importer"
	"go/parser"
	"go/token"
	"go/types"
	"sort"
	"sync"
)

var (
	tcMu  sync.Mutex
	tcImp types.Importer
	tcSet *token.FileSet
)

// TypeCheck type-checks a main package given as files (name -> source); it is used to
// discard scenarios the generator got wrong instead of blaming the compiler under test.
func TypeCheck(files map[string]string) error {
	tcMu.Lock()
	defer tcMu.Unlock()
	if tcImp == nil {
		tcSet = token.NewFileSet()
		tcImp = importer.ForCompiler(tcSet, "source", nil)
	}
	fset := tcSet
	var names []string
	for n := range files {
		if n == "glue_js.go" || len(n) < 3 || n[len(n)-3:] != ".go" {
			continue
		}
		names = append(names, n)
	}
	sort.Strings(names)
	var afs []*ast.File
	for _, n := range names {
		af, err := parser.ParseFile(fset, n, files[n], 0)
		if err != nil {
			return err
		}
		afs = append(afs, af)
	}
	conf := types.Config{Importer: tcImp, Sizes: &types.StdSizes{WordSize: 4, MaxAlign: 8}, GoVersion: "go1.20"}
	_, err := conf.Check("main", fset, afs, nil)
	return err
}
