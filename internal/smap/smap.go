// Package smap is an independent decoder of source map v3 files (JSON + base64 VLQ),
// used by C19 to read what the compiler emitted without using the compiler's own library.
package smap

import (
	"encoding/json"
	"fmt"
	"sort"
)

// Map is a decoded source map.
type Map struct {
	Version  int      `json:"version"`
	File     string   `json:"file"`
	Root     string   `json:"sourceRoot"`
	Sources  []string `json:"sources"`
	Names    []string `json:"names"`
	Mappings string   `json:"mappings"`
	Segs     []Seg    `json:"-"`
}

// Seg is one mapping segment; all values are zero-based as in the file format.
type Seg struct {
	GenLine, GenCol   int
	HasSrc            bool
	Src               int
	OrigLine, OrigCol int
	HasName           bool
	Name              int
}

const b64 = "ABCDEFGHIJKLMNOPQRSTUVWXYZabcdefghijklmnopqrstuvwxyz0123456789+/"

// Parse decodes a source map.
func Parse(data []byte) (*Map, error) {
	m := &Map{}
	if err := json.Unmarshal(data, m); err != nil {
		return nil, err
	}
	var dec [256]int
	for i := range dec {
		dec[i] = -1
	}
	for i := 0; i < len(b64); i++ {
		dec[b64[i]] = i
	}
	line, col, src, ol, oc, nm := 0, 0, 0, 0, 0, 0
	s := m.Mappings
	i := 0
	readVLQ := func() (int, error) {
		v, shift := 0, uint(0)
		for {
			if i >= len(s) {
				return 0, fmt.Errorf("truncated VLQ")
			}
			d := dec[s[i]]
			if d < 0 {
				return 0, fmt.Errorf("bad base64 char %q at %d", s[i], i)
			}
			i++
			v |= (d & 31) << shift
			shift += 5
			if d&32 == 0 {
				break
			}
		}
		if v&1 != 0 {
			return -(v >> 1), nil
		}
		return v >> 1, nil
	}
	for i < len(s) {
		switch s[i] {
		case ';':
			line++
			col = 0
			i++
			continue
		case ',':
			i++
			continue
		}
		var f []int
		for i < len(s) && s[i] != ',' && s[i] != ';' {
			v, err := readVLQ()
			if err != nil {
				return nil, err
			}
			f = append(f, v)
		}
		seg := Seg{GenLine: line}
		switch len(f) {
		case 1, 4, 5:
		default:
			return nil, fmt.Errorf("segment with %d fields on line %d", len(f), line)
		}
		col += f[0]
		seg.GenCol = col
		if len(f) >= 4 {
			src += f[1]
			ol += f[2]
			oc += f[3]
			seg.HasSrc, seg.Src, seg.OrigLine, seg.OrigCol = true, src, ol, oc
		}
		if len(f) == 5 {
			nm += f[4]
			seg.HasName, seg.Name = true, nm
		}
		m.Segs = append(m.Segs, seg)
	}
	return m, nil
}

// Lookup returns the segment with the greatest generated position <= (line, col)
// on the same line (the convention used by stack trace resolvers), or nil.
func (m *Map) Lookup(line, col int) *Seg {
	i := sort.Search(len(m.Segs), func(i int) bool {
		s := m.Segs[i]
		return s.GenLine > line || (s.GenLine == line && s.GenCol > col)
	})
	if i == 0 {
		return nil
	}
	s := &m.Segs[i-1]
	if s.GenLine != line {
		return nil
	}
	return s
}
