// Node preload that owns the three sources of non-determinism of the GopherJS scheduler:
//   Math.random  -> the pick among ready select cases
//   Date.now     -> the 4 ms time-slice break of $runScheduled
//   setTimeout   -> the order in which timer callbacks (scheduler passes, Gosched wake-ups) fire
// The script comes from the environment:
//   VERIF_SCHED_RANDOM  comma separated integers; call k of Math.random picks case (value mod arity)
//   VERIF_SCHED_CLOCK   string of 0/1; call k of Date.now advances the virtual clock by 5 ms if '1'
//   VERIF_SCHED_TIMERS  comma separated integers; when several timers are due, dispatch k takes
//                       pending[value mod pending.length] (insertion order when exhausted: 0)
//   VERIF_SCHED_LOG     file that receives one line per choice point: "random <arity> <picked>",
//                       "timers <arity> <picked>", and the totals at exit
'use strict';
(function () {
  const fs = require('fs');
  const env = process.env;
  const ints = s => (s ? s.split(',').filter(x => x !== '').map(x => parseInt(x, 10)) : []);
  const randomScript = ints(env.VERIF_SCHED_RANDOM);
  const clockScript = env.VERIF_SCHED_CLOCK || '';
  const timerScript = ints(env.VERIF_SCHED_TIMERS);
  const logFile = env.VERIF_SCHED_LOG || '';
  const log = [];
  let nRandom = 0, nClock = 0, nTimer = 0;

  // --- Math.random: the result is used as floor(r * arity); the arity is recovered from the
  // next Math.floor call so that the harness can enumerate the choice tree.
  const realFloor = Math.floor;
  let pendingRandom = null;
  Math.random = function () {
    const c = nRandom < randomScript.length ? randomScript[nRandom] : 0;
    nRandom++;
    // r = (c mod 12 + 0.5) / 12 reaches every index for arities 1, 2, 3, 4, 6 and 12
    const r = (((c % 12) + 12) % 12 + 0.5) / 12;
    pendingRandom = r;
    return r;
  };
  Math.floor = function (x) {
    const v = realFloor(x);
    if (pendingRandom !== null) {
      const arity = Math.round(x / pendingRandom);
      pendingRandom = null;
      log.push('random ' + arity + ' ' + v);
    }
    return v;
  };

  // --- Date.now: virtual clock
  let now = 1000000;
  Date.now = function () {
    if (nClock < clockScript.length && clockScript[nClock] === '1') {
      now += 5;
    }
    nClock++;
    return now;
  };

  // --- timers: a virtual queue pumped by one real immediate at a time
  const realSetImmediate = setImmediate;
  let seq = 0;
  let pending = []; // { id, f, args, due, seq }
  let pumping = false;
  const pump = () => {
    pumping = false;
    if (pending.length === 0) {
      return;
    }
    // due timers: everything whose deadline is not later than the earliest one + 0 (virtual time jumps)
    let min = Infinity;
    for (const t of pending) { if (t.due < min) { min = t.due; } }
    const due = pending.filter(t => t.due <= min);
    let k = 0;
    if (due.length > 1) {
      const c = nTimer < timerScript.length ? timerScript[nTimer] : 0;
      nTimer++;
      k = ((c % due.length) + due.length) % due.length;
      log.push('timers ' + due.length + ' ' + k);
    }
    const t = due[k];
    pending = pending.filter(x => x !== t);
    if (t.due > now) { now = t.due; }
    schedulePump();
    t.f.apply(undefined, t.args);
  };
  const schedulePump = () => {
    if (!pumping && pending.length > 0) {
      pumping = true;
      realSetImmediate(pump);
    }
  };
  global.setTimeout = function (f, delay, ...args) {
    const d = (typeof delay === 'number' && delay > 0) ? delay : 0;
    const t = { id: ++seq, f, args, due: now + d };
    pending.push(t);
    schedulePump();
    return t;
  };
  global.clearTimeout = function (t) {
    pending = pending.filter(x => x !== t);
  };

  process.on('exit', () => {
    if (logFile !== '') {
      log.push('totals random=' + nRandom + ' clock=' + nClock + ' timers=' + nTimer);
      try { fs.writeFileSync(logFile, log.join('\n') + '\n'); } catch (e) { /* ignore */ }
    }
  });
})();
