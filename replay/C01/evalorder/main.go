package main

// Known finding C01-evalorder: in one expression, a call that cannot block and has side effects,
// standing to the LEFT of a call that may block (a call through a function value, an interface
// method, a blocking function), is evaluated AFTER it. Go evaluates calls left to right.

var x int

func inc() int { x++; return x }

type T struct{ v int }

func (t *T) set(n int) bool { t.v = n; return true }

func main() {
	g := func() int { return x * 10 }
	println(inc() + g()) // Go: 1 + 10
	y := inc()*100 + g()
	println(y) // Go: 200 + 20
	a := []int{inc(), g()}
	println(a[0], a[1]) // Go: 3 30
	t := &T{}
	get := func() int { return t.v }
	println(t.set(5), get()) // Go: true 5
}
