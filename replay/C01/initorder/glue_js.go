//go:build js

package main

import "github.com/gopherjs/gopherjs/js"

func hardExit() { js.Global.Get("process").Call("exit", 3) }

func countLine() int {
	n := js.Global.Get("verifTraceLines").Int() + 1
	js.Global.Set("verifTraceLines", n)
	return n
}

func argv(i int) string {
	a := js.Global.Get("process").Get("argv")
	if a.Length() > i+2 {
		return a.Index(i + 2).String()
	}
	return ""
}
