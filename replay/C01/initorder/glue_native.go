//go:build !js

package main

import "os"

func hardExit() { os.Exit(3) }

var traceLines int

func countLine() int {
	traceLines++
	return traceLines
}

func argv(i int) string {
	if len(os.Args) > i+1 {
		return os.Args[i+1]
	}
	return ""
}
