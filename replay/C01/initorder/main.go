package main


func main() {
	unit0()
	unit1()
	unit2()
	out("END")
}


func side0(tag string) int {
	out("unit 0 side effect " + tag)
	count0++
	return 1
}

var count0 int

type I0 interface{ m(string) int }

type T0 struct{}

func (T0) m(tag string) int { return side0(tag) }

var i0 I0 = T0{}

var w0 = i0.m("iface-call")

var u0 = w0

func unit0() {
	defer func() {
		if r := recover(); r != nil {
			out("unit 0 panic " + classify(r))
		}
	}()
	out("unit 0 calls " + itoa(count0))
}

func side1(tag string) int {
	out("unit 1 side effect " + tag)
	count1++
	return 1
}

var count1 int

var c1 = func() chan int {
	c := make(chan int, 1)
	c <- side1("receive")
	return c
}()

var u1 = <-c1

func side2(tag string) int {
	out("unit 2 side effect " + tag)
	count2++
	return 1
}

var count2 int

type I2 interface{ m(string) int }

type T2 struct{}

func (T2) m(tag string) int { return side2(tag) }

var i2 I2 = T2{}

var u2 interface{} = i2.m("iface-call")

func unit2() {
	defer func() {
		if r := recover(); r != nil {
			out("unit 2 panic " + classify(r))
		}
	}()
	out("unit 2 calls " + itoa(count2))
}



func unit1() {
	defer func() {
		if r := recover(); r != nil {
			out("unit 1 panic " + classify(r))
		}
	}()
	out("unit 1 calls " + itoa(count1))
}


