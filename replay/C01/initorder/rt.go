package main

import (
	"math"
	"runtime"
)

var _ = math.Float64bits

// out prints one trace line. A program that prints without end is stopped here, in both
// worlds alike, so that runaway behaviour shows as a difference of traces and not as a time-out.
var outLimit int

func out(s string) {
	// the line count lives outside the package variables: a runaway program may run its
	// package initialisation again and again
	if outLimit > 0 && countLine() > outLimit {
		println("RUNAWAY: more trace lines than this program can print")
		hardExit()
	}
	println(s)
}

func itoa(n int) string { return i64toa(int64(n)) }

func i64toa(n int64) string {
	if n == 0 {
		return "0"
	}
	neg := n < 0
	var u uint64
	if neg {
		u = uint64(-(n + 1)) + 1
	} else {
		u = uint64(n)
	}
	s := u64toa(u)
	if neg {
		s = "-" + s
	}
	return s
}

func u64toa(u uint64) string {
	if u == 0 {
		return "0"
	}
	var b [24]byte
	i := len(b)
	for u > 0 {
		i--
		b[i] = byte('0' + u%10)
		u /= 10
	}
	return string(b[i:])
}

const hexdigits = "0123456789abcdef"

func u64hex(u uint64) string {
	var b [16]byte
	for i := 15; i >= 0; i-- {
		b[i] = hexdigits[u&15]
		u >>= 4
	}
	return string(b[:])
}

func f64s(f float64) string {
	if f != f {
		return "NaN"
	}
	return u64hex(math.Float64bits(f))
}

// f32s renders through float64: a value that was never rounded to float32 precision would
// be hidden by Float32bits, which rounds.
func f32s(f float32) string {
	if f != f {
		return "NaN"
	}
	return u64hex(math.Float64bits(float64(f)))
}

func c128s(c complex128) string { return "(" + f64s(real(c)) + "," + f64s(imag(c)) + ")" }
func c64s(c complex64) string   { return "(" + f32s(real(c)) + "," + f32s(imag(c)) + ")" }

func btoa(b bool) string {
	if b {
		return "true"
	}
	return "false"
}

// q renders a string as printable ASCII.
func q(s string) string {
	b := make([]byte, 0, len(s)+2)
	b = append(b, '"')
	for i := 0; i < len(s); i++ {
		c := s[i]
		if c >= 0x20 && c < 0x7f && c != '"' && c != '\\' {
			b = append(b, c)
		} else {
			b = append(b, '\\', 'x', hexdigits[c>>4], hexdigits[c&15])
		}
	}
	b = append(b, '"')
	return string(b)
}

func contains(s, sub string) bool {
	for i := 0; i+len(sub) <= len(s); i++ {
		if s[i:i+len(sub)] == sub {
			return true
		}
	}
	return false
}

var rtClasses = []string{
	"index out of range",
	"slice bounds out of range",
	"assignment to entry in nil map",
	"invalid memory address or nil pointer dereference",
	"integer divide by zero",
	"interface conversion",
	"comparing uncomparable",
	"hash of unhashable",
	"makeslice: len out of range",
	"makeslice: cap out of range",
	"makechan: size out of range",
	"cannot convert slice with length",
	"close of nil channel",
	"close of closed channel",
	"send on closed channel",
	"negative shift amount",
	"all goroutines are asleep",
}

// classify renders a recovered value: run-time errors by class keyword only.
func classify(r any) string {
	if r == nil {
		return "nil"
	}
	switch v := r.(type) {
	case runtime.Error:
		s := v.Error()
		if contains(s, "called using nil") {
			// Go's message for a value method reached through a nil pointer
			return "rt:invalid memory address or nil pointer dereference"
		}
		for _, k := range rtClasses {
			if contains(s, k) {
				return "rt:" + k
			}
		}
		return "rt:?" + q(s)
	case error:
		return "error:" + q(v.Error())
	case string:
		return "string:" + q(v)
	case int:
		return "int:" + itoa(v)
	}
	return "other"
}

// fnv-1a 64 digest helpers for table programs.
type digest uint64

func newDigest() digest { return 14695981039346656037 }
func (d *digest) u64(x uint64) {
	h := uint64(*d)
	for i := 0; i < 8; i++ {
		h ^= x & 0xff
		h *= 1099511628211
		x >>= 8
	}
	*d = digest(h)
}
func (d *digest) str(s string) {
	h := uint64(*d)
	for i := 0; i < len(s); i++ {
		h ^= uint64(s[i])
		h *= 1099511628211
	}
	h ^= 0xff
	h *= 1099511628211
	*d = digest(h)
}
func (d digest) String() string { return u64hex(uint64(d)) }
