package main

func F[A, B any](a A, b B) int {
	type cell struct {
		a A
		b B
	}
	s := make([]cell, 1)
	s[0] = cell{a, b}
	m := map[string]cell{"k": {a, b}}
	p := new(cell)
	var arr [2]cell
	c := make(chan cell, 1)
	c <- s[0]
	_ = p
	return len(s) + len(m) + len(arr) + len(c)
}

func main() {
	println(F(1, "x"), F("y", 2.5))
}
