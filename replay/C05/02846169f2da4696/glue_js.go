//go:build js

package main

import "github.com/gopherjs/gopherjs/js"

func argv(i int) string {
	a := js.Global.Get("process").Get("argv")
	if a.Length() > i+2 {
		return a.Index(i + 2).String()
	}
	return ""
}
