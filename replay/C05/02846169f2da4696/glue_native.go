//go:build !js

package main

import "os"

func argv(i int) string {
	if len(os.Args) > i+1 {
		return os.Args[i+1]
	}
	return ""
}
