package main

func S6_f0(x, z int) int {
	i0, i1, i2, i3 := 33, 67, -33, 7
	var a0 int8 = -60
	var a1 uint8 = 238
	var a2 int16 = 2071
	var a3 uint32 = 4
	var a4 int64 = -136
	var a5 uint64 = 541
	s0, s1 := "", "héllo"
	b0, b1 := false, false
	f0 := 33.25
	sl := []int{33, 2, 3}
	arr := [4]int{1, 33, 3, 4}
	m := map[string]int{"k": 33, "a": 1}
	p := P{a: 33, b: "pb"}
	pp := &P{a: 1}
	fn := func(v int) int { return lim(v*3 + 1) }
	var sh Shape = pp
	_, _, _, _, _, _, _, _, _, _, _, _, _ = a2, a3, a4, a5, b1, f0, fn, sh, s1, b0, arr, m, pp
	i0, i1 = lim(x), lim(z)
	if x > 0 && x < 6 {
		i2 = S6_f0(x-1, z+1)
	}
	i1 = int(uint8(p.a))
	b1 = b1
	out("S6_b1" + " " + itoa(i0) + "," + itoa(i1) + "," + itoa(i2) + " " + rtq(s0))
	i1 = p.a
	return lim(i0 + i1*3 + i2*5 + i3*7 + int(a0) + int(a1) + len(s0) + len(sl) + p.a)
}

func S6_main() {
	i0, i1, i2, i3 := 2, 5, -2, 7
	var a0 int8 = 58
	var a1 uint8 = 1
	var a2 int16 = -2176
	var a3 uint32 = 703
	var a4 int64 = -28791
	var a5 uint64 = 12150
	s0, s1 := "héllo", "abcdef"
	b0, b1 := true, false
	f0 := 2.25
	sl := []int{2, 2, 3}
	arr := [4]int{1, 2, 3, 4}
	m := map[string]int{"k": 2, "a": 1}
	p := P{a: 2, b: "pb"}
	pp := &P{a: 1}
	fn := func(v int) int { return lim(v*3 + 1) }
	var sh Shape = sq(3)
	_, _, _, _, _, _, _, _, _, _, _, _, _ = a2, a3, a4, a5, b1, f0, fn, sh, s1, b0, arr, m, pp
	a0 += (a0 >> 0)
	f0 = fclamp(f0*1.25 + float64((lim(26 + i1) ^ 37))/1.0)
	out("S6_b27" + " " + itoa(i0) + "," + itoa(i1) + "," + itoa(i2) + " " + rtq(s0))
	i0 = arr[1]
	out("S6_t25" + " " + itoa(i0) + "," + itoa(i1) + "," + itoa(i2) + " " + rtq(s0))
	out("S6_b25" + " " + itoa(i0) + "," + itoa(i1) + "," + itoa(i2) + " " + rtq(s0))
	i2 = int((a1 * (a1 ^ uint8(6))))
	func() {
		defer func() {
			i1 = lim(i1 + 3)
			if r := recover(); r != nil {
				s1 = cut(s1 + "R")
			}
		}()
		i2 = lim(3 * i2)
		L1:
		for k, v := range sl[:ix(1, len(sl)+1)] {
			i3 = lim(i3 + k*v)
			i0 = i2
			{
				cl := func(d int) int {
					out("S6_t18" + " " + itoa(i0) + "," + itoa(i1) + "," + itoa(i2) + " " + rtq(s0))
					i0 = lim(i0 + d)
					return lim(i0 * 2)
				}
				i1 = cl(lim(i1 + i3))
				fn = cl
			}
			out("S6_b18" + " " + itoa(i0) + "," + itoa(i1) + "," + itoa(i2) + " " + rtq(s0))
			if i3 == -777777 {
				continue L1
			}
		}
		out("S6_b18" + " " + itoa(i0) + "," + itoa(i1) + "," + itoa(i2) + " " + rtq(s0))
	}()
	out("S6_b18" + " " + itoa(i0) + "," + itoa(i1) + "," + itoa(i2) + " " + rtq(s0))
	{
		cl := func(d int) int {
			p.a++
			i0, i1 = lim(i0), lim(i1)
			i0 = lim(i0 + d)
			return lim(i0 * 2)
		}
		i1 = cl((i1 / 9))
		fn = cl
	}
	i0 = (m[s1] ^ 14)
	out("S6_b15" + " " + itoa(i0) + "," + itoa(i1) + "," + itoa(i2) + " " + rtq(s0))
	a4 |= a4
	a3 ^= a3
	out("S6_b13" + " " + itoa(i0) + "," + itoa(i1) + "," + itoa(i2) + " " + rtq(s0))
	{
		acc := 0
		for k, v := range m {
			acc += len(k)*7 + v
		}
		i2 = lim(acc)
	}
	i1 = m[cut(s1 + itoa(i1))]
	out("S6_b11" + " " + itoa(i0) + "," + itoa(i1) + "," + itoa(i2) + " " + rtq(s0))
	i1 = 5
	{
		cp := p
		cp.a = lim(cp.a + 7)
		cp.c[1] = i0
		arr2 := arr
		arr2[0] = cp.a
		i3 = lim(p.a + cp.a + arr[0] + arr2[0] + p.c[1])
	}
	out("S6_b9" + " " + itoa(i0) + "," + itoa(i1) + "," + itoa(i2) + " " + rtq(s0))
	i1++
	i0, i1 = lim(i0), lim(i1)
	out("S6_t7" + " " + itoa(i0) + "," + itoa(i1) + "," + itoa(i2) + " " + rtq(s0))
	out("S6_b7" + " " + itoa(i0) + "," + itoa(i1) + "," + itoa(i2) + " " + rtq(s0))
	if len(sl) > 0 {
		sl[nx(len(sl))] -= 3
		sl[0] = lim(sl[0])
	}
	out("S6_calls " + itoa(cn))
	switch w := lim(-i3); lim(w + lim(p.a * (-15 % 2))) % 5 {
	case -1, 9:
		{
			i0 := lim(i0 + 1)
			s0 := s0 + "~"
			{
				acc := 0
				for k, v := range m {
					acc += len(k)*7 + v
				}
				i2 = lim(acc)
			}
			i3 = lim(i3 + i0 + len(s0))
		}
		i1 = int(int8((a4 ^ a4)))
		out("S6_b2" + " " + itoa(i0) + "," + itoa(i1) + "," + itoa(i2) + " " + rtq(s0))
	}
	out("S6_b2" + " " + itoa(i0) + "," + itoa(i1) + "," + itoa(i2) + " " + rtq(s0))
	L2:
	for k, v := range sl[:ix(1, len(sl)+1)] {
		i3 = lim(i3 + k*v)
		i3 = i2
		if (a1 < a1) {
			continue
		}
		if i3 == -777777 {
			continue L2
		}
	}
	out("S6_ints " + itoa(i0) + "," + itoa(i1) + "," + itoa(i2) + "," + itoa(i3) + " " + itoa(int(a0)) + "," + itoa(int(a1)) + "," + itoa(int(a2)) + "," + u64toa(uint64(a3)) + "," + i64toa(a4) + "," + u64toa(a5))
	out("S6_strs " + rtq(s0) + " " + rtq(s1) + " " + btoa(b0) + btoa(b1) + " " + f64s(f0))
	fnResult := fn(1)
	shArea := sh.Area(2)
	out("S6_data " + itoa(len(sl)) + ":" + itoa(vsum(sl...)) + " " + itoa(vsum(arr[:]...)) + " " + itoa(len(m)) + ":" + itoa(m["k"]) + " " + itoa(p.a) + rtq(p.b) + itoa(p.c[0]+p.c[1]) + " " + itoa(pp.a) + " " + itoa(fnResult) + " " + sh.name() + itoa(shArea))
}

type S6_dead0 struct{ z int }

func (d S6_dead0) Area(k int) int { return d.z * k }
func (d S6_dead0) name() string { return "dead" }
func (d *S6_dead0) bump(k int) { d.z += k }

func S6_unused0(x int) int { return lim(x + 0) }

var S6_deadvar0 = 0

type S6_dead1 struct{ z int }

func (d S6_dead1) Area(k int) int { return d.z * k }
func (d S6_dead1) name() string { return "dead" }
func (d *S6_dead1) bump(k int) { d.z += k }

func S6_unused1(x int) int { return lim(x + 1) }

var S6_deadvar1 = 1

