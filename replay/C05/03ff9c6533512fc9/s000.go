package main

func S0_main() {
	i0, i1, i2, i3 := 7, 15, -7, 7
	var a0 int8 = -23
	var a1 uint8 = 151
	var a2 int16 = 902
	var a3 uint32 = 3
	var a4 int64 = 69215
	var a5 uint64 = 11
	s0, s1 := "héllo", "héllo"
	b0, b1 := false, false
	f0 := 7.25
	sl := []int{7, 2, 3}
	arr := [4]int{1, 7, 3, 4}
	m := map[string]int{"k": 7, "a": 1}
	p := P{a: 7, b: "pb"}
	pp := &P{a: 1}
	fn := func(v int) int { return lim(v*3 + 1) }
	var sh Shape = sq(3)
	_, _, _, _, _, _, _, _, _, _, _, _, _ = a2, a3, a4, a5, b1, f0, fn, sh, s1, b0, arr, m, pp
	i0, i1, i2 = i2, i0, lim(i1+1)
	if v := i2; v > -1 {
		i0, i1, i2 = i2, i0, lim(i1+1)
	}
	out("S0_b4" + " " + itoa(i0) + "," + itoa(i1) + "," + itoa(i2) + " " + rtq(s0))
	for k, v := range []interface{}{i0, s0, nil, f0, 7, "z", nil} {
		switch v.(type) {
		case int:
			if k%2 == 1 {
				break
			}
			i1 = lim(i1 + 1)
		case string:
			i2 = lim(i2 + 1)
		case nil:
			i2 = lim(i2 + 1000)
		default:
			i1 = lim(i1 - 3)
		}
		i3 = lim(i3 + k + 1)
	}
	sl[ix(i0, len(sl))] = i0
	out("S0_b2" + " " + itoa(i0) + "," + itoa(i1) + "," + itoa(i2) + " " + rtq(s0))
	m["k"]--
	i0, i1 = lim(i0), lim(i1)
	i1 = lim(arr[3] + lim(lim(i1 - len(sl)) - lim(0 - p.a)))
	out("S0_b0" + " " + itoa(i0) + "," + itoa(i1) + "," + itoa(i2) + " " + rtq(s0))
	out("S0_ints " + itoa(i0) + "," + itoa(i1) + "," + itoa(i2) + "," + itoa(i3) + " " + itoa(int(a0)) + "," + itoa(int(a1)) + "," + itoa(int(a2)) + "," + u64toa(uint64(a3)) + "," + i64toa(a4) + "," + u64toa(a5))
	out("S0_strs " + rtq(s0) + " " + rtq(s1) + " " + btoa(b0) + btoa(b1) + " " + f64s(f0))
	fnResult := fn(1)
	shArea := sh.Area(2)
	out("S0_data " + itoa(len(sl)) + ":" + itoa(vsum(sl...)) + " " + itoa(vsum(arr[:]...)) + " " + itoa(len(m)) + ":" + itoa(m["k"]) + " " + itoa(p.a) + rtq(p.b) + itoa(p.c[0]+p.c[1]) + " " + itoa(pp.a) + " " + itoa(fnResult) + " " + sh.name() + itoa(shArea))
}

type S0_dead0 struct{ z int }

func (d S0_dead0) Area(k int) int { return d.z * k }
func (d S0_dead0) name() string { return "dead" }
func (d *S0_dead0) bump(k int) { d.z += k }

func S0_unused0(x int) int { return lim(x + 0) }

var S0_deadvar0 = 0

type S0_dead1 struct{ z int }

func (d S0_dead1) Area(k int) int { return d.z * k }
func (d S0_dead1) name() string { return "dead" }
func (d *S0_dead1) bump(k int) { d.z += k }

func S0_unused1(x int) int { return lim(x + 1) }

var S0_deadvar1 = 1

type S0_dead2 struct{ z int }

func (d S0_dead2) Area(k int) int { return d.z * k }
func (d S0_dead2) name() string { return "dead" }
func (d *S0_dead2) bump(k int) { d.z += k }

func S0_unused2(x int) int { return lim(x + 2) }

var S0_deadvar2 = 2

