package main

func S15_main() {
	i0, i1, i2, i3 := 1, 3, -1, 7
	var a0 int8 = 0
	var a1 uint8 = 73
	var a2 int16 = -2343
	var a3 uint32 = 60050
	var a4 int64 = 462
	var a5 uint64 = 85
	s0, s1 := "go", "héllo"
	b0, b1 := false, false
	f0 := 1.25
	sl := []int{1, 2, 3}
	arr := [4]int{1, 1, 3, 4}
	m := map[string]int{"k": 1, "a": 1}
	p := P{a: 1, b: "pb"}
	pp := &P{a: 1}
	fn := func(v int) int { return lim(v*3 + 1) }
	var sh Shape = &p
	_, _, _, _, _, _, _, _, _, _, _, _, _ = a2, a3, a4, a5, b1, f0, fn, sh, s1, b0, arr, m, pp
	arr[nx(4)]++
	out("S15_calls " + itoa(cn))
	for k, v := range []interface{}{i0, s0, nil, f0, 7, "z", nil} {
		switch x := v.(type) {
		case int:
			i1 = lim(i1 + x)
		case string:
			i2 = lim(i2 + len(x))
		case nil:
			i2 = lim(i2 + 1000)
		case float64:
			_ = x
		}
		i3 = lim(i3 + k + 1)
	}
	out("S15_b8" + " " + itoa(i0) + "," + itoa(i1) + "," + itoa(i2) + " " + rtq(s0))
	a5 &= uint64(uint64(len(s0)))
	s0 = sub(string(rune('a' + ix(lim(len(sl) * p.a), 26))), lim(i2 - lim(79 - len(s0))))
	out("S15_b6" + " " + itoa(i0) + "," + itoa(i1) + "," + itoa(i2) + " " + rtq(s0))
	if v := arr[0]; v > -2 {
		m[cut(p.b + "é")] = lim((len(s0) & 44) * lim(i3 - i0))
		for k, v := range []interface{}{i0, s0, nil, f0, 7, "z", nil} {
			switch v.(type) {
			case int:
				i1 = lim(i1 + 1)
			case string:
				i2 = lim(i2 + 1)
			case nil:
				i2 = lim(i2 + 1000)
			default:
				if k%2 == 0 {
					break
				}
				i1 = lim(i1 - 3)
			}
			i3 = lim(i3 + k + 1)
		}
		out("S15_b3" + " " + itoa(i0) + "," + itoa(i1) + "," + itoa(i2) + " " + rtq(s0))
		i0 = (i3 / 7)
	} else {
		i0 = i3
	}
	arr[ix(lim(arr[ix(len(s0), 4)] + i0), 4)] = m[s0]
	out("S15_b0" + " " + itoa(i0) + "," + itoa(i1) + "," + itoa(i2) + " " + rtq(s0))
	out("S15_ints " + itoa(i0) + "," + itoa(i1) + "," + itoa(i2) + "," + itoa(i3) + " " + itoa(int(a0)) + "," + itoa(int(a1)) + "," + itoa(int(a2)) + "," + u64toa(uint64(a3)) + "," + i64toa(a4) + "," + u64toa(a5))
	out("S15_strs " + rtq(s0) + " " + rtq(s1) + " " + btoa(b0) + btoa(b1) + " " + f64s(f0))
	fnResult := fn(1)
	shArea := sh.Area(2)
	out("S15_data " + itoa(len(sl)) + ":" + itoa(vsum(sl...)) + " " + itoa(vsum(arr[:]...)) + " " + itoa(len(m)) + ":" + itoa(m["k"]) + " " + itoa(p.a) + rtq(p.b) + itoa(p.c[0]+p.c[1]) + " " + itoa(pp.a) + " " + itoa(fnResult) + " " + sh.name() + itoa(shArea))
	panic(scenarioErr{i0})
}

type S15_dead0 struct{ z int }

func (d S15_dead0) Area(k int) int { return d.z * k }
func (d S15_dead0) name() string { return "dead" }
func (d *S15_dead0) bump(k int) { d.z += k }

func S15_unused0(x int) int { return lim(x + 0) }

var S15_deadvar0 = 0

type S15_dead1 struct{ z int }

func (d S15_dead1) Area(k int) int { return d.z * k }
func (d S15_dead1) name() string { return "dead" }
func (d *S15_dead1) bump(k int) { d.z += k }

func S15_unused1(x int) int { return lim(x + 1) }

var S15_deadvar1 = 1

type S15_dead2 struct{ z int }

func (d S15_dead2) Area(k int) int { return d.z * k }
func (d S15_dead2) name() string { return "dead" }
func (d *S15_dead2) bump(k int) { d.z += k }

func S15_unused2(x int) int { return lim(x + 2) }

var S15_deadvar2 = 2

