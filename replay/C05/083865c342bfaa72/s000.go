package main

func S10_main() {
	i0, i1, i2, i3 := 40, 81, -40, 7
	var a0 int8 = 97
	var a1 uint8 = 127
	var a2 int16 = -19
	var a3 uint32 = 212430
	var a4 int64 = 189412
	var a5 uint64 = 34
	s0, s1 := "go", "go"
	b0, b1 := true, false
	f0 := 40.25
	sl := []int{40, 2, 3}
	arr := [4]int{1, 40, 3, 4}
	m := map[string]int{"k": 40, "a": 1}
	p := P{a: 40, b: "pb"}
	pp := &P{a: 1}
	fn := func(v int) int { return lim(v*3 + 1) }
	var sh Shape = &p
	_, _, _, _, _, _, _, _, _, _, _, _, _ = a2, a3, a4, a5, b1, f0, fn, sh, s1, b0, arr, m, pp
	switch (int(a2) / 4) % 5 {
	case 2:
		switch (len(s0) % 1) % 5 {
		case -1, 9:
			arr[1]--
			i0, i1 = lim(i0), lim(i1)
			i2 = len(sl)
			out("S10_b8" + " " + itoa(i0) + "," + itoa(i1) + "," + itoa(i2) + " " + rtq(s0))
			if b0 {
				break
			}
			i1 = lim(i1 + 1)
		case 4, 14:
			i2 = int((int16(len(s0)) << 4))
			f0 = fclamp(f0*3 + float64(lim((p.a / 4) + lim(i3 * len(sl))))/2.0)
			out("S10_b6" + " " + itoa(i0) + "," + itoa(i1) + "," + itoa(i2) + " " + rtq(s0))
		case 3:
			i3 = i3
			if b0 {
				break
			}
			i1 = lim(i1 + 1)
		default:
			i3 = i1
		}
		a2 -= (a2 - a2)
		out("S10_b3" + " " + itoa(i0) + "," + itoa(i1) + "," + itoa(i2) + " " + rtq(s0))
		fallthrough
	case -4, 6:
		{
			cl := func(d int) int {
				{
					cp := p
					cp.a = lim(cp.a + 7)
					cp.c[1] = i0
					arr2 := arr
					arr2[0] = cp.a
					i3 = lim(p.a + cp.a + arr[0] + arr2[0] + p.c[1])
				}
				out("S10_b0" + " " + itoa(i0) + "," + itoa(i1) + "," + itoa(i2) + " " + rtq(s0))
				i0 = lim(i0 + d)
				return lim(i0 * 2)
			}
			i1 = cl((len(s0) ^ 30))
			fn = cl
		}
	default:
	}
	out("S10_ints " + itoa(i0) + "," + itoa(i1) + "," + itoa(i2) + "," + itoa(i3) + " " + itoa(int(a0)) + "," + itoa(int(a1)) + "," + itoa(int(a2)) + "," + u64toa(uint64(a3)) + "," + i64toa(a4) + "," + u64toa(a5))
	out("S10_strs " + rtq(s0) + " " + rtq(s1) + " " + btoa(b0) + btoa(b1) + " " + f64s(f0))
	fnResult := fn(1)
	shArea := sh.Area(2)
	out("S10_data " + itoa(len(sl)) + ":" + itoa(vsum(sl...)) + " " + itoa(vsum(arr[:]...)) + " " + itoa(len(m)) + ":" + itoa(m["k"]) + " " + itoa(p.a) + rtq(p.b) + itoa(p.c[0]+p.c[1]) + " " + itoa(pp.a) + " " + itoa(fnResult) + " " + sh.name() + itoa(shArea))
}

type S10_dead0 struct{ z int }

func (d S10_dead0) Area(k int) int { return d.z * k }
func (d S10_dead0) name() string { return "dead" }
func (d *S10_dead0) bump(k int) { d.z += k }

func S10_unused0(x int) int { return lim(x + 0) }

var S10_deadvar0 = 0

type S10_dead1 struct{ z int }

func (d S10_dead1) Area(k int) int { return d.z * k }
func (d S10_dead1) name() string { return "dead" }
func (d *S10_dead1) bump(k int) { d.z += k }

func S10_unused1(x int) int { return lim(x + 1) }

var S10_deadvar1 = 1

type S10_dead2 struct{ z int }

func (d S10_dead2) Area(k int) int { return d.z * k }
func (d S10_dead2) name() string { return "dead" }
func (d *S10_dead2) bump(k int) { d.z += k }

func S10_unused2(x int) int { return lim(x + 2) }

var S10_deadvar2 = 2

