package main

func S0_f0(x, z int) int {
	i0, i1, i2, i3 := 32, 65, -32, 7
	var a0 int8 = -70
	var a1 uint8 = 36
	var a2 int16 = -10
	var a3 uint32 = 12
	var a4 int64 = -148
	var a5 uint64 = 16
	s0, s1 := "", "abcdef"
	b0, b1 := true, false
	f0 := 32.25
	sl := []int{32, 2, 3}
	arr := [4]int{1, 32, 3, 4}
	m := map[string]int{"k": 32, "a": 1}
	p := P{a: 32, b: "pb"}
	pp := &P{a: 1}
	fn := func(v int) int { return lim(v*3 + 1) }
	var sh Shape = &p
	_, _, _, _, _, _, _, _, _, _, _, _, _ = a2, a3, a4, a5, b1, f0, fn, sh, s1, b0, arr, m, pp
	i0, i1 = lim(x), lim(z)
	if x > 0 && x < 6 {
		i2 = S0_f0(x-1, z+1)
	}
	func() {
		defer func() {
			i1 = lim(i1 + 3)
			if r := recover(); r != nil {
				s1 = cut(s1 + "R")
			}
		}()
		i3 = (lim(len(s0) - (len(s0) & 179)) / 1)
		i0 = lim((i0 % 6) - arr[ix(i1, 4)])
		out("S0_b5" + " " + itoa(i0) + "," + itoa(i1) + "," + itoa(i2) + " " + rtq(s0))
		if b0 {
			panic("inner")
		}
	}()
	i2 = sl[ix(i2, len(sl))]
	out("S0_b4" + " " + itoa(i0) + "," + itoa(i1) + "," + itoa(i2) + " " + rtq(s0))
	s0 = "a"
	a4 = int64(lim(-i3)) * 4294967297
	a5 = uint64(a4) >> 4
	a0, a1, a2 = int8(a4), uint8(a5), int16(a4>>0)
	out("S0_b2" + " " + itoa(i0) + "," + itoa(i1) + "," + itoa(i2) + " " + rtq(s0))
	i0, i1, i2 = i2, i0, lim(i1+1)
	a2 += (a2 >> 9)
	out("S0_b0" + " " + itoa(i0) + "," + itoa(i1) + "," + itoa(i2) + " " + rtq(s0))
	return lim(i0 + i1*3 + i2*5 + i3*7 + int(a0) + int(a1) + len(s0) + len(sl) + p.a)
}

func S0_main() {
	i0, i1, i2, i3 := 4, 9, -4, 7
	var a0 int8 = -32
	var a1 uint8 = 181
	var a2 int16 = -3
	var a3 uint32 = 14975
	var a4 int64 = -151
	var a5 uint64 = 19
	s0, s1 := "go", "abcdef"
	b0, b1 := true, false
	f0 := 4.25
	sl := []int{4, 2, 3}
	arr := [4]int{1, 4, 3, 4}
	m := map[string]int{"k": 4, "a": 1}
	p := P{a: 4, b: "pb"}
	pp := &P{a: 1}
	fn := func(v int) int { return lim(v*3 + 1) }
	var sh Shape = pp
	_, _, _, _, _, _, _, _, _, _, _, _, _ = a2, a3, a4, a5, b1, f0, fn, sh, s1, b0, arr, m, pp
	{
		acc := 0
		for k, v := range m {
			acc += len(k)*7 + v
		}
		i2 = lim(acc)
	}
	{
		ch := make(chan int, 2)
		ch <- 5
		for k := 0; k < 4; k++ {
			select {
			case v := <-ch:
				i1 = lim(i1 + v)
				i1 = lim(i1 + 100)
			default:
				i2 = lim(i2 + 10)
			}
			i3 = lim(i3 + 1)
		}
	}
	out("S0_b3" + " " + itoa(i0) + "," + itoa(i1) + "," + itoa(i2) + " " + rtq(s0))
	i2 = lim(len(gmap(sl, func(v int) string { return itoa(v) })) + len(gmap([]string{s0}, func(v string) int { return len(v) })))
	i2 = S0_f0(int((a2 ^ int16(0))), len(sl))
	out("S0_b1" + " " + itoa(i0) + "," + itoa(i1) + "," + itoa(i2) + " " + rtq(s0))
	{
		cp := p
		cp.a = lim(cp.a + 7)
		cp.c[1] = i0
		arr2 := arr
		arr2[0] = cp.a
		i3 = lim(p.a + cp.a + arr[0] + arr2[0] + p.c[1])
	}
	out("S0_ints " + itoa(i0) + "," + itoa(i1) + "," + itoa(i2) + "," + itoa(i3) + " " + itoa(int(a0)) + "," + itoa(int(a1)) + "," + itoa(int(a2)) + "," + u64toa(uint64(a3)) + "," + i64toa(a4) + "," + u64toa(a5))
	out("S0_strs " + rtq(s0) + " " + rtq(s1) + " " + btoa(b0) + btoa(b1) + " " + f64s(f0))
	fnResult := fn(1)
	shArea := sh.Area(2)
	out("S0_data " + itoa(len(sl)) + ":" + itoa(vsum(sl...)) + " " + itoa(vsum(arr[:]...)) + " " + itoa(len(m)) + ":" + itoa(m["k"]) + " " + itoa(p.a) + rtq(p.b) + itoa(p.c[0]+p.c[1]) + " " + itoa(pp.a) + " " + itoa(fnResult) + " " + sh.name() + itoa(shArea))
	sl[len(sl)+ix(i0, 3)] = 1
}

type S0_dead0 struct{ z int }

func (d S0_dead0) Area(k int) int { return d.z * k }
func (d S0_dead0) name() string { return "dead" }
func (d *S0_dead0) bump(k int) { d.z += k }

func S0_unused0(x int) int { return lim(x + 0) }

var S0_deadvar0 = 0

