package main

func S9_f0(x, z int) int {
	i0, i1, i2, i3 := 14, 29, -14, 7
	var a0 int8 = -33
	var a1 uint8 = 0
	var a2 int16 = -1
	var a3 uint32 = 1
	var a4 int64 = -865822283
	var a5 uint64 = 1
	s0, s1 := "abcdef", "abcdef"
	b0, b1 := true, false
	f0 := 14.25
	sl := []int{14, 2, 3}
	arr := [4]int{1, 14, 3, 4}
	m := map[string]int{"k": 14, "a": 1}
	p := P{a: 14, b: "pb"}
	pp := &P{a: 1}
	fn := func(v int) int { return lim(v*3 + 1) }
	var sh Shape = &p
	_, _, _, _, _, _, _, _, _, _, _, _, _ = a2, a3, a4, a5, b1, f0, fn, sh, s1, b0, arr, m, pp
	i0, i1 = lim(x), lim(z)
	if x > 0 && x < 6 {
		i2 = S9_f0(x-1, z+1)
	}
	i3 = i0
	{
		pr := gpair[string, int]{s0, i0}
		var e interface{} = pr
		if _, ok := e.(gpair[string, int]); ok {
			i3 = lim(i3 + 1)
		}
		if _, ok := e.(gpair[int, string]); ok {
			i3 = -1
		}
	}
	out("S9_b3" + " " + itoa(i0) + "," + itoa(i1) + "," + itoa(i2) + " " + rtq(s0))
	b0 = b1
	i1 = lim(m[p.b] + i2)
	out("S9_b1" + " " + itoa(i0) + "," + itoa(i1) + "," + itoa(i2) + " " + rtq(s0))
	a4 = int64((i2 & 24)) * 4294967297
	a5 = uint64(a4) >> 6
	a0, a1, a2 = int8(a4), uint8(a5), int16(a4>>1)
	return lim(i0 + i1*3 + i2*5 + i3*7 + int(a0) + int(a1) + len(s0) + len(sl) + p.a)
}

func S9_f1(x, z int) int {
	i0, i1, i2, i3 := 40, 81, -40, 7
	var a0 int8 = 26
	var a1 uint8 = 240
	var a2 int16 = 1148
	var a3 uint32 = 6
	var a4 int64 = -4
	var a5 uint64 = 0
	s0, s1 := "abcdef", "go"
	b0, b1 := true, false
	f0 := 40.25
	sl := []int{40, 2, 3}
	arr := [4]int{1, 40, 3, 4}
	m := map[string]int{"k": 40, "a": 1}
	p := P{a: 40, b: "pb"}
	pp := &P{a: 1}
	fn := func(v int) int { return lim(v*3 + 1) }
	var sh Shape = pp
	_, _, _, _, _, _, _, _, _, _, _, _, _ = a2, a3, a4, a5, b1, f0, fn, sh, s1, b0, arr, m, pp
	i0, i1 = lim(x), lim(z)
	if x > 0 && x < 6 {
		i2 = S9_f1(x-1, z+1)
	}
	{
		gc := 0
	G1:
		gc++
		i3 = lim(i3 + gc)
		if gc < 3 {
			goto G1
		}
	}
	for k, v := range []interface{}{i0, s0, nil, f0, 7, "z", nil} {
		switch x := v.(type) {
		case int:
			if k%2 == 1 {
				break
			}
			i1 = lim(i1 + x)
		case string:
			i2 = lim(i2 + len(x))
		case nil:
			i2 = lim(i2 + 1000)
		default:
			i1 = lim(i1 - 3)
			_ = x
		}
		i3 = lim(i3 + k + 1)
	}
	out("S9_b4" + " " + itoa(i0) + "," + itoa(i1) + "," + itoa(i2) + " " + rtq(s0))
	i0, i1, i2 = i2, i0, lim(i1+1)
	i2 = S9_f0(arr[ix(i1, 4)], len(s0))
	out("S9_b2" + " " + itoa(i0) + "," + itoa(i1) + "," + itoa(i2) + " " + rtq(s0))
	m[cut("é" + p.b)] = m[s1]
	pp.a--
	i0, i1 = lim(i0), lim(i1)
	out("S9_b0" + " " + itoa(i0) + "," + itoa(i1) + "," + itoa(i2) + " " + rtq(s0))
	return lim(i0 + i1*3 + i2*5 + i3*7 + int(a0) + int(a1) + len(s0) + len(sl) + p.a)
}

func S9_f2(x, z int) int {
	i0, i1, i2, i3 := 4, 9, -4, 7
	var a0 int8 = 3
	var a1 uint8 = 1
	var a2 int16 = -3
	var a3 uint32 = 293
	var a4 int64 = -16682
	var a5 uint64 = 9
	s0, s1 := "abcdef", "go"
	b0, b1 := true, false
	f0 := 4.25
	sl := []int{4, 2, 3}
	arr := [4]int{1, 4, 3, 4}
	m := map[string]int{"k": 4, "a": 1}
	p := P{a: 4, b: "pb"}
	pp := &P{a: 1}
	fn := func(v int) int { return lim(v*3 + 1) }
	var sh Shape = pp
	_, _, _, _, _, _, _, _, _, _, _, _, _ = a2, a3, a4, a5, b1, f0, fn, sh, s1, b0, arr, m, pp
	i0, i1 = lim(x), lim(z)
	if x > 0 && x < 6 {
		i2 = S9_f2(x-1, z+1)
	}
	out("S9_t1" + " " + itoa(i0) + "," + itoa(i1) + "," + itoa(i2) + " " + rtq(s0))
	f0 = fclamp(f0*-0.75 + float64(i0)/6.0)
	out("S9_b0" + " " + itoa(i0) + "," + itoa(i1) + "," + itoa(i2) + " " + rtq(s0))
	return lim(i0 + i1*3 + i2*5 + i3*7 + int(a0) + int(a1) + len(s0) + len(sl) + p.a)
}

func S9_main() {
	i0, i1, i2, i3 := 11, 23, -11, 7
	var a0 int8 = 0
	var a1 uint8 = 196
	var a2 int16 = 3
	var a3 uint32 = 8594
	var a4 int64 = -94389
	var a5 uint64 = 10
	s0, s1 := "abcdef", "go"
	b0, b1 := false, false
	f0 := 11.25
	sl := []int{11, 2, 3}
	arr := [4]int{1, 11, 3, 4}
	m := map[string]int{"k": 11, "a": 1}
	p := P{a: 11, b: "pb"}
	pp := &P{a: 1}
	fn := func(v int) int { return lim(v*3 + 1) }
	var sh Shape = sq(3)
	_, _, _, _, _, _, _, _, _, _, _, _, _ = a2, a3, a4, a5, b1, f0, fn, sh, s1, b0, arr, m, pp
	i0, i1, i2 = i2, i0, lim(i1+1)
	i0 = lim(p.a + lim(arr[ix(len(s0), 4)] + p.a))
	out("S9_b38" + " " + itoa(i0) + "," + itoa(i1) + "," + itoa(i2) + " " + rtq(s0))
	{
		acc := 0
		for k, v := range m {
			acc += len(k)*7 + v
		}
		i2 = lim(acc)
	}
	a0 += a0
	out("S9_b36" + " " + itoa(i0) + "," + itoa(i1) + "," + itoa(i2) + " " + rtq(s0))
	a0 -= (int8(a0) << 2)
	{
		cp := p
		cp.a = lim(cp.a + 7)
		cp.c[1] = i0
		arr2 := arr
		arr2[0] = cp.a
		i3 = lim(p.a + cp.a + arr[0] + arr2[0] + p.c[1])
	}
	out("S9_b34" + " " + itoa(i0) + "," + itoa(i1) + "," + itoa(i2) + " " + rtq(s0))
	{
		cl := func(d int) int {
			if (true || true) {
				goto G2
			}
			i2 = lim(i2 + 5)
			G2:
			i2 = lim(i2 + 1)
			i0 = lim(i0 + d)
			return lim(i0 * 2)
		}
		i1 = cl(len(sl))
		fn = cl
	}
	switch {
	case !(true):
		i1 = i0
		i0 = int(((a0 ^ int8(36)) >> 1))
		out("S9_b29" + " " + itoa(i0) + "," + itoa(i1) + "," + itoa(i2) + " " + rtq(s0))
	}
	out("S9_b29" + " " + itoa(i0) + "," + itoa(i1) + "," + itoa(i2) + " " + rtq(s0))
	i2 = lim(len(s0) - arr[ix(len(s0), 4)])
	i1 = p.a
	out("S9_b27" + " " + itoa(i0) + "," + itoa(i1) + "," + itoa(i2) + " " + rtq(s0))
	i1 = (m[p.b] ^ 0)
	{
		gc := 0
	G3:
		gc++
		i3 = lim(i3 + gc)
		if gc < 2 {
			goto G3
		}
	}
	out("S9_b25" + " " + itoa(i0) + "," + itoa(i1) + "," + itoa(i2) + " " + rtq(s0))
	a4 *= a4
	i2 = ((p.a ^ 1) / 1)
	out("S9_b23" + " " + itoa(i0) + "," + itoa(i1) + "," + itoa(i2) + " " + rtq(s0))
	i0 = ((lim(i0 + i0) % 6) % 2)
	i1 = lim(lim(i3 * arr[2]) * len(sl))
	out("S9_b21" + " " + itoa(i0) + "," + itoa(i1) + "," + itoa(i2) + " " + rtq(s0))
	delete(m, s1)
	a1++
	i0, i1 = lim(i0), lim(i1)
	out("S9_b19" + " " + itoa(i0) + "," + itoa(i1) + "," + itoa(i2) + " " + rtq(s0))
	i1 = (lim(int((a2 ^ int16(7))) * i1) & 4)
	{
		cl := func(d int) int {
			i3 = int((a0 >> 4))
			if sub(cut(p.b + s0), (-4 ^ 2)) == sub(string(rune('a' + ix(i1, 26))), arr[ix(i1, 4)]) {
				b1 = ((b0 || b1) || b1)
			}
			out("S9_b14" + " " + itoa(i0) + "," + itoa(i1) + "," + itoa(i2) + " " + rtq(s0))
			i0 = lim(i0 + d)
			return lim(i0 * 2)
		}
		i1 = cl(len(s0))
		fn = cl
	}
	out("S9_b14" + " " + itoa(i0) + "," + itoa(i1) + "," + itoa(i2) + " " + rtq(s0))
	{
		acc := 0
		for k, v := range m {
			acc += len(k)*7 + v
		}
		i2 = lim(acc)
	}
	i1++
	i0, i1 = lim(i0), lim(i1)
	out("S9_b12" + " " + itoa(i0) + "," + itoa(i1) + "," + itoa(i2) + " " + rtq(s0))
	i0 = i3
	i1 = lim((arr[1] & 219) - i2)
	out("S9_b10" + " " + itoa(i0) + "," + itoa(i1) + "," + itoa(i2) + " " + rtq(s0))
	i3 = lim(p.a - sl[ix(lim(arr[0] + i0), len(sl))])
	{
		acc := 0
		for k, v := range m {
			acc += len(k)*7 + v
		}
		i2 = lim(acc)
	}
	out("S9_b8" + " " + itoa(i0) + "," + itoa(i1) + "," + itoa(i2) + " " + rtq(s0))
	{
		gc := 0
	G4:
		gc++
		i3 = lim(i3 + gc)
		if gc < 2 {
			goto G4
		}
	}
	a2 ^= a2
	out("S9_b6" + " " + itoa(i0) + "," + itoa(i1) + "," + itoa(i2) + " " + rtq(s0))
	b1 = (arr[0] / 3) <= i1
	p.b = itoa(p.a)
	out("S9_b4" + " " + itoa(i0) + "," + itoa(i1) + "," + itoa(i2) + " " + rtq(s0))
	{
		acc := 0
		for k, v := range m {
			acc += len(k)*7 + v
		}
		i2 = lim(acc)
	}
	i3 = int(s0[ix(i0, len(s0))])
	out("S9_b2" + " " + itoa(i0) + "," + itoa(i1) + "," + itoa(i2) + " " + rtq(s0))
	for k, v := range []interface{}{i0, s0, nil, f0, 7, "z", nil} {
		switch x := v.(type) {
		case int:
			if k%2 == 1 {
				break
			}
			i1 = lim(i1 + x)
		case string:
			i2 = lim(i2 + len(x))
		case nil:
			i2 = lim(i2 + 1000)
		default:
			i1 = lim(i1 - 3)
			_ = x
		}
		i3 = lim(i3 + k + 1)
	}
	if len(s0) > (7 % 8) {
	} else if (len(sl) == len(s0) || b1) {
	} else {
	}
	out("S9_b0" + " " + itoa(i0) + "," + itoa(i1) + "," + itoa(i2) + " " + rtq(s0))
	out("S9_ints " + itoa(i0) + "," + itoa(i1) + "," + itoa(i2) + "," + itoa(i3) + " " + itoa(int(a0)) + "," + itoa(int(a1)) + "," + itoa(int(a2)) + "," + u64toa(uint64(a3)) + "," + i64toa(a4) + "," + u64toa(a5))
	out("S9_strs " + rtq(s0) + " " + rtq(s1) + " " + btoa(b0) + btoa(b1) + " " + f64s(f0))
	fnResult := fn(1)
	shArea := sh.Area(2)
	out("S9_data " + itoa(len(sl)) + ":" + itoa(vsum(sl...)) + " " + itoa(vsum(arr[:]...)) + " " + itoa(len(m)) + ":" + itoa(m["k"]) + " " + itoa(p.a) + rtq(p.b) + itoa(p.c[0]+p.c[1]) + " " + itoa(pp.a) + " " + itoa(fnResult) + " " + sh.name() + itoa(shArea))
}

type S9_dead0 struct{ z int }

func (d S9_dead0) Area(k int) int { return d.z * k }
func (d S9_dead0) name() string { return "dead" }
func (d *S9_dead0) bump(k int) { d.z += k }

func S9_unused0(x int) int { return lim(x + 0) }

var S9_deadvar0 = 0

