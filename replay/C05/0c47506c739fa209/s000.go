package main

func S3_f0(x, z int) int {
	i0, i1, i2, i3 := 15, 31, -15, 7
	var a0 int8 = -97
	var a1 uint8 = 45
	var a2 int16 = -1
	var a3 uint32 = 20
	var a4 int64 = -44
	var a5 uint64 = 14
	s0, s1 := "", ""
	b0, b1 := false, false
	f0 := 15.25
	sl := []int{15, 2, 3}
	arr := [4]int{1, 15, 3, 4}
	m := map[string]int{"k": 15, "a": 1}
	p := P{a: 15, b: "pb"}
	pp := &P{a: 1}
	fn := func(v int) int { return lim(v*3 + 1) }
	var sh Shape = sq(3)
	_, _, _, _, _, _, _, _, _, _, _, _, _ = a2, a3, a4, a5, b1, f0, fn, sh, s1, b0, arr, m, pp
	i0, i1 = lim(x), lim(z)
	if x > 0 && x < 6 {
		i2 = S3_f0(x-1, z+1)
	}
	p.b = p.b
	i0 = len(sl)
	out("S3_b5" + " " + itoa(i0) + "," + itoa(i1) + "," + itoa(i2) + " " + rtq(s0))
	p.c[ix(i3, 2)] = (int(s0[ix(i3, len(s0))]) ^ 12)
	i2 = vsum(i0, i1)
	i2 = lim(i2 + vsum(sl...) + vsum())
	out("S3_b3" + " " + itoa(i0) + "," + itoa(i1) + "," + itoa(i2) + " " + rtq(s0))
	i3 = i3
	a4 = int64((97 & 4)) * 4294967297
	a5 = uint64(a4) >> 28
	a0, a1, a2 = int8(a4), uint8(a5), int16(a4>>13)
	out("S3_b1" + " " + itoa(i0) + "," + itoa(i1) + "," + itoa(i2) + " " + rtq(s0))
	switch lim(m[itoa(p.a)] * -1) % 5 {
	case 3:
	case 1:
	default:
	}
	return lim(i0 + i1*3 + i2*5 + i3*7 + int(a0) + int(a1) + len(s0) + len(sl) + p.a)
}

func S3_main() {
	i0, i1, i2, i3 := 2, 5, -2, 7
	var a0 int8 = -1
	var a1 uint8 = 0
	var a2 int16 = 7
	var a3 uint32 = 9760
	var a4 int64 = 0
	var a5 uint64 = 0
	s0, s1 := "abcdef", "go"
	b0, b1 := true, false
	f0 := 2.25
	sl := []int{2, 2, 3}
	arr := [4]int{1, 2, 3, 4}
	m := map[string]int{"k": 2, "a": 1}
	p := P{a: 2, b: "pb"}
	pp := &P{a: 1}
	fn := func(v int) int { return lim(v*3 + 1) }
	var sh Shape = sq(3)
	_, _, _, _, _, _, _, _, _, _, _, _, _ = a2, a3, a4, a5, b1, f0, fn, sh, s1, b0, arr, m, pp
	{
		i0 := lim(i0 + 2)
		s0 := s0 + "~"
		i0, i1, i2 = i2, i0, lim(i1+1)
		out("S3_t37" + " " + itoa(i0) + "," + itoa(i1) + "," + itoa(i2) + " " + rtq(s0))
		out("S3_b37" + " " + itoa(i0) + "," + itoa(i1) + "," + itoa(i2) + " " + rtq(s0))
		i3 = lim(i3 + i0 + len(s0))
	}
	s0 = s0
	out("S3_b36" + " " + itoa(i0) + "," + itoa(i1) + "," + itoa(i2) + " " + rtq(s0))
	i0 = arr[ix(i3, 4)]
	switch {
	case (i0 > i0 || len(sl) >= i0):
		i2 = lim(-lim(-lim(-i2)))
		i0 = fn((arr[0] % 2))
		out("S3_b32" + " " + itoa(i0) + "," + itoa(i1) + "," + itoa(i2) + " " + rtq(s0))
	case p.a < arr[2]:
		for k, v := range []interface{}{i0, s0, nil, f0, 7, "z", nil} {
			switch v.(type) {
			case int:
				i1 = lim(i1 + 1)
			case string:
				i2 = lim(i2 + 1)
			case nil:
				if k%2 == 1 {
					break
				}
				i2 = lim(i2 + 1000)
			default:
				i1 = lim(i1 - 3)
			}
			i3 = lim(i3 + k + 1)
		}
	case cut(p.b + itoa(71)) == itoa(0):
		out("S3_t30" + " " + itoa(i0) + "," + itoa(i1) + "," + itoa(i2) + " " + rtq(s0))
	}
	out("S3_b30" + " " + itoa(i0) + "," + itoa(i1) + "," + itoa(i2) + " " + rtq(s0))
	{
		i0 := lim(i0 + 7)
		s0 := s0 + "~"
		if i2 < len(sl) {
			{
				acc := 0
				for k, v := range m {
					acc += len(k)*7 + v
				}
				i2 = lim(acc)
			}
			s1 = "xyz"
			out("S3_b26" + " " + itoa(i0) + "," + itoa(i1) + "," + itoa(i2) + " " + rtq(s0))
		} else if b0 {
			i1 = (p.a & 245)
		} else {
			i0, i1, i2 = i2, i0, lim(i1+1)
		}
		if b0 {
			i0, i1, i2 = i2, i0, lim(i1+1)
			switch {
			case (i1 ^ 1) <= len(sl):
				b0 = false
			case sl[ix(i3, len(sl))] >= lim(arr[2] - len(sl)):
				i0 = (len(sl) & 108)
			case false:
				out("S3_t18" + " " + itoa(i0) + "," + itoa(i1) + "," + itoa(i2) + " " + rtq(s0))
				i1 = lim(m[cut(itoa(len(s0)) + s0)] - -16)
				out("S3_b17" + " " + itoa(i0) + "," + itoa(i1) + "," + itoa(i2) + " " + rtq(s0))
			}
			out("S3_b17" + " " + itoa(i0) + "," + itoa(i1) + "," + itoa(i2) + " " + rtq(s0))
		}
		out("S3_b17" + " " + itoa(i0) + "," + itoa(i1) + "," + itoa(i2) + " " + rtq(s0))
		i3 = lim(i3 + i0 + len(s0))
	}
	i1 = (i0 ^ 25)
	out("S3_b16" + " " + itoa(i0) + "," + itoa(i1) + "," + itoa(i2) + " " + rtq(s0))
	getp(&p).c[nx(2)]--
	out("S3_calls " + itoa(cn))
	i2 = vsum(lim(i3 - i1), (i2 & 40))
	i2 = lim(i2 + vsum(sl...) + vsum())
	out("S3_b14" + " " + itoa(i0) + "," + itoa(i1) + "," + itoa(i2) + " " + rtq(s0))
	i2 = -2
	for k, v := range []interface{}{i0, s0, nil, f0, 7, "z", nil} {
		switch x := v.(type) {
		case int:
			if k%2 == 1 {
				break
			}
			i1 = lim(i1 + x)
		case string:
			i2 = lim(i2 + len(x))
		case nil:
			if k%2 == 1 {
				break
			}
			i2 = lim(i2 + 1000)
		default:
			if k%2 == 0 {
				break
			}
			i1 = lim(i1 - 3)
			_ = x
		}
		i3 = lim(i3 + k + 1)
	}
	out("S3_b12" + " " + itoa(i0) + "," + itoa(i1) + "," + itoa(i2) + " " + rtq(s0))
	i0 = ((i1 ^ 49) / 8)
	{
		acc := 0
		for k, v := range m {
			acc += len(k)*7 + v
		}
		i2 = lim(acc)
	}
	out("S3_b10" + " " + itoa(i0) + "," + itoa(i1) + "," + itoa(i2) + " " + rtq(s0))
	for k, v := range []interface{}{i0, s0, nil, f0, 7, "z", nil} {
		switch v.(type) {
		case int:
			if k%2 == 1 {
				break
			}
			i1 = lim(i1 + 1)
		case string:
			i2 = lim(i2 + 1)
		case nil:
			i2 = lim(i2 + 1000)
		default:
			i1 = lim(i1 - 3)
		}
		i3 = lim(i3 + k + 1)
	}
	i1 = p.sum(m[s1])
	out("S3_b8" + " " + itoa(i0) + "," + itoa(i1) + "," + itoa(i2) + " " + rtq(s0))
	sl[ix(i2, len(sl))] = int(((a0 ^ int8(3)) << 0))
	sl[ix(lim(i1 * (arr[1] % 6)), len(sl))] = len(s0)
	out("S3_b6" + " " + itoa(i0) + "," + itoa(i1) + "," + itoa(i2) + " " + rtq(s0))
	{
		cl := func(d int) int {
			func() {
				defer func() {
					i1 = lim(i1 + 3)
					if r := recover(); r != nil {
						s1 = cut(s1 + "R")
					}
				}()
				for k, v := range []interface{}{i0, s0, nil, f0, 7, "z", nil} {
					switch v.(type) {
					case int:
						i1 = lim(i1 + 1)
					case string:
						i2 = lim(i2 + 1)
					case nil:
						i2 = lim(i2 + 1000)
					default:
						if k%2 == 1 {
							break
						}
						i1 = lim(i1 - 3)
					}
					i3 = lim(i3 + k + 1)
				}
				if len(sl) > 0 {
					sl[nx(len(sl))] += 3
					sl[0] = lim(sl[0])
				}
				out("S3_calls " + itoa(cn))
				out("S3_b2" + " " + itoa(i0) + "," + itoa(i1) + "," + itoa(i2) + " " + rtq(s0))
			}()
			{
				ch := make(chan int, 2)
				ch <- 5
				for k := 0; k < 4; k++ {
					select {
					case v := <-ch:
						i1 = lim(i1 + v)
						i1 = lim(i1 + 100)
					default:
						i2 = lim(i2 + 10)
					}
					i3 = lim(i3 + 1)
				}
			}
			out("S3_b1" + " " + itoa(i0) + "," + itoa(i1) + "," + itoa(i2) + " " + rtq(s0))
			i0 = lim(i0 + d)
			return lim(i0 * 2)
		}
		i1 = cl(-1)
		fn = cl
	}
	a3 += (((a3 ^ uint32(44)) << 1) * a3)
	out("S3_b0" + " " + itoa(i0) + "," + itoa(i1) + "," + itoa(i2) + " " + rtq(s0))
	out("S3_ints " + itoa(i0) + "," + itoa(i1) + "," + itoa(i2) + "," + itoa(i3) + " " + itoa(int(a0)) + "," + itoa(int(a1)) + "," + itoa(int(a2)) + "," + u64toa(uint64(a3)) + "," + i64toa(a4) + "," + u64toa(a5))
	out("S3_strs " + rtq(s0) + " " + rtq(s1) + " " + btoa(b0) + btoa(b1) + " " + f64s(f0))
	fnResult := fn(1)
	shArea := sh.Area(2)
	out("S3_data " + itoa(len(sl)) + ":" + itoa(vsum(sl...)) + " " + itoa(vsum(arr[:]...)) + " " + itoa(len(m)) + ":" + itoa(m["k"]) + " " + itoa(p.a) + rtq(p.b) + itoa(p.c[0]+p.c[1]) + " " + itoa(pp.a) + " " + itoa(fnResult) + " " + sh.name() + itoa(shArea))
	panic(scenarioErr{i0})
}

type S3_dead0 struct{ z int }

func (d S3_dead0) Area(k int) int { return d.z * k }
func (d S3_dead0) name() string { return "dead" }
func (d *S3_dead0) bump(k int) { d.z += k }

func S3_unused0(x int) int { return lim(x + 0) }

var S3_deadvar0 = 0

type S3_dead1 struct{ z int }

func (d S3_dead1) Area(k int) int { return d.z * k }
func (d S3_dead1) name() string { return "dead" }
func (d *S3_dead1) bump(k int) { d.z += k }

func S3_unused1(x int) int { return lim(x + 1) }

var S3_deadvar1 = 1

type S3_dead2 struct{ z int }

func (d S3_dead2) Area(k int) int { return d.z * k }
func (d S3_dead2) name() string { return "dead" }
func (d *S3_dead2) bump(k int) { d.z += k }

func S3_unused2(x int) int { return lim(x + 2) }

var S3_deadvar2 = 2

