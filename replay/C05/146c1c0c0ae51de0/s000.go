package main

func S1_main() {
	i0, i1, i2, i3 := 31, 63, -31, 7
	var a0 int8 = 59
	var a1 uint8 = 20
	var a2 int16 = -2
	var a3 uint32 = 1073741824
	var a4 int64 = -1222
	var a5 uint64 = 898
	s0, s1 := "go", "go"
	b0, b1 := false, false
	f0 := 31.25
	sl := []int{31, 2, 3}
	arr := [4]int{1, 31, 3, 4}
	m := map[string]int{"k": 31, "a": 1}
	p := P{a: 31, b: "pb"}
	pp := &P{a: 1}
	fn := func(v int) int { return lim(v*3 + 1) }
	var sh Shape = &p
	_, _, _, _, _, _, _, _, _, _, _, _, _ = a2, a3, a4, a5, b1, f0, fn, sh, s1, b0, arr, m, pp
	b1 = (((b0 || b1) && i1 != len(sl)) && (b1 && b0))
	b0 = b1
	out("S1_b9" + " " + itoa(i0) + "," + itoa(i1) + "," + itoa(i2) + " " + rtq(s0))
	if (!((true || b1)) && (arr[0] ^ 9) > lim(p.a - i2)) {
		i0 = (i0 & 100)
		sl[ix(int(int16(i3)), len(sl))] = sl[ix(sl[ix(i2, len(sl))], len(sl))]
		out("S1_b6" + " " + itoa(i0) + "," + itoa(i1) + "," + itoa(i2) + " " + rtq(s0))
	} else if (s1 < p.b && b0) {
		func() {
			defer func() {
				i1 = lim(i1 + 3)
				if r := recover(); r != nil {
					s1 = cut(s1 + "R")
				}
			}()
			a0--
			i0, i1 = lim(i0), lim(i1)
			a0++
			i0, i1 = lim(i0), lim(i1)
			out("S1_b3" + " " + itoa(i0) + "," + itoa(i1) + "," + itoa(i2) + " " + rtq(s0))
			if (b0 && arr[1] >= i3) {
				panic("inner")
			}
		}()
	} else if (b0 && (b0 || false)) {
		i0 = len(s0)
		i3 = i1
		out("S1_b1" + " " + itoa(i0) + "," + itoa(i1) + "," + itoa(i2) + " " + rtq(s0))
	} else {
		a3 += (a3 ^ uint32(71))
	}
	out("S1_ints " + itoa(i0) + "," + itoa(i1) + "," + itoa(i2) + "," + itoa(i3) + " " + itoa(int(a0)) + "," + itoa(int(a1)) + "," + itoa(int(a2)) + "," + u64toa(uint64(a3)) + "," + i64toa(a4) + "," + u64toa(a5))
	out("S1_strs " + rtq(s0) + " " + rtq(s1) + " " + btoa(b0) + btoa(b1) + " " + f64s(f0))
	fnResult := fn(1)
	shArea := sh.Area(2)
	out("S1_data " + itoa(len(sl)) + ":" + itoa(vsum(sl...)) + " " + itoa(vsum(arr[:]...)) + " " + itoa(len(m)) + ":" + itoa(m["k"]) + " " + itoa(p.a) + rtq(p.b) + itoa(p.c[0]+p.c[1]) + " " + itoa(pp.a) + " " + itoa(fnResult) + " " + sh.name() + itoa(shArea))
	<-make(chan int)
}

type S1_dead0 struct{ z int }

func (d S1_dead0) Area(k int) int { return d.z * k }
func (d S1_dead0) name() string { return "dead" }
func (d *S1_dead0) bump(k int) { d.z += k }

func S1_unused0(x int) int { return lim(x + 0) }

var S1_deadvar0 = 0

type S1_dead1 struct{ z int }

func (d S1_dead1) Area(k int) int { return d.z * k }
func (d S1_dead1) name() string { return "dead" }
func (d *S1_dead1) bump(k int) { d.z += k }

func S1_unused1(x int) int { return lim(x + 1) }

var S1_deadvar1 = 1

