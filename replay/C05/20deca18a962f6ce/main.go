package main

// rtq is rt.go's q under a name that generated locals never shadow.
func rtq(s string) string { return q(s) }

// lim keeps int values far inside 32 bits (the generator's soundness rule for int).
func lim(x int) int {
	x %= 100003
	return x
}

// ix reduces an index modulo a positive length.
func ix(i, n int) int {
	if n <= 0 {
		return 0
	}
	return ((i % n) + n) % n
}

func cut(s string) string {
	if len(s) > 24 {
		return s[len(s)-24:]
	}
	return s
}

func sub(s string, n int) string {
	if n < 0 {
		n = -n
	}
	if n > len(s) {
		n = len(s)
	}
	return s[:n]
}

// counted operand helpers: cn tells how often an operand of an assignment target was evaluated.
var cn int

func nx(n int) int {
	cn++
	if n <= 0 {
		return 0
	}
	return cn % n
}

func kx() string {
	cn++
	if cn%2 == 0 {
		return "k"
	}
	return "a"
}

func getp(q *P) *P {
	cn++
	return q
}

func getpi(q *int) *int {
	cn++
	return q
}

func fclamp(f float64) float64 {
	if f != f || f > 1e9 || f < -1e9 {
		return 1.5
	}
	return f
}

func vsum(xs ...int) int {
	t := len(xs)
	for _, x := range xs {
		t = lim(t + x)
	}
	return t
}

type P struct {
	a int
	b string
	c [2]int
}

func (p P) sum(k int) int { p.a += k; return lim(p.a + p.c[0] + p.c[1] + len(p.b)) }
func (p *P) bump(k int)   { p.a = lim(p.a + k); p.c[1]++ }
func (p *P) Area(k int) int { return lim(p.a * k) }
func (p *P) name() string { return "P" }

type sq int

func (s sq) Area(k int) int { return lim(int(s) * int(s) + k) }
func (s sq) name() string   { return "sq" }

type Shape interface {
	Area(int) int
	name() string
}


type ordered interface {
	~int | ~int8 | ~int64 | ~float64 | ~string
}

func gmax[T ordered](a, b T) T {
	if a > b {
		return a
	}
	return b
}

type number interface {
	~int | ~int8 | ~int32 | ~float64
}

func gsum[T number](xs []T) T {
	var s T
	for _, x := range xs {
		s += x
	}
	return s
}

type gstack[T any] struct{ items []T }

func (s *gstack[T]) push(v T) { gyield(205); s.items = append(s.items, v) }
func (s *gstack[T]) pop() T {
	v := s.items[len(s.items)-1]
	s.items = s.items[:len(s.items)-1]
	return v
}
func (s *gstack[T]) len() int { return len(s.items) }

func gmap[T, U any](xs []T, f func(T) U) []U {
	gyield(206)
	var out []U
	for _, x := range xs {
		out = append(out, f(x))
	}
	return out
}

type gpair[K comparable, V any] struct {
	k K
	v V
}

func gyield(id int) {}

type scenarioErr struct{ code int }

func (e scenarioErr) Error() string { return "scenario error " + itoa(e.code) }

func main() {
	switch argv(0) {
	case "0":
		S7_main()
	}
}
