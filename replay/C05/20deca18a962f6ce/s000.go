package main

func S7_f0(x, z int) int {
	i0, i1, i2, i3 := 19, 39, -19, 7
	var a0 int8 = 4
	var a1 uint8 = 211
	var a2 int16 = -321
	var a3 uint32 = 17
	var a4 int64 = 20
	var a5 uint64 = 56
	s0, s1 := "héllo", "abcdef"
	b0, b1 := false, false
	f0 := 19.25
	sl := []int{19, 2, 3}
	arr := [4]int{1, 19, 3, 4}
	m := map[string]int{"k": 19, "a": 1}
	p := P{a: 19, b: "pb"}
	pp := &P{a: 1}
	fn := func(v int) int { return lim(v*3 + 1) }
	var sh Shape = sq(3)
	_, _, _, _, _, _, _, _, _, _, _, _, _ = a2, a3, a4, a5, b1, f0, fn, sh, s1, b0, arr, m, pp
	i0, i1 = lim(x), lim(z)
	if x > 0 && x < 6 {
		i2 = S7_f0(x-1, z+1)
	}
	switch {
	case arr[0] > i0:
		func() {
			defer func() {
				i1 = lim(i1 + 3)
				if r := recover(); r != nil {
					s1 = cut(s1 + "R")
				}
			}()
			if false {
				panic("inner")
			}
		}()
	case b0:
	case (itoa(len(s0)) < itoa(-14) || true):
	}
	return lim(i0 + i1*3 + i2*5 + i3*7 + int(a0) + int(a1) + len(s0) + len(sl) + p.a)
}

func S7_main() {
	i0, i1, i2, i3 := 3, 7, -3, 7
	var a0 int8 = 2
	var a1 uint8 = 32
	var a2 int16 = 2
	var a3 uint32 = 1671201
	var a4 int64 = -1073741824
	var a5 uint64 = 1073741824
	s0, s1 := "go", "go"
	b0, b1 := false, false
	f0 := 3.25
	sl := []int{3, 2, 3}
	arr := [4]int{1, 3, 3, 4}
	m := map[string]int{"k": 3, "a": 1}
	p := P{a: 3, b: "pb"}
	pp := &P{a: 1}
	fn := func(v int) int { return lim(v*3 + 1) }
	var sh Shape = sq(3)
	_, _, _, _, _, _, _, _, _, _, _, _, _ = a2, a3, a4, a5, b1, f0, fn, sh, s1, b0, arr, m, pp
	pp.a++
	i0, i1 = lim(i0), lim(i1)
	{
		cp := p
		cp.a = lim(cp.a + 7)
		cp.c[1] = i0
		arr2 := arr
		arr2[0] = cp.a
		i3 = lim(p.a + cp.a + arr[0] + arr2[0] + p.c[1])
	}
	out("S7_b37" + " " + itoa(i0) + "," + itoa(i1) + "," + itoa(i2) + " " + rtq(s0))
	i1 = i1
	i0, i1, i2 = i2, i0, lim(i1+1)
	out("S7_b35" + " " + itoa(i0) + "," + itoa(i1) + "," + itoa(i2) + " " + rtq(s0))
	{
		mv := p.sum
		p.a = lim(p.a + 1)
		i1 = mv(2)
	}
	{
		cp := p
		cp.a = lim(cp.a + 7)
		cp.c[1] = i0
		arr2 := arr
		arr2[0] = cp.a
		i3 = lim(p.a + cp.a + arr[0] + arr2[0] + p.c[1])
	}
	out("S7_b33" + " " + itoa(i0) + "," + itoa(i1) + "," + itoa(i2) + " " + rtq(s0))
	{
		ch := make(chan int, 2)
		ch <- 5
		for k := 0; k < 4; k++ {
			select {
			case v := <-ch:
				i1 = lim(i1 + v)
				i1 = lim(i1 + 100)
			default:
				if k%2 == 0 {
						break
				}
				i2 = lim(i2 + 10)
			}
			i3 = lim(i3 + 1)
		}
	}
	for k, v := range []interface{}{i0, s0, nil, f0, 7, "z", nil} {
		switch v.(type) {
		case int:
			i1 = lim(i1 + 1)
		case string:
			i2 = lim(i2 + 1)
		case nil:
			i2 = lim(i2 + 1000)
		default:
			if k%2 == 0 {
				break
			}
			i1 = lim(i1 - 3)
		}
		i3 = lim(i3 + k + 1)
	}
	out("S7_b31" + " " + itoa(i0) + "," + itoa(i1) + "," + itoa(i2) + " " + rtq(s0))
	a5 -= uint64(a3)
	i0 = lim(lim(lim(-len(s0)) + (i3 & 16)) * ((i1 % 1) & 2))
	out("S7_b29" + " " + itoa(i0) + "," + itoa(i1) + "," + itoa(i2) + " " + rtq(s0))
	arr[nx(4)]++
	out("S7_calls " + itoa(cn))
	i0 = lim(gmax(i0, (len(s0) ^ 23)))
	s0 = gmax(s0, p.b)
	out("S7_b27" + " " + itoa(i0) + "," + itoa(i1) + "," + itoa(i2) + " " + rtq(s0))
	i3 = (i3 % 1)
	{
		ch := make(chan int, 2)
		ch <- 5
		for k := 0; k < 4; k++ {
			select {
			case v := <-ch:
				i1 = lim(i1 + v)
				if k%2 == 0 {
						break
				}
				i1 = lim(i1 + 100)
			default:
				if k%2 == 0 {
						break
				}
				i2 = lim(i2 + 10)
			}
			i3 = lim(i3 + 1)
		}
	}
	out("S7_b25" + " " + itoa(i0) + "," + itoa(i1) + "," + itoa(i2) + " " + rtq(s0))
	i2 = arr[ix(3, 4)]
	i0 = fn(lim(arr[0] * 98))
	out("S7_b23" + " " + itoa(i0) + "," + itoa(i1) + "," + itoa(i2) + " " + rtq(s0))
	out("S7_t22" + " " + itoa(i0) + "," + itoa(i1) + "," + itoa(i2) + " " + rtq(s0))
	m["k"]++
	i0, i1 = lim(i0), lim(i1)
	out("S7_b21" + " " + itoa(i0) + "," + itoa(i1) + "," + itoa(i2) + " " + rtq(s0))
	b0 = !(false)
	i0 = arr[ix((int(s0[ix(i2, len(s0))]) / 1), 4)]
	out("S7_b19" + " " + itoa(i0) + "," + itoa(i1) + "," + itoa(i2) + " " + rtq(s0))
	i2 = vsum(i0, (len(sl) / 4))
	i2 = lim(i2 + vsum(sl...) + vsum())
	if v := lim(-lim(i0 + i1)); v > -2 {
		a1 += a1
		a4 = int64(p.a) * 4294967297
		a5 = uint64(a4) >> 0
		a0, a1, a2 = int8(a4), uint8(a5), int16(a4>>12)
		out("S7_b15" + " " + itoa(i0) + "," + itoa(i1) + "," + itoa(i2) + " " + rtq(s0))
	} else if ((a1 | (a1 ^ uint8(3))) < (a1 ^ uint8(1))) {
		a0++
		i0, i1 = lim(i0), lim(i1)
	}
	out("S7_b14" + " " + itoa(i0) + "," + itoa(i1) + "," + itoa(i2) + " " + rtq(s0))
	a4 |= ((a4 ^ int64(101)) << 3)
	i3 = i3
	out("S7_b12" + " " + itoa(i0) + "," + itoa(i1) + "," + itoa(i2) + " " + rtq(s0))
	if arr[0] >= len(sl) {
		goto G1
	}
	i2 = lim(i2 + 5)
	G1:
	i2 = lim(i2 + 1)
	a3 -= a3
	out("S7_b10" + " " + itoa(i0) + "," + itoa(i1) + "," + itoa(i2) + " " + rtq(s0))
	{
		acc := 0
		for k, v := range m {
			acc += len(k)*7 + v
		}
		i2 = lim(acc)
	}
	i0 = fn(sl[ix(i3, len(sl))])
	out("S7_b8" + " " + itoa(i0) + "," + itoa(i1) + "," + itoa(i2) + " " + rtq(s0))
	s0 = s1
	i0, i1, i2 = i2, i0, lim(i1+1)
	out("S7_b6" + " " + itoa(i0) + "," + itoa(i1) + "," + itoa(i2) + " " + rtq(s0))
	out("S7_t5" + " " + itoa(i0) + "," + itoa(i1) + "," + itoa(i2) + " " + rtq(s0))
	a1 &= (a1 ^ uint8(44))
	out("S7_b4" + " " + itoa(i0) + "," + itoa(i1) + "," + itoa(i2) + " " + rtq(s0))
	{
		acc := 0
		for k, v := range m {
			acc += len(k)*7 + v
		}
		i2 = lim(acc)
	}
	a0 &= a0
	out("S7_b2" + " " + itoa(i0) + "," + itoa(i1) + "," + itoa(i2) + " " + rtq(s0))
	delete(m, cut(s1 + itoa(arr[1])))
	{
		st := gstack[int]{}
		st.push(i0)
		st.push(lim(-15 + i2))
		i1 = lim(st.pop() + st.len())
	}
	out("S7_b0" + " " + itoa(i0) + "," + itoa(i1) + "," + itoa(i2) + " " + rtq(s0))
	out("S7_ints " + itoa(i0) + "," + itoa(i1) + "," + itoa(i2) + "," + itoa(i3) + " " + itoa(int(a0)) + "," + itoa(int(a1)) + "," + itoa(int(a2)) + "," + u64toa(uint64(a3)) + "," + i64toa(a4) + "," + u64toa(a5))
	out("S7_strs " + rtq(s0) + " " + rtq(s1) + " " + btoa(b0) + btoa(b1) + " " + f64s(f0))
	fnResult := fn(1)
	shArea := sh.Area(2)
	out("S7_data " + itoa(len(sl)) + ":" + itoa(vsum(sl...)) + " " + itoa(vsum(arr[:]...)) + " " + itoa(len(m)) + ":" + itoa(m["k"]) + " " + itoa(p.a) + rtq(p.b) + itoa(p.c[0]+p.c[1]) + " " + itoa(pp.a) + " " + itoa(fnResult) + " " + sh.name() + itoa(shArea))
}

type S7_dead0 struct{ z int }

func (d S7_dead0) Area(k int) int { return d.z * k }
func (d S7_dead0) name() string { return "dead" }
func (d *S7_dead0) bump(k int) { d.z += k }

func S7_unused0(x int) int { return lim(x + 0) }

var S7_deadvar0 = 0

type S7_dead1 struct{ z int }

func (d S7_dead1) Area(k int) int { return d.z * k }
func (d S7_dead1) name() string { return "dead" }
func (d *S7_dead1) bump(k int) { d.z += k }

func S7_unused1(x int) int { return lim(x + 1) }

var S7_deadvar1 = 1

