package main

func S4_f0(x, z int) int {
	i0, i1, i2, i3 := 31, 63, -31, 7
	var a0 int8 = -65
	var a1 uint8 = 222
	var a2 int16 = -2
	var a3 uint32 = 377
	var a4 int64 = -6
	var a5 uint64 = 765116661
	s0, s1 := "héllo", "héllo"
	b0, b1 := false, false
	f0 := 31.25
	sl := []int{31, 2, 3}
	arr := [4]int{1, 31, 3, 4}
	m := map[string]int{"k": 31, "a": 1}
	p := P{a: 31, b: "pb"}
	pp := &P{a: 1}
	fn := func(v int) int { return lim(v*3 + 1) }
	var sh Shape = &p
	_, _, _, _, _, _, _, _, _, _, _, _, _ = a2, a3, a4, a5, b1, f0, fn, sh, s1, b0, arr, m, pp
	i0, i1 = lim(x), lim(z)
	if x > 0 && x < 6 {
		i2 = S4_f0(x-1, z+1)
	}
	b0 = true
	i0 = i1
	out("S4_b1" + " " + itoa(i0) + "," + itoa(i1) + "," + itoa(i2) + " " + rtq(s0))
	i1 = p.a
	return lim(i0 + i1*3 + i2*5 + i3*7 + int(a0) + int(a1) + len(s0) + len(sl) + p.a)
}

func S4_f1(x, z int) int {
	i0, i1, i2, i3 := 8, 17, -8, 7
	var a0 int8 = 40
	var a1 uint8 = 1
	var a2 int16 = 1574
	var a3 uint32 = 1
	var a4 int64 = -1073741824
	var a5 uint64 = 0
	s0, s1 := "go", "abcdef"
	b0, b1 := true, false
	f0 := 8.25
	sl := []int{8, 2, 3}
	arr := [4]int{1, 8, 3, 4}
	m := map[string]int{"k": 8, "a": 1}
	p := P{a: 8, b: "pb"}
	pp := &P{a: 1}
	fn := func(v int) int { return lim(v*3 + 1) }
	var sh Shape = pp
	_, _, _, _, _, _, _, _, _, _, _, _, _ = a2, a3, a4, a5, b1, f0, fn, sh, s1, b0, arr, m, pp
	i0, i1 = lim(x), lim(z)
	if x > 0 && x < 6 {
		i2 = S4_f1(x-1, z+1)
	}
	b0 = false
	i3 = i2
	out("S4_b2" + " " + itoa(i0) + "," + itoa(i1) + "," + itoa(i2) + " " + rtq(s0))
	arr[1]--
	i0, i1 = lim(i0), lim(i1)
	{
		acc := 0
		for k, v := range m {
			acc += len(k)*7 + v
		}
		i2 = lim(acc)
	}
	out("S4_b0" + " " + itoa(i0) + "," + itoa(i1) + "," + itoa(i2) + " " + rtq(s0))
	return lim(i0 + i1*3 + i2*5 + i3*7 + int(a0) + int(a1) + len(s0) + len(sl) + p.a)
}

func S4_f2(x, z int) int {
	i0, i1, i2, i3 := 19, 39, -19, 7
	var a0 int8 = -73
	var a1 uint8 = 0
	var a2 int16 = 136
	var a3 uint32 = 31
	var a4 int64 = -57
	var a5 uint64 = 1
	s0, s1 := "héllo", "go"
	b0, b1 := false, false
	f0 := 19.25
	sl := []int{19, 2, 3}
	arr := [4]int{1, 19, 3, 4}
	m := map[string]int{"k": 19, "a": 1}
	p := P{a: 19, b: "pb"}
	pp := &P{a: 1}
	fn := func(v int) int { return lim(v*3 + 1) }
	var sh Shape = pp
	_, _, _, _, _, _, _, _, _, _, _, _, _ = a2, a3, a4, a5, b1, f0, fn, sh, s1, b0, arr, m, pp
	i0, i1 = lim(x), lim(z)
	if x > 0 && x < 6 {
		i2 = S4_f2(x-1, z+1)
	}
	a2 |= a2
	if !(b0) {
		goto G1
	}
	i2 = lim(i2 + 5)
	G1:
	i2 = lim(i2 + 1)
	out("S4_b1" + " " + itoa(i0) + "," + itoa(i1) + "," + itoa(i2) + " " + rtq(s0))
	i2 = lim(lim(lim(i1 + i1) + (i1 & 2)) * len(sl))
	return lim(i0 + i1*3 + i2*5 + i3*7 + int(a0) + int(a1) + len(s0) + len(sl) + p.a)
}

func S4_main() {
	i0, i1, i2, i3 := 0, 1, 0, 7
	var a0 int8 = 25
	var a1 uint8 = 198
	var a2 int16 = 75
	var a3 uint32 = 16251
	var a4 int64 = -1
	var a5 uint64 = 55482821
	s0, s1 := "abcdef", ""
	b0, b1 := true, false
	f0 := 0.25
	sl := []int{0, 2, 3}
	arr := [4]int{1, 0, 3, 4}
	m := map[string]int{"k": 0, "a": 1}
	p := P{a: 0, b: "pb"}
	pp := &P{a: 1}
	fn := func(v int) int { return lim(v*3 + 1) }
	var sh Shape = sq(3)
	_, _, _, _, _, _, _, _, _, _, _, _, _ = a2, a3, a4, a5, b1, f0, fn, sh, s1, b0, arr, m, pp
	i1 = lim(i3 * len(sl))
	L2:
	for c := 4; c > 0; c-- {
		i2 = lim(i2 + c)
		i1 = i0
		i2 = (sl[ix(lim(-len(s0)), len(sl))] % 9)
		out("S4_b25" + " " + itoa(i0) + "," + itoa(i1) + "," + itoa(i2) + " " + rtq(s0))
		for k, v := range []interface{}{i0, s0, nil, f0, 7, "z", nil} {
			switch x := v.(type) {
			case int:
				i1 = lim(i1 + x)
			case string:
				i2 = lim(i2 + len(x))
			case nil:
				i2 = lim(i2 + 1000)
			default:
				if k%2 == 1 {
					break
				}
				i1 = lim(i1 - 3)
				_ = x
			}
			i3 = lim(i3 + k + 1)
		}
		if b1 {
			break L2
		}
		if i3 == -777777 {
			continue L2
		}
	}
	out("S4_b24" + " " + itoa(i0) + "," + itoa(i1) + "," + itoa(i2) + " " + rtq(s0))
	i2 = S4_f2(lim(1 - arr[2]), lim(len(s0) + -12))
	{
		cp := p
		cp.a = lim(cp.a + 7)
		cp.c[1] = i0
		arr2 := arr
		arr2[0] = cp.a
		i3 = lim(p.a + cp.a + arr[0] + arr2[0] + p.c[1])
	}
	out("S4_b22" + " " + itoa(i0) + "," + itoa(i1) + "," + itoa(i2) + " " + rtq(s0))
	{
		i0 := lim(i0 + 7)
		s0 := s0 + "~"
		i0 = len(s0)
		i3 = lim(i3 + i0 + len(s0))
	}
	i1 = lim(-(arr[1] / 4))
	out("S4_b19" + " " + itoa(i0) + "," + itoa(i1) + "," + itoa(i2) + " " + rtq(s0))
	for k, v := range sl[:ix(1, len(sl)+1)] {
		i3 = lim(i3 + k*v)
		out("S4_t17" + " " + itoa(i0) + "," + itoa(i1) + "," + itoa(i2) + " " + rtq(s0))
		{
			cl := func(d int) int {
				i3 = (i3 & 69)
				i0 = lim(i0 + d)
				return lim(i0 * 2)
			}
			i1 = cl(lim(len(sl) - len(s0)))
			fn = cl
		}
		out("S4_b15" + " " + itoa(i0) + "," + itoa(i1) + "," + itoa(i2) + " " + rtq(s0))
	}
	i1 = ((lim(i0 + -6) % 8) & 72)
	out("S4_b14" + " " + itoa(i0) + "," + itoa(i1) + "," + itoa(i2) + " " + rtq(s0))
	out("S4_t13" + " " + itoa(i0) + "," + itoa(i1) + "," + itoa(i2) + " " + rtq(s0))
	out("S4_t12" + " " + itoa(i0) + "," + itoa(i1) + "," + itoa(i2) + " " + rtq(s0))
	out("S4_b12" + " " + itoa(i0) + "," + itoa(i1) + "," + itoa(i2) + " " + rtq(s0))
	if (!((a1 < a1)) && false) {
		i3 = int(s0[ix(p.a, len(s0))])
		{
			cl := func(d int) int {
				for k, v := range sl[:ix(4, len(sl)+1)] {
					i3 = lim(i3 + k*v)
					i3 = lim(lim(lim(i3 - i1) - i1) - (i0 & 60))
					if b0 {
						continue
					}
				}
				a4 = int64(lim(p.a - i1)) * 4294967297
				a5 = uint64(a4) >> 19
				a0, a1, a2 = int8(a4), uint8(a5), int16(a4>>2)
				out("S4_b6" + " " + itoa(i0) + "," + itoa(i1) + "," + itoa(i2) + " " + rtq(s0))
				i0 = lim(i0 + d)
				return lim(i0 * 2)
			}
			i1 = cl(lim(p.a - i2))
			fn = cl
		}
		out("S4_b6" + " " + itoa(i0) + "," + itoa(i1) + "," + itoa(i2) + " " + rtq(s0))
	} else if arr[3] >= 99 {
		switch -17 % 5 {
		case -1, 9:
			out("S4_t4" + " " + itoa(i0) + "," + itoa(i1) + "," + itoa(i2) + " " + rtq(s0))
			if b1 {
				break
			}
			i1 = lim(i1 + 1)
		case -3:
			m[kx()]--
			out("S4_calls " + itoa(cn))
		case 0:
			switch int(s0[ix((len(s0) % 4), len(s0))]) % 5 {
			case -2, 8:
				i0, i1, i2 = i2, i0, lim(i1+1)
			case 0, 10:
				a5 |= (a5 ^ uint64(28))
			case 1:
				if (a1 < (a1 ^ uint8(6))) {
					break
				}
				i1 = lim(i1 + 1)
			}
		case -4:
		}
	}
	out("S4_ints " + itoa(i0) + "," + itoa(i1) + "," + itoa(i2) + "," + itoa(i3) + " " + itoa(int(a0)) + "," + itoa(int(a1)) + "," + itoa(int(a2)) + "," + u64toa(uint64(a3)) + "," + i64toa(a4) + "," + u64toa(a5))
	out("S4_strs " + rtq(s0) + " " + rtq(s1) + " " + btoa(b0) + btoa(b1) + " " + f64s(f0))
	fnResult := fn(1)
	shArea := sh.Area(2)
	out("S4_data " + itoa(len(sl)) + ":" + itoa(vsum(sl...)) + " " + itoa(vsum(arr[:]...)) + " " + itoa(len(m)) + ":" + itoa(m["k"]) + " " + itoa(p.a) + rtq(p.b) + itoa(p.c[0]+p.c[1]) + " " + itoa(pp.a) + " " + itoa(fnResult) + " " + sh.name() + itoa(shArea))
	<-make(chan int)
}

type S4_dead0 struct{ z int }

func (d S4_dead0) Area(k int) int { return d.z * k }
func (d S4_dead0) name() string { return "dead" }
func (d *S4_dead0) bump(k int) { d.z += k }

func S4_unused0(x int) int { return lim(x + 0) }

var S4_deadvar0 = 0

type S4_dead1 struct{ z int }

func (d S4_dead1) Area(k int) int { return d.z * k }
func (d S4_dead1) name() string { return "dead" }
func (d *S4_dead1) bump(k int) { d.z += k }

func S4_unused1(x int) int { return lim(x + 1) }

var S4_deadvar1 = 1

type S4_dead2 struct{ z int }

func (d S4_dead2) Area(k int) int { return d.z * k }
func (d S4_dead2) name() string { return "dead" }
func (d *S4_dead2) bump(k int) { d.z += k }

func S4_unused2(x int) int { return lim(x + 2) }

var S4_deadvar2 = 2

