package main

func S8_f0(x, z int) int {
	i0, i1, i2, i3 := 0, 1, 0, 7
	var a0 int8 = 6
	var a1 uint8 = 56
	var a2 int16 = 15
	var a3 uint32 = 103951049
	var a4 int64 = -6
	var a5 uint64 = 6
	s0, s1 := "abcdef", ""
	b0, b1 := true, false
	f0 := 0.25
	sl := []int{0, 2, 3}
	arr := [4]int{1, 0, 3, 4}
	m := map[string]int{"k": 0, "a": 1}
	p := P{a: 0, b: "pb"}
	pp := &P{a: 1}
	fn := func(v int) int { return lim(v*3 + 1) }
	var sh Shape = sq(3)
	_, _, _, _, _, _, _, _, _, _, _, _, _ = a2, a3, a4, a5, b1, f0, fn, sh, s1, b0, arr, m, pp
	i0, i1 = lim(x), lim(z)
	if x > 0 && x < 6 {
		i2 = S8_f0(x-1, z+1)
	}
	i3 = i3
	for k, r := range sub(s0, 4) {
		i3 = lim(i3 + k + int(r))
		i1 = len(sl)
	}
	out("S8_b5" + " " + itoa(i0) + "," + itoa(i1) + "," + itoa(i2) + " " + rtq(s0))
	switch i0 % 5 {
	case -4:
		i2 = len(s0)
		fallthrough
	case 0, 10:
		s1 = itoa(lim(-i1))
		i1 = int(s0[ix(i3, len(s0))])
		out("S8_b1" + " " + itoa(i0) + "," + itoa(i1) + "," + itoa(i2) + " " + rtq(s0))
	default:
		{
			st := gstack[int]{}
			st.push(i0)
			st.push(i3)
			i1 = lim(st.pop() + st.len())
		}
	}
	return lim(i0 + i1*3 + i2*5 + i3*7 + int(a0) + int(a1) + len(s0) + len(sl) + p.a)
}

func S8_f1(x, z int) int {
	i0, i1, i2, i3 := 42, 85, -42, 7
	var a0 int8 = -30
	var a1 uint8 = 83
	var a2 int16 = 2932
	var a3 uint32 = 1865
	var a4 int64 = 262
	var a5 uint64 = 3
	s0, s1 := "héllo", ""
	b0, b1 := true, false
	f0 := 42.25
	sl := []int{42, 2, 3}
	arr := [4]int{1, 42, 3, 4}
	m := map[string]int{"k": 42, "a": 1}
	p := P{a: 42, b: "pb"}
	pp := &P{a: 1}
	fn := func(v int) int { return lim(v*3 + 1) }
	var sh Shape = pp
	_, _, _, _, _, _, _, _, _, _, _, _, _ = a2, a3, a4, a5, b1, f0, fn, sh, s1, b0, arr, m, pp
	i0, i1 = lim(x), lim(z)
	if x > 0 && x < 6 {
		i2 = S8_f1(x-1, z+1)
	}
	p.b = string(rune('a' + ix(arr[0], 26)))
	i0 = i2
	out("S8_b1" + " " + itoa(i0) + "," + itoa(i1) + "," + itoa(i2) + " " + rtq(s0))
	sl[ix(sl[ix(i0, len(sl))], len(sl))] = (lim(i2 - len(sl)) ^ 57)
	return lim(i0 + i1*3 + i2*5 + i3*7 + int(a0) + int(a1) + len(s0) + len(sl) + p.a)
}

func S8_f2(x, z int) int {
	i0, i1, i2, i3 := 19, 39, -19, 7
	var a0 int8 = 61
	var a1 uint8 = 155
	var a2 int16 = 8
	var a3 uint32 = 2382
	var a4 int64 = 768431597
	var a5 uint64 = 1
	s0, s1 := "héllo", "go"
	b0, b1 := false, false
	f0 := 19.25
	sl := []int{19, 2, 3}
	arr := [4]int{1, 19, 3, 4}
	m := map[string]int{"k": 19, "a": 1}
	p := P{a: 19, b: "pb"}
	pp := &P{a: 1}
	fn := func(v int) int { return lim(v*3 + 1) }
	var sh Shape = sq(3)
	_, _, _, _, _, _, _, _, _, _, _, _, _ = a2, a3, a4, a5, b1, f0, fn, sh, s1, b0, arr, m, pp
	i0, i1 = lim(x), lim(z)
	a0 *= a0
	for k, v := range []interface{}{i0, s0, nil, f0, 7, "z", nil} {
		switch v.(type) {
		case int:
			i1 = lim(i1 + 1)
		case string:
			if k%2 == 1 {
				break
			}
			i2 = lim(i2 + 1)
		case nil:
			i2 = lim(i2 + 1000)
		default:
			if k%2 == 1 {
				break
			}
			i1 = lim(i1 - 3)
		}
		i3 = lim(i3 + k + 1)
	}
	out("S8_b8" + " " + itoa(i0) + "," + itoa(i1) + "," + itoa(i2) + " " + rtq(s0))
	i3 = i1
	i1 = p.sum((i0 % 2))
	out("S8_b6" + " " + itoa(i0) + "," + itoa(i1) + "," + itoa(i2) + " " + rtq(s0))
	out("S8_t5" + " " + itoa(i0) + "," + itoa(i1) + "," + itoa(i2) + " " + rtq(s0))
	switch {
	case (i0 <= arr[1] && (len(s0) != i1 || b0)):
		i2 = len(s0)
		b1 = b1
		out("S8_b2" + " " + itoa(i0) + "," + itoa(i1) + "," + itoa(i2) + " " + rtq(s0))
	default:
		i2 = S8_f1(lim(55 - p.a), lim(i3 * 52))
	}
	out("S8_b1" + " " + itoa(i0) + "," + itoa(i1) + "," + itoa(i2) + " " + rtq(s0))
	i2 = arr[ix((i1 ^ 7), 4)]
	return lim(i0 + i1*3 + i2*5 + i3*7 + int(a0) + int(a1) + len(s0) + len(sl) + p.a)
}

func S8_main() {
	i0, i1, i2, i3 := 3, 7, -3, 7
	var a0 int8 = -4
	var a1 uint8 = 4
	var a2 int16 = 25
	var a3 uint32 = 8
	var a4 int64 = 0
	var a5 uint64 = 3078
	s0, s1 := "héllo", "abcdef"
	b0, b1 := false, false
	f0 := 3.25
	sl := []int{3, 2, 3}
	arr := [4]int{1, 3, 3, 4}
	m := map[string]int{"k": 3, "a": 1}
	p := P{a: 3, b: "pb"}
	pp := &P{a: 1}
	fn := func(v int) int { return lim(v*3 + 1) }
	var sh Shape = sq(3)
	_, _, _, _, _, _, _, _, _, _, _, _, _ = a2, a3, a4, a5, b1, f0, fn, sh, s1, b0, arr, m, pp
	for k, v := range []interface{}{i0, s0, nil, f0, 7, "z", nil} {
		switch v.(type) {
		case int:
			i1 = lim(i1 + 1)
		case string:
			i2 = lim(i2 + 1)
		case nil:
			if k%2 == 1 {
				break
			}
			i2 = lim(i2 + 1000)
		default:
			i1 = lim(i1 - 3)
		}
		i3 = lim(i3 + k + 1)
	}
	m[p.b] = arr[3]
	out("S8_b5" + " " + itoa(i0) + "," + itoa(i1) + "," + itoa(i2) + " " + rtq(s0))
	i3 = i1
	{
		ch := make(chan int, 2)
		ch <- 5
		for k := 0; k < 4; k++ {
			select {
			case v := <-ch:
				i1 = lim(i1 + v)
				i1 = lim(i1 + 100)
			default:
				i2 = lim(i2 + 10)
			}
			i3 = lim(i3 + 1)
		}
	}
	out("S8_b3" + " " + itoa(i0) + "," + itoa(i1) + "," + itoa(i2) + " " + rtq(s0))
	i1 = (int(s0[ix(lim(len(s0) - -1), len(s0))]) & 213)
	i2 = (lim((i3 % 1) - i2) ^ 14)
	out("S8_b1" + " " + itoa(i0) + "," + itoa(i1) + "," + itoa(i2) + " " + rtq(s0))
	func() {
		defer func() {
			i1 = lim(i1 + 3)
			if r := recover(); r != nil {
				s1 = cut(s1 + "R")
			}
		}()
		if i0 == arr[3] {
			panic("inner")
		}
	}()
	out("S8_ints " + itoa(i0) + "," + itoa(i1) + "," + itoa(i2) + "," + itoa(i3) + " " + itoa(int(a0)) + "," + itoa(int(a1)) + "," + itoa(int(a2)) + "," + u64toa(uint64(a3)) + "," + i64toa(a4) + "," + u64toa(a5))
	out("S8_strs " + rtq(s0) + " " + rtq(s1) + " " + btoa(b0) + btoa(b1) + " " + f64s(f0))
	fnResult := fn(1)
	shArea := sh.Area(2)
	out("S8_data " + itoa(len(sl)) + ":" + itoa(vsum(sl...)) + " " + itoa(vsum(arr[:]...)) + " " + itoa(len(m)) + ":" + itoa(m["k"]) + " " + itoa(p.a) + rtq(p.b) + itoa(p.c[0]+p.c[1]) + " " + itoa(pp.a) + " " + itoa(fnResult) + " " + sh.name() + itoa(shArea))
}

type S8_dead0 struct{ z int }

func (d S8_dead0) Area(k int) int { return d.z * k }
func (d S8_dead0) name() string { return "dead" }
func (d *S8_dead0) bump(k int) { d.z += k }

func S8_unused0(x int) int { return lim(x + 0) }

var S8_deadvar0 = 0

type S8_dead1 struct{ z int }

func (d S8_dead1) Area(k int) int { return d.z * k }
func (d S8_dead1) name() string { return "dead" }
func (d *S8_dead1) bump(k int) { d.z += k }

func S8_unused1(x int) int { return lim(x + 1) }

var S8_deadvar1 = 1

type S8_dead2 struct{ z int }

func (d S8_dead2) Area(k int) int { return d.z * k }
func (d S8_dead2) name() string { return "dead" }
func (d *S8_dead2) bump(k int) { d.z += k }

func S8_unused2(x int) int { return lim(x + 2) }

var S8_deadvar2 = 2

