package main

func S4_main() {
	i0, i1, i2, i3 := 41, 83, -41, 7
	var a0 int8 = 34
	var a1 uint8 = 76
	var a2 int16 = -477
	var a3 uint32 = 15
	var a4 int64 = 57
	var a5 uint64 = 0
	s0, s1 := "go", "abcdef"
	b0, b1 := false, false
	f0 := 41.25
	sl := []int{41, 2, 3}
	arr := [4]int{1, 41, 3, 4}
	m := map[string]int{"k": 41, "a": 1}
	p := P{a: 41, b: "pb"}
	pp := &P{a: 1}
	fn := func(v int) int { return lim(v*3 + 1) }
	var sh Shape = &p
	_, _, _, _, _, _, _, _, _, _, _, _, _ = a2, a3, a4, a5, b1, f0, fn, sh, s1, b0, arr, m, pp
	i2 = lim((i0 / 8) * sl[ix(i3, len(sl))])
	for k, r := range sub(s0, 4) {
		i3 = lim(i3 + k + int(r))
		for k := 0; k < 1; k++ {
			i3 = lim(i3 + k)
			a4 |= ((a4 << 9) >> 7)
			{
				gc := 0
			G1:
				gc++
				i3 = lim(i3 + gc)
				if gc < 1 {
					goto G1
				}
			}
			out("S4_b0" + " " + itoa(i0) + "," + itoa(i1) + "," + itoa(i2) + " " + rtq(s0))
		}
	}
	out("S4_b0" + " " + itoa(i0) + "," + itoa(i1) + "," + itoa(i2) + " " + rtq(s0))
	out("S4_ints " + itoa(i0) + "," + itoa(i1) + "," + itoa(i2) + "," + itoa(i3) + " " + itoa(int(a0)) + "," + itoa(int(a1)) + "," + itoa(int(a2)) + "," + u64toa(uint64(a3)) + "," + i64toa(a4) + "," + u64toa(a5))
	out("S4_strs " + rtq(s0) + " " + rtq(s1) + " " + btoa(b0) + btoa(b1) + " " + f64s(f0))
	fnResult := fn(1)
	shArea := sh.Area(2)
	out("S4_data " + itoa(len(sl)) + ":" + itoa(vsum(sl...)) + " " + itoa(vsum(arr[:]...)) + " " + itoa(len(m)) + ":" + itoa(m["k"]) + " " + itoa(p.a) + rtq(p.b) + itoa(p.c[0]+p.c[1]) + " " + itoa(pp.a) + " " + itoa(fnResult) + " " + sh.name() + itoa(shArea))
}

type S4_dead0 struct{ z int }

func (d S4_dead0) Area(k int) int { return d.z * k }
func (d S4_dead0) name() string { return "dead" }
func (d *S4_dead0) bump(k int) { d.z += k }

func S4_unused0(x int) int { return lim(x + 0) }

var S4_deadvar0 = 0

