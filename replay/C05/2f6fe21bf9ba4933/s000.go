package main

func S10_f0(x, z int) int {
	i0, i1, i2, i3 := 15, 31, -15, 7
	var a0 int8 = 1
	var a1 uint8 = 17
	var a2 int16 = 35
	var a3 uint32 = 371
	var a4 int64 = 10452
	var a5 uint64 = 60
	s0, s1 := "go", "go"
	b0, b1 := false, false
	f0 := 15.25
	sl := []int{15, 2, 3}
	arr := [4]int{1, 15, 3, 4}
	m := map[string]int{"k": 15, "a": 1}
	p := P{a: 15, b: "pb"}
	pp := &P{a: 1}
	fn := func(v int) int { return lim(v*3 + 1) }
	var sh Shape = &p
	_, _, _, _, _, _, _, _, _, _, _, _, _ = a2, a3, a4, a5, b1, f0, fn, sh, s1, b0, arr, m, pp
	i0, i1 = lim(x), lim(z)
	if x > 0 && x < 6 {
		i2 = S10_f0(x-1, z+1)
	}
	for k, v := range []interface{}{i0, s0, nil, f0, 7, "z", nil} {
		switch x := v.(type) {
		case int:
			if k%2 == 1 {
				break
			}
			i1 = lim(i1 + x)
		case string:
			i2 = lim(i2 + len(x))
		case nil:
			if k%2 == 0 {
				break
			}
			i2 = lim(i2 + 1000)
		default:
			if k%2 == 1 {
				break
			}
			i1 = lim(i1 - 3)
			_ = x
		}
		i3 = lim(i3 + k + 1)
	}
	f0 = fclamp(f0*0.5 + float64((i0 ^ 27))/2.0)
	out("S10_b3" + " " + itoa(i0) + "," + itoa(i1) + "," + itoa(i2) + " " + rtq(s0))
	{
		cp := p
		cp.a = lim(cp.a + 7)
		cp.c[1] = i0
		arr2 := arr
		arr2[0] = cp.a
		i3 = lim(p.a + cp.a + arr[0] + arr2[0] + p.c[1])
	}
	out("S10_t1" + " " + itoa(i0) + "," + itoa(i1) + "," + itoa(i2) + " " + rtq(s0))
	out("S10_b1" + " " + itoa(i0) + "," + itoa(i1) + "," + itoa(i2) + " " + rtq(s0))
	i1 = lim(int(uint8(i3)) * 2)
	return lim(i0 + i1*3 + i2*5 + i3*7 + int(a0) + int(a1) + len(s0) + len(sl) + p.a)
}

func S10_f1(x, z int) int {
	i0, i1, i2, i3 := 0, 1, 0, 7
	var a0 int8 = 21
	var a1 uint8 = 115
	var a2 int16 = -2584
	var a3 uint32 = 27
	var a4 int64 = 161
	var a5 uint64 = 2356095
	s0, s1 := "héllo", "abcdef"
	b0, b1 := true, false
	f0 := 0.25
	sl := []int{0, 2, 3}
	arr := [4]int{1, 0, 3, 4}
	m := map[string]int{"k": 0, "a": 1}
	p := P{a: 0, b: "pb"}
	pp := &P{a: 1}
	fn := func(v int) int { return lim(v*3 + 1) }
	var sh Shape = sq(3)
	_, _, _, _, _, _, _, _, _, _, _, _, _ = a2, a3, a4, a5, b1, f0, fn, sh, s1, b0, arr, m, pp
	i0, i1 = lim(x), lim(z)
	{
		cp := p
		cp.a = lim(cp.a + 7)
		cp.c[1] = i0
		arr2 := arr
		arr2[0] = cp.a
		i3 = lim(p.a + cp.a + arr[0] + arr2[0] + p.c[1])
	}
	{
		i0 := lim(i0 + 1)
		s0 := s0 + "~"
		i3 = sl[ix(i1, len(sl))]
		i3 = lim(i3 + i0 + len(s0))
	}
	out("S10_b4" + " " + itoa(i0) + "," + itoa(i1) + "," + itoa(i2) + " " + rtq(s0))
	func() {
		defer func() {
			i1 = lim(i1 + 3)
			if r := recover(); r != nil {
				s1 = cut(s1 + "R")
			}
		}()
		i2 = i0
	}()
	i1 = i3
	out("S10_b1" + " " + itoa(i0) + "," + itoa(i1) + "," + itoa(i2) + " " + rtq(s0))
	{
		i0 := lim(i0 + 3)
		s0 := s0 + "~"
		i3 = lim(i3 + i0 + len(s0))
	}
	return lim(i0 + i1*3 + i2*5 + i3*7 + int(a0) + int(a1) + len(s0) + len(sl) + p.a)
}

func S10_f2(x, z int) int {
	i0, i1, i2, i3 := 1, 3, -1, 7
	var a0 int8 = -29
	var a1 uint8 = 0
	var a2 int16 = -2
	var a3 uint32 = 2755
	var a4 int64 = -22
	var a5 uint64 = 7880
	s0, s1 := "", "abcdef"
	b0, b1 := false, false
	f0 := 1.25
	sl := []int{1, 2, 3}
	arr := [4]int{1, 1, 3, 4}
	m := map[string]int{"k": 1, "a": 1}
	p := P{a: 1, b: "pb"}
	pp := &P{a: 1}
	fn := func(v int) int { return lim(v*3 + 1) }
	var sh Shape = &p
	_, _, _, _, _, _, _, _, _, _, _, _, _ = a2, a3, a4, a5, b1, f0, fn, sh, s1, b0, arr, m, pp
	i0, i1 = lim(x), lim(z)
	if x > 0 && x < 6 {
		i2 = S10_f2(x-1, z+1)
	}
	i0 = lim(-lim((-20 % 7) * lim(57 - i1)))
	{
		cl := func(d int) int {
			i0 = lim(i0 + d)
			return lim(i0 * 2)
		}
		i1 = cl(lim(arr[3] * i2))
		fn = cl
	}
	out("S10_b0" + " " + itoa(i0) + "," + itoa(i1) + "," + itoa(i2) + " " + rtq(s0))
	return lim(i0 + i1*3 + i2*5 + i3*7 + int(a0) + int(a1) + len(s0) + len(sl) + p.a)
}

func S10_main() {
	i0, i1, i2, i3 := 15, 31, -15, 7
	var a0 int8 = -3
	var a1 uint8 = 3
	var a2 int16 = -39
	var a3 uint32 = 276
	var a4 int64 = -14057540
	var a5 uint64 = 10
	s0, s1 := "go", "abcdef"
	b0, b1 := false, false
	f0 := 15.25
	sl := []int{15, 2, 3}
	arr := [4]int{1, 15, 3, 4}
	m := map[string]int{"k": 15, "a": 1}
	p := P{a: 15, b: "pb"}
	pp := &P{a: 1}
	fn := func(v int) int { return lim(v*3 + 1) }
	var sh Shape = sq(3)
	_, _, _, _, _, _, _, _, _, _, _, _, _ = a2, a3, a4, a5, b1, f0, fn, sh, s1, b0, arr, m, pp
	i2 = vsum(lim(i2 + len(sl)), lim(i2 - i3))
	i2 = lim(i2 + vsum(sl...) + vsum())
	switch len(sl) % 5 {
	case 0, 10:
		i0 = p.a
	case -1:
		i1 = (len(sl) & 250)
	case 2:
		for k, v := range []interface{}{i0, s0, nil, f0, 7, "z", nil} {
			switch x := v.(type) {
			case int:
				i1 = lim(i1 + x)
			case string:
				i2 = lim(i2 + len(x))
			case nil:
				i2 = lim(i2 + 1000)
			default:
				if k%2 == 0 {
					break
				}
				i1 = lim(i1 - 3)
				_ = x
			}
			i3 = lim(i3 + k + 1)
		}
	}
	out("S10_b34" + " " + itoa(i0) + "," + itoa(i1) + "," + itoa(i2) + " " + rtq(s0))
	i1 = p.a
	b1 = b0
	out("S10_b32" + " " + itoa(i0) + "," + itoa(i1) + "," + itoa(i2) + " " + rtq(s0))
	i3 = lim(m[cut(s1 + s1)] + lim(i1 - i0))
	i1 = lim(i0 - -19)
	out("S10_b30" + " " + itoa(i0) + "," + itoa(i1) + "," + itoa(i2) + " " + rtq(s0))
	{
		ch := make(chan int, 2)
		ch <- 5
		for k := 0; k < 4; k++ {
			select {
			case v := <-ch:
				i1 = lim(i1 + v)
				i1 = lim(i1 + 100)
			default:
				i2 = lim(i2 + 10)
			}
			i3 = lim(i3 + 1)
		}
	}
	for k, v := range []interface{}{i0, s0, nil, f0, 7, "z", nil} {
		switch x := v.(type) {
		case int:
			i1 = lim(i1 + x)
		case string:
			if k%2 == 0 {
				break
			}
			i2 = lim(i2 + len(x))
		case nil:
			i2 = lim(i2 + 1000)
		default:
			if k%2 == 0 {
				break
			}
			i1 = lim(i1 - 3)
			_ = x
		}
		i3 = lim(i3 + k + 1)
	}
	out("S10_b28" + " " + itoa(i0) + "," + itoa(i1) + "," + itoa(i2) + " " + rtq(s0))
	{
		acc := 0
		for k, v := range m {
			acc += len(k)*7 + v
		}
		i2 = lim(acc)
	}
	switch len(sl) % 5 {
	case 3:
		{
			ch := make(chan int, 2)
			ch <- 5
			for k := 0; k < 4; k++ {
				select {
				case v := <-ch:
					i1 = lim(i1 + v)
					i1 = lim(i1 + 100)
				default:
					i2 = lim(i2 + 10)
				}
				i3 = lim(i3 + 1)
			}
		}
		fallthrough
	case -4:
		{
			st := gstack[int]{}
			st.push(i0)
			st.push((i3 / 5))
			i1 = lim(st.pop() + st.len())
		}
	default:
		i0 = len(s0)
	}
	out("S10_b23" + " " + itoa(i0) + "," + itoa(i1) + "," + itoa(i2) + " " + rtq(s0))
	a4 = int64(arr[ix(arr[1], 4)]) * 4294967297
	a5 = uint64(a4) >> 4
	a0, a1, a2 = int8(a4), uint8(a5), int16(a4>>16)
	i0 = fn(-2)
	out("S10_b21" + " " + itoa(i0) + "," + itoa(i1) + "," + itoa(i2) + " " + rtq(s0))
	f0 = fclamp(f0*3 + float64(m[p.b])/2.0)
	i3 = int(s0[ix((i3 ^ 26), len(s0))])
	out("S10_b19" + " " + itoa(i0) + "," + itoa(i1) + "," + itoa(i2) + " " + rtq(s0))
	s1 = cut(s0 + p.b)
	i1 = (m[s0] / 6)
	out("S10_b17" + " " + itoa(i0) + "," + itoa(i1) + "," + itoa(i2) + " " + rtq(s0))
	switch w := (-16 & 2); lim(w + 6) % 5 {
	case 1, 11:
		i1 = (lim(lim(-i0) - 0) % 5)
		i0 = lim((i3 % 2) - p.a)
		out("S10_b14" + " " + itoa(i0) + "," + itoa(i1) + "," + itoa(i2) + " " + rtq(s0))
	case 3:
		sl[ix(lim(-arr[ix(47, 4)]), len(sl))] = arr[ix(len(s0), 4)]
		func() {
			defer func() {
				i1 = lim(i1 + 3)
				if r := recover(); r != nil {
					s1 = cut(s1 + "R")
				}
			}()
			i2 = lim(p.a + lim(int(s0[ix(i3, len(s0))]) * (arr[1] % 8)))
			if (b1 && len(s0) != -6) {
				panic("inner")
			}
		}()
		out("S10_b11" + " " + itoa(i0) + "," + itoa(i1) + "," + itoa(i2) + " " + rtq(s0))
	}
	{
		grid := [2][2]int{{1, 2}, {3, 4}}
		grid[nx(2)][nx(2)] *= 2
		i3 = lim(i3 + grid[0][0] + grid[0][1]*3 + grid[1][0]*5 + grid[1][1]*7)
	}
	out("S10_calls " + itoa(cn))
	out("S10_b10" + " " + itoa(i0) + "," + itoa(i1) + "," + itoa(i2) + " " + rtq(s0))
	i2 = lim(-3 - int(int16(len(s0))))
	out("S10_t8" + " " + itoa(i0) + "," + itoa(i1) + "," + itoa(i2) + " " + rtq(s0))
	out("S10_b8" + " " + itoa(i0) + "," + itoa(i1) + "," + itoa(i2) + " " + rtq(s0))
	{
		cl := func(d int) int {
			i0 = lim(-i3)
			{
				ch := make(chan int, 2)
				ch <- 5
				for k := 0; k < 4; k++ {
					select {
					case v := <-ch:
						i1 = lim(i1 + v)
						i1 = lim(i1 + 100)
					default:
						i2 = lim(i2 + 10)
					}
					i3 = lim(i3 + 1)
				}
			}
			out("S10_b5" + " " + itoa(i0) + "," + itoa(i1) + "," + itoa(i2) + " " + rtq(s0))
			i0 = lim(i0 + d)
			return lim(i0 * 2)
		}
		i1 = cl((p.a & 16))
		fn = cl
	}
	{
		pr := gpair[string, int]{s0, i0}
		var e interface{} = pr
		if _, ok := e.(gpair[string, int]); ok {
			i3 = lim(i3 + 1)
		}
		if _, ok := e.(gpair[int, string]); ok {
			i3 = -1
		}
	}
	out("S10_b4" + " " + itoa(i0) + "," + itoa(i1) + "," + itoa(i2) + " " + rtq(s0))
	i0, i1, i2 = i2, i0, lim(i1+1)
	switch sl[ix((i1 % 5), len(sl))] % 5 {
	case 3, 13:
		i2 = S10_f0((arr[2] / 4), len(s0))
		for k, v := range sl[:ix(4, len(sl)+1)] {
			i3 = lim(i3 + k*v)
		}
		out("S10_b0" + " " + itoa(i0) + "," + itoa(i1) + "," + itoa(i2) + " " + rtq(s0))
	case -3, 7:
		fallthrough
	case -4:
		if s0 < p.b {
			break
		}
		i1 = lim(i1 + 1)
	case 4:
	default:
	}
	out("S10_b0" + " " + itoa(i0) + "," + itoa(i1) + "," + itoa(i2) + " " + rtq(s0))
	out("S10_ints " + itoa(i0) + "," + itoa(i1) + "," + itoa(i2) + "," + itoa(i3) + " " + itoa(int(a0)) + "," + itoa(int(a1)) + "," + itoa(int(a2)) + "," + u64toa(uint64(a3)) + "," + i64toa(a4) + "," + u64toa(a5))
	out("S10_strs " + rtq(s0) + " " + rtq(s1) + " " + btoa(b0) + btoa(b1) + " " + f64s(f0))
	fnResult := fn(1)
	shArea := sh.Area(2)
	out("S10_data " + itoa(len(sl)) + ":" + itoa(vsum(sl...)) + " " + itoa(vsum(arr[:]...)) + " " + itoa(len(m)) + ":" + itoa(m["k"]) + " " + itoa(p.a) + rtq(p.b) + itoa(p.c[0]+p.c[1]) + " " + itoa(pp.a) + " " + itoa(fnResult) + " " + sh.name() + itoa(shArea))
}

type S10_dead0 struct{ z int }

func (d S10_dead0) Area(k int) int { return d.z * k }
func (d S10_dead0) name() string { return "dead" }
func (d *S10_dead0) bump(k int) { d.z += k }

func S10_unused0(x int) int { return lim(x + 0) }

var S10_deadvar0 = 0

type S10_dead1 struct{ z int }

func (d S10_dead1) Area(k int) int { return d.z * k }
func (d S10_dead1) name() string { return "dead" }
func (d *S10_dead1) bump(k int) { d.z += k }

func S10_unused1(x int) int { return lim(x + 1) }

var S10_deadvar1 = 1

