package main

func S13_main() {
	i0, i1, i2, i3 := 1, 3, -1, 7
	var a0 int8 = -23
	var a1 uint8 = 255
	var a2 int16 = 1004
	var a3 uint32 = 992
	var a4 int64 = 1
	var a5 uint64 = 12021963
	s0, s1 := "héllo", "héllo"
	b0, b1 := false, false
	f0 := 1.25
	sl := []int{1, 2, 3}
	arr := [4]int{1, 1, 3, 4}
	m := map[string]int{"k": 1, "a": 1}
	p := P{a: 1, b: "pb"}
	pp := &P{a: 1}
	fn := func(v int) int { return lim(v*3 + 1) }
	var sh Shape = sq(3)
	_, _, _, _, _, _, _, _, _, _, _, _, _ = a2, a3, a4, a5, b1, f0, fn, sh, s1, b0, arr, m, pp
	b0 = b0
	i0, i1, i2 = i2, i0, lim(i1+1)
	out("S13_b37" + " " + itoa(i0) + "," + itoa(i1) + "," + itoa(i2) + " " + rtq(s0))
	if ((a1 ^ a1) < a1) {
		{
			acc := 0
			for k, v := range m {
				acc += len(k)*7 + v
			}
			i2 = lim(acc)
		}
	} else if ((a1 ^ uint8(36)) < a1) {
		m[itoa(-9)] = lim(i3 + (-10 & 25))
		i2 = len(s0)
		out("S13_b33" + " " + itoa(i0) + "," + itoa(i1) + "," + itoa(i2) + " " + rtq(s0))
	}
	p.c[ix(arr[ix(i1, 4)], 2)] = lim(int((a1 ^ uint8(120))) - (arr[3] ^ 1))
	out("S13_b32" + " " + itoa(i0) + "," + itoa(i1) + "," + itoa(i2) + " " + rtq(s0))
	i1 = -17
	i1 = int(s0[ix((arr[1] / 9), len(s0))])
	out("S13_b30" + " " + itoa(i0) + "," + itoa(i1) + "," + itoa(i2) + " " + rtq(s0))
	{
		acc := 0
		for k, v := range m {
			acc += len(k)*7 + v
		}
		i2 = lim(acc)
	}
	for k, v := range []interface{}{i0, s0, nil, f0, 7, "z", nil} {
		switch x := v.(type) {
		case int:
			i1 = lim(i1 + x)
		case string:
			i2 = lim(i2 + len(x))
		case nil:
			if k%2 == 1 {
				break
			}
			i2 = lim(i2 + 1000)
		default:
			i1 = lim(i1 - 3)
			_ = x
		}
		i3 = lim(i3 + k + 1)
	}
	out("S13_b28" + " " + itoa(i0) + "," + itoa(i1) + "," + itoa(i2) + " " + rtq(s0))
	pp.bump(lim(i1 + len(s0)))
	switch arr[ix(lim(i0 * arr[3]), 4)] % 5 {
	case -4:
		if b0 {
			{
				cl := func(d int) int {
					i0++
					i0, i1 = lim(i0), lim(i1)
					b0 = !(b1)
					out("S13_b22" + " " + itoa(i0) + "," + itoa(i1) + "," + itoa(i2) + " " + rtq(s0))
					i0 = lim(i0 + d)
					return lim(i0 * 2)
				}
				i1 = cl(arr[ix(i1, 4)])
				fn = cl
			}
			b1 = ((((a1 ^ uint8(36)) >> 0) < a1) || i0 >= p.a)
			out("S13_b21" + " " + itoa(i0) + "," + itoa(i1) + "," + itoa(i2) + " " + rtq(s0))
			func() {
				defer func() {
					i1 = lim(i1 + 3)
					if r := recover(); r != nil {
						s1 = cut(s1 + "R")
					}
				}()
				i2 = i0
				a1++
				i0, i1 = lim(i0), lim(i1)
				out("S13_b18" + " " + itoa(i0) + "," + itoa(i1) + "," + itoa(i2) + " " + rtq(s0))
			}()
		} else if (!(i2 < len(sl)) || (a1 < a1)) {
			i0, i1, i2 = i2, i0, lim(i1+1)
			i1 = i0
			out("S13_b16" + " " + itoa(i0) + "," + itoa(i1) + "," + itoa(i2) + " " + rtq(s0))
		}
		switch i0 % 5 {
		case -2:
			for k, v := range []interface{}{i0, s0, nil, f0, 7, "z", nil} {
				switch v.(type) {
				case int:
					i1 = lim(i1 + 1)
				case string:
					i2 = lim(i2 + 1)
				case nil:
					i2 = lim(i2 + 1000)
				}
				i3 = lim(i3 + k + 1)
			}
			i2 = len(sl)
			out("S13_b13" + " " + itoa(i0) + "," + itoa(i1) + "," + itoa(i2) + " " + rtq(s0))
			fallthrough
		case -3, 7:
			i1 = lim(5 * len(s0))
			fallthrough
		case 2:
			for k, v := range []interface{}{i0, s0, nil, f0, 7, "z", nil} {
				switch v.(type) {
				case int:
					i1 = lim(i1 + 1)
				case string:
					if k%2 == 1 {
						break
					}
					i2 = lim(i2 + 1)
				case nil:
					i2 = lim(i2 + 1000)
				default:
					if k%2 == 0 {
						break
					}
					i1 = lim(i1 - 3)
				}
				i3 = lim(i3 + k + 1)
			}
			{
				acc := 0
				for k, v := range m {
					acc += len(k)*7 + v
				}
				i2 = lim(acc)
			}
			out("S13_b10" + " " + itoa(i0) + "," + itoa(i1) + "," + itoa(i2) + " " + rtq(s0))
		default:
			i1 = int(s0[ix(lim(sl[ix(len(s0), len(sl))] + i0), len(s0))])
		}
		out("S13_b9" + " " + itoa(i0) + "," + itoa(i1) + "," + itoa(i2) + " " + rtq(s0))
	default:
		i2 = 1
	}
	out("S13_b8" + " " + itoa(i0) + "," + itoa(i1) + "," + itoa(i2) + " " + rtq(s0))
	{
		gc := 0
	G1:
		gc++
		i3 = lim(i3 + gc)
		if gc < 2 {
			goto G1
		}
	}
	func() {
		defer func() {
			i1 = lim(i1 + 3)
			if r := recover(); r != nil {
				s1 = cut(s1 + "R")
			}
		}()
		i3 = int(s0[ix(i1, len(s0))])
	}()
	out("S13_b5" + " " + itoa(i0) + "," + itoa(i1) + "," + itoa(i2) + " " + rtq(s0))
	a0--
	i0, i1 = lim(i0), lim(i1)
	a2 -= (a2 << 1)
	out("S13_b3" + " " + itoa(i0) + "," + itoa(i1) + "," + itoa(i2) + " " + rtq(s0))
	switch w := lim(45 * 46); lim(w + i1) % 5 {
	case -4:
		func() {
			defer func() {
				i1 = lim(i1 + 3)
				if r := recover(); r != nil {
					s1 = cut(s1 + "R")
				}
			}()
			arr[nx(4)]++
			out("S13_calls " + itoa(cn))
			if i3 == i3 {
				panic("inner")
			}
		}()
	case -2:
	case 2:
	default:
	}
	out("S13_ints " + itoa(i0) + "," + itoa(i1) + "," + itoa(i2) + "," + itoa(i3) + " " + itoa(int(a0)) + "," + itoa(int(a1)) + "," + itoa(int(a2)) + "," + u64toa(uint64(a3)) + "," + i64toa(a4) + "," + u64toa(a5))
	out("S13_strs " + rtq(s0) + " " + rtq(s1) + " " + btoa(b0) + btoa(b1) + " " + f64s(f0))
	fnResult := fn(1)
	shArea := sh.Area(2)
	out("S13_data " + itoa(len(sl)) + ":" + itoa(vsum(sl...)) + " " + itoa(vsum(arr[:]...)) + " " + itoa(len(m)) + ":" + itoa(m["k"]) + " " + itoa(p.a) + rtq(p.b) + itoa(p.c[0]+p.c[1]) + " " + itoa(pp.a) + " " + itoa(fnResult) + " " + sh.name() + itoa(shArea))
}

type S13_dead0 struct{ z int }

func (d S13_dead0) Area(k int) int { return d.z * k }
func (d S13_dead0) name() string { return "dead" }
func (d *S13_dead0) bump(k int) { d.z += k }

func S13_unused0(x int) int { return lim(x + 0) }

var S13_deadvar0 = 0

type S13_dead1 struct{ z int }

func (d S13_dead1) Area(k int) int { return d.z * k }
func (d S13_dead1) name() string { return "dead" }
func (d *S13_dead1) bump(k int) { d.z += k }

func S13_unused1(x int) int { return lim(x + 1) }

var S13_deadvar1 = 1

type S13_dead2 struct{ z int }

func (d S13_dead2) Area(k int) int { return d.z * k }
func (d S13_dead2) name() string { return "dead" }
func (d *S13_dead2) bump(k int) { d.z += k }

func S13_unused2(x int) int { return lim(x + 2) }

var S13_deadvar2 = 2

