package main

func S2_f0(x, z int) int {
	i0, i1, i2, i3 := 25, 51, -25, 7
	var a0 int8 = 21
	var a1 uint8 = 0
	var a2 int16 = 1
	var a3 uint32 = 1
	var a4 int64 = -361
	var a5 uint64 = 0
	s0, s1 := "", "héllo"
	b0, b1 := false, false
	f0 := 25.25
	sl := []int{25, 2, 3}
	arr := [4]int{1, 25, 3, 4}
	m := map[string]int{"k": 25, "a": 1}
	p := P{a: 25, b: "pb"}
	pp := &P{a: 1}
	fn := func(v int) int { return lim(v*3 + 1) }
	var sh Shape = pp
	_, _, _, _, _, _, _, _, _, _, _, _, _ = a2, a3, a4, a5, b1, f0, fn, sh, s1, b0, arr, m, pp
	i0, i1 = lim(x), lim(z)
	if x > 0 && x < 6 {
		i2 = S2_f0(x-1, z+1)
	}
	L1:
	for k := 0; k < 2; k++ {
		i3 = lim(i3 + k)
		for c := 4; c > 0; c-- {
			i2 = lim(i2 + c)
			L2:
			for k, v := range sl[:ix(4, len(sl)+1)] {
				i3 = lim(i3 + k*v)
				a0--
				i0, i1 = lim(i0), lim(i1)
				if i3 == -777777 {
					continue L2
				}
			}
			b1 = (((b1 && true) || !(true)) || (a1 < (a1 ^ uint8(21))))
			out("S2_b2" + " " + itoa(i0) + "," + itoa(i1) + "," + itoa(i2) + " " + rtq(s0))
			{
				cl := func(d int) int {
					a0 += (a0 * (a0 << 9))
					i0 = lim(i0 + d)
					return lim(i0 * 2)
				}
				i1 = cl(i1)
				fn = cl
			}
			if (b0 || b1) {
				break L1
			}
		}
		if i3 == -777777 {
			continue L1
		}
	}
	return lim(i0 + i1*3 + i2*5 + i3*7 + int(a0) + int(a1) + len(s0) + len(sl) + p.a)
}

func S2_f1(x, z int) int {
	i0, i1, i2, i3 := 1, 3, -1, 7
	var a0 int8 = 12
	var a1 uint8 = 44
	var a2 int16 = 145
	var a3 uint32 = 14
	var a4 int64 = 1
	var a5 uint64 = 3669308
	s0, s1 := "go", "abcdef"
	b0, b1 := false, false
	f0 := 1.25
	sl := []int{1, 2, 3}
	arr := [4]int{1, 1, 3, 4}
	m := map[string]int{"k": 1, "a": 1}
	p := P{a: 1, b: "pb"}
	pp := &P{a: 1}
	fn := func(v int) int { return lim(v*3 + 1) }
	var sh Shape = &p
	_, _, _, _, _, _, _, _, _, _, _, _, _ = a2, a3, a4, a5, b1, f0, fn, sh, s1, b0, arr, m, pp
	i0, i1 = lim(x), lim(z)
	if x > 0 && x < 6 {
		i2 = S2_f1(x-1, z+1)
	}
	i2 = lim(-len(sl))
	b0 = ((s1 != s1 || (b0 || p.a <= 0)) || (b1 && (b0 && len(s0) <= i3)))
	out("S2_b1" + " " + itoa(i0) + "," + itoa(i1) + "," + itoa(i2) + " " + rtq(s0))
	b0 = true
	return lim(i0 + i1*3 + i2*5 + i3*7 + int(a0) + int(a1) + len(s0) + len(sl) + p.a)
}

func S2_f2(x, z int) int {
	i0, i1, i2, i3 := 3, 7, -3, 7
	var a0 int8 = 8
	var a1 uint8 = 108
	var a2 int16 = 24
	var a3 uint32 = 8
	var a4 int64 = 1
	var a5 uint64 = 0
	s0, s1 := "abcdef", "héllo"
	b0, b1 := false, false
	f0 := 3.25
	sl := []int{3, 2, 3}
	arr := [4]int{1, 3, 3, 4}
	m := map[string]int{"k": 3, "a": 1}
	p := P{a: 3, b: "pb"}
	pp := &P{a: 1}
	fn := func(v int) int { return lim(v*3 + 1) }
	var sh Shape = &p
	_, _, _, _, _, _, _, _, _, _, _, _, _ = a2, a3, a4, a5, b1, f0, fn, sh, s1, b0, arr, m, pp
	i0, i1 = lim(x), lim(z)
	if x > 0 && x < 6 {
		i2 = S2_f2(x-1, z+1)
	}
	m[cut(p.b + itoa(len(s0)))] = lim((p.a ^ 1) + p.a)
	if v := lim(lim(-1 - p.a) + int(a0)); v > -3 {
		a1 &= a1
		i0, i1, i2 = i2, i0, lim(i1+1)
		out("S2_b0" + " " + itoa(i0) + "," + itoa(i1) + "," + itoa(i2) + " " + rtq(s0))
	} else if i3 < i2 {
	} else if (len(s0) >= p.a && (false && false)) {
	} else {
	}
	out("S2_b0" + " " + itoa(i0) + "," + itoa(i1) + "," + itoa(i2) + " " + rtq(s0))
	return lim(i0 + i1*3 + i2*5 + i3*7 + int(a0) + int(a1) + len(s0) + len(sl) + p.a)
}

func S2_main() {
	i0, i1, i2, i3 := 1, 3, -1, 7
	var a0 int8 = 1
	var a1 uint8 = 166
	var a2 int16 = -2
	var a3 uint32 = 896497779
	var a4 int64 = -2
	var a5 uint64 = 202
	s0, s1 := "", ""
	b0, b1 := false, false
	f0 := 1.25
	sl := []int{1, 2, 3}
	arr := [4]int{1, 1, 3, 4}
	m := map[string]int{"k": 1, "a": 1}
	p := P{a: 1, b: "pb"}
	pp := &P{a: 1}
	fn := func(v int) int { return lim(v*3 + 1) }
	var sh Shape = &p
	_, _, _, _, _, _, _, _, _, _, _, _, _ = a2, a3, a4, a5, b1, f0, fn, sh, s1, b0, arr, m, pp
	{
		i0 := lim(i0 + 3)
		s0 := s0 + "~"
		s1 = s1
		i3 = lim(i3 + i0 + len(s0))
	}
	f0 = fclamp(f0*1.25 + float64(i0)/3.0)
	out("S2_b29" + " " + itoa(i0) + "," + itoa(i1) + "," + itoa(i2) + " " + rtq(s0))
	i0 = i0
	i1 = int(s0[ix(lim(lim(i1 - arr[0]) + i0), len(s0))])
	out("S2_b27" + " " + itoa(i0) + "," + itoa(i1) + "," + itoa(i2) + " " + rtq(s0))
	i0, i1, i2 = i2, i0, lim(i1+1)
	for k, v := range []interface{}{i0, s0, nil, f0, 7, "z", nil} {
		switch v.(type) {
		case int:
			i1 = lim(i1 + 1)
		case string:
			i2 = lim(i2 + 1)
		case nil:
			if k%2 == 1 {
				break
			}
			i2 = lim(i2 + 1000)
		default:
			i1 = lim(i1 - 3)
		}
		i3 = lim(i3 + k + 1)
	}
	out("S2_b25" + " " + itoa(i0) + "," + itoa(i1) + "," + itoa(i2) + " " + rtq(s0))
	m["k"]--
	i0, i1 = lim(i0), lim(i1)
	if v := (31 ^ 3); v > -1 {
		func() {
			defer func() {
				i1 = lim(i1 + 3)
				if r := recover(); r != nil {
					s1 = cut(s1 + "R")
				}
			}()
			i0, i1, i2 = i2, i0, lim(i1+1)
			for k, v := range []interface{}{i0, s0, nil, f0, 7, "z", nil} {
				switch x := v.(type) {
				case int:
					if k%2 == 0 {
						break
					}
					i1 = lim(i1 + x)
				case string:
					i2 = lim(i2 + len(x))
				case nil:
					if k%2 == 0 {
						break
					}
					i2 = lim(i2 + 1000)
				default:
					if k%2 == 0 {
						break
					}
					i1 = lim(i1 - 3)
					_ = x
				}
				i3 = lim(i3 + k + 1)
			}
			out("S2_b20" + " " + itoa(i0) + "," + itoa(i1) + "," + itoa(i2) + " " + rtq(s0))
		}()
		{
			acc := 0
			for k, v := range m {
				acc += len(k)*7 + v
			}
			i2 = lim(acc)
		}
		out("S2_b19" + " " + itoa(i0) + "," + itoa(i1) + "," + itoa(i2) + " " + rtq(s0))
		{
			acc := 0
			for k, v := range m {
				acc += len(k)*7 + v
			}
			i2 = lim(acc)
		}
	} else if s1 == itoa(i1) {
		out("S2_t17" + " " + itoa(i0) + "," + itoa(i1) + "," + itoa(i2) + " " + rtq(s0))
		p.b = sub("k", i0)
		out("S2_b16" + " " + itoa(i0) + "," + itoa(i1) + "," + itoa(i2) + " " + rtq(s0))
	} else if "a" == p.b {
		i1 = p.sum(i0)
		i0, i1, i2 = i2, i0, lim(i1+1)
		out("S2_b14" + " " + itoa(i0) + "," + itoa(i1) + "," + itoa(i2) + " " + rtq(s0))
	} else {
		a5 |= a5
		i0 = len(s0)
		out("S2_b12" + " " + itoa(i0) + "," + itoa(i1) + "," + itoa(i2) + " " + rtq(s0))
	}
	out("S2_b12" + " " + itoa(i0) + "," + itoa(i1) + "," + itoa(i2) + " " + rtq(s0))
	i0 = len(sl)
	i3 = int(s0[ix(((i0 / 9) & 22), len(s0))])
	out("S2_b10" + " " + itoa(i0) + "," + itoa(i1) + "," + itoa(i2) + " " + rtq(s0))
	i1--
	i0, i1 = lim(i0), lim(i1)
	func() {
		defer func() {
			i1 = lim(i1 + 3)
			if r := recover(); r != nil {
				s1 = cut(s1 + "R")
			}
		}()
		i2 = vsum(lim(len(s0) - len(s0)), i0)
		i2 = lim(i2 + vsum(sl...) + vsum())
	}()
	out("S2_b7" + " " + itoa(i0) + "," + itoa(i1) + "," + itoa(i2) + " " + rtq(s0))
	delete(m, string(rune('a' + ix(p.a, 26))))
	{
		cp := p
		cp.a = lim(cp.a + 7)
		cp.c[1] = i0
		arr2 := arr
		arr2[0] = cp.a
		i3 = lim(p.a + cp.a + arr[0] + arr2[0] + p.c[1])
	}
	out("S2_b5" + " " + itoa(i0) + "," + itoa(i1) + "," + itoa(i2) + " " + rtq(s0))
	i2 = lim((lim(-i2) & 4) * lim(i1 - i3))
	f0 = fclamp(f0*1.25 + float64(arr[3])/3.0)
	out("S2_b3" + " " + itoa(i0) + "," + itoa(i1) + "," + itoa(i2) + " " + rtq(s0))
	i3 = lim(p.a + (i1 ^ 7))
	out("S2_t1" + " " + itoa(i0) + "," + itoa(i1) + "," + itoa(i2) + " " + rtq(s0))
	out("S2_b1" + " " + itoa(i0) + "," + itoa(i1) + "," + itoa(i2) + " " + rtq(s0))
	if p.a >= p.a {
	}
	out("S2_ints " + itoa(i0) + "," + itoa(i1) + "," + itoa(i2) + "," + itoa(i3) + " " + itoa(int(a0)) + "," + itoa(int(a1)) + "," + itoa(int(a2)) + "," + u64toa(uint64(a3)) + "," + i64toa(a4) + "," + u64toa(a5))
	out("S2_strs " + rtq(s0) + " " + rtq(s1) + " " + btoa(b0) + btoa(b1) + " " + f64s(f0))
	fnResult := fn(1)
	shArea := sh.Area(2)
	out("S2_data " + itoa(len(sl)) + ":" + itoa(vsum(sl...)) + " " + itoa(vsum(arr[:]...)) + " " + itoa(len(m)) + ":" + itoa(m["k"]) + " " + itoa(p.a) + rtq(p.b) + itoa(p.c[0]+p.c[1]) + " " + itoa(pp.a) + " " + itoa(fnResult) + " " + sh.name() + itoa(shArea))
}

type S2_dead0 struct{ z int }

func (d S2_dead0) Area(k int) int { return d.z * k }
func (d S2_dead0) name() string { return "dead" }
func (d *S2_dead0) bump(k int) { d.z += k }

func S2_unused0(x int) int { return lim(x + 0) }

var S2_deadvar0 = 0

type S2_dead1 struct{ z int }

func (d S2_dead1) Area(k int) int { return d.z * k }
func (d S2_dead1) name() string { return "dead" }
func (d *S2_dead1) bump(k int) { d.z += k }

func S2_unused1(x int) int { return lim(x + 1) }

var S2_deadvar1 = 1

type S2_dead2 struct{ z int }

func (d S2_dead2) Area(k int) int { return d.z * k }
func (d S2_dead2) name() string { return "dead" }
func (d *S2_dead2) bump(k int) { d.z += k }

func S2_unused2(x int) int { return lim(x + 2) }

var S2_deadvar2 = 2

