package main

func S2_main() {
	i0, i1, i2, i3 := 28, 57, -28, 7
	var a0 int8 = -1
	var a1 uint8 = 5
	var a2 int16 = 1
	var a3 uint32 = 7
	var a4 int64 = 338245335
	var a5 uint64 = 345
	s0, s1 := "go", "go"
	b0, b1 := true, false
	f0 := 28.25
	sl := []int{28, 2, 3}
	arr := [4]int{1, 28, 3, 4}
	m := map[string]int{"k": 28, "a": 1}
	p := P{a: 28, b: "pb"}
	pp := &P{a: 1}
	fn := func(v int) int { return lim(v*3 + 1) }
	var sh Shape = pp
	_, _, _, _, _, _, _, _, _, _, _, _, _ = a2, a3, a4, a5, b1, f0, fn, sh, s1, b0, arr, m, pp
	for k, v := range []interface{}{i0, s0, nil, f0, 7, "z", nil} {
		switch v.(type) {
		case int:
			i1 = lim(i1 + 1)
		case string:
			i2 = lim(i2 + 1)
		case nil:
			if k%2 == 1 {
				break
			}
			i2 = lim(i2 + 1000)
		default:
			i1 = lim(i1 - 3)
		}
		i3 = lim(i3 + k + 1)
	}
	i0, i1, i2 = i2, i0, lim(i1+1)
	out("S2_b27" + " " + itoa(i0) + "," + itoa(i1) + "," + itoa(i2) + " " + rtq(s0))
	for k, v := range []interface{}{i0, s0, nil, f0, 7, "z", nil} {
		switch x := v.(type) {
		case int:
			i1 = lim(i1 + x)
		case string:
			i2 = lim(i2 + len(x))
		case nil:
			i2 = lim(i2 + 1000)
		default:
			if k%2 == 1 {
				break
			}
			i1 = lim(i1 - 3)
			_ = x
		}
		i3 = lim(i3 + k + 1)
	}
	a0 ^= int8(uint32(a0))
	out("S2_b25" + " " + itoa(i0) + "," + itoa(i1) + "," + itoa(i2) + " " + rtq(s0))
	{
		cp := p
		cp.a = lim(cp.a + 7)
		cp.c[1] = i0
		arr2 := arr
		arr2[0] = cp.a
		i3 = lim(p.a + cp.a + arr[0] + arr2[0] + p.c[1])
	}
	if (!(true) && (i3 ^ 30) <= lim(p.a + 75)) {
		pp.a++
		i0, i1 = lim(i0), lim(i1)
	} else {
		i0 = lim(lim(i2 + i2) * m[itoa(i3)])
	}
	out("S2_b21" + " " + itoa(i0) + "," + itoa(i1) + "," + itoa(i2) + " " + rtq(s0))
	if ((((a1 ^ uint8(5)) < a1) && ((a1 ^ uint8(25)) < (a1 ^ uint8(7)))) || b1) {
		if (a1 < (a1 ^ (a1 ^ uint8(6)))) {
			func() {
				defer func() {
					i1 = lim(i1 + 3)
					if r := recover(); r != nil {
						s1 = cut(s1 + "R")
					}
				}()
				f0 = fclamp(f0*1.25 + float64(lim(lim(i0 - i3) - arr[ix(arr[2], 4)]))/1.0)
			}()
			{
				i0 := lim(i0 + 2)
				s0 := s0 + "~"
				out("S2_t15" + " " + itoa(i0) + "," + itoa(i1) + "," + itoa(i2) + " " + rtq(s0))
				s1 = itoa(i2)
				out("S2_b14" + " " + itoa(i0) + "," + itoa(i1) + "," + itoa(i2) + " " + rtq(s0))
				i3 = lim(i3 + i0 + len(s0))
			}
			out("S2_b14" + " " + itoa(i0) + "," + itoa(i1) + "," + itoa(i2) + " " + rtq(s0))
			a0--
			i0, i1 = lim(i0), lim(i1)
		} else if itoa(i2) < s0 {
			if len(sl) < 12 {
				sl = append(sl, i1)
			}
			i2 = vsum(lim(len(sl) * arr[0]), -14)
			i2 = lim(i2 + vsum(sl...) + vsum())
			out("S2_b11" + " " + itoa(i0) + "," + itoa(i1) + "," + itoa(i2) + " " + rtq(s0))
		} else if false {
			for k, v := range sl[:ix(1, len(sl)+1)] {
				i3 = lim(i3 + k*v)
				f0 = fclamp(f0*0.5 + float64(lim(-sl[ix(len(sl), len(sl))]))/4.0)
				a0++
				i0, i1 = lim(i0), lim(i1)
				out("S2_b8" + " " + itoa(i0) + "," + itoa(i1) + "," + itoa(i2) + " " + rtq(s0))
				sl[0]--
				i0, i1 = lim(i0), lim(i1)
			}
			b1 = 2 <= i0
			out("S2_b6" + " " + itoa(i0) + "," + itoa(i1) + "," + itoa(i2) + " " + rtq(s0))
		} else {
			arr[ix(lim(i0 + arr[ix(-12, 4)]), 4)] = lim(-m[s1])
			a3--
			i0, i1 = lim(i0), lim(i1)
			out("S2_b4" + " " + itoa(i0) + "," + itoa(i1) + "," + itoa(i2) + " " + rtq(s0))
		}
		sl[ix(lim(-i0), len(sl))] = len(sl)
		out("S2_b3" + " " + itoa(i0) + "," + itoa(i1) + "," + itoa(i2) + " " + rtq(s0))
	}
	{
		ch := make(chan int, 2)
		ch <- 5
		for k := 0; k < 4; k++ {
			select {
			case v := <-ch:
				i1 = lim(i1 + v)
				i1 = lim(i1 + 100)
			default:
				if k%2 == 0 {
						break
				}
				i2 = lim(i2 + 10)
			}
			i3 = lim(i3 + 1)
		}
	}
	out("S2_b2" + " " + itoa(i0) + "," + itoa(i1) + "," + itoa(i2) + " " + rtq(s0))
	i3 = -13
	i3 = i1
	out("S2_b0" + " " + itoa(i0) + "," + itoa(i1) + "," + itoa(i2) + " " + rtq(s0))
	out("S2_ints " + itoa(i0) + "," + itoa(i1) + "," + itoa(i2) + "," + itoa(i3) + " " + itoa(int(a0)) + "," + itoa(int(a1)) + "," + itoa(int(a2)) + "," + u64toa(uint64(a3)) + "," + i64toa(a4) + "," + u64toa(a5))
	out("S2_strs " + rtq(s0) + " " + rtq(s1) + " " + btoa(b0) + btoa(b1) + " " + f64s(f0))
	fnResult := fn(1)
	shArea := sh.Area(2)
	out("S2_data " + itoa(len(sl)) + ":" + itoa(vsum(sl...)) + " " + itoa(vsum(arr[:]...)) + " " + itoa(len(m)) + ":" + itoa(m["k"]) + " " + itoa(p.a) + rtq(p.b) + itoa(p.c[0]+p.c[1]) + " " + itoa(pp.a) + " " + itoa(fnResult) + " " + sh.name() + itoa(shArea))
}

type S2_dead0 struct{ z int }

func (d S2_dead0) Area(k int) int { return d.z * k }
func (d S2_dead0) name() string { return "dead" }
func (d *S2_dead0) bump(k int) { d.z += k }

func S2_unused0(x int) int { return lim(x + 0) }

var S2_deadvar0 = 0

