package main

func S9_f0(x, z int) int {
	i0, i1, i2, i3 := 13, 27, -13, 7
	var a0 int8 = -100
	var a1 uint8 = 112
	var a2 int16 = -1730
	var a3 uint32 = 3949
	var a4 int64 = 51197
	var a5 uint64 = 10
	s0, s1 := "go", "abcdef"
	b0, b1 := false, false
	f0 := 13.25
	sl := []int{13, 2, 3}
	arr := [4]int{1, 13, 3, 4}
	m := map[string]int{"k": 13, "a": 1}
	p := P{a: 13, b: "pb"}
	pp := &P{a: 1}
	fn := func(v int) int { return lim(v*3 + 1) }
	var sh Shape = pp
	_, _, _, _, _, _, _, _, _, _, _, _, _ = a2, a3, a4, a5, b1, f0, fn, sh, s1, b0, arr, m, pp
	i0, i1 = lim(x), lim(z)
	if x > 0 && x < 6 {
		i2 = S9_f0(x-1, z+1)
	}
	for k, v := range []interface{}{i0, s0, nil, f0, 7, "z", nil} {
		switch v.(type) {
		case int:
			if k%2 == 1 {
				break
			}
			i1 = lim(i1 + 1)
		case string:
			i2 = lim(i2 + 1)
		case nil:
			if k%2 == 1 {
				break
			}
			i2 = lim(i2 + 1000)
		default:
			if k%2 == 0 {
				break
			}
			i1 = lim(i1 - 3)
		}
		i3 = lim(i3 + k + 1)
	}
	if b0 {
		L1:
		for c := 1; c > 0; c-- {
			i2 = lim(i2 + c)
			i1 = i0
			if i3 == -777777 {
				continue L1
			}
		}
	}
	out("S9_b0" + " " + itoa(i0) + "," + itoa(i1) + "," + itoa(i2) + " " + rtq(s0))
	return lim(i0 + i1*3 + i2*5 + i3*7 + int(a0) + int(a1) + len(s0) + len(sl) + p.a)
}

func S9_f1(x, z int) int {
	i0, i1, i2, i3 := 1, 3, -1, 7
	var a0 int8 = -72
	var a1 uint8 = 7
	var a2 int16 = -1291
	var a3 uint32 = 5
	var a4 int64 = 170
	var a5 uint64 = 1
	s0, s1 := "go", "abcdef"
	b0, b1 := false, false
	f0 := 1.25
	sl := []int{1, 2, 3}
	arr := [4]int{1, 1, 3, 4}
	m := map[string]int{"k": 1, "a": 1}
	p := P{a: 1, b: "pb"}
	pp := &P{a: 1}
	fn := func(v int) int { return lim(v*3 + 1) }
	var sh Shape = &p
	_, _, _, _, _, _, _, _, _, _, _, _, _ = a2, a3, a4, a5, b1, f0, fn, sh, s1, b0, arr, m, pp
	i0, i1 = lim(x), lim(z)
	if x > 0 && x < 6 {
		i2 = S9_f1(x-1, z+1)
	}
	i1 = (len(s0) % 9)
	if v := lim(-(len(sl) / 1)); v > 0 {
	} else if (i0 / 6) != (i1 & 4) {
	} else {
	}
	out("S9_b0" + " " + itoa(i0) + "," + itoa(i1) + "," + itoa(i2) + " " + rtq(s0))
	return lim(i0 + i1*3 + i2*5 + i3*7 + int(a0) + int(a1) + len(s0) + len(sl) + p.a)
}

func S9_main() {
	i0, i1, i2, i3 := 1, 3, -1, 7
	var a0 int8 = -3
	var a1 uint8 = 165
	var a2 int16 = -152
	var a3 uint32 = 28
	var a4 int64 = 15957
	var a5 uint64 = 39694
	s0, s1 := "abcdef", ""
	b0, b1 := false, false
	f0 := 1.25
	sl := []int{1, 2, 3}
	arr := [4]int{1, 1, 3, 4}
	m := map[string]int{"k": 1, "a": 1}
	p := P{a: 1, b: "pb"}
	pp := &P{a: 1}
	fn := func(v int) int { return lim(v*3 + 1) }
	var sh Shape = sq(3)
	_, _, _, _, _, _, _, _, _, _, _, _, _ = a2, a3, a4, a5, b1, f0, fn, sh, s1, b0, arr, m, pp
	{
		i0 := lim(i0 + 8)
		s0 := s0 + "~"
		if v := i1; v > -5 {
			i0 = 1
			a0 |= int8(int(s0[ix(len(sl), len(s0))]))
			out("S9_b35" + " " + itoa(i0) + "," + itoa(i1) + "," + itoa(i2) + " " + rtq(s0))
		}
		i3 = lim(i3 + i0 + len(s0))
	}
	i0 = (int((a0 >> 3)) & 80)
	out("S9_b34" + " " + itoa(i0) + "," + itoa(i1) + "," + itoa(i2) + " " + rtq(s0))
	i0, i1, i2 = i2, i0, lim(i1+1)
	s0 = string(rune('a' + ix((i3 & 212), 26)))
	out("S9_b32" + " " + itoa(i0) + "," + itoa(i1) + "," + itoa(i2) + " " + rtq(s0))
	switch {
	case b1:
		a4 = int64(lim(i3 * i1)) * 4294967297
		a5 = uint64(a4) >> 36
		a0, a1, a2 = int8(a4), uint8(a5), int16(a4>>0)
	case b1:
		i1 = arr[3]
		f0 = fclamp(f0*3 + float64(lim(len(s0) + p.a))/4.0)
		out("S9_b28" + " " + itoa(i0) + "," + itoa(i1) + "," + itoa(i2) + " " + rtq(s0))
	default:
		b1 = b1
	}
	switch w := lim(-i1); lim(w + sl[ix(int(s0[ix(len(sl), len(s0))]), len(sl))]) % 5 {
	case -3:
		for k, v := range []interface{}{i0, s0, nil, f0, 7, "z", nil} {
			switch x := v.(type) {
			case int:
				i1 = lim(i1 + x)
			case string:
				i2 = lim(i2 + len(x))
			case nil:
				if k%2 == 0 {
					break
				}
				i2 = lim(i2 + 1000)
			default:
				i1 = lim(i1 - 3)
				_ = x
			}
			i3 = lim(i3 + k + 1)
		}
		switch lim(-lim(93 + i2)) % 5 {
		case 1:
			p.b = sub(s0, ((i3 / 1) / 1))
			i3 = lim((m["é"] ^ 36) * arr[0])
			out("S9_b22" + " " + itoa(i0) + "," + itoa(i1) + "," + itoa(i2) + " " + rtq(s0))
		}
		out("S9_b22" + " " + itoa(i0) + "," + itoa(i1) + "," + itoa(i2) + " " + rtq(s0))
	}
	out("S9_b22" + " " + itoa(i0) + "," + itoa(i1) + "," + itoa(i2) + " " + rtq(s0))
	*getpi(&i2) -= 4
	i2 = lim(i2)
	out("S9_calls " + itoa(cn))
	f0 = fclamp(f0*0.5 + float64(i0)/1.0)
	out("S9_b20" + " " + itoa(i0) + "," + itoa(i1) + "," + itoa(i2) + " " + rtq(s0))
	switch (arr[ix(i0, 4)] / 6) % 5 {
	case -3:
		i0, i1, i2 = i2, i0, lim(i1+1)
	}
	i1 = i0
	out("S9_b17" + " " + itoa(i0) + "," + itoa(i1) + "," + itoa(i2) + " " + rtq(s0))
	a4 = int64(lim(arr[2] * p.a)) * 4294967297
	a5 = uint64(a4) >> 7
	a0, a1, a2 = int8(a4), uint8(a5), int16(a4>>20)
	i2 = vsum(i3, lim(len(s0) + len(s0)))
	i2 = lim(i2 + vsum(sl...) + vsum())
	out("S9_b15" + " " + itoa(i0) + "," + itoa(i1) + "," + itoa(i2) + " " + rtq(s0))
	if len(sl) < 12 {
		sl = append(sl, arr[ix((i1 / 2), 4)])
	}
	p.c[ix(i1, 2)] = (lim(arr[2] + len(sl)) & 6)
	out("S9_b13" + " " + itoa(i0) + "," + itoa(i1) + "," + itoa(i2) + " " + rtq(s0))
	i0 = len(sl)
	i3 = lim(lim(arr[ix(-2, 4)] + sl[ix(i2, len(sl))]) * (int(a1) / 2))
	out("S9_b11" + " " + itoa(i0) + "," + itoa(i1) + "," + itoa(i2) + " " + rtq(s0))
	{
		i0 := lim(i0 + 7)
		s0 := s0 + "~"
		switch {
		case s1 == cut(itoa(arr[3]) + s0):
			p.a++
			i0, i1 = lim(i0), lim(i1)
			func() {
				defer func() {
					i1 = lim(i1 + 3)
					if r := recover(); r != nil {
						s1 = cut(s1 + "R")
					}
				}()
				arr[ix(i0, 4)] = (lim(-i3) & 85)
				f0 = fclamp(f0*1.25 + float64(m[itoa(i0)])/7.0)
				out("S9_b5" + " " + itoa(i0) + "," + itoa(i1) + "," + itoa(i2) + " " + rtq(s0))
			}()
			out("S9_b5" + " " + itoa(i0) + "," + itoa(i1) + "," + itoa(i2) + " " + rtq(s0))
		case b0:
			i0 = fn(99)
		default:
			i1 = lim(len(sl) + (i1 & 13))
		}
		for k, v := range sl[:ix(3, len(sl)+1)] {
			i3 = lim(i3 + k*v)
			{
				st := gstack[int]{}
				st.push(i0)
				st.push(int(a2))
				i1 = lim(st.pop() + st.len())
			}
			func() {
				defer func() {
					i1 = lim(i1 + 3)
					if r := recover(); r != nil {
						s1 = cut(s1 + "R")
					}
				}()
				if p.a < i1 {
					panic("inner")
				}
			}()
			out("S9_b0" + " " + itoa(i0) + "," + itoa(i1) + "," + itoa(i2) + " " + rtq(s0))
		}
		out("S9_b0" + " " + itoa(i0) + "," + itoa(i1) + "," + itoa(i2) + " " + rtq(s0))
		i3 = lim(i3 + i0 + len(s0))
	}
	out("S9_ints " + itoa(i0) + "," + itoa(i1) + "," + itoa(i2) + "," + itoa(i3) + " " + itoa(int(a0)) + "," + itoa(int(a1)) + "," + itoa(int(a2)) + "," + u64toa(uint64(a3)) + "," + i64toa(a4) + "," + u64toa(a5))
	out("S9_strs " + rtq(s0) + " " + rtq(s1) + " " + btoa(b0) + btoa(b1) + " " + f64s(f0))
	fnResult := fn(1)
	shArea := sh.Area(2)
	out("S9_data " + itoa(len(sl)) + ":" + itoa(vsum(sl...)) + " " + itoa(vsum(arr[:]...)) + " " + itoa(len(m)) + ":" + itoa(m["k"]) + " " + itoa(p.a) + rtq(p.b) + itoa(p.c[0]+p.c[1]) + " " + itoa(pp.a) + " " + itoa(fnResult) + " " + sh.name() + itoa(shArea))
}

type S9_dead0 struct{ z int }

func (d S9_dead0) Area(k int) int { return d.z * k }
func (d S9_dead0) name() string { return "dead" }
func (d *S9_dead0) bump(k int) { d.z += k }

func S9_unused0(x int) int { return lim(x + 0) }

var S9_deadvar0 = 0

