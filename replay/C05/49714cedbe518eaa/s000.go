package main

func S0_f0(x, z int) int {
	i0, i1, i2, i3 := 0, 1, 0, 7
	var a0 int8 = -20
	var a1 uint8 = 163
	var a2 int16 = 5
	var a3 uint32 = 8990
	var a4 int64 = 3
	var a5 uint64 = 44
	s0, s1 := "héllo", "héllo"
	b0, b1 := true, false
	f0 := 0.25
	sl := []int{0, 2, 3}
	arr := [4]int{1, 0, 3, 4}
	m := map[string]int{"k": 0, "a": 1}
	p := P{a: 0, b: "pb"}
	pp := &P{a: 1}
	fn := func(v int) int { return lim(v*3 + 1) }
	var sh Shape = &p
	_, _, _, _, _, _, _, _, _, _, _, _, _ = a2, a3, a4, a5, b1, f0, fn, sh, s1, b0, arr, m, pp
	i0, i1 = lim(x), lim(z)
	if x > 0 && x < 6 {
		i2 = S0_f0(x-1, z+1)
	}
	{
		ch := make(chan int, 2)
		ch <- 5
		for k := 0; k < 4; k++ {
			select {
			case v := <-ch:
				i1 = lim(i1 + v)
				if k%2 == 1 {
						break
				}
				i1 = lim(i1 + 100)
			default:
				i2 = lim(i2 + 10)
			}
			i3 = lim(i3 + 1)
		}
	}
	p.b = s0
	out("S0_b0" + " " + itoa(i0) + "," + itoa(i1) + "," + itoa(i2) + " " + rtq(s0))
	return lim(i0 + i1*3 + i2*5 + i3*7 + int(a0) + int(a1) + len(s0) + len(sl) + p.a)
}

func S0_f1(x, z int) int {
	i0, i1, i2, i3 := 36, 73, -36, 7
	var a0 int8 = -1
	var a1 uint8 = 3
	var a2 int16 = 362
	var a3 uint32 = 1239430
	var a4 int64 = 5
	var a5 uint64 = 0
	s0, s1 := "go", "go"
	b0, b1 := true, false
	f0 := 36.25
	sl := []int{36, 2, 3}
	arr := [4]int{1, 36, 3, 4}
	m := map[string]int{"k": 36, "a": 1}
	p := P{a: 36, b: "pb"}
	pp := &P{a: 1}
	fn := func(v int) int { return lim(v*3 + 1) }
	var sh Shape = pp
	_, _, _, _, _, _, _, _, _, _, _, _, _ = a2, a3, a4, a5, b1, f0, fn, sh, s1, b0, arr, m, pp
	i0, i1 = lim(x), lim(z)
	if x > 0 && x < 6 {
		i2 = S0_f1(x-1, z+1)
	}
	p.b = p.b
	if len(sl) < 12 {
		sl = append(sl, len(sl))
	}
	out("S0_b8" + " " + itoa(i0) + "," + itoa(i1) + "," + itoa(i2) + " " + rtq(s0))
	if (true && (b0 && itoa(i0) == "bc")) {
		i1 = -12
		i3 = arr[2]
		out("S0_b5" + " " + itoa(i0) + "," + itoa(i1) + "," + itoa(i2) + " " + rtq(s0))
		i3 = lim(81 - i0)
	} else if (true || !(b0)) {
		i3 = len(s0)
		i1 = i0
		out("S0_b2" + " " + itoa(i0) + "," + itoa(i1) + "," + itoa(i2) + " " + rtq(s0))
	} else if false {
		a1++
		i0, i1 = lim(i0), lim(i1)
	}
	i3 = lim((m[s0] ^ 1) * (m[s1] / 3))
	out("S0_b0" + " " + itoa(i0) + "," + itoa(i1) + "," + itoa(i2) + " " + rtq(s0))
	return lim(i0 + i1*3 + i2*5 + i3*7 + int(a0) + int(a1) + len(s0) + len(sl) + p.a)
}

func S0_f2(x, z int) int {
	i0, i1, i2, i3 := 48, 97, -48, 7
	var a0 int8 = -45
	var a1 uint8 = 253
	var a2 int16 = -8
	var a3 uint32 = 319
	var a4 int64 = -855
	var a5 uint64 = 1
	s0, s1 := "go", "abcdef"
	b0, b1 := true, false
	f0 := 48.25
	sl := []int{48, 2, 3}
	arr := [4]int{1, 48, 3, 4}
	m := map[string]int{"k": 48, "a": 1}
	p := P{a: 48, b: "pb"}
	pp := &P{a: 1}
	fn := func(v int) int { return lim(v*3 + 1) }
	var sh Shape = sq(3)
	_, _, _, _, _, _, _, _, _, _, _, _, _ = a2, a3, a4, a5, b1, f0, fn, sh, s1, b0, arr, m, pp
	i0, i1 = lim(x), lim(z)
	i0 = lim(len(s0) + lim(lim(i0 + i1) + i2))
	L1:
	for k, v := range sl[:ix(2, len(sl)+1)] {
		i3 = lim(i3 + k*v)
		pp.bump(m[itoa(i0)])
		for c := 2; c > 0; c-- {
			i2 = lim(i2 + c)
			{
				acc := 0
				for k, v := range m {
					acc += len(k)*7 + v
				}
				i2 = lim(acc)
			}
		}
		out("S0_b2" + " " + itoa(i0) + "," + itoa(i1) + "," + itoa(i2) + " " + rtq(s0))
		a4 |= a4
		if arr[2] <= len(s0) {
			continue L1
		}
		if i3 == -777777 {
			continue L1
		}
	}
	out("S0_b1" + " " + itoa(i0) + "," + itoa(i1) + "," + itoa(i2) + " " + rtq(s0))
	p.b = cut(itoa(lim(p.a * p.a)) + s0)
	return lim(i0 + i1*3 + i2*5 + i3*7 + int(a0) + int(a1) + len(s0) + len(sl) + p.a)
}

func S0_main() {
	i0, i1, i2, i3 := 3, 7, -3, 7
	var a0 int8 = -3
	var a1 uint8 = 0
	var a2 int16 = 2749
	var a3 uint32 = 96
	var a4 int64 = -2818
	var a5 uint64 = 45540
	s0, s1 := "abcdef", "abcdef"
	b0, b1 := false, false
	f0 := 3.25
	sl := []int{3, 2, 3}
	arr := [4]int{1, 3, 3, 4}
	m := map[string]int{"k": 3, "a": 1}
	p := P{a: 3, b: "pb"}
	pp := &P{a: 1}
	fn := func(v int) int { return lim(v*3 + 1) }
	var sh Shape = &p
	_, _, _, _, _, _, _, _, _, _, _, _, _ = a2, a3, a4, a5, b1, f0, fn, sh, s1, b0, arr, m, pp
	a5 *= a5
	if len(sl) > 0 {
		sl[nx(len(sl))] |= 1
		sl[0] = lim(sl[0])
	}
	out("S0_calls " + itoa(cn))
	out("S0_b3" + " " + itoa(i0) + "," + itoa(i1) + "," + itoa(i2) + " " + rtq(s0))
	out("S0_t2" + " " + itoa(i0) + "," + itoa(i1) + "," + itoa(i2) + " " + rtq(s0))
	i1 = int(s0[ix(39, len(s0))])
	out("S0_b1" + " " + itoa(i0) + "," + itoa(i1) + "," + itoa(i2) + " " + rtq(s0))
	i0 = p.a
	out("S0_ints " + itoa(i0) + "," + itoa(i1) + "," + itoa(i2) + "," + itoa(i3) + " " + itoa(int(a0)) + "," + itoa(int(a1)) + "," + itoa(int(a2)) + "," + u64toa(uint64(a3)) + "," + i64toa(a4) + "," + u64toa(a5))
	out("S0_strs " + rtq(s0) + " " + rtq(s1) + " " + btoa(b0) + btoa(b1) + " " + f64s(f0))
	fnResult := fn(1)
	shArea := sh.Area(2)
	out("S0_data " + itoa(len(sl)) + ":" + itoa(vsum(sl...)) + " " + itoa(vsum(arr[:]...)) + " " + itoa(len(m)) + ":" + itoa(m["k"]) + " " + itoa(p.a) + rtq(p.b) + itoa(p.c[0]+p.c[1]) + " " + itoa(pp.a) + " " + itoa(fnResult) + " " + sh.name() + itoa(shArea))
}

type S0_dead0 struct{ z int }

func (d S0_dead0) Area(k int) int { return d.z * k }
func (d S0_dead0) name() string { return "dead" }
func (d *S0_dead0) bump(k int) { d.z += k }

func S0_unused0(x int) int { return lim(x + 0) }

var S0_deadvar0 = 0

