package main

func S8_main() {
	i0, i1, i2, i3 := 6, 13, -6, 7
	var a0 int8 = -3
	var a1 uint8 = 7
	var a2 int16 = 3000
	var a3 uint32 = 38
	var a4 int64 = 3
	var a5 uint64 = 98472
	s0, s1 := "abcdef", "héllo"
	b0, b1 := true, false
	f0 := 6.25
	sl := []int{6, 2, 3}
	arr := [4]int{1, 6, 3, 4}
	m := map[string]int{"k": 6, "a": 1}
	p := P{a: 6, b: "pb"}
	pp := &P{a: 1}
	fn := func(v int) int { return lim(v*3 + 1) }
	var sh Shape = &p
	_, _, _, _, _, _, _, _, _, _, _, _, _ = a2, a3, a4, a5, b1, f0, fn, sh, s1, b0, arr, m, pp
	i0, i1, i2 = i2, i0, lim(i1+1)
	i0 = lim(lim(arr[3] * (arr[0] % 5)) - len(s0))
	out("S8_b3" + " " + itoa(i0) + "," + itoa(i1) + "," + itoa(i2) + " " + rtq(s0))
	p.c[ix(i0, 2)] = i3
	i1 = (i3 % 8)
	out("S8_b1" + " " + itoa(i0) + "," + itoa(i1) + "," + itoa(i2) + " " + rtq(s0))
	{
		acc := 0
		for k, v := range m {
			acc += len(k)*7 + v
		}
		i2 = lim(acc)
	}
	out("S8_ints " + itoa(i0) + "," + itoa(i1) + "," + itoa(i2) + "," + itoa(i3) + " " + itoa(int(a0)) + "," + itoa(int(a1)) + "," + itoa(int(a2)) + "," + u64toa(uint64(a3)) + "," + i64toa(a4) + "," + u64toa(a5))
	out("S8_strs " + rtq(s0) + " " + rtq(s1) + " " + btoa(b0) + btoa(b1) + " " + f64s(f0))
	fnResult := fn(1)
	shArea := sh.Area(2)
	out("S8_data " + itoa(len(sl)) + ":" + itoa(vsum(sl...)) + " " + itoa(vsum(arr[:]...)) + " " + itoa(len(m)) + ":" + itoa(m["k"]) + " " + itoa(p.a) + rtq(p.b) + itoa(p.c[0]+p.c[1]) + " " + itoa(pp.a) + " " + itoa(fnResult) + " " + sh.name() + itoa(shArea))
	panic("scenario S8_ gives up")
}

type S8_dead0 struct{ z int }

func (d S8_dead0) Area(k int) int { return d.z * k }
func (d S8_dead0) name() string { return "dead" }
func (d *S8_dead0) bump(k int) { d.z += k }

func S8_unused0(x int) int { return lim(x + 0) }

var S8_deadvar0 = 0

