package main

func S8_f0(x, z int) int {
	i0, i1, i2, i3 := 23, 47, -23, 7
	var a0 int8 = 47
	var a1 uint8 = 27
	var a2 int16 = 1557
	var a3 uint32 = 3
	var a4 int64 = -1577
	var a5 uint64 = 37864
	s0, s1 := "", "go"
	b0, b1 := false, false
	f0 := 23.25
	sl := []int{23, 2, 3}
	arr := [4]int{1, 23, 3, 4}
	m := map[string]int{"k": 23, "a": 1}
	p := P{a: 23, b: "pb"}
	pp := &P{a: 1}
	fn := func(v int) int { return lim(v*3 + 1) }
	var sh Shape = pp
	_, _, _, _, _, _, _, _, _, _, _, _, _ = a2, a3, a4, a5, b1, f0, fn, sh, s1, b0, arr, m, pp
	i0, i1 = lim(x), lim(z)
	if x > 0 && x < 6 {
		i2 = S8_f0(x-1, z+1)
	}
	out("S8_t3" + " " + itoa(i0) + "," + itoa(i1) + "," + itoa(i2) + " " + rtq(s0))
	a2 += (int16(p.a) | (a2 ^ int16(37)))
	out("S8_b2" + " " + itoa(i0) + "," + itoa(i1) + "," + itoa(i2) + " " + rtq(s0))
	a4 = int64((arr[0] % 2)) * 4294967297
	a5 = uint64(a4) >> 3
	a0, a1, a2 = int8(a4), uint8(a5), int16(a4>>13)
	i0, i1, i2 = i2, i0, lim(i1+1)
	out("S8_b0" + " " + itoa(i0) + "," + itoa(i1) + "," + itoa(i2) + " " + rtq(s0))
	return lim(i0 + i1*3 + i2*5 + i3*7 + int(a0) + int(a1) + len(s0) + len(sl) + p.a)
}

func S8_main() {
	i0, i1, i2, i3 := 45, 91, -45, 7
	var a0 int8 = 84
	var a1 uint8 = 73
	var a2 int16 = -549
	var a3 uint32 = 856
	var a4 int64 = 4655944
	var a5 uint64 = 70
	s0, s1 := "abcdef", ""
	b0, b1 := false, false
	f0 := 45.25
	sl := []int{45, 2, 3}
	arr := [4]int{1, 45, 3, 4}
	m := map[string]int{"k": 45, "a": 1}
	p := P{a: 45, b: "pb"}
	pp := &P{a: 1}
	fn := func(v int) int { return lim(v*3 + 1) }
	var sh Shape = pp
	_, _, _, _, _, _, _, _, _, _, _, _, _ = a2, a3, a4, a5, b1, f0, fn, sh, s1, b0, arr, m, pp
	a4 = int64(arr[ix(len(sl), 4)]) * 4294967297
	a5 = uint64(a4) >> 3
	a0, a1, a2 = int8(a4), uint8(a5), int16(a4>>11)
	i1 = lim(len(sl) + len(sl))
	out("S8_b3" + " " + itoa(i0) + "," + itoa(i1) + "," + itoa(i2) + " " + rtq(s0))
	i1 = arr[ix(i2, 4)]
	i1 = i2
	out("S8_b1" + " " + itoa(i0) + "," + itoa(i1) + "," + itoa(i2) + " " + rtq(s0))
	for k, v := range sl[:ix(2, len(sl)+1)] {
		i3 = lim(i3 + k*v)
		if false {
			continue
		}
	}
	out("S8_ints " + itoa(i0) + "," + itoa(i1) + "," + itoa(i2) + "," + itoa(i3) + " " + itoa(int(a0)) + "," + itoa(int(a1)) + "," + itoa(int(a2)) + "," + u64toa(uint64(a3)) + "," + i64toa(a4) + "," + u64toa(a5))
	out("S8_strs " + rtq(s0) + " " + rtq(s1) + " " + btoa(b0) + btoa(b1) + " " + f64s(f0))
	fnResult := fn(1)
	shArea := sh.Area(2)
	out("S8_data " + itoa(len(sl)) + ":" + itoa(vsum(sl...)) + " " + itoa(vsum(arr[:]...)) + " " + itoa(len(m)) + ":" + itoa(m["k"]) + " " + itoa(p.a) + rtq(p.b) + itoa(p.c[0]+p.c[1]) + " " + itoa(pp.a) + " " + itoa(fnResult) + " " + sh.name() + itoa(shArea))
	sl[len(sl)+ix(i0, 3)] = 1
}

type S8_dead0 struct{ z int }

func (d S8_dead0) Area(k int) int { return d.z * k }
func (d S8_dead0) name() string { return "dead" }
func (d *S8_dead0) bump(k int) { d.z += k }

func S8_unused0(x int) int { return lim(x + 0) }

var S8_deadvar0 = 0

type S8_dead1 struct{ z int }

func (d S8_dead1) Area(k int) int { return d.z * k }
func (d S8_dead1) name() string { return "dead" }
func (d *S8_dead1) bump(k int) { d.z += k }

func S8_unused1(x int) int { return lim(x + 1) }

var S8_deadvar1 = 1

