package main

func S2_f0(x, z int) int {
	i0, i1, i2, i3 := 3, 7, -3, 7
	var a0 int8 = -1
	var a1 uint8 = 0
	var a2 int16 = 3
	var a3 uint32 = 5
	var a4 int64 = 1
	var a5 uint64 = 86
	s0, s1 := "héllo", "héllo"
	b0, b1 := false, false
	f0 := 3.25
	sl := []int{3, 2, 3}
	arr := [4]int{1, 3, 3, 4}
	m := map[string]int{"k": 3, "a": 1}
	p := P{a: 3, b: "pb"}
	pp := &P{a: 1}
	fn := func(v int) int { return lim(v*3 + 1) }
	var sh Shape = &p
	_, _, _, _, _, _, _, _, _, _, _, _, _ = a2, a3, a4, a5, b1, f0, fn, sh, s1, b0, arr, m, pp
	i0, i1 = lim(x), lim(z)
	if x > 0 && x < 6 {
		i2 = S2_f0(x-1, z+1)
	}
	i1 = i2
	i1 = len(sl)
	out("S2_b4" + " " + itoa(i0) + "," + itoa(i1) + "," + itoa(i2) + " " + rtq(s0))
	i3 = i0
	i2 = vsum(lim(i3 * i3), len(s0))
	i2 = lim(i2 + vsum(sl...) + vsum())
	out("S2_b2" + " " + itoa(i0) + "," + itoa(i1) + "," + itoa(i2) + " " + rtq(s0))
	i3 = i1
	out("S2_t0" + " " + itoa(i0) + "," + itoa(i1) + "," + itoa(i2) + " " + rtq(s0))
	out("S2_b0" + " " + itoa(i0) + "," + itoa(i1) + "," + itoa(i2) + " " + rtq(s0))
	return lim(i0 + i1*3 + i2*5 + i3*7 + int(a0) + int(a1) + len(s0) + len(sl) + p.a)
}

func S2_f1(x, z int) int {
	i0, i1, i2, i3 := 43, 87, -43, 7
	var a0 int8 = -43
	var a1 uint8 = 0
	var a2 int16 = 1670
	var a3 uint32 = 756
	var a4 int64 = -286729790
	var a5 uint64 = 1178
	s0, s1 := "abcdef", "abcdef"
	b0, b1 := false, false
	f0 := 43.25
	sl := []int{43, 2, 3}
	arr := [4]int{1, 43, 3, 4}
	m := map[string]int{"k": 43, "a": 1}
	p := P{a: 43, b: "pb"}
	pp := &P{a: 1}
	fn := func(v int) int { return lim(v*3 + 1) }
	var sh Shape = &p
	_, _, _, _, _, _, _, _, _, _, _, _, _ = a2, a3, a4, a5, b1, f0, fn, sh, s1, b0, arr, m, pp
	i0, i1 = lim(x), lim(z)
	if x > 0 && x < 6 {
		i2 = S2_f1(x-1, z+1)
	}
	i2 = S2_f0(i2, arr[3])
	i2 = int(s0[ix(i1, len(s0))])
	out("S2_b8" + " " + itoa(i0) + "," + itoa(i1) + "," + itoa(i2) + " " + rtq(s0))
	a0 &= ((a0 ^ int8(78)) << 7)
	switch t := sh.(type) {
	case *P:
		i1 = lim(t.a + 1)
	case sq:
		i1 = int(t)
	}
	out("S2_b6" + " " + itoa(i0) + "," + itoa(i1) + "," + itoa(i2) + " " + rtq(s0))
	{
		cp := p
		cp.a = lim(cp.a + 7)
		cp.c[1] = i0
		arr2 := arr
		arr2[0] = cp.a
		i3 = lim(p.a + cp.a + arr[0] + arr2[0] + p.c[1])
	}
	a0 |= (a0 ^ int8(115))
	out("S2_b4" + " " + itoa(i0) + "," + itoa(i1) + "," + itoa(i2) + " " + rtq(s0))
	i2 = vsum((p.a % 5), len(sl))
	i2 = lim(i2 + vsum(sl...) + vsum())
	i0 = m[s0]
	out("S2_b2" + " " + itoa(i0) + "," + itoa(i1) + "," + itoa(i2) + " " + rtq(s0))
	i3 = len(s0)
	a1 -= uint8(lim(len(sl) - i0))
	out("S2_b0" + " " + itoa(i0) + "," + itoa(i1) + "," + itoa(i2) + " " + rtq(s0))
	return lim(i0 + i1*3 + i2*5 + i3*7 + int(a0) + int(a1) + len(s0) + len(sl) + p.a)
}

func S2_f2(x, z int) int {
	i0, i1, i2, i3 := 41, 83, -41, 7
	var a0 int8 = -91
	var a1 uint8 = 20
	var a2 int16 = 1
	var a3 uint32 = 5146030
	var a4 int64 = -4
	var a5 uint64 = 16
	s0, s1 := "héllo", "héllo"
	b0, b1 := false, false
	f0 := 41.25
	sl := []int{41, 2, 3}
	arr := [4]int{1, 41, 3, 4}
	m := map[string]int{"k": 41, "a": 1}
	p := P{a: 41, b: "pb"}
	pp := &P{a: 1}
	fn := func(v int) int { return lim(v*3 + 1) }
	var sh Shape = pp
	_, _, _, _, _, _, _, _, _, _, _, _, _ = a2, a3, a4, a5, b1, f0, fn, sh, s1, b0, arr, m, pp
	i0, i1 = lim(x), lim(z)
	switch t := sh.(type) {
	case *P:
		i1 = lim(t.a + 1)
	case sq:
		i1 = int(t)
	}
	i0 = (10 % 6)
	out("S2_b7" + " " + itoa(i0) + "," + itoa(i1) + "," + itoa(i2) + " " + rtq(s0))
	f0 = fclamp(f0*3 + float64(arr[3])/1.0)
	i0 = fn(i0)
	out("S2_b5" + " " + itoa(i0) + "," + itoa(i1) + "," + itoa(i2) + " " + rtq(s0))
	i0, i1, i2 = i2, i0, lim(i1+1)
	i0 = -1
	out("S2_b3" + " " + itoa(i0) + "," + itoa(i1) + "," + itoa(i2) + " " + rtq(s0))
	i2 = S2_f1(m[p.b], len(s0))
	i0 = lim(gmax(i0, int((a0 ^ int8(81)))))
	s0 = gmax(s0, itoa(arr[0]))
	out("S2_b1" + " " + itoa(i0) + "," + itoa(i1) + "," + itoa(i2) + " " + rtq(s0))
	i0 = lim(lim(sl[ix(len(s0), len(sl))] + m[s0]) + i2)
	return lim(i0 + i1*3 + i2*5 + i3*7 + int(a0) + int(a1) + len(s0) + len(sl) + p.a)
}

func S2_main() {
	i0, i1, i2, i3 := 36, 73, -36, 7
	var a0 int8 = -1
	var a1 uint8 = 7
	var a2 int16 = 3
	var a3 uint32 = 4
	var a4 int64 = 7
	var a5 uint64 = 381452
	s0, s1 := "go", "abcdef"
	b0, b1 := true, false
	f0 := 36.25
	sl := []int{36, 2, 3}
	arr := [4]int{1, 36, 3, 4}
	m := map[string]int{"k": 36, "a": 1}
	p := P{a: 36, b: "pb"}
	pp := &P{a: 1}
	fn := func(v int) int { return lim(v*3 + 1) }
	var sh Shape = pp
	_, _, _, _, _, _, _, _, _, _, _, _, _ = a2, a3, a4, a5, b1, f0, fn, sh, s1, b0, arr, m, pp
	{
		cl := func(d int) int {
			s1 = s0
			i0 = lim(i0 + d)
			return lim(i0 * 2)
		}
		i1 = cl(lim(-i1))
		fn = cl
	}
	i0, i1, i2 = i2, i0, lim(i1+1)
	out("S2_b3" + " " + itoa(i0) + "," + itoa(i1) + "," + itoa(i2) + " " + rtq(s0))
	{
		ch := make(chan int, 2)
		ch <- 5
		for k := 0; k < 4; k++ {
			select {
			case v := <-ch:
				i1 = lim(i1 + v)
				i1 = lim(i1 + 100)
			default:
				i2 = lim(i2 + 10)
			}
			i3 = lim(i3 + 1)
		}
	}
	{
		gc := 0
	G1:
		gc++
		i3 = lim(i3 + gc)
		if gc < 2 {
			goto G1
		}
	}
	out("S2_b1" + " " + itoa(i0) + "," + itoa(i1) + "," + itoa(i2) + " " + rtq(s0))
	i0 = lim(gmax(i0, lim(i1 - i1)))
	s0 = gmax(s0, "k")
	out("S2_ints " + itoa(i0) + "," + itoa(i1) + "," + itoa(i2) + "," + itoa(i3) + " " + itoa(int(a0)) + "," + itoa(int(a1)) + "," + itoa(int(a2)) + "," + u64toa(uint64(a3)) + "," + i64toa(a4) + "," + u64toa(a5))
	out("S2_strs " + rtq(s0) + " " + rtq(s1) + " " + btoa(b0) + btoa(b1) + " " + f64s(f0))
	fnResult := fn(1)
	shArea := sh.Area(2)
	out("S2_data " + itoa(len(sl)) + ":" + itoa(vsum(sl...)) + " " + itoa(vsum(arr[:]...)) + " " + itoa(len(m)) + ":" + itoa(m["k"]) + " " + itoa(p.a) + rtq(p.b) + itoa(p.c[0]+p.c[1]) + " " + itoa(pp.a) + " " + itoa(fnResult) + " " + sh.name() + itoa(shArea))
	panic("scenario S2_ gives up")
}

type S2_dead0 struct{ z int }

func (d S2_dead0) Area(k int) int { return d.z * k }
func (d S2_dead0) name() string { return "dead" }
func (d *S2_dead0) bump(k int) { d.z += k }

func S2_unused0(x int) int { return lim(x + 0) }

var S2_deadvar0 = 0

