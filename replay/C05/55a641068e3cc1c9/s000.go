package main

func S0_f0(x, z int) int {
	i0, i1, i2, i3 := 45, 91, -45, 7
	var a0 int8 = 31
	var a1 uint8 = 233
	var a2 int16 = 898
	var a3 uint32 = 7575731
	var a4 int64 = 56107065
	var a5 uint64 = 8
	s0, s1 := "abcdef", ""
	b0, b1 := false, false
	f0 := 45.25
	sl := []int{45, 2, 3}
	arr := [4]int{1, 45, 3, 4}
	m := map[string]int{"k": 45, "a": 1}
	p := P{a: 45, b: "pb"}
	pp := &P{a: 1}
	fn := func(v int) int { return lim(v*3 + 1) }
	var sh Shape = sq(3)
	_, _, _, _, _, _, _, _, _, _, _, _, _ = a2, a3, a4, a5, b1, f0, fn, sh, s1, b0, arr, m, pp
	i0, i1 = lim(x), lim(z)
	if x > 0 && x < 6 {
		i2 = S0_f0(x-1, z+1)
	}
	i0--
	i0, i1 = lim(i0), lim(i1)
	if !(false) {
		if true {
			a4 = int64(int(s0[ix(i0, len(s0))])) * 4294967297
			a5 = uint64(a4) >> 27
			a0, a1, a2 = int8(a4), uint8(a5), int16(a4>>1)
		} else {
		}
	} else {
	}
	out("S0_b0" + " " + itoa(i0) + "," + itoa(i1) + "," + itoa(i2) + " " + rtq(s0))
	return lim(i0 + i1*3 + i2*5 + i3*7 + int(a0) + int(a1) + len(s0) + len(sl) + p.a)
}

func S0_f1(x, z int) int {
	i0, i1, i2, i3 := 30, 61, -30, 7
	var a0 int8 = -5
	var a1 uint8 = 206
	var a2 int16 = 0
	var a3 uint32 = 319967330
	var a4 int64 = -26958
	var a5 uint64 = 211
	s0, s1 := "héllo", "abcdef"
	b0, b1 := true, false
	f0 := 30.25
	sl := []int{30, 2, 3}
	arr := [4]int{1, 30, 3, 4}
	m := map[string]int{"k": 30, "a": 1}
	p := P{a: 30, b: "pb"}
	pp := &P{a: 1}
	fn := func(v int) int { return lim(v*3 + 1) }
	var sh Shape = pp
	_, _, _, _, _, _, _, _, _, _, _, _, _ = a2, a3, a4, a5, b1, f0, fn, sh, s1, b0, arr, m, pp
	i0, i1 = lim(x), lim(z)
	if x > 0 && x < 6 {
		i2 = S0_f1(x-1, z+1)
	}
	i3 = i1
	delete(m, s0)
	out("S0_b8" + " " + itoa(i0) + "," + itoa(i1) + "," + itoa(i2) + " " + rtq(s0))
	if v := i1; v > 1 {
		out("S0_t6" + " " + itoa(i0) + "," + itoa(i1) + "," + itoa(i2) + " " + rtq(s0))
		i0, i1, i2 = i2, i0, lim(i1+1)
		out("S0_b5" + " " + itoa(i0) + "," + itoa(i1) + "," + itoa(i2) + " " + rtq(s0))
	} else if i3 == i1 {
		a3++
		i0, i1 = lim(i0), lim(i1)
	}
	i2 = p.a
	out("S0_b3" + " " + itoa(i0) + "," + itoa(i1) + "," + itoa(i2) + " " + rtq(s0))
	for k, v := range []interface{}{i0, s0, nil, f0, 7, "z", nil} {
		switch x := v.(type) {
		case int:
			i1 = lim(i1 + x)
		case string:
			i2 = lim(i2 + len(x))
		case nil:
			if k%2 == 0 {
				break
			}
			i2 = lim(i2 + 1000)
		default:
			i1 = lim(i1 - 3)
			_ = x
		}
		i3 = lim(i3 + k + 1)
	}
	for k, v := range []interface{}{i0, s0, nil, f0, 7, "z", nil} {
		switch v.(type) {
		case int:
			i1 = lim(i1 + 1)
		case string:
			i2 = lim(i2 + 1)
		case nil:
			i2 = lim(i2 + 1000)
		default:
			if k%2 == 0 {
				break
			}
			i1 = lim(i1 - 3)
		}
		i3 = lim(i3 + k + 1)
	}
	out("S0_b1" + " " + itoa(i0) + "," + itoa(i1) + "," + itoa(i2) + " " + rtq(s0))
	{
		ch := make(chan int, 2)
		ch <- 5
		for k := 0; k < 4; k++ {
			select {
			case v := <-ch:
				i1 = lim(i1 + v)
				if k%2 == 1 {
						break
				}
				i1 = lim(i1 + 100)
			default:
				i2 = lim(i2 + 10)
			}
			i3 = lim(i3 + 1)
		}
	}
	return lim(i0 + i1*3 + i2*5 + i3*7 + int(a0) + int(a1) + len(s0) + len(sl) + p.a)
}

func S0_main() {
	i0, i1, i2, i3 := 50, 101, -50, 7
	var a0 int8 = -2
	var a1 uint8 = 1
	var a2 int16 = -13
	var a3 uint32 = 16
	var a4 int64 = -12259
	var a5 uint64 = 0
	s0, s1 := "héllo", "héllo"
	b0, b1 := true, false
	f0 := 50.25
	sl := []int{50, 2, 3}
	arr := [4]int{1, 50, 3, 4}
	m := map[string]int{"k": 50, "a": 1}
	p := P{a: 50, b: "pb"}
	pp := &P{a: 1}
	fn := func(v int) int { return lim(v*3 + 1) }
	var sh Shape = pp
	_, _, _, _, _, _, _, _, _, _, _, _, _ = a2, a3, a4, a5, b1, f0, fn, sh, s1, b0, arr, m, pp
	b0 = (((a1 < a1) || true) || b0)
	b1 = (!(b0) && true)
	out("S0_b28" + " " + itoa(i0) + "," + itoa(i1) + "," + itoa(i2) + " " + rtq(s0))
	i2 = S0_f0(i0, i0)
	L1:
	for k, v := range sl[:ix(4, len(sl)+1)] {
		i3 = lim(i3 + k*v)
		switch {
		case b0:
			b1 = (false && arr[0] == i0)
			pp.a--
			i0, i1 = lim(i0), lim(i1)
			out("S0_b23" + " " + itoa(i0) + "," + itoa(i1) + "," + itoa(i2) + " " + rtq(s0))
		case ((b1 && false) || (b0 || len(sl) >= len(s0))):
			i1 = lim(i1 - arr[0])
			switch t := sh.(type) {
			case *P:
				i1 = lim(t.a + 1)
			case sq:
				i1 = int(t)
			}
			out("S0_b21" + " " + itoa(i0) + "," + itoa(i1) + "," + itoa(i2) + " " + rtq(s0))
		case (b1 && !(b1)):
			i0 = i0
		default:
			i2 = S0_f1(arr[ix(i3, 4)], lim(i1 + len(s0)))
		}
		i3 = (lim(lim(p.a - len(s0)) - (i0 ^ 4)) ^ 62)
		out("S0_b18" + " " + itoa(i0) + "," + itoa(i1) + "," + itoa(i2) + " " + rtq(s0))
		a1 -= a1
		if itoa(len(sl)) == s1 {
			continue
		}
		if i3 == -777777 {
			continue L1
		}
	}
	out("S0_b17" + " " + itoa(i0) + "," + itoa(i1) + "," + itoa(i2) + " " + rtq(s0))
	a2 += a2
	i0, i1, i2 = i2, i0, lim(i1+1)
	out("S0_b15" + " " + itoa(i0) + "," + itoa(i1) + "," + itoa(i2) + " " + rtq(s0))
	i1 = lim(i3 + m[s0])
	i2 = lim(-(lim(0 + arr[2]) % 1))
	out("S0_b13" + " " + itoa(i0) + "," + itoa(i1) + "," + itoa(i2) + " " + rtq(s0))
	i3 = lim(0 * arr[0])
	i0 = len(sl)
	out("S0_b11" + " " + itoa(i0) + "," + itoa(i1) + "," + itoa(i2) + " " + rtq(s0))
	i0 = (len(s0) ^ 3)
	i3 = p.a
	out("S0_b9" + " " + itoa(i0) + "," + itoa(i1) + "," + itoa(i2) + " " + rtq(s0))
	{
		gc := 0
	G2:
		gc++
		i3 = lim(i3 + gc)
		if gc < 2 {
			goto G2
		}
	}
	arr[ix((i2 / 1), 4)] = i1
	out("S0_b7" + " " + itoa(i0) + "," + itoa(i1) + "," + itoa(i2) + " " + rtq(s0))
	switch (i1 / 8) % 5 {
	case 1:
		a1 &= (a1 ^ uint8(14))
		if len(s0) < i1 {
			break
		}
		i1 = lim(i1 + 1)
	case 2:
		i0, i1, i2 = i2, i0, lim(i1+1)
	default:
		i1 = i1
	}
	switch lim(i3 + -3) % 5 {
	case 3:
		i0 = lim(3 * i1)
		f0 = fclamp(f0*3 + float64(i0)/1.0)
		out("S0_b0" + " " + itoa(i0) + "," + itoa(i1) + "," + itoa(i2) + " " + rtq(s0))
	default:
	}
	out("S0_b0" + " " + itoa(i0) + "," + itoa(i1) + "," + itoa(i2) + " " + rtq(s0))
	out("S0_ints " + itoa(i0) + "," + itoa(i1) + "," + itoa(i2) + "," + itoa(i3) + " " + itoa(int(a0)) + "," + itoa(int(a1)) + "," + itoa(int(a2)) + "," + u64toa(uint64(a3)) + "," + i64toa(a4) + "," + u64toa(a5))
	out("S0_strs " + rtq(s0) + " " + rtq(s1) + " " + btoa(b0) + btoa(b1) + " " + f64s(f0))
	fnResult := fn(1)
	shArea := sh.Area(2)
	out("S0_data " + itoa(len(sl)) + ":" + itoa(vsum(sl...)) + " " + itoa(vsum(arr[:]...)) + " " + itoa(len(m)) + ":" + itoa(m["k"]) + " " + itoa(p.a) + rtq(p.b) + itoa(p.c[0]+p.c[1]) + " " + itoa(pp.a) + " " + itoa(fnResult) + " " + sh.name() + itoa(shArea))
	<-make(chan int)
}

type S0_dead0 struct{ z int }

func (d S0_dead0) Area(k int) int { return d.z * k }
func (d S0_dead0) name() string { return "dead" }
func (d *S0_dead0) bump(k int) { d.z += k }

func S0_unused0(x int) int { return lim(x + 0) }

var S0_deadvar0 = 0

type S0_dead1 struct{ z int }

func (d S0_dead1) Area(k int) int { return d.z * k }
func (d S0_dead1) name() string { return "dead" }
func (d *S0_dead1) bump(k int) { d.z += k }

func S0_unused1(x int) int { return lim(x + 1) }

var S0_deadvar1 = 1

type S0_dead2 struct{ z int }

func (d S0_dead2) Area(k int) int { return d.z * k }
func (d S0_dead2) name() string { return "dead" }
func (d *S0_dead2) bump(k int) { d.z += k }

func S0_unused2(x int) int { return lim(x + 2) }

var S0_deadvar2 = 2

