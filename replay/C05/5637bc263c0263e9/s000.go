package main

func S1_f0(x, z int) int {
	i0, i1, i2, i3 := 3, 7, -3, 7
	var a0 int8 = -50
	var a1 uint8 = 47
	var a2 int16 = -1199
	var a3 uint32 = 337312
	var a4 int64 = 2147792
	var a5 uint64 = 2
	s0, s1 := "abcdef", "abcdef"
	b0, b1 := false, false
	f0 := 3.25
	sl := []int{3, 2, 3}
	arr := [4]int{1, 3, 3, 4}
	m := map[string]int{"k": 3, "a": 1}
	p := P{a: 3, b: "pb"}
	pp := &P{a: 1}
	fn := func(v int) int { return lim(v*3 + 1) }
	var sh Shape = sq(3)
	_, _, _, _, _, _, _, _, _, _, _, _, _ = a2, a3, a4, a5, b1, f0, fn, sh, s1, b0, arr, m, pp
	i0, i1 = lim(x), lim(z)
	if x > 0 && x < 6 {
		i2 = S1_f0(x-1, z+1)
	}
	a4 = int64((arr[3] ^ 1)) * 4294967297
	a5 = uint64(a4) >> 40
	a0, a1, a2 = int8(a4), uint8(a5), int16(a4>>1)
	i2 = sl[ix(lim(len(sl) + lim(-i0)), len(sl))]
	out("S1_b4" + " " + itoa(i0) + "," + itoa(i1) + "," + itoa(i2) + " " + rtq(s0))
	p.b = s0
	{
		cp := p
		cp.a = lim(cp.a + 7)
		cp.c[1] = i0
		arr2 := arr
		arr2[0] = cp.a
		i3 = lim(p.a + cp.a + arr[0] + arr2[0] + p.c[1])
	}
	out("S1_b2" + " " + itoa(i0) + "," + itoa(i1) + "," + itoa(i2) + " " + rtq(s0))
	i0, i1, i2 = i2, i0, lim(i1+1)
	i0 = i3
	out("S1_b0" + " " + itoa(i0) + "," + itoa(i1) + "," + itoa(i2) + " " + rtq(s0))
	return lim(i0 + i1*3 + i2*5 + i3*7 + int(a0) + int(a1) + len(s0) + len(sl) + p.a)
}

func S1_f1(x, z int) int {
	i0, i1, i2, i3 := 12, 25, -12, 7
	var a0 int8 = -8
	var a1 uint8 = 1
	var a2 int16 = -125
	var a3 uint32 = 16378063
	var a4 int64 = 959985
	var a5 uint64 = 462834
	s0, s1 := "héllo", "go"
	b0, b1 := true, false
	f0 := 12.25
	sl := []int{12, 2, 3}
	arr := [4]int{1, 12, 3, 4}
	m := map[string]int{"k": 12, "a": 1}
	p := P{a: 12, b: "pb"}
	pp := &P{a: 1}
	fn := func(v int) int { return lim(v*3 + 1) }
	var sh Shape = pp
	_, _, _, _, _, _, _, _, _, _, _, _, _ = a2, a3, a4, a5, b1, f0, fn, sh, s1, b0, arr, m, pp
	i0, i1 = lim(x), lim(z)
	if v := lim((i3 / 6) + len(s0)); v > -2 {
		*getpi(&i2) += 7
		i2 = lim(i2)
		out("S1_calls " + itoa(cn))
		out("S1_t5" + " " + itoa(i0) + "," + itoa(i1) + "," + itoa(i2) + " " + rtq(s0))
		out("S1_b5" + " " + itoa(i0) + "," + itoa(i1) + "," + itoa(i2) + " " + rtq(s0))
	} else if b0 {
		i3 = (m[string(rune('a' + ix(len(sl), 26)))] / 7)
	} else if itoa(i0) < string(rune('a' + ix(i0, 26))) {
		i2 = vsum(lim(i3 - len(sl)), (len(sl) ^ 0))
		i2 = lim(i2 + vsum(sl...) + vsum())
	}
	arr[ix(sl[ix((-20 % 4), len(sl))], 4)] = lim(len(s0) * lim(i1 - arr[0]))
	out("S1_b2" + " " + itoa(i0) + "," + itoa(i1) + "," + itoa(i2) + " " + rtq(s0))
	i2 = S1_f0(i3, arr[ix(arr[0], 4)])
	i0, i1, i2 = i2, i0, lim(i1+1)
	out("S1_b0" + " " + itoa(i0) + "," + itoa(i1) + "," + itoa(i2) + " " + rtq(s0))
	return lim(i0 + i1*3 + i2*5 + i3*7 + int(a0) + int(a1) + len(s0) + len(sl) + p.a)
}

func S1_f2(x, z int) int {
	i0, i1, i2, i3 := 3, 7, -3, 7
	var a0 int8 = -99
	var a1 uint8 = 255
	var a2 int16 = 4
	var a3 uint32 = 0
	var a4 int64 = 514680750
	var a5 uint64 = 1
	s0, s1 := "", "héllo"
	b0, b1 := false, false
	f0 := 3.25
	sl := []int{3, 2, 3}
	arr := [4]int{1, 3, 3, 4}
	m := map[string]int{"k": 3, "a": 1}
	p := P{a: 3, b: "pb"}
	pp := &P{a: 1}
	fn := func(v int) int { return lim(v*3 + 1) }
	var sh Shape = sq(3)
	_, _, _, _, _, _, _, _, _, _, _, _, _ = a2, a3, a4, a5, b1, f0, fn, sh, s1, b0, arr, m, pp
	i0, i1 = lim(x), lim(z)
	if x > 0 && x < 6 {
		i2 = S1_f2(x-1, z+1)
	}
	{
		i0 := lim(i0 + 2)
		s0 := s0 + "~"
		a2 *= int16(lim(i1 * i0))
		f0 = fclamp(f0*0.5 + float64((lim(i1 + i3) / 1))/1.0)
		out("S1_b4" + " " + itoa(i0) + "," + itoa(i1) + "," + itoa(i2) + " " + rtq(s0))
		i3 = lim(i3 + i0 + len(s0))
	}
	pp.a--
	i0, i1 = lim(i0), lim(i1)
	out("S1_b3" + " " + itoa(i0) + "," + itoa(i1) + "," + itoa(i2) + " " + rtq(s0))
	i2 = 28
	m["k"]--
	i0, i1 = lim(i0), lim(i1)
	out("S1_b1" + " " + itoa(i0) + "," + itoa(i1) + "," + itoa(i2) + " " + rtq(s0))
	delete(m, p.b)
	return lim(i0 + i1*3 + i2*5 + i3*7 + int(a0) + int(a1) + len(s0) + len(sl) + p.a)
}

func S1_main() {
	i0, i1, i2, i3 := 46, 93, -46, 7
	var a0 int8 = 47
	var a1 uint8 = 0
	var a2 int16 = 89
	var a3 uint32 = 7158
	var a4 int64 = 294526
	var a5 uint64 = 231
	s0, s1 := "abcdef", ""
	b0, b1 := true, false
	f0 := 46.25
	sl := []int{46, 2, 3}
	arr := [4]int{1, 46, 3, 4}
	m := map[string]int{"k": 46, "a": 1}
	p := P{a: 46, b: "pb"}
	pp := &P{a: 1}
	fn := func(v int) int { return lim(v*3 + 1) }
	var sh Shape = pp
	_, _, _, _, _, _, _, _, _, _, _, _, _ = a2, a3, a4, a5, b1, f0, fn, sh, s1, b0, arr, m, pp
	for k, r := range sub(s0, 2) {
		i3 = lim(i3 + k + int(r))
		a3++
		i0, i1 = lim(i0), lim(i1)
		if len(s0) == arr[1] {
			break
		}
	}
	i1 = lim(len(sl) - i0)
	out("S1_b4" + " " + itoa(i0) + "," + itoa(i1) + "," + itoa(i2) + " " + rtq(s0))
	s1 = sub(p.b, lim(int((a1 ^ uint8(7))) * lim(i3 * arr[2])))
	i3 = i0
	out("S1_b2" + " " + itoa(i0) + "," + itoa(i1) + "," + itoa(i2) + " " + rtq(s0))
	i0 = fn(lim(p.a + p.a))
	for k, v := range sl[:ix(4, len(sl)+1)] {
		i3 = lim(i3 + k*v)
		if i2 < 78 {
			break
		}
	}
	out("S1_b0" + " " + itoa(i0) + "," + itoa(i1) + "," + itoa(i2) + " " + rtq(s0))
	out("S1_ints " + itoa(i0) + "," + itoa(i1) + "," + itoa(i2) + "," + itoa(i3) + " " + itoa(int(a0)) + "," + itoa(int(a1)) + "," + itoa(int(a2)) + "," + u64toa(uint64(a3)) + "," + i64toa(a4) + "," + u64toa(a5))
	out("S1_strs " + rtq(s0) + " " + rtq(s1) + " " + btoa(b0) + btoa(b1) + " " + f64s(f0))
	fnResult := fn(1)
	shArea := sh.Area(2)
	out("S1_data " + itoa(len(sl)) + ":" + itoa(vsum(sl...)) + " " + itoa(vsum(arr[:]...)) + " " + itoa(len(m)) + ":" + itoa(m["k"]) + " " + itoa(p.a) + rtq(p.b) + itoa(p.c[0]+p.c[1]) + " " + itoa(pp.a) + " " + itoa(fnResult) + " " + sh.name() + itoa(shArea))
	panic("scenario S1_ gives up")
}

type S1_dead0 struct{ z int }

func (d S1_dead0) Area(k int) int { return d.z * k }
func (d S1_dead0) name() string { return "dead" }
func (d *S1_dead0) bump(k int) { d.z += k }

func S1_unused0(x int) int { return lim(x + 0) }

var S1_deadvar0 = 0

