package main

func S10_main() {
	i0, i1, i2, i3 := 45, 91, -45, 7
	var a0 int8 = -82
	var a1 uint8 = 118
	var a2 int16 = -32
	var a3 uint32 = 376
	var a4 int64 = 1
	var a5 uint64 = 0
	s0, s1 := "héllo", "go"
	b0, b1 := false, false
	f0 := 45.25
	sl := []int{45, 2, 3}
	arr := [4]int{1, 45, 3, 4}
	m := map[string]int{"k": 45, "a": 1}
	p := P{a: 45, b: "pb"}
	pp := &P{a: 1}
	fn := func(v int) int { return lim(v*3 + 1) }
	var sh Shape = pp
	_, _, _, _, _, _, _, _, _, _, _, _, _ = a2, a3, a4, a5, b1, f0, fn, sh, s1, b0, arr, m, pp
	sl[ix(i0, len(sl))] = len(s0)
	{
		ch := make(chan int, 2)
		ch <- 5
		for k := 0; k < 4; k++ {
			select {
			case v := <-ch:
				i1 = lim(i1 + v)
				if k%2 == 0 {
						break
				}
				i1 = lim(i1 + 100)
			default:
				i2 = lim(i2 + 10)
			}
			i3 = lim(i3 + 1)
		}
	}
	out("S10_b32" + " " + itoa(i0) + "," + itoa(i1) + "," + itoa(i2) + " " + rtq(s0))
	for k, v := range []interface{}{i0, s0, nil, f0, 7, "z", nil} {
		switch v.(type) {
		case int:
			if k%2 == 1 {
				break
			}
			i1 = lim(i1 + 1)
		case string:
			i2 = lim(i2 + 1)
		case nil:
			i2 = lim(i2 + 1000)
		default:
			i1 = lim(i1 - 3)
		}
		i3 = lim(i3 + k + 1)
	}
	for k, v := range []interface{}{i0, s0, nil, f0, 7, "z", nil} {
		switch x := v.(type) {
		case int:
			i1 = lim(i1 + x)
		case string:
			i2 = lim(i2 + len(x))
		case nil:
			i2 = lim(i2 + 1000)
		default:
			if k%2 == 1 {
				break
			}
			i1 = lim(i1 - 3)
			_ = x
		}
		i3 = lim(i3 + k + 1)
	}
	out("S10_b30" + " " + itoa(i0) + "," + itoa(i1) + "," + itoa(i2) + " " + rtq(s0))
	out("S10_t29" + " " + itoa(i0) + "," + itoa(i1) + "," + itoa(i2) + " " + rtq(s0))
	a0 &= (a0 >> 2)
	out("S10_b28" + " " + itoa(i0) + "," + itoa(i1) + "," + itoa(i2) + " " + rtq(s0))
	for k, r := range sub(s0, 2) {
		i3 = lim(i3 + k + int(r))
		a4 -= (a4 ^ int64(102))
		for k, v := range []interface{}{i0, s0, nil, f0, 7, "z", nil} {
			switch v.(type) {
			case int:
				i1 = lim(i1 + 1)
			case string:
				i2 = lim(i2 + 1)
			case nil:
				if k%2 == 0 {
					break
				}
				i2 = lim(i2 + 1000)
			default:
				i1 = lim(i1 - 3)
			}
			i3 = lim(i3 + k + 1)
		}
		out("S10_b25" + " " + itoa(i0) + "," + itoa(i1) + "," + itoa(i2) + " " + rtq(s0))
		i1 = lim((p.a / 1) - i0)
		if b1 {
			break
		}
	}
	switch int((a0 ^ a0)) % 5 {
	case -3:
		f0 = fclamp(f0*0.5 + float64(sl[ix(lim(71 - len(sl)), len(sl))])/3.0)
	}
	out("S10_b22" + " " + itoa(i0) + "," + itoa(i1) + "," + itoa(i2) + " " + rtq(s0))
	m[kx()] &^= 2
	out("S10_calls " + itoa(cn))
	switch arr[3] % 5 {
	case 0:
		a0 += ((a0 << 9) & ((a0 ^ int8(8)) - a0))
		{
			ch := make(chan int, 2)
			ch <- 5
			for k := 0; k < 4; k++ {
				select {
				case v := <-ch:
					i1 = lim(i1 + v)
					i1 = lim(i1 + 100)
				default:
					i2 = lim(i2 + 10)
				}
				i3 = lim(i3 + 1)
			}
		}
		out("S10_b18" + " " + itoa(i0) + "," + itoa(i1) + "," + itoa(i2) + " " + rtq(s0))
		if s0 != s1 {
			break
		}
		i1 = lim(i1 + 1)
	default:
		{
			ch := make(chan int, 2)
			ch <- 5
			for k := 0; k < 4; k++ {
				select {
				case v := <-ch:
					i1 = lim(i1 + v)
						if k%2 == 1 {
							break
						}
					i1 = lim(i1 + 100)
				default:
					i2 = lim(i2 + 10)
				}
				i3 = lim(i3 + 1)
			}
		}
	}
	out("S10_b17" + " " + itoa(i0) + "," + itoa(i1) + "," + itoa(i2) + " " + rtq(s0))
	L1:
	for c := 4; c > 0; c-- {
		i2 = lim(i2 + c)
		i0 = lim(((0 / 1) ^ 3) + i2)
		if s0 < s1 {
			break
		}
		if i3 == -777777 {
			continue L1
		}
	}
	for k, v := range []interface{}{i0, s0, nil, f0, 7, "z", nil} {
		switch v.(type) {
		case int:
			if k%2 == 0 {
				break
			}
			i1 = lim(i1 + 1)
		case string:
			i2 = lim(i2 + 1)
		case nil:
			i2 = lim(i2 + 1000)
		default:
			i1 = lim(i1 - 3)
		}
		i3 = lim(i3 + k + 1)
	}
	out("S10_b14" + " " + itoa(i0) + "," + itoa(i1) + "," + itoa(i2) + " " + rtq(s0))
	i2 = vsum(m[s0], lim(i2 - i3))
	i2 = lim(i2 + vsum(sl...) + vsum())
	{
		gc := 0
	G2:
		gc++
		i3 = lim(i3 + gc)
		if gc < 1 {
			goto G2
		}
	}
	out("S10_b12" + " " + itoa(i0) + "," + itoa(i1) + "," + itoa(i2) + " " + rtq(s0))
	i3 = i1
	i1 = P.sum(p, lim(i3 * len(s0)))
	out("S10_b10" + " " + itoa(i0) + "," + itoa(i1) + "," + itoa(i2) + " " + rtq(s0))
	if len(sl) < 12 {
		sl = append(sl, lim(i2 + i2))
	}
	L3:
	for c := 2; c > 0; c-- {
		i2 = lim(i2 + c)
		a0 -= (a0 ^ int8(2))
		{
			cl := func(d int) int {
				L4:
				for k, v := range sl[:ix(3, len(sl)+1)] {
					i3 = lim(i3 + k*v)
					a5 &= uint64(lim(len(s0) + p.a))
					a3++
					i0, i1 = lim(i0), lim(i1)
					out("S10_b3" + " " + itoa(i0) + "," + itoa(i1) + "," + itoa(i2) + " " + rtq(s0))
					p.b = s1
					if b1 {
						continue L4
					}
					if i3 == -777777 {
						continue L4
					}
				}
				i0 = lim(i0 + d)
				return lim(i0 * 2)
			}
			i1 = cl(i3)
			fn = cl
		}
		out("S10_b2" + " " + itoa(i0) + "," + itoa(i1) + "," + itoa(i2) + " " + rtq(s0))
		if i3 == -777777 {
			continue L3
		}
	}
	out("S10_b2" + " " + itoa(i0) + "," + itoa(i1) + "," + itoa(i2) + " " + rtq(s0))
	arr[ix(lim((i1 / 6) - (38 / 9)), 4)] = len(s0)
	i1 = (lim(lim(i3 + i3) - len(s0)) / 8)
	out("S10_b0" + " " + itoa(i0) + "," + itoa(i1) + "," + itoa(i2) + " " + rtq(s0))
	out("S10_ints " + itoa(i0) + "," + itoa(i1) + "," + itoa(i2) + "," + itoa(i3) + " " + itoa(int(a0)) + "," + itoa(int(a1)) + "," + itoa(int(a2)) + "," + u64toa(uint64(a3)) + "," + i64toa(a4) + "," + u64toa(a5))
	out("S10_strs " + rtq(s0) + " " + rtq(s1) + " " + btoa(b0) + btoa(b1) + " " + f64s(f0))
	fnResult := fn(1)
	shArea := sh.Area(2)
	out("S10_data " + itoa(len(sl)) + ":" + itoa(vsum(sl...)) + " " + itoa(vsum(arr[:]...)) + " " + itoa(len(m)) + ":" + itoa(m["k"]) + " " + itoa(p.a) + rtq(p.b) + itoa(p.c[0]+p.c[1]) + " " + itoa(pp.a) + " " + itoa(fnResult) + " " + sh.name() + itoa(shArea))
	sl[len(sl)+ix(i0, 3)] = 1
}

type S10_dead0 struct{ z int }

func (d S10_dead0) Area(k int) int { return d.z * k }
func (d S10_dead0) name() string { return "dead" }
func (d *S10_dead0) bump(k int) { d.z += k }

func S10_unused0(x int) int { return lim(x + 0) }

var S10_deadvar0 = 0

