package main

func S4_f0(x, z int) int {
	i0, i1, i2, i3 := 16, 33, -16, 7
	var a0 int8 = 6
	var a1 uint8 = 1
	var a2 int16 = 114
	var a3 uint32 = 67
	var a4 int64 = 858151226
	var a5 uint64 = 3
	s0, s1 := "abcdef", ""
	b0, b1 := true, false
	f0 := 16.25
	sl := []int{16, 2, 3}
	arr := [4]int{1, 16, 3, 4}
	m := map[string]int{"k": 16, "a": 1}
	p := P{a: 16, b: "pb"}
	pp := &P{a: 1}
	fn := func(v int) int { return lim(v*3 + 1) }
	var sh Shape = &p
	_, _, _, _, _, _, _, _, _, _, _, _, _ = a2, a3, a4, a5, b1, f0, fn, sh, s1, b0, arr, m, pp
	i0, i1 = lim(x), lim(z)
	if x > 0 && x < 6 {
		i2 = S4_f0(x-1, z+1)
	}
	i0 = fn(lim(i2 * 4))
	i3 = int(s0[ix(int(s0[ix(sl[ix(i1, len(sl))], len(s0))]), len(s0))])
	out("S4_b2" + " " + itoa(i0) + "," + itoa(i1) + "," + itoa(i2) + " " + rtq(s0))
	f0 = fclamp(f0*0.5 + float64(lim((len(sl) ^ 48) * i0))/5.0)
	out("S4_t0" + " " + itoa(i0) + "," + itoa(i1) + "," + itoa(i2) + " " + rtq(s0))
	out("S4_b0" + " " + itoa(i0) + "," + itoa(i1) + "," + itoa(i2) + " " + rtq(s0))
	return lim(i0 + i1*3 + i2*5 + i3*7 + int(a0) + int(a1) + len(s0) + len(sl) + p.a)
}

func S4_f1(x, z int) int {
	i0, i1, i2, i3 := 44, 89, -44, 7
	var a0 int8 = 1
	var a1 uint8 = 217
	var a2 int16 = -122
	var a3 uint32 = 8
	var a4 int64 = -11906
	var a5 uint64 = 10
	s0, s1 := "abcdef", "go"
	b0, b1 := true, false
	f0 := 44.25
	sl := []int{44, 2, 3}
	arr := [4]int{1, 44, 3, 4}
	m := map[string]int{"k": 44, "a": 1}
	p := P{a: 44, b: "pb"}
	pp := &P{a: 1}
	fn := func(v int) int { return lim(v*3 + 1) }
	var sh Shape = pp
	_, _, _, _, _, _, _, _, _, _, _, _, _ = a2, a3, a4, a5, b1, f0, fn, sh, s1, b0, arr, m, pp
	i0, i1 = lim(x), lim(z)
	if x > 0 && x < 6 {
		i2 = S4_f1(x-1, z+1)
	}
	func() {
		defer func() {
			i1 = lim(i1 + 3)
			if r := recover(); r != nil {
				s1 = cut(s1 + "R")
			}
		}()
		L1:
		for k, r := range sub(s0, 3) {
			i3 = lim(i3 + k + int(r))
			a1 ^= a1
			for c := 1; c > 0; c-- {
				i2 = lim(i2 + c)
			}
			out("S4_b0" + " " + itoa(i0) + "," + itoa(i1) + "," + itoa(i2) + " " + rtq(s0))
			if i3 == -777777 {
				continue L1
			}
		}
	}()
	return lim(i0 + i1*3 + i2*5 + i3*7 + int(a0) + int(a1) + len(s0) + len(sl) + p.a)
}

func S4_main() {
	i0, i1, i2, i3 := 3, 7, -3, 7
	var a0 int8 = 0
	var a1 uint8 = 1
	var a2 int16 = 1
	var a3 uint32 = 34
	var a4 int64 = 1073741824
	var a5 uint64 = 0
	s0, s1 := "", "go"
	b0, b1 := false, false
	f0 := 3.25
	sl := []int{3, 2, 3}
	arr := [4]int{1, 3, 3, 4}
	m := map[string]int{"k": 3, "a": 1}
	p := P{a: 3, b: "pb"}
	pp := &P{a: 1}
	fn := func(v int) int { return lim(v*3 + 1) }
	var sh Shape = pp
	_, _, _, _, _, _, _, _, _, _, _, _, _ = a2, a3, a4, a5, b1, f0, fn, sh, s1, b0, arr, m, pp
	s0 = itoa(i1)
	m["k"]--
	i0, i1 = lim(i0), lim(i1)
	out("S4_b13" + " " + itoa(i0) + "," + itoa(i1) + "," + itoa(i2) + " " + rtq(s0))
	i3 = m[itoa((p.a & 55))]
	for k := 0; k < 1; k++ {
		i3 = lim(i3 + k)
		{
			ch := make(chan int, 2)
			ch <- 5
			for k := 0; k < 4; k++ {
				select {
				case v := <-ch:
					i1 = lim(i1 + v)
					i1 = lim(i1 + 100)
				default:
					i2 = lim(i2 + 10)
				}
				i3 = lim(i3 + 1)
			}
		}
		i0, i1, i2 = i2, i0, lim(i1+1)
		out("S4_b9" + " " + itoa(i0) + "," + itoa(i1) + "," + itoa(i2) + " " + rtq(s0))
		i3 = lim(int(s0[ix(i3, len(s0))]) + lim(i1 + (78 & 200)))
	}
	out("S4_b8" + " " + itoa(i0) + "," + itoa(i1) + "," + itoa(i2) + " " + rtq(s0))
	{
		acc := 0
		for k, v := range m {
			acc += len(k)*7 + v
		}
		i2 = lim(acc)
	}
	s1 = p.b
	out("S4_b6" + " " + itoa(i0) + "," + itoa(i1) + "," + itoa(i2) + " " + rtq(s0))
	switch -20 % 5 {
	case -1:
		arr[nx(4)]--
		out("S4_calls " + itoa(cn))
		delete(m, sub("bc", arr[3]))
		out("S4_b3" + " " + itoa(i0) + "," + itoa(i1) + "," + itoa(i2) + " " + rtq(s0))
	default:
		i3 = ((i1 ^ 2) / 4)
	}
	i1 = i3
	out("S4_b1" + " " + itoa(i0) + "," + itoa(i1) + "," + itoa(i2) + " " + rtq(s0))
	switch (i3 / 6) % 5 {
	case -4:
		fallthrough
	case -2:
		if len(sl) != 99 {
			break
		}
		i1 = lim(i1 + 1)
	case 4:
	default:
	}
	out("S4_ints " + itoa(i0) + "," + itoa(i1) + "," + itoa(i2) + "," + itoa(i3) + " " + itoa(int(a0)) + "," + itoa(int(a1)) + "," + itoa(int(a2)) + "," + u64toa(uint64(a3)) + "," + i64toa(a4) + "," + u64toa(a5))
	out("S4_strs " + rtq(s0) + " " + rtq(s1) + " " + btoa(b0) + btoa(b1) + " " + f64s(f0))
	fnResult := fn(1)
	shArea := sh.Area(2)
	out("S4_data " + itoa(len(sl)) + ":" + itoa(vsum(sl...)) + " " + itoa(vsum(arr[:]...)) + " " + itoa(len(m)) + ":" + itoa(m["k"]) + " " + itoa(p.a) + rtq(p.b) + itoa(p.c[0]+p.c[1]) + " " + itoa(pp.a) + " " + itoa(fnResult) + " " + sh.name() + itoa(shArea))
}

type S4_dead0 struct{ z int }

func (d S4_dead0) Area(k int) int { return d.z * k }
func (d S4_dead0) name() string { return "dead" }
func (d *S4_dead0) bump(k int) { d.z += k }

func S4_unused0(x int) int { return lim(x + 0) }

var S4_deadvar0 = 0

