package main

func S8_f0(x, z int) int {
	i0, i1, i2, i3 := 32, 65, -32, 7
	var a0 int8 = 2
	var a1 uint8 = 255
	var a2 int16 = -49
	var a3 uint32 = 0
	var a4 int64 = -115968
	var a5 uint64 = 1526
	s0, s1 := "héllo", "go"
	b0, b1 := true, false
	f0 := 32.25
	sl := []int{32, 2, 3}
	arr := [4]int{1, 32, 3, 4}
	m := map[string]int{"k": 32, "a": 1}
	p := P{a: 32, b: "pb"}
	pp := &P{a: 1}
	fn := func(v int) int { return lim(v*3 + 1) }
	var sh Shape = pp
	_, _, _, _, _, _, _, _, _, _, _, _, _ = a2, a3, a4, a5, b1, f0, fn, sh, s1, b0, arr, m, pp
	i0, i1 = lim(x), lim(z)
	if x > 0 && x < 6 {
		i2 = S8_f0(x-1, z+1)
	}
	i1 = lim(-1 - arr[ix(lim(len(s0) + -2), 4)])
	out("S8_t3" + " " + itoa(i0) + "," + itoa(i1) + "," + itoa(i2) + " " + rtq(s0))
	out("S8_b3" + " " + itoa(i0) + "," + itoa(i1) + "," + itoa(i2) + " " + rtq(s0))
	pp.bump(sl[ix(i3, len(sl))])
	i1 = lim(i0 - p.a)
	out("S8_b1" + " " + itoa(i0) + "," + itoa(i1) + "," + itoa(i2) + " " + rtq(s0))
	i1 = (sl[ix(i0, len(sl))] & 4)
	return lim(i0 + i1*3 + i2*5 + i3*7 + int(a0) + int(a1) + len(s0) + len(sl) + p.a)
}

func S8_f1(x, z int) int {
	i0, i1, i2, i3 := 37, 75, -37, 7
	var a0 int8 = -6
	var a1 uint8 = 152
	var a2 int16 = 29
	var a3 uint32 = 1073741824
	var a4 int64 = 984
	var a5 uint64 = 477
	s0, s1 := "go", "héllo"
	b0, b1 := false, false
	f0 := 37.25
	sl := []int{37, 2, 3}
	arr := [4]int{1, 37, 3, 4}
	m := map[string]int{"k": 37, "a": 1}
	p := P{a: 37, b: "pb"}
	pp := &P{a: 1}
	fn := func(v int) int { return lim(v*3 + 1) }
	var sh Shape = pp
	_, _, _, _, _, _, _, _, _, _, _, _, _ = a2, a3, a4, a5, b1, f0, fn, sh, s1, b0, arr, m, pp
	i0, i1 = lim(x), lim(z)
	{
		cl := func(d int) int {
			a4 = int64(i3) * 4294967297
			a5 = uint64(a4) >> 15
			a0, a1, a2 = int8(a4), uint8(a5), int16(a4>>2)
			i0 = int(s0[ix(p.a, len(s0))])
			out("S8_b0" + " " + itoa(i0) + "," + itoa(i1) + "," + itoa(i2) + " " + rtq(s0))
			i0 = lim(i0 + d)
			return lim(i0 * 2)
		}
		i1 = cl(lim(len(sl) + i3))
		fn = cl
	}
	return lim(i0 + i1*3 + i2*5 + i3*7 + int(a0) + int(a1) + len(s0) + len(sl) + p.a)
}

func S8_main() {
	i0, i1, i2, i3 := 48, 97, -48, 7
	var a0 int8 = -34
	var a1 uint8 = 11
	var a2 int16 = -439
	var a3 uint32 = 1165619
	var a4 int64 = -7
	var a5 uint64 = 1073741824
	s0, s1 := "abcdef", ""
	b0, b1 := true, false
	f0 := 48.25
	sl := []int{48, 2, 3}
	arr := [4]int{1, 48, 3, 4}
	m := map[string]int{"k": 48, "a": 1}
	p := P{a: 48, b: "pb"}
	pp := &P{a: 1}
	fn := func(v int) int { return lim(v*3 + 1) }
	var sh Shape = pp
	_, _, _, _, _, _, _, _, _, _, _, _, _ = a2, a3, a4, a5, b1, f0, fn, sh, s1, b0, arr, m, pp
	i1 = p.sum(1)
	p.a--
	i0, i1 = lim(i0), lim(i1)
	out("S8_b28" + " " + itoa(i0) + "," + itoa(i1) + "," + itoa(i2) + " " + rtq(s0))
	if (a1 < a1) {
		if b0 {
			a4 ^= (a4 ^ int64(5))
			i3 = len(sl)
			out("S8_b24" + " " + itoa(i0) + "," + itoa(i1) + "," + itoa(i2) + " " + rtq(s0))
		} else if !(i0 <= arr[3]) {
			i0, i1, i2 = i2, i0, lim(i1+1)
			pp.a--
			i0, i1 = lim(i0), lim(i1)
			out("S8_b22" + " " + itoa(i0) + "," + itoa(i1) + "," + itoa(i2) + " " + rtq(s0))
		}
		a1--
		i0, i1 = lim(i0), lim(i1)
		out("S8_b21" + " " + itoa(i0) + "," + itoa(i1) + "," + itoa(i2) + " " + rtq(s0))
	} else if (b0 || (b1 && -2 == arr[2])) {
		pp.a++
		i0, i1 = lim(i0), lim(i1)
		for k, v := range []interface{}{i0, s0, nil, f0, 7, "z", nil} {
			switch x := v.(type) {
			case int:
				i1 = lim(i1 + x)
			case string:
				i2 = lim(i2 + len(x))
			case nil:
				i2 = lim(i2 + 1000)
			case float64:
				_ = x
			}
			i3 = lim(i3 + k + 1)
		}
		out("S8_b19" + " " + itoa(i0) + "," + itoa(i1) + "," + itoa(i2) + " " + rtq(s0))
	} else {
		for c := 4; c > 0; c-- {
			i2 = lim(i2 + c)
			i3 = i3
			s0 = s0
			out("S8_b16" + " " + itoa(i0) + "," + itoa(i1) + "," + itoa(i2) + " " + rtq(s0))
			if (len(s0) < i0 && b1) {
				continue
			}
		}
	}
	switch {
	case ((b1 && b0) || (i0 == p.a && true)):
		{
			acc := 0
			for k, v := range m {
				acc += len(k)*7 + v
			}
			i2 = lim(acc)
		}
	}
	out("S8_b14" + " " + itoa(i0) + "," + itoa(i1) + "," + itoa(i2) + " " + rtq(s0))
	i0 = m[cut(s0 + itoa(i2))]
	{
		gc := 0
	G1:
		gc++
		i3 = lim(i3 + gc)
		if gc < 1 {
			goto G1
		}
	}
	out("S8_b12" + " " + itoa(i0) + "," + itoa(i1) + "," + itoa(i2) + " " + rtq(s0))
	if b0 {
		switch lim((len(s0) / 6) + i0) % 5 {
		case -3, 7:
			func() {
				defer func() {
					i1 = lim(i1 + 3)
					if r := recover(); r != nil {
						s1 = cut(s1 + "R")
					}
				}()
				m[itoa(i3)] = i2
			}()
			i3 = int(a1)
			out("S8_b7" + " " + itoa(i0) + "," + itoa(i1) + "," + itoa(i2) + " " + rtq(s0))
		case -2:
			f0 = fclamp(f0*0.5 + float64(lim(-4 * (i3 & 30)))/1.0)
		case 4:
			i1 = m[sub(s1, i2)]
		}
		i0, i1, i2 = i2, i0, lim(i1+1)
		out("S8_b4" + " " + itoa(i0) + "," + itoa(i1) + "," + itoa(i2) + " " + rtq(s0))
	} else if ("bc" != p.b && b1) {
		{
			cp := p
			cp.a = lim(cp.a + 7)
			cp.c[1] = i0
			arr2 := arr
			arr2[0] = cp.a
			i3 = lim(p.a + cp.a + arr[0] + arr2[0] + p.c[1])
		}
		for k, v := range []interface{}{i0, s0, nil, f0, 7, "z", nil} {
			switch v.(type) {
			case int:
				i1 = lim(i1 + 1)
			case string:
				i2 = lim(i2 + 1)
			case nil:
				i2 = lim(i2 + 1000)
			}
			i3 = lim(i3 + k + 1)
		}
		out("S8_b2" + " " + itoa(i0) + "," + itoa(i1) + "," + itoa(i2) + " " + rtq(s0))
	} else if ((b0 && b1) || s1 < s0) {
		i2 = (i1 / 3)
	}
	{
		ch := make(chan int, 2)
		ch <- 5
		for k := 0; k < 4; k++ {
			select {
			case v := <-ch:
				i1 = lim(i1 + v)
				if k%2 == 1 {
						break
				}
				i1 = lim(i1 + 100)
			default:
				if k%2 == 0 {
						break
				}
				i2 = lim(i2 + 10)
			}
			i3 = lim(i3 + 1)
		}
	}
	out("S8_b0" + " " + itoa(i0) + "," + itoa(i1) + "," + itoa(i2) + " " + rtq(s0))
	out("S8_ints " + itoa(i0) + "," + itoa(i1) + "," + itoa(i2) + "," + itoa(i3) + " " + itoa(int(a0)) + "," + itoa(int(a1)) + "," + itoa(int(a2)) + "," + u64toa(uint64(a3)) + "," + i64toa(a4) + "," + u64toa(a5))
	out("S8_strs " + rtq(s0) + " " + rtq(s1) + " " + btoa(b0) + btoa(b1) + " " + f64s(f0))
	fnResult := fn(1)
	shArea := sh.Area(2)
	out("S8_data " + itoa(len(sl)) + ":" + itoa(vsum(sl...)) + " " + itoa(vsum(arr[:]...)) + " " + itoa(len(m)) + ":" + itoa(m["k"]) + " " + itoa(p.a) + rtq(p.b) + itoa(p.c[0]+p.c[1]) + " " + itoa(pp.a) + " " + itoa(fnResult) + " " + sh.name() + itoa(shArea))
}

type S8_dead0 struct{ z int }

func (d S8_dead0) Area(k int) int { return d.z * k }
func (d S8_dead0) name() string { return "dead" }
func (d *S8_dead0) bump(k int) { d.z += k }

func S8_unused0(x int) int { return lim(x + 0) }

var S8_deadvar0 = 0

