package main

func S10_main() {
	i0, i1, i2, i3 := 45, 91, -45, 7
	var a0 int8 = 2
	var a1 uint8 = 24
	var a2 int16 = 1255
	var a3 uint32 = 29
	var a4 int64 = -59909681
	var a5 uint64 = 1884
	s0, s1 := "go", "abcdef"
	b0, b1 := false, false
	f0 := 45.25
	sl := []int{45, 2, 3}
	arr := [4]int{1, 45, 3, 4}
	m := map[string]int{"k": 45, "a": 1}
	p := P{a: 45, b: "pb"}
	pp := &P{a: 1}
	fn := func(v int) int { return lim(v*3 + 1) }
	var sh Shape = sq(3)
	_, _, _, _, _, _, _, _, _, _, _, _, _ = a2, a3, a4, a5, b1, f0, fn, sh, s1, b0, arr, m, pp
	pp.a--
	i0, i1 = lim(i0), lim(i1)
	i1 = 0
	out("S10_b25" + " " + itoa(i0) + "," + itoa(i1) + "," + itoa(i2) + " " + rtq(s0))
	a4 = int64(arr[ix(i1, 4)]) * 4294967297
	a5 = uint64(a4) >> 0
	a0, a1, a2 = int8(a4), uint8(a5), int16(a4>>0)
	if v := (len(s0) & 67); v > -5 {
		delete(m, s0)
		a4 |= a4
		out("S10_b21" + " " + itoa(i0) + "," + itoa(i1) + "," + itoa(i2) + " " + rtq(s0))
		switch ((len(s0) / 2) ^ 0) % 5 {
		case -1:
			for k, v := range []interface{}{i0, s0, nil, f0, 7, "z", nil} {
				switch x := v.(type) {
				case int:
					i1 = lim(i1 + x)
				case string:
					i2 = lim(i2 + len(x))
				case nil:
					i2 = lim(i2 + 1000)
				default:
					if k%2 == 0 {
						break
					}
					i1 = lim(i1 - 3)
					_ = x
				}
				i3 = lim(i3 + k + 1)
			}
		case 1:
			switch i0 % 5 {
			case 2, 12:
				p.a--
				i0, i1 = lim(i0), lim(i1)
			case 3, 13:
				i0 = i3
			case 4:
				i1--
				i0, i1 = lim(i0), lim(i1)
				if (i2 != p.a && true) {
					break
				}
				i1 = lim(i1 + 1)
			default:
				arr[ix(arr[1], 4)] = lim(-11 * lim(i2 - len(s0)))
			}
		case 3:
			{
				i0 := lim(i0 + 5)
				s0 := s0 + "~"
				i0, i1, i2 = i2, i0, lim(i1+1)
				b0 = ("" != s1 || b0)
				out("S10_b11" + " " + itoa(i0) + "," + itoa(i1) + "," + itoa(i2) + " " + rtq(s0))
				i3 = lim(i3 + i0 + len(s0))
			}
		default:
			b1 = ((a1 ^ uint8(arr[0])) < ((a1 ^ uint8(86)) >> 1))
		}
	} else if (b1 || !(len(sl) >= len(s0))) {
		b1 = ((b1 || (i0 > i3 || b0)) || ((a1 < a1) && (a1 < a1)))
		i3 = i3
		out("S10_b8" + " " + itoa(i0) + "," + itoa(i1) + "," + itoa(i2) + " " + rtq(s0))
	} else if b0 {
		b1 = b0
	} else {
		for c := 2; c > 0; c-- {
			i2 = lim(i2 + c)
			for k, v := range []interface{}{i0, s0, nil, f0, 7, "z", nil} {
				switch x := v.(type) {
				case int:
					i1 = lim(i1 + x)
				case string:
					i2 = lim(i2 + len(x))
				case nil:
					i2 = lim(i2 + 1000)
				case float64:
					_ = x
				}
				i3 = lim(i3 + k + 1)
			}
			if (s0 == itoa(-8) || 3 >= p.a) {
				out("S10_t3" + " " + itoa(i0) + "," + itoa(i1) + "," + itoa(i2) + " " + rtq(s0))
				s0 = p.b
				out("S10_b2" + " " + itoa(i0) + "," + itoa(i1) + "," + itoa(i2) + " " + rtq(s0))
			} else if len(sl) > p.a {
				i0, i1, i2 = i2, i0, lim(i1+1)
				b0 = i3 >= len(s0)
				out("S10_b0" + " " + itoa(i0) + "," + itoa(i1) + "," + itoa(i2) + " " + rtq(s0))
			} else {
			}
			out("S10_b0" + " " + itoa(i0) + "," + itoa(i1) + "," + itoa(i2) + " " + rtq(s0))
		}
	}
	out("S10_b0" + " " + itoa(i0) + "," + itoa(i1) + "," + itoa(i2) + " " + rtq(s0))
	out("S10_ints " + itoa(i0) + "," + itoa(i1) + "," + itoa(i2) + "," + itoa(i3) + " " + itoa(int(a0)) + "," + itoa(int(a1)) + "," + itoa(int(a2)) + "," + u64toa(uint64(a3)) + "," + i64toa(a4) + "," + u64toa(a5))
	out("S10_strs " + rtq(s0) + " " + rtq(s1) + " " + btoa(b0) + btoa(b1) + " " + f64s(f0))
	fnResult := fn(1)
	shArea := sh.Area(2)
	out("S10_data " + itoa(len(sl)) + ":" + itoa(vsum(sl...)) + " " + itoa(vsum(arr[:]...)) + " " + itoa(len(m)) + ":" + itoa(m["k"]) + " " + itoa(p.a) + rtq(p.b) + itoa(p.c[0]+p.c[1]) + " " + itoa(pp.a) + " " + itoa(fnResult) + " " + sh.name() + itoa(shArea))
	<-make(chan int)
}

type S10_dead0 struct{ z int }

func (d S10_dead0) Area(k int) int { return d.z * k }
func (d S10_dead0) name() string { return "dead" }
func (d *S10_dead0) bump(k int) { d.z += k }

func S10_unused0(x int) int { return lim(x + 0) }

var S10_deadvar0 = 0

