package main

func S5_f0(x, z int) int {
	i0, i1, i2, i3 := 19, 39, -19, 7
	var a0 int8 = 40
	var a1 uint8 = 3
	var a2 int16 = -209
	var a3 uint32 = 16
	var a4 int64 = 85
	var a5 uint64 = 396
	s0, s1 := "go", ""
	b0, b1 := false, false
	f0 := 19.25
	sl := []int{19, 2, 3}
	arr := [4]int{1, 19, 3, 4}
	m := map[string]int{"k": 19, "a": 1}
	p := P{a: 19, b: "pb"}
	pp := &P{a: 1}
	fn := func(v int) int { return lim(v*3 + 1) }
	var sh Shape = pp
	_, _, _, _, _, _, _, _, _, _, _, _, _ = a2, a3, a4, a5, b1, f0, fn, sh, s1, b0, arr, m, pp
	i0, i1 = lim(x), lim(z)
	if x > 0 && x < 6 {
		i2 = S5_f0(x-1, z+1)
	}
	a0--
	i0, i1 = lim(i0), lim(i1)
	b0 = true
	out("S5_b0" + " " + itoa(i0) + "," + itoa(i1) + "," + itoa(i2) + " " + rtq(s0))
	return lim(i0 + i1*3 + i2*5 + i3*7 + int(a0) + int(a1) + len(s0) + len(sl) + p.a)
}

func S5_f1(x, z int) int {
	i0, i1, i2, i3 := 16, 33, -16, 7
	var a0 int8 = -79
	var a1 uint8 = 255
	var a2 int16 = -5
	var a3 uint32 = 89346
	var a4 int64 = 758
	var a5 uint64 = 61032
	s0, s1 := "go", "abcdef"
	b0, b1 := true, false
	f0 := 16.25
	sl := []int{16, 2, 3}
	arr := [4]int{1, 16, 3, 4}
	m := map[string]int{"k": 16, "a": 1}
	p := P{a: 16, b: "pb"}
	pp := &P{a: 1}
	fn := func(v int) int { return lim(v*3 + 1) }
	var sh Shape = &p
	_, _, _, _, _, _, _, _, _, _, _, _, _ = a2, a3, a4, a5, b1, f0, fn, sh, s1, b0, arr, m, pp
	i0, i1 = lim(x), lim(z)
	i2 = S5_f0(i2, p.a)
	i0 = i2
	out("S5_b2" + " " + itoa(i0) + "," + itoa(i1) + "," + itoa(i2) + " " + rtq(s0))
	i0, i1, i2 = i2, i0, lim(i1+1)
	if len(sl) < 12 {
		sl = append(sl, arr[2])
	}
	out("S5_b0" + " " + itoa(i0) + "," + itoa(i1) + "," + itoa(i2) + " " + rtq(s0))
	return lim(i0 + i1*3 + i2*5 + i3*7 + int(a0) + int(a1) + len(s0) + len(sl) + p.a)
}

func S5_main() {
	i0, i1, i2, i3 := 1, 3, -1, 7
	var a0 int8 = 1
	var a1 uint8 = 74
	var a2 int16 = 0
	var a3 uint32 = 6
	var a4 int64 = -16
	var a5 uint64 = 14
	s0, s1 := "", ""
	b0, b1 := false, false
	f0 := 1.25
	sl := []int{1, 2, 3}
	arr := [4]int{1, 1, 3, 4}
	m := map[string]int{"k": 1, "a": 1}
	p := P{a: 1, b: "pb"}
	pp := &P{a: 1}
	fn := func(v int) int { return lim(v*3 + 1) }
	var sh Shape = pp
	_, _, _, _, _, _, _, _, _, _, _, _, _ = a2, a3, a4, a5, b1, f0, fn, sh, s1, b0, arr, m, pp
	i3 = (i3 / 1)
	a3--
	i0, i1 = lim(i0), lim(i1)
	out("S5_b12" + " " + itoa(i0) + "," + itoa(i1) + "," + itoa(i2) + " " + rtq(s0))
	s1 = string(rune('a' + ix(sl[ix(i2, len(sl))], 26)))
	i3 = i3
	out("S5_b10" + " " + itoa(i0) + "," + itoa(i1) + "," + itoa(i2) + " " + rtq(s0))
	out("S5_t9" + " " + itoa(i0) + "," + itoa(i1) + "," + itoa(i2) + " " + rtq(s0))
	i2 = i3
	out("S5_b8" + " " + itoa(i0) + "," + itoa(i1) + "," + itoa(i2) + " " + rtq(s0))
	switch {
	case (b0 || (b0 && b0)):
		i2 = 1
	case true:
		i1 = lim(len(s0) + lim((i2 / 8) + int(a2)))
	case i1 <= len(s0):
		if true {
			i2 = S5_f0(-6, arr[3])
			out("S5_t2" + " " + itoa(i0) + "," + itoa(i1) + "," + itoa(i2) + " " + rtq(s0))
			out("S5_b2" + " " + itoa(i0) + "," + itoa(i1) + "," + itoa(i2) + " " + rtq(s0))
			i0, i1, i2 = i2, i0, lim(i1+1)
		}
	}
	i1 = 25
	out("S5_b0" + " " + itoa(i0) + "," + itoa(i1) + "," + itoa(i2) + " " + rtq(s0))
	out("S5_ints " + itoa(i0) + "," + itoa(i1) + "," + itoa(i2) + "," + itoa(i3) + " " + itoa(int(a0)) + "," + itoa(int(a1)) + "," + itoa(int(a2)) + "," + u64toa(uint64(a3)) + "," + i64toa(a4) + "," + u64toa(a5))
	out("S5_strs " + rtq(s0) + " " + rtq(s1) + " " + btoa(b0) + btoa(b1) + " " + f64s(f0))
	fnResult := fn(1)
	shArea := sh.Area(2)
	out("S5_data " + itoa(len(sl)) + ":" + itoa(vsum(sl...)) + " " + itoa(vsum(arr[:]...)) + " " + itoa(len(m)) + ":" + itoa(m["k"]) + " " + itoa(p.a) + rtq(p.b) + itoa(p.c[0]+p.c[1]) + " " + itoa(pp.a) + " " + itoa(fnResult) + " " + sh.name() + itoa(shArea))
}

type S5_dead0 struct{ z int }

func (d S5_dead0) Area(k int) int { return d.z * k }
func (d S5_dead0) name() string { return "dead" }
func (d *S5_dead0) bump(k int) { d.z += k }

func S5_unused0(x int) int { return lim(x + 0) }

var S5_deadvar0 = 0

