package main

func S3_f0(x, z int) int {
	i0, i1, i2, i3 := 1, 3, -1, 7
	var a0 int8 = -8
	var a1 uint8 = 62
	var a2 int16 = -2
	var a3 uint32 = 435494
	var a4 int64 = 15477
	var a5 uint64 = 1012795807
	s0, s1 := "go", "go"
	b0, b1 := false, false
	f0 := 1.25
	sl := []int{1, 2, 3}
	arr := [4]int{1, 1, 3, 4}
	m := map[string]int{"k": 1, "a": 1}
	p := P{a: 1, b: "pb"}
	pp := &P{a: 1}
	fn := func(v int) int { return lim(v*3 + 1) }
	var sh Shape = sq(3)
	_, _, _, _, _, _, _, _, _, _, _, _, _ = a2, a3, a4, a5, b1, f0, fn, sh, s1, b0, arr, m, pp
	i0, i1 = lim(x), lim(z)
	if x > 0 && x < 6 {
		i2 = S3_f0(x-1, z+1)
	}
	i3 = sl[ix(lim(-(len(s0) / 3)), len(sl))]
	a2 += a2
	out("S3_b1" + " " + itoa(i0) + "," + itoa(i1) + "," + itoa(i2) + " " + rtq(s0))
	for k, v := range []interface{}{i0, s0, nil, f0, 7, "z", nil} {
		switch x := v.(type) {
		case int:
			i1 = lim(i1 + x)
		case string:
			i2 = lim(i2 + len(x))
		case nil:
			i2 = lim(i2 + 1000)
		default:
			if k%2 == 1 {
				break
			}
			i1 = lim(i1 - 3)
			_ = x
		}
		i3 = lim(i3 + k + 1)
	}
	return lim(i0 + i1*3 + i2*5 + i3*7 + int(a0) + int(a1) + len(s0) + len(sl) + p.a)
}

func S3_f1(x, z int) int {
	i0, i1, i2, i3 := 1, 3, -1, 7
	var a0 int8 = -29
	var a1 uint8 = 126
	var a2 int16 = -1
	var a3 uint32 = 2649849
	var a4 int64 = -13
	var a5 uint64 = 5
	s0, s1 := "héllo", ""
	b0, b1 := false, false
	f0 := 1.25
	sl := []int{1, 2, 3}
	arr := [4]int{1, 1, 3, 4}
	m := map[string]int{"k": 1, "a": 1}
	p := P{a: 1, b: "pb"}
	pp := &P{a: 1}
	fn := func(v int) int { return lim(v*3 + 1) }
	var sh Shape = pp
	_, _, _, _, _, _, _, _, _, _, _, _, _ = a2, a3, a4, a5, b1, f0, fn, sh, s1, b0, arr, m, pp
	i0, i1 = lim(x), lim(z)
	if x > 0 && x < 6 {
		i2 = S3_f1(x-1, z+1)
	}
	i0 = i0
	{
		acc := 0
		for k, v := range m {
			acc += len(k)*7 + v
		}
		i2 = lim(acc)
	}
	out("S3_b4" + " " + itoa(i0) + "," + itoa(i1) + "," + itoa(i2) + " " + rtq(s0))
	i3 = (arr[1] ^ 0)
	i2 = vsum(i0, (i1 ^ 47))
	i2 = lim(i2 + vsum(sl...) + vsum())
	out("S3_b2" + " " + itoa(i0) + "," + itoa(i1) + "," + itoa(i2) + " " + rtq(s0))
	switch {
	case (((a1 ^ uint8(2)) >> 0) < (a1 ^ uint8(0))):
		for c := 3; c > 0; c-- {
			i2 = lim(i2 + c)
		}
	}
	return lim(i0 + i1*3 + i2*5 + i3*7 + int(a0) + int(a1) + len(s0) + len(sl) + p.a)
}

func S3_f2(x, z int) int {
	i0, i1, i2, i3 := 22, 45, -22, 7
	var a0 int8 = -26
	var a1 uint8 = 30
	var a2 int16 = -1
	var a3 uint32 = 56
	var a4 int64 = 5
	var a5 uint64 = 160960501
	s0, s1 := "héllo", ""
	b0, b1 := true, false
	f0 := 22.25
	sl := []int{22, 2, 3}
	arr := [4]int{1, 22, 3, 4}
	m := map[string]int{"k": 22, "a": 1}
	p := P{a: 22, b: "pb"}
	pp := &P{a: 1}
	fn := func(v int) int { return lim(v*3 + 1) }
	var sh Shape = sq(3)
	_, _, _, _, _, _, _, _, _, _, _, _, _ = a2, a3, a4, a5, b1, f0, fn, sh, s1, b0, arr, m, pp
	i0, i1 = lim(x), lim(z)
	if x > 0 && x < 6 {
		i2 = S3_f2(x-1, z+1)
	}
	i2 = lim(i1 * i1)
	if b0 {
		goto G1
	}
	i2 = lim(i2 + 5)
	G1:
	i2 = lim(i2 + 1)
	out("S3_b0" + " " + itoa(i0) + "," + itoa(i1) + "," + itoa(i2) + " " + rtq(s0))
	return lim(i0 + i1*3 + i2*5 + i3*7 + int(a0) + int(a1) + len(s0) + len(sl) + p.a)
}

func S3_main() {
	i0, i1, i2, i3 := 47, 95, -47, 7
	var a0 int8 = -12
	var a1 uint8 = 235
	var a2 int16 = -358
	var a3 uint32 = 144
	var a4 int64 = 327546
	var a5 uint64 = 1779
	s0, s1 := "go", "héllo"
	b0, b1 := false, false
	f0 := 47.25
	sl := []int{47, 2, 3}
	arr := [4]int{1, 47, 3, 4}
	m := map[string]int{"k": 47, "a": 1}
	p := P{a: 47, b: "pb"}
	pp := &P{a: 1}
	fn := func(v int) int { return lim(v*3 + 1) }
	var sh Shape = pp
	_, _, _, _, _, _, _, _, _, _, _, _, _ = a2, a3, a4, a5, b1, f0, fn, sh, s1, b0, arr, m, pp
	i3 = i2
	for k, v := range []interface{}{i0, s0, nil, f0, 7, "z", nil} {
		switch v.(type) {
		case int:
			if k%2 == 0 {
				break
			}
			i1 = lim(i1 + 1)
		case string:
			i2 = lim(i2 + 1)
		case nil:
			i2 = lim(i2 + 1000)
		default:
			i1 = lim(i1 - 3)
		}
		i3 = lim(i3 + k + 1)
	}
	out("S3_b7" + " " + itoa(i0) + "," + itoa(i1) + "," + itoa(i2) + " " + rtq(s0))
	m["k"]++
	i0, i1 = lim(i0), lim(i1)
	f0 = fclamp(f0*1.25 + float64((i0 ^ 20))/2.0)
	out("S3_b5" + " " + itoa(i0) + "," + itoa(i1) + "," + itoa(i2) + " " + rtq(s0))
	f0 = fclamp(f0*1.25 + float64(lim(lim(-10 * len(s0)) - lim(i2 * len(s0))))/1.0)
	i2 = vsum(lim(i0 - i3), p.a)
	i2 = lim(i2 + vsum(sl...) + vsum())
	out("S3_b3" + " " + itoa(i0) + "," + itoa(i1) + "," + itoa(i2) + " " + rtq(s0))
	i3 = i2
	i2 = arr[1]
	out("S3_b1" + " " + itoa(i0) + "," + itoa(i1) + "," + itoa(i2) + " " + rtq(s0))
	for k, r := range sub(s0, 2) {
		i3 = lim(i3 + k + int(r))
	}
	out("S3_ints " + itoa(i0) + "," + itoa(i1) + "," + itoa(i2) + "," + itoa(i3) + " " + itoa(int(a0)) + "," + itoa(int(a1)) + "," + itoa(int(a2)) + "," + u64toa(uint64(a3)) + "," + i64toa(a4) + "," + u64toa(a5))
	out("S3_strs " + rtq(s0) + " " + rtq(s1) + " " + btoa(b0) + btoa(b1) + " " + f64s(f0))
	fnResult := fn(1)
	shArea := sh.Area(2)
	out("S3_data " + itoa(len(sl)) + ":" + itoa(vsum(sl...)) + " " + itoa(vsum(arr[:]...)) + " " + itoa(len(m)) + ":" + itoa(m["k"]) + " " + itoa(p.a) + rtq(p.b) + itoa(p.c[0]+p.c[1]) + " " + itoa(pp.a) + " " + itoa(fnResult) + " " + sh.name() + itoa(shArea))
}

type S3_dead0 struct{ z int }

func (d S3_dead0) Area(k int) int { return d.z * k }
func (d S3_dead0) name() string { return "dead" }
func (d *S3_dead0) bump(k int) { d.z += k }

func S3_unused0(x int) int { return lim(x + 0) }

var S3_deadvar0 = 0

type S3_dead1 struct{ z int }

func (d S3_dead1) Area(k int) int { return d.z * k }
func (d S3_dead1) name() string { return "dead" }
func (d *S3_dead1) bump(k int) { d.z += k }

func S3_unused1(x int) int { return lim(x + 1) }

var S3_deadvar1 = 1

type S3_dead2 struct{ z int }

func (d S3_dead2) Area(k int) int { return d.z * k }
func (d S3_dead2) name() string { return "dead" }
func (d *S3_dead2) bump(k int) { d.z += k }

func S3_unused2(x int) int { return lim(x + 2) }

var S3_deadvar2 = 2

