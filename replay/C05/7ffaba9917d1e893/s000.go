package main

func S7_f0(x, z int) int {
	i0, i1, i2, i3 := 0, 1, 0, 7
	var a0 int8 = 15
	var a1 uint8 = 78
	var a2 int16 = 3000
	var a3 uint32 = 55
	var a4 int64 = -3
	var a5 uint64 = 25325
	s0, s1 := "", "héllo"
	b0, b1 := true, false
	f0 := 0.25
	sl := []int{0, 2, 3}
	arr := [4]int{1, 0, 3, 4}
	m := map[string]int{"k": 0, "a": 1}
	p := P{a: 0, b: "pb"}
	pp := &P{a: 1}
	fn := func(v int) int { return lim(v*3 + 1) }
	var sh Shape = pp
	_, _, _, _, _, _, _, _, _, _, _, _, _ = a2, a3, a4, a5, b1, f0, fn, sh, s1, b0, arr, m, pp
	i0, i1 = lim(x), lim(z)
	if x > 0 && x < 6 {
		i2 = S7_f0(x-1, z+1)
	}
	{
		cp := p
		cp.a = lim(cp.a + 7)
		cp.c[1] = i0
		arr2 := arr
		arr2[0] = cp.a
		i3 = lim(p.a + cp.a + arr[0] + arr2[0] + p.c[1])
	}
	i1 = lim(lim(-lim(p.a - i0)) * len(s0))
	out("S7_b1" + " " + itoa(i0) + "," + itoa(i1) + "," + itoa(i2) + " " + rtq(s0))
	if (a1 < ((a1 << 8) << 2)) {
	} else if ((b1 || b1) && 4 == 3) {
	} else {
	}
	return lim(i0 + i1*3 + i2*5 + i3*7 + int(a0) + int(a1) + len(s0) + len(sl) + p.a)
}

func S7_main() {
	i0, i1, i2, i3 := 48, 97, -48, 7
	var a0 int8 = -8
	var a1 uint8 = 129
	var a2 int16 = -140
	var a3 uint32 = 219828492
	var a4 int64 = 145298
	var a5 uint64 = 0
	s0, s1 := "héllo", "go"
	b0, b1 := true, false
	f0 := 48.25
	sl := []int{48, 2, 3}
	arr := [4]int{1, 48, 3, 4}
	m := map[string]int{"k": 48, "a": 1}
	p := P{a: 48, b: "pb"}
	pp := &P{a: 1}
	fn := func(v int) int { return lim(v*3 + 1) }
	var sh Shape = &p
	_, _, _, _, _, _, _, _, _, _, _, _, _ = a2, a3, a4, a5, b1, f0, fn, sh, s1, b0, arr, m, pp
	i0, i1, i2 = i2, i0, lim(i1+1)
	i0 = len(s0)
	out("S7_b11" + " " + itoa(i0) + "," + itoa(i1) + "," + itoa(i2) + " " + rtq(s0))
	i0, i1, i2 = i2, i0, lim(i1+1)
	a5 &= uint64((i1 / 9))
	out("S7_b9" + " " + itoa(i0) + "," + itoa(i1) + "," + itoa(i2) + " " + rtq(s0))
	i0 = fn(-5)
	a4 |= (a4 ^ int64(13))
	out("S7_b7" + " " + itoa(i0) + "," + itoa(i1) + "," + itoa(i2) + " " + rtq(s0))
	{
		acc := 0
		for k, v := range m {
			acc += len(k)*7 + v
		}
		i2 = lim(acc)
	}
	i0, i1, i2 = i2, i0, lim(i1+1)
	out("S7_b5" + " " + itoa(i0) + "," + itoa(i1) + "," + itoa(i2) + " " + rtq(s0))
	switch lim(49 * lim(i3 + len(s0))) % 5 {
	case -2:
		for k := 0; k < 1; k++ {
			i3 = lim(i3 + k)
			switch {
			case false:
				a3 += (a3 << 2)
				a0++
				i0, i1 = lim(i0), lim(i1)
				out("S7_b0" + " " + itoa(i0) + "," + itoa(i1) + "," + itoa(i2) + " " + rtq(s0))
			default:
			}
		}
	case 4:
	}
	out("S7_ints " + itoa(i0) + "," + itoa(i1) + "," + itoa(i2) + "," + itoa(i3) + " " + itoa(int(a0)) + "," + itoa(int(a1)) + "," + itoa(int(a2)) + "," + u64toa(uint64(a3)) + "," + i64toa(a4) + "," + u64toa(a5))
	out("S7_strs " + rtq(s0) + " " + rtq(s1) + " " + btoa(b0) + btoa(b1) + " " + f64s(f0))
	fnResult := fn(1)
	shArea := sh.Area(2)
	out("S7_data " + itoa(len(sl)) + ":" + itoa(vsum(sl...)) + " " + itoa(vsum(arr[:]...)) + " " + itoa(len(m)) + ":" + itoa(m["k"]) + " " + itoa(p.a) + rtq(p.b) + itoa(p.c[0]+p.c[1]) + " " + itoa(pp.a) + " " + itoa(fnResult) + " " + sh.name() + itoa(shArea))
}

type S7_dead0 struct{ z int }

func (d S7_dead0) Area(k int) int { return d.z * k }
func (d S7_dead0) name() string { return "dead" }
func (d *S7_dead0) bump(k int) { d.z += k }

func S7_unused0(x int) int { return lim(x + 0) }

var S7_deadvar0 = 0

type S7_dead1 struct{ z int }

func (d S7_dead1) Area(k int) int { return d.z * k }
func (d S7_dead1) name() string { return "dead" }
func (d *S7_dead1) bump(k int) { d.z += k }

func S7_unused1(x int) int { return lim(x + 1) }

var S7_deadvar1 = 1

