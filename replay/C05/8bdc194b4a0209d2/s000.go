package main

func S5_f0(x, z int) int {
	i0, i1, i2, i3 := 0, 1, 0, 7
	var a0 int8 = -1
	var a1 uint8 = 1
	var a2 int16 = 2
	var a3 uint32 = 3243
	var a4 int64 = 141956602
	var a5 uint64 = 2458
	s0, s1 := "", "go"
	b0, b1 := true, false
	f0 := 0.25
	sl := []int{0, 2, 3}
	arr := [4]int{1, 0, 3, 4}
	m := map[string]int{"k": 0, "a": 1}
	p := P{a: 0, b: "pb"}
	pp := &P{a: 1}
	fn := func(v int) int { return lim(v*3 + 1) }
	var sh Shape = sq(3)
	_, _, _, _, _, _, _, _, _, _, _, _, _ = a2, a3, a4, a5, b1, f0, fn, sh, s1, b0, arr, m, pp
	i0, i1 = lim(x), lim(z)
	if x > 0 && x < 6 {
		i2 = S5_f0(x-1, z+1)
	}
	a1 |= (a1 + uint8(a1))
	f0 = fclamp(f0*0.5 + float64((i1 % 4))/3.0)
	out("S5_b3" + " " + itoa(i0) + "," + itoa(i1) + "," + itoa(i2) + " " + rtq(s0))
	i0 = (((i2 / 9) ^ 1) / 7)
	i1 = arr[ix(sl[ix(lim(2 - len(sl)), len(sl))], 4)]
	out("S5_b1" + " " + itoa(i0) + "," + itoa(i1) + "," + itoa(i2) + " " + rtq(s0))
	for k := 0; k < 2; k++ {
		i3 = lim(i3 + k)
		if true {
			break
		}
	}
	return lim(i0 + i1*3 + i2*5 + i3*7 + int(a0) + int(a1) + len(s0) + len(sl) + p.a)
}

func S5_f1(x, z int) int {
	i0, i1, i2, i3 := 1, 3, -1, 7
	var a0 int8 = 26
	var a1 uint8 = 6
	var a2 int16 = 49
	var a3 uint32 = 6
	var a4 int64 = 12
	var a5 uint64 = 25625
	s0, s1 := "abcdef", ""
	b0, b1 := false, false
	f0 := 1.25
	sl := []int{1, 2, 3}
	arr := [4]int{1, 1, 3, 4}
	m := map[string]int{"k": 1, "a": 1}
	p := P{a: 1, b: "pb"}
	pp := &P{a: 1}
	fn := func(v int) int { return lim(v*3 + 1) }
	var sh Shape = pp
	_, _, _, _, _, _, _, _, _, _, _, _, _ = a2, a3, a4, a5, b1, f0, fn, sh, s1, b0, arr, m, pp
	i0, i1 = lim(x), lim(z)
	if x > 0 && x < 6 {
		i2 = S5_f1(x-1, z+1)
	}
	i0 = fn(arr[ix(i3, 4)])
	m["k"]++
	i0, i1 = lim(i0), lim(i1)
	out("S5_b0" + " " + itoa(i0) + "," + itoa(i1) + "," + itoa(i2) + " " + rtq(s0))
	return lim(i0 + i1*3 + i2*5 + i3*7 + int(a0) + int(a1) + len(s0) + len(sl) + p.a)
}

func S5_f2(x, z int) int {
	i0, i1, i2, i3 := 24, 49, -24, 7
	var a0 int8 = -26
	var a1 uint8 = 255
	var a2 int16 = -55
	var a3 uint32 = 626107867
	var a4 int64 = 1332
	var a5 uint64 = 13090966
	s0, s1 := "go", "abcdef"
	b0, b1 := true, false
	f0 := 24.25
	sl := []int{24, 2, 3}
	arr := [4]int{1, 24, 3, 4}
	m := map[string]int{"k": 24, "a": 1}
	p := P{a: 24, b: "pb"}
	pp := &P{a: 1}
	fn := func(v int) int { return lim(v*3 + 1) }
	var sh Shape = &p
	_, _, _, _, _, _, _, _, _, _, _, _, _ = a2, a3, a4, a5, b1, f0, fn, sh, s1, b0, arr, m, pp
	i0, i1 = lim(x), lim(z)
	if v := i1; v > -1 {
		{
			cl := func(d int) int {
				a3 |= a3
				i0 = p.a
				out("S5_b2" + " " + itoa(i0) + "," + itoa(i1) + "," + itoa(i2) + " " + rtq(s0))
				i0 = lim(i0 + d)
				return lim(i0 * 2)
			}
			i1 = cl(i2)
			fn = cl
		}
		i0, i1, i2 = i2, i0, lim(i1+1)
		out("S5_b1" + " " + itoa(i0) + "," + itoa(i1) + "," + itoa(i2) + " " + rtq(s0))
		{
			ch := make(chan int, 2)
			ch <- 5
			for k := 0; k < 4; k++ {
				select {
				case v := <-ch:
					i1 = lim(i1 + v)
					i1 = lim(i1 + 100)
				default:
						if k%2 == 0 {
							break
						}
					i2 = lim(i2 + 10)
				}
				i3 = lim(i3 + 1)
			}
		}
	} else if i0 <= p.a {
	} else {
	}
	return lim(i0 + i1*3 + i2*5 + i3*7 + int(a0) + int(a1) + len(s0) + len(sl) + p.a)
}

func S5_main() {
	i0, i1, i2, i3 := 6, 13, -6, 7
	var a0 int8 = -24
	var a1 uint8 = 185
	var a2 int16 = -1
	var a3 uint32 = 1073741824
	var a4 int64 = -2683
	var a5 uint64 = 1001977
	s0, s1 := "go", ""
	b0, b1 := true, false
	f0 := 6.25
	sl := []int{6, 2, 3}
	arr := [4]int{1, 6, 3, 4}
	m := map[string]int{"k": 6, "a": 1}
	p := P{a: 6, b: "pb"}
	pp := &P{a: 1}
	fn := func(v int) int { return lim(v*3 + 1) }
	var sh Shape = &p
	_, _, _, _, _, _, _, _, _, _, _, _, _ = a2, a3, a4, a5, b1, f0, fn, sh, s1, b0, arr, m, pp
	i3 = lim(i1 * lim((i0 % 3) * m[itoa(i3)]))
	a3 *= uint32(a1)
	out("S5_b30" + " " + itoa(i0) + "," + itoa(i1) + "," + itoa(i2) + " " + rtq(s0))
	f0 = fclamp(f0*1.25 + float64(sl[ix(len(s0), len(sl))])/5.0)
	s1 = cut(string(rune('a' + ix(i2, 26))) + itoa(i0))
	out("S5_b28" + " " + itoa(i0) + "," + itoa(i1) + "," + itoa(i2) + " " + rtq(s0))
	i0, i1, i2 = i2, i0, lim(i1+1)
	out("S5_t26" + " " + itoa(i0) + "," + itoa(i1) + "," + itoa(i2) + " " + rtq(s0))
	out("S5_b26" + " " + itoa(i0) + "," + itoa(i1) + "," + itoa(i2) + " " + rtq(s0))
	i1 = arr[1]
	i2 = lim(lim(i3 - 1) - len(sl))
	out("S5_b24" + " " + itoa(i0) + "," + itoa(i1) + "," + itoa(i2) + " " + rtq(s0))
	p.b = sub(s1, -2)
	f0 = fclamp(f0*-0.75 + float64(lim(lim(arr[0] - i3) + (i1 / 9)))/1.0)
	out("S5_b22" + " " + itoa(i0) + "," + itoa(i1) + "," + itoa(i2) + " " + rtq(s0))
	i0 = len(sl)
	i0 = lim(i1 * (arr[ix(len(s0), 4)] / 2))
	out("S5_b20" + " " + itoa(i0) + "," + itoa(i1) + "," + itoa(i2) + " " + rtq(s0))
	{
		acc := 0
		for k, v := range m {
			acc += len(k)*7 + v
		}
		i2 = lim(acc)
	}
	i3 = ((len(s0) % 1) % 4)
	out("S5_b18" + " " + itoa(i0) + "," + itoa(i1) + "," + itoa(i2) + " " + rtq(s0))
	a3 *= (a3 ^ uint32(1))
	{
		acc := 0
		for k, v := range m {
			acc += len(k)*7 + v
		}
		i2 = lim(acc)
	}
	out("S5_b16" + " " + itoa(i0) + "," + itoa(i1) + "," + itoa(i2) + " " + rtq(s0))
	i3 = (i0 % 4)
	i0 = sl[ix(len(s0), len(sl))]
	out("S5_b14" + " " + itoa(i0) + "," + itoa(i1) + "," + itoa(i2) + " " + rtq(s0))
	if v := int((a0 << 4)); v > 1 {
		{
			i0 := lim(i0 + 3)
			s0 := s0 + "~"
			i0, i1, i2 = i2, i0, lim(i1+1)
			i1 = len(s0)
			out("S5_b10" + " " + itoa(i0) + "," + itoa(i1) + "," + itoa(i2) + " " + rtq(s0))
			i3 = lim(i3 + i0 + len(s0))
		}
		{
			ch := make(chan int, 2)
			ch <- 5
			for k := 0; k < 4; k++ {
				select {
				case v := <-ch:
					i1 = lim(i1 + v)
					i1 = lim(i1 + 100)
				default:
						if k%2 == 1 {
							break
						}
					i2 = lim(i2 + 10)
				}
				i3 = lim(i3 + 1)
			}
		}
		out("S5_b9" + " " + itoa(i0) + "," + itoa(i1) + "," + itoa(i2) + " " + rtq(s0))
		i2 = lim(len(gmap(sl, func(v int) string { return itoa(v) })) + len(gmap([]string{s0}, func(v string) int { return len(v) })))
	} else if int(s0[ix(i1, len(s0))]) <= (i2 ^ 0) {
		{
			ch := make(chan int, 2)
			ch <- 5
			for k := 0; k < 4; k++ {
				select {
				case v := <-ch:
					i1 = lim(i1 + v)
						if k%2 == 0 {
							break
						}
					i1 = lim(i1 + 100)
				default:
					i2 = lim(i2 + 10)
				}
				i3 = lim(i3 + 1)
			}
		}
	}
	i0 = lim(gmax(i0, 52))
	s0 = gmax(s0, itoa(i2))
	out("S5_b6" + " " + itoa(i0) + "," + itoa(i1) + "," + itoa(i2) + " " + rtq(s0))
	b1 = (uint8((a4 >> 6)) < (((a1 ^ uint8(60)) << 9) - uint8(i1)))
	a0++
	i0, i1 = lim(i0), lim(i1)
	out("S5_b4" + " " + itoa(i0) + "," + itoa(i1) + "," + itoa(i2) + " " + rtq(s0))
	switch {
	case i1 != i0:
		i2 = i2
	}
	m["k"]++
	i0, i1 = lim(i0), lim(i1)
	out("S5_b1" + " " + itoa(i0) + "," + itoa(i1) + "," + itoa(i2) + " " + rtq(s0))
	i0 = m["xyz"]
	out("S5_ints " + itoa(i0) + "," + itoa(i1) + "," + itoa(i2) + "," + itoa(i3) + " " + itoa(int(a0)) + "," + itoa(int(a1)) + "," + itoa(int(a2)) + "," + u64toa(uint64(a3)) + "," + i64toa(a4) + "," + u64toa(a5))
	out("S5_strs " + rtq(s0) + " " + rtq(s1) + " " + btoa(b0) + btoa(b1) + " " + f64s(f0))
	fnResult := fn(1)
	shArea := sh.Area(2)
	out("S5_data " + itoa(len(sl)) + ":" + itoa(vsum(sl...)) + " " + itoa(vsum(arr[:]...)) + " " + itoa(len(m)) + ":" + itoa(m["k"]) + " " + itoa(p.a) + rtq(p.b) + itoa(p.c[0]+p.c[1]) + " " + itoa(pp.a) + " " + itoa(fnResult) + " " + sh.name() + itoa(shArea))
}

type S5_dead0 struct{ z int }

func (d S5_dead0) Area(k int) int { return d.z * k }
func (d S5_dead0) name() string { return "dead" }
func (d *S5_dead0) bump(k int) { d.z += k }

func S5_unused0(x int) int { return lim(x + 0) }

var S5_deadvar0 = 0

type S5_dead1 struct{ z int }

func (d S5_dead1) Area(k int) int { return d.z * k }
func (d S5_dead1) name() string { return "dead" }
func (d *S5_dead1) bump(k int) { d.z += k }

func S5_unused1(x int) int { return lim(x + 1) }

var S5_deadvar1 = 1

