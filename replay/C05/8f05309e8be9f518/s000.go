package main

func S1_f0(x, z int) int {
	i0, i1, i2, i3 := 1, 3, -1, 7
	var a0 int8 = -100
	var a1 uint8 = 1
	var a2 int16 = 2180
	var a3 uint32 = 790
	var a4 int64 = 518792990
	var a5 uint64 = 107544
	s0, s1 := "", "abcdef"
	b0, b1 := false, false
	f0 := 1.25
	sl := []int{1, 2, 3}
	arr := [4]int{1, 1, 3, 4}
	m := map[string]int{"k": 1, "a": 1}
	p := P{a: 1, b: "pb"}
	pp := &P{a: 1}
	fn := func(v int) int { return lim(v*3 + 1) }
	var sh Shape = &p
	_, _, _, _, _, _, _, _, _, _, _, _, _ = a2, a3, a4, a5, b1, f0, fn, sh, s1, b0, arr, m, pp
	i0, i1 = lim(x), lim(z)
	if x > 0 && x < 6 {
		i2 = S1_f0(x-1, z+1)
	}
	i3 = i2
	i2 = vsum(i0, arr[ix(-1, 4)])
	i2 = lim(i2 + vsum(sl...) + vsum())
	out("S1_b3" + " " + itoa(i0) + "," + itoa(i1) + "," + itoa(i2) + " " + rtq(s0))
	for k, v := range []interface{}{i0, s0, nil, f0, 7, "z", nil} {
		switch x := v.(type) {
		case int:
			i1 = lim(i1 + x)
		case string:
			if k%2 == 0 {
				break
			}
			i2 = lim(i2 + len(x))
		case nil:
			i2 = lim(i2 + 1000)
		default:
			if k%2 == 0 {
				break
			}
			i1 = lim(i1 - 3)
			_ = x
		}
		i3 = lim(i3 + k + 1)
	}
	i2 = arr[ix(int(a1), 4)]
	out("S1_b1" + " " + itoa(i0) + "," + itoa(i1) + "," + itoa(i2) + " " + rtq(s0))
	i2 = sl[ix(sl[ix(i3, len(sl))], len(sl))]
	return lim(i0 + i1*3 + i2*5 + i3*7 + int(a0) + int(a1) + len(s0) + len(sl) + p.a)
}

func S1_f1(x, z int) int {
	i0, i1, i2, i3 := 12, 25, -12, 7
	var a0 int8 = 1
	var a1 uint8 = 36
	var a2 int16 = -6
	var a3 uint32 = 1
	var a4 int64 = -459
	var a5 uint64 = 0
	s0, s1 := "", "abcdef"
	b0, b1 := true, false
	f0 := 12.25
	sl := []int{12, 2, 3}
	arr := [4]int{1, 12, 3, 4}
	m := map[string]int{"k": 12, "a": 1}
	p := P{a: 12, b: "pb"}
	pp := &P{a: 1}
	fn := func(v int) int { return lim(v*3 + 1) }
	var sh Shape = sq(3)
	_, _, _, _, _, _, _, _, _, _, _, _, _ = a2, a3, a4, a5, b1, f0, fn, sh, s1, b0, arr, m, pp
	i0, i1 = lim(x), lim(z)
	b0 = b0
	i2 = lim(i0 * arr[0])
	out("S1_b2" + " " + itoa(i0) + "," + itoa(i1) + "," + itoa(i2) + " " + rtq(s0))
	a1 += a1
	i0 = sh.Area(i2)
	out("S1_b0" + " " + itoa(i0) + "," + itoa(i1) + "," + itoa(i2) + " " + rtq(s0))
	return lim(i0 + i1*3 + i2*5 + i3*7 + int(a0) + int(a1) + len(s0) + len(sl) + p.a)
}

func S1_main() {
	i0, i1, i2, i3 := 47, 95, -47, 7
	var a0 int8 = -2
	var a1 uint8 = 0
	var a2 int16 = -13
	var a3 uint32 = 1733
	var a4 int64 = -4
	var a5 uint64 = 31
	s0, s1 := "", ""
	b0, b1 := false, false
	f0 := 47.25
	sl := []int{47, 2, 3}
	arr := [4]int{1, 47, 3, 4}
	m := map[string]int{"k": 47, "a": 1}
	p := P{a: 47, b: "pb"}
	pp := &P{a: 1}
	fn := func(v int) int { return lim(v*3 + 1) }
	var sh Shape = &p
	_, _, _, _, _, _, _, _, _, _, _, _, _ = a2, a3, a4, a5, b1, f0, fn, sh, s1, b0, arr, m, pp
	f0 = fclamp(f0*0.5 + float64(i1)/4.0)
	i1 = (sl[ix(i0, len(sl))] % 1)
	out("S1_b13" + " " + itoa(i0) + "," + itoa(i1) + "," + itoa(i2) + " " + rtq(s0))
	i3 = i2
	i0 = p.a
	out("S1_b11" + " " + itoa(i0) + "," + itoa(i1) + "," + itoa(i2) + " " + rtq(s0))
	{
		cl := func(d int) int {
			a4 = int64(lim(i1 * i3)) * 4294967297
			a5 = uint64(a4) >> 30
			a0, a1, a2 = int8(a4), uint8(a5), int16(a4>>0)
			i1 = -9
			out("S1_b8" + " " + itoa(i0) + "," + itoa(i1) + "," + itoa(i2) + " " + rtq(s0))
			i0 = lim(i0 + d)
			return lim(i0 * 2)
		}
		i1 = cl(int(s0[ix(arr[1], len(s0))]))
		fn = cl
	}
	i0 = lim(lim((i3 % 4) - lim(-19 + i1)) * arr[ix(i0, 4)])
	out("S1_b7" + " " + itoa(i0) + "," + itoa(i1) + "," + itoa(i2) + " " + rtq(s0))
	s0 = s1
	if v := i3; v > 5 {
		out("S1_t4" + " " + itoa(i0) + "," + itoa(i1) + "," + itoa(i2) + " " + rtq(s0))
		i0 = 2
		out("S1_b3" + " " + itoa(i0) + "," + itoa(i1) + "," + itoa(i2) + " " + rtq(s0))
	}
	out("S1_b3" + " " + itoa(i0) + "," + itoa(i1) + "," + itoa(i2) + " " + rtq(s0))
	{
		cp := p
		cp.a = lim(cp.a + 7)
		cp.c[1] = i0
		arr2 := arr
		arr2[0] = cp.a
		i3 = lim(p.a + cp.a + arr[0] + arr2[0] + p.c[1])
	}
	i0, i1, i2 = i2, i0, lim(i1+1)
	out("S1_b1" + " " + itoa(i0) + "," + itoa(i1) + "," + itoa(i2) + " " + rtq(s0))
	a5 &= a5
	out("S1_ints " + itoa(i0) + "," + itoa(i1) + "," + itoa(i2) + "," + itoa(i3) + " " + itoa(int(a0)) + "," + itoa(int(a1)) + "," + itoa(int(a2)) + "," + u64toa(uint64(a3)) + "," + i64toa(a4) + "," + u64toa(a5))
	out("S1_strs " + rtq(s0) + " " + rtq(s1) + " " + btoa(b0) + btoa(b1) + " " + f64s(f0))
	fnResult := fn(1)
	shArea := sh.Area(2)
	out("S1_data " + itoa(len(sl)) + ":" + itoa(vsum(sl...)) + " " + itoa(vsum(arr[:]...)) + " " + itoa(len(m)) + ":" + itoa(m["k"]) + " " + itoa(p.a) + rtq(p.b) + itoa(p.c[0]+p.c[1]) + " " + itoa(pp.a) + " " + itoa(fnResult) + " " + sh.name() + itoa(shArea))
	panic("scenario S1_ gives up")
}

type S1_dead0 struct{ z int }

func (d S1_dead0) Area(k int) int { return d.z * k }
func (d S1_dead0) name() string { return "dead" }
func (d *S1_dead0) bump(k int) { d.z += k }

func S1_unused0(x int) int { return lim(x + 0) }

var S1_deadvar0 = 0

type S1_dead1 struct{ z int }

func (d S1_dead1) Area(k int) int { return d.z * k }
func (d S1_dead1) name() string { return "dead" }
func (d *S1_dead1) bump(k int) { d.z += k }

func S1_unused1(x int) int { return lim(x + 1) }

var S1_deadvar1 = 1

