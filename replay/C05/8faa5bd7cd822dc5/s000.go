package main

func S13_f0(x, z int) int {
	i0, i1, i2, i3 := 14, 29, -14, 7
	var a0 int8 = -3
	var a1 uint8 = 229
	var a2 int16 = -2
	var a3 uint32 = 2
	var a4 int64 = 46
	var a5 uint64 = 2
	s0, s1 := "", ""
	b0, b1 := true, false
	f0 := 14.25
	sl := []int{14, 2, 3}
	arr := [4]int{1, 14, 3, 4}
	m := map[string]int{"k": 14, "a": 1}
	p := P{a: 14, b: "pb"}
	pp := &P{a: 1}
	fn := func(v int) int { return lim(v*3 + 1) }
	var sh Shape = sq(3)
	_, _, _, _, _, _, _, _, _, _, _, _, _ = a2, a3, a4, a5, b1, f0, fn, sh, s1, b0, arr, m, pp
	i0, i1 = lim(x), lim(z)
	if x > 0 && x < 6 {
		i2 = S13_f0(x-1, z+1)
	}
	{
		cl := func(d int) int {
			a4 *= a4
			i0 = len(s0)
			out("S13_b4" + " " + itoa(i0) + "," + itoa(i1) + "," + itoa(i2) + " " + rtq(s0))
			i0 = lim(i0 + d)
			return lim(i0 * 2)
		}
		i1 = cl(lim(-len(s0)))
		fn = cl
	}
	delete(m, s1)
	out("S13_b3" + " " + itoa(i0) + "," + itoa(i1) + "," + itoa(i2) + " " + rtq(s0))
	{
		cl := func(d int) int {
			i2 = p.a
			i0 = lim(i0 + d)
			return lim(i0 * 2)
		}
		i1 = cl(len(sl))
		fn = cl
	}
	i3 = arr[ix(i3, 4)]
	out("S13_b0" + " " + itoa(i0) + "," + itoa(i1) + "," + itoa(i2) + " " + rtq(s0))
	return lim(i0 + i1*3 + i2*5 + i3*7 + int(a0) + int(a1) + len(s0) + len(sl) + p.a)
}

func S13_main() {
	i0, i1, i2, i3 := 1, 3, -1, 7
	var a0 int8 = -39
	var a1 uint8 = 90
	var a2 int16 = 4
	var a3 uint32 = 1073741824
	var a4 int64 = 0
	var a5 uint64 = 27
	s0, s1 := "", "go"
	b0, b1 := false, false
	f0 := 1.25
	sl := []int{1, 2, 3}
	arr := [4]int{1, 1, 3, 4}
	m := map[string]int{"k": 1, "a": 1}
	p := P{a: 1, b: "pb"}
	pp := &P{a: 1}
	fn := func(v int) int { return lim(v*3 + 1) }
	var sh Shape = &p
	_, _, _, _, _, _, _, _, _, _, _, _, _ = a2, a3, a4, a5, b1, f0, fn, sh, s1, b0, arr, m, pp
	s0 = cut(s0)
	{
		strs := []string{s0, "x"}
		strs[nx(2)] += "+"
		s0 = strs[0] + strs[1]
	}
	out("S13_calls " + itoa(cn))
	i2 = lim(lim(len(sl) + i0) - lim(lim(len(s0) * i1) - lim(len(sl) - p.a)))
	out("S13_b38" + " " + itoa(i0) + "," + itoa(i1) + "," + itoa(i2) + " " + rtq(s0))
	b1 = i3 >= lim(lim(p.a + p.a) - len(s0))
	{
		ch := make(chan int, 2)
		ch <- 5
		for k := 0; k < 4; k++ {
			select {
			case v := <-ch:
				i1 = lim(i1 + v)
				i1 = lim(i1 + 100)
			default:
				if k%2 == 0 {
						break
				}
				i2 = lim(i2 + 10)
			}
			i3 = lim(i3 + 1)
		}
	}
	out("S13_b36" + " " + itoa(i0) + "," + itoa(i1) + "," + itoa(i2) + " " + rtq(s0))
	if v := len(sl); v > -3 {
		a4 = int64((i1 ^ 1)) * 4294967297
		a5 = uint64(a4) >> 36
		a0, a1, a2 = int8(a4), uint8(a5), int16(a4>>0)
		i0 = len(s0)
		out("S13_b33" + " " + itoa(i0) + "," + itoa(i1) + "," + itoa(i2) + " " + rtq(s0))
		i1 = p.a
	}
	switch {
	case (len(s0) % 6) != lim(p.a + p.a):
		i0 = fn(lim(arr[1] * i3))
	default:
		i0 = i1
	}
	out("S13_b29" + " " + itoa(i0) + "," + itoa(i1) + "," + itoa(i2) + " " + rtq(s0))
	i1++
	i0, i1 = lim(i0), lim(i1)
	if b1 {
		goto G1
	}
	i2 = lim(i2 + 5)
	G1:
	i2 = lim(i2 + 1)
	out("S13_b27" + " " + itoa(i0) + "," + itoa(i1) + "," + itoa(i2) + " " + rtq(s0))
	switch {
	case i1 > i0:
		a0 += a0
		i1--
		i0, i1 = lim(i0), lim(i1)
		out("S13_b24" + " " + itoa(i0) + "," + itoa(i1) + "," + itoa(i2) + " " + rtq(s0))
	}
	i3 = len(sl)
	out("S13_b23" + " " + itoa(i0) + "," + itoa(i1) + "," + itoa(i2) + " " + rtq(s0))
	{
		gc := 0
	G2:
		gc++
		i3 = lim(i3 + gc)
		if gc < 3 {
			goto G2
		}
	}
	i1 = lim(i0 + m[s0])
	out("S13_b21" + " " + itoa(i0) + "," + itoa(i1) + "," + itoa(i2) + " " + rtq(s0))
	a1 += (uint8(p.a) << 5)
	i0--
	i0, i1 = lim(i0), lim(i1)
	out("S13_b19" + " " + itoa(i0) + "," + itoa(i1) + "," + itoa(i2) + " " + rtq(s0))
	i0++
	i0, i1 = lim(i0), lim(i1)
	{
		cl := func(d int) int {
			a4 = int64(len(sl)) * 4294967297
			a5 = uint64(a4) >> 27
			a0, a1, a2 = int8(a4), uint8(a5), int16(a4>>20)
			i0 = lim(i0 + d)
			return lim(i0 * 2)
		}
		i1 = cl(lim(i2 * len(s0)))
		fn = cl
	}
	out("S13_b16" + " " + itoa(i0) + "," + itoa(i1) + "," + itoa(i2) + " " + rtq(s0))
	for k, v := range []interface{}{i0, s0, nil, f0, 7, "z", nil} {
		switch v.(type) {
		case int:
			if k%2 == 1 {
				break
			}
			i1 = lim(i1 + 1)
		case string:
			i2 = lim(i2 + 1)
		case nil:
			i2 = lim(i2 + 1000)
		default:
			i1 = lim(i1 - 3)
		}
		i3 = lim(i3 + k + 1)
	}
	{
		cl := func(d int) int {
			func() {
				defer func() {
					i1 = lim(i1 + 3)
					if r := recover(); r != nil {
						s1 = cut(s1 + "R")
					}
				}()
				i0 = lim(i0 + lim(sl[ix(arr[2], len(sl))] - lim(i0 + len(s0))))
				if (len(sl) == i1 || true) {
					panic("inner")
				}
			}()
			i0 = lim(i0 + d)
			return lim(i0 * 2)
		}
		i1 = cl(-15)
		fn = cl
	}
	out("S13_b12" + " " + itoa(i0) + "," + itoa(i1) + "," + itoa(i2) + " " + rtq(s0))
	out("S13_t11" + " " + itoa(i0) + "," + itoa(i1) + "," + itoa(i2) + " " + rtq(s0))
	for c := 2; c > 0; c-- {
		i2 = lim(i2 + c)
		i1 = i1
		i3 = ((lim(len(sl) - 99) ^ 1) % 9)
		out("S13_b8" + " " + itoa(i0) + "," + itoa(i1) + "," + itoa(i2) + " " + rtq(s0))
		for k := 0; k < 1; k++ {
			i3 = lim(i3 + k)
			if v := (len(s0) / 2); v > -1 {
				i1 = (p.a & 210)
				i0 = (m[s1] & 7)
				out("S13_b4" + " " + itoa(i0) + "," + itoa(i1) + "," + itoa(i2) + " " + rtq(s0))
				i2 = len(sl)
			} else if b1 {
				a2 |= a2
			} else {
				i0 = lim(-3)
				i0, i1, i2 = i2, i0, lim(i1+1)
				out("S13_b0" + " " + itoa(i0) + "," + itoa(i1) + "," + itoa(i2) + " " + rtq(s0))
			}
		}
	}
	out("S13_b0" + " " + itoa(i0) + "," + itoa(i1) + "," + itoa(i2) + " " + rtq(s0))
	out("S13_ints " + itoa(i0) + "," + itoa(i1) + "," + itoa(i2) + "," + itoa(i3) + " " + itoa(int(a0)) + "," + itoa(int(a1)) + "," + itoa(int(a2)) + "," + u64toa(uint64(a3)) + "," + i64toa(a4) + "," + u64toa(a5))
	out("S13_strs " + rtq(s0) + " " + rtq(s1) + " " + btoa(b0) + btoa(b1) + " " + f64s(f0))
	fnResult := fn(1)
	shArea := sh.Area(2)
	out("S13_data " + itoa(len(sl)) + ":" + itoa(vsum(sl...)) + " " + itoa(vsum(arr[:]...)) + " " + itoa(len(m)) + ":" + itoa(m["k"]) + " " + itoa(p.a) + rtq(p.b) + itoa(p.c[0]+p.c[1]) + " " + itoa(pp.a) + " " + itoa(fnResult) + " " + sh.name() + itoa(shArea))
}

type S13_dead0 struct{ z int }

func (d S13_dead0) Area(k int) int { return d.z * k }
func (d S13_dead0) name() string { return "dead" }
func (d *S13_dead0) bump(k int) { d.z += k }

func S13_unused0(x int) int { return lim(x + 0) }

var S13_deadvar0 = 0

