package main

func S7_f0(x, z int) int {
	i0, i1, i2, i3 := 5, 11, -5, 7
	var a0 int8 = 1
	var a1 uint8 = 135
	var a2 int16 = -1121
	var a3 uint32 = 2
	var a4 int64 = -80137
	var a5 uint64 = 6507
	s0, s1 := "abcdef", "go"
	b0, b1 := false, false
	f0 := 5.25
	sl := []int{5, 2, 3}
	arr := [4]int{1, 5, 3, 4}
	m := map[string]int{"k": 5, "a": 1}
	p := P{a: 5, b: "pb"}
	pp := &P{a: 1}
	fn := func(v int) int { return lim(v*3 + 1) }
	var sh Shape = sq(3)
	_, _, _, _, _, _, _, _, _, _, _, _, _ = a2, a3, a4, a5, b1, f0, fn, sh, s1, b0, arr, m, pp
	i0, i1 = lim(x), lim(z)
	if x > 0 && x < 6 {
		i2 = S7_f0(x-1, z+1)
	}
	{
		cl := func(d int) int {
			i2 = i2
			i0 = lim(i0 + d)
			return lim(i0 * 2)
		}
		i1 = cl(lim(-i1))
		fn = cl
	}
	return lim(i0 + i1*3 + i2*5 + i3*7 + int(a0) + int(a1) + len(s0) + len(sl) + p.a)
}

func S7_f1(x, z int) int {
	i0, i1, i2, i3 := 0, 1, 0, 7
	var a0 int8 = -16
	var a1 uint8 = 31
	var a2 int16 = -222
	var a3 uint32 = 1
	var a4 int64 = -2
	var a5 uint64 = 3
	s0, s1 := "héllo", "go"
	b0, b1 := true, false
	f0 := 0.25
	sl := []int{0, 2, 3}
	arr := [4]int{1, 0, 3, 4}
	m := map[string]int{"k": 0, "a": 1}
	p := P{a: 0, b: "pb"}
	pp := &P{a: 1}
	fn := func(v int) int { return lim(v*3 + 1) }
	var sh Shape = pp
	_, _, _, _, _, _, _, _, _, _, _, _, _ = a2, a3, a4, a5, b1, f0, fn, sh, s1, b0, arr, m, pp
	i0, i1 = lim(x), lim(z)
	i2 = ((i2 % 1) ^ 14)
	{
		cp := p
		cp.a = lim(cp.a + 7)
		cp.c[1] = i0
		arr2 := arr
		arr2[0] = cp.a
		i3 = lim(p.a + cp.a + arr[0] + arr2[0] + p.c[1])
	}
	out("S7_b1" + " " + itoa(i0) + "," + itoa(i1) + "," + itoa(i2) + " " + rtq(s0))
	i2 = vsum(lim(len(sl) * -3), lim(i1 + len(sl)))
	i2 = lim(i2 + vsum(sl...) + vsum())
	return lim(i0 + i1*3 + i2*5 + i3*7 + int(a0) + int(a1) + len(s0) + len(sl) + p.a)
}

func S7_main() {
	i0, i1, i2, i3 := 3, 7, -3, 7
	var a0 int8 = 48
	var a1 uint8 = 5
	var a2 int16 = -916
	var a3 uint32 = 102
	var a4 int64 = 0
	var a5 uint64 = 709
	s0, s1 := "", "go"
	b0, b1 := false, false
	f0 := 3.25
	sl := []int{3, 2, 3}
	arr := [4]int{1, 3, 3, 4}
	m := map[string]int{"k": 3, "a": 1}
	p := P{a: 3, b: "pb"}
	pp := &P{a: 1}
	fn := func(v int) int { return lim(v*3 + 1) }
	var sh Shape = &p
	_, _, _, _, _, _, _, _, _, _, _, _, _ = a2, a3, a4, a5, b1, f0, fn, sh, s1, b0, arr, m, pp
	sl[ix(((len(s0) ^ 1) ^ 2), len(sl))] = m[p.b]
	i3 = (len(s0) % 5)
	out("S7_b36" + " " + itoa(i0) + "," + itoa(i1) + "," + itoa(i2) + " " + rtq(s0))
	a5 &= uint64(a0)
	{
		cl := func(d int) int {
			arr[nx(4)]--
			out("S7_calls " + itoa(cn))
			i0 = lim(i0 + d)
			return lim(i0 * 2)
		}
		i1 = cl((i2 & 20))
		fn = cl
	}
	out("S7_b33" + " " + itoa(i0) + "," + itoa(i1) + "," + itoa(i2) + " " + rtq(s0))
	{
		cp := p
		cp.a = lim(cp.a + 7)
		cp.c[1] = i0
		arr2 := arr
		arr2[0] = cp.a
		i3 = lim(p.a + cp.a + arr[0] + arr2[0] + p.c[1])
	}
	for k, v := range []interface{}{i0, s0, nil, f0, 7, "z", nil} {
		switch v.(type) {
		case int:
			i1 = lim(i1 + 1)
		case string:
			i2 = lim(i2 + 1)
		case nil:
			i2 = lim(i2 + 1000)
		default:
			if k%2 == 1 {
				break
			}
			i1 = lim(i1 - 3)
		}
		i3 = lim(i3 + k + 1)
	}
	out("S7_b31" + " " + itoa(i0) + "," + itoa(i1) + "," + itoa(i2) + " " + rtq(s0))
	i3 = i0
	pp.a++
	i0, i1 = lim(i0), lim(i1)
	out("S7_b29" + " " + itoa(i0) + "," + itoa(i1) + "," + itoa(i2) + " " + rtq(s0))
	m["xyz"] = lim(lim(1 + i0) + lim(i0 + -9))
	f0 = fclamp(f0*1.25 + float64(i1)/3.0)
	out("S7_b27" + " " + itoa(i0) + "," + itoa(i1) + "," + itoa(i2) + " " + rtq(s0))
	for k, v := range []interface{}{i0, s0, nil, f0, 7, "z", nil} {
		switch v.(type) {
		case int:
			i1 = lim(i1 + 1)
		case string:
			i2 = lim(i2 + 1)
		case nil:
			i2 = lim(i2 + 1000)
		}
		i3 = lim(i3 + k + 1)
	}
	if (((a1 << 7) ^ a1) < a1) {
		i0 = i3
		i1 = int(s0[ix(i2, len(s0))])
		out("S7_b23" + " " + itoa(i0) + "," + itoa(i1) + "," + itoa(i2) + " " + rtq(s0))
		f0 = fclamp(f0*1.25 + float64(i0)/4.0)
	}
	out("S7_b22" + " " + itoa(i0) + "," + itoa(i1) + "," + itoa(i2) + " " + rtq(s0))
	out("S7_t21" + " " + itoa(i0) + "," + itoa(i1) + "," + itoa(i2) + " " + rtq(s0))
	for k := 0; k < 2; k++ {
		i3 = lim(i3 + k)
		for k, v := range []interface{}{i0, s0, nil, f0, 7, "z", nil} {
			switch v.(type) {
			case int:
				if k%2 == 1 {
					break
				}
				i1 = lim(i1 + 1)
			case string:
				i2 = lim(i2 + 1)
			case nil:
				i2 = lim(i2 + 1000)
			default:
				i1 = lim(i1 - 3)
			}
			i3 = lim(i3 + k + 1)
		}
		i1 = arr[ix(-3, 4)]
		out("S7_b18" + " " + itoa(i0) + "," + itoa(i1) + "," + itoa(i2) + " " + rtq(s0))
		i0--
		i0, i1 = lim(i0), lim(i1)
	}
	out("S7_b17" + " " + itoa(i0) + "," + itoa(i1) + "," + itoa(i2) + " " + rtq(s0))
	a4 = int64(len(sl)) * 4294967297
	a5 = uint64(a4) >> 10
	a0, a1, a2 = int8(a4), uint8(a5), int16(a4>>20)
	i3 = int(a0)
	out("S7_b15" + " " + itoa(i0) + "," + itoa(i1) + "," + itoa(i2) + " " + rtq(s0))
	for k, v := range sl[:ix(1, len(sl)+1)] {
		i3 = lim(i3 + k*v)
		i0 = lim((lim(-arr[0]) / 6) * arr[0])
		{
			acc := 0
			for k, v := range m {
				acc += len(k)*7 + v
			}
			i2 = lim(acc)
		}
		out("S7_b12" + " " + itoa(i0) + "," + itoa(i1) + "," + itoa(i2) + " " + rtq(s0))
	}
	a0 = gsum([]int8{a0, 50, 100})
	f0 = fclamp(gsum([]float64{f0, 0.5}))
	out("S7_b11" + " " + itoa(i0) + "," + itoa(i1) + "," + itoa(i2) + " " + rtq(s0))
	switch (lim(arr[0] * i2) ^ 1) % 5 {
	case -1:
		{
			mv := p.sum
			p.a = lim(p.a + 1)
			i1 = mv(2)
		}
	case 2:
		switch {
		case (true && (b1 && b1)):
			a0 ^= a0
		default:
			f0 = fclamp(f0*1.25 + float64(lim(-(len(s0) % 4)))/3.0)
		}
	default:
		switch (27 & 151) % 5 {
		case 2:
			i1 = i2
		case -2:
			p.a++
			i0, i1 = lim(i0), lim(i1)
			if arr[1] == i2 {
				break
			}
			i1 = lim(i1 + 1)
		}
	}
	for k, v := range []interface{}{i0, s0, nil, f0, 7, "z", nil} {
		switch v.(type) {
		case int:
			i1 = lim(i1 + 1)
		case string:
			i2 = lim(i2 + 1)
		case nil:
			i2 = lim(i2 + 1000)
		}
		i3 = lim(i3 + k + 1)
	}
	out("S7_b2" + " " + itoa(i0) + "," + itoa(i1) + "," + itoa(i2) + " " + rtq(s0))
	{
		acc := 0
		for k, v := range m {
			acc += len(k)*7 + v
		}
		i2 = lim(acc)
	}
	p.b = string(rune('a' + ix(41, 26)))
	out("S7_b0" + " " + itoa(i0) + "," + itoa(i1) + "," + itoa(i2) + " " + rtq(s0))
	out("S7_ints " + itoa(i0) + "," + itoa(i1) + "," + itoa(i2) + "," + itoa(i3) + " " + itoa(int(a0)) + "," + itoa(int(a1)) + "," + itoa(int(a2)) + "," + u64toa(uint64(a3)) + "," + i64toa(a4) + "," + u64toa(a5))
	out("S7_strs " + rtq(s0) + " " + rtq(s1) + " " + btoa(b0) + btoa(b1) + " " + f64s(f0))
	fnResult := fn(1)
	shArea := sh.Area(2)
	out("S7_data " + itoa(len(sl)) + ":" + itoa(vsum(sl...)) + " " + itoa(vsum(arr[:]...)) + " " + itoa(len(m)) + ":" + itoa(m["k"]) + " " + itoa(p.a) + rtq(p.b) + itoa(p.c[0]+p.c[1]) + " " + itoa(pp.a) + " " + itoa(fnResult) + " " + sh.name() + itoa(shArea))
}

type S7_dead0 struct{ z int }

func (d S7_dead0) Area(k int) int { return d.z * k }
func (d S7_dead0) name() string { return "dead" }
func (d *S7_dead0) bump(k int) { d.z += k }

func S7_unused0(x int) int { return lim(x + 0) }

var S7_deadvar0 = 0

