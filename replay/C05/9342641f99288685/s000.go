package main

func S5_f0(x, z int) int {
	i0, i1, i2, i3 := 4, 9, -4, 7
	var a0 int8 = 58
	var a1 uint8 = 2
	var a2 int16 = 997
	var a3 uint32 = 295092158
	var a4 int64 = -2
	var a5 uint64 = 7
	s0, s1 := "go", ""
	b0, b1 := true, false
	f0 := 4.25
	sl := []int{4, 2, 3}
	arr := [4]int{1, 4, 3, 4}
	m := map[string]int{"k": 4, "a": 1}
	p := P{a: 4, b: "pb"}
	pp := &P{a: 1}
	fn := func(v int) int { return lim(v*3 + 1) }
	var sh Shape = &p
	_, _, _, _, _, _, _, _, _, _, _, _, _ = a2, a3, a4, a5, b1, f0, fn, sh, s1, b0, arr, m, pp
	i0, i1 = lim(x), lim(z)
	if x > 0 && x < 6 {
		i2 = S5_f0(x-1, z+1)
	}
	func() {
		defer func() {
			i1 = lim(i1 + 3)
			if r := recover(); r != nil {
				s1 = cut(s1 + "R")
			}
		}()
		{
			ch := make(chan int, 2)
			ch <- 5
			for k := 0; k < 4; k++ {
				select {
				case v := <-ch:
					i1 = lim(i1 + v)
					i1 = lim(i1 + 100)
				default:
						if k%2 == 0 {
							break
						}
					i2 = lim(i2 + 10)
				}
				i3 = lim(i3 + 1)
			}
		}
		i2 = len(s0)
		out("S5_b7" + " " + itoa(i0) + "," + itoa(i1) + "," + itoa(i2) + " " + rtq(s0))
	}()
	{
		st := gstack[int]{}
		st.push(i0)
		st.push((p.a ^ 62))
		i1 = lim(st.pop() + st.len())
	}
	out("S5_b6" + " " + itoa(i0) + "," + itoa(i1) + "," + itoa(i2) + " " + rtq(s0))
	i2 = vsum(arr[ix(p.a, 4)], lim(i1 * -6))
	i2 = lim(i2 + vsum(sl...) + vsum())
	f0 = fclamp(f0*1.25 + float64(i3)/2.0)
	out("S5_b4" + " " + itoa(i0) + "," + itoa(i1) + "," + itoa(i2) + " " + rtq(s0))
	i0, i1, i2 = i2, i0, lim(i1+1)
	a2 ^= a2
	out("S5_b2" + " " + itoa(i0) + "," + itoa(i1) + "," + itoa(i2) + " " + rtq(s0))
	i2 = sl[ix(lim(0 - i2), len(sl))]
	i2 = fn(i2)
	out("S5_b0" + " " + itoa(i0) + "," + itoa(i1) + "," + itoa(i2) + " " + rtq(s0))
	return lim(i0 + i1*3 + i2*5 + i3*7 + int(a0) + int(a1) + len(s0) + len(sl) + p.a)
}

func S5_f1(x, z int) int {
	i0, i1, i2, i3 := 49, 99, -49, 7
	var a0 int8 = 100
	var a1 uint8 = 0
	var a2 int16 = 39
	var a3 uint32 = 3629602
	var a4 int64 = -265360
	var a5 uint64 = 15
	s0, s1 := "go", "héllo"
	b0, b1 := false, false
	f0 := 49.25
	sl := []int{49, 2, 3}
	arr := [4]int{1, 49, 3, 4}
	m := map[string]int{"k": 49, "a": 1}
	p := P{a: 49, b: "pb"}
	pp := &P{a: 1}
	fn := func(v int) int { return lim(v*3 + 1) }
	var sh Shape = &p
	_, _, _, _, _, _, _, _, _, _, _, _, _ = a2, a3, a4, a5, b1, f0, fn, sh, s1, b0, arr, m, pp
	i0, i1 = lim(x), lim(z)
	if x > 0 && x < 6 {
		i2 = S5_f1(x-1, z+1)
	}
	b1 = ((a1 ^ uint8(50)) < a1)
	a4 |= ((a4 + a4) << 1)
	out("S5_b0" + " " + itoa(i0) + "," + itoa(i1) + "," + itoa(i2) + " " + rtq(s0))
	return lim(i0 + i1*3 + i2*5 + i3*7 + int(a0) + int(a1) + len(s0) + len(sl) + p.a)
}

func S5_f2(x, z int) int {
	i0, i1, i2, i3 := 6, 13, -6, 7
	var a0 int8 = -13
	var a1 uint8 = 7
	var a2 int16 = -1
	var a3 uint32 = 501230
	var a4 int64 = 44
	var a5 uint64 = 1
	s0, s1 := "héllo", "abcdef"
	b0, b1 := true, false
	f0 := 6.25
	sl := []int{6, 2, 3}
	arr := [4]int{1, 6, 3, 4}
	m := map[string]int{"k": 6, "a": 1}
	p := P{a: 6, b: "pb"}
	pp := &P{a: 1}
	fn := func(v int) int { return lim(v*3 + 1) }
	var sh Shape = sq(3)
	_, _, _, _, _, _, _, _, _, _, _, _, _ = a2, a3, a4, a5, b1, f0, fn, sh, s1, b0, arr, m, pp
	i0, i1 = lim(x), lim(z)
	if x > 0 && x < 6 {
		i2 = S5_f2(x-1, z+1)
	}
	{
		cl := func(d int) int {
			if len(sl) < 12 {
				sl = append(sl, i1)
			}
			i2 = int(((a2 >> 9) << 3))
			out("S5_b5" + " " + itoa(i0) + "," + itoa(i1) + "," + itoa(i2) + " " + rtq(s0))
			i0 = lim(i0 + d)
			return lim(i0 * 2)
		}
		i1 = cl(m[itoa(p.a)])
		fn = cl
	}
	i0 = (len(s0) % 2)
	out("S5_b4" + " " + itoa(i0) + "," + itoa(i1) + "," + itoa(i2) + " " + rtq(s0))
	a3--
	i0, i1 = lim(i0), lim(i1)
	{
		i0 := lim(i0 + 6)
		s0 := s0 + "~"
		for k := 0; k < 2; k++ {
			i3 = lim(i3 + k)
			f0 = fclamp(f0*0.5 + float64(83)/5.0)
			if -12 == len(s0) {
				break
			}
		}
		i3 = lim(i3 + i0 + len(s0))
	}
	out("S5_b0" + " " + itoa(i0) + "," + itoa(i1) + "," + itoa(i2) + " " + rtq(s0))
	return lim(i0 + i1*3 + i2*5 + i3*7 + int(a0) + int(a1) + len(s0) + len(sl) + p.a)
}

func S5_main() {
	i0, i1, i2, i3 := 1, 3, -1, 7
	var a0 int8 = 11
	var a1 uint8 = 137
	var a2 int16 = -17
	var a3 uint32 = 4952267
	var a4 int64 = 3565076
	var a5 uint64 = 51
	s0, s1 := "", "go"
	b0, b1 := false, false
	f0 := 1.25
	sl := []int{1, 2, 3}
	arr := [4]int{1, 1, 3, 4}
	m := map[string]int{"k": 1, "a": 1}
	p := P{a: 1, b: "pb"}
	pp := &P{a: 1}
	fn := func(v int) int { return lim(v*3 + 1) }
	var sh Shape = pp
	_, _, _, _, _, _, _, _, _, _, _, _, _ = a2, a3, a4, a5, b1, f0, fn, sh, s1, b0, arr, m, pp
	b1 = (sub("k", len(s0)) != s0 || !(s0 < s1))
	a3 += (a3 ^ uint32(54))
	out("S5_b32" + " " + itoa(i0) + "," + itoa(i1) + "," + itoa(i2) + " " + rtq(s0))
	a2 &= (a2 ^ int16(64))
	a3++
	i0, i1 = lim(i0), lim(i1)
	out("S5_b30" + " " + itoa(i0) + "," + itoa(i1) + "," + itoa(i2) + " " + rtq(s0))
	for k, v := range sl[:ix(1, len(sl)+1)] {
		i3 = lim(i3 + k*v)
		for c := 2; c > 0; c-- {
			i2 = lim(i2 + c)
			switch lim(len(s0) + i0) % 5 {
			case -1:
				a1 |= uint8((a5 * (a5 ^ uint64(7))))
			case 4:
				i2 = int(int8((len(s0) ^ 8)))
				i2 = i2
				out("S5_b24" + " " + itoa(i0) + "," + itoa(i1) + "," + itoa(i2) + " " + rtq(s0))
			default:
				i3 = lim(lim(lim(-len(sl)) + lim(i0 - len(s0))) * lim(i3 + (i3 / 8)))
			}
			f0 = fclamp(f0*1.25 + float64(lim(len(sl) - (i3 ^ 4)))/1.0)
			out("S5_b22" + " " + itoa(i0) + "," + itoa(i1) + "," + itoa(i2) + " " + rtq(s0))
			b1 = lim(arr[2] * (len(sl) & 187)) > lim(lim(i0 + i3) + lim(-3 * i1))
			if (p.a >= p.a || i1 > len(s0)) {
				break
			}
		}
		i1 = (p.a % 7)
		out("S5_b20" + " " + itoa(i0) + "," + itoa(i1) + "," + itoa(i2) + " " + rtq(s0))
		if b0 {
			continue
		}
	}
	a3 -= uint32(a1)
	out("S5_b19" + " " + itoa(i0) + "," + itoa(i1) + "," + itoa(i2) + " " + rtq(s0))
	{
		ch := make(chan int, 2)
		ch <- 5
		for k := 0; k < 4; k++ {
			select {
			case v := <-ch:
				i1 = lim(i1 + v)
				if k%2 == 0 {
						break
				}
				i1 = lim(i1 + 100)
			default:
				if k%2 == 1 {
						break
				}
				i2 = lim(i2 + 10)
			}
			i3 = lim(i3 + 1)
		}
	}
	i1 = m[string(rune('a' + ix(i2, 26)))]
	out("S5_b17" + " " + itoa(i0) + "," + itoa(i1) + "," + itoa(i2) + " " + rtq(s0))
	func() {
		defer func() {
			i1 = lim(i1 + 3)
			if r := recover(); r != nil {
				s1 = cut(s1 + "R")
			}
		}()
		b1 = !(b1)
		i3 = (arr[0] & 120)
		out("S5_b14" + " " + itoa(i0) + "," + itoa(i1) + "," + itoa(i2) + " " + rtq(s0))
		if !(false) {
			panic("inner")
		}
	}()
	f0 = fclamp(f0*0.5 + float64(i2)/1.0)
	out("S5_b13" + " " + itoa(i0) + "," + itoa(i1) + "," + itoa(i2) + " " + rtq(s0))
	i2 = len(sl)
	i0 = lim(gmax(i0, i0))
	s0 = gmax(s0, s1)
	out("S5_b11" + " " + itoa(i0) + "," + itoa(i1) + "," + itoa(i2) + " " + rtq(s0))
	i0, i1, i2 = i2, i0, lim(i1+1)
	if len(sl) < 12 {
		sl = append(sl, lim(int(s0[ix(p.a, len(s0))]) + p.a))
	}
	out("S5_b9" + " " + itoa(i0) + "," + itoa(i1) + "," + itoa(i2) + " " + rtq(s0))
	s0 = s1
	{
		cl := func(d int) int {
			out("S5_t6" + " " + itoa(i0) + "," + itoa(i1) + "," + itoa(i2) + " " + rtq(s0))
			switch t := sh.(type) {
			case *P:
				i1 = lim(t.a + 1)
			case sq:
				i1 = int(t)
			}
			out("S5_b5" + " " + itoa(i0) + "," + itoa(i1) + "," + itoa(i2) + " " + rtq(s0))
			i0 = lim(i0 + d)
			return lim(i0 * 2)
		}
		i1 = cl(i1)
		fn = cl
	}
	out("S5_b5" + " " + itoa(i0) + "," + itoa(i1) + "," + itoa(i2) + " " + rtq(s0))
	func() {
		defer func() {
			i1 = lim(i1 + 3)
			if r := recover(); r != nil {
				s1 = cut(s1 + "R")
			}
		}()
		sl[ix(lim(i1 * (len(s0) / 7)), len(sl))] = i0
		{
			cp := p
			cp.a = lim(cp.a + 7)
			cp.c[1] = i0
			arr2 := arr
			arr2[0] = cp.a
			i3 = lim(p.a + cp.a + arr[0] + arr2[0] + p.c[1])
		}
		out("S5_b2" + " " + itoa(i0) + "," + itoa(i1) + "," + itoa(i2) + " " + rtq(s0))
		if !(b1) {
			panic("inner")
		}
	}()
	i1 = len(s0)
	out("S5_b1" + " " + itoa(i0) + "," + itoa(i1) + "," + itoa(i2) + " " + rtq(s0))
	pp.a--
	i0, i1 = lim(i0), lim(i1)
	out("S5_ints " + itoa(i0) + "," + itoa(i1) + "," + itoa(i2) + "," + itoa(i3) + " " + itoa(int(a0)) + "," + itoa(int(a1)) + "," + itoa(int(a2)) + "," + u64toa(uint64(a3)) + "," + i64toa(a4) + "," + u64toa(a5))
	out("S5_strs " + rtq(s0) + " " + rtq(s1) + " " + btoa(b0) + btoa(b1) + " " + f64s(f0))
	fnResult := fn(1)
	shArea := sh.Area(2)
	out("S5_data " + itoa(len(sl)) + ":" + itoa(vsum(sl...)) + " " + itoa(vsum(arr[:]...)) + " " + itoa(len(m)) + ":" + itoa(m["k"]) + " " + itoa(p.a) + rtq(p.b) + itoa(p.c[0]+p.c[1]) + " " + itoa(pp.a) + " " + itoa(fnResult) + " " + sh.name() + itoa(shArea))
}

type S5_dead0 struct{ z int }

func (d S5_dead0) Area(k int) int { return d.z * k }
func (d S5_dead0) name() string { return "dead" }
func (d *S5_dead0) bump(k int) { d.z += k }

func S5_unused0(x int) int { return lim(x + 0) }

var S5_deadvar0 = 0

type S5_dead1 struct{ z int }

func (d S5_dead1) Area(k int) int { return d.z * k }
func (d S5_dead1) name() string { return "dead" }
func (d *S5_dead1) bump(k int) { d.z += k }

func S5_unused1(x int) int { return lim(x + 1) }

var S5_deadvar1 = 1

