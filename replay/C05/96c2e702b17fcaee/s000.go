package main

func S5_f0(x, z int) int {
	i0, i1, i2, i3 := 1, 3, -1, 7
	var a0 int8 = -18
	var a1 uint8 = 113
	var a2 int16 = -72
	var a3 uint32 = 19
	var a4 int64 = 1091
	var a5 uint64 = 1073741824
	s0, s1 := "abcdef", "abcdef"
	b0, b1 := false, false
	f0 := 1.25
	sl := []int{1, 2, 3}
	arr := [4]int{1, 1, 3, 4}
	m := map[string]int{"k": 1, "a": 1}
	p := P{a: 1, b: "pb"}
	pp := &P{a: 1}
	fn := func(v int) int { return lim(v*3 + 1) }
	var sh Shape = sq(3)
	_, _, _, _, _, _, _, _, _, _, _, _, _ = a2, a3, a4, a5, b1, f0, fn, sh, s1, b0, arr, m, pp
	i0, i1 = lim(x), lim(z)
	if x > 0 && x < 6 {
		i2 = S5_f0(x-1, z+1)
	}
	i0, i1, i2 = i2, i0, lim(i1+1)
	a4 = int64((i0 ^ 24)) * 4294967297
	a5 = uint64(a4) >> 32
	a0, a1, a2 = int8(a4), uint8(a5), int16(a4>>0)
	out("S5_b1" + " " + itoa(i0) + "," + itoa(i1) + "," + itoa(i2) + " " + rtq(s0))
	a4 = int64(i3) * 4294967297
	a5 = uint64(a4) >> 25
	a0, a1, a2 = int8(a4), uint8(a5), int16(a4>>14)
	return lim(i0 + i1*3 + i2*5 + i3*7 + int(a0) + int(a1) + len(s0) + len(sl) + p.a)
}

func S5_main() {
	i0, i1, i2, i3 := 4, 9, -4, 7
	var a0 int8 = 91
	var a1 uint8 = 231
	var a2 int16 = -331
	var a3 uint32 = 69
	var a4 int64 = 155
	var a5 uint64 = 451476857
	s0, s1 := "go", ""
	b0, b1 := true, false
	f0 := 4.25
	sl := []int{4, 2, 3}
	arr := [4]int{1, 4, 3, 4}
	m := map[string]int{"k": 4, "a": 1}
	p := P{a: 4, b: "pb"}
	pp := &P{a: 1}
	fn := func(v int) int { return lim(v*3 + 1) }
	var sh Shape = sq(3)
	_, _, _, _, _, _, _, _, _, _, _, _, _ = a2, a3, a4, a5, b1, f0, fn, sh, s1, b0, arr, m, pp
	arr[ix((int(a1) / 9), 4)] = i2
	switch lim(i1 - arr[0]) % 5 {
	case -2:
		for k, v := range []interface{}{i0, s0, nil, f0, 7, "z", nil} {
			switch v.(type) {
			case int:
				if k%2 == 0 {
					break
				}
				i1 = lim(i1 + 1)
			case string:
				i2 = lim(i2 + 1)
			case nil:
				if k%2 == 1 {
					break
				}
				i2 = lim(i2 + 1000)
			default:
				if k%2 == 1 {
					break
				}
				i1 = lim(i1 - 3)
			}
			i3 = lim(i3 + k + 1)
		}
	case 3:
		a5 *= uint64(i0)
		i0 = fn(arr[ix(i1, 4)])
		out("S5_b1" + " " + itoa(i0) + "," + itoa(i1) + "," + itoa(i2) + " " + rtq(s0))
		if p.b < p.b {
			break
		}
		i1 = lim(i1 + 1)
	}
	out("S5_b1" + " " + itoa(i0) + "," + itoa(i1) + "," + itoa(i2) + " " + rtq(s0))
	if v := i0; v > 3 {
	}
	out("S5_ints " + itoa(i0) + "," + itoa(i1) + "," + itoa(i2) + "," + itoa(i3) + " " + itoa(int(a0)) + "," + itoa(int(a1)) + "," + itoa(int(a2)) + "," + u64toa(uint64(a3)) + "," + i64toa(a4) + "," + u64toa(a5))
	out("S5_strs " + rtq(s0) + " " + rtq(s1) + " " + btoa(b0) + btoa(b1) + " " + f64s(f0))
	fnResult := fn(1)
	shArea := sh.Area(2)
	out("S5_data " + itoa(len(sl)) + ":" + itoa(vsum(sl...)) + " " + itoa(vsum(arr[:]...)) + " " + itoa(len(m)) + ":" + itoa(m["k"]) + " " + itoa(p.a) + rtq(p.b) + itoa(p.c[0]+p.c[1]) + " " + itoa(pp.a) + " " + itoa(fnResult) + " " + sh.name() + itoa(shArea))
	<-make(chan int)
}

type S5_dead0 struct{ z int }

func (d S5_dead0) Area(k int) int { return d.z * k }
func (d S5_dead0) name() string { return "dead" }
func (d *S5_dead0) bump(k int) { d.z += k }

func S5_unused0(x int) int { return lim(x + 0) }

var S5_deadvar0 = 0

