package main

func S2_main() {
	i0, i1, i2, i3 := 5, 11, -5, 7
	var a0 int8 = 1
	var a1 uint8 = 1
	var a2 int16 = -1975
	var a3 uint32 = 26
	var a4 int64 = 18
	var a5 uint64 = 1073741824
	s0, s1 := "abcdef", "héllo"
	b0, b1 := false, false
	f0 := 5.25
	sl := []int{5, 2, 3}
	arr := [4]int{1, 5, 3, 4}
	m := map[string]int{"k": 5, "a": 1}
	p := P{a: 5, b: "pb"}
	pp := &P{a: 1}
	fn := func(v int) int { return lim(v*3 + 1) }
	var sh Shape = &p
	_, _, _, _, _, _, _, _, _, _, _, _, _ = a2, a3, a4, a5, b1, f0, fn, sh, s1, b0, arr, m, pp
	i0 = arr[1]
	f0 = fclamp(f0*1.25 + float64(i1)/6.0)
	out("S2_b14" + " " + itoa(i0) + "," + itoa(i1) + "," + itoa(i2) + " " + rtq(s0))
	f0 = fclamp(f0*3 + float64(i3)/1.0)
	arr[ix(lim(sl[ix(len(s0), len(sl))] - arr[1]), 4)] = (arr[ix(len(sl), 4)] ^ 25)
	out("S2_b12" + " " + itoa(i0) + "," + itoa(i1) + "," + itoa(i2) + " " + rtq(s0))
	{
		fs := []float64{f0, 1.5}
		fs[nx(2)] *= 2
		f0 = fclamp(fs[0] + fs[1])
	}
	out("S2_calls " + itoa(cn))
	b1 = ((a1 >> 0) < a1)
	out("S2_b10" + " " + itoa(i0) + "," + itoa(i1) + "," + itoa(i2) + " " + rtq(s0))
	for k, v := range []interface{}{i0, s0, nil, f0, 7, "z", nil} {
		switch x := v.(type) {
		case int:
			i1 = lim(i1 + x)
		case string:
			i2 = lim(i2 + len(x))
		case nil:
			i2 = lim(i2 + 1000)
		case float64:
			_ = x
		}
		i3 = lim(i3 + k + 1)
	}
	{
		grid := [2][2]int{{1, 2}, {3, 4}}
		grid[nx(2)][nx(2)] += 3
		i3 = lim(i3 + grid[0][0] + grid[0][1]*3 + grid[1][0]*5 + grid[1][1]*7)
	}
	out("S2_calls " + itoa(cn))
	out("S2_b8" + " " + itoa(i0) + "," + itoa(i1) + "," + itoa(i2) + " " + rtq(s0))
	s0 = cut(s0)
	{
		strs := []string{s0, "x"}
		strs[nx(2)] += "+"
		s0 = strs[0] + strs[1]
	}
	out("S2_calls " + itoa(cn))
	for k, v := range []interface{}{i0, s0, nil, f0, 7, "z", nil} {
		switch x := v.(type) {
		case int:
			i1 = lim(i1 + x)
		case string:
			if k%2 == 0 {
				break
			}
			i2 = lim(i2 + len(x))
		case nil:
			i2 = lim(i2 + 1000)
		default:
			if k%2 == 1 {
				break
			}
			i1 = lim(i1 - 3)
			_ = x
		}
		i3 = lim(i3 + k + 1)
	}
	out("S2_b6" + " " + itoa(i0) + "," + itoa(i1) + "," + itoa(i2) + " " + rtq(s0))
	delete(m, s1)
	a2 |= a2
	out("S2_b4" + " " + itoa(i0) + "," + itoa(i1) + "," + itoa(i2) + " " + rtq(s0))
	i2 = lim((i3 / 9) + (int(s0[ix(i0, len(s0))]) & 4))
	i2 = (sl[ix(lim(-17 + i3), len(sl))] & 114)
	out("S2_b2" + " " + itoa(i0) + "," + itoa(i1) + "," + itoa(i2) + " " + rtq(s0))
	{
		cl := func(d int) int {
			switch (sl[ix(i0, len(sl))] % 8) % 5 {
			case 4:
			case 0:
			default:
			}
			i0 = lim(i0 + d)
			return lim(i0 * 2)
		}
		i1 = cl(-15)
		fn = cl
	}
	out("S2_ints " + itoa(i0) + "," + itoa(i1) + "," + itoa(i2) + "," + itoa(i3) + " " + itoa(int(a0)) + "," + itoa(int(a1)) + "," + itoa(int(a2)) + "," + u64toa(uint64(a3)) + "," + i64toa(a4) + "," + u64toa(a5))
	out("S2_strs " + rtq(s0) + " " + rtq(s1) + " " + btoa(b0) + btoa(b1) + " " + f64s(f0))
	fnResult := fn(1)
	shArea := sh.Area(2)
	out("S2_data " + itoa(len(sl)) + ":" + itoa(vsum(sl...)) + " " + itoa(vsum(arr[:]...)) + " " + itoa(len(m)) + ":" + itoa(m["k"]) + " " + itoa(p.a) + rtq(p.b) + itoa(p.c[0]+p.c[1]) + " " + itoa(pp.a) + " " + itoa(fnResult) + " " + sh.name() + itoa(shArea))
	panic(scenarioErr{i0})
}

type S2_dead0 struct{ z int }

func (d S2_dead0) Area(k int) int { return d.z * k }
func (d S2_dead0) name() string { return "dead" }
func (d *S2_dead0) bump(k int) { d.z += k }

func S2_unused0(x int) int { return lim(x + 0) }

var S2_deadvar0 = 0

