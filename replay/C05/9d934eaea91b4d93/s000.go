package main

func S11_main() {
	i0, i1, i2, i3 := 4, 9, -4, 7
	var a0 int8 = -4
	var a1 uint8 = 3
	var a2 int16 = -883
	var a3 uint32 = 895
	var a4 int64 = -325881913
	var a5 uint64 = 93
	s0, s1 := "", "go"
	b0, b1 := true, false
	f0 := 4.25
	sl := []int{4, 2, 3}
	arr := [4]int{1, 4, 3, 4}
	m := map[string]int{"k": 4, "a": 1}
	p := P{a: 4, b: "pb"}
	pp := &P{a: 1}
	fn := func(v int) int { return lim(v*3 + 1) }
	var sh Shape = sq(3)
	_, _, _, _, _, _, _, _, _, _, _, _, _ = a2, a3, a4, a5, b1, f0, fn, sh, s1, b0, arr, m, pp
	a4 &= int64(((a5 ^ uint64(85)) ^ (a5 ^ uint64(97))))
	i2 = lim(len(gmap(sl, func(v int) string { return itoa(v) })) + len(gmap([]string{s0}, func(v string) int { return len(v) })))
	out("S11_b18" + " " + itoa(i0) + "," + itoa(i1) + "," + itoa(i2) + " " + rtq(s0))
	out("S11_t17" + " " + itoa(i0) + "," + itoa(i1) + "," + itoa(i2) + " " + rtq(s0))
	b0 = sl[ix(lim(len(s0) + i0), len(sl))] < p.a
	out("S11_b16" + " " + itoa(i0) + "," + itoa(i1) + "," + itoa(i2) + " " + rtq(s0))
	getp(pp).a += 4
	pp.a = lim(pp.a)
	out("S11_calls " + itoa(cn))
	{
		i0 := lim(i0 + 6)
		s0 := s0 + "~"
		i2 = fn(i0)
		i0 = len(s0)
		out("S11_b12" + " " + itoa(i0) + "," + itoa(i1) + "," + itoa(i2) + " " + rtq(s0))
		i3 = lim(i3 + i0 + len(s0))
	}
	out("S11_b12" + " " + itoa(i0) + "," + itoa(i1) + "," + itoa(i2) + " " + rtq(s0))
	i2 = -13
	i3 = -6
	out("S11_b10" + " " + itoa(i0) + "," + itoa(i1) + "," + itoa(i2) + " " + rtq(s0))
	sl[ix(-2, len(sl))] = i3
	{
		acc := 0
		for k, v := range m {
			acc += len(k)*7 + v
		}
		i2 = lim(acc)
	}
	out("S11_b8" + " " + itoa(i0) + "," + itoa(i1) + "," + itoa(i2) + " " + rtq(s0))
	getp(&p).c[nx(2)]--
	out("S11_calls " + itoa(cn))
	a0--
	i0, i1 = lim(i0), lim(i1)
	out("S11_b6" + " " + itoa(i0) + "," + itoa(i1) + "," + itoa(i2) + " " + rtq(s0))
	p.b = s0
	i0 = fn(lim(len(s0) - len(sl)))
	out("S11_b4" + " " + itoa(i0) + "," + itoa(i1) + "," + itoa(i2) + " " + rtq(s0))
	i1 = i0
	a2 -= a2
	out("S11_b2" + " " + itoa(i0) + "," + itoa(i1) + "," + itoa(i2) + " " + rtq(s0))
	i0 = m[s0]
	a5 |= uint64(len(sl))
	out("S11_b0" + " " + itoa(i0) + "," + itoa(i1) + "," + itoa(i2) + " " + rtq(s0))
	out("S11_ints " + itoa(i0) + "," + itoa(i1) + "," + itoa(i2) + "," + itoa(i3) + " " + itoa(int(a0)) + "," + itoa(int(a1)) + "," + itoa(int(a2)) + "," + u64toa(uint64(a3)) + "," + i64toa(a4) + "," + u64toa(a5))
	out("S11_strs " + rtq(s0) + " " + rtq(s1) + " " + btoa(b0) + btoa(b1) + " " + f64s(f0))
	fnResult := fn(1)
	shArea := sh.Area(2)
	out("S11_data " + itoa(len(sl)) + ":" + itoa(vsum(sl...)) + " " + itoa(vsum(arr[:]...)) + " " + itoa(len(m)) + ":" + itoa(m["k"]) + " " + itoa(p.a) + rtq(p.b) + itoa(p.c[0]+p.c[1]) + " " + itoa(pp.a) + " " + itoa(fnResult) + " " + sh.name() + itoa(shArea))
}

type S11_dead0 struct{ z int }

func (d S11_dead0) Area(k int) int { return d.z * k }
func (d S11_dead0) name() string { return "dead" }
func (d *S11_dead0) bump(k int) { d.z += k }

func S11_unused0(x int) int { return lim(x + 0) }

var S11_deadvar0 = 0

type S11_dead1 struct{ z int }

func (d S11_dead1) Area(k int) int { return d.z * k }
func (d S11_dead1) name() string { return "dead" }
func (d *S11_dead1) bump(k int) { d.z += k }

func S11_unused1(x int) int { return lim(x + 1) }

var S11_deadvar1 = 1

type S11_dead2 struct{ z int }

func (d S11_dead2) Area(k int) int { return d.z * k }
func (d S11_dead2) name() string { return "dead" }
func (d *S11_dead2) bump(k int) { d.z += k }

func S11_unused2(x int) int { return lim(x + 2) }

var S11_deadvar2 = 2

