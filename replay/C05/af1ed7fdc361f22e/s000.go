package main

func S8_f0(x, z int) int {
	i0, i1, i2, i3 := 0, 1, 0, 7
	var a0 int8 = 4
	var a1 uint8 = 11
	var a2 int16 = -580
	var a3 uint32 = 4
	var a4 int64 = -44427
	var a5 uint64 = 282188575
	s0, s1 := "héllo", "abcdef"
	b0, b1 := true, false
	f0 := 0.25
	sl := []int{0, 2, 3}
	arr := [4]int{1, 0, 3, 4}
	m := map[string]int{"k": 0, "a": 1}
	p := P{a: 0, b: "pb"}
	pp := &P{a: 1}
	fn := func(v int) int { return lim(v*3 + 1) }
	var sh Shape = sq(3)
	_, _, _, _, _, _, _, _, _, _, _, _, _ = a2, a3, a4, a5, b1, f0, fn, sh, s1, b0, arr, m, pp
	i0, i1 = lim(x), lim(z)
	if x > 0 && x < 6 {
		i2 = S8_f0(x-1, z+1)
	}
	b1 = true
	out("S8_t2" + " " + itoa(i0) + "," + itoa(i1) + "," + itoa(i2) + " " + rtq(s0))
	out("S8_b2" + " " + itoa(i0) + "," + itoa(i1) + "," + itoa(i2) + " " + rtq(s0))
	getp(&p).c[nx(2)]++
	out("S8_calls " + itoa(cn))
	i1 = i0
	out("S8_b0" + " " + itoa(i0) + "," + itoa(i1) + "," + itoa(i2) + " " + rtq(s0))
	return lim(i0 + i1*3 + i2*5 + i3*7 + int(a0) + int(a1) + len(s0) + len(sl) + p.a)
}

func S8_f1(x, z int) int {
	i0, i1, i2, i3 := 4, 9, -4, 7
	var a0 int8 = 31
	var a1 uint8 = 3
	var a2 int16 = 1420
	var a3 uint32 = 29
	var a4 int64 = -290
	var a5 uint64 = 25970
	s0, s1 := "héllo", "abcdef"
	b0, b1 := true, false
	f0 := 4.25
	sl := []int{4, 2, 3}
	arr := [4]int{1, 4, 3, 4}
	m := map[string]int{"k": 4, "a": 1}
	p := P{a: 4, b: "pb"}
	pp := &P{a: 1}
	fn := func(v int) int { return lim(v*3 + 1) }
	var sh Shape = pp
	_, _, _, _, _, _, _, _, _, _, _, _, _ = a2, a3, a4, a5, b1, f0, fn, sh, s1, b0, arr, m, pp
	i0, i1 = lim(x), lim(z)
	if x > 0 && x < 6 {
		i2 = S8_f1(x-1, z+1)
	}
	if (b0 || true) {
		goto G1
	}
	i2 = lim(i2 + 5)
	G1:
	i2 = lim(i2 + 1)
	i0 = lim(lim(lim(-4 - arr[1]) - lim(-len(sl))) * i0)
	out("S8_b7" + " " + itoa(i0) + "," + itoa(i1) + "," + itoa(i2) + " " + rtq(s0))
	m[kx()]--
	out("S8_calls " + itoa(cn))
	i0 = fn(int(a2))
	out("S8_b5" + " " + itoa(i0) + "," + itoa(i1) + "," + itoa(i2) + " " + rtq(s0))
	for c := 1; c > 0; c-- {
		i2 = lim(i2 + c)
		s0 = s1
	}
	out("S8_t2" + " " + itoa(i0) + "," + itoa(i1) + "," + itoa(i2) + " " + rtq(s0))
	out("S8_b2" + " " + itoa(i0) + "," + itoa(i1) + "," + itoa(i2) + " " + rtq(s0))
	i3 = i3
	if string(rune('a' + ix(m["a"], 26))) < string(rune('a' + ix(lim(-5 + i0), 26))) {
	}
	out("S8_b0" + " " + itoa(i0) + "," + itoa(i1) + "," + itoa(i2) + " " + rtq(s0))
	return lim(i0 + i1*3 + i2*5 + i3*7 + int(a0) + int(a1) + len(s0) + len(sl) + p.a)
}

func S8_f2(x, z int) int {
	i0, i1, i2, i3 := 45, 91, -45, 7
	var a0 int8 = -100
	var a1 uint8 = 49
	var a2 int16 = 3
	var a3 uint32 = 0
	var a4 int64 = -6
	var a5 uint64 = 54
	s0, s1 := "go", "go"
	b0, b1 := false, false
	f0 := 45.25
	sl := []int{45, 2, 3}
	arr := [4]int{1, 45, 3, 4}
	m := map[string]int{"k": 45, "a": 1}
	p := P{a: 45, b: "pb"}
	pp := &P{a: 1}
	fn := func(v int) int { return lim(v*3 + 1) }
	var sh Shape = sq(3)
	_, _, _, _, _, _, _, _, _, _, _, _, _ = a2, a3, a4, a5, b1, f0, fn, sh, s1, b0, arr, m, pp
	i0, i1 = lim(x), lim(z)
	if x > 0 && x < 6 {
		i2 = S8_f2(x-1, z+1)
	}
	func() {
		defer func() {
			i1 = lim(i1 + 3)
			if r := recover(); r != nil {
				s1 = cut(s1 + "R")
			}
		}()
		a4 |= a4
		if b1 {
			panic("inner")
		}
	}()
	return lim(i0 + i1*3 + i2*5 + i3*7 + int(a0) + int(a1) + len(s0) + len(sl) + p.a)
}

func S8_main() {
	i0, i1, i2, i3 := 2, 5, -2, 7
	var a0 int8 = -4
	var a1 uint8 = 59
	var a2 int16 = -1
	var a3 uint32 = 4221441
	var a4 int64 = -3300
	var a5 uint64 = 712980
	s0, s1 := "héllo", ""
	b0, b1 := true, false
	f0 := 2.25
	sl := []int{2, 2, 3}
	arr := [4]int{1, 2, 3, 4}
	m := map[string]int{"k": 2, "a": 1}
	p := P{a: 2, b: "pb"}
	pp := &P{a: 1}
	fn := func(v int) int { return lim(v*3 + 1) }
	var sh Shape = sq(3)
	_, _, _, _, _, _, _, _, _, _, _, _, _ = a2, a3, a4, a5, b1, f0, fn, sh, s1, b0, arr, m, pp
	{
		cl := func(d int) int {
			for k, v := range []interface{}{i0, s0, nil, f0, 7, "z", nil} {
				switch v.(type) {
				case int:
					i1 = lim(i1 + 1)
				case string:
					i2 = lim(i2 + 1)
				case nil:
					i2 = lim(i2 + 1000)
				}
				i3 = lim(i3 + k + 1)
			}
			i1 = lim(len(sl) * i1)
			out("S8_b12" + " " + itoa(i0) + "," + itoa(i1) + "," + itoa(i2) + " " + rtq(s0))
			i0 = lim(i0 + d)
			return lim(i0 * 2)
		}
		i1 = cl(arr[ix(76, 4)])
		fn = cl
	}
	for k, r := range sub(s0, 2) {
		i3 = lim(i3 + k + int(r))
		p.b = sub(p.b, ((-17 % 1) ^ 37))
		a5 -= (a5 ^ uint64(26))
		out("S8_b9" + " " + itoa(i0) + "," + itoa(i1) + "," + itoa(i2) + " " + rtq(s0))
		if false {
			break
		}
	}
	out("S8_b9" + " " + itoa(i0) + "," + itoa(i1) + "," + itoa(i2) + " " + rtq(s0))
	i1 = (arr[ix((p.a / 2), 4)] % 7)
	for c := 2; c > 0; c-- {
		i2 = lim(i2 + c)
		{
			ch := make(chan int, 2)
			ch <- 5
			for k := 0; k < 4; k++ {
				select {
				case v := <-ch:
					i1 = lim(i1 + v)
					i1 = lim(i1 + 100)
				default:
						if k%2 == 1 {
							break
						}
					i2 = lim(i2 + 10)
				}
				i3 = lim(i3 + 1)
			}
		}
		if len(sl) < 12 {
			sl = append(sl, int(uint8(i0)))
		}
		out("S8_b5" + " " + itoa(i0) + "," + itoa(i1) + "," + itoa(i2) + " " + rtq(s0))
		p.c[ix((len(sl) ^ 1), 2)] = ((i3 % 7) % 1)
		if (a1 < a1) {
			break
		}
	}
	out("S8_b4" + " " + itoa(i0) + "," + itoa(i1) + "," + itoa(i2) + " " + rtq(s0))
	i2 = (len(s0) / 9)
	i3 = int(((a1 >> 6) >> 9))
	out("S8_b2" + " " + itoa(i0) + "," + itoa(i1) + "," + itoa(i2) + " " + rtq(s0))
	i2 = S8_f1(lim(i0 - len(s0)), lim(p.a - i0))
	s0 = p.b
	out("S8_b0" + " " + itoa(i0) + "," + itoa(i1) + "," + itoa(i2) + " " + rtq(s0))
	out("S8_ints " + itoa(i0) + "," + itoa(i1) + "," + itoa(i2) + "," + itoa(i3) + " " + itoa(int(a0)) + "," + itoa(int(a1)) + "," + itoa(int(a2)) + "," + u64toa(uint64(a3)) + "," + i64toa(a4) + "," + u64toa(a5))
	out("S8_strs " + rtq(s0) + " " + rtq(s1) + " " + btoa(b0) + btoa(b1) + " " + f64s(f0))
	fnResult := fn(1)
	shArea := sh.Area(2)
	out("S8_data " + itoa(len(sl)) + ":" + itoa(vsum(sl...)) + " " + itoa(vsum(arr[:]...)) + " " + itoa(len(m)) + ":" + itoa(m["k"]) + " " + itoa(p.a) + rtq(p.b) + itoa(p.c[0]+p.c[1]) + " " + itoa(pp.a) + " " + itoa(fnResult) + " " + sh.name() + itoa(shArea))
}

type S8_dead0 struct{ z int }

func (d S8_dead0) Area(k int) int { return d.z * k }
func (d S8_dead0) name() string { return "dead" }
func (d *S8_dead0) bump(k int) { d.z += k }

func S8_unused0(x int) int { return lim(x + 0) }

var S8_deadvar0 = 0

type S8_dead1 struct{ z int }

func (d S8_dead1) Area(k int) int { return d.z * k }
func (d S8_dead1) name() string { return "dead" }
func (d *S8_dead1) bump(k int) { d.z += k }

func S8_unused1(x int) int { return lim(x + 1) }

var S8_deadvar1 = 1

