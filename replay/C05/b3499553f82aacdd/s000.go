package main

func S5_main() {
	i0, i1, i2, i3 := 9, 19, -9, 7
	var a0 int8 = 2
	var a1 uint8 = 161
	var a2 int16 = -1174
	var a3 uint32 = 181907198
	var a4 int64 = 1073741824
	var a5 uint64 = 78277
	s0, s1 := "abcdef", "go"
	b0, b1 := false, false
	f0 := 9.25
	sl := []int{9, 2, 3}
	arr := [4]int{1, 9, 3, 4}
	m := map[string]int{"k": 9, "a": 1}
	p := P{a: 9, b: "pb"}
	pp := &P{a: 1}
	fn := func(v int) int { return lim(v*3 + 1) }
	var sh Shape = pp
	_, _, _, _, _, _, _, _, _, _, _, _, _ = a2, a3, a4, a5, b1, f0, fn, sh, s1, b0, arr, m, pp
	{
		ch := make(chan int, 2)
		ch <- 5
		for k := 0; k < 4; k++ {
			select {
			case v := <-ch:
				i1 = lim(i1 + v)
				if k%2 == 1 {
						break
				}
				i1 = lim(i1 + 100)
			default:
				i2 = lim(i2 + 10)
			}
			i3 = lim(i3 + 1)
		}
	}
	switch {
	case !(b1):
		for k, v := range sl[:ix(1, len(sl)+1)] {
			i3 = lim(i3 + k*v)
			i0 = fn((i0 ^ 48))
			func() {
				defer func() {
					i1 = lim(i1 + 3)
					if r := recover(); r != nil {
						s1 = cut(s1 + "R")
					}
				}()
				sl[0]++
				i0, i1 = lim(i0), lim(i1)
			}()
			out("S5_b14" + " " + itoa(i0) + "," + itoa(i1) + "," + itoa(i2) + " " + rtq(s0))
		}
	case i3 > arr[3]:
		s1 = sub(s1, lim(arr[2] * (i0 / 5)))
	default:
		i0 = lim(len(s0) + lim(len(sl) + lim(len(sl) - len(s0))))
	}
	out("S5_b12" + " " + itoa(i0) + "," + itoa(i1) + "," + itoa(i2) + " " + rtq(s0))
	a4 = int64(arr[1]) * 4294967297
	a5 = uint64(a4) >> 1
	a0, a1, a2 = int8(a4), uint8(a5), int16(a4>>20)
	i0 = arr[3]
	out("S5_b10" + " " + itoa(i0) + "," + itoa(i1) + "," + itoa(i2) + " " + rtq(s0))
	L1:
	for k, r := range sub(s0, 1) {
		i3 = lim(i3 + k + int(r))
		i0 = len(s0)
		if false {
			break L1
		}
		if i3 == -777777 {
			continue L1
		}
	}
	i1--
	i0, i1 = lim(i0), lim(i1)
	out("S5_b7" + " " + itoa(i0) + "," + itoa(i1) + "," + itoa(i2) + " " + rtq(s0))
	b1 = ((arr[2] <= len(sl) || b1) && ((a1 ^ uint8(0)) < a1))
	i2 = vsum(len(sl), (-14 & 255))
	i2 = lim(i2 + vsum(sl...) + vsum())
	out("S5_b5" + " " + itoa(i0) + "," + itoa(i1) + "," + itoa(i2) + " " + rtq(s0))
	a0 *= (a0 ^ int8(2))
	i2 = vsum(i2, arr[1])
	i2 = lim(i2 + vsum(sl...) + vsum())
	out("S5_b3" + " " + itoa(i0) + "," + itoa(i1) + "," + itoa(i2) + " " + rtq(s0))
	p.b = "xyz"
	{
		i0 := lim(i0 + 6)
		s0 := s0 + "~"
		switch (sl[ix(i2, len(sl))] ^ 55) % 5 {
		case 2:
		}
		i3 = lim(i3 + i0 + len(s0))
	}
	out("S5_b0" + " " + itoa(i0) + "," + itoa(i1) + "," + itoa(i2) + " " + rtq(s0))
	out("S5_ints " + itoa(i0) + "," + itoa(i1) + "," + itoa(i2) + "," + itoa(i3) + " " + itoa(int(a0)) + "," + itoa(int(a1)) + "," + itoa(int(a2)) + "," + u64toa(uint64(a3)) + "," + i64toa(a4) + "," + u64toa(a5))
	out("S5_strs " + rtq(s0) + " " + rtq(s1) + " " + btoa(b0) + btoa(b1) + " " + f64s(f0))
	fnResult := fn(1)
	shArea := sh.Area(2)
	out("S5_data " + itoa(len(sl)) + ":" + itoa(vsum(sl...)) + " " + itoa(vsum(arr[:]...)) + " " + itoa(len(m)) + ":" + itoa(m["k"]) + " " + itoa(p.a) + rtq(p.b) + itoa(p.c[0]+p.c[1]) + " " + itoa(pp.a) + " " + itoa(fnResult) + " " + sh.name() + itoa(shArea))
}

type S5_dead0 struct{ z int }

func (d S5_dead0) Area(k int) int { return d.z * k }
func (d S5_dead0) name() string { return "dead" }
func (d *S5_dead0) bump(k int) { d.z += k }

func S5_unused0(x int) int { return lim(x + 0) }

var S5_deadvar0 = 0

