package main

func S3_f0(x, z int) int {
	i0, i1, i2, i3 := 18, 37, -18, 7
	var a0 int8 = 7
	var a1 uint8 = 67
	var a2 int16 = 315
	var a3 uint32 = 36
	var a4 int64 = -14
	var a5 uint64 = 1241
	s0, s1 := "héllo", ""
	b0, b1 := true, false
	f0 := 18.25
	sl := []int{18, 2, 3}
	arr := [4]int{1, 18, 3, 4}
	m := map[string]int{"k": 18, "a": 1}
	p := P{a: 18, b: "pb"}
	pp := &P{a: 1}
	fn := func(v int) int { return lim(v*3 + 1) }
	var sh Shape = &p
	_, _, _, _, _, _, _, _, _, _, _, _, _ = a2, a3, a4, a5, b1, f0, fn, sh, s1, b0, arr, m, pp
	i0, i1 = lim(x), lim(z)
	if x > 0 && x < 6 {
		i2 = S3_f0(x-1, z+1)
	}
	out("S3_t4" + " " + itoa(i0) + "," + itoa(i1) + "," + itoa(i2) + " " + rtq(s0))
	b0 = b0
	out("S3_b3" + " " + itoa(i0) + "," + itoa(i1) + "," + itoa(i2) + " " + rtq(s0))
	f0 = fclamp(f0*0.5 + float64(39)/7.0)
	if ((a1 ^ uint8(19)) < uint8(a0)) {
		func() {
			defer func() {
				i1 = lim(i1 + 3)
				if r := recover(); r != nil {
					s1 = cut(s1 + "R")
				}
			}()
		}()
	} else if (i1 <= i2 || b1) {
	}
	out("S3_b0" + " " + itoa(i0) + "," + itoa(i1) + "," + itoa(i2) + " " + rtq(s0))
	return lim(i0 + i1*3 + i2*5 + i3*7 + int(a0) + int(a1) + len(s0) + len(sl) + p.a)
}

func S3_main() {
	i0, i1, i2, i3 := 33, 67, -33, 7
	var a0 int8 = -2
	var a1 uint8 = 254
	var a2 int16 = -960
	var a3 uint32 = 6960186
	var a4 int64 = -4
	var a5 uint64 = 1073741824
	s0, s1 := "héllo", "abcdef"
	b0, b1 := false, false
	f0 := 33.25
	sl := []int{33, 2, 3}
	arr := [4]int{1, 33, 3, 4}
	m := map[string]int{"k": 33, "a": 1}
	p := P{a: 33, b: "pb"}
	pp := &P{a: 1}
	fn := func(v int) int { return lim(v*3 + 1) }
	var sh Shape = sq(3)
	_, _, _, _, _, _, _, _, _, _, _, _, _ = a2, a3, a4, a5, b1, f0, fn, sh, s1, b0, arr, m, pp
	i0, i1, i2 = i2, i0, lim(i1+1)
	if false {
		goto G1
	}
	i2 = lim(i2 + 5)
	G1:
	i2 = lim(i2 + 1)
	out("S3_b3" + " " + itoa(i0) + "," + itoa(i1) + "," + itoa(i2) + " " + rtq(s0))
	s0 = ""
	b0 = (b0 || len(sl) != (p.a / 4))
	out("S3_b1" + " " + itoa(i0) + "," + itoa(i1) + "," + itoa(i2) + " " + rtq(s0))
	a0 ^= a0
	out("S3_ints " + itoa(i0) + "," + itoa(i1) + "," + itoa(i2) + "," + itoa(i3) + " " + itoa(int(a0)) + "," + itoa(int(a1)) + "," + itoa(int(a2)) + "," + u64toa(uint64(a3)) + "," + i64toa(a4) + "," + u64toa(a5))
	out("S3_strs " + rtq(s0) + " " + rtq(s1) + " " + btoa(b0) + btoa(b1) + " " + f64s(f0))
	fnResult := fn(1)
	shArea := sh.Area(2)
	out("S3_data " + itoa(len(sl)) + ":" + itoa(vsum(sl...)) + " " + itoa(vsum(arr[:]...)) + " " + itoa(len(m)) + ":" + itoa(m["k"]) + " " + itoa(p.a) + rtq(p.b) + itoa(p.c[0]+p.c[1]) + " " + itoa(pp.a) + " " + itoa(fnResult) + " " + sh.name() + itoa(shArea))
}

type S3_dead0 struct{ z int }

func (d S3_dead0) Area(k int) int { return d.z * k }
func (d S3_dead0) name() string { return "dead" }
func (d *S3_dead0) bump(k int) { d.z += k }

func S3_unused0(x int) int { return lim(x + 0) }

var S3_deadvar0 = 0

type S3_dead1 struct{ z int }

func (d S3_dead1) Area(k int) int { return d.z * k }
func (d S3_dead1) name() string { return "dead" }
func (d *S3_dead1) bump(k int) { d.z += k }

func S3_unused1(x int) int { return lim(x + 1) }

var S3_deadvar1 = 1

