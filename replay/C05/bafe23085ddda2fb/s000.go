package main

func S9_f0(x, z int) int {
	i0, i1, i2, i3 := 4, 9, -4, 7
	var a0 int8 = 72
	var a1 uint8 = 12
	var a2 int16 = -2501
	var a3 uint32 = 25
	var a4 int64 = 10
	var a5 uint64 = 340
	s0, s1 := "go", "go"
	b0, b1 := true, false
	f0 := 4.25
	sl := []int{4, 2, 3}
	arr := [4]int{1, 4, 3, 4}
	m := map[string]int{"k": 4, "a": 1}
	p := P{a: 4, b: "pb"}
	pp := &P{a: 1}
	fn := func(v int) int { return lim(v*3 + 1) }
	var sh Shape = &p
	_, _, _, _, _, _, _, _, _, _, _, _, _ = a2, a3, a4, a5, b1, f0, fn, sh, s1, b0, arr, m, pp
	i0, i1 = lim(x), lim(z)
	if x > 0 && x < 6 {
		i2 = S9_f0(x-1, z+1)
	}
	pp.bump(sl[ix(len(s0), len(sl))])
	i3 = lim(3 + i3)
	out("S9_b6" + " " + itoa(i0) + "," + itoa(i1) + "," + itoa(i2) + " " + rtq(s0))
	L1:
	for k := 0; k < 3; k++ {
		i3 = lim(i3 + k)
		if (lim(i0 * i2) != (i1 ^ 35) || i0 == len(s0)) {
			i0, i1, i2 = i2, i0, lim(i1+1)
			p.a--
			i0, i1 = lim(i0), lim(i1)
			out("S9_b2" + " " + itoa(i0) + "," + itoa(i1) + "," + itoa(i2) + " " + rtq(s0))
			i1 = (lim(lim(-i2) - i3) ^ 30)
		}
		if i3 == -777777 {
			continue L1
		}
	}
	i0 = fn(i2)
	out("S9_b0" + " " + itoa(i0) + "," + itoa(i1) + "," + itoa(i2) + " " + rtq(s0))
	return lim(i0 + i1*3 + i2*5 + i3*7 + int(a0) + int(a1) + len(s0) + len(sl) + p.a)
}

func S9_f1(x, z int) int {
	i0, i1, i2, i3 := 5, 11, -5, 7
	var a0 int8 = 1
	var a1 uint8 = 0
	var a2 int16 = -209
	var a3 uint32 = 21
	var a4 int64 = -253865700
	var a5 uint64 = 3
	s0, s1 := "", "abcdef"
	b0, b1 := false, false
	f0 := 5.25
	sl := []int{5, 2, 3}
	arr := [4]int{1, 5, 3, 4}
	m := map[string]int{"k": 5, "a": 1}
	p := P{a: 5, b: "pb"}
	pp := &P{a: 1}
	fn := func(v int) int { return lim(v*3 + 1) }
	var sh Shape = &p
	_, _, _, _, _, _, _, _, _, _, _, _, _ = a2, a3, a4, a5, b1, f0, fn, sh, s1, b0, arr, m, pp
	i0, i1 = lim(x), lim(z)
	s0 = itoa(3)
	i1 = i0
	out("S9_b1" + " " + itoa(i0) + "," + itoa(i1) + "," + itoa(i2) + " " + rtq(s0))
	L2:
	for k, r := range sub(s0, 1) {
		i3 = lim(i3 + k + int(r))
		if i3 == -777777 {
			continue L2
		}
	}
	return lim(i0 + i1*3 + i2*5 + i3*7 + int(a0) + int(a1) + len(s0) + len(sl) + p.a)
}

func S9_f2(x, z int) int {
	i0, i1, i2, i3 := 37, 75, -37, 7
	var a0 int8 = -14
	var a1 uint8 = 1
	var a2 int16 = 1369
	var a3 uint32 = 28
	var a4 int64 = 109
	var a5 uint64 = 272025967
	s0, s1 := "go", "héllo"
	b0, b1 := false, false
	f0 := 37.25
	sl := []int{37, 2, 3}
	arr := [4]int{1, 37, 3, 4}
	m := map[string]int{"k": 37, "a": 1}
	p := P{a: 37, b: "pb"}
	pp := &P{a: 1}
	fn := func(v int) int { return lim(v*3 + 1) }
	var sh Shape = sq(3)
	_, _, _, _, _, _, _, _, _, _, _, _, _ = a2, a3, a4, a5, b1, f0, fn, sh, s1, b0, arr, m, pp
	i0, i1 = lim(x), lim(z)
	switch lim(lim(arr[2] - arr[1]) - int(s0[ix(i3, len(s0))])) % 5 {
	case -1:
		a3 -= ((a3 ^ a3) << 7)
		if i1 > i0 {
			break
		}
		i1 = lim(i1 + 1)
	case -2:
	default:
	}
	return lim(i0 + i1*3 + i2*5 + i3*7 + int(a0) + int(a1) + len(s0) + len(sl) + p.a)
}

func S9_main() {
	i0, i1, i2, i3 := 23, 47, -23, 7
	var a0 int8 = 30
	var a1 uint8 = 31
	var a2 int16 = 2
	var a3 uint32 = 7746
	var a4 int64 = 118
	var a5 uint64 = 106652396
	s0, s1 := "abcdef", ""
	b0, b1 := false, false
	f0 := 23.25
	sl := []int{23, 2, 3}
	arr := [4]int{1, 23, 3, 4}
	m := map[string]int{"k": 23, "a": 1}
	p := P{a: 23, b: "pb"}
	pp := &P{a: 1}
	fn := func(v int) int { return lim(v*3 + 1) }
	var sh Shape = sq(3)
	_, _, _, _, _, _, _, _, _, _, _, _, _ = a2, a3, a4, a5, b1, f0, fn, sh, s1, b0, arr, m, pp
	i2 = len(s0)
	i3 = (((p.a % 8) % 1) / 9)
	out("S9_b2" + " " + itoa(i0) + "," + itoa(i1) + "," + itoa(i2) + " " + rtq(s0))
	b0 = (b0 && (b1 && (b0 || b0)))
	func() {
		defer func() {
			i1 = lim(i1 + 3)
			if r := recover(); r != nil {
				s1 = cut(s1 + "R")
			}
		}()
	}()
	out("S9_b0" + " " + itoa(i0) + "," + itoa(i1) + "," + itoa(i2) + " " + rtq(s0))
	out("S9_ints " + itoa(i0) + "," + itoa(i1) + "," + itoa(i2) + "," + itoa(i3) + " " + itoa(int(a0)) + "," + itoa(int(a1)) + "," + itoa(int(a2)) + "," + u64toa(uint64(a3)) + "," + i64toa(a4) + "," + u64toa(a5))
	out("S9_strs " + rtq(s0) + " " + rtq(s1) + " " + btoa(b0) + btoa(b1) + " " + f64s(f0))
	fnResult := fn(1)
	shArea := sh.Area(2)
	out("S9_data " + itoa(len(sl)) + ":" + itoa(vsum(sl...)) + " " + itoa(vsum(arr[:]...)) + " " + itoa(len(m)) + ":" + itoa(m["k"]) + " " + itoa(p.a) + rtq(p.b) + itoa(p.c[0]+p.c[1]) + " " + itoa(pp.a) + " " + itoa(fnResult) + " " + sh.name() + itoa(shArea))
}

type S9_dead0 struct{ z int }

func (d S9_dead0) Area(k int) int { return d.z * k }
func (d S9_dead0) name() string { return "dead" }
func (d *S9_dead0) bump(k int) { d.z += k }

func S9_unused0(x int) int { return lim(x + 0) }

var S9_deadvar0 = 0

type S9_dead1 struct{ z int }

func (d S9_dead1) Area(k int) int { return d.z * k }
func (d S9_dead1) name() string { return "dead" }
func (d *S9_dead1) bump(k int) { d.z += k }

func S9_unused1(x int) int { return lim(x + 1) }

var S9_deadvar1 = 1

type S9_dead2 struct{ z int }

func (d S9_dead2) Area(k int) int { return d.z * k }
func (d S9_dead2) name() string { return "dead" }
func (d *S9_dead2) bump(k int) { d.z += k }

func S9_unused2(x int) int { return lim(x + 2) }

var S9_deadvar2 = 2

