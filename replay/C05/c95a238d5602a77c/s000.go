package main

func S6_f0(x, z int) int {
	i0, i1, i2, i3 := 16, 33, -16, 7
	var a0 int8 = 11
	var a1 uint8 = 7
	var a2 int16 = -478
	var a3 uint32 = 0
	var a4 int64 = 1
	var a5 uint64 = 5
	s0, s1 := "héllo", ""
	b0, b1 := true, false
	f0 := 16.25
	sl := []int{16, 2, 3}
	arr := [4]int{1, 16, 3, 4}
	m := map[string]int{"k": 16, "a": 1}
	p := P{a: 16, b: "pb"}
	pp := &P{a: 1}
	fn := func(v int) int { return lim(v*3 + 1) }
	var sh Shape = &p
	_, _, _, _, _, _, _, _, _, _, _, _, _ = a2, a3, a4, a5, b1, f0, fn, sh, s1, b0, arr, m, pp
	i0, i1 = lim(x), lim(z)
	if x > 0 && x < 6 {
		i2 = S6_f0(x-1, z+1)
	}
	L1:
	for c := 3; c > 0; c-- {
		i2 = lim(i2 + c)
		L2:
		for k := 0; k < 2; k++ {
			i3 = lim(i3 + k)
			if b0 {
				continue
			}
			if i3 == -777777 {
				continue L2
			}
		}
		if (-7 < p.a || false) {
			continue L1
		}
		if i3 == -777777 {
			continue L1
		}
	}
	return lim(i0 + i1*3 + i2*5 + i3*7 + int(a0) + int(a1) + len(s0) + len(sl) + p.a)
}

func S6_main() {
	i0, i1, i2, i3 := 14, 29, -14, 7
	var a0 int8 = 5
	var a1 uint8 = 219
	var a2 int16 = 626
	var a3 uint32 = 45
	var a4 int64 = -39
	var a5 uint64 = 856
	s0, s1 := "go", "héllo"
	b0, b1 := true, false
	f0 := 14.25
	sl := []int{14, 2, 3}
	arr := [4]int{1, 14, 3, 4}
	m := map[string]int{"k": 14, "a": 1}
	p := P{a: 14, b: "pb"}
	pp := &P{a: 1}
	fn := func(v int) int { return lim(v*3 + 1) }
	var sh Shape = pp
	_, _, _, _, _, _, _, _, _, _, _, _, _ = a2, a3, a4, a5, b1, f0, fn, sh, s1, b0, arr, m, pp
	switch {
	case (s0 != s1 || false):
		if false {
			s0 = p.b
			{
				ch := make(chan int, 2)
				ch <- 5
				for k := 0; k < 4; k++ {
					select {
					case v := <-ch:
						i1 = lim(i1 + v)
						i1 = lim(i1 + 100)
					default:
						i2 = lim(i2 + 10)
					}
					i3 = lim(i3 + 1)
				}
			}
			out("S6_b1" + " " + itoa(i0) + "," + itoa(i1) + "," + itoa(i2) + " " + rtq(s0))
			i1 = (((90 / 4) ^ 26) & 61)
		} else if b0 {
		}
	case b0:
	case b1:
	default:
	}
	out("S6_ints " + itoa(i0) + "," + itoa(i1) + "," + itoa(i2) + "," + itoa(i3) + " " + itoa(int(a0)) + "," + itoa(int(a1)) + "," + itoa(int(a2)) + "," + u64toa(uint64(a3)) + "," + i64toa(a4) + "," + u64toa(a5))
	out("S6_strs " + rtq(s0) + " " + rtq(s1) + " " + btoa(b0) + btoa(b1) + " " + f64s(f0))
	fnResult := fn(1)
	shArea := sh.Area(2)
	out("S6_data " + itoa(len(sl)) + ":" + itoa(vsum(sl...)) + " " + itoa(vsum(arr[:]...)) + " " + itoa(len(m)) + ":" + itoa(m["k"]) + " " + itoa(p.a) + rtq(p.b) + itoa(p.c[0]+p.c[1]) + " " + itoa(pp.a) + " " + itoa(fnResult) + " " + sh.name() + itoa(shArea))
}

type S6_dead0 struct{ z int }

func (d S6_dead0) Area(k int) int { return d.z * k }
func (d S6_dead0) name() string { return "dead" }
func (d *S6_dead0) bump(k int) { d.z += k }

func S6_unused0(x int) int { return lim(x + 0) }

var S6_deadvar0 = 0

type S6_dead1 struct{ z int }

func (d S6_dead1) Area(k int) int { return d.z * k }
func (d S6_dead1) name() string { return "dead" }
func (d *S6_dead1) bump(k int) { d.z += k }

func S6_unused1(x int) int { return lim(x + 1) }

var S6_deadvar1 = 1

