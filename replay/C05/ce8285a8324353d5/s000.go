package main

func S7_f0(x, z int) int {
	i0, i1, i2, i3 := 7, 15, -7, 7
	var a0 int8 = -12
	var a1 uint8 = 24
	var a2 int16 = 3
	var a3 uint32 = 1
	var a4 int64 = 60
	var a5 uint64 = 19667
	s0, s1 := "", "go"
	b0, b1 := false, false
	f0 := 7.25
	sl := []int{7, 2, 3}
	arr := [4]int{1, 7, 3, 4}
	m := map[string]int{"k": 7, "a": 1}
	p := P{a: 7, b: "pb"}
	pp := &P{a: 1}
	fn := func(v int) int { return lim(v*3 + 1) }
	var sh Shape = pp
	_, _, _, _, _, _, _, _, _, _, _, _, _ = a2, a3, a4, a5, b1, f0, fn, sh, s1, b0, arr, m, pp
	i0, i1 = lim(x), lim(z)
	if x > 0 && x < 6 {
		i2 = S7_f0(x-1, z+1)
	}
	if true {
		goto G1
	}
	i2 = lim(i2 + 5)
	G1:
	i2 = lim(i2 + 1)
	a0 += (a0 >> 6)
	out("S7_b0" + " " + itoa(i0) + "," + itoa(i1) + "," + itoa(i2) + " " + rtq(s0))
	return lim(i0 + i1*3 + i2*5 + i3*7 + int(a0) + int(a1) + len(s0) + len(sl) + p.a)
}

func S7_f1(x, z int) int {
	i0, i1, i2, i3 := 28, 57, -28, 7
	var a0 int8 = -23
	var a1 uint8 = 30
	var a2 int16 = -1
	var a3 uint32 = 0
	var a4 int64 = 2
	var a5 uint64 = 3
	s0, s1 := "héllo", "go"
	b0, b1 := true, false
	f0 := 28.25
	sl := []int{28, 2, 3}
	arr := [4]int{1, 28, 3, 4}
	m := map[string]int{"k": 28, "a": 1}
	p := P{a: 28, b: "pb"}
	pp := &P{a: 1}
	fn := func(v int) int { return lim(v*3 + 1) }
	var sh Shape = pp
	_, _, _, _, _, _, _, _, _, _, _, _, _ = a2, a3, a4, a5, b1, f0, fn, sh, s1, b0, arr, m, pp
	i0, i1 = lim(x), lim(z)
	if x > 0 && x < 6 {
		i2 = S7_f1(x-1, z+1)
	}
	i2 = i3
	{
		gc := 0
	G2:
		gc++
		i3 = lim(i3 + gc)
		if gc < 2 {
			goto G2
		}
	}
	out("S7_b1" + " " + itoa(i0) + "," + itoa(i1) + "," + itoa(i2) + " " + rtq(s0))
	a3 *= a3
	return lim(i0 + i1*3 + i2*5 + i3*7 + int(a0) + int(a1) + len(s0) + len(sl) + p.a)
}

func S7_main() {
	i0, i1, i2, i3 := 10, 21, -10, 7
	var a0 int8 = 2
	var a1 uint8 = 16
	var a2 int16 = 60
	var a3 uint32 = 3
	var a4 int64 = 1055468655
	var a5 uint64 = 499672554
	s0, s1 := "go", "go"
	b0, b1 := true, false
	f0 := 10.25
	sl := []int{10, 2, 3}
	arr := [4]int{1, 10, 3, 4}
	m := map[string]int{"k": 10, "a": 1}
	p := P{a: 10, b: "pb"}
	pp := &P{a: 1}
	fn := func(v int) int { return lim(v*3 + 1) }
	var sh Shape = sq(3)
	_, _, _, _, _, _, _, _, _, _, _, _, _ = a2, a3, a4, a5, b1, f0, fn, sh, s1, b0, arr, m, pp
	i0 = int(a0)
	a5 -= (a5 ^ uint64(2))
	out("S7_b13" + " " + itoa(i0) + "," + itoa(i1) + "," + itoa(i2) + " " + rtq(s0))
	i0 = (-1 ^ 22)
	if b0 {
		arr[ix(len(s0), 4)] = i0
		if -16 < i1 {
			goto G3
		}
		i2 = lim(i2 + 5)
		G3:
		i2 = lim(i2 + 1)
		out("S7_b9" + " " + itoa(i0) + "," + itoa(i1) + "," + itoa(i2) + " " + rtq(s0))
	} else {
		b1 = i3 > arr[1]
	}
	out("S7_b8" + " " + itoa(i0) + "," + itoa(i1) + "," + itoa(i2) + " " + rtq(s0))
	i2 = p.a
	i3 = int(s0[ix((i1 % 3), len(s0))])
	out("S7_b6" + " " + itoa(i0) + "," + itoa(i1) + "," + itoa(i2) + " " + rtq(s0))
	for k, v := range []interface{}{i0, s0, nil, f0, 7, "z", nil} {
		switch x := v.(type) {
		case int:
			i1 = lim(i1 + x)
		case string:
			i2 = lim(i2 + len(x))
		case nil:
			i2 = lim(i2 + 1000)
		default:
			if k%2 == 1 {
				break
			}
			i1 = lim(i1 - 3)
			_ = x
		}
		i3 = lim(i3 + k + 1)
	}
	{
		cp := p
		cp.a = lim(cp.a + 7)
		cp.c[1] = i0
		arr2 := arr
		arr2[0] = cp.a
		i3 = lim(p.a + cp.a + arr[0] + arr2[0] + p.c[1])
	}
	out("S7_b4" + " " + itoa(i0) + "," + itoa(i1) + "," + itoa(i2) + " " + rtq(s0))
	{
		ch := make(chan int, 2)
		ch <- 5
		for k := 0; k < 4; k++ {
			select {
			case v := <-ch:
				i1 = lim(i1 + v)
				i1 = lim(i1 + 100)
			default:
				if k%2 == 1 {
						break
				}
				i2 = lim(i2 + 10)
			}
			i3 = lim(i3 + 1)
		}
	}
	i3 = i1
	out("S7_b2" + " " + itoa(i0) + "," + itoa(i1) + "," + itoa(i2) + " " + rtq(s0))
	i0 = fn(len(sl))
	b1 = (false || !(b1))
	out("S7_b0" + " " + itoa(i0) + "," + itoa(i1) + "," + itoa(i2) + " " + rtq(s0))
	out("S7_ints " + itoa(i0) + "," + itoa(i1) + "," + itoa(i2) + "," + itoa(i3) + " " + itoa(int(a0)) + "," + itoa(int(a1)) + "," + itoa(int(a2)) + "," + u64toa(uint64(a3)) + "," + i64toa(a4) + "," + u64toa(a5))
	out("S7_strs " + rtq(s0) + " " + rtq(s1) + " " + btoa(b0) + btoa(b1) + " " + f64s(f0))
	fnResult := fn(1)
	shArea := sh.Area(2)
	out("S7_data " + itoa(len(sl)) + ":" + itoa(vsum(sl...)) + " " + itoa(vsum(arr[:]...)) + " " + itoa(len(m)) + ":" + itoa(m["k"]) + " " + itoa(p.a) + rtq(p.b) + itoa(p.c[0]+p.c[1]) + " " + itoa(pp.a) + " " + itoa(fnResult) + " " + sh.name() + itoa(shArea))
}

type S7_dead0 struct{ z int }

func (d S7_dead0) Area(k int) int { return d.z * k }
func (d S7_dead0) name() string { return "dead" }
func (d *S7_dead0) bump(k int) { d.z += k }

func S7_unused0(x int) int { return lim(x + 0) }

var S7_deadvar0 = 0

