package main

func S12_f0(x, z int) int {
	i0, i1, i2, i3 := 1, 3, -1, 7
	var a0 int8 = -14
	var a1 uint8 = 8
	var a2 int16 = -1521
	var a3 uint32 = 118
	var a4 int64 = 158
	var a5 uint64 = 27510
	s0, s1 := "go", "go"
	b0, b1 := false, false
	f0 := 1.25
	sl := []int{1, 2, 3}
	arr := [4]int{1, 1, 3, 4}
	m := map[string]int{"k": 1, "a": 1}
	p := P{a: 1, b: "pb"}
	pp := &P{a: 1}
	fn := func(v int) int { return lim(v*3 + 1) }
	var sh Shape = &p
	_, _, _, _, _, _, _, _, _, _, _, _, _ = a2, a3, a4, a5, b1, f0, fn, sh, s1, b0, arr, m, pp
	i0, i1 = lim(x), lim(z)
	if x > 0 && x < 6 {
		i2 = S12_f0(x-1, z+1)
	}
	i0 = int(s0[ix((0 & 255), len(s0))])
	{
		cl := func(d int) int {
			s0 = sub(sub(sub("a", len(sl)), (len(s0) & 91)), arr[0])
			i0 = lim(i0 + d)
			return lim(i0 * 2)
		}
		i1 = cl(i3)
		fn = cl
	}
	out("S12_b0" + " " + itoa(i0) + "," + itoa(i1) + "," + itoa(i2) + " " + rtq(s0))
	return lim(i0 + i1*3 + i2*5 + i3*7 + int(a0) + int(a1) + len(s0) + len(sl) + p.a)
}

func S12_f1(x, z int) int {
	i0, i1, i2, i3 := 36, 73, -36, 7
	var a0 int8 = 100
	var a1 uint8 = 255
	var a2 int16 = 1
	var a3 uint32 = 3
	var a4 int64 = 317455249
	var a5 uint64 = 0
	s0, s1 := "", "go"
	b0, b1 := true, false
	f0 := 36.25
	sl := []int{36, 2, 3}
	arr := [4]int{1, 36, 3, 4}
	m := map[string]int{"k": 36, "a": 1}
	p := P{a: 36, b: "pb"}
	pp := &P{a: 1}
	fn := func(v int) int { return lim(v*3 + 1) }
	var sh Shape = sq(3)
	_, _, _, _, _, _, _, _, _, _, _, _, _ = a2, a3, a4, a5, b1, f0, fn, sh, s1, b0, arr, m, pp
	i0, i1 = lim(x), lim(z)
	if (b0 || false) {
		goto G1
	}
	i2 = lim(i2 + 5)
	G1:
	i2 = lim(i2 + 1)
	i0--
	i0, i1 = lim(i0), lim(i1)
	out("S12_b0" + " " + itoa(i0) + "," + itoa(i1) + "," + itoa(i2) + " " + rtq(s0))
	return lim(i0 + i1*3 + i2*5 + i3*7 + int(a0) + int(a1) + len(s0) + len(sl) + p.a)
}

func S12_f2(x, z int) int {
	i0, i1, i2, i3 := 38, 77, -38, 7
	var a0 int8 = 15
	var a1 uint8 = 0
	var a2 int16 = 0
	var a3 uint32 = 1022
	var a4 int64 = -2
	var a5 uint64 = 10019
	s0, s1 := "abcdef", "abcdef"
	b0, b1 := true, false
	f0 := 38.25
	sl := []int{38, 2, 3}
	arr := [4]int{1, 38, 3, 4}
	m := map[string]int{"k": 38, "a": 1}
	p := P{a: 38, b: "pb"}
	pp := &P{a: 1}
	fn := func(v int) int { return lim(v*3 + 1) }
	var sh Shape = sq(3)
	_, _, _, _, _, _, _, _, _, _, _, _, _ = a2, a3, a4, a5, b1, f0, fn, sh, s1, b0, arr, m, pp
	i0, i1 = lim(x), lim(z)
	if x > 0 && x < 6 {
		i2 = S12_f2(x-1, z+1)
	}
	for k, v := range sl[:ix(4, len(sl)+1)] {
		i3 = lim(i3 + k*v)
		m["k"]++
		i0, i1 = lim(i0), lim(i1)
		if b0 {
			continue
		}
	}
	return lim(i0 + i1*3 + i2*5 + i3*7 + int(a0) + int(a1) + len(s0) + len(sl) + p.a)
}

func S12_main() {
	i0, i1, i2, i3 := 3, 7, -3, 7
	var a0 int8 = 11
	var a1 uint8 = 12
	var a2 int16 = -2
	var a3 uint32 = 18
	var a4 int64 = 57048649
	var a5 uint64 = 88972452
	s0, s1 := "go", "abcdef"
	b0, b1 := false, false
	f0 := 3.25
	sl := []int{3, 2, 3}
	arr := [4]int{1, 3, 3, 4}
	m := map[string]int{"k": 3, "a": 1}
	p := P{a: 3, b: "pb"}
	pp := &P{a: 1}
	fn := func(v int) int { return lim(v*3 + 1) }
	var sh Shape = pp
	_, _, _, _, _, _, _, _, _, _, _, _, _ = a2, a3, a4, a5, b1, f0, fn, sh, s1, b0, arr, m, pp
	i1--
	i0, i1 = lim(i0), lim(i1)
	out("S12_t8" + " " + itoa(i0) + "," + itoa(i1) + "," + itoa(i2) + " " + rtq(s0))
	out("S12_b8" + " " + itoa(i0) + "," + itoa(i1) + "," + itoa(i2) + " " + rtq(s0))
	a1 -= (a1 ^ uint8(1))
	i1 = arr[ix(i0, 4)]
	out("S12_b6" + " " + itoa(i0) + "," + itoa(i1) + "," + itoa(i2) + " " + rtq(s0))
	i3 = i2
	p.b = string(rune('a' + ix(arr[1], 26)))
	out("S12_b4" + " " + itoa(i0) + "," + itoa(i1) + "," + itoa(i2) + " " + rtq(s0))
	a3--
	i0, i1 = lim(i0), lim(i1)
	{
		cp := p
		cp.a = lim(cp.a + 7)
		cp.c[1] = i0
		arr2 := arr
		arr2[0] = cp.a
		i3 = lim(p.a + cp.a + arr[0] + arr2[0] + p.c[1])
	}
	out("S12_b2" + " " + itoa(i0) + "," + itoa(i1) + "," + itoa(i2) + " " + rtq(s0))
	i0 = fn(m[p.b])
	i0, i1, i2 = i2, i0, lim(i1+1)
	out("S12_b0" + " " + itoa(i0) + "," + itoa(i1) + "," + itoa(i2) + " " + rtq(s0))
	out("S12_ints " + itoa(i0) + "," + itoa(i1) + "," + itoa(i2) + "," + itoa(i3) + " " + itoa(int(a0)) + "," + itoa(int(a1)) + "," + itoa(int(a2)) + "," + u64toa(uint64(a3)) + "," + i64toa(a4) + "," + u64toa(a5))
	out("S12_strs " + rtq(s0) + " " + rtq(s1) + " " + btoa(b0) + btoa(b1) + " " + f64s(f0))
	fnResult := fn(1)
	shArea := sh.Area(2)
	out("S12_data " + itoa(len(sl)) + ":" + itoa(vsum(sl...)) + " " + itoa(vsum(arr[:]...)) + " " + itoa(len(m)) + ":" + itoa(m["k"]) + " " + itoa(p.a) + rtq(p.b) + itoa(p.c[0]+p.c[1]) + " " + itoa(pp.a) + " " + itoa(fnResult) + " " + sh.name() + itoa(shArea))
}

type S12_dead0 struct{ z int }

func (d S12_dead0) Area(k int) int { return d.z * k }
func (d S12_dead0) name() string { return "dead" }
func (d *S12_dead0) bump(k int) { d.z += k }

func S12_unused0(x int) int { return lim(x + 0) }

var S12_deadvar0 = 0

type S12_dead1 struct{ z int }

func (d S12_dead1) Area(k int) int { return d.z * k }
func (d S12_dead1) name() string { return "dead" }
func (d *S12_dead1) bump(k int) { d.z += k }

func S12_unused1(x int) int { return lim(x + 1) }

var S12_deadvar1 = 1

type S12_dead2 struct{ z int }

func (d S12_dead2) Area(k int) int { return d.z * k }
func (d S12_dead2) name() string { return "dead" }
func (d *S12_dead2) bump(k int) { d.z += k }

func S12_unused2(x int) int { return lim(x + 2) }

var S12_deadvar2 = 2

