package main

func S8_main() {
	i0, i1, i2, i3 := 5, 11, -5, 7
	var a0 int8 = 1
	var a1 uint8 = 1
	var a2 int16 = 7
	var a3 uint32 = 4
	var a4 int64 = 98
	var a5 uint64 = 0
	s0, s1 := "go", ""
	b0, b1 := false, false
	f0 := 5.25
	sl := []int{5, 2, 3}
	arr := [4]int{1, 5, 3, 4}
	m := map[string]int{"k": 5, "a": 1}
	p := P{a: 5, b: "pb"}
	pp := &P{a: 1}
	fn := func(v int) int { return lim(v*3 + 1) }
	var sh Shape = sq(3)
	_, _, _, _, _, _, _, _, _, _, _, _, _ = a2, a3, a4, a5, b1, f0, fn, sh, s1, b0, arr, m, pp
	i0 = fn(lim(2 - i2))
	for k, r := range sub(s0, 3) {
		i3 = lim(i3 + k + int(r))
		i2 = fn((i2 & 62))
		i3 = arr[3]
		out("S8_b17" + " " + itoa(i0) + "," + itoa(i1) + "," + itoa(i2) + " " + rtq(s0))
		switch lim((43 / 5) * len(sl)) % 5 {
		case -1:
			pp.bump((p.a / 5))
			switch {
			case (((a1 ^ uint8(119)) ^ a1) < a1):
				i2 = arr[ix(lim(lim(p.a - i1) - sl[ix(i1, len(sl))]), 4)]
			case (((a1 ^ uint8(67)) + (a1 ^ uint8(1))) < ((a1 ^ uint8(12)) >> 4)):
				i0 = (2 ^ 0)
			}
			out("S8_b12" + " " + itoa(i0) + "," + itoa(i1) + "," + itoa(i2) + " " + rtq(s0))
		case -2:
			i0, i1, i2 = i2, i0, lim(i1+1)
		case 3:
			switch {
			case ((a1 ^ (a1 ^ uint8(11))) < ((a1 ^ uint8(0)) + (a1 ^ uint8(12)))):
				a1 &= (a1 ^ uint8(43))
				i1++
				i0, i1 = lim(i0), lim(i1)
				out("S8_b8" + " " + itoa(i0) + "," + itoa(i1) + "," + itoa(i2) + " " + rtq(s0))
			case s1 != cut("xyz" + itoa(6)):
				i0 = -3
			case !(((a1 ^ uint8(20)) < a1)):
				a0 += (int8((a0 ^ int8(60))) << 3)
				s0 = sub(p.b, lim(p.a + lim(i1 + i1)))
				out("S8_b5" + " " + itoa(i0) + "," + itoa(i1) + "," + itoa(i2) + " " + rtq(s0))
			default:
				i0--
				i0, i1 = lim(i0), lim(i1)
			}
			arr[nx(4)]--
			out("S8_calls " + itoa(cn))
			out("S8_b3" + " " + itoa(i0) + "," + itoa(i1) + "," + itoa(i2) + " " + rtq(s0))
		}
	}
	out("S8_b3" + " " + itoa(i0) + "," + itoa(i1) + "," + itoa(i2) + " " + rtq(s0))
	i1 = i1
	i1 = i1
	out("S8_b1" + " " + itoa(i0) + "," + itoa(i1) + "," + itoa(i2) + " " + rtq(s0))
	i2 = vsum(arr[1], lim(i0 - i3))
	i2 = lim(i2 + vsum(sl...) + vsum())
	out("S8_ints " + itoa(i0) + "," + itoa(i1) + "," + itoa(i2) + "," + itoa(i3) + " " + itoa(int(a0)) + "," + itoa(int(a1)) + "," + itoa(int(a2)) + "," + u64toa(uint64(a3)) + "," + i64toa(a4) + "," + u64toa(a5))
	out("S8_strs " + rtq(s0) + " " + rtq(s1) + " " + btoa(b0) + btoa(b1) + " " + f64s(f0))
	fnResult := fn(1)
	shArea := sh.Area(2)
	out("S8_data " + itoa(len(sl)) + ":" + itoa(vsum(sl...)) + " " + itoa(vsum(arr[:]...)) + " " + itoa(len(m)) + ":" + itoa(m["k"]) + " " + itoa(p.a) + rtq(p.b) + itoa(p.c[0]+p.c[1]) + " " + itoa(pp.a) + " " + itoa(fnResult) + " " + sh.name() + itoa(shArea))
}

type S8_dead0 struct{ z int }

func (d S8_dead0) Area(k int) int { return d.z * k }
func (d S8_dead0) name() string { return "dead" }
func (d *S8_dead0) bump(k int) { d.z += k }

func S8_unused0(x int) int { return lim(x + 0) }

var S8_deadvar0 = 0

type S8_dead1 struct{ z int }

func (d S8_dead1) Area(k int) int { return d.z * k }
func (d S8_dead1) name() string { return "dead" }
func (d *S8_dead1) bump(k int) { d.z += k }

func S8_unused1(x int) int { return lim(x + 1) }

var S8_deadvar1 = 1

