package main

func S0_main() {
	i0, i1, i2, i3 := 25, 51, -25, 7
	var a0 int8 = 1
	var a1 uint8 = 106
	var a2 int16 = 26
	var a3 uint32 = 47
	var a4 int64 = 12734
	var a5 uint64 = 184995
	s0, s1 := "héllo", "abcdef"
	b0, b1 := false, false
	f0 := 25.25
	sl := []int{25, 2, 3}
	arr := [4]int{1, 25, 3, 4}
	m := map[string]int{"k": 25, "a": 1}
	p := P{a: 25, b: "pb"}
	pp := &P{a: 1}
	fn := func(v int) int { return lim(v*3 + 1) }
	var sh Shape = sq(3)
	_, _, _, _, _, _, _, _, _, _, _, _, _ = a2, a3, a4, a5, b1, f0, fn, sh, s1, b0, arr, m, pp
	a4 = int64(sl[ix(i0, len(sl))]) * 4294967297
	a5 = uint64(a4) >> 37
	a0, a1, a2 = int8(a4), uint8(a5), int16(a4>>5)
	i0 = i3
	out("S0_b6" + " " + itoa(i0) + "," + itoa(i1) + "," + itoa(i2) + " " + rtq(s0))
	i3 = p.a
	i0 = lim(gmax(i0, (p.a ^ 2)))
	s0 = gmax(s0, sub(itoa(i0), i0))
	out("S0_b4" + " " + itoa(i0) + "," + itoa(i1) + "," + itoa(i2) + " " + rtq(s0))
	i1 = lim(i1 * i2)
	{
		acc := 0
		for k, v := range m {
			acc += len(k)*7 + v
		}
		i2 = lim(acc)
	}
	out("S0_b2" + " " + itoa(i0) + "," + itoa(i1) + "," + itoa(i2) + " " + rtq(s0))
	i3 = lim(i1 * m[""])
	a4 *= a4
	out("S0_b0" + " " + itoa(i0) + "," + itoa(i1) + "," + itoa(i2) + " " + rtq(s0))
	out("S0_ints " + itoa(i0) + "," + itoa(i1) + "," + itoa(i2) + "," + itoa(i3) + " " + itoa(int(a0)) + "," + itoa(int(a1)) + "," + itoa(int(a2)) + "," + u64toa(uint64(a3)) + "," + i64toa(a4) + "," + u64toa(a5))
	out("S0_strs " + rtq(s0) + " " + rtq(s1) + " " + btoa(b0) + btoa(b1) + " " + f64s(f0))
	fnResult := fn(1)
	shArea := sh.Area(2)
	out("S0_data " + itoa(len(sl)) + ":" + itoa(vsum(sl...)) + " " + itoa(vsum(arr[:]...)) + " " + itoa(len(m)) + ":" + itoa(m["k"]) + " " + itoa(p.a) + rtq(p.b) + itoa(p.c[0]+p.c[1]) + " " + itoa(pp.a) + " " + itoa(fnResult) + " " + sh.name() + itoa(shArea))
}

type S0_dead0 struct{ z int }

func (d S0_dead0) Area(k int) int { return d.z * k }
func (d S0_dead0) name() string { return "dead" }
func (d *S0_dead0) bump(k int) { d.z += k }

func S0_unused0(x int) int { return lim(x + 0) }

var S0_deadvar0 = 0

