package main

func S13_f0(x, z int) int {
	i0, i1, i2, i3 := 13, 27, -13, 7
	var a0 int8 = -1
	var a1 uint8 = 2
	var a2 int16 = -2
	var a3 uint32 = 3
	var a4 int64 = -5
	var a5 uint64 = 191
	s0, s1 := "", "go"
	b0, b1 := false, false
	f0 := 13.25
	sl := []int{13, 2, 3}
	arr := [4]int{1, 13, 3, 4}
	m := map[string]int{"k": 13, "a": 1}
	p := P{a: 13, b: "pb"}
	pp := &P{a: 1}
	fn := func(v int) int { return lim(v*3 + 1) }
	var sh Shape = pp
	_, _, _, _, _, _, _, _, _, _, _, _, _ = a2, a3, a4, a5, b1, f0, fn, sh, s1, b0, arr, m, pp
	i0, i1 = lim(x), lim(z)
	if x > 0 && x < 6 {
		i2 = S13_f0(x-1, z+1)
	}
	i0 = lim(-i1)
	i3 = lim(-3 * len(s0))
	out("S13_b8" + " " + itoa(i0) + "," + itoa(i1) + "," + itoa(i2) + " " + rtq(s0))
	{
		i0 := lim(i0 + 3)
		s0 := s0 + "~"
		i0 = i0
		func() {
			defer func() {
				i1 = lim(i1 + 3)
				if r := recover(); r != nil {
					s1 = cut(s1 + "R")
				}
			}()
			i2 = vsum(lim(arr[1] - i3), lim(-len(s0)))
			i2 = lim(i2 + vsum(sl...) + vsum())
		}()
		out("S13_b4" + " " + itoa(i0) + "," + itoa(i1) + "," + itoa(i2) + " " + rtq(s0))
		i3 = lim(i3 + i0 + len(s0))
	}
	i0 = (arr[ix((i1 / 3), 4)] ^ 9)
	out("S13_b3" + " " + itoa(i0) + "," + itoa(i1) + "," + itoa(i2) + " " + rtq(s0))
	if b1 {
		i1 = (int(s0[ix(lim(91 + i3), len(s0))]) ^ 51)
		{
			i0 := lim(i0 + 6)
			s0 := s0 + "~"
			i3 = lim(i3 + i0 + len(s0))
		}
		out("S13_b0" + " " + itoa(i0) + "," + itoa(i1) + "," + itoa(i2) + " " + rtq(s0))
	} else if lim(-i1) != i1 {
	} else {
	}
	return lim(i0 + i1*3 + i2*5 + i3*7 + int(a0) + int(a1) + len(s0) + len(sl) + p.a)
}

func S13_f1(x, z int) int {
	i0, i1, i2, i3 := 47, 95, -47, 7
	var a0 int8 = -9
	var a1 uint8 = 92
	var a2 int16 = -5
	var a3 uint32 = 3
	var a4 int64 = 9
	var a5 uint64 = 2
	s0, s1 := "héllo", "héllo"
	b0, b1 := false, false
	f0 := 47.25
	sl := []int{47, 2, 3}
	arr := [4]int{1, 47, 3, 4}
	m := map[string]int{"k": 47, "a": 1}
	p := P{a: 47, b: "pb"}
	pp := &P{a: 1}
	fn := func(v int) int { return lim(v*3 + 1) }
	var sh Shape = &p
	_, _, _, _, _, _, _, _, _, _, _, _, _ = a2, a3, a4, a5, b1, f0, fn, sh, s1, b0, arr, m, pp
	i0, i1 = lim(x), lim(z)
	if x > 0 && x < 6 {
		i2 = S13_f1(x-1, z+1)
	}
	{
		acc := 0
		for k, v := range m {
			acc += len(k)*7 + v
		}
		i2 = lim(acc)
	}
	i1 = arr[3]
	out("S13_b6" + " " + itoa(i0) + "," + itoa(i1) + "," + itoa(i2) + " " + rtq(s0))
	for k, v := range []interface{}{i0, s0, nil, f0, 7, "z", nil} {
		switch v.(type) {
		case int:
			i1 = lim(i1 + 1)
		case string:
			i2 = lim(i2 + 1)
		case nil:
			if k%2 == 1 {
				break
			}
			i2 = lim(i2 + 1000)
		default:
			i1 = lim(i1 - 3)
		}
		i3 = lim(i3 + k + 1)
	}
	{
		acc := 0
		for k, v := range m {
			acc += len(k)*7 + v
		}
		i2 = lim(acc)
	}
	out("S13_b4" + " " + itoa(i0) + "," + itoa(i1) + "," + itoa(i2) + " " + rtq(s0))
	switch t := sh.(type) {
	case *P:
		i1 = lim(t.a + 1)
	case sq:
		i1 = int(t)
	}
	s0 = cut(sub(itoa(p.a), i1) + s1)
	out("S13_b2" + " " + itoa(i0) + "," + itoa(i1) + "," + itoa(i2) + " " + rtq(s0))
	switch {
	case "bc" != cut(s1 + "k"):
		a5 |= a5
	case ((b1 || true) || -2 != 35):
	case (len(s0) < len(s0) || (b0 && p.a >= len(s0))):
	}
	return lim(i0 + i1*3 + i2*5 + i3*7 + int(a0) + int(a1) + len(s0) + len(sl) + p.a)
}

func S13_f2(x, z int) int {
	i0, i1, i2, i3 := 6, 13, -6, 7
	var a0 int8 = -39
	var a1 uint8 = 255
	var a2 int16 = -3
	var a3 uint32 = 1447
	var a4 int64 = 57
	var a5 uint64 = 0
	s0, s1 := "go", ""
	b0, b1 := true, false
	f0 := 6.25
	sl := []int{6, 2, 3}
	arr := [4]int{1, 6, 3, 4}
	m := map[string]int{"k": 6, "a": 1}
	p := P{a: 6, b: "pb"}
	pp := &P{a: 1}
	fn := func(v int) int { return lim(v*3 + 1) }
	var sh Shape = &p
	_, _, _, _, _, _, _, _, _, _, _, _, _ = a2, a3, a4, a5, b1, f0, fn, sh, s1, b0, arr, m, pp
	i0, i1 = lim(x), lim(z)
	if x > 0 && x < 6 {
		i2 = S13_f2(x-1, z+1)
	}
	b1 = ((i0 < 26 || b0) || (!(i0 <= i3) && len(s0) > p.a))
	i0 = i3
	out("S13_b1" + " " + itoa(i0) + "," + itoa(i1) + "," + itoa(i2) + " " + rtq(s0))
	getp(pp).a ^= 5
	pp.a = lim(pp.a)
	out("S13_calls " + itoa(cn))
	return lim(i0 + i1*3 + i2*5 + i3*7 + int(a0) + int(a1) + len(s0) + len(sl) + p.a)
}

func S13_main() {
	i0, i1, i2, i3 := 0, 1, 0, 7
	var a0 int8 = -2
	var a1 uint8 = 0
	var a2 int16 = 48
	var a3 uint32 = 2
	var a4 int64 = -8
	var a5 uint64 = 808
	s0, s1 := "go", "héllo"
	b0, b1 := true, false
	f0 := 0.25
	sl := []int{0, 2, 3}
	arr := [4]int{1, 0, 3, 4}
	m := map[string]int{"k": 0, "a": 1}
	p := P{a: 0, b: "pb"}
	pp := &P{a: 1}
	fn := func(v int) int { return lim(v*3 + 1) }
	var sh Shape = pp
	_, _, _, _, _, _, _, _, _, _, _, _, _ = a2, a3, a4, a5, b1, f0, fn, sh, s1, b0, arr, m, pp
	a4 = int64(i1) * 4294967297
	a5 = uint64(a4) >> 4
	a0, a1, a2 = int8(a4), uint8(a5), int16(a4>>0)
	f0 = fclamp(f0*-0.75 + float64(0)/5.0)
	out("S13_b36" + " " + itoa(i0) + "," + itoa(i1) + "," + itoa(i2) + " " + rtq(s0))
	for k, v := range []interface{}{i0, s0, nil, f0, 7, "z", nil} {
		switch x := v.(type) {
		case int:
			if k%2 == 0 {
				break
			}
			i1 = lim(i1 + x)
		case string:
			i2 = lim(i2 + len(x))
		case nil:
			if k%2 == 1 {
				break
			}
			i2 = lim(i2 + 1000)
		default:
			if k%2 == 0 {
				break
			}
			i1 = lim(i1 - 3)
			_ = x
		}
		i3 = lim(i3 + k + 1)
	}
	for k, v := range []interface{}{i0, s0, nil, f0, 7, "z", nil} {
		switch v.(type) {
		case int:
			i1 = lim(i1 + 1)
		case string:
			i2 = lim(i2 + 1)
		case nil:
			i2 = lim(i2 + 1000)
		}
		i3 = lim(i3 + k + 1)
	}
	out("S13_b34" + " " + itoa(i0) + "," + itoa(i1) + "," + itoa(i2) + " " + rtq(s0))
	i2 = S13_f1(-19, i2)
	i1 = i3
	out("S13_b32" + " " + itoa(i0) + "," + itoa(i1) + "," + itoa(i2) + " " + rtq(s0))
	a5 |= a5
	i3 = (m["bc"] / 7)
	out("S13_b30" + " " + itoa(i0) + "," + itoa(i1) + "," + itoa(i2) + " " + rtq(s0))
	arr[1]++
	i0, i1 = lim(i0), lim(i1)
	p.b = cut(cut(s0 + string(rune('a' + ix(i0, 26)))) + s0)
	out("S13_b28" + " " + itoa(i0) + "," + itoa(i1) + "," + itoa(i2) + " " + rtq(s0))
	f0 = fclamp(f0*0.5 + float64(lim(lim(i3 + i3) + i0))/6.0)
	i1 = int((a2 ^ int16(120)))
	out("S13_b26" + " " + itoa(i0) + "," + itoa(i1) + "," + itoa(i2) + " " + rtq(s0))
	{
		acc := 0
		for k, v := range m {
			acc += len(k)*7 + v
		}
		i2 = lim(acc)
	}
	b1 = (((b0 || len(sl) >= i3) || b1) || (b1 && b1))
	out("S13_b24" + " " + itoa(i0) + "," + itoa(i1) + "," + itoa(i2) + " " + rtq(s0))
	{
		i0 := lim(i0 + 2)
		s0 := s0 + "~"
		p.b = p.b
		L1:
		for k, v := range sl[:ix(4, len(sl)+1)] {
			i3 = lim(i3 + k*v)
			a1++
			i0, i1 = lim(i0), lim(i1)
			if i3 == i0 {
				break
			}
			if i3 == -777777 {
				continue L1
			}
		}
		out("S13_b20" + " " + itoa(i0) + "," + itoa(i1) + "," + itoa(i2) + " " + rtq(s0))
		i3 = lim(i3 + i0 + len(s0))
	}
	{
		cp := p
		cp.a = lim(cp.a + 7)
		cp.c[1] = i0
		arr2 := arr
		arr2[0] = cp.a
		i3 = lim(p.a + cp.a + arr[0] + arr2[0] + p.c[1])
	}
	out("S13_b19" + " " + itoa(i0) + "," + itoa(i1) + "," + itoa(i2) + " " + rtq(s0))
	i2 = (-5 % 9)
	b0 = s0 >= cut(cut(s0 + s0) + s0)
	out("S13_b17" + " " + itoa(i0) + "," + itoa(i1) + "," + itoa(i2) + " " + rtq(s0))
	p.a++
	i0, i1 = lim(i0), lim(i1)
	b0 = b0
	out("S13_b15" + " " + itoa(i0) + "," + itoa(i1) + "," + itoa(i2) + " " + rtq(s0))
	{
		ch := make(chan int, 2)
		ch <- 5
		for k := 0; k < 4; k++ {
			select {
			case v := <-ch:
				i1 = lim(i1 + v)
				if k%2 == 1 {
						break
				}
				i1 = lim(i1 + 100)
			default:
				i2 = lim(i2 + 10)
			}
			i3 = lim(i3 + 1)
		}
	}
	i3 = m[sub(s0, arr[2])]
	out("S13_b13" + " " + itoa(i0) + "," + itoa(i1) + "," + itoa(i2) + " " + rtq(s0))
	i0 = (i3 ^ 20)
	i1 = arr[ix(len(s0), 4)]
	out("S13_b11" + " " + itoa(i0) + "," + itoa(i1) + "," + itoa(i2) + " " + rtq(s0))
	i0 = i2
	i3 = i0
	out("S13_b9" + " " + itoa(i0) + "," + itoa(i1) + "," + itoa(i2) + " " + rtq(s0))
	if v := lim(arr[ix(i3, 4)] + i1); v > 4 {
		out("S13_t7" + " " + itoa(i0) + "," + itoa(i1) + "," + itoa(i2) + " " + rtq(s0))
	} else if b0 {
		switch t := sh.(type) {
		case *P:
			i1 = lim(t.a + 1)
		case sq:
			i1 = int(t)
		}
		i2 = len(sl)
		out("S13_b5" + " " + itoa(i0) + "," + itoa(i1) + "," + itoa(i2) + " " + rtq(s0))
	}
	i0, i1, i2 = i2, i0, lim(i1+1)
	out("S13_b4" + " " + itoa(i0) + "," + itoa(i1) + "," + itoa(i2) + " " + rtq(s0))
	s1 = itoa(arr[3])
	i1 = P.sum(p, lim(len(s0) - i2))
	out("S13_b2" + " " + itoa(i0) + "," + itoa(i1) + "," + itoa(i2) + " " + rtq(s0))
	{
		ch := make(chan int, 2)
		ch <- 5
		for k := 0; k < 4; k++ {
			select {
			case v := <-ch:
				i1 = lim(i1 + v)
				i1 = lim(i1 + 100)
			default:
				if k%2 == 1 {
						break
				}
				i2 = lim(i2 + 10)
			}
			i3 = lim(i3 + 1)
		}
	}
	switch w := lim(i0 - len(s0)); lim(w + len(sl)) % 5 {
	case 1:
		if b1 {
			break
		}
		i1 = lim(i1 + 1)
	case -4, 6:
		if (-19 < arr[1] && i0 == i3) {
			break
		}
		i1 = lim(i1 + 1)
	}
	out("S13_b0" + " " + itoa(i0) + "," + itoa(i1) + "," + itoa(i2) + " " + rtq(s0))
	out("S13_ints " + itoa(i0) + "," + itoa(i1) + "," + itoa(i2) + "," + itoa(i3) + " " + itoa(int(a0)) + "," + itoa(int(a1)) + "," + itoa(int(a2)) + "," + u64toa(uint64(a3)) + "," + i64toa(a4) + "," + u64toa(a5))
	out("S13_strs " + rtq(s0) + " " + rtq(s1) + " " + btoa(b0) + btoa(b1) + " " + f64s(f0))
	fnResult := fn(1)
	shArea := sh.Area(2)
	out("S13_data " + itoa(len(sl)) + ":" + itoa(vsum(sl...)) + " " + itoa(vsum(arr[:]...)) + " " + itoa(len(m)) + ":" + itoa(m["k"]) + " " + itoa(p.a) + rtq(p.b) + itoa(p.c[0]+p.c[1]) + " " + itoa(pp.a) + " " + itoa(fnResult) + " " + sh.name() + itoa(shArea))
}

type S13_dead0 struct{ z int }

func (d S13_dead0) Area(k int) int { return d.z * k }
func (d S13_dead0) name() string { return "dead" }
func (d *S13_dead0) bump(k int) { d.z += k }

func S13_unused0(x int) int { return lim(x + 0) }

var S13_deadvar0 = 0

