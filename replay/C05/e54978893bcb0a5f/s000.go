package main

func S4_f0(x, z int) int {
	i0, i1, i2, i3 := 13, 27, -13, 7
	var a0 int8 = 5
	var a1 uint8 = 103
	var a2 int16 = -1
	var a3 uint32 = 6
	var a4 int64 = 469
	var a5 uint64 = 37
	s0, s1 := "abcdef", "héllo"
	b0, b1 := false, false
	f0 := 13.25
	sl := []int{13, 2, 3}
	arr := [4]int{1, 13, 3, 4}
	m := map[string]int{"k": 13, "a": 1}
	p := P{a: 13, b: "pb"}
	pp := &P{a: 1}
	fn := func(v int) int { return lim(v*3 + 1) }
	var sh Shape = pp
	_, _, _, _, _, _, _, _, _, _, _, _, _ = a2, a3, a4, a5, b1, f0, fn, sh, s1, b0, arr, m, pp
	i0, i1 = lim(x), lim(z)
	if x > 0 && x < 6 {
		i2 = S4_f0(x-1, z+1)
	}
	i0--
	i0, i1 = lim(i0), lim(i1)
	b0 = (int(s0[ix(len(s0), len(s0))]) == -20 || b1)
	out("S4_b0" + " " + itoa(i0) + "," + itoa(i1) + "," + itoa(i2) + " " + rtq(s0))
	return lim(i0 + i1*3 + i2*5 + i3*7 + int(a0) + int(a1) + len(s0) + len(sl) + p.a)
}

func S4_main() {
	i0, i1, i2, i3 := 30, 61, -30, 7
	var a0 int8 = 58
	var a1 uint8 = 0
	var a2 int16 = 0
	var a3 uint32 = 641231496
	var a4 int64 = 311
	var a5 uint64 = 7
	s0, s1 := "go", "go"
	b0, b1 := true, false
	f0 := 30.25
	sl := []int{30, 2, 3}
	arr := [4]int{1, 30, 3, 4}
	m := map[string]int{"k": 30, "a": 1}
	p := P{a: 30, b: "pb"}
	pp := &P{a: 1}
	fn := func(v int) int { return lim(v*3 + 1) }
	var sh Shape = pp
	_, _, _, _, _, _, _, _, _, _, _, _, _ = a2, a3, a4, a5, b1, f0, fn, sh, s1, b0, arr, m, pp
	b0 = sub(cut(s0 + p.b), i3) == itoa(i1)
	for k, v := range []interface{}{i0, s0, nil, f0, 7, "z", nil} {
		switch v.(type) {
		case int:
			i1 = lim(i1 + 1)
		case string:
			if k%2 == 0 {
				break
			}
			i2 = lim(i2 + 1)
		case nil:
			i2 = lim(i2 + 1000)
		default:
			if k%2 == 0 {
				break
			}
			i1 = lim(i1 - 3)
		}
		i3 = lim(i3 + k + 1)
	}
	out("S4_b4" + " " + itoa(i0) + "," + itoa(i1) + "," + itoa(i2) + " " + rtq(s0))
	i0 = fn(sl[ix(len(s0), len(sl))])
	for k, v := range []interface{}{i0, s0, nil, f0, 7, "z", nil} {
		switch x := v.(type) {
		case int:
			i1 = lim(i1 + x)
		case string:
			i2 = lim(i2 + len(x))
		case nil:
			if k%2 == 0 {
				break
			}
			i2 = lim(i2 + 1000)
		default:
			i1 = lim(i1 - 3)
			_ = x
		}
		i3 = lim(i3 + k + 1)
	}
	out("S4_b2" + " " + itoa(i0) + "," + itoa(i1) + "," + itoa(i2) + " " + rtq(s0))
	f0 = fclamp(f0*1.25 + float64(i3)/6.0)
	{
		ch := make(chan int, 2)
		ch <- 5
		for k := 0; k < 4; k++ {
			select {
			case v := <-ch:
				i1 = lim(i1 + v)
				i1 = lim(i1 + 100)
			default:
				i2 = lim(i2 + 10)
			}
			i3 = lim(i3 + 1)
		}
	}
	out("S4_b0" + " " + itoa(i0) + "," + itoa(i1) + "," + itoa(i2) + " " + rtq(s0))
	out("S4_ints " + itoa(i0) + "," + itoa(i1) + "," + itoa(i2) + "," + itoa(i3) + " " + itoa(int(a0)) + "," + itoa(int(a1)) + "," + itoa(int(a2)) + "," + u64toa(uint64(a3)) + "," + i64toa(a4) + "," + u64toa(a5))
	out("S4_strs " + rtq(s0) + " " + rtq(s1) + " " + btoa(b0) + btoa(b1) + " " + f64s(f0))
	fnResult := fn(1)
	shArea := sh.Area(2)
	out("S4_data " + itoa(len(sl)) + ":" + itoa(vsum(sl...)) + " " + itoa(vsum(arr[:]...)) + " " + itoa(len(m)) + ":" + itoa(m["k"]) + " " + itoa(p.a) + rtq(p.b) + itoa(p.c[0]+p.c[1]) + " " + itoa(pp.a) + " " + itoa(fnResult) + " " + sh.name() + itoa(shArea))
	sl[len(sl)+ix(i0, 3)] = 1
}

type S4_dead0 struct{ z int }

func (d S4_dead0) Area(k int) int { return d.z * k }
func (d S4_dead0) name() string { return "dead" }
func (d *S4_dead0) bump(k int) { d.z += k }

func S4_unused0(x int) int { return lim(x + 0) }

var S4_deadvar0 = 0

