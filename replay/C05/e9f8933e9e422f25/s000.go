package main

func S9_f0(x, z int) int {
	i0, i1, i2, i3 := 12, 25, -12, 7
	var a0 int8 = 17
	var a1 uint8 = 179
	var a2 int16 = -8
	var a3 uint32 = 0
	var a4 int64 = 909851594
	var a5 uint64 = 22532
	s0, s1 := "abcdef", "go"
	b0, b1 := true, false
	f0 := 12.25
	sl := []int{12, 2, 3}
	arr := [4]int{1, 12, 3, 4}
	m := map[string]int{"k": 12, "a": 1}
	p := P{a: 12, b: "pb"}
	pp := &P{a: 1}
	fn := func(v int) int { return lim(v*3 + 1) }
	var sh Shape = pp
	_, _, _, _, _, _, _, _, _, _, _, _, _ = a2, a3, a4, a5, b1, f0, fn, sh, s1, b0, arr, m, pp
	i0, i1 = lim(x), lim(z)
	if x > 0 && x < 6 {
		i2 = S9_f0(x-1, z+1)
	}
	i0, i1, i2 = i2, i0, lim(i1+1)
	i0 = i1
	out("S9_b1" + " " + itoa(i0) + "," + itoa(i1) + "," + itoa(i2) + " " + rtq(s0))
	p.a--
	i0, i1 = lim(i0), lim(i1)
	return lim(i0 + i1*3 + i2*5 + i3*7 + int(a0) + int(a1) + len(s0) + len(sl) + p.a)
}

func S9_f1(x, z int) int {
	i0, i1, i2, i3 := 38, 77, -38, 7
	var a0 int8 = -100
	var a1 uint8 = 19
	var a2 int16 = -49
	var a3 uint32 = 340848
	var a4 int64 = 119
	var a5 uint64 = 190665
	s0, s1 := "go", "héllo"
	b0, b1 := true, false
	f0 := 38.25
	sl := []int{38, 2, 3}
	arr := [4]int{1, 38, 3, 4}
	m := map[string]int{"k": 38, "a": 1}
	p := P{a: 38, b: "pb"}
	pp := &P{a: 1}
	fn := func(v int) int { return lim(v*3 + 1) }
	var sh Shape = sq(3)
	_, _, _, _, _, _, _, _, _, _, _, _, _ = a2, a3, a4, a5, b1, f0, fn, sh, s1, b0, arr, m, pp
	i0, i1 = lim(x), lim(z)
	if x > 0 && x < 6 {
		i2 = S9_f1(x-1, z+1)
	}
	i0 = i0
	for k, v := range sl[:ix(2, len(sl)+1)] {
		i3 = lim(i3 + k*v)
		out("S9_t4" + " " + itoa(i0) + "," + itoa(i1) + "," + itoa(i2) + " " + rtq(s0))
		i2 = lim(int(s0[ix((22 ^ 1), len(s0))]) + len(s0))
		out("S9_b3" + " " + itoa(i0) + "," + itoa(i1) + "," + itoa(i2) + " " + rtq(s0))
	}
	out("S9_b3" + " " + itoa(i0) + "," + itoa(i1) + "," + itoa(i2) + " " + rtq(s0))
	a4 = int64(i0) * 4294967297
	a5 = uint64(a4) >> 21
	a0, a1, a2 = int8(a4), uint8(a5), int16(a4>>11)
	if (((a1 ^ uint8(1)) < ((a1 ^ uint8(3)) >> 9)) || ((b1 && b1) && !(b0))) {
		{
			cl := func(d int) int {
				i0 = lim(i0 + d)
				return lim(i0 * 2)
			}
			i1 = cl(i1)
			fn = cl
		}
	} else if itoa(i0) >= s0 {
	}
	out("S9_b0" + " " + itoa(i0) + "," + itoa(i1) + "," + itoa(i2) + " " + rtq(s0))
	return lim(i0 + i1*3 + i2*5 + i3*7 + int(a0) + int(a1) + len(s0) + len(sl) + p.a)
}

func S9_main() {
	i0, i1, i2, i3 := 7, 15, -7, 7
	var a0 int8 = -37
	var a1 uint8 = 150
	var a2 int16 = -1
	var a3 uint32 = 11
	var a4 int64 = -11
	var a5 uint64 = 4
	s0, s1 := "héllo", "abcdef"
	b0, b1 := false, false
	f0 := 7.25
	sl := []int{7, 2, 3}
	arr := [4]int{1, 7, 3, 4}
	m := map[string]int{"k": 7, "a": 1}
	p := P{a: 7, b: "pb"}
	pp := &P{a: 1}
	fn := func(v int) int { return lim(v*3 + 1) }
	var sh Shape = &p
	_, _, _, _, _, _, _, _, _, _, _, _, _ = a2, a3, a4, a5, b1, f0, fn, sh, s1, b0, arr, m, pp
	switch sl[ix(arr[3], len(sl))] % 5 {
	case -2:
		a4 = int64(i0) * 4294967297
		a5 = uint64(a4) >> 23
		a0, a1, a2 = int8(a4), uint8(a5), int16(a4>>3)
		i2 = 97
		out("S9_b4" + " " + itoa(i0) + "," + itoa(i1) + "," + itoa(i2) + " " + rtq(s0))
	}
	if false {
		func() {
			defer func() {
				i1 = lim(i1 + 3)
				if r := recover(); r != nil {
					s1 = cut(s1 + "R")
				}
			}()
			{
				pr := gpair[string, int]{s0, i0}
				var e interface{} = pr
				if _, ok := e.(gpair[string, int]); ok {
					i3 = lim(i3 + 1)
				}
				if _, ok := e.(gpair[int, string]); ok {
					i3 = -1
				}
			}
			i2 = S9_f0(lim(i0 + i1), (len(sl) ^ 33))
			out("S9_b0" + " " + itoa(i0) + "," + itoa(i1) + "," + itoa(i2) + " " + rtq(s0))
		}()
	} else if p.b == cut(itoa(99) + s1) {
	} else {
	}
	out("S9_b0" + " " + itoa(i0) + "," + itoa(i1) + "," + itoa(i2) + " " + rtq(s0))
	out("S9_ints " + itoa(i0) + "," + itoa(i1) + "," + itoa(i2) + "," + itoa(i3) + " " + itoa(int(a0)) + "," + itoa(int(a1)) + "," + itoa(int(a2)) + "," + u64toa(uint64(a3)) + "," + i64toa(a4) + "," + u64toa(a5))
	out("S9_strs " + rtq(s0) + " " + rtq(s1) + " " + btoa(b0) + btoa(b1) + " " + f64s(f0))
	fnResult := fn(1)
	shArea := sh.Area(2)
	out("S9_data " + itoa(len(sl)) + ":" + itoa(vsum(sl...)) + " " + itoa(vsum(arr[:]...)) + " " + itoa(len(m)) + ":" + itoa(m["k"]) + " " + itoa(p.a) + rtq(p.b) + itoa(p.c[0]+p.c[1]) + " " + itoa(pp.a) + " " + itoa(fnResult) + " " + sh.name() + itoa(shArea))
	<-make(chan int)
}

type S9_dead0 struct{ z int }

func (d S9_dead0) Area(k int) int { return d.z * k }
func (d S9_dead0) name() string { return "dead" }
func (d *S9_dead0) bump(k int) { d.z += k }

func S9_unused0(x int) int { return lim(x + 0) }

var S9_deadvar0 = 0

