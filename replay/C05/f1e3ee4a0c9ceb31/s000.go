package main

func S14_main() {
	i0, i1, i2, i3 := 3, 7, -3, 7
	var a0 int8 = 100
	var a1 uint8 = 10
	var a2 int16 = -2
	var a3 uint32 = 10464
	var a4 int64 = 2051712
	var a5 uint64 = 432
	s0, s1 := "", "go"
	b0, b1 := false, false
	f0 := 3.25
	sl := []int{3, 2, 3}
	arr := [4]int{1, 3, 3, 4}
	m := map[string]int{"k": 3, "a": 1}
	p := P{a: 3, b: "pb"}
	pp := &P{a: 1}
	fn := func(v int) int { return lim(v*3 + 1) }
	var sh Shape = pp
	_, _, _, _, _, _, _, _, _, _, _, _, _ = a2, a3, a4, a5, b1, f0, fn, sh, s1, b0, arr, m, pp
	if v := i3; v > 8 {
		b0 = (((b1 && -20 != arr[0]) || -11 != p.a) && cut("a" + "é") < string(rune('a' + ix(i2, 26))))
		for k, v := range []interface{}{i0, s0, nil, f0, 7, "z", nil} {
			switch x := v.(type) {
			case int:
				if k%2 == 1 {
					break
				}
				i1 = lim(i1 + x)
			case string:
				i2 = lim(i2 + len(x))
			case nil:
				i2 = lim(i2 + 1000)
			default:
				i1 = lim(i1 - 3)
				_ = x
			}
			i3 = lim(i3 + k + 1)
		}
		out("S14_b24" + " " + itoa(i0) + "," + itoa(i1) + "," + itoa(i2) + " " + rtq(s0))
	}
	if i2 <= i2 {
		for k, v := range []interface{}{i0, s0, nil, f0, 7, "z", nil} {
			switch v.(type) {
			case int:
				i1 = lim(i1 + 1)
			case string:
				if k%2 == 1 {
					break
				}
				i2 = lim(i2 + 1)
			case nil:
				i2 = lim(i2 + 1000)
			default:
				if k%2 == 0 {
					break
				}
				i1 = lim(i1 - 3)
			}
			i3 = lim(i3 + k + 1)
		}
		s0 = "bc"
		out("S14_b21" + " " + itoa(i0) + "," + itoa(i1) + "," + itoa(i2) + " " + rtq(s0))
		b1 = ((a1 ^ uint8(40)) < a1)
	} else {
		i2 = vsum(int(s0[ix(i0, len(s0))]), lim(i1 - i0))
		i2 = lim(i2 + vsum(sl...) + vsum())
	}
	out("S14_b19" + " " + itoa(i0) + "," + itoa(i1) + "," + itoa(i2) + " " + rtq(s0))
	if (b1 && ((arr[1] <= i1 && b0) && !(i3 <= i3))) {
		{
			cp := p
			cp.a = lim(cp.a + 7)
			cp.c[1] = i0
			arr2 := arr
			arr2[0] = cp.a
			i3 = lim(p.a + cp.a + arr[0] + arr2[0] + p.c[1])
		}
		p.a++
		i0, i1 = lim(i0), lim(i1)
		out("S14_b16" + " " + itoa(i0) + "," + itoa(i1) + "," + itoa(i2) + " " + rtq(s0))
		i3 = arr[ix(i1, 4)]
	} else if b0 {
		m[p.b] = lim(lim(len(s0) + p.a) + lim(i0 + i1))
		switch int(s0[ix(p.a, len(s0))]) % 5 {
		case -4, 6:
			L1:
			for k, r := range sub(s0, 4) {
				i3 = lim(i3 + k + int(r))
				f0 = fclamp(f0*3 + float64((i0 & 176))/7.0)
				s0 = itoa((i1 / 7))
				out("S14_b10" + " " + itoa(i0) + "," + itoa(i1) + "," + itoa(i2) + " " + rtq(s0))
				if i3 == -777777 {
					continue L1
				}
			}
		case -3:
			b0 = (p.a / 3) > len(s0)
		default:
			{
				ch := make(chan int, 2)
				ch <- 5
				for k := 0; k < 4; k++ {
					select {
					case v := <-ch:
						i1 = lim(i1 + v)
						i1 = lim(i1 + 100)
					default:
							if k%2 == 0 {
									break
							}
						i2 = lim(i2 + 10)
					}
					i3 = lim(i3 + 1)
				}
			}
		}
		out("S14_b8" + " " + itoa(i0) + "," + itoa(i1) + "," + itoa(i2) + " " + rtq(s0))
	} else if !((b0 || true)) {
		for k, v := range []interface{}{i0, s0, nil, f0, 7, "z", nil} {
			switch x := v.(type) {
			case int:
				i1 = lim(i1 + x)
			case string:
				i2 = lim(i2 + len(x))
			case nil:
				i2 = lim(i2 + 1000)
			default:
				if k%2 == 1 {
					break
				}
				i1 = lim(i1 - 3)
				_ = x
			}
			i3 = lim(i3 + k + 1)
		}
		i3 = lim(m[itoa(i2)] + len(s0))
		out("S14_b6" + " " + itoa(i0) + "," + itoa(i1) + "," + itoa(i2) + " " + rtq(s0))
	}
	arr[1]--
	i0, i1 = lim(i0), lim(i1)
	out("S14_b5" + " " + itoa(i0) + "," + itoa(i1) + "," + itoa(i2) + " " + rtq(s0))
	for c := 4; c > 0; c-- {
		i2 = lim(i2 + c)
		if v := arr[0]; v > -1 {
			if i0 != i3 {
				goto G2
			}
			i2 = lim(i2 + 5)
			G2:
			i2 = lim(i2 + 1)
		} else if i1 > arr[3] {
			i1 = len(sl)
		} else {
			i1 = p.sum(sl[ix(i3, len(sl))])
		}
	}
	out("S14_ints " + itoa(i0) + "," + itoa(i1) + "," + itoa(i2) + "," + itoa(i3) + " " + itoa(int(a0)) + "," + itoa(int(a1)) + "," + itoa(int(a2)) + "," + u64toa(uint64(a3)) + "," + i64toa(a4) + "," + u64toa(a5))
	out("S14_strs " + rtq(s0) + " " + rtq(s1) + " " + btoa(b0) + btoa(b1) + " " + f64s(f0))
	fnResult := fn(1)
	shArea := sh.Area(2)
	out("S14_data " + itoa(len(sl)) + ":" + itoa(vsum(sl...)) + " " + itoa(vsum(arr[:]...)) + " " + itoa(len(m)) + ":" + itoa(m["k"]) + " " + itoa(p.a) + rtq(p.b) + itoa(p.c[0]+p.c[1]) + " " + itoa(pp.a) + " " + itoa(fnResult) + " " + sh.name() + itoa(shArea))
}

type S14_dead0 struct{ z int }

func (d S14_dead0) Area(k int) int { return d.z * k }
func (d S14_dead0) name() string { return "dead" }
func (d *S14_dead0) bump(k int) { d.z += k }

func S14_unused0(x int) int { return lim(x + 0) }

var S14_deadvar0 = 0

