package main

func S10_f0(x, z int) int {
	i0, i1, i2, i3 := 32, 65, -32, 7
	var a0 int8 = 1
	var a1 uint8 = 63
	var a2 int16 = 60
	var a3 uint32 = 11263
	var a4 int64 = 0
	var a5 uint64 = 41
	s0, s1 := "héllo", "héllo"
	b0, b1 := true, false
	f0 := 32.25
	sl := []int{32, 2, 3}
	arr := [4]int{1, 32, 3, 4}
	m := map[string]int{"k": 32, "a": 1}
	p := P{a: 32, b: "pb"}
	pp := &P{a: 1}
	fn := func(v int) int { return lim(v*3 + 1) }
	var sh Shape = pp
	_, _, _, _, _, _, _, _, _, _, _, _, _ = a2, a3, a4, a5, b1, f0, fn, sh, s1, b0, arr, m, pp
	i0, i1 = lim(x), lim(z)
	if x > 0 && x < 6 {
		i2 = S10_f0(x-1, z+1)
	}
	out("S10_t6" + " " + itoa(i0) + "," + itoa(i1) + "," + itoa(i2) + " " + rtq(s0))
	f0 = fclamp(f0*3 + float64(len(sl))/1.0)
	out("S10_b5" + " " + itoa(i0) + "," + itoa(i1) + "," + itoa(i2) + " " + rtq(s0))
	for k, v := range sl[:ix(4, len(sl)+1)] {
		i3 = lim(i3 + k*v)
		switch {
		case ((a1 ^ uint8(0)) < a1):
			for k, v := range []interface{}{i0, s0, nil, f0, 7, "z", nil} {
				switch v.(type) {
				case int:
					if k%2 == 0 {
						break
					}
					i1 = lim(i1 + 1)
				case string:
					i2 = lim(i2 + 1)
				case nil:
					i2 = lim(i2 + 1000)
				default:
					i1 = lim(i1 - 3)
				}
				i3 = lim(i3 + k + 1)
			}
			if len(sl) > 0 {
				sl[nx(len(sl))] |= 1
				sl[0] = lim(sl[0])
			}
			out("S10_calls " + itoa(cn))
			out("S10_b1" + " " + itoa(i0) + "," + itoa(i1) + "," + itoa(i2) + " " + rtq(s0))
		case ((b1 && i0 > i1) || len(sl) == p.a):
			{
				cl := func(d int) int {
					i0 = lim(i0 + d)
					return lim(i0 * 2)
				}
				i1 = cl(lim(arr[1] * len(s0)))
				fn = cl
			}
		case (i1 >= p.a && p.a >= i1):
		default:
		}
	}
	return lim(i0 + i1*3 + i2*5 + i3*7 + int(a0) + int(a1) + len(s0) + len(sl) + p.a)
}

func S10_f1(x, z int) int {
	i0, i1, i2, i3 := 16, 33, -16, 7
	var a0 int8 = 66
	var a1 uint8 = 0
	var a2 int16 = 35
	var a3 uint32 = 2125
	var a4 int64 = -346370339
	var a5 uint64 = 155
	s0, s1 := "", "héllo"
	b0, b1 := true, false
	f0 := 16.25
	sl := []int{16, 2, 3}
	arr := [4]int{1, 16, 3, 4}
	m := map[string]int{"k": 16, "a": 1}
	p := P{a: 16, b: "pb"}
	pp := &P{a: 1}
	fn := func(v int) int { return lim(v*3 + 1) }
	var sh Shape = pp
	_, _, _, _, _, _, _, _, _, _, _, _, _ = a2, a3, a4, a5, b1, f0, fn, sh, s1, b0, arr, m, pp
	i0, i1 = lim(x), lim(z)
	if x > 0 && x < 6 {
		i2 = S10_f1(x-1, z+1)
	}
	i2 = vsum(i0, lim(13 + arr[1]))
	i2 = lim(i2 + vsum(sl...) + vsum())
	a0 &= (a0 >> 0)
	out("S10_b8" + " " + itoa(i0) + "," + itoa(i1) + "," + itoa(i2) + " " + rtq(s0))
	{
		acc := 0
		for k, v := range m {
			acc += len(k)*7 + v
		}
		i2 = lim(acc)
	}
	a1 |= ((a1 >> 1) >> 5)
	out("S10_b6" + " " + itoa(i0) + "," + itoa(i1) + "," + itoa(i2) + " " + rtq(s0))
	{
		ch := make(chan int, 2)
		ch <- 5
		for k := 0; k < 4; k++ {
			select {
			case v := <-ch:
				i1 = lim(i1 + v)
				if k%2 == 0 {
						break
				}
				i1 = lim(i1 + 100)
			default:
				i2 = lim(i2 + 10)
			}
			i3 = lim(i3 + 1)
		}
	}
	i1 = i0
	out("S10_b4" + " " + itoa(i0) + "," + itoa(i1) + "," + itoa(i2) + " " + rtq(s0))
	func() {
		defer func() {
			i1 = lim(i1 + 3)
			if r := recover(); r != nil {
				s1 = cut(s1 + "R")
			}
		}()
		i0, i1, i2 = i2, i0, lim(i1+1)
		p.b = cut(itoa(i3) + itoa(arr[2]))
		out("S10_b1" + " " + itoa(i0) + "," + itoa(i1) + "," + itoa(i2) + " " + rtq(s0))
	}()
	if (arr[1] <= i3 && s1 < sub(itoa(-3), i0)) {
	} else if "" != cut("k" + itoa(len(s0))) {
	}
	out("S10_b0" + " " + itoa(i0) + "," + itoa(i1) + "," + itoa(i2) + " " + rtq(s0))
	return lim(i0 + i1*3 + i2*5 + i3*7 + int(a0) + int(a1) + len(s0) + len(sl) + p.a)
}

func S10_main() {
	i0, i1, i2, i3 := 39, 79, -39, 7
	var a0 int8 = -91
	var a1 uint8 = 20
	var a2 int16 = 1
	var a3 uint32 = 6
	var a4 int64 = -2589
	var a5 uint64 = 6
	s0, s1 := "", "héllo"
	b0, b1 := false, false
	f0 := 39.25
	sl := []int{39, 2, 3}
	arr := [4]int{1, 39, 3, 4}
	m := map[string]int{"k": 39, "a": 1}
	p := P{a: 39, b: "pb"}
	pp := &P{a: 1}
	fn := func(v int) int { return lim(v*3 + 1) }
	var sh Shape = pp
	_, _, _, _, _, _, _, _, _, _, _, _, _ = a2, a3, a4, a5, b1, f0, fn, sh, s1, b0, arr, m, pp
	f0 = fclamp(f0*0.5 + float64(i3)/4.0)
	i0, i1, i2 = i2, i0, lim(i1+1)
	out("S10_b14" + " " + itoa(i0) + "," + itoa(i1) + "," + itoa(i2) + " " + rtq(s0))
	i2 = len(sl)
	a3--
	i0, i1 = lim(i0), lim(i1)
	out("S10_b12" + " " + itoa(i0) + "," + itoa(i1) + "," + itoa(i2) + " " + rtq(s0))
	s1 = p.b
	{
		acc := 0
		for k, v := range m {
			acc += len(k)*7 + v
		}
		i2 = lim(acc)
	}
	out("S10_b10" + " " + itoa(i0) + "," + itoa(i1) + "," + itoa(i2) + " " + rtq(s0))
	a4 = int64(lim(arr[0] - len(sl))) * 4294967297
	a5 = uint64(a4) >> 3
	a0, a1, a2 = int8(a4), uint8(a5), int16(a4>>1)
	i1 = ((i2 / 1) % 1)
	out("S10_b8" + " " + itoa(i0) + "," + itoa(i1) + "," + itoa(i2) + " " + rtq(s0))
	switch {
	case lim(-len(sl)) != (len(sl) / 1):
		a3 |= uint32(a0)
	}
	if true {
		i3 = i3
		i0 = p.a
		out("S10_b3" + " " + itoa(i0) + "," + itoa(i1) + "," + itoa(i2) + " " + rtq(s0))
		s0 = string(rune('a' + ix(i2, 26)))
	} else if (!(i1 < len(s0)) || (b1 && false)) {
		a1 ^= ((a1 >> 1) >> 1)
	} else if false {
		a2 -= (a2 ^ int16(26))
	}
	out("S10_b0" + " " + itoa(i0) + "," + itoa(i1) + "," + itoa(i2) + " " + rtq(s0))
	out("S10_ints " + itoa(i0) + "," + itoa(i1) + "," + itoa(i2) + "," + itoa(i3) + " " + itoa(int(a0)) + "," + itoa(int(a1)) + "," + itoa(int(a2)) + "," + u64toa(uint64(a3)) + "," + i64toa(a4) + "," + u64toa(a5))
	out("S10_strs " + rtq(s0) + " " + rtq(s1) + " " + btoa(b0) + btoa(b1) + " " + f64s(f0))
	fnResult := fn(1)
	shArea := sh.Area(2)
	out("S10_data " + itoa(len(sl)) + ":" + itoa(vsum(sl...)) + " " + itoa(vsum(arr[:]...)) + " " + itoa(len(m)) + ":" + itoa(m["k"]) + " " + itoa(p.a) + rtq(p.b) + itoa(p.c[0]+p.c[1]) + " " + itoa(pp.a) + " " + itoa(fnResult) + " " + sh.name() + itoa(shArea))
}

type S10_dead0 struct{ z int }

func (d S10_dead0) Area(k int) int { return d.z * k }
func (d S10_dead0) name() string { return "dead" }
func (d *S10_dead0) bump(k int) { d.z += k }

func S10_unused0(x int) int { return lim(x + 0) }

var S10_deadvar0 = 0

