package main

func S1_main() {
	i0, i1, i2, i3 := 6, 13, -6, 7
	var a0 int8 = -2
	var a1 uint8 = 5
	var a2 int16 = 3
	var a3 uint32 = 42902867
	var a4 int64 = 14
	var a5 uint64 = 1
	s0, s1 := "", ""
	b0, b1 := true, false
	f0 := 6.25
	sl := []int{6, 2, 3}
	arr := [4]int{1, 6, 3, 4}
	m := map[string]int{"k": 6, "a": 1}
	p := P{a: 6, b: "pb"}
	pp := &P{a: 1}
	fn := func(v int) int { return lim(v*3 + 1) }
	var sh Shape = pp
	_, _, _, _, _, _, _, _, _, _, _, _, _ = a2, a3, a4, a5, b1, f0, fn, sh, s1, b0, arr, m, pp
	i2 = int(a0)
	a4 = int64(i0) * 4294967297
	a5 = uint64(a4) >> 3
	a0, a1, a2 = int8(a4), uint8(a5), int16(a4>>9)
	out("S1_b2" + " " + itoa(i0) + "," + itoa(i1) + "," + itoa(i2) + " " + rtq(s0))
	p.b = itoa(lim(i1 + (i1 / 5)))
	b1 = i3 < i0
	out("S1_b0" + " " + itoa(i0) + "," + itoa(i1) + "," + itoa(i2) + " " + rtq(s0))
	out("S1_ints " + itoa(i0) + "," + itoa(i1) + "," + itoa(i2) + "," + itoa(i3) + " " + itoa(int(a0)) + "," + itoa(int(a1)) + "," + itoa(int(a2)) + "," + u64toa(uint64(a3)) + "," + i64toa(a4) + "," + u64toa(a5))
	out("S1_strs " + rtq(s0) + " " + rtq(s1) + " " + btoa(b0) + btoa(b1) + " " + f64s(f0))
	fnResult := fn(1)
	shArea := sh.Area(2)
	out("S1_data " + itoa(len(sl)) + ":" + itoa(vsum(sl...)) + " " + itoa(vsum(arr[:]...)) + " " + itoa(len(m)) + ":" + itoa(m["k"]) + " " + itoa(p.a) + rtq(p.b) + itoa(p.c[0]+p.c[1]) + " " + itoa(pp.a) + " " + itoa(fnResult) + " " + sh.name() + itoa(shArea))
}

type S1_dead0 struct{ z int }

func (d S1_dead0) Area(k int) int { return d.z * k }
func (d S1_dead0) name() string { return "dead" }
func (d *S1_dead0) bump(k int) { d.z += k }

func S1_unused0(x int) int { return lim(x + 0) }

var S1_deadvar0 = 0

type S1_dead1 struct{ z int }

func (d S1_dead1) Area(k int) int { return d.z * k }
func (d S1_dead1) name() string { return "dead" }
func (d *S1_dead1) bump(k int) { d.z += k }

func S1_unused1(x int) int { return lim(x + 1) }

var S1_deadvar1 = 1

type S1_dead2 struct{ z int }

func (d S1_dead2) Area(k int) int { return d.z * k }
func (d S1_dead2) name() string { return "dead" }
func (d *S1_dead2) bump(k int) { d.z += k }

func S1_unused2(x int) int { return lim(x + 2) }

var S1_deadvar2 = 2

