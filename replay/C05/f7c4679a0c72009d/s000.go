package main

func S2_f0(x, z int) int {
	i0, i1, i2, i3 := 14, 29, -14, 7
	var a0 int8 = 9
	var a1 uint8 = 5
	var a2 int16 = -1
	var a3 uint32 = 993
	var a4 int64 = 154
	var a5 uint64 = 20108964
	s0, s1 := "héllo", "abcdef"
	b0, b1 := true, false
	f0 := 14.25
	sl := []int{14, 2, 3}
	arr := [4]int{1, 14, 3, 4}
	m := map[string]int{"k": 14, "a": 1}
	p := P{a: 14, b: "pb"}
	pp := &P{a: 1}
	fn := func(v int) int { return lim(v*3 + 1) }
	var sh Shape = sq(3)
	_, _, _, _, _, _, _, _, _, _, _, _, _ = a2, a3, a4, a5, b1, f0, fn, sh, s1, b0, arr, m, pp
	i0, i1 = lim(x), lim(z)
	if x > 0 && x < 6 {
		i2 = S2_f0(x-1, z+1)
	}
	f0 = fclamp(f0*3 + float64(int(((a2 ^ int16(59)) * a2)))/5.0)
	i1 = i3
	out("S2_b1" + " " + itoa(i0) + "," + itoa(i1) + "," + itoa(i2) + " " + rtq(s0))
	b1 = cut(s1 + itoa(i1)) != p.b
	return lim(i0 + i1*3 + i2*5 + i3*7 + int(a0) + int(a1) + len(s0) + len(sl) + p.a)
}

func S2_f1(x, z int) int {
	i0, i1, i2, i3 := 0, 1, 0, 7
	var a0 int8 = 18
	var a1 uint8 = 6
	var a2 int16 = 3
	var a3 uint32 = 1544
	var a4 int64 = 42
	var a5 uint64 = 2035
	s0, s1 := "go", "héllo"
	b0, b1 := true, false
	f0 := 0.25
	sl := []int{0, 2, 3}
	arr := [4]int{1, 0, 3, 4}
	m := map[string]int{"k": 0, "a": 1}
	p := P{a: 0, b: "pb"}
	pp := &P{a: 1}
	fn := func(v int) int { return lim(v*3 + 1) }
	var sh Shape = &p
	_, _, _, _, _, _, _, _, _, _, _, _, _ = a2, a3, a4, a5, b1, f0, fn, sh, s1, b0, arr, m, pp
	i0, i1 = lim(x), lim(z)
	if x > 0 && x < 6 {
		i2 = S2_f1(x-1, z+1)
	}
	func() {
		defer func() {
			i1 = lim(i1 + 3)
			if r := recover(); r != nil {
				s1 = cut(s1 + "R")
			}
		}()
		a1 *= (a1 ^ uint8(93))
		f0 = fclamp(f0*-0.75 + float64((p.a / 3))/2.0)
		out("S2_b1" + " " + itoa(i0) + "," + itoa(i1) + "," + itoa(i2) + " " + rtq(s0))
		if b1 {
			panic("inner")
		}
	}()
	out("S2_t0" + " " + itoa(i0) + "," + itoa(i1) + "," + itoa(i2) + " " + rtq(s0))
	out("S2_b0" + " " + itoa(i0) + "," + itoa(i1) + "," + itoa(i2) + " " + rtq(s0))
	return lim(i0 + i1*3 + i2*5 + i3*7 + int(a0) + int(a1) + len(s0) + len(sl) + p.a)
}

func S2_main() {
	i0, i1, i2, i3 := 0, 1, 0, 7
	var a0 int8 = -2
	var a1 uint8 = 187
	var a2 int16 = 6
	var a3 uint32 = 0
	var a4 int64 = -3260
	var a5 uint64 = 1073741824
	s0, s1 := "go", "abcdef"
	b0, b1 := true, false
	f0 := 0.25
	sl := []int{0, 2, 3}
	arr := [4]int{1, 0, 3, 4}
	m := map[string]int{"k": 0, "a": 1}
	p := P{a: 0, b: "pb"}
	pp := &P{a: 1}
	fn := func(v int) int { return lim(v*3 + 1) }
	var sh Shape = &p
	_, _, _, _, _, _, _, _, _, _, _, _, _ = a2, a3, a4, a5, b1, f0, fn, sh, s1, b0, arr, m, pp
	i3 = (lim(lim(len(s0) + -2) - -2) ^ 16)
	if (len(sl) != arr[2] || b0) {
		goto G1
	}
	i2 = lim(i2 + 5)
	G1:
	i2 = lim(i2 + 1)
	out("S2_b2" + " " + itoa(i0) + "," + itoa(i1) + "," + itoa(i2) + " " + rtq(s0))
	b1 = len(s0) <= i0
	if arr[1] > i0 {
		goto G2
	}
	i2 = lim(i2 + 5)
	G2:
	i2 = lim(i2 + 1)
	out("S2_b0" + " " + itoa(i0) + "," + itoa(i1) + "," + itoa(i2) + " " + rtq(s0))
	out("S2_ints " + itoa(i0) + "," + itoa(i1) + "," + itoa(i2) + "," + itoa(i3) + " " + itoa(int(a0)) + "," + itoa(int(a1)) + "," + itoa(int(a2)) + "," + u64toa(uint64(a3)) + "," + i64toa(a4) + "," + u64toa(a5))
	out("S2_strs " + rtq(s0) + " " + rtq(s1) + " " + btoa(b0) + btoa(b1) + " " + f64s(f0))
	fnResult := fn(1)
	shArea := sh.Area(2)
	out("S2_data " + itoa(len(sl)) + ":" + itoa(vsum(sl...)) + " " + itoa(vsum(arr[:]...)) + " " + itoa(len(m)) + ":" + itoa(m["k"]) + " " + itoa(p.a) + rtq(p.b) + itoa(p.c[0]+p.c[1]) + " " + itoa(pp.a) + " " + itoa(fnResult) + " " + sh.name() + itoa(shArea))
	panic(scenarioErr{i0})
}

type S2_dead0 struct{ z int }

func (d S2_dead0) Area(k int) int { return d.z * k }
func (d S2_dead0) name() string { return "dead" }
func (d *S2_dead0) bump(k int) { d.z += k }

func S2_unused0(x int) int { return lim(x + 0) }

var S2_deadvar0 = 0

type S2_dead1 struct{ z int }

func (d S2_dead1) Area(k int) int { return d.z * k }
func (d S2_dead1) name() string { return "dead" }
func (d *S2_dead1) bump(k int) { d.z += k }

func S2_unused1(x int) int { return lim(x + 1) }

var S2_deadvar1 = 1

