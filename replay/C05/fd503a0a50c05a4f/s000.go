package main

func S6_main() {
	i0, i1, i2, i3 := 6, 13, -6, 7
	var a0 int8 = 76
	var a1 uint8 = 2
	var a2 int16 = -126
	var a3 uint32 = 1872
	var a4 int64 = -2
	var a5 uint64 = 2417044
	s0, s1 := "", "go"
	b0, b1 := true, false
	f0 := 6.25
	sl := []int{6, 2, 3}
	arr := [4]int{1, 6, 3, 4}
	m := map[string]int{"k": 6, "a": 1}
	p := P{a: 6, b: "pb"}
	pp := &P{a: 1}
	fn := func(v int) int { return lim(v*3 + 1) }
	var sh Shape = &p
	_, _, _, _, _, _, _, _, _, _, _, _, _ = a2, a3, a4, a5, b1, f0, fn, sh, s1, b0, arr, m, pp
	i3 = lim(lim(lim(-1 - i3) - i3) - i3)
	i1 = len(sl)
	out("S6_b37" + " " + itoa(i0) + "," + itoa(i1) + "," + itoa(i2) + " " + rtq(s0))
	f0 = fclamp(f0*3 + float64(lim(lim(p.a * p.a) - (i0 ^ 63)))/3.0)
	s1 = p.b
	out("S6_b35" + " " + itoa(i0) + "," + itoa(i1) + "," + itoa(i2) + " " + rtq(s0))
	i3 = int(s0[ix(14, len(s0))])
	i0 = len(sl)
	out("S6_b33" + " " + itoa(i0) + "," + itoa(i1) + "," + itoa(i2) + " " + rtq(s0))
	if (((true || b0) || (a1 < (a1 ^ uint8(14)))) && b1) {
		L1:
		for k, v := range sl[:ix(1, len(sl)+1)] {
			i3 = lim(i3 + k*v)
			if v := lim(i0 - (i2 & 1)); v > -1 {
				i3 = i1
				i0 = (lim(-12 - lim(-2 + i0)) / 4)
				out("S6_b28" + " " + itoa(i0) + "," + itoa(i1) + "," + itoa(i2) + " " + rtq(s0))
				i2 = arr[3]
			}
			if i3 == -777777 {
				continue L1
			}
		}
	}
	i2 = int(a1)
	out("S6_b26" + " " + itoa(i0) + "," + itoa(i1) + "," + itoa(i2) + " " + rtq(s0))
	pp.bump((len(s0) & 1))
	{
		acc := 0
		for k, v := range m {
			acc += len(k)*7 + v
		}
		i2 = lim(acc)
	}
	out("S6_b24" + " " + itoa(i0) + "," + itoa(i1) + "," + itoa(i2) + " " + rtq(s0))
	i0 = lim(lim(lim(len(s0) + len(s0)) + arr[1]) - arr[0])
	i1 = m[itoa(len(sl))]
	out("S6_b22" + " " + itoa(i0) + "," + itoa(i1) + "," + itoa(i2) + " " + rtq(s0))
	i2 = (-7 / 6)
	i0 = len(sl)
	out("S6_b20" + " " + itoa(i0) + "," + itoa(i1) + "," + itoa(i2) + " " + rtq(s0))
	i0 = sh.Area(i3)
	i2 = vsum(int(s0[ix(i2, len(s0))]), lim(i0 - arr[0]))
	i2 = lim(i2 + vsum(sl...) + vsum())
	out("S6_b18" + " " + itoa(i0) + "," + itoa(i1) + "," + itoa(i2) + " " + rtq(s0))
	i0--
	i0, i1 = lim(i0), lim(i1)
	{
		cl := func(d int) int {
			switch p.a % 5 {
			case 4:
				i0 = arr[ix(m[string(rune('a' + ix(p.a, 26)))], 4)]
			case 1:
				b0 = itoa(len(sl)) < p.b
			case 3:
				i2 = vsum(len(s0), i3)
				i2 = lim(i2 + vsum(sl...) + vsum())
				i2 = lim(lim(i2 * len(sl)) + int(s0[ix(p.a, len(s0))]))
				out("S6_b11" + " " + itoa(i0) + "," + itoa(i1) + "," + itoa(i2) + " " + rtq(s0))
			default:
				i3 = len(sl)
			}
			i0 = lim(i0 + d)
			return lim(i0 * 2)
		}
		i1 = cl(i1)
		fn = cl
	}
	out("S6_b10" + " " + itoa(i0) + "," + itoa(i1) + "," + itoa(i2) + " " + rtq(s0))
	i1 = lim(sl[ix(int((a0 ^ int8(51))), len(sl))] * i1)
	i2 = lim(((26 ^ 63) & 3) * i2)
	out("S6_b8" + " " + itoa(i0) + "," + itoa(i1) + "," + itoa(i2) + " " + rtq(s0))
	i0 = p.a
	i3 = lim((lim(len(s0) * len(s0)) / 1) - i0)
	out("S6_b6" + " " + itoa(i0) + "," + itoa(i1) + "," + itoa(i2) + " " + rtq(s0))
	{
		cl := func(d int) int {
			L2:
			for k, v := range sl[:ix(3, len(sl)+1)] {
				i3 = lim(i3 + k*v)
				{
					ch := make(chan int, 2)
					ch <- 5
					for k := 0; k < 4; k++ {
						select {
						case v := <-ch:
							i1 = lim(i1 + v)
							i1 = lim(i1 + 100)
						default:
							i2 = lim(i2 + 10)
						}
						i3 = lim(i3 + 1)
					}
				}
				func() {
					defer func() {
						i1 = lim(i1 + 3)
						if r := recover(); r != nil {
							s1 = cut(s1 + "R")
						}
					}()
					out("S6_t1" + " " + itoa(i0) + "," + itoa(i1) + "," + itoa(i2) + " " + rtq(s0))
					f0 = fclamp(f0*1.25 + float64(i2)/2.0)
					out("S6_b0" + " " + itoa(i0) + "," + itoa(i1) + "," + itoa(i2) + " " + rtq(s0))
				}()
				out("S6_b0" + " " + itoa(i0) + "," + itoa(i1) + "," + itoa(i2) + " " + rtq(s0))
				if i3 == -777777 {
					continue L2
				}
			}
			i0 = lim(i0 + d)
			return lim(i0 * 2)
		}
		i1 = cl(lim(i1 * p.a))
		fn = cl
	}
	out("S6_ints " + itoa(i0) + "," + itoa(i1) + "," + itoa(i2) + "," + itoa(i3) + " " + itoa(int(a0)) + "," + itoa(int(a1)) + "," + itoa(int(a2)) + "," + u64toa(uint64(a3)) + "," + i64toa(a4) + "," + u64toa(a5))
	out("S6_strs " + rtq(s0) + " " + rtq(s1) + " " + btoa(b0) + btoa(b1) + " " + f64s(f0))
	fnResult := fn(1)
	shArea := sh.Area(2)
	out("S6_data " + itoa(len(sl)) + ":" + itoa(vsum(sl...)) + " " + itoa(vsum(arr[:]...)) + " " + itoa(len(m)) + ":" + itoa(m["k"]) + " " + itoa(p.a) + rtq(p.b) + itoa(p.c[0]+p.c[1]) + " " + itoa(pp.a) + " " + itoa(fnResult) + " " + sh.name() + itoa(shArea))
}

type S6_dead0 struct{ z int }

func (d S6_dead0) Area(k int) int { return d.z * k }
func (d S6_dead0) name() string { return "dead" }
func (d *S6_dead0) bump(k int) { d.z += k }

func S6_unused0(x int) int { return lim(x + 0) }

var S6_deadvar0 = 0

type S6_dead1 struct{ z int }

func (d S6_dead1) Area(k int) int { return d.z * k }
func (d S6_dead1) name() string { return "dead" }
func (d *S6_dead1) bump(k int) { d.z += k }

func S6_unused1(x int) int { return lim(x + 1) }

var S6_deadvar1 = 1

type S6_dead2 struct{ z int }

func (d S6_dead2) Area(k int) int { return d.z * k }
func (d S6_dead2) name() string { return "dead" }
func (d *S6_dead2) bump(k int) { d.z += k }

func S6_unused2(x int) int { return lim(x + 2) }

var S6_deadvar2 = 2

