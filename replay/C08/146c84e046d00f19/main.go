package main

import "runtime"

var _ = runtime.Gosched

type T struct{ a int }

type myErr struct{ c int }

func (e myErr) Error() string { return "myErr" + itoa(e.c) }

type rec struct{ tag string }

// recoverHere is deferred directly (as a method value): recover is called by the deferred function itself.
func (r rec) recoverHere() { out(r.tag + " method-recover " + classify(recover())) }

// helper is called BY a deferred function: recover must return nil here.
func helperRecover(tag string) { out(tag + " deeper-recover " + classify(recover())) }

func logi(tag string, v int) { out(tag + " " + itoa(v)) }

func boom(kind int) {
	switch kind {
	case 0:
		var m map[string]int
		m["k"] = 1
	case 1:
		s := []int{1}
		i := 5
		out(itoa(s[i]))
	case 2:
		z := 0
		out(itoa(1 / z))
	default:
		var p *T
		out(itoa(p.a))
	}
}
func s0_f0() (res int) {
	out("s0_f0 enter")
	x := 0
	_ = x
	defer func() {
		r := recover()
		out("s0_f0.0 recover " + classify(r))
		panic("replaced-s0_f0.0")
		
	}()
	out("s0_f0 exit " + itoa(res))
	return res + 1
}

func s0_f1() (res int) {
	out("s0_f1 enter")
	x := 10
	_ = x
	res += s0_f3()
	out("s0_f1.0 after-call " + itoa(res))
	defer func() {
		r := recover()
		out("s0_f1.1 recover " + classify(r))
		panic("replaced-s0_f1.1")
		
	}()
	defer func() {
		r := recover()
		out("s0_f1.2 recover " + classify(r))
		
		
	}()
	out("s0_f1 exit " + itoa(res))
	return res + 1
}

func s0_f2() (res int) {
	out("s0_f2 enter")
	x := 20
	_ = x
	out("s0_f2.0 plain-recover " + classify(recover()))
	out("s0_f2 exit " + itoa(res))
	return res + 1
}

func s0_f3() (res int) {
	out("s0_f3 enter")
	x := 30
	_ = x
	defer func() {
		helperRecover("s0_f3.0")
	}()
	defer func() {
		defer func() {
			out("s0_f3.1 inner " + classify(recover()))
		}()
		panic("inner-s0_f3.1")
	}()
	boom(0)
	defer logi("s0_f3.3 defer-arg", x)
	x += 7
	defer func() {
		runtime.Gosched()
		out("s0_f3.4 defer-yield")
	}()
	defer logi("s0_f3.5 defer-arg", x)
	x += 7
	out("s0_f3 exit " + itoa(res))
	return res + 1
}

func s0_main() {
	out("result " + itoa(s0_f0()))
	out("END")
}

func s1_f0() (res int) {
	out("s1_f0 enter")
	x := 0
	_ = x
	defer logi("s1_f0.0 defer-arg", x)
	x += 7
	res += 3
	out("s1_f0.2 plain-recover " + classify(recover()))
	if x > 1000000 {
		return 5
	}
	res += 1
	if x >= 0 {
		panic(myErr{0})
	}
	out("s1_f0 exit " + itoa(res))
	return res + 1
}

func s1_main() {
	defer func() { out("main-recover " + classify(recover())) }()
	out("result " + itoa(s1_f0()))
	out("END")
}

func s2_f0() (res int) {
	out("s2_f0 enter")
	x := 0
	_ = x
	res += 3
	if x > 1000000 {
		return 5
	}
	res += 1
	out("s2_f0 exit " + itoa(res))
	return res + 1
}

func s2_main() {
	out("result " + itoa(s2_f0()))
	out("END")
}

func s3_f0() (res int) {
	out("s3_f0 enter")
	x := 0
	_ = x
	defer rec{"s3_f0.0"}.recoverHere()
	defer func() {
		runtime.Gosched()
		out("s3_f0.1 defer-yield-panics")
		panic("from-yield-defer-s3_f0.1")
	}()
	defer func() {
		r := recover()
		out("s3_f0.2 recover " + classify(r))
		
		
	}()
	defer logi("s3_f0.3 defer-arg", x)
	x += 7
	out("s3_f0 exit " + itoa(res))
	return res + 1
}

func s3_f1() (res int) {
	out("s3_f1 enter")
	x := 10
	_ = x
	defer logi("s3_f1.0 defer-arg", x)
	x += 7
	out("s3_f1.1 plain-recover " + classify(recover()))
	out("s3_f1 exit " + itoa(res))
	return res + 1
}

func s3_f2() (res int) {
	out("s3_f2 enter")
	x := 20
	_ = x
	defer func() {
		runtime.Gosched()
		out("s3_f2.0 defer-yield-panics")
		panic("from-yield-defer-s3_f2.0")
	}()
	if x >= 0 {
		panic(myErr{2})
	}
	for k := 0; k < 3; k++ {
		defer logi("s3_f2.2 loop-defer", k+x)
	}
	defer logi("s3_f2.3 defer-arg", x)
	x += 7
	defer func() {
		r := recover()
		out("s3_f2.4 recover " + classify(r))
		out("second " + classify(recover()))
		
	}()
	out("s3_f2 exit " + itoa(res))
	return res + 1
}

func s3_main() {
	out("result " + itoa(s3_f0()))
	out("END")
}

func s4_f0() (res int) {
	out("s4_f0 enter")
	x := 0
	_ = x
	defer func() {
		runtime.Gosched()
		out("s4_f0.0 defer-yield")
	}()
	out("s4_f0 exit " + itoa(res))
	return res + 1
}

func s4_f1() (res int) {
	out("s4_f1 enter")
	x := 10
	_ = x
	defer func() {
		r := recover()
		out("s4_f1.0 recover " + classify(r))
		
		if r != nil { panic(r) }
	}()
	out("s4_f1 exit " + itoa(res))
	return res + 1
}

func s4_f2() (res int) {
	out("s4_f2 enter")
	x := 20
	_ = x
	if x > 1000000 {
		return 5
	}
	res += 1
	defer func() {
		res = res*2 + 1
		out("s4_f2.1 defer-res " + itoa(res))
	}()
	defer logi("s4_f2.2 defer-arg", x)
	x += 7
	if x >= 0 {
		panic(error(myErr{7}))
	}
	defer func() {
		r := recover()
		out("s4_f2.4 recover " + classify(r))
		panic("replaced-s4_f2.4")
		
	}()
	out("s4_f2 exit " + itoa(res))
	return res + 1
}

func s4_f3() (res int) {
	out("s4_f3 enter")
	x := 30
	_ = x
	for k := 0; k < 3; k++ {
		defer logi("s4_f3.0 loop-defer", k+x)
	}
	defer func() {
		r := recover()
		out("s4_f3.1 recover " + classify(r))
		
		
	}()
	out("s4_f3 exit " + itoa(res))
	return res + 1
}

func s4_main() {
	go func() { out("result " + itoa(s4_f0())) }()
	<-make(chan int)
	out("END")
}

func s5_f0() (res int) {
	out("s5_f0 enter")
	x := 0
	_ = x
	defer rec{"s5_f0.0"}.recoverHere()
	defer func() {
		r := recover()
		out("s5_f0.1 recover " + classify(r))
		res = 100 + res
		
	}()
	{
		done := make(chan bool)
		go func() {
			defer func() { done <- true }()
			defer func() { out("s5_f0.2 goexit-recover " + classify(recover())) }()
			defer logi("s5_f0.2 goexit-defer", x)
			runtime.Goexit()
			out("unreachable")
		}()
		<-done
	}
	defer func() {
		helperRecover("s5_f0.3")
	}()
	defer logi("s5_f0.4 defer-arg", x)
	x += 7
	defer func() {
		r := recover()
		out("s5_f0.5 recover " + classify(r))
		
		if r != nil { panic(r) }
	}()
	out("s5_f0 exit " + itoa(res))
	return res + 1
}

func s5_f1() (res int) {
	out("s5_f1 enter")
	x := 10
	_ = x
	defer func() {
		r := recover()
		out("s5_f1.0 recover " + classify(r))
		if r != nil { res = -1 }
		
	}()
	out("s5_f1 exit " + itoa(res))
	return res + 1
}

func s5_main() {
	out("result " + itoa(s5_f0()))
	out("END")
}

func s6_f0() (res int) {
	out("s6_f0 enter")
	x := 0
	_ = x
	defer func() {
		out("s6_f0.0 defer-panics")
		panic("from-defer-s6_f0.0")
	}()
	res += 3
	out("s6_f0.2 plain-recover " + classify(recover()))
	defer func() {
		r := recover()
		out("s6_f0.3 recover " + classify(r))
		res = 100 + res
		
	}()
	defer func() {
		out("s6_f0.4 defer-panics")
		panic("from-defer-s6_f0.4")
	}()
	defer func() {
		defer func() {
			out("s6_f0.5 inner " + classify(recover()))
		}()
		panic("inner-s6_f0.5")
	}()
	out("s6_f0 exit " + itoa(res))
	return res + 1
}

func s6_main() {
	out("result " + itoa(s6_f0()))
	out("END")
}

func s7_f0() (res int) {
	out("s7_f0 enter")
	x := 0
	_ = x
	defer func() {
		r := recover()
		out("s7_f0.0 recover " + classify(r))
		res = 100 + res
		
	}()
	defer func() {
		r := recover()
		out("s7_f0.1 recover " + classify(r))
		if r != nil { res = -1 }
		
	}()
	defer logi("s7_f0.2 defer-arg", x)
	x += 7
	if x >= 0 {
		panic(myErr{0})
	}
	defer logi("s7_f0.4 defer-arg", x)
	x += 7
	defer func() {
		r := recover()
		out("s7_f0.5 recover " + classify(r))
		
		if r != nil { panic(r) }
	}()
	out("s7_f0 exit " + itoa(res))
	return res + 1
}

func s7_f1() (res int) {
	out("s7_f1 enter")
	x := 10
	_ = x
	defer func() {
		r := recover()
		out("s7_f1.0 recover " + classify(r))
		out("second " + classify(recover()))
		
	}()
	out("s7_f1 exit " + itoa(res))
	return res + 1
}

func s7_main() {
	out("result " + itoa(s7_f0()))
	out("END")
}

func s8_f0() (res int) {
	out("s8_f0 enter")
	x := 0
	_ = x
	if x > 1000000 {
		return 5
	}
	res += 1
	defer func() {
		res = res*2 + 1
		out("s8_f0.1 defer-res " + itoa(res))
	}()
	out("s8_f0 exit " + itoa(res))
	return res + 1
}

func s8_f1() (res int) {
	out("s8_f1 enter")
	x := 10
	_ = x
	defer func() {
		r := recover()
		out("s8_f1.0 recover " + classify(r))
		if r != nil { res = -1 }
		
	}()
	out("s8_f1 exit " + itoa(res))
	return res + 1
}

func s8_f2() (res int) {
	out("s8_f2 enter")
	x := 20
	_ = x
	defer func() {
		r := recover()
		out("s8_f2.0 recover " + classify(r))
		panic("replaced-s8_f2.0")
		
	}()
	{
		done := make(chan int)
		go func() {
			v := -1
			defer func() {
				out("s8_f2.1 goroutine-recover " + classify(recover()))
				done <- v
			}()
			v = s8_f3()
		}()
		res += <-done
	}
	out("s8_f2 exit " + itoa(res))
	return res + 1
}

func s8_f3() (res int) {
	out("s8_f3 enter")
	x := 30
	_ = x
	boom(1)
	out("s8_f3 exit " + itoa(res))
	return res + 1
}

func s8_main() {
	for round := 0; round < 2; round++ {
		func() {
			defer func() { out("main-recover " + classify(recover())) }()
			out("result " + itoa(s8_f0()))
		}()
	}
	out("END")
}

func s9_f0() (res int) {
	out("s9_f0 enter")
	x := 0
	_ = x
	defer func() {
		r := recover()
		out("s9_f0.0 recover " + classify(r))
		if r != nil { res = -1 }
		
	}()
	defer logi("s9_f0.1 defer-arg", x)
	x += 7
	out("s9_f0.2 plain-recover " + classify(recover()))
	out("s9_f0 exit " + itoa(res))
	return res + 1
}

func s9_f1() (res int) {
	out("s9_f1 enter")
	x := 10
	_ = x
	out("s9_f1.0 plain-recover " + classify(recover()))
	out("s9_f1.1 plain-recover " + classify(recover()))
	out("s9_f1 exit " + itoa(res))
	return res + 1
}

func s9_main() {
	for round := 0; round < 2; round++ {
		func() {
			defer func() { out("main-recover " + classify(recover())) }()
			out("result " + itoa(s9_f0()))
		}()
	}
	out("END")
}

func s10_f0() (res int) {
	out("s10_f0 enter")
	x := 0
	_ = x
	defer func() {
		helperRecover("s10_f0.0")
	}()
	out("s10_f0 exit " + itoa(res))
	return res + 1
}

func s10_f1() (res int) {
	out("s10_f1 enter")
	x := 10
	_ = x
	defer func() {
		r := recover()
		out("s10_f1.0 recover " + classify(r))
		
		if r != nil { panic(r) }
	}()
	defer rec{"s10_f1.1"}.recoverHere()
	out("s10_f1 exit " + itoa(res))
	return res + 1
}

func s10_f2() (res int) {
	out("s10_f2 enter")
	x := 20
	_ = x
	defer func() {
		r := recover()
		out("s10_f2.0 recover " + classify(r))
		
		
	}()
	defer func() {
		out("s10_f2.1 defer-panics")
		panic("from-defer-s10_f2.1")
	}()
	defer logi("s10_f2.2 defer-arg", x)
	x += 7
	res += 3
	out("s10_f2 exit " + itoa(res))
	return res + 1
}

func s10_main() {
	for round := 0; round < 2; round++ {
		func() {
			defer func() { out("main-recover " + classify(recover())) }()
			out("result " + itoa(s10_f0()))
		}()
	}
	out("END")
}

func s11_f0() (res int) {
	out("s11_f0 enter")
	x := 0
	_ = x
	defer logi("s11_f0.0 defer-arg", x)
	x += 7
	defer func() {
		runtime.Gosched()
		out("s11_f0.1 defer-yield-panics")
		panic("from-yield-defer-s11_f0.1")
	}()
	defer logi("s11_f0.2 defer-arg", x)
	x += 7
	out("s11_f0 exit " + itoa(res))
	return res + 1
}

func s11_main() {
	defer out("main-deferred")
	out("result " + itoa(s11_f0()))
	runtime.Goexit()
	out("END")
}

func s12_f0() (res int) {
	out("s12_f0 enter")
	x := 0
	_ = x
	out("s12_f0.0 plain-recover " + classify(recover()))
	defer logi("s12_f0.1 defer-arg", x)
	x += 7
	out("s12_f0 exit " + itoa(res))
	return res + 1
}

func s12_f1() (res int) {
	out("s12_f1 enter")
	x := 10
	_ = x
	defer rec{"s12_f1.0"}.recoverHere()
	defer func() {
		r := recover()
		out("s12_f1.1 recover " + classify(r))
		
		if r != nil { panic(r) }
	}()
	defer func() {
		r := recover()
		out("s12_f1.2 recover " + classify(r))
		out("second " + classify(recover()))
		
	}()
	defer func() {
		helperRecover("s12_f1.3")
	}()
	{
		done := make(chan bool)
		go func() {
			defer func() { done <- true }()
			defer func() { out("s12_f1.4 goexit-recover " + classify(recover())) }()
			defer logi("s12_f1.4 goexit-defer", x)
			runtime.Goexit()
			out("unreachable")
		}()
		<-done
	}
	out("s12_f1 exit " + itoa(res))
	return res + 1
}

func s12_main() {
	out("result " + itoa(s12_f0()))
	out("END")
}

func s13_f0() (res int) {
	out("s13_f0 enter")
	x := 0
	_ = x
	out("s13_f0.0 plain-recover " + classify(recover()))
	defer func() {
		defer func() {
			out("s13_f0.1 inner " + classify(recover()))
		}()
		panic("inner-s13_f0.1")
	}()
	defer logi("s13_f0.2 defer-arg", x)
	x += 7
	if x > 1000000 {
		return 5
	}
	res += 1
	out("s13_f0 exit " + itoa(res))
	return res + 1
}

func s13_f1() (res int) {
	out("s13_f1 enter")
	x := 10
	_ = x
	defer func() {
		helperRecover("s13_f1.0")
	}()
	out("s13_f1 exit " + itoa(res))
	return res + 1
}

func s13_main() {
	for round := 0; round < 2; round++ {
		func() {
			defer func() { out("main-recover " + classify(recover())) }()
			out("result " + itoa(s13_f0()))
		}()
	}
	out("END")
}

func s14_f0() (res int) {
	out("s14_f0 enter")
	x := 0
	_ = x
	{
		done := make(chan bool)
		go func() {
			defer func() { done <- true }()
			defer func() { out("s14_f0.0 goexit-recover " + classify(recover())) }()
			defer logi("s14_f0.0 goexit-defer", x)
			runtime.Goexit()
			out("unreachable")
		}()
		<-done
	}
	{
		done := make(chan bool)
		go func() {
			defer func() { done <- true }()
			defer func() { out("s14_f0.1 goexit-recover " + classify(recover())) }()
			defer logi("s14_f0.1 goexit-defer", x)
			runtime.Goexit()
			out("unreachable")
		}()
		<-done
	}
	out("s14_f0 exit " + itoa(res))
	return res + 1
}

func s14_f1() (res int) {
	out("s14_f1 enter")
	x := 10
	_ = x
	if x >= 0 {
		panic(myErr{1})
	}
	out("s14_f1 exit " + itoa(res))
	return res + 1
}

func s14_main() {
	out("result " + itoa(s14_f0()))
	out("END")
}

func s15_f0() (res int) {
	out("s15_f0 enter")
	x := 0
	_ = x
	out("s15_f0.0 plain-recover " + classify(recover()))
	defer logi("s15_f0.1 defer-arg", x)
	x += 7
	defer func() {
		helperRecover("s15_f0.2")
	}()
	out("s15_f0 exit " + itoa(res))
	return res + 1
}

func s15_f1() (res int) {
	out("s15_f1 enter")
	x := 10
	_ = x
	defer logi("s15_f1.0 defer-arg", x)
	x += 7
	{
		done := make(chan bool)
		go func() {
			defer func() { done <- true }()
			defer func() { out("s15_f1.1 goexit-recover " + classify(recover())) }()
			defer logi("s15_f1.1 goexit-defer", x)
			runtime.Goexit()
			out("unreachable")
		}()
		<-done
	}
	{
		done := make(chan int)
		go func() {
			v := -1
			defer func() {
				out("s15_f1.2 goroutine-recover " + classify(recover()))
				done <- v
			}()
			v = s15_f3()
		}()
		res += <-done
	}
	out("s15_f1 exit " + itoa(res))
	return res + 1
}

func s15_f2() (res int) {
	out("s15_f2 enter")
	x := 20
	_ = x
	defer logi("s15_f2.0 defer-arg", x)
	x += 7
	defer logi("s15_f2.1 defer-arg", x)
	x += 7
	out("s15_f2 exit " + itoa(res))
	return res + 1
}

func s15_f3() (res int) {
	out("s15_f3 enter")
	x := 30
	_ = x
	defer func() {
		out("s15_f3.0 defer-panics")
		panic("from-defer-s15_f3.0")
	}()
	defer rec{"s15_f3.1"}.recoverHere()
	defer func() {
		r := recover()
		out("s15_f3.2 recover " + classify(r))
		res = 100 + res
		
	}()
	defer func() {
		helperRecover("s15_f3.3")
	}()
	defer func() {
		r := recover()
		out("s15_f3.4 recover " + classify(r))
		panic("replaced-s15_f3.4")
		
	}()
	out("s15_f3 exit " + itoa(res))
	return res + 1
}

func s15_main() {
	defer func() { out("main-recover " + classify(recover())) }()
	out("result " + itoa(s15_f0()))
	out("END")
}

func s16_f0() (res int) {
	out("s16_f0 enter")
	x := 0
	_ = x
	defer rec{"s16_f0.0"}.recoverHere()
	out("s16_f0 exit " + itoa(res))
	return res + 1
}

func s16_main() {
	defer out("main-deferred")
	out("result " + itoa(s16_f0()))
	runtime.Goexit()
	out("END")
}

func s17_f0() (res int) {
	out("s17_f0 enter")
	x := 0
	_ = x
	defer logi("s17_f0.0 defer-arg", x)
	x += 7
	for k := 0; k < 3; k++ {
		defer logi("s17_f0.1 loop-defer", k+x)
	}
	defer func() {
		r := recover()
		out("s17_f0.2 recover " + classify(r))
		panic("replaced-s17_f0.2")
		
	}()
	out("s17_f0 exit " + itoa(res))
	return res + 1
}

func s17_f1() (res int) {
	out("s17_f1 enter")
	x := 10
	_ = x
	defer func() {
		r := recover()
		out("s17_f1.0 recover " + classify(r))
		panic("replaced-s17_f1.0")
		
	}()
	out("s17_f1 exit " + itoa(res))
	return res + 1
}

func s17_f2() (res int) {
	out("s17_f2 enter")
	x := 20
	_ = x
	defer logi("s17_f2.0 defer-arg", x)
	x += 7
	defer func() {
		defer func() {
			out("s17_f2.1 inner " + classify(recover()))
		}()
		panic("inner-s17_f2.1")
	}()
	out("s17_f2 exit " + itoa(res))
	return res + 1
}

func s17_main() {
	out("result " + itoa(s17_f0()))
	out("END")
}

func s18_f0() (res int) {
	out("s18_f0 enter")
	x := 0
	_ = x
	defer func() {
		r := recover()
		out("s18_f0.0 recover " + classify(r))
		panic("replaced-s18_f0.0")
		
	}()
	defer func() {
		runtime.Gosched()
		out("s18_f0.1 defer-yield")
	}()
	out("s18_f0 exit " + itoa(res))
	return res + 1
}

func s18_f1() (res int) {
	out("s18_f1 enter")
	x := 10
	_ = x
	res += s18_f3()
	out("s18_f1.0 after-call " + itoa(res))
	{
		done := make(chan bool)
		go func() {
			defer func() { done <- true }()
			defer func() { out("s18_f1.1 goexit-recover " + classify(recover())) }()
			defer logi("s18_f1.1 goexit-defer", x)
			runtime.Goexit()
			out("unreachable")
		}()
		<-done
	}
	out("s18_f1 exit " + itoa(res))
	return res + 1
}

func s18_f2() (res int) {
	out("s18_f2 enter")
	x := 20
	_ = x
	defer logi("s18_f2.0 defer-arg", x)
	x += 7
	defer func() {
		runtime.Gosched()
		out("s18_f2.1 defer-yield")
	}()
	defer logi("s18_f2.2 defer-arg", x)
	x += 7
	out("s18_f2 exit " + itoa(res))
	return res + 1
}

func s18_f3() (res int) {
	out("s18_f3 enter")
	x := 30
	_ = x
	defer func() {
		out("s18_f3.0 defer-panics")
		panic("from-defer-s18_f3.0")
	}()
	out("s18_f3 exit " + itoa(res))
	return res + 1
}

func s18_main() {
	for round := 0; round < 2; round++ {
		func() {
			defer func() { out("main-recover " + classify(recover())) }()
			out("result " + itoa(s18_f0()))
		}()
	}
	out("END")
}

func s19_f0() (res int) {
	out("s19_f0 enter")
	x := 0
	_ = x
	defer logi("s19_f0.0 defer-arg", x)
	x += 7
	out("s19_f0 exit " + itoa(res))
	return res + 1
}

func s19_f1() (res int) {
	out("s19_f1 enter")
	x := 10
	_ = x
	defer func() {
		r := recover()
		out("s19_f1.0 recover " + classify(r))
		out("second " + classify(recover()))
		
	}()
	out("s19_f1 exit " + itoa(res))
	return res + 1
}

func s19_f2() (res int) {
	out("s19_f2 enter")
	x := 20
	_ = x
	defer rec{"s19_f2.0"}.recoverHere()
	out("s19_f2 exit " + itoa(res))
	return res + 1
}

func s19_f3() (res int) {
	out("s19_f3 enter")
	x := 30
	_ = x
	defer func() {
		defer func() {
			out("s19_f3.0 inner " + classify(recover()))
		}()
		panic("inner-s19_f3.0")
	}()
	defer func() {
		defer func() {
			out("s19_f3.1 inner " + classify(recover()))
		}()
		panic("inner-s19_f3.1")
	}()
	defer func() {
		defer func() {
			out("s19_f3.2 inner " + classify(recover()))
		}()
		panic("inner-s19_f3.2")
	}()
	out("s19_f3 exit " + itoa(res))
	return res + 1
}

func s19_main() {
	for round := 0; round < 2; round++ {
		func() {
			defer func() { out("main-recover " + classify(recover())) }()
			out("result " + itoa(s19_f0()))
		}()
	}
	out("END")
}

func s20_f0() (res int) {
	out("s20_f0 enter")
	x := 0
	_ = x
	defer rec{"s20_f0.0"}.recoverHere()
	out("s20_f0.1 plain-recover " + classify(recover()))
	defer func() {
		helperRecover("s20_f0.2")
	}()
	if x >= 0 {
		panic(error(myErr{7}))
	}
	defer func() {
		r := recover()
		out("s20_f0.4 recover " + classify(r))
		
		if r != nil { panic(r) }
	}()
	defer func() {
		runtime.Gosched()
		out("s20_f0.5 defer-yield-panics")
		panic("from-yield-defer-s20_f0.5")
	}()
	out("s20_f0 exit " + itoa(res))
	return res + 1
}

func s20_main() {
	defer func() { out("main-recover " + classify(recover())) }()
	out("result " + itoa(s20_f0()))
	out("END")
}

func s21_f0() (res int) {
	out("s21_f0 enter")
	x := 0
	_ = x
	defer logi("s21_f0.0 defer-arg", x)
	x += 7
	for k := 0; k < 3; k++ {
		defer logi("s21_f0.1 loop-defer", k+x)
	}
	defer logi("s21_f0.2 defer-arg", x)
	x += 7
	defer func() {
		res = res*2 + 1
		out("s21_f0.3 defer-res " + itoa(res))
	}()
	defer func() {
		r := recover()
		out("s21_f0.4 recover " + classify(r))
		out("second " + classify(recover()))
		
	}()
	defer logi("s21_f0.5 defer-arg", x)
	x += 7
	out("s21_f0 exit " + itoa(res))
	return res + 1
}

func s21_main() {
	out("result " + itoa(s21_f0()))
	out("END")
}

func s22_f0() (res int) {
	out("s22_f0 enter")
	x := 0
	_ = x
	if x > 1000000 {
		return 5
	}
	res += 1
	out("s22_f0.1 plain-recover " + classify(recover()))
	res += 3
	defer func() {
		runtime.Gosched()
		out("s22_f0.3 defer-yield")
	}()
	out("s22_f0 exit " + itoa(res))
	return res + 1
}

func s22_main() {
	defer func() { out("main-recover " + classify(recover())) }()
	out("result " + itoa(s22_f0()))
	out("END")
}

func s23_f0() (res int) {
	out("s23_f0 enter")
	x := 0
	_ = x
	defer logi("s23_f0.0 defer-arg", x)
	x += 7
	defer func() {
		r := recover()
		out("s23_f0.1 recover " + classify(r))
		if r != nil { res = -1 }
		
	}()
	out("s23_f0 exit " + itoa(res))
	return res + 1
}

func s23_main() {
	out("result " + itoa(s23_f0()))
	out("END")
}

func s24_f0() (res int) {
	out("s24_f0 enter")
	x := 0
	_ = x
	defer func() {
		runtime.Gosched()
		out("s24_f0.0 defer-yield")
	}()
	defer func() {
		helperRecover("s24_f0.1")
	}()
	defer func() {
		r := recover()
		out("s24_f0.2 recover " + classify(r))
		out("second " + classify(recover()))
		
	}()
	res += s24_f1()
	out("s24_f0.3 after-call " + itoa(res))
	defer logi("s24_f0.4 defer-arg", x)
	x += 7
	out("s24_f0 exit " + itoa(res))
	return res + 1
}

func s24_f1() (res int) {
	out("s24_f1 enter")
	x := 10
	_ = x
	if x > 1000000 {
		return 5
	}
	res += 1
	defer func() {
		out("s24_f1.1 defer-panics")
		panic("from-defer-s24_f1.1")
	}()
	out("s24_f1 exit " + itoa(res))
	return res + 1
}

func s24_f2() (res int) {
	out("s24_f2 enter")
	x := 20
	_ = x
	{
		done := make(chan int)
		go func() {
			v := -1
			defer func() {
				out("s24_f2.0 goroutine-recover " + classify(recover()))
				done <- v
			}()
			v = s24_f3()
		}()
		res += <-done
	}
	out("s24_f2.1 plain-recover " + classify(recover()))
	defer func() {
		defer func() {
			out("s24_f2.2 inner " + classify(recover()))
		}()
		panic("inner-s24_f2.2")
	}()
	defer func() {
		r := recover()
		out("s24_f2.3 recover " + classify(r))
		if r != nil { res = -1 }
		
	}()
	out("s24_f2 exit " + itoa(res))
	return res + 1
}

func s24_f3() (res int) {
	out("s24_f3 enter")
	x := 30
	_ = x
	defer rec{"s24_f3.0"}.recoverHere()
	out("s24_f3.1 plain-recover " + classify(recover()))
	defer rec{"s24_f3.2"}.recoverHere()
	defer func() {
		runtime.Gosched()
		out("s24_f3.3 defer-yield")
	}()
	{
		done := make(chan bool)
		go func() {
			defer func() { done <- true }()
			defer func() { out("s24_f3.4 goexit-recover " + classify(recover())) }()
			defer logi("s24_f3.4 goexit-defer", x)
			runtime.Goexit()
			out("unreachable")
		}()
		<-done
	}
	defer func() {
		defer func() {
			out("s24_f3.5 inner " + classify(recover()))
		}()
		panic("inner-s24_f3.5")
	}()
	out("s24_f3 exit " + itoa(res))
	return res + 1
}

func s24_main() {
	out("result " + itoa(s24_f0()))
	out("END")
}

func s25_f0() (res int) {
	out("s25_f0 enter")
	x := 0
	_ = x
	defer func() {
		out("s25_f0.0 defer-panics")
		panic("from-defer-s25_f0.0")
	}()
	defer func() {
		out("s25_f0.1 defer-panics")
		panic("from-defer-s25_f0.1")
	}()
	defer logi("s25_f0.2 defer-arg", x)
	x += 7
	defer logi("s25_f0.3 defer-arg", x)
	x += 7
	out("s25_f0 exit " + itoa(res))
	return res + 1
}

func s25_f1() (res int) {
	out("s25_f1 enter")
	x := 10
	_ = x
	for k := 0; k < 3; k++ {
		defer logi("s25_f1.0 loop-defer", k+x)
	}
	defer func() {
		out("s25_f1.1 defer-panics")
		panic("from-defer-s25_f1.1")
	}()
	defer rec{"s25_f1.2"}.recoverHere()
	defer func() {
		out("s25_f1.3 defer-panics")
		panic("from-defer-s25_f1.3")
	}()
	out("s25_f1 exit " + itoa(res))
	return res + 1
}

func s25_main() {
	go func() { out("result " + itoa(s25_f0())) }()
	<-make(chan int)
	out("END")
}

func s26_f0() (res int) {
	out("s26_f0 enter")
	x := 0
	_ = x
	defer logi("s26_f0.0 defer-arg", x)
	x += 7
	defer func() {
		r := recover()
		out("s26_f0.1 recover " + classify(r))
		
		if r != nil { panic(r) }
	}()
	defer func() {
		r := recover()
		out("s26_f0.2 recover " + classify(r))
		panic("replaced-s26_f0.2")
		
	}()
	defer func() {
		r := recover()
		out("s26_f0.3 recover " + classify(r))
		out("second " + classify(recover()))
		
	}()
	defer func() {
		defer func() {
			out("s26_f0.4 inner " + classify(recover()))
		}()
		panic("inner-s26_f0.4")
	}()
	out("s26_f0 exit " + itoa(res))
	return res + 1
}

func s26_f1() (res int) {
	out("s26_f1 enter")
	x := 10
	_ = x
	defer func() {
		out("s26_f1.0 defer-panics")
		panic("from-defer-s26_f1.0")
	}()
	out("s26_f1 exit " + itoa(res))
	return res + 1
}

func s26_f2() (res int) {
	out("s26_f2 enter")
	x := 20
	_ = x
	defer func() {
		helperRecover("s26_f2.0")
	}()
	defer logi("s26_f2.1 defer-arg", x)
	x += 7
	defer func() {
		defer func() {
			out("s26_f2.2 inner " + classify(recover()))
		}()
		panic("inner-s26_f2.2")
	}()
	defer logi("s26_f2.3 defer-arg", x)
	x += 7
	defer logi("s26_f2.4 defer-arg", x)
	x += 7
	defer logi("s26_f2.5 defer-arg", x)
	x += 7
	out("s26_f2 exit " + itoa(res))
	return res + 1
}

func s26_main() {
	out("result " + itoa(s26_f0()))
	out("END")
}

func s27_f0() (res int) {
	out("s27_f0 enter")
	x := 0
	_ = x
	out("s27_f0.0 plain-recover " + classify(recover()))
	defer logi("s27_f0.1 defer-arg", x)
	x += 7
	defer logi("s27_f0.2 defer-arg", x)
	x += 7
	defer func() {
		r := recover()
		out("s27_f0.3 recover " + classify(r))
		
		if r != nil { panic(r) }
	}()
	defer func() {
		r := recover()
		out("s27_f0.4 recover " + classify(r))
		
		
	}()
	defer func() {
		helperRecover("s27_f0.5")
	}()
	out("s27_f0 exit " + itoa(res))
	return res + 1
}

func s27_f1() (res int) {
	out("s27_f1 enter")
	x := 10
	_ = x
	res += s27_f2()
	out("s27_f1.0 after-call " + itoa(res))
	defer logi("s27_f1.1 defer-arg", x)
	x += 7
	out("s27_f1 exit " + itoa(res))
	return res + 1
}

func s27_f2() (res int) {
	out("s27_f2 enter")
	x := 20
	_ = x
	defer func() {
		r := recover()
		out("s27_f2.0 recover " + classify(r))
		if r != nil { res = -1 }
		
	}()
	defer logi("s27_f2.1 defer-arg", x)
	x += 7
	out("s27_f2 exit " + itoa(res))
	return res + 1
}

func s27_f3() (res int) {
	out("s27_f3 enter")
	x := 30
	_ = x
	defer func() {
		res = res*2 + 1
		out("s27_f3.0 defer-res " + itoa(res))
	}()
	res += 3
	out("s27_f3.2 plain-recover " + classify(recover()))
	out("s27_f3 exit " + itoa(res))
	return res + 1
}

func s27_main() {
	for round := 0; round < 2; round++ {
		func() {
			defer func() { out("main-recover " + classify(recover())) }()
			out("result " + itoa(s27_f0()))
		}()
	}
	out("END")
}

func s28_f0() (res int) {
	out("s28_f0 enter")
	x := 0
	_ = x
	defer logi("s28_f0.0 defer-arg", x)
	x += 7
	out("s28_f0.1 plain-recover " + classify(recover()))
	defer func() {
		defer func() {
			out("s28_f0.2 inner " + classify(recover()))
		}()
		panic("inner-s28_f0.2")
	}()
	out("s28_f0 exit " + itoa(res))
	return res + 1
}

func s28_main() {
	defer out("main-deferred")
	out("result " + itoa(s28_f0()))
	runtime.Goexit()
	out("END")
}

func s29_f0() (res int) {
	out("s29_f0 enter")
	x := 0
	_ = x
	res += func() (r int) {
		defer func() {
			if e := recover(); e != nil {
				out("s29_f0.0 wrapper-recover " + classify(e))
				r = 77
			}
		}()
		return s29_f2()
	}()
	out("s29_f0 exit " + itoa(res))
	return res + 1
}

func s29_f1() (res int) {
	out("s29_f1 enter")
	x := 10
	_ = x
	out("s29_f1.0 plain-recover " + classify(recover()))
	if x >= 0 {
		panic("p-s29_f1.1")
	}
	defer func() {
		r := recover()
		out("s29_f1.2 recover " + classify(r))
		
		
	}()
	out("s29_f1 exit " + itoa(res))
	return res + 1
}

func s29_f2() (res int) {
	out("s29_f2 enter")
	x := 20
	_ = x
	out("s29_f2.0 plain-recover " + classify(recover()))
	boom(1)
	out("s29_f2 exit " + itoa(res))
	return res + 1
}

func s29_main() {
	out("result " + itoa(s29_f0()))
	out("END")
}

func s30_f0() (res int) {
	out("s30_f0 enter")
	x := 0
	_ = x
	defer func() {
		r := recover()
		out("s30_f0.0 recover " + classify(r))
		out("second " + classify(recover()))
		
	}()
	defer func() {
		helperRecover("s30_f0.1")
	}()
	boom(2)
	defer logi("s30_f0.3 defer-arg", x)
	x += 7
	if x >= 0 {
		panic(myErr{0})
	}
	out("s30_f0 exit " + itoa(res))
	return res + 1
}

func s30_f1() (res int) {
	out("s30_f1 enter")
	x := 10
	_ = x
	res += s30_f2()
	out("s30_f1.0 after-call " + itoa(res))
	out("s30_f1 exit " + itoa(res))
	return res + 1
}

func s30_f2() (res int) {
	out("s30_f2 enter")
	x := 20
	_ = x
	defer logi("s30_f2.0 defer-arg", x)
	x += 7
	defer logi("s30_f2.1 defer-arg", x)
	x += 7
	out("s30_f2 exit " + itoa(res))
	return res + 1
}

func s30_main() {
	out("result " + itoa(s30_f0()))
	out("END")
}

func s31_f0() (res int) {
	out("s31_f0 enter")
	x := 0
	_ = x
	defer func() {
		res = res*2 + 1
		out("s31_f0.0 defer-res " + itoa(res))
	}()
	boom(1)
	out("s31_f0.2 plain-recover " + classify(recover()))
	res += func() (r int) {
		defer func() {
			if e := recover(); e != nil {
				out("s31_f0.3 wrapper-recover " + classify(e))
				r = 77
			}
		}()
		return s31_f1()
	}()
	res += s31_f1()
	out("s31_f0.4 after-call " + itoa(res))
	defer logi("s31_f0.5 defer-arg", x)
	x += 7
	out("s31_f0 exit " + itoa(res))
	return res + 1
}

func s31_f1() (res int) {
	out("s31_f1 enter")
	x := 10
	_ = x
	defer func() {
		out("s31_f1.0 defer-panics")
		panic("from-defer-s31_f1.0")
	}()
	defer func() {
		out("s31_f1.1 defer-panics")
		panic("from-defer-s31_f1.1")
	}()
	out("s31_f1 exit " + itoa(res))
	return res + 1
}

func s31_f2() (res int) {
	out("s31_f2 enter")
	x := 20
	_ = x
	defer func() {
		r := recover()
		out("s31_f2.0 recover " + classify(r))
		panic("replaced-s31_f2.0")
		
	}()
	out("s31_f2.1 plain-recover " + classify(recover()))
	out("s31_f2 exit " + itoa(res))
	return res + 1
}

func s31_main() {
	out("result " + itoa(s31_f0()))
	out("END")
}

func s32_f0() (res int) {
	out("s32_f0 enter")
	x := 0
	_ = x
	defer func() {
		r := recover()
		out("s32_f0.0 recover " + classify(r))
		res = 100 + res
		
	}()
	res += s32_f1()
	out("s32_f0.1 after-call " + itoa(res))
	defer func() {
		out("s32_f0.2 defer-panics")
		panic("from-defer-s32_f0.2")
	}()
	if x >= 0 {
		panic(error(myErr{7}))
	}
	defer func() {
		r := recover()
		out("s32_f0.4 recover " + classify(r))
		res = 100 + res
		
	}()
	out("s32_f0 exit " + itoa(res))
	return res + 1
}

func s32_f1() (res int) {
	out("s32_f1 enter")
	x := 10
	_ = x
	{
		done := make(chan int)
		go func() {
			v := -1
			defer func() {
				out("s32_f1.0 goroutine-recover " + classify(recover()))
				done <- v
			}()
			v = s32_f2()
		}()
		res += <-done
	}
	{
		done := make(chan bool)
		go func() {
			defer func() { done <- true }()
			defer func() { out("s32_f1.1 goexit-recover " + classify(recover())) }()
			defer logi("s32_f1.1 goexit-defer", x)
			runtime.Goexit()
			out("unreachable")
		}()
		<-done
	}
	out("s32_f1.2 plain-recover " + classify(recover()))
	for k := 0; k < 3; k++ {
		defer logi("s32_f1.3 loop-defer", k+x)
	}
	out("s32_f1 exit " + itoa(res))
	return res + 1
}

func s32_f2() (res int) {
	out("s32_f2 enter")
	x := 20
	_ = x
	defer func() {
		r := recover()
		out("s32_f2.0 recover " + classify(r))
		if r != nil { res = -1 }
		
	}()
	out("s32_f2 exit " + itoa(res))
	return res + 1
}

func s32_f3() (res int) {
	out("s32_f3 enter")
	x := 30
	_ = x
	defer func() {
		r := recover()
		out("s32_f3.0 recover " + classify(r))
		res = 100 + res
		
	}()
	res += 3
	if x >= 0 {
		panic("p-s32_f3.2")
	}
	defer logi("s32_f3.3 defer-arg", x)
	x += 7
	out("s32_f3.4 plain-recover " + classify(recover()))
	out("s32_f3 exit " + itoa(res))
	return res + 1
}

func s32_main() {
	out("result " + itoa(s32_f0()))
	out("END")
}

func s33_f0() (res int) {
	out("s33_f0 enter")
	x := 0
	_ = x
	defer func() {
		helperRecover("s33_f0.0")
	}()
	defer func() {
		out("s33_f0.1 defer-panics")
		panic("from-defer-s33_f0.1")
	}()
	out("s33_f0 exit " + itoa(res))
	return res + 1
}

func s33_f1() (res int) {
	out("s33_f1 enter")
	x := 10
	_ = x
	defer func() {
		runtime.Gosched()
		out("s33_f1.0 defer-yield")
	}()
	out("s33_f1 exit " + itoa(res))
	return res + 1
}

func s33_main() {
	defer out("main-deferred")
	out("result " + itoa(s33_f0()))
	runtime.Goexit()
	out("END")
}

func s34_f0() (res int) {
	out("s34_f0 enter")
	x := 0
	_ = x
	defer func() {
		runtime.Gosched()
		out("s34_f0.0 defer-yield")
	}()
	defer func() {
		helperRecover("s34_f0.1")
	}()
	defer logi("s34_f0.2 defer-arg", x)
	x += 7
	out("s34_f0 exit " + itoa(res))
	return res + 1
}

func s34_f1() (res int) {
	out("s34_f1 enter")
	x := 10
	_ = x
	if x > 1000000 {
		return 5
	}
	res += 1
	boom(0)
	defer logi("s34_f1.2 defer-arg", x)
	x += 7
	out("s34_f1 exit " + itoa(res))
	return res + 1
}

func s34_f2() (res int) {
	out("s34_f2 enter")
	x := 20
	_ = x
	defer func() {
		r := recover()
		out("s34_f2.0 recover " + classify(r))
		out("second " + classify(recover()))
		
	}()
	if x >= 0 {
		panic(error(myErr{7}))
	}
	defer func() {
		r := recover()
		out("s34_f2.2 recover " + classify(r))
		panic("replaced-s34_f2.2")
		
	}()
	out("s34_f2 exit " + itoa(res))
	return res + 1
}

func s34_f3() (res int) {
	out("s34_f3 enter")
	x := 30
	_ = x
	out("s34_f3.0 plain-recover " + classify(recover()))
	defer logi("s34_f3.1 defer-arg", x)
	x += 7
	defer func() {
		r := recover()
		out("s34_f3.2 recover " + classify(r))
		
		if r != nil { panic(r) }
	}()
	if x > 1000000 {
		return 5
	}
	res += 1
	out("s34_f3 exit " + itoa(res))
	return res + 1
}

func s34_main() {
	defer out("main-deferred")
	out("result " + itoa(s34_f0()))
	runtime.Goexit()
	out("END")
}

func s35_f0() (res int) {
	out("s35_f0 enter")
	x := 0
	_ = x
	defer func() {
		r := recover()
		out("s35_f0.0 recover " + classify(r))
		
		
	}()
	defer func() {
		defer func() {
			out("s35_f0.1 inner " + classify(recover()))
		}()
		panic("inner-s35_f0.1")
	}()
	out("s35_f0 exit " + itoa(res))
	return res + 1
}

func s35_f1() (res int) {
	out("s35_f1 enter")
	x := 10
	_ = x
	defer logi("s35_f1.0 defer-arg", x)
	x += 7
	defer func() {
		r := recover()
		out("s35_f1.1 recover " + classify(r))
		res = 100 + res
		
	}()
	defer func() {
		defer func() {
			out("s35_f1.2 inner " + classify(recover()))
		}()
		panic("inner-s35_f1.2")
	}()
	res += func() (r int) {
		defer func() {
			if e := recover(); e != nil {
				out("s35_f1.3 wrapper-recover " + classify(e))
				r = 77
			}
		}()
		return s35_f2()
	}()
	res += s35_f2()
	out("s35_f1.4 after-call " + itoa(res))
	defer func() {
		helperRecover("s35_f1.5")
	}()
	out("s35_f1 exit " + itoa(res))
	return res + 1
}

func s35_f2() (res int) {
	out("s35_f2 enter")
	x := 20
	_ = x
	if x >= 0 {
		panic(myErr{2})
	}
	{
		done := make(chan bool)
		go func() {
			defer func() { done <- true }()
			defer func() { out("s35_f2.1 goexit-recover " + classify(recover())) }()
			defer logi("s35_f2.1 goexit-defer", x)
			runtime.Goexit()
			out("unreachable")
		}()
		<-done
	}
	if x >= 0 {
		panic(myErr{2})
	}
	defer func() {
		r := recover()
		out("s35_f2.3 recover " + classify(r))
		if r != nil { res = -1 }
		
	}()
	out("s35_f2.4 plain-recover " + classify(recover()))
	out("s35_f2 exit " + itoa(res))
	return res + 1
}

func s35_main() {
	defer out("main-deferred")
	out("result " + itoa(s35_f0()))
	runtime.Goexit()
	out("END")
}

func s36_f0() (res int) {
	out("s36_f0 enter")
	x := 0
	_ = x
	defer func() {
		r := recover()
		out("s36_f0.0 recover " + classify(r))
		out("second " + classify(recover()))
		
	}()
	boom(3)
	defer logi("s36_f0.2 defer-arg", x)
	x += 7
	defer logi("s36_f0.3 defer-arg", x)
	x += 7
	defer logi("s36_f0.4 defer-arg", x)
	x += 7
	res += 3
	out("s36_f0 exit " + itoa(res))
	return res + 1
}

func s36_main() {
	go func() { out("result " + itoa(s36_f0())) }()
	<-make(chan int)
	out("END")
}

func s37_f0() (res int) {
	out("s37_f0 enter")
	x := 0
	_ = x
	res += s37_f2()
	out("s37_f0.0 after-call " + itoa(res))
	defer logi("s37_f0.1 defer-arg", x)
	x += 7
	res += s37_f3()
	out("s37_f0.2 after-call " + itoa(res))
	defer logi("s37_f0.3 defer-arg", x)
	x += 7
	defer logi("s37_f0.4 defer-arg", x)
	x += 7
	out("s37_f0 exit " + itoa(res))
	return res + 1
}

func s37_f1() (res int) {
	out("s37_f1 enter")
	x := 10
	_ = x
	{
		done := make(chan bool)
		go func() {
			defer func() { done <- true }()
			defer func() { out("s37_f1.0 goexit-recover " + classify(recover())) }()
			defer logi("s37_f1.0 goexit-defer", x)
			runtime.Goexit()
			out("unreachable")
		}()
		<-done
	}
	out("s37_f1 exit " + itoa(res))
	return res + 1
}

func s37_f2() (res int) {
	out("s37_f2 enter")
	x := 20
	_ = x
	defer func() {
		r := recover()
		out("s37_f2.0 recover " + classify(r))
		out("second " + classify(recover()))
		
	}()
	defer logi("s37_f2.1 defer-arg", x)
	x += 7
	defer func() {
		r := recover()
		out("s37_f2.2 recover " + classify(r))
		
		
	}()
	{
		done := make(chan int)
		go func() {
			v := -1
			defer func() {
				out("s37_f2.3 goroutine-recover " + classify(recover()))
				done <- v
			}()
			v = s37_f3()
		}()
		res += <-done
	}
	defer func() {
		defer func() {
			out("s37_f2.4 inner " + classify(recover()))
		}()
		panic("inner-s37_f2.4")
	}()
	defer logi("s37_f2.5 defer-arg", x)
	x += 7
	out("s37_f2 exit " + itoa(res))
	return res + 1
}

func s37_f3() (res int) {
	out("s37_f3 enter")
	x := 30
	_ = x
	res += 3
	defer func() {
		out("s37_f3.1 defer-panics")
		panic("from-defer-s37_f3.1")
	}()
	if x >= 0 {
		panic(myErr{3})
	}
	defer func() {
		r := recover()
		out("s37_f3.4 recover " + classify(r))
		res = 100 + res
		
	}()
	defer logi("s37_f3.5 defer-arg", x)
	x += 7
	out("s37_f3 exit " + itoa(res))
	return res + 1
}

func s37_main() {
	out("result " + itoa(s37_f0()))
	out("END")
}

func s38_f0() (res int) {
	out("s38_f0 enter")
	x := 0
	_ = x
	defer logi("s38_f0.0 defer-arg", x)
	x += 7
	defer logi("s38_f0.1 defer-arg", x)
	x += 7
	for k := 0; k < 3; k++ {
		defer logi("s38_f0.2 loop-defer", k+x)
	}
	defer logi("s38_f0.3 defer-arg", x)
	x += 7
	out("s38_f0 exit " + itoa(res))
	return res + 1
}

func s38_f1() (res int) {
	out("s38_f1 enter")
	x := 10
	_ = x
	defer logi("s38_f1.0 defer-arg", x)
	x += 7
	defer logi("s38_f1.1 defer-arg", x)
	x += 7
	out("s38_f1 exit " + itoa(res))
	return res + 1
}

func s38_main() {
	for round := 0; round < 2; round++ {
		func() {
			defer func() { out("main-recover " + classify(recover())) }()
			out("result " + itoa(s38_f0()))
		}()
	}
	out("END")
}

func s39_f0() (res int) {
	out("s39_f0 enter")
	x := 0
	_ = x
	defer logi("s39_f0.0 defer-arg", x)
	x += 7
	defer logi("s39_f0.1 defer-arg", x)
	x += 7
	res += func() (r int) {
		defer func() {
			if e := recover(); e != nil {
				out("s39_f0.2 wrapper-recover " + classify(e))
				r = 77
			}
		}()
		return s39_f3()
	}()
	defer logi("s39_f0.3 defer-arg", x)
	x += 7
	out("s39_f0 exit " + itoa(res))
	return res + 1
}

func s39_f1() (res int) {
	out("s39_f1 enter")
	x := 10
	_ = x
	defer func() {
		r := recover()
		out("s39_f1.0 recover " + classify(r))
		
		
	}()
	defer logi("s39_f1.1 defer-arg", x)
	x += 7
	defer func() {
		helperRecover("s39_f1.2")
	}()
	{
		done := make(chan bool)
		go func() {
			defer func() { done <- true }()
			defer func() { out("s39_f1.3 goexit-recover " + classify(recover())) }()
			defer logi("s39_f1.3 goexit-defer", x)
			runtime.Goexit()
			out("unreachable")
		}()
		<-done
	}
	defer func() {
		runtime.Gosched()
		out("s39_f1.4 defer-yield")
	}()
	defer logi("s39_f1.5 defer-arg", x)
	x += 7
	out("s39_f1 exit " + itoa(res))
	return res + 1
}

func s39_f2() (res int) {
	out("s39_f2 enter")
	x := 20
	_ = x
	defer func() {
		helperRecover("s39_f2.0")
	}()
	out("s39_f2 exit " + itoa(res))
	return res + 1
}

func s39_f3() (res int) {
	out("s39_f3 enter")
	x := 30
	_ = x
	defer func() {
		out("s39_f3.0 defer-panics")
		panic("from-defer-s39_f3.0")
	}()
	defer func() {
		r := recover()
		out("s39_f3.1 recover " + classify(r))
		panic("replaced-s39_f3.1")
		
	}()
	out("s39_f3 exit " + itoa(res))
	return res + 1
}

func s39_main() {
	for round := 0; round < 2; round++ {
		func() {
			defer func() { out("main-recover " + classify(recover())) }()
			out("result " + itoa(s39_f0()))
		}()
	}
	out("END")
}

func s40_f0() (res int) {
	out("s40_f0 enter")
	x := 0
	_ = x
	res += 3
	out("s40_f0.1 plain-recover " + classify(recover()))
	out("s40_f0 exit " + itoa(res))
	return res + 1
}

func s40_main() {
	out("result " + itoa(s40_f0()))
	out("END")
}

func s41_f0() (res int) {
	out("s41_f0 enter")
	x := 0
	_ = x
	defer logi("s41_f0.0 defer-arg", x)
	x += 7
	defer logi("s41_f0.1 defer-arg", x)
	x += 7
	out("s41_f0 exit " + itoa(res))
	return res + 1
}

func s41_main() {
	for round := 0; round < 2; round++ {
		func() {
			defer func() { out("main-recover " + classify(recover())) }()
			out("result " + itoa(s41_f0()))
		}()
	}
	out("END")
}

func s42_f0() (res int) {
	out("s42_f0 enter")
	x := 0
	_ = x
	defer func() {
		r := recover()
		out("s42_f0.0 recover " + classify(r))
		
		if r != nil { panic(r) }
	}()
	out("s42_f0.1 plain-recover " + classify(recover()))
	out("s42_f0 exit " + itoa(res))
	return res + 1
}

func s42_main() {
	for round := 0; round < 2; round++ {
		func() {
			defer func() { out("main-recover " + classify(recover())) }()
			out("result " + itoa(s42_f0()))
		}()
	}
	out("END")
}

func s43_f0() (res int) {
	out("s43_f0 enter")
	x := 0
	_ = x
	out("s43_f0.0 plain-recover " + classify(recover()))
	defer func() {
		helperRecover("s43_f0.1")
	}()
	defer logi("s43_f0.2 defer-arg", x)
	x += 7
	defer func() {
		runtime.Gosched()
		out("s43_f0.3 defer-yield")
	}()
	out("s43_f0 exit " + itoa(res))
	return res + 1
}

func s43_main() {
	defer func() { out("main-recover " + classify(recover())) }()
	out("result " + itoa(s43_f0()))
	out("END")
}

func s44_f0() (res int) {
	out("s44_f0 enter")
	x := 0
	_ = x
	for k := 0; k < 3; k++ {
		defer logi("s44_f0.1 loop-defer", k+x)
	}
	out("s44_f0 exit " + itoa(res))
	return res + 1
}

func s44_main() {
	go func() { out("result " + itoa(s44_f0())) }()
	<-make(chan int)
	out("END")
}

func s45_f0() (res int) {
	out("s45_f0 enter")
	x := 0
	_ = x
	for k := 0; k < 3; k++ {
		defer logi("s45_f0.0 loop-defer", k+x)
	}
	defer logi("s45_f0.1 defer-arg", x)
	x += 7
	out("s45_f0 exit " + itoa(res))
	return res + 1
}

func s45_main() {
	defer func() { out("main-recover " + classify(recover())) }()
	out("result " + itoa(s45_f0()))
	out("END")
}

func s46_f0() (res int) {
	out("s46_f0 enter")
	x := 0
	_ = x
	defer func() {
		runtime.Gosched()
		out("s46_f0.0 defer-yield-panics")
		panic("from-yield-defer-s46_f0.0")
	}()
	defer func() {
		helperRecover("s46_f0.1")
	}()
	defer func() {
		runtime.Gosched()
		out("s46_f0.2 defer-yield")
	}()
	defer rec{"s46_f0.3"}.recoverHere()
	defer logi("s46_f0.4 defer-arg", x)
	x += 7
	out("s46_f0 exit " + itoa(res))
	return res + 1
}

func s46_f1() (res int) {
	out("s46_f1 enter")
	x := 10
	_ = x
	defer logi("s46_f1.0 defer-arg", x)
	x += 7
	out("s46_f1 exit " + itoa(res))
	return res + 1
}

func s46_main() {
	out("result " + itoa(s46_f0()))
	out("END")
}

func s47_f0() (res int) {
	out("s47_f0 enter")
	x := 0
	_ = x
	defer func() {
		r := recover()
		out("s47_f0.0 recover " + classify(r))
		if r != nil { res = -1 }
		
	}()
	for k := 0; k < 3; k++ {
		defer logi("s47_f0.1 loop-defer", k+x)
	}
	out("s47_f0 exit " + itoa(res))
	return res + 1
}

func s47_f1() (res int) {
	out("s47_f1 enter")
	x := 10
	_ = x
	defer func() {
		r := recover()
		out("s47_f1.0 recover " + classify(r))
		panic("replaced-s47_f1.0")
		
	}()
	defer func() {
		r := recover()
		out("s47_f1.1 recover " + classify(r))
		panic("replaced-s47_f1.1")
		
	}()
	out("s47_f1 exit " + itoa(res))
	return res + 1
}

func s47_f2() (res int) {
	out("s47_f2 enter")
	x := 20
	_ = x
	for k := 0; k < 3; k++ {
		defer logi("s47_f2.0 loop-defer", k+x)
	}
	defer func() {
		helperRecover("s47_f2.1")
	}()
	defer func() {
		out("s47_f2.2 defer-panics")
		panic("from-defer-s47_f2.2")
	}()
	defer rec{"s47_f2.3"}.recoverHere()
	out("s47_f2 exit " + itoa(res))
	return res + 1
}

func s47_f3() (res int) {
	out("s47_f3 enter")
	x := 30
	_ = x
	if x > 1000000 {
		return 5
	}
	res += 1
	out("s47_f3.1 plain-recover " + classify(recover()))
	out("s47_f3 exit " + itoa(res))
	return res + 1
}

func s47_main() {
	out("result " + itoa(s47_f0()))
	out("END")
}

func s48_f0() (res int) {
	out("s48_f0 enter")
	x := 0
	_ = x
	defer func() {
		runtime.Gosched()
		out("s48_f0.0 defer-yield-panics")
		panic("from-yield-defer-s48_f0.0")
	}()
	res += 3
	res += 3
	out("s48_f0 exit " + itoa(res))
	return res + 1
}

func s48_main() {
	out("result " + itoa(s48_f0()))
	out("END")
}

func s49_f0() (res int) {
	out("s49_f0 enter")
	x := 0
	_ = x
	defer logi("s49_f0.0 defer-arg", x)
	x += 7
	if x >= 0 {
		panic(myErr{0})
	}
	out("s49_f0 exit " + itoa(res))
	return res + 1
}

func s49_main() {
	for round := 0; round < 2; round++ {
		func() {
			defer func() { out("main-recover " + classify(recover())) }()
			out("result " + itoa(s49_f0()))
		}()
	}
	out("END")
}

func s50_f0() (res int) {
	out("s50_f0 enter")
	x := 0
	_ = x
	out("s50_f0.0 plain-recover " + classify(recover()))
	out("s50_f0 exit " + itoa(res))
	return res + 1
}

func s50_f1() (res int) {
	out("s50_f1 enter")
	x := 10
	_ = x
	out("s50_f1.0 plain-recover " + classify(recover()))
	defer func() {
		out("s50_f1.1 defer-panics")
		panic("from-defer-s50_f1.1")
	}()
	out("s50_f1 exit " + itoa(res))
	return res + 1
}

func s50_main() {
	out("result " + itoa(s50_f0()))
	out("END")
}

func s51_f0() (res int) {
	out("s51_f0 enter")
	x := 0
	_ = x
	out("s51_f0.0 plain-recover " + classify(recover()))
	defer func() {
		helperRecover("s51_f0.2")
	}()
	out("s51_f0 exit " + itoa(res))
	return res + 1
}

func s51_main() {
	out("result " + itoa(s51_f0()))
	out("END")
}

func s52_f0() (res int) {
	out("s52_f0 enter")
	x := 0
	_ = x
	{
		done := make(chan int)
		go func() {
			v := -1
			defer func() {
				out("s52_f0.0 goroutine-recover " + classify(recover()))
				done <- v
			}()
			v = s52_f2()
		}()
		res += <-done
	}
	out("s52_f0 exit " + itoa(res))
	return res + 1
}

func s52_f1() (res int) {
	out("s52_f1 enter")
	x := 10
	_ = x
	defer func() {
		helperRecover("s52_f1.0")
	}()
	defer logi("s52_f1.1 defer-arg", x)
	x += 7
	out("s52_f1 exit " + itoa(res))
	return res + 1
}

func s52_f2() (res int) {
	out("s52_f2 enter")
	x := 20
	_ = x
	defer func() {
		r := recover()
		out("s52_f2.0 recover " + classify(r))
		
		if r != nil { panic(r) }
	}()
	if x >= 0 {
		panic(error(myErr{7}))
	}
	out("s52_f2 exit " + itoa(res))
	return res + 1
}

func s52_main() {
	for round := 0; round < 2; round++ {
		func() {
			defer func() { out("main-recover " + classify(recover())) }()
			out("result " + itoa(s52_f0()))
		}()
	}
	out("END")
}

func s53_f0() (res int) {
	out("s53_f0 enter")
	x := 0
	_ = x
	defer rec{"s53_f0.0"}.recoverHere()
	defer func() {
		r := recover()
		out("s53_f0.1 recover " + classify(r))
		panic("replaced-s53_f0.1")
		
	}()
	defer logi("s53_f0.2 defer-arg", x)
	x += 7
	defer logi("s53_f0.3 defer-arg", x)
	x += 7
	{
		done := make(chan int)
		go func() {
			v := -1
			defer func() {
				out("s53_f0.4 goroutine-recover " + classify(recover()))
				done <- v
			}()
			v = s53_f2()
		}()
		res += <-done
	}
	defer func() {
		r := recover()
		out("s53_f0.5 recover " + classify(r))
		
		if r != nil { panic(r) }
	}()
	out("s53_f0 exit " + itoa(res))
	return res + 1
}

func s53_f1() (res int) {
	out("s53_f1 enter")
	x := 10
	_ = x
	defer rec{"s53_f1.0"}.recoverHere()
	res += func() (r int) {
		defer func() {
			if e := recover(); e != nil {
				out("s53_f1.1 wrapper-recover " + classify(e))
				r = 77
			}
		}()
		return s53_f2()
	}()
	out("s53_f1 exit " + itoa(res))
	return res + 1
}

func s53_f2() (res int) {
	out("s53_f2 enter")
	x := 20
	_ = x
	defer func() {
		r := recover()
		out("s53_f2.0 recover " + classify(r))
		
		if r != nil { panic(r) }
	}()
	out("s53_f2 exit " + itoa(res))
	return res + 1
}

func s53_main() {
	defer out("main-deferred")
	out("result " + itoa(s53_f0()))
	runtime.Goexit()
	out("END")
}

func s54_f0() (res int) {
	out("s54_f0 enter")
	x := 0
	_ = x
	defer func() {
		r := recover()
		out("s54_f0.0 recover " + classify(r))
		res = 100 + res
		
	}()
	defer logi("s54_f0.1 defer-arg", x)
	x += 7
	out("s54_f0 exit " + itoa(res))
	return res + 1
}

func s54_main() {
	out("result " + itoa(s54_f0()))
	out("END")
}

func s55_f0() (res int) {
	out("s55_f0 enter")
	x := 0
	_ = x
	defer func() {
		runtime.Gosched()
		out("s55_f0.0 defer-yield-panics")
		panic("from-yield-defer-s55_f0.0")
	}()
	out("s55_f0 exit " + itoa(res))
	return res + 1
}

func s55_f1() (res int) {
	out("s55_f1 enter")
	x := 10
	_ = x
	res += s55_f2()
	out("s55_f1.0 after-call " + itoa(res))
	defer logi("s55_f1.1 defer-arg", x)
	x += 7
	out("s55_f1 exit " + itoa(res))
	return res + 1
}

func s55_f2() (res int) {
	out("s55_f2 enter")
	x := 20
	_ = x
	res += 3
	defer func() {
		r := recover()
		out("s55_f2.1 recover " + classify(r))
		res = 100 + res
		
	}()
	out("s55_f2 exit " + itoa(res))
	return res + 1
}

func s55_main() {
	for round := 0; round < 2; round++ {
		func() {
			defer func() { out("main-recover " + classify(recover())) }()
			out("result " + itoa(s55_f0()))
		}()
	}
	out("END")
}

func s56_f0() (res int) {
	out("s56_f0 enter")
	x := 0
	_ = x
	defer func() {
		runtime.Gosched()
		out("s56_f0.0 defer-yield-panics")
		panic("from-yield-defer-s56_f0.0")
	}()
	out("s56_f0 exit " + itoa(res))
	return res + 1
}

func s56_f1() (res int) {
	out("s56_f1 enter")
	x := 10
	_ = x
	defer logi("s56_f1.0 defer-arg", x)
	x += 7
	defer logi("s56_f1.1 defer-arg", x)
	x += 7
	defer func() {
		out("s56_f1.2 defer-panics")
		panic("from-defer-s56_f1.2")
	}()
	out("s56_f1.3 plain-recover " + classify(recover()))
	{
		done := make(chan bool)
		go func() {
			defer func() { done <- true }()
			defer func() { out("s56_f1.4 goexit-recover " + classify(recover())) }()
			defer logi("s56_f1.4 goexit-defer", x)
			runtime.Goexit()
			out("unreachable")
		}()
		<-done
	}
	if x > 1000000 {
		return 5
	}
	res += 1
	out("s56_f1 exit " + itoa(res))
	return res + 1
}

func s56_main() {
	defer func() { out("main-recover " + classify(recover())) }()
	out("result " + itoa(s56_f0()))
	out("END")
}

func s57_f0() (res int) {
	out("s57_f0 enter")
	x := 0
	_ = x
	defer func() {
		runtime.Gosched()
		out("s57_f0.0 defer-yield")
	}()
	defer logi("s57_f0.1 defer-arg", x)
	x += 7
	if x > 1000000 {
		return 5
	}
	res += 1
	out("s57_f0 exit " + itoa(res))
	return res + 1
}

func s57_f1() (res int) {
	out("s57_f1 enter")
	x := 10
	_ = x
	defer func() {
		r := recover()
		out("s57_f1.0 recover " + classify(r))
		out("second " + classify(recover()))
		
	}()
	boom(2)
	defer func() {
		res = res*2 + 1
		out("s57_f1.2 defer-res " + itoa(res))
	}()
	out("s57_f1 exit " + itoa(res))
	return res + 1
}

func s57_main() {
	out("result " + itoa(s57_f0()))
	out("END")
}

func s58_f0() (res int) {
	out("s58_f0 enter")
	x := 0
	_ = x
	defer func() {
		runtime.Gosched()
		out("s58_f0.0 defer-yield-panics")
		panic("from-yield-defer-s58_f0.0")
	}()
	defer logi("s58_f0.1 defer-arg", x)
	x += 7
	out("s58_f0 exit " + itoa(res))
	return res + 1
}

func s58_f1() (res int) {
	out("s58_f1 enter")
	x := 10
	_ = x
	defer func() {
		r := recover()
		out("s58_f1.0 recover " + classify(r))
		
		if r != nil { panic(r) }
	}()
	defer logi("s58_f1.1 defer-arg", x)
	x += 7
	{
		done := make(chan bool)
		go func() {
			defer func() { done <- true }()
			defer func() { out("s58_f1.2 goexit-recover " + classify(recover())) }()
			defer logi("s58_f1.2 goexit-defer", x)
			runtime.Goexit()
			out("unreachable")
		}()
		<-done
	}
	defer func() {
		r := recover()
		out("s58_f1.3 recover " + classify(r))
		panic("replaced-s58_f1.3")
		
	}()
	out("s58_f1 exit " + itoa(res))
	return res + 1
}

func s58_f2() (res int) {
	out("s58_f2 enter")
	x := 20
	_ = x
	defer logi("s58_f2.0 defer-arg", x)
	x += 7
	out("s58_f2.1 plain-recover " + classify(recover()))
	defer func() {
		r := recover()
		out("s58_f2.2 recover " + classify(r))
		
		if r != nil { panic(r) }
	}()
	for k := 0; k < 3; k++ {
		defer logi("s58_f2.3 loop-defer", k+x)
	}
	out("s58_f2 exit " + itoa(res))
	return res + 1
}

func s58_main() {
	out("result " + itoa(s58_f0()))
	out("END")
}

func s59_f0() (res int) {
	out("s59_f0 enter")
	x := 0
	_ = x
	defer logi("s59_f0.0 defer-arg", x)
	x += 7
	defer func() {
		runtime.Gosched()
		out("s59_f0.1 defer-yield-panics")
		panic("from-yield-defer-s59_f0.1")
	}()
	defer func() {
		r := recover()
		out("s59_f0.2 recover " + classify(r))
		panic("replaced-s59_f0.2")
		
	}()
	{
		done := make(chan bool)
		go func() {
			defer func() { done <- true }()
			defer func() { out("s59_f0.3 goexit-recover " + classify(recover())) }()
			defer logi("s59_f0.3 goexit-defer", x)
			runtime.Goexit()
			out("unreachable")
		}()
		<-done
	}
	defer logi("s59_f0.4 defer-arg", x)
	x += 7
	out("s59_f0 exit " + itoa(res))
	return res + 1
}

func s59_f1() (res int) {
	out("s59_f1 enter")
	x := 10
	_ = x
	defer func() {
		res = res*2 + 1
		out("s59_f1.0 defer-res " + itoa(res))
	}()
	boom(0)
	out("s59_f1 exit " + itoa(res))
	return res + 1
}

func s59_f2() (res int) {
	out("s59_f2 enter")
	x := 20
	_ = x
	out("s59_f2.0 plain-recover " + classify(recover()))
	defer func() {
		res = res*2 + 1
		out("s59_f2.1 defer-res " + itoa(res))
	}()
	defer func() {
		r := recover()
		out("s59_f2.2 recover " + classify(r))
		res = 100 + res
		
	}()
	defer func() {
		defer func() {
			out("s59_f2.3 inner " + classify(recover()))
		}()
		panic("inner-s59_f2.3")
	}()
	if x >= 0 {
		panic(error(myErr{7}))
	}
	res += func() (r int) {
		defer func() {
			if e := recover(); e != nil {
				out("s59_f2.5 wrapper-recover " + classify(e))
				r = 77
			}
		}()
		return s59_f3()
	}()
	out("s59_f2 exit " + itoa(res))
	return res + 1
}

func s59_f3() (res int) {
	out("s59_f3 enter")
	x := 30
	_ = x
	defer logi("s59_f3.0 defer-arg", x)
	x += 7
	defer func() {
		r := recover()
		out("s59_f3.1 recover " + classify(r))
		
		
	}()
	out("s59_f3 exit " + itoa(res))
	return res + 1
}

func s59_main() {
	defer func() { out("main-recover " + classify(recover())) }()
	out("result " + itoa(s59_f0()))
	out("END")
}

func main() {
	switch argv(0) {
	case "0":
		s0_main()
	case "1":
		s1_main()
	case "2":
		s2_main()
	case "3":
		s3_main()
	case "4":
		s4_main()
	case "5":
		s5_main()
	case "6":
		s6_main()
	case "7":
		s7_main()
	case "8":
		s8_main()
	case "9":
		s9_main()
	case "10":
		s10_main()
	case "11":
		s11_main()
	case "12":
		s12_main()
	case "13":
		s13_main()
	case "14":
		s14_main()
	case "15":
		s15_main()
	case "16":
		s16_main()
	case "17":
		s17_main()
	case "18":
		s18_main()
	case "19":
		s19_main()
	case "20":
		s20_main()
	case "21":
		s21_main()
	case "22":
		s22_main()
	case "23":
		s23_main()
	case "24":
		s24_main()
	case "25":
		s25_main()
	case "26":
		s26_main()
	case "27":
		s27_main()
	case "28":
		s28_main()
	case "29":
		s29_main()
	case "30":
		s30_main()
	case "31":
		s31_main()
	case "32":
		s32_main()
	case "33":
		s33_main()
	case "34":
		s34_main()
	case "35":
		s35_main()
	case "36":
		s36_main()
	case "37":
		s37_main()
	case "38":
		s38_main()
	case "39":
		s39_main()
	case "40":
		s40_main()
	case "41":
		s41_main()
	case "42":
		s42_main()
	case "43":
		s43_main()
	case "44":
		s44_main()
	case "45":
		s45_main()
	case "46":
		s46_main()
	case "47":
		s47_main()
	case "48":
		s48_main()
	case "49":
		s49_main()
	case "50":
		s50_main()
	case "51":
		s51_main()
	case "52":
		s52_main()
	case "53":
		s53_main()
	case "54":
		s54_main()
	case "55":
		s55_main()
	case "56":
		s56_main()
	case "57":
		s57_main()
	case "58":
		s58_main()
	case "59":
		s59_main()
	}
}
