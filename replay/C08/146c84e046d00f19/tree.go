func s2_f0() (res int) {
	out("s2_f0 enter")
	x := 0
	_ = x
	res += 3
	if x > 1000000 {
		return 5
	}
	res += 1
	out("s2_f0 exit " + itoa(res))
	return res + 1
}

func s2_main() {
	out("result " + itoa(s2_f0()))
	out("END")
}

